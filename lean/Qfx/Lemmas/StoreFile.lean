/- the file store model refines the abstract store: header = rendering of the log, body holds the bytes, counters and
   creation time round-trip through their files (C16_file_full); reused by C17 for the recovered view of crash images -/
import Qfx.Lemmas.StoreRefine
namespace Qfx.Store
open Qfx Qfx.Spec.Store

/-- largest Go `int` -/
def maxInt : Nat := 9223372036854775807

/-- one index line and the bytes it points at -/
structure Ent where
  seq : Nat
  off : Nat
  msg : Bytes

def renderH : List Ent → Bytes
  | [] => []
  | e :: t => headerLine (e.seq : Int) e.off e.msg.length ++ renderH t

def BodyOK (B : Bytes) (ents : List Ent) : Prop := ∀ e ∈ ents, (B.drop e.off).take e.msg.length = e.msg
def EntsB (ents : List Ent) : Prop := ∀ e ∈ ents, e.seq ≤ maxInt ∧ e.off ≤ maxInt ∧ e.msg.length ≤ maxInt
def entMsgs (ents : List Ent) : MsgMap := ents.map fun e => (e.seq, e.msg)

theorem renderH_append (a b : List Ent) : renderH (a ++ b) = renderH a ++ renderH b := by
  induction a with
  | nil => rfl
  | cons e t ih => simp [renderH, ih]

theorem headerLine_ne_nil (s : Int) (o l : Nat) : 1 ≤ (headerLine s o l).length := by
  simp [headerLine]; omega

theorem renderH_length (ents : List Ent) : ents.length ≤ (renderH ents).length := by
  induction ents with
  | nil => simp [renderH]
  | cons e t ih =>
    have := headerLine_ne_nil (e.seq : Int) e.off e.msg.length
    simp only [renderH, List.length_append, List.length_cons]; omega

theorem readAt_ok (B : Bytes) (off : Nat) (msg : Bytes) (h : (B.drop off).take msg.length = msg) :
    readAt B (off : Int) (msg.length : Int) = .ok msg := by
  unfold readAt
  have h1 : ¬ ((msg.length : Int) < 0) := by omega
  have h2 : ¬ ((off : Int) < 0) := by omega
  rw [if_neg h1, if_neg h2]
  by_cases h0 : (msg.length : Int) = 0
  · have : msg = [] := by
      have : msg.length = 0 := by omega
      exact List.eq_nil_of_length_eq_zero this
    rw [if_pos h0, this]
  · rw [if_neg h0]
    simp only [Int.toNat_natCast, h]
    simp

theorem selectRange_none (l : MsgMap) (b e : Int) (h : ∀ q ∈ l, e < (q.1 : Int)) : selectRange b e l = [] := by
  induction l with
  | nil => rfl
  | cons p t ih =>
    have := h p (by simp)
    rw [selectRange_cons, inRange_false _ _ _ (by omega), ih (fun q hq => h q (by simp [hq]))]; simp

theorem fileIterLoop_eq (B : Bytes) (b e : Int) (k : Nat) : ∀ (ents : List Ent) (fuel calls : Nat) (acc : List Bytes),
    ents.length < fuel → BodyOK B ents → EntsB ents → Sorted (entMsgs ents) →
    fileIterLoop B b e k fuel (renderH ents) calls acc
      = ((deliverFrom k calls acc (selectRange b e (entMsgs ents))).1,
         if (deliverFrom k calls acc (selectRange b e (entMsgs ents))).2 then IterEnd.ok else IterEnd.err) := by
  intro ents
  induction ents with
  | nil =>
    intro fuel calls acc hf _ _ _
    cases fuel with
    | zero => omega
    | succ f => simp [fileIterLoop, renderH, scanf3, scanNum, entMsgs, selectRange, deliverFrom]
  | cons en t ih =>
    intro fuel calls acc hf hb hbd hso
    cases fuel with
    | zero => omega
    | succ f =>
      have hbe := hbd en (by simp)
      have hbody := hb en (by simp)
      have hso' : Sorted (entMsgs t) := (List.pairwise_cons.1 hso).2
      have hgt : ∀ q ∈ entMsgs t, en.seq < q.1 := (List.pairwise_cons.1 hso).1
      have hsc := scanf3_headerLine en.seq en.off en.msg.length (renderH t) hbe.1 hbe.2.1 hbe.2.2
      have ihh := fun calls acc => ih f calls acc (by simp at hf; omega) (fun x hx => hb x (by simp [hx]))
        (fun x hx => hbd x (by simp [hx])) hso'
      have hms : entMsgs (en :: t) = (en.seq, en.msg) :: entMsgs t := rfl
      unfold fileIterLoop
      simp only [renderH, hsc]
      by_cases h1 : (en.seq : Int) > e
      · have hnone : selectRange b e (entMsgs (en :: t)) = [] := by
          apply selectRange_none
          intro q hq
          rw [hms] at hq
          rcases List.mem_cons.1 hq with rfl | hq
          · exact h1
          · have := hgt q hq; omega
        rw [if_pos h1, hnone]; simp [deliverFrom]
      · rw [if_neg h1]
        by_cases h2 : (en.seq : Int) < b
        · rw [if_pos h2, ihh, hms, selectRange_cons, inRange_false _ _ _ (by simp only; omega)]; simp
        · rw [if_neg h2, readAt_ok B en.off en.msg hbody]
          simp only
          rw [hms, selectRange_cons, inRange_true _ _ _ (by simp only; omega)]
          simp only [if_true]
          rw [deliverFrom]
          by_cases hk : k ≠ 0 ∧ calls + 1 = k
          · rw [if_pos hk, if_pos hk]; simp
          · rw [if_neg hk, if_neg hk, ihh]

theorem fileIterate_eq (B : Bytes) (ents : List Ent) (b e : Int) (k : Nat)
    (hb : BodyOK B ents) (hbd : EntsB ents) (hso : Sorted (entMsgs ents)) :
    fileIterate (renderH ents) B b e k
      = ((cbRun k (selectRange b e (entMsgs ents))).1, if (cbRun k (selectRange b e (entMsgs ents))).2 then IterEnd.ok else IterEnd.err) := by
  unfold fileIterate
  rw [fileIterLoop_eq B b e k ents _ 0 [] (by have := renderH_length ents; omega) hb hbd hso, deliverFrom_cbRun]

/-! ## the files -/

theorem applyPrims_append (fs : FS) (a b : List Prim) : applyPrims fs (a ++ b) = applyPrims (applyPrims fs a) b := by
  simp [applyPrims, List.foldl_append]

theorem applyPrims_nil (fs : FS) : applyPrims fs [] = fs := rfl

theorem writeAt_cover (old data : Bytes) (h : old.length ≤ data.length) : writeAt old 0 data = data := by
  simp [writeAt, List.drop_eq_nil_of_le h]

theorem writeAt_end (old data : Bytes) : writeAt old old.length data = old ++ data := by
  simp [writeAt]

theorem fmtNat_length_le (n : Nat) : ∀ k, 1 ≤ k → n < 10 ^ k → (fmtNat n).length ≤ k := by
  fun_induction fmtNat n with
  | case1 n h => intro k hk _; simp; omega
  | case2 n h ih =>
    intro k hk hn
    cases k with
    | zero => omega
    | succ k' =>
      have hk' : 1 ≤ k' := by
        cases k' with
        | zero => simp at hn; omega
        | succ _ => omega
      have : n / 10 < 10 ^ k' := by
        apply Nat.div_lt_of_lt_mul
        rw [Nat.pow_succ] at hn; omega
      have := ih k' hk' this
      simp; omega

theorem fmt019_length (n : Nat) (h : n ≤ maxInt) : (fmt019 (n : Int)).length = 19 := by
  have h0 : ¬ ((n : Int) < 0) := by omega
  have hl : (fmtNat n).length ≤ 19 := fmtNat_length_le n 19 (by omega) (by unfold maxInt at h; omega)
  simp [fmt019, h0, padZero]; omega

theorem parseTime_timeText (t : Nat) : parseTime (timeText t) = some t := by
  have hd : (padZero 12 (fmtNat t)).all isDigit = true := padZero_all_digits _ _ (fmtNat_all_digits t)
  have hv : digitsVal (padZero 12 (fmtNat t)) = t := by
    simp only [padZero, c0]; rw [digitsVal_replicate_zero, digitsVal_fmtNat]
  have hl : 12 ≤ (padZero 12 (fmtNat t)).length := by simp [padZero]; omega
  simp only [parseTime, timeText]
  rw [List.dropLast_concat, List.getLast?_concat]
  simp [hd, hv]; omega

/-! ## the header never ends in an incomplete line (so `dropIncompleteIndexLine` has nothing to do) -/

/-- what `dropIncompleteIndexLine` leaves of header contents `h` -/
def dropTorn (h : Bytes) : Bytes := h.take (keepLen h)

theorem keepLen_nil : keepLen [] = 0 := rfl

theorem keepLen_endNL (l : Bytes) : keepLen (l ++ [cNL]) = (l ++ [cNL]).length := by
  simp [keepLen, List.takeWhile]

def EndsNL (h : Bytes) : Prop := h = [] ∨ ∃ l, h = l ++ [cNL]

theorem keepLen_of_endsNL (h : Bytes) (he : EndsNL h) : keepLen h = h.length := by
  rcases he with rfl | ⟨l, rfl⟩
  · rfl
  · exact keepLen_endNL l

theorem dropTorn_of_endsNL (h : Bytes) (he : EndsNL h) : dropTorn h = h := by
  simp [dropTorn, keepLen_of_endsNL h he]

theorem truncPrims_of_endsNL (sync : Bool) (h : Bytes) (he : EndsNL h) : truncPrims sync h = [] := by
  simp [truncPrims, keepLen_of_endsNL h he]

theorem endsNL_append (a b : Bytes) (hb : ∃ l, b = l ++ [cNL]) : EndsNL (a ++ b) := by
  obtain ⟨l, rfl⟩ := hb
  exact Or.inr ⟨a ++ l, by simp⟩

theorem headerLine_endsNL (s : Int) (o l : Nat) : ∃ x, headerLine s o l = x ++ [cNL] :=
  ⟨fmtD s ++ [cComma] ++ fmtNat o ++ [cComma] ++ fmtNat l, rfl⟩

theorem renderH_endsNL (ents : List Ent) : EndsNL (renderH ents) := by
  induction ents with
  | nil => exact Or.inl rfl
  | cons e t ih =>
    rcases ih with h | ⟨l, h⟩
    · obtain ⟨x, hx⟩ := headerLine_endsNL (e.seq : Int) e.off e.msg.length
      exact Or.inr ⟨x, by simp [renderH, h, hx]⟩
    · exact Or.inr ⟨headerLine (e.seq : Int) e.off e.msg.length ++ l, by simp [renderH, h]⟩

/-- a well-formed set of store files -/
def goodFS (H B : Bytes) (ct S T : Nat) : FS :=
  { header := some H, body := some B, session := some (timeText ct), sender := some (fmt019 (S : Int)), target := some (fmt019 (T : Int)) }

theorem goodFS_header (H B : Bytes) (ct S T : Nat) : (goodFS H B ct S T).header = some H := rfl
theorem goodFS_body (H B : Bytes) (ct S T : Nat) : (goodFS H B ct S T).body = some B := rfl

theorem populate_good (c : MemStore) (H B : Bytes) (ct S T : Nat) (hS : S ≤ maxInt) (hT : T ≤ maxInt) :
    populateCache c (goodFS H B ct S T)
      = (true, { c with ctime := ct, senderM1 := (S : Int) - 1, targetM1 := (T : Int) - 1 }) := by
  simp [populateCache, goodFS, parseTime_timeText, counter_roundtrip S hS, counter_roundtrip T hT, MemStore.setS, MemStore.setT]

theorem apply_setSeq_sender (sync : Bool) (H B : Bytes) (ct S T n : Nat) (hS : S ≤ maxInt) (hn : n ≤ maxInt) :
    applyPrims (goodFS H B ct S T) (setSeqNumPrims sync .sender (n : Int)) = goodFS H B ct n T := by
  have := writeAt_cover (fmt019 (S : Int)) (fmt019 (n : Int)) (by rw [fmt019_length S hS, fmt019_length n hn]; omega)
  cases sync <;> simp [setSeqNumPrims, syncIf, applyPrims, applyPrim, goodFS, FS.get, FS.set, this]

theorem apply_setSeq_target (sync : Bool) (H B : Bytes) (ct S T n : Nat) (hT : T ≤ maxInt) (hn : n ≤ maxInt) :
    applyPrims (goodFS H B ct S T) (setSeqNumPrims sync .target (n : Int)) = goodFS H B ct S n := by
  have := writeAt_cover (fmt019 (T : Int)) (fmt019 (n : Int)) (by rw [fmt019_length T hT, fmt019_length n hn]; omega)
  cases sync <;> simp [setSeqNumPrims, syncIf, applyPrims, applyPrim, goodFS, FS.get, FS.set, this]

theorem apply_close (o : Bool) (fs : FS) : applyPrims fs (closePrims o) = fs := by
  cases o <;> simp [closePrims, applyPrims, applyPrim]

theorem apply_open_good (H B : Bytes) (ct S T : Nat) : applyPrims (goodFS H B ct S T) openPrims = goodFS H B ct S T := by
  simp [openPrims, applyPrims, applyPrim, goodFS, FS.get]

theorem apply_syncBH_creates_good (H B : Bytes) (ct S T : Nat) :
    applyPrims (goodFS H B ct S T) (syncBH ++ [.create .body, .create .header]) = goodFS H B ct S T := by
  simp [syncBH, applyPrims, applyPrim, goodFS, FS.get]

/-- `Refresh` on well-formed files reloads exactly what they say and leaves them as they are -/
theorem refreshOp_good (st : FStore) (H B : Bytes) (ct S T now : Nat) (hS : S ≤ maxInt) (hT : T ≤ maxInt) (hH : EndsNL H) :
    (refreshOp st (goodFS H B ct S T) now).1
        = { st with cache := { senderM1 := (S : Int) - 1, targetM1 := (T : Int) - 1, ctime := ct, map := [] }, opened := true }
    ∧ applyPrims (goodFS H B ct S T) (refreshOp st (goodFS H B ct S T) now).2 = goodFS H B ct S T := by
  have e1 : (S : Int) - 1 + 1 = (S : Int) := by omega
  have e2 : (T : Int) - 1 + 1 = (T : Int) := by omega
  constructor
  · simp [refreshOp, populate_good _ H B ct S T hS hT, MemStore.reset, MemStore.setS, MemStore.setT, MemStore.nextS, MemStore.nextT]
  · simp only [refreshOp, populate_good _ H B ct S T hS hT, MemStore.reset, MemStore.setS, MemStore.setT, MemStore.nextS, MemStore.nextT,
      e1, e2, if_true, List.append_nil, goodFS_header, Option.getD_some, truncPrims_of_endsNL _ H hH]
    rw [applyPrims_append, applyPrims_append, applyPrims_append, apply_close, apply_open_good,
        apply_setSeq_sender _ H B ct S T S hS hS]
    exact apply_setSeq_target _ H B ct S T T hT hT

/-- `Refresh` on an empty directory (first open, or the second half of `Reset`) creates the five files -/
theorem refreshOp_fresh (st : FStore) (ho : st.opened = false) (now : Nat) :
    (refreshOp st {} now).1 = { st with cache := { senderM1 := 0, targetM1 := 0, ctime := now, map := [] }, opened := true }
    ∧ applyPrims {} (refreshOp st {} now).2 = goodFS [] [] now 1 1 := by
  obtain ⟨c, sync, opened⟩ := st
  simp only at ho; subst ho
  constructor
  · simp [refreshOp, populateCache, MemStore.reset, MemStore.setS, MemStore.setT, MemStore.nextS, MemStore.nextT]
  · cases sync <;>
      simp [refreshOp, populateCache, MemStore.reset, MemStore.setS, MemStore.setT, MemStore.nextS, MemStore.nextT, closePrims, openPrims,
        setSessionPrims, setSeqNumPrims, syncIf, applyPrims, applyPrim, FS.get, FS.set, goodFS, writeAt, truncPrims, keepLen]

/-! ## file store ⊑ abstract store -/

def totalLen (l : MsgMap) : Nat := (l.map fun p => p.2.length).sum

theorem totalLen_append (l : MsgMap) (n : Nat) (m : Bytes) : totalLen (l ++ [(n, m)]) = totalLen l + m.length := by
  simp [totalLen]

/-- every number of the abstract state fits a Go `int` (the stores hold them in `int` / `%019d` / `%d`) -/
def Fits (s : AStore) : Prop :=
  s.sender ≤ maxInt ∧ s.target ≤ maxInt ∧ (∀ p ∈ s.msgs, p.1 ≤ maxInt) ∧ totalLen s.msgs ≤ maxInt

def FitsRun : AStore → List Op → Prop
  | _, [] => True
  | s, o :: os => Fits (s.step o).1 ∧ FitsRun (s.step o).1 os

theorem take_drop_append (B X msg : Bytes) (off : Nat) (h : (B.drop off).take msg.length = msg) :
    ((B ++ X).drop off).take msg.length = msg := by
  by_cases hl : msg.length = 0
  · have : msg = [] := List.eq_nil_of_length_eq_zero hl
    subst this; simp
  · have hlen : msg.length ≤ (B.drop off).length := by
      have := congrArg List.length h
      simp only [List.length_take] at this; omega
    have hoff : off ≤ B.length := by simp only [List.length_drop] at hlen; omega
    rw [List.drop_append_of_le_length hoff, List.take_append_of_le_length hlen, h]

theorem apply_save_good (st : FStore) (H B : Bytes) (ct S T : Nat) (n : Int) (m : Bytes) :
    applyPrims (goodFS H B ct S T) (saveMessagePrims st (goodFS H B ct S T) n m)
      = goodFS (H ++ headerLine n B.length m.length) (B ++ m) ct S T := by
  cases hs : st.sync <;>
    simp [saveMessagePrims, hs, len, goodFS, applyPrims, applyPrim, FS.get, FS.set, writeAt_end, syncBH]

theorem apply_remove_all (fs : FS) (o : Bool) : applyPrims fs (closePrims o ++ removePrims) = {} := by
  rw [applyPrims_append, apply_close]
  simp [removePrims, applyPrims, applyPrim, FS.set]

structure FileR (s : AStore) (w : FileW) (hi : Option Nat) (ents : List Ent) (B : Bytes) : Prop where
  opened : w.st.opened = true
  fs : w.fs = goodFS (renderH ents) B w.st.cache.ctime s.sender s.target
  cs : w.st.cache.nextS = (s.sender : Int)
  ct : w.st.cache.nextT = (s.target : Int)
  fresh : w.st.cache.ctime < w.clock
  msgs : s.msgs = entMsgs ents
  body : BodyOK B ents
  entsb : EntsB ents
  blen : B.length = totalLen s.msgs
  sorted : Sorted s.msgs
  hib : HiB hi s.msgs
  fits : Fits s

theorem fileR_init (sync : Bool) : FileR {} (FileW.open sync {} 0) none [] [] := by
  have hf := refreshOp_fresh { cache := MemStore.reset {} 0, sync := sync, opened := false } rfl 1
  constructor <;>
    simp [FileW.open, fileOpenPrims, hf.1, hf.2, renderH, MemStore.nextS, MemStore.nextT, entMsgs, BodyOK, EntsB, totalLen, Sorted,
          HiB, Fits, maxInt]

theorem iterEnd_ok (b : Bool) : ((if b then IterEnd.ok else IterEnd.err) == IterEnd.ok) = b := by cases b <;> rfl

theorem fileR_save_aux (s : AStore) (hi : Option Nat) (ents : List Ent) (B : Bytes) (n : Nat) (m : Bytes)
    (hm : s.msgs = entMsgs ents) (hbody : BodyOK B ents) (hentsb : EntsB ents) (hblen : B.length = totalLen s.msgs)
    (hso : Sorted s.msgs) (hb : HiB hi s.msgs) (hlt : ∀ p ∈ s.msgs, p.1 < n)
    (hfit : (∀ p ∈ s.msgs ++ [(n, m)], p.1 ≤ maxInt) ∧ totalLen (s.msgs ++ [(n, m)]) ≤ maxInt) :
    let ents' := ents ++ [⟨n, B.length, m⟩]
    renderH ents' = renderH ents ++ headerLine (n : Int) B.length m.length
    ∧ s.msgs ++ [(n, m)] = entMsgs ents' ∧ BodyOK (B ++ m) ents' ∧ EntsB ents'
    ∧ (B ++ m).length = totalLen (s.msgs ++ [(n, m)]) ∧ Sorted (s.msgs ++ [(n, m)]) ∧ HiB (some n) (s.msgs ++ [(n, m)]) := by
  intro ents'
  have htl := totalLen_append s.msgs n m
  refine ⟨?_, ?_, ?_, ?_, ?_, sorted_append _ n m hso hlt, hiB_append hi _ n m hlt⟩
  · simp [ents', renderH_append, renderH]
  · simp [ents', entMsgs, hm]
  · intro e he
    rcases List.mem_append.1 he with he | he
    · exact take_drop_append B m e.msg e.off (hbody e he)
    · simp at he; subst he; simp
  · intro e he
    rcases List.mem_append.1 he with he | he
    · exact hentsb e he
    · simp at he; subst he
      refine ⟨hfit.1 (n, m) (by simp), ?_, ?_⟩ <;> simp only <;> omega
  · simp [htl, hblen]

theorem fileR_step (s : AStore) (w : FileW) (hi : Option Nat) (ents : List Ent) (B : Bytes) (o : Op)
    (h : FileR s w hi ents B) (ha : ascendingOk hi o = true) (hfit' : Fits (s.step o).1) :
    ∃ ents' B', FileR (s.step o).1 (w.step o).1 (hiAfter hi o) ents' B' ∧ (w.step o).2 = (s.step o).2 := by
  obtain ⟨hop, hfs, hcs, hct, hfr, hm, hbody, hentsb, hblen, hso, hb, hfit⟩ := h
  obtain ⟨⟨c, sync, opened⟩, fs, clock⟩ := w
  simp only at hop hfs hcs hct hfr
  subst hop; subst hfs
  have hcs' : c.senderM1 + 1 = (s.sender : Int) := hcs
  have hct' : c.targetM1 + 1 = (s.target : Int) := hct
  have hS := hfit.1
  have hT := hfit.2.1
  cases o with
  | setS n =>
    have hn : n ≤ maxInt := hfit'.1
    have hap := apply_setSeq_sender sync (renderH ents) B c.ctime s.sender s.target n hS hn
    refine ⟨ents, B, ⟨rfl, ?_, ?_, ?_, ?_, hm, hbody, hentsb, hblen, hso, hb, hfit'⟩, ?_⟩ <;>
      simp [FileW.step, fileOpPrims, AStore.step, hap, obsOf, MemStore.setS, MemStore.nextS, MemStore.nextT, hct', hfr, hiAfter]
  | setT n =>
    have hn : n ≤ maxInt := hfit'.2.1
    have hap := apply_setSeq_target sync (renderH ents) B c.ctime s.sender s.target n hT hn
    refine ⟨ents, B, ⟨rfl, ?_, ?_, ?_, ?_, hm, hbody, hentsb, hblen, hso, hb, hfit'⟩, ?_⟩ <;>
      simp [FileW.step, fileOpPrims, AStore.step, hap, obsOf, MemStore.setT, MemStore.nextS, MemStore.nextT, hcs', hfr, hiAfter]
  | incS =>
    have hn : s.sender + 1 ≤ maxInt := hfit'.1
    have e : c.senderM1 + 1 + 1 = (s.sender : Int) + 1 := by omega
    have ec : ((s.sender + 1 : Nat) : Int) = (s.sender : Int) + 1 := by omega
    have hap := apply_setSeq_sender sync (renderH ents) B c.ctime s.sender s.target (s.sender + 1) hS hn
    rw [ec] at hap
    refine ⟨ents, B, ⟨rfl, ?_, ?_, ?_, ?_, hm, hbody, hentsb, hblen, hso, hb, hfit'⟩, ?_⟩ <;>
      simp [FileW.step, fileOpPrims, AStore.step, MemStore.nextS, MemStore.nextT, e, hap, obsOf, MemStore.setS, hct', hcs', hfr, hiAfter]
  | incT =>
    have hn : s.target + 1 ≤ maxInt := hfit'.2.1
    have e : c.targetM1 + 1 + 1 = (s.target : Int) + 1 := by omega
    have ec : ((s.target + 1 : Nat) : Int) = (s.target : Int) + 1 := by omega
    have hap := apply_setSeq_target sync (renderH ents) B c.ctime s.sender s.target (s.target + 1) hT hn
    rw [ec] at hap
    refine ⟨ents, B, ⟨rfl, ?_, ?_, ?_, ?_, hm, hbody, hentsb, hblen, hso, hb, hfit'⟩, ?_⟩ <;>
      simp [FileW.step, fileOpPrims, AStore.step, MemStore.nextS, MemStore.nextT, e, hap, obsOf, MemStore.setT, hcs', hct', hfr, hiAfter]
  | save n m =>
    have hlt := asc_keys_lt hi s.msgs n hb (asc_save hi n m ha)
    have hins := ainsert_asc n m s.msgs hlt
    have hf2 : (∀ p ∈ s.msgs ++ [(n, m)], p.1 ≤ maxInt) ∧ totalLen (s.msgs ++ [(n, m)]) ≤ maxInt := by
      have := hfit'; simp only [AStore.step, hins] at this; exact this.2.2
    obtain ⟨a1, a2, a3, a4, a5, a6, a7⟩ := fileR_save_aux s hi ents B n m hm hbody hentsb hblen hso hb hlt hf2
    have hap := apply_save_good ⟨c, sync, true⟩ (renderH ents) B c.ctime s.sender s.target (n : Int) m
    refine ⟨ents ++ [⟨n, B.length, m⟩], B ++ m, ⟨rfl, ?_, ?_, ?_, ?_, ?_, ?_, ?_, ?_, ?_, ?_, hfit'⟩, ?_⟩
    · simp [FileW.step, fileOpPrims, AStore.step, hap, a1]
    · simp [FileW.step, fileOpPrims, AStore.step, hcs]
    · simp [FileW.step, fileOpPrims, AStore.step, hct]
    · simp [FileW.step, fileOpPrims, hfr]
    · simp only [AStore.step, hins]; exact a2
    · exact a3
    · exact a4
    · simp only [AStore.step, hins]; exact a5
    · simp only [AStore.step, hins]; exact a6
    · simp only [AStore.step, hins, hiAfter]; exact a7
    · simp [FileW.step, fileOpPrims, AStore.step, obsOf, MemStore.nextS, MemStore.nextT, hcs', hct']
  | saveIncr n m =>
    have hlt := asc_keys_lt hi s.msgs n hb (asc_saveIncr hi n m ha)
    have hins := ainsert_asc n m s.msgs hlt
    have hf2 : (∀ p ∈ s.msgs ++ [(n, m)], p.1 ≤ maxInt) ∧ totalLen (s.msgs ++ [(n, m)]) ≤ maxInt := by
      have := hfit'; simp only [AStore.step, hins] at this; exact this.2.2
    have hn : s.sender + 1 ≤ maxInt := hfit'.1
    obtain ⟨a1, a2, a3, a4, a5, a6, a7⟩ := fileR_save_aux s hi ents B n m hm hbody hentsb hblen hso hb hlt hf2
    have hap := apply_save_good ⟨c, sync, true⟩ (renderH ents) B c.ctime s.sender s.target (n : Int) m
    have e : c.senderM1 + 1 + 1 = (s.sender : Int) + 1 := by omega
    have ec : ((s.sender + 1 : Nat) : Int) = (s.sender : Int) + 1 := by omega
    have hap2 := apply_setSeq_sender sync (renderH ents ++ headerLine (n : Int) B.length m.length) (B ++ m) c.ctime s.sender s.target
      (s.sender + 1) hS hn
    rw [ec] at hap2
    refine ⟨ents ++ [⟨n, B.length, m⟩], B ++ m, ⟨rfl, ?_, ?_, ?_, ?_, ?_, ?_, ?_, ?_, ?_, ?_, hfit'⟩, ?_⟩
    · simp [FileW.step, fileOpPrims, AStore.step, applyPrims_append, hap, MemStore.nextS, e, hap2, a1, MemStore.setS]
    · simp [FileW.step, fileOpPrims, AStore.step, MemStore.setS, MemStore.nextS, hcs']
    · simp [FileW.step, fileOpPrims, AStore.step, MemStore.setS, MemStore.nextT, hct']
    · simp [FileW.step, fileOpPrims, MemStore.setS, hfr]
    · simp only [AStore.step, hins]; exact a2
    · exact a3
    · exact a4
    · simp only [AStore.step, hins]; exact a5
    · simp only [AStore.step, hins]; exact a6
    · simp only [AStore.step, hins, hiAfter]; exact a7
    · simp [FileW.step, fileOpPrims, AStore.step, obsOf, MemStore.setS, MemStore.nextS, MemStore.nextT, hcs', hct']
  | get b e =>
    have hap := apply_syncBH_creates_good (renderH ents) B c.ctime s.sender s.target
    have hit := fileIterate_eq B ents b e 0 hbody hentsb (hm ▸ hso)
    refine ⟨ents, B, ⟨rfl, ?_, hcs, hct, hfr, hm, hbody, hentsb, hblen, hso, hb, hfit⟩, ?_⟩
    · simp [FileW.step, fileOpPrims, AStore.step, hap]
    · simp [FileW.step, fileOpPrims, AStore.step, hap, goodFS_header, goodFS_body, hit, iterEnd_ok, obsOf, cbRun, hm, MemStore.nextS, MemStore.nextT, hcs', hct']
  | iter b e k =>
    have hap := apply_syncBH_creates_good (renderH ents) B c.ctime s.sender s.target
    have hit := fileIterate_eq B ents b e k hbody hentsb (hm ▸ hso)
    refine ⟨ents, B, ⟨rfl, ?_, hcs, hct, hfr, hm, hbody, hentsb, hblen, hso, hb, hfit⟩, ?_⟩
    · simp [FileW.step, fileOpPrims, AStore.step, hap]
    · simp [FileW.step, fileOpPrims, AStore.step, hap, goodFS_header, goodFS_body, hit, iterEnd_ok, obsOf, hm, MemStore.nextS, MemStore.nextT, hcs', hct']
  | refresh =>
    have hr := refreshOp_good ⟨c, sync, true⟩ (renderH ents) B c.ctime s.sender s.target clock hS hT (renderH_endsNL ents)
    refine ⟨ents, B, ⟨?_, ?_, ?_, ?_, ?_, hm, hbody, hentsb, hblen, hso, hb, hfit⟩, ?_⟩ <;>
      simp [FileW.step, fileOpPrims, AStore.step, hr.1, hr.2, obsOf, MemStore.nextS, MemStore.nextT, hiAfter] <;> omega
  | reopen =>
    have hr := refreshOp_good ⟨MemStore.reset {} clock, sync, false⟩ (renderH ents) B c.ctime s.sender s.target (clock + 1) hS hT (renderH_endsNL ents)
    refine ⟨ents, B, ⟨?_, ?_, ?_, ?_, ?_, hm, hbody, hentsb, hblen, hso, hb, hfit⟩, ?_⟩ <;>
      simp [FileW.step, fileOpPrims, AStore.step, applyPrims_append, apply_close, hr.1, hr.2, obsOf, MemStore.nextS, MemStore.nextT, hiAfter] <;> omega
  | reset =>
    have hrm := apply_remove_all (goodFS (renderH ents) B c.ctime s.sender s.target) true
    rw [applyPrims_append] at hrm
    have hr := refreshOp_fresh ⟨c.reset clock, sync, false⟩ rfl (clock + 1)
    refine ⟨[], [], ⟨?_, ?_, ?_, ?_, ?_, ?_, ?_, ?_, ?_, ?_, ?_, ?_⟩, ?_⟩ <;>
      simp [FileW.step, fileOpPrims, resetOp, AStore.step, applyPrims_append, hrm, hr.1, hr.2, obsOf, MemStore.nextS, MemStore.nextT, hiAfter,
            renderH, entMsgs, BodyOK, EntsB, totalLen, Sorted, HiB, Fits, maxInt] <;>
      first | omega | exact decide_eq_true (by omega) | skip

theorem fileR_run (ops : List Op) : ∀ (s : AStore) (w : FileW) (hi : Option Nat) (ents : List Ent) (B : Bytes),
    FileR s w hi ents B → Asc hi ops → FitsRun s ops → (w.run ops).2 = (s.run ops).2 := by
  induction ops with
  | nil => intro s w hi ents B _ _ _; rfl
  | cons o os ih =>
    intro s w hi ents B h ha hf
    obtain ⟨ents', B', hR, hobs⟩ := fileR_step s w hi ents B o h ha.1 hf.1
    simp only [FileW.run, AStore.run]
    rw [hobs, ih _ _ _ _ _ hR ha.2 hf.2]

end Qfx.Store
