/-
  The witness that `NoTenMember` is necessary for `parse_wire_anydict`: a dictionary whose group 453 lists CheckSum, and a well-formed
  message that the (fixed) parser rejects under it.  Replayed on the real parser by the codec family (`junk.checksum-member`).
-/
import Qfx.Lemmas.CodecAnyDict
namespace Qfx
open Qfx.Spec

/-- a dictionary whose repeating group 453 lists CheckSum (10) as a member -/
def tenC : List DNode := [.mk 448 [], .mk 10 []]
def tenFs : List DNode := [.mk 453 tenC]
def tenD : Dicts := { transport := none, app := some [([68], tenFs)] }

def w8 : TagValue := ⟨8, [70], [56, 61, 70, 1]⟩                -- 8=F
def w9 : TagValue := ⟨9, [49, 55], [57, 61, 49, 55, 1]⟩          -- 9=17
def w35 : TagValue := ⟨35, [68], [51, 53, 61, 68, 1]⟩            -- 35=D
def w453 : TagValue := ⟨453, [49], [52, 53, 51, 61, 49, 1]⟩      -- 453=1
def w448 : TagValue := ⟨448, [97], [52, 52, 56, 61, 97, 1]⟩      -- 448=a
def w10 : TagValue := ⟨10, [48, 48, 48], [49, 48, 61, 48, 48, 48, 1]⟩  -- 10=000

theorem w8_wire : IsWire w8 := ⟨[56], by simp, by simp [cEq, SOH], by rfl, by rfl, by simp [w8, SOH]⟩
theorem w9_wire : IsWire w9 := ⟨[57], by simp, by simp [cEq, SOH], by rfl, by rfl, by simp [w9, SOH]⟩
theorem w35_wire : IsWire w35 := ⟨[51, 53], by simp, by simp [cEq, SOH], by rfl, by rfl, by simp [w35, SOH]⟩
theorem w453_wire : IsWire w453 := ⟨[52, 53, 51], by simp, by simp [cEq, SOH], by rfl, by rfl, by simp [w453, SOH]⟩
theorem w448_wire : IsWire w448 := ⟨[52, 52, 56], by simp, by simp [cEq, SOH], by rfl, by rfl, by simp [w448, SOH]⟩
theorem w10_wire : IsWire w10 := ⟨[49, 48], by simp, by simp [cEq, SOH], by rfl, by rfl, by simp [w10, SOH]⟩

theorem ten_wireMsg : WireMsg w8 w9 w35 [w453, w448] w10 where
  w8 := w8_wire
  w9 := w9_wire
  w35 := w35_wire
  wpre := by
    intro tv h; simp only [List.mem_cons, List.mem_nil_iff, or_false] at h
    rcases h with e | e <;> subst e
    · exact ⟨w453_wire, by decide, by decide⟩
    · exact ⟨w448_wire, by decide, by decide⟩
  w10 := w10_wire
  tag8 := rfl
  tag9 := rfl
  tag35 := rfl
  tag10 := rfl
  single9 := by
    intro tv h; simp only [List.mem_cons, List.mem_nil_iff, or_false] at h
    rcases h with e | e <;> subst e <;> decide

theorem ten_bodyLength : atoi w9.value = .ok ((fieldsLength (w8 :: w9 :: w35 :: ([w453, w448] ++ [w10])) : Nat) : Int) := by rfl


theorem tenApp : AppMsg tenD [68] tenFs := ⟨_, rfl, by simp [alFindB]⟩

/-- A DICTIONARY THAT LISTS CheckSum INSIDE A REPEATING GROUP: the well-formed message `8=F 9=17 35=D 453=1 448=a 10=000` still parses
    (fields = wire fields) — but `parseGroup` takes `10=` for a member of group 453: the CheckSum field ends up inside the body's group
    field and the TRAILER HAS NO CheckSum.  (`parseGroup` runs out of fields, adds the group to the body and returns; `doParsing` ends its
    loop because the field parsed last is CheckSum.  Before the fix of D2 the same input indexed past the field array.) -/
theorem ten_swallowed :
    ∃ m, parseMessage Fixes.cur tenD (wireOf (w8 :: w9 :: w35 :: ([w453, w448] ++ [w10]))) = .ok m ∧
      m.fields = w8 :: w9 :: w35 :: ([w453, w448] ++ [w10]) ∧
      alFind m.trailer.lookup 10 = none ∧ alFind m.body.lookup 453 = some (.view 3 3) := by
  have hrestW : ∀ tv ∈ [w453, w448] ++ [w10], IsWire tv := by
    intro tv h; simp only [List.cons_append, List.nil_append, List.mem_cons, List.mem_nil_iff, or_false] at h
    rcases h with e | e | e <;> subst e
    · exact w453_wire
    · exact w448_wire
    · exact w10_wire
  rw [parseMessage_lead Fixes.cur w8 w9 w35 _ w8_wire w9_wire w35_wire hrestW rfl rfl rfl]
  have hwire : wireOf ([w453, w448] ++ [w10]) = w453.bytes ++ (w448.bytes ++ (w10.bytes ++ [])) := by simp [wireOf]
  rw [hwire]
  have hF : [w8, w9, w35] ++ List.replicate ([w453, w448] ++ [w10]).length TagValue.zero =
      [w8, w9, w35, TagValue.zero, TagValue.zero, TagValue.zero] := rfl
  rw [hF]
  generalize hc0 : ndInit w8 w9 w35 (w453.bytes ++ (w448.bytes ++ (w10.bytes ++ []))) = c0
  have h35f : alFind c0.header.lookup 35 = some (.view 2 1) := by rw [← hc0]; rfl
  have h9f : alFind c0.header.lookup 9 = some (.view 1 1) := by rw [← hc0]; rfl
  have htr : c0.trailer = FieldMap.empty .trailer := by rw [← hc0]; rfl
  have hbd : c0.body = FieldMap.empty .normal := by rw [← hc0]; rfl
  have hxm : c0.xmlDataMsg = false := by rw [← hc0]; rfl
  have hraw0 : c0.rawBytes = w453.bytes ++ (w448.bytes ++ (w10.bytes ++ [])) := by rw [← hc0]; rfl
  have hx0 : c0.xmlDataLen = 0 := by rw [← hc0]; rfl
  have hmt0 : MTInv ([w8, w9, w35, TagValue.zero, TagValue.zero, TagValue.zero].set 3 w453) c0.header w35 := ⟨h35f, rfl⟩
  have hmf := appMsg_fields tenApp _ c0.header w35 hmt0 rfl
  rw [parseLoop_enter_group (d := tenD) _ 3 c0 w453 _ tenC (by simp) hx0 (by rw [hraw0]; exact extractField_wire w453 _ w453_wire)
    (by rfl) (by rfl)
    (by simp only [isNumInGroupField, hmf]; rfl) (by simp only [getGroupFields, hmf]; rfl)]
  simp only [show w453.tag = (453 : Tag) from rfl, show (3 : Nat) + 1 = 4 from rfl]
  have hres : Resolves tenFs [((453 : Tag), tenC)] := by simp only [Resolves]; rfl
  have hmt1 : MTInv (([w8, w9, w35, TagValue.zero, TagValue.zero, TagValue.zero].set 3 w453).set 4 w448) c0.header w35 := ⟨h35f, rfl⟩
  rw [parseLoop_member_gen (d := tenD) _ 4 3 _ w448 (w10.bytes ++ []) [453] tenC (by simp)
    (extractField_wire w448 _ w448_wire) (by rfl)
    (by show isNumInGroupField tenD _ c0.header (stackTags [((453 : Tag), tenC)] ++ [448]) = false
        rw [(isNum_stack tenApp _ c0.header w35 hmt1 rfl [((453 : Tag), tenC)] hres 448).1]; rfl)]
  simp only [show (4 : Nat) + 1 = 5 from rfl]
  have hmt2 : MTInv ((([w8, w9, w35, TagValue.zero, TagValue.zero, TagValue.zero].set 3 w453).set 4 w448).set 5 w10) c0.header w35 := ⟨h35f, rfl⟩
  rw [parseLoop_member_gen (d := tenD) _ 5 3 _ w10 [] [453] tenC (by simp)
    (extractField_wire w10 _ w10_wire) (by rfl)
    (by show isNumInGroupField tenD _ c0.header (stackTags [((453 : Tag), tenC)] ++ [10]) = false
        rw [(isNum_stack tenApp _ c0.header w35 hmt2 rfl [((453 : Tag), tenC)] hres 10).1]; rfl)]
  -- no field is left: the group goes to the body, and the loop ends because the field parsed last is CheckSum
  have hFe : ((([w8, w9, w35, TagValue.zero, TagValue.zero, TagValue.zero].set 3 w453).set 4 w448).set 5 w10) = [w8, w9, w35, w453, w448, w10] := rfl
  rw [hFe]
  rw [grp_out_of_fields (d := tenD) [w8, w9, w35, w453, w448, w10] 5 3 [453] tenC _ w10 rfl (by omega) rfl rfl]
  rw [finish_ok [w8, w9, w35, w453, w448, w10] _ w9 (by exact h9f) rfl ten_bodyLength (by exact hxm)]
  refine ⟨_, rfl, rfl, ?_, ?_⟩
  · show alFind (finishAdjust _).trailer.lookup 10 = none
    rw [(finishAdjust_keeps _).2.2.2]
    show alFind c0.trailer.lookup 10 = none
    rw [htr]; rfl
  · show alFind (finishAdjust _).body.lookup 453 = _
    rw [(finishAdjust_keeps _).2.2.1]
    show alFind (c0.body.add _ _).lookup 453 = _
    rw [hbd]; rfl

end Qfx
