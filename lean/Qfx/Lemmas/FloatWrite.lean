/-
  Qfx.Lemmas.FloatWrite — the model's writer (`F64.writeFloat`: shortest digits that read back, printed positionally)
  round-trips through the model's reader for every finite bit pattern.  Core Lean only.
-/
import Qfx.Lemmas.Float
namespace Qfx.F64
open Qfx Qfx.Spec Qfx.Dec

/-! ## the exact decimal expansion is exact -/

theorem exact_norm (n : Nat) :
    n = P52 * exactSh n + exactM n ∧ exactM n < P53 ∧ (exactSh n = 0 ∨ P52 ≤ exactM n) := by
  unfold exactSh exactM
  by_cases h : n / P52 = 0
  · rw [if_pos h]; omega
  · rw [if_neg h]; omega

theorem scaled_exact (n : Nat) : scaled n = exactM n * 2 ^ exactSh n := by
  obtain ⟨h1, h2, h3⟩ := exact_norm n
  conv => lhs; rw [h1]
  exact scaled_norm _ _ h2 h3

theorem exact_eq (n : Nat) : 2 ^ 1074 * exactW n = scaled n * 10 ^ exactJ n := by
  rw [scaled_exact]
  unfold exactW exactJ
  generalize exactM n = M
  generalize exactSh n = sh
  by_cases h : 1074 ≤ sh
  · rw [if_pos h, if_pos h]
    have e : 2 ^ sh = 2 ^ (sh - 1074) * 2 ^ 1074 := by
      rw [← Nat.pow_add]; congr 1; omega
    rw [e, Nat.pow_zero, Nat.mul_one]
    generalize (2 : Nat) ^ 1074 = T
    generalize (2 : Nat) ^ (sh - 1074) = a
    grind
  · rw [if_neg h, if_neg h]
    have e1 : (2 : Nat) ^ 1074 = 2 ^ sh * 2 ^ (1074 - sh) := by
      rw [← Nat.pow_add]; congr 1; omega
    have e2 : (10 : Nat) ^ (1074 - sh) = 2 ^ (1074 - sh) * 5 ^ (1074 - sh) := by
      rw [← Nat.mul_pow]
    rw [e1, e2]
    generalize (2 : Nat) ^ sh = a
    generalize (2 : Nat) ^ (1074 - sh) = b
    generalize (5 : Nat) ^ (1074 - sh) = c
    grind

/-- a rational that IS the value of the double `n` has `n` as its nearest double -/
theorem nearest_of_exact (num den n : Nat) (hd : 0 < den) (h : 2 ^ 1074 * num = scaled n * den) :
    Nearest num den n := by
  unfold Nearest distTo dist
  rw [h]
  have h1 := scaled_mul_lt (show n < n + 1 by omega) hd
  by_cases hn : n = 0
  · exact ⟨⟨by omega, fun h => by omega⟩, Or.inl hn⟩
  · have h2 := scaled_mul_lt (show n - 1 < n by omega) hd
    exact ⟨⟨by omega, fun h => by omega⟩, Or.inr ⟨by omega, fun h => by omega⟩⟩

theorem roundOrd_of_nearest (num den n : Nat) (hd : 0 < den) (h : Nearest num den n) : roundOrd num den = n :=
  nearest_unique num den _ _ hd (roundOrd_nearest num den hd) h

theorem pow10_pos (k : Nat) : 0 < 10 ^ k := Nat.pow_pos (by decide)

/-! ## every candidate the search returns reads back -/

theorem exact_cand (n : Nat) : candOk n (exactJ n) (exactW n) 0 = true := by
  unfold candOk
  rw [Nat.pow_zero, Nat.mul_one, roundOrd_of_nearest _ _ n (pow10_pos _) (nearest_of_exact _ _ n (pow10_pos _) (exact_eq n))]
  exact beq_self_eq_true n

theorem pickCloser_cases (W lo c : Nat) : pickCloser W lo c = lo ∨ pickCloser W lo c = lo + 1 := by
  unfold pickCloser; split
  · exact Or.inl rfl
  · exact Or.inr rfl

theorem tryK_valid (n W J L k : Nat) (r : Nat × Nat) (h : tryK n W J L k = some r) :
    candOk n J r.1 r.2 = true := by
  unfold tryK at h
  split at h
  · rename_i hboth
    rw [Bool.and_eq_true] at hboth
    cases h
    rcases pickCloser_cases W (W / 10 ^ (L - k)) (L - k) with e | e
    · show candOk n J (pickCloser W (W / 10 ^ (L - k)) (L - k)) (L - k) = true
      rw [e]; exact hboth.1
    · show candOk n J (pickCloser W (W / 10 ^ (L - k)) (L - k)) (L - k) = true
      rw [e]; exact hboth.2
  · split at h
    · rename_i hlo; cases h; exact hlo
    · split at h
      · rename_i hhi; cases h; exact hhi
      · cases h

theorem shortestFrom_valid (n W J L : Nat) (hW : candOk n J W 0 = true) (fuel k : Nat) :
    candOk n J (shortestFrom n W J L fuel k).1 (shortestFrom n W J L fuel k).2 = true := by
  induction fuel generalizing k with
  | zero => exact hW
  | succ f ih =>
    unfold shortestFrom
    cases h : tryK n W J L k with
    | some r => exact tryK_valid n W J L k r h
    | none => exact ih (k + 1)

theorem shortest_valid (n : Nat) : candOk n (exactJ n) (shortest n).1 (shortest n).2 = true :=
  shortestFrom_valid n _ _ _ (exact_cand n) 17 1

/-! ## `Nearest` depends only on the ratio `num / den` -/

theorem dist_mul (a b k : Nat) : dist (a * k) (b * k) = dist a b * k := by
  unfold dist; rw [Nat.add_mul, Nat.sub_mul, Nat.sub_mul]

theorem distTo_cross (num1 den1 num2 den2 n : Nat) (h : num1 * den2 = num2 * den1) :
    distTo num1 den1 n * den2 = distTo num2 den2 n * den1 := by
  unfold distTo
  rw [← dist_mul, ← dist_mul]
  congr 1
  · rw [Nat.mul_assoc, h, Nat.mul_assoc]
  · rw [Nat.mul_assoc, Nat.mul_assoc, Nat.mul_comm den1]

theorem le_transfer {a b a' b' d1 d2 : Nat} (ha : a * d2 = a' * d1) (hb : b * d2 = b' * d1)
    (h1 : 0 < d1) (h : a ≤ b) : a' ≤ b' := by
  have := Nat.mul_le_mul_right d2 h
  rw [ha, hb] at this
  exact Nat.le_of_mul_le_mul_right this h1

theorem eq_transfer {a b a' b' d1 d2 : Nat} (ha : a * d2 = a' * d1) (hb : b * d2 = b' * d1)
    (h2 : 0 < d2) (h : a' = b') : a = b := by
  have : a * d2 = b * d2 := by rw [ha, hb, h]
  exact Nat.eq_of_mul_eq_mul_right h2 this

theorem nearest_cross (num1 den1 num2 den2 n : Nat) (h : num1 * den2 = num2 * den1)
    (hd1 : 0 < den1) (hd2 : 0 < den2) (hn : Nearest num1 den1 n) : Nearest num2 den2 n := by
  have key := fun m => distTo_cross num1 den1 num2 den2 m h
  unfold Nearest at hn ⊢
  obtain ⟨⟨hu1, hu2⟩, hl⟩ := hn
  refine ⟨⟨le_transfer (key n) (key (n + 1)) hd1 hu1, fun e => hu2 (eq_transfer (key n) (key (n + 1)) hd2 e)⟩, ?_⟩
  rcases hl with h0 | ⟨hl1, hl2⟩
  · exact Or.inl h0
  · exact Or.inr ⟨le_transfer (key n) (key (n - 1)) hd1 hl1, fun e => hl2 (eq_transfer (key n) (key (n - 1)) hd2 e)⟩

/-- the reading of a text `num2/den2` that denotes the same rational as a candidate `num1/den1` -/
theorem roundOrd_cross (num1 den1 num2 den2 : Nat) (h : num1 * den2 = num2 * den1)
    (hd1 : 0 < den1) (hd2 : 0 < den2) : roundOrd num2 den2 = roundOrd num1 den1 :=
  roundOrd_of_nearest _ _ _ hd2 (nearest_cross _ _ _ _ _ h hd1 hd2 (roundOrd_nearest num1 den1 hd1))

/-! ## texts: digits, or digits '.' digits, with an optional sign in front -/

def bodyMag (r : Bytes) : Nat := digitsVal (r.takeWhile (· ≠ cDot) ++ (r.dropWhile (· ≠ cDot)).drop 1)
def bodyScale (r : Bytes) : Nat := ((r.dropWhile (· ≠ cDot)).drop 1).length

theorem floatScan_digits (ds rest : Bytes) (d dot : Bool) (h : ds.all isDigit = true) :
    floatScan (ds ++ rest) d dot = floatScan rest (d || !ds.isEmpty) dot := by
  induction ds generalizing d with
  | nil => simp
  | cons c cs ih =>
    have hc : isDigit c = true := by simp only [List.all_cons, Bool.and_eq_true] at h; exact h.1
    have hcs : cs.all isDigit = true := by simp only [List.all_cons, Bool.and_eq_true] at h; exact h.2
    have hne : c ≠ cDot := by have := (isDigit_iff c).1 hc; unfold cDot; omega
    rw [List.cons_append, floatScan, if_neg hne, if_pos hc, ih true hcs]
    simp

/-- reading a signed text whose body starts with a digit and scans -/
theorem readFloat_signed (neg : Bool) (body : Bytes) (c : Nat) (cs : Bytes) (hb : body = c :: cs) (hc : isDigit c = true)
    (hs : floatScan body false false = true) (n : Nat) (hr : roundOrd (bodyMag body) (10 ^ bodyScale body) = n)
    (hfin : n < infOrd) :
    readFloat ((if neg then [cMinus] else []) ++ body) = .ok (mkBits neg n) := by
  have hc45 : c ≠ cMinus := by have := (isDigit_iff c).1 hc; unfold cMinus; omega
  have facts : acceptFloat ((if neg then [cMinus] else []) ++ body) = true ∧
      textNeg ((if neg then [cMinus] else []) ++ body) = neg ∧
      textBody ((if neg then [cMinus] else []) ++ body) = body := by
    cases neg with
    | true =>
      have e : (if true = true then [cMinus] else []) ++ body = cMinus :: body := by simp
      rw [e]
      have hN : textNeg (cMinus :: body) = true := by simp [textNeg]
      refine ⟨by simp [acceptFloat, hs], hN, by simp [textBody, hN]⟩
    | false =>
      have e : (if false = true then [cMinus] else []) ++ body = c :: cs := by simp [hb]
      rw [e, ← hb]
      have hN : textNeg body = false := by rw [hb]; simp [textNeg, hc45]
      refine ⟨?_, hN, by simp [textBody, hN]⟩
      rw [hb, acceptFloat]; simp only [hc45, if_false]; rw [← hb]; exact hs
  obtain ⟨hacc, hN, hB⟩ := facts
  have hM : textMag ((if neg then [cMinus] else []) ++ body) = bodyMag body := by unfold textMag bodyMag; rw [hB]
  have hS : textScale ((if neg then [cMinus] else []) ++ body) = bodyScale body := by unfold textScale bodyScale; rw [hB]
  unfold readFloat
  rw [if_pos hacc, hN, hM, hS, rne_some _ _ _ (by rw [hr]; exact hfin), hr]

theorem fmtNat_head (x : Nat) : ∃ c cs, fmtNat x = c :: cs ∧ isDigit c = true := by
  have hall := fmtNat_all_digits x
  cases h : fmtNat x with
  | nil => exact absurd h (fmtNat_ne_nil x)
  | cons c cs =>
    rw [h] at hall
    simp only [List.all_cons, Bool.and_eq_true] at hall
    exact ⟨c, cs, rfl, hall.1⟩

/-- body = digits only -/
theorem body_int (x : Nat) :
    floatScan (fmtNat x) false false = true ∧ bodyMag (fmtNat x) = x ∧ bodyScale (fmtNat x) = 0 := by
  have hno : 46 ∉ fmtNat x := fmtNat_no x 46 (by decide)
  refine ⟨?_, ?_, ?_⟩
  · have := floatScan_digits (fmtNat x) [] false false (fmtNat_all_digits x)
    rw [List.append_nil] at this
    rw [this, floatScan]
    have : (fmtNat x).isEmpty = false := by
      cases h : fmtNat x with
      | nil => exact absurd h (fmtNat_ne_nil x)
      | cons _ _ => rfl
    simp [this]
  · unfold bodyMag cDot
    rw [takeWhile_nodot _ hno, dropWhile_nodot _ hno]
    simp [digitsVal_fmtNat]
  · unfold bodyScale cDot
    rw [dropWhile_nodot _ hno]; rfl

/-- body = digits '.' decimals -/
theorem body_frac (a s r : Nat) (hr : r < 10 ^ s) :
    floatScan (fmtNat a ++ [cDot] ++ digitsW s r) false false = true ∧
    bodyMag (fmtNat a ++ [cDot] ++ digitsW s r) = a * 10 ^ s + r ∧
    bodyScale (fmtNat a ++ [cDot] ++ digitsW s r) = s := by
  have hno : 46 ∉ fmtNat a := fmtNat_no a 46 (by decide)
  have e : fmtNat a ++ [cDot] ++ digitsW s r = fmtNat a ++ 46 :: digitsW s r := by
    rw [List.append_assoc]; rfl
  rw [e]
  refine ⟨?_, ?_, ?_⟩
  · rw [floatScan_digits _ _ _ _ (fmtNat_all_digits a), floatScan]
    have h46 : (46 : Nat) = cDot := rfl
    rw [if_pos h46, if_neg (by decide)]
    have := floatScan_digits (digitsW s r) [] (false || !(fmtNat a).isEmpty) true (digitsW_all_digits s r)
    rw [List.append_nil] at this
    rw [this, floatScan]
    have : (fmtNat a).isEmpty = false := by
      cases h : fmtNat a with
      | nil => exact absurd h (fmtNat_ne_nil a)
      | cons _ _ => rfl
    simp [this]
  · unfold bodyMag cDot
    rw [takeWhile_dot _ _ hno, dropWhile_dot _ _ hno, List.drop_succ_cons, List.drop_zero, digitsVal_append,
      digitsVal_fmtNat, digitsW_length, digitsVal_digitsW_of_lt s r hr]
  · unfold bodyScale cDot
    rw [dropWhile_dot _ _ hno, List.drop_succ_cons, List.drop_zero, digitsW_length]

/-! ## what `renderPos` prints denotes the candidate -/

theorem stripZ_spec (D s : Nat) : (stripZ D s).1 * 10 ^ (s - (stripZ D s).2) = D ∧ (stripZ D s).2 ≤ s := by
  induction s generalizing D with
  | zero => simp [stripZ]
  | succ s ih =>
    unfold stripZ
    by_cases h : D % 10 = 0
    · rw [if_pos h]
      obtain ⟨h1, h2⟩ := ih (D / 10)
      refine ⟨?_, by omega⟩
      have e : s + 1 - (stripZ (D / 10) s).2 = (s - (stripZ (D / 10) s).2) + 1 := by omega
      rw [e, Nat.pow_succ, ← Nat.mul_assoc, h1]; omega
    · rw [if_neg h]; simp

theorem renderPos_body (p : Nat × Nat) (J n : Nat) (hr : roundOrd (p.1 * 10 ^ p.2) (10 ^ J) = n) :
    ∃ c cs, renderPos p J = c :: cs ∧ isDigit c = true ∧ floatScan (renderPos p J) false false = true ∧
      roundOrd (bodyMag (renderPos p J)) (10 ^ bodyScale (renderPos p J)) = n := by
  obtain ⟨D, c⟩ := p
  dsimp only at hr
  unfold renderPos
  dsimp only
  by_cases hJ : J ≤ c
  · rw [if_pos hJ]
    obtain ⟨c0, cs, hb, hc⟩ := fmtNat_head (D * 10 ^ (c - J))
    obtain ⟨hs, hm, hsc⟩ := body_int (D * 10 ^ (c - J))
    refine ⟨c0, cs, hb, hc, hs, ?_⟩
    rw [hm, hsc, ← hr]
    refine roundOrd_cross _ _ _ _ ?_ (pow10_pos J) (pow10_pos 0)
    have e : 10 ^ c = 10 ^ (c - J) * 10 ^ J := by rw [← Nat.pow_add]; congr 1; omega
    rw [e, Nat.pow_zero, Nat.mul_one, Nat.mul_assoc]
  · rw [if_neg hJ]
    obtain ⟨h1, h2⟩ := stripZ_spec D (J - c)
    generalize stripZ D (J - c) = q at h1 h2
    obtain ⟨D', s⟩ := q
    dsimp only at h1 h2
    unfold renderFrac
    dsimp only
    by_cases hs0 : s = 0
    · rw [if_pos hs0]
      subst hs0
      obtain ⟨c0, cs, hb, hc⟩ := fmtNat_head D'
      obtain ⟨hs, hm, hsc⟩ := body_int D'
      refine ⟨c0, cs, hb, hc, hs, ?_⟩
      rw [hm, hsc, ← hr]
      refine roundOrd_cross _ _ _ _ ?_ (pow10_pos J) (pow10_pos 0)
      have e : 10 ^ J = 10 ^ (J - c - 0) * 10 ^ c := by rw [← Nat.pow_add]; congr 1; omega
      rw [e, ← h1, Nat.pow_zero, Nat.mul_one, Nat.mul_assoc]
    · rw [if_neg hs0]
      have hlt : D' % 10 ^ s < 10 ^ s := Nat.mod_lt _ (pow10_pos s)
      obtain ⟨hsc, hm, hscale⟩ := body_frac (D' / 10 ^ s) s (D' % 10 ^ s) hlt
      obtain ⟨c0, cs0, hb0, hc0⟩ := fmtNat_head (D' / 10 ^ s)
      refine ⟨c0, cs0 ++ [cDot] ++ digitsW s (D' % 10 ^ s), by rw [hb0]; rfl, hc0, hsc, ?_⟩
      rw [hm, hscale, Nat.div_add_mod', ← hr]
      refine roundOrd_cross _ _ _ _ ?_ (pow10_pos J) (pow10_pos s)
      have e : 10 ^ J = 10 ^ (J - c - s) * 10 ^ c * 10 ^ s := by
        rw [← Nat.pow_add, ← Nat.pow_add]; congr 1; omega
      rw [e, ← h1]
      generalize 10 ^ (J - c - s) = x
      generalize 10 ^ c = y
      generalize 10 ^ s = z
      grind

/-! ## write → read -/

theorem writeOrd_read (neg : Bool) (n : Nat) (hfin : n < infOrd) :
    readFloat ((if neg then [cMinus] else []) ++ writeOrd n) = .ok (mkBits neg n) := by
  unfold writeOrd
  have hv := shortest_valid n
  have hr : roundOrd ((shortest n).1 * 10 ^ (shortest n).2) (10 ^ exactJ n) = n := by
    unfold candOk at hv; exact beq_iff_eq.1 hv
  obtain ⟨c, cs, hb, hc, hs, hro⟩ := renderPos_body (shortest n) (exactJ n) n hr
  exact readFloat_signed neg _ c cs hb hc hs n hro hfin

theorem mkBits_negOf_ordOf (bits : Nat) (h64 : bits < 18446744073709551616) : mkBits (negOf bits) (ordOf bits) = bits := by
  unfold mkBits negOf ordOf
  by_cases h : bits / signBit % 2 = 1
  · simp only [h, decide_true, if_true]; omega
  · simp only [h, decide_false]; simp; omega

/-- every finite 64-bit pattern, written by the model's writer, is read back by the model's reader as itself -/
theorem writeFloat_read (bits : Nat) (h64 : bits < 18446744073709551616) (hfin : ordOf bits < infOrd) :
    readFloat (writeFloat bits) = .ok bits := by
  unfold writeFloat
  rw [writeOrd_read (negOf bits) (ordOf bits) hfin, mkBits_negOf_ordOf bits h64]

end Qfx.F64
