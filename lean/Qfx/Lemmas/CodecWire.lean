/- C10/C13: the bytes of a built message as a well-formed wire message (TagValue-level view of build) -/
import Qfx.Lemmas.CodecGroup
import Qfx.Lemmas.CodecParse
namespace Qfx

/-! ## TagValue-level view of `write` -/

def FieldMap.tvs (arr : List TagValue) (m : FieldMap) : List TagValue :=
  ((sortTags m.ord m.tags).filterMap (alFind m.lookup)).flatMap (Field.items arr)

theorem wireOf_append (a b : List TagValue) : wireOf (a ++ b) = wireOf a ++ wireOf b := by simp [wireOf]

theorem wireOf_flatMap_items (arr : List TagValue) (fs : List Field) :
    wireOf (fs.flatMap (Field.items arr)) = fs.flatMap (fieldBytes arr) := by
  induction fs with
  | nil => rfl
  | cons f r ih =>
    rw [List.flatMap_cons, List.flatMap_cons, wireOf_append, ih]
    rfl

theorem write_eq_wireOf (arr : List TagValue) (m : FieldMap) : (m.write arr).1 = wireOf (m.tvs arr) := by
  simp only [FieldMap.write, writeTags_eq_flatMap, FieldMap.tvs, wireOf_flatMap_items]

theorem fieldsLength_append (a b : List TagValue) : fieldsLength (a ++ b) = fieldsLength a + fieldsLength b := by
  simp [fieldsLength, List.filter_append, List.sum_append]

theorem fieldsLength_flatMap (arr : List TagValue) (fs : List Field) :
    fieldsLength (fs.flatMap (Field.items arr)) = (fs.map (lenKeep arr)).sum := by
  induction fs with
  | nil => rfl
  | cons f r ih => simp [List.flatMap_cons, fieldsLength_append, ih]; rfl

theorem length_eq_fieldsLength {m : FieldMap} (h : FMInv m) (arr : List TagValue) : m.length arr = fieldsLength (m.tvs arr) := by
  rw [FieldMap.length_written h arr, FieldMap.tvs, fieldsLength_flatMap]

def fieldsTotal (l : List TagValue) : Nat := ((l.filter (fun tv => tv.tag ≠ 10)).map TagValue.total).sum

theorem fieldsTotal_append (a b : List TagValue) : fieldsTotal (a ++ b) = fieldsTotal a + fieldsTotal b := by
  simp [fieldsTotal, List.filter_append, List.sum_append]

theorem fieldsTotal_flatMap (arr : List TagValue) (fs : List Field) :
    fieldsTotal (fs.flatMap (Field.items arr)) = (fs.map (sumKeep arr)).sum := by
  induction fs with
  | nil => rfl
  | cons f r ih => simp [List.flatMap_cons, fieldsTotal_append, ih]; rfl

theorem total_eq_fieldsTotal {m : FieldMap} (h : FMInv m) (arr : List TagValue) : m.total arr = fieldsTotal (m.tvs arr) := by
  rw [FieldMap.total_written h arr, FieldMap.tvs, fieldsTotal_flatMap]

theorem fieldsTotal_eq_sum (l : List TagValue) (h : ∀ tv ∈ l, tv.tag ≠ 10) : fieldsTotal l = (wireOf l).sum := by
  induction l with
  | nil => rfl
  | cons tv r ih =>
    have e1 : wireOf (tv :: r) = tv.bytes ++ wireOf r := by simp [wireOf]
    have ht : tv.tag ≠ 10 := h tv (by simp)
    rw [e1, List.sum_append, ← ih (fun x hx => h x (by simp [hx]))]
    simp [fieldsTotal, List.filter_cons, ht, TagValue.total, bytesTotal]

theorem fieldsLength_eq_len (l : List TagValue) (h : ∀ tv ∈ l, tv.tag ≠ 8 ∧ tv.tag ≠ 9 ∧ tv.tag ≠ 10) :
    fieldsLength l = (wireOf l).length := by
  induction l with
  | nil => rfl
  | cons tv r ih =>
    have e1 : wireOf (tv :: r) = tv.bytes ++ wireOf r := by simp [wireOf]
    have ht := h tv (by simp)
    rw [e1, List.length_append, ← ih (fun x hx => h x (by simp [hx]))]
    simp [fieldsLength, List.filter_cons, ht, TagValue.length]

/-! ## canonical TagValues are wire fields -/

theorem fmtNat_chars (n : Nat) : ∀ c ∈ fmtNat n, isDigit c = true := by
  have := fmtNat_all_digits n
  intro c hc; exact List.all_eq_true.1 this c hc

theorem fmtInt_chars (v : Int) : ∀ c ∈ fmtInt v, c ≠ cEq ∧ c ≠ SOH := by
  intro c hc
  unfold fmtInt at hc
  have dig : ∀ x, isDigit x = true → x ≠ cEq ∧ x ≠ SOH := by
    intro x hx; have := (isDigit_iff x).1 hx; unfold cEq SOH; omega
  split at hc
  · rcases List.mem_cons.1 hc with e | h
    · subst e; decide
    · exact dig c (fmtNat_chars _ c h)
  · exact dig c (fmtNat_chars _ c hc)

theorem fmtInt_ne_nil (v : Int) : fmtInt v ≠ [] := by
  unfold fmtInt; split
  · simp
  · exact fmtNat_ne_nil _

theorem atoi_digits' (ds : Bytes) (hne : ds ≠ []) (h : ds.all isDigit = true) : atoi ds = .ok (wrap64 (digitsVal ds)) := by
  cases ds with
  | nil => exact absurd rfl hne
  | cons c cs =>
    have hc : c ≠ cMinus := by
      have := (isDigit_iff c).1 (by simp only [List.all_cons, Bool.and_eq_true] at h; exact h.1)
      unfold cMinus; omega
    simp only [atoi, hc, if_false]
    exact parseUInt_digits _ hne h

theorem atoi_fmtInt (v : Int) (h : inInt64 v) : atoi (fmtInt v) = .ok v := by
  unfold fmtInt
  split
  · rename_i hneg
    simp only [atoi, cMinus, if_true, parseUInt_digits _ (fmtNat_ne_nil _) (fmtNat_all_digits _), digitsVal_fmtNat, wrap64_neg_wrap]
    have : -((v.natAbs : Nat) : Int) = v := by omega
    rw [this, wrap64_of_in v h]
  · rw [atoi_digits' _ (fmtNat_ne_nil _) (fmtNat_all_digits _), digitsVal_fmtNat]
    have : ((v.natAbs : Nat) : Int) = v := by omega
    rw [this, wrap64_of_in v h]

/-- a TagValue made by `init` from an int64 tag and a SOH-free value -/
def CanonTV (tv : TagValue) : Prop := tv = TagValue.init tv.tag tv.value ∧ (∀ c ∈ tv.value, c ≠ SOH) ∧ inInt64 tv.tag

theorem canonTV_isWire (tv : TagValue) (h : CanonTV tv) : IsWire tv := by
  obtain ⟨hinit, hval, hin⟩ := h
  refine ⟨fmtInt tv.tag, fmtInt_ne_nil _, fmtInt_chars _, atoi_fmtInt _ hin, ?_, hval⟩
  have : tv.bytes = (TagValue.init tv.tag tv.value).bytes := by rw [← hinit]
  rw [this]; simp [TagValue.init]


/-! ## the cooked message -/

theorem build_cooked (m : Message) (hb : Built m) (bytes : Bytes) (m' : Message) (h : m.build Fixes.cur = .ok (bytes, m')) :
    ∃ (C : Nat),
      let H' := m.header.put 9 (.owned [TagValue.init 9 (fmtInt ((m.header.length m.fields + m.body.length m.fields + m.trailer.length m.fields : Nat) : Int))])
      let T' := m.trailer.put 10 (.owned [TagValue.init 10 (digitsW 3 C)])
      FMInv H' ∧ FMInv T' ∧ SecProper .h H' ∧ SecProper .t T' ∧
      bytes = (H'.write m.fields).1 ++ (m.body.write m.fields).1 ++ (T'.write m.fields).1 ∧
      C = (H'.total m.fields + m.body.total m.fields + m.trailer.total m.fields) % 256 := by
  obtain ⟨_, m2, hcook, _, hbytes⟩ := hb.inv.build bytes m' h
  simp only [Message.cook, Message.setInt] at hcook
  split at hcook
  case h_2 => cases hcook
  case h_3 => cases hcook
  rename_i m1 h1
  have e1 := setBytes_built_form hb _ _ _ h1
  have hb1 : Built m1 := by
    rw [e1]
    exact ⟨hb.inv.withSec .h _ (hb.inv.h.put' _ _) rfl,
           hb.ph.put (TagValue.init 9 _) (fun _ => ⟨fun e => absurd e (by simp [TagValue.init]), fun _ => rfl⟩), hb.pb, hb.pt⟩
  have e2 := setBytes_built_form hb1 _ _ _ hcook
  refine ⟨(m1.header.total m1.fields + m.body.total m.fields + m1.trailer.total m1.fields) % 256, ?_⟩
  refine ⟨hb.inv.h.put' _ _, hb.inv.t.put' _ _,
    hb.ph.put (TagValue.init 9 _) (fun _ => ⟨fun e => absurd e (by simp [TagValue.init]), fun _ => rfl⟩),
    hb.pt.put (TagValue.init 10 _) (fun _ => ⟨fun _ => rfl, fun e => absurd rfl e⟩), ?_, ?_⟩
  · rw [hbytes, e2, e1]
    rfl
  · rw [e1]; rfl


/-! ## sections as TagValue lists -/

theorem mem_tvs (arr : List TagValue) (m : FieldMap) (tv : TagValue) (h : tv ∈ m.tvs arr) :
    ∃ k f, alFind m.lookup k = some f ∧ tv ∈ f.items arr := by
  simp only [FieldMap.tvs, List.mem_flatMap, List.mem_filterMap] at h
  obtain ⟨f, ⟨k, _, hk⟩, htv⟩ := h
  exact ⟨k, f, hk, htv⟩

theorem tvs_of_tags (arr : List TagValue) (l : List (Tag × Field)) (ts : List Tag) (P : TagValue → Prop)
    (h : ∀ t ∈ ts, ∀ f, alFind l t = some f → ∀ tv ∈ f.items arr, P tv) :
    ∀ tv ∈ (ts.filterMap (alFind l)).flatMap (Field.items arr), P tv := by
  intro tv htv
  simp only [List.mem_flatMap, List.mem_filterMap] at htv
  obtain ⟨f, ⟨k, hk, hf⟩, hm⟩ := htv
  exact h k hk f hf tv hm

theorem body_tvs_clean {fm : FieldMap} (hp : SecProper .b fm) (arr : List TagValue) :
    ∀ tv ∈ fm.tvs arr, ¬ isSpecialTag tv.tag := by
  intro tv htv
  obtain ⟨k, f, hf, hm⟩ := mem_tvs arr fm tv htv
  have hns : ¬ isSpecialTag k := by
    intro hk
    have := hp.key_special k f hf hk
    by_cases e : k = 10
    · exact absurd (this.1 e) (by decide)
    · exact absurd (this.2 e) (by decide)
  have := hp.clean arr k f hf hns tv hm
  simp only [isSpecialTag, not_or]; exact this

theorem header_tvs {fm : FieldMap} (hi : FMInv fm) (ho : fm.ord = .header) (hp : SecProper .h fm) (arr : List TagValue)
    (tv8 tv9 : TagValue) (f35 : Field) (h8 : alFind fm.lookup 8 = some (.owned [tv8]))
    (h9 : alFind fm.lookup 9 = some (.owned [tv9])) (h35 : alFind fm.lookup 35 = some f35) :
    ∃ tv35 rest, fm.tvs arr = tv8 :: tv9 :: tv35 :: rest ∧ tv35.tag = 35 ∧ ∀ tv ∈ rest, ¬ isSpecialTag tv.tag := by
  have mem : ∀ k f, alFind fm.lookup k = some f → k ∈ fm.tags := by
    intro k f hf; rw [hi.same, mem_alKeys_iff, hf]; rfl
  have hs := header_sorted_decomp fm.tags hi.tagsNodup (mem 8 _ h8) (mem 9 _ h9) (mem 35 _ h35)
  have hperm : (sortTags .normal (fm.tags.filter nonSpecial)).Perm (fm.tags.filter nonSpecial) := sortTags_perm _ _
  obtain ⟨l35, hl35⟩ := hp.owned 35 f35 h35
  subst hl35
  obtain ⟨tv35, more, hl, ht35⟩ := hp.head 35 l35 h35
  subst hl
  have c35 := hp.clean arr 35 _ h35 (by intro h; rcases h with e | e | e <;> exact absurd e (by decide))
  refine ⟨tv35, more ++ ((sortTags .normal (fm.tags.filter nonSpecial)).filterMap (alFind fm.lookup)).flatMap (Field.items arr), ?_, ht35, ?_⟩
  · simp only [FieldMap.tvs, ho, hs, List.filterMap_cons, h8, h9, h35, List.flatMap_cons, Field.items, List.cons_append,
      List.nil_append, List.append_assoc]
  · intro tv htv
    rcases List.mem_append.1 htv with hm | hm
    · have := c35 tv (by simp [Field.items, hm]); simp only [isSpecialTag, not_or]; exact this
    · apply tvs_of_tags arr fm.lookup _ (fun tv => ¬ isSpecialTag tv.tag) _ tv hm
      intro t ht f hf x hx
      have hns : ¬ isSpecialTag t := by
        intro hk
        have hks := hp.key_special t f hf hk
        have := (List.mem_filter.1 (hperm.mem_iff.1 ht)).2
        rw [nonSpecial_iff] at this
        rcases hk with e | e | e
        · exact this.1 e
        · exact this.2.1 e
        · exact absurd (hks.1 e) (by decide)
      have := hp.clean arr t f hf hns x hx
      simp only [isSpecialTag, not_or]; exact this

theorem trailer_tvs {fm : FieldMap} (hi : FMInv fm) (ho : fm.ord = .trailer) (hp : SecProper .t fm) (arr : List TagValue)
    (tv10 : TagValue) (h10 : alFind fm.lookup 10 = some (.owned [tv10])) :
    ∃ front, fm.tvs arr = front ++ [tv10] ∧ ∀ tv ∈ front, ¬ isSpecialTag tv.tag := by
  have mem10 : (10 : Int) ∈ fm.tags := by rw [hi.same, mem_alKeys_iff, h10]; rfl
  have hs := trailer_sorted_decomp fm.tags hi.tagsNodup mem10
  have hperm : (sortTags .trailer (fm.tags.filter (fun t => t != 10))).Perm (fm.tags.filter (fun t => t != 10)) := sortTags_perm _ _
  refine ⟨((sortTags .trailer (fm.tags.filter (fun t => t != 10))).filterMap (alFind fm.lookup)).flatMap (Field.items arr), ?_, ?_⟩
  · simp only [FieldMap.tvs, ho, hs, List.filterMap_append, List.filterMap_cons, h10, List.filterMap_nil, List.flatMap_append,
      List.flatMap_cons, List.flatMap_nil, Field.items, List.append_nil]
  · intro tv htv
    apply tvs_of_tags arr fm.lookup _ (fun tv => ¬ isSpecialTag tv.tag) _ tv htv
    intro t ht f hf x hx
    have hne : t ≠ 10 := by have := (List.mem_filter.1 (hperm.mem_iff.1 ht)).2; simpa using this
    have hns : ¬ isSpecialTag t := by
      intro hk
      exact absurd ((hp.key_special t f hf hk).2 hne) (by decide)
    have := hp.clean arr t f hf hns x hx
    simp only [isSpecialTag, not_or]; exact this


/-! ## the bytes of a built message are a well-formed wire message -/

/-- every TagValue held by the section is canonical (made by `init` from an int64 tag and a SOH-free value) and not XMLDataLen -/
def SecCanon (fm : FieldMap) : Prop := ∀ k l, alFind fm.lookup k = some (.owned l) → ∀ tv ∈ l, CanonTV tv ∧ tv.tag ≠ 212

theorem SecCanon.put {fm : FieldMap} (h : SecCanon fm) (tv : TagValue) (hc : CanonTV tv) (hx : tv.tag ≠ 212) :
    SecCanon (fm.put tv.tag (.owned [tv])) := by
  intro k l hf x hxm
  by_cases e : k = tv.tag
  · subst e; rw [put_find_self] at hf; injection hf with hf; injection hf with hf; subst hf
    simp only [List.mem_singleton] at hxm; subst hxm; exact ⟨hc, hx⟩
  · rw [put_find_other _ _ _ _ e] at hf; exact h k l hf x hxm

theorem SecCanon.tvs {fm : FieldMap} (h : SecCanon fm) (ho : fm.allOwned) (arr : List TagValue) :
    ∀ tv ∈ fm.tvs arr, CanonTV tv ∧ tv.tag ≠ 212 := by
  intro tv htv
  obtain ⟨k, f, hf, hm⟩ := mem_tvs arr fm tv htv
  obtain ⟨l, hl⟩ := ho k f hf
  subst hl
  exact h k l hf tv hm

theorem canon_init (t : Tag) (v : Bytes) (hv : ∀ c ∈ v, c ≠ SOH) (ht : inInt64 t) : CanonTV (TagValue.init t v) :=
  ⟨rfl, hv, ht⟩

theorem fieldsLength_le (l : List TagValue) : fieldsLength l ≤ (wireOf l).length := by
  induction l with
  | nil => simp [fieldsLength, wireOf]
  | cons tv r ih =>
    have e1 : wireOf (tv :: r) = tv.bytes ++ wireOf r := by simp [wireOf]
    rw [e1, List.length_append]
    have e2 : fieldsLength (tv :: r) ≤ tv.bytes.length + fieldsLength r := by
      unfold fieldsLength
      by_cases h : tv.tag ≠ 8 ∧ tv.tag ≠ 9 ∧ tv.tag ≠ 10
      · simp [List.filter_cons, h, TagValue.length]
      · simp [List.filter_cons, h]
    omega

structure Wired (m : Message) : Prop where
  ch : SecCanon m.header
  cb : SecCanon m.body
  ct : SecCanon m.trailer

/-- the structure of the TagValue list of a built message: BeginString, BodyLength, MsgType, the remaining header TagValues
    (each from a field of the header), the body's TagValues, the trailer's (each from a field of the trailer), CheckSum -/
theorem build_wire' (m : Message) (hb : Built m) (hc : Wired m) (tv8 : TagValue) (f35 : Field)
    (h8 : alFind m.header.lookup 8 = some (.owned [tv8])) (h35 : alFind m.header.lookup 35 = some f35)
    (bytes : Bytes) (m' : Message) (h : m.build Fixes.cur = .ok (bytes, m')) (hsmall : bytes.length < 9223372036854775808) :
    ∃ t9 t35 restH frontT t10, bytes = wireOf (tv8 :: t9 :: t35 :: ((restH ++ m.body.tvs m.fields ++ frontT) ++ [t10])) ∧
      WireMsg tv8 t9 t35 (restH ++ m.body.tvs m.fields ++ frontT) t10 ∧
      atoi t9.value = .ok ((fieldsLength (tv8 :: t9 :: t35 :: ((restH ++ m.body.tvs m.fields ++ frontT) ++ [t10])) : Nat) : Int) ∧
      (∀ tv ∈ t35 :: restH, ∃ k f, alFind m.header.lookup k = some f ∧ tv ∈ f.items m.fields) ∧
      (∀ tv ∈ frontT, ∃ k f, alFind m.trailer.lookup k = some f ∧ tv ∈ f.items m.fields ∧ k ≠ 10) ∧
      t9 = TagValue.init 9 (fmtNat (fieldsLength (tv8 :: t9 :: t35 :: ((restH ++ m.body.tvs m.fields ++ frontT) ++ [t10])))) ∧
      t10 = TagValue.init 10 (digitsW 3 ((wireOf (tv8 :: t9 :: t35 :: (restH ++ m.body.tvs m.fields ++ frontT))).sum % 256)) ∧
      (∀ tv ∈ tv8 :: t9 :: t35 :: ((restH ++ m.body.tvs m.fields ++ frontT) ++ [t10]), CanonTV tv) ∧
      (∀ tv ∈ t35 :: (restH ++ m.body.tvs m.fields ++ frontT), ¬ isSpecialTag tv.tag) := by
  obtain ⟨C, iH, iT, pH, pT, hbytes, hCdef⟩ := build_cooked m hb bytes m' h
  generalize hN : m.header.length m.fields + m.body.length m.fields + m.trailer.length m.fields = N at iH pH hbytes hCdef
  have c9 : CanonTV (TagValue.init 9 (fmtInt (N : Int))) :=
    canon_init 9 _ (fun c hc' => (fmtInt_chars _ c hc').2) (by unfold inInt64; omega)
  have c10 : CanonTV (TagValue.init 10 (digitsW 3 C)) :=
    canon_init 10 _ (fun c hc' => by
      have := List.all_eq_true.1 (digitsW_all_digits 3 C) c hc'
      have := (isDigit_iff c).1 this; unfold SOH; omega) (by unfold inInt64; omega)
  have cH : SecCanon (m.header.put 9 (.owned [TagValue.init 9 (fmtInt (N : Int))])) := hc.ch.put _ c9 (by simp [TagValue.init])
  have cT : SecCanon (m.trailer.put 10 (.owned [TagValue.init 10 (digitsW 3 C)])) := hc.ct.put _ c10 (by simp [TagValue.init])
  have h8' : alFind (m.header.put 9 (.owned [TagValue.init 9 (fmtInt (N : Int))])).lookup 8 = some (.owned [tv8]) :=
    (put_find_other _ _ _ _ (by decide)).trans h8
  have h35' : alFind (m.header.put 9 (.owned [TagValue.init 9 (fmtInt (N : Int))])).lookup 35 = some f35 :=
    (put_find_other _ _ _ _ (by decide)).trans h35
  obtain ⟨t35, restH, eH, ht35, clH⟩ := header_tvs iH hb.inv.oh pH m.fields tv8 _ f35 h8' (put_find_self _ _ _) h35'
  obtain ⟨frontT, eT, clT⟩ := trailer_tvs iT hb.inv.ot pT m.fields _ (put_find_self _ _ _)
  have clB := body_tvs_clean hb.pb m.fields
  have tagOf : ∀ tv : TagValue, ¬ isSpecialTag tv.tag → tv.tag ≠ 10 ∧ tv.tag ≠ 9 := by
    intro tv h; simp only [isSpecialTag, not_or] at h; exact ⟨h.2.2, h.2.1⟩
  -- all TagValues written
  have allH := cH.tvs pH.owned m.fields
  have allB := hc.cb.tvs hb.pb.owned m.fields
  have allT := cT.tvs pT.owned m.fields
  rw [eH] at allH
  rw [eT] at allT
  have hL : bytes = wireOf (tv8 :: TagValue.init 9 (fmtInt (N : Int)) :: t35 :: ((restH ++ m.body.tvs m.fields ++ frontT) ++ [TagValue.init 10 (digitsW 3 C)])) := by
    rw [hbytes, write_eq_wireOf, write_eq_wireOf, write_eq_wireOf, eH, eT, ← wireOf_append, ← wireOf_append]
    congr 1
    simp [List.append_assoc]
  have t8tag : tv8.tag = 8 := by
    obtain ⟨tv, rest, hl, ht⟩ := hb.ph.head 8 _ h8
    injection hl with a b; subst a; exact ht
  refine ⟨_, t35, restH, frontT, _, hL, ?_, ?_, ?_, ?_, ?_, ?_, ?_, ?_⟩
  · refine ⟨canonTV_isWire _ (allH tv8 (by simp)).1, canonTV_isWire _ c9, canonTV_isWire _ (allH t35 (by simp)).1, ?_,
      canonTV_isWire _ c10, t8tag, rfl, ht35, rfl, ?_⟩
    · intro tv htv
      simp only [List.mem_append] at htv
      rcases htv with (hm | hm) | hm
      · exact ⟨canonTV_isWire _ (allH tv (by simp [hm])).1, (tagOf tv (clH tv hm)).1, (allH tv (by simp [hm])).2⟩
      · exact ⟨canonTV_isWire _ (allB tv hm).1, (tagOf tv (clB tv hm)).1, (allB tv hm).2⟩
      · exact ⟨canonTV_isWire _ (allT tv (by simp [hm])).1, (tagOf tv (clT tv hm)).1, (allT tv (by simp [hm])).2⟩
    · intro tv htv
      simp only [List.mem_append] at htv
      rcases htv with (hm | hm) | hm
      · exact (tagOf tv (clH tv hm)).2
      · exact (tagOf tv (clB tv hm)).2
      · exact (tagOf tv (clT tv hm)).2
  · -- BodyLength
    have lenH : (m.header.put 9 (.owned [TagValue.init 9 (fmtInt (N : Int))])).length m.fields = m.header.length m.fields :=
      put_length_special _ _ _ _ (lenKeep_special _ _ (Or.inr (Or.inl rfl))) (fun o ho => hb.ph.old_len _ 9 (Or.inr (Or.inl rfl)) o ho)
    have lenT : (m.trailer.put 10 (.owned [TagValue.init 10 (digitsW 3 C)])).length m.fields = m.trailer.length m.fields :=
      put_length_special _ _ _ _ (lenKeep_special _ _ (Or.inr (Or.inr rfl))) (fun o ho => hb.pt.old_len _ 10 (Or.inr (Or.inr rfl)) o ho)
    have hNL : N = fieldsLength (tv8 :: TagValue.init 9 (fmtInt (N : Int)) :: t35 :: ((restH ++ m.body.tvs m.fields ++ frontT) ++ [TagValue.init 10 (digitsW 3 C)])) := by
      have e : tv8 :: TagValue.init 9 (fmtInt (N : Int)) :: t35 :: ((restH ++ m.body.tvs m.fields ++ frontT) ++ [TagValue.init 10 (digitsW 3 C)]) =
          (tv8 :: TagValue.init 9 (fmtInt (N : Int)) :: t35 :: restH) ++ m.body.tvs m.fields ++ (frontT ++ [TagValue.init 10 (digitsW 3 C)]) := by
        simp [List.append_assoc]
      rw [e, fieldsLength_append, fieldsLength_append, ← eH, ← eT, ← length_eq_fieldsLength iH, ← length_eq_fieldsLength hb.inv.b,
        ← length_eq_fieldsLength iT, lenH, lenT, hN]
    have hNs : N < 9223372036854775808 := by
      have := fieldsLength_le (tv8 :: TagValue.init 9 (fmtInt (N : Int)) :: t35 :: ((restH ++ m.body.tvs m.fields ++ frontT) ++ [TagValue.init 10 (digitsW 3 C)]))
      rw [← hL, ← hNL] at this
      omega
    have e9 : atoi (fmtInt (N : Int)) = .ok (N : Int) := by rw [fmtInt_ofNat]; exact atoi_fmtNat N hNs
    show atoi (fmtInt (N : Int)) = _
    rw [e9, ← hNL]
  · -- provenance of the remaining header TagValues
    intro tv htv
    have hmem : tv ∈ (m.header.put 9 (.owned [TagValue.init 9 (fmtInt (N : Int))])).tvs m.fields := by
      rw [eH]; simp only [List.mem_cons] at htv ⊢; rcases htv with e | e
      · exact Or.inr (Or.inr (Or.inl e))
      · exact Or.inr (Or.inr (Or.inr e))
    obtain ⟨k, f, hf, hm⟩ := mem_tvs _ _ tv hmem
    by_cases e : k = 9
    · subst e
      rw [put_find_self] at hf; injection hf with hf; subst hf
      simp only [Field.items, List.mem_singleton] at hm
      have t9 : tv.tag = 9 := by rw [hm]; rfl
      rcases List.mem_cons.1 htv with e | e
      · rw [e, ht35] at t9; exact absurd t9 (by decide)
      · exact absurd (Or.inr (Or.inl t9)) (clH tv e)
    · rw [put_find_other _ _ _ _ e] at hf; exact ⟨k, f, hf, hm⟩
  · -- provenance of the trailer TagValues before CheckSum
    intro tv htv
    have hmem : tv ∈ (m.trailer.put 10 (.owned [TagValue.init 10 (digitsW 3 C)])).tvs m.fields := by
      rw [eT]; simp [htv]
    obtain ⟨k, f, hf, hm⟩ := mem_tvs _ _ tv hmem
    by_cases e : k = 10
    · subst e
      rw [put_find_self] at hf; injection hf with hf; subst hf
      simp only [Field.items, List.mem_singleton] at hm
      have t10 : tv.tag = 10 := by rw [hm]; rfl
      exact absurd (Or.inr (Or.inr t10)) (clT tv htv)
    · rw [put_find_other _ _ _ _ e] at hf; exact ⟨k, f, hf, hm, e⟩

  · -- BodyLength field, explicitly
    have lenH : (m.header.put 9 (.owned [TagValue.init 9 (fmtInt (N : Int))])).length m.fields = m.header.length m.fields :=
      put_length_special _ _ _ _ (lenKeep_special _ _ (Or.inr (Or.inl rfl))) (fun o ho => hb.ph.old_len _ 9 (Or.inr (Or.inl rfl)) o ho)
    have lenT : (m.trailer.put 10 (.owned [TagValue.init 10 (digitsW 3 C)])).length m.fields = m.trailer.length m.fields :=
      put_length_special _ _ _ _ (lenKeep_special _ _ (Or.inr (Or.inr rfl))) (fun o ho => hb.pt.old_len _ 10 (Or.inr (Or.inr rfl)) o ho)
    have e : tv8 :: TagValue.init 9 (fmtInt (N : Int)) :: t35 :: ((restH ++ m.body.tvs m.fields ++ frontT) ++ [TagValue.init 10 (digitsW 3 C)]) =
        (tv8 :: TagValue.init 9 (fmtInt (N : Int)) :: t35 :: restH) ++ m.body.tvs m.fields ++ (frontT ++ [TagValue.init 10 (digitsW 3 C)]) := by
      simp [List.append_assoc]
    rw [e, fieldsLength_append, fieldsLength_append, ← eH, ← eT, ← length_eq_fieldsLength iH, ← length_eq_fieldsLength hb.inv.b,
      ← length_eq_fieldsLength iT, lenH, lenT, hN, fmtInt_ofNat]
  · -- CheckSum field, explicitly
    have totT : (m.trailer.put 10 (.owned [TagValue.init 10 (digitsW 3 C)])).total m.fields = m.trailer.total m.fields :=
      put_total_special _ _ _ _ (sumKeep_10 _ _ rfl) (fun o ho => hb.pt.old_sum _ o ho)
    have hsum : (m.header.put 9 (.owned [TagValue.init 9 (fmtInt (N : Int))])).total m.fields + m.body.total m.fields + m.trailer.total m.fields =
        (wireOf (tv8 :: TagValue.init 9 (fmtInt (N : Int)) :: t35 :: (restH ++ m.body.tvs m.fields ++ frontT))).sum := by
      rw [← totT, total_eq_fieldsTotal iH, total_eq_fieldsTotal hb.inv.b, total_eq_fieldsTotal iT, eH, eT, fieldsTotal_append,
        show fieldsTotal [TagValue.init 10 (digitsW 3 C)] = 0 from by simp [fieldsTotal, TagValue.init],
        Nat.add_zero, ← fieldsTotal_append, ← fieldsTotal_append]
      have e : tv8 :: TagValue.init 9 (fmtInt (N : Int)) :: t35 :: restH ++ m.body.tvs m.fields ++ frontT =
          tv8 :: TagValue.init 9 (fmtInt (N : Int)) :: t35 :: (restH ++ m.body.tvs m.fields ++ frontT) := by simp [List.append_assoc]
      rw [e]
      apply fieldsTotal_eq_sum
      intro tv htv
      simp only [List.mem_cons, List.mem_append] at htv
      rcases htv with e | e | e | (e | e) | e
      · subst e; rw [t8tag]; decide
      · subst e; simp [TagValue.init]
      · subst e; rw [ht35]; decide
      · exact (tagOf tv (clH tv e)).1
      · exact (tagOf tv (clB tv e)).1
      · exact (tagOf tv (clT tv e)).1
    rw [hCdef, hsum]
  · -- every TagValue written is canonical
    intro tv htv
    simp only [List.mem_cons, List.mem_append, List.mem_singleton] at htv
    rcases htv with e | e | e | ((e | e) | e) | e
    · subst e; exact (allH tv (by simp)).1
    · subst e; exact c9
    · subst e; exact (allH tv (by simp)).1
    · exact (allH tv (by simp [e])).1
    · exact (allB tv e).1
    · exact (allT tv (by simp [e])).1
    · rcases e with e | e
      · exact (allT tv (by simp [e])).1
      · simp at e
  · -- no special tag between BodyLength and CheckSum
    intro tv htv
    simp only [List.mem_cons, List.mem_append] at htv
    rcases htv with e | (e | e) | e
    · subst e; intro hsp; rcases hsp with h | h | h <;> rw [ht35] at h <;> exact absurd h (by decide)
    · exact clH tv e
    · exact clB tv e
    · exact clT tv e

theorem build_wire (m : Message) (hb : Built m) (hc : Wired m) (tv8 : TagValue) (f35 : Field)
    (h8 : alFind m.header.lookup 8 = some (.owned [tv8])) (h35 : alFind m.header.lookup 35 = some f35)
    (bytes : Bytes) (m' : Message) (h : m.build Fixes.cur = .ok (bytes, m')) (hsmall : bytes.length < 9223372036854775808) :
    ∃ t9 t35 pre t10, bytes = wireOf (tv8 :: t9 :: t35 :: (pre ++ [t10])) ∧ WireMsg tv8 t9 t35 pre t10 ∧
      atoi t9.value = .ok ((fieldsLength (tv8 :: t9 :: t35 :: (pre ++ [t10])) : Nat) : Int) := by
  obtain ⟨t9, t35, restH, frontT, t10, h1, h2, h3, _⟩ := build_wire' m hb hc tv8 f35 h8 h35 bytes m' h hsmall
  exact ⟨t9, t35, _, t10, h1, h2, h3⟩

/-! ## `Wired` is an invariant of operations with int64 tags (not XMLDataLen) and SOH-free values -/

theorem SecCanon.empty (o : OrdKind) : SecCanon (FieldMap.empty o) := by
  intro k l hf; simp [FieldMap.empty, alFind] at hf

theorem SecCanon.of_sub {fm fm' : FieldMap} (h : SecCanon fm)
    (hsub : ∀ k f, alFind fm'.lookup k = some f → alFind fm.lookup k = some f) : SecCanon fm' :=
  fun k l hf => h k l (hsub k _ hf)

theorem SecCanon.remove {fm : FieldMap} (h : SecCanon fm) (t : Tag) : SecCanon (fm.remove t) := by
  apply h.of_sub
  intro k f hf
  by_cases e : k = t
  · subst e; simp [FieldMap.remove, alFind_erase_self] at hf
  · simpa [FieldMap.remove, alFind_erase_other _ _ _ e] using hf

theorem SecCanon.clear {fm : FieldMap} : SecCanon fm.clear := by
  intro k l hf; simp [FieldMap.clear, alFind] at hf

theorem SecCanon.copy {fm : FieldMap} (h : SecCanon fm) (ho : fm.allOwned) (arr : List TagValue) : SecCanon (fm.copy arr) := by
  apply h.of_sub
  intro k f hf
  simp only [FieldMap.copy, alFind_copy] at hf
  cases hfind : alFind fm.lookup k with
  | none => rw [hfind] at hf; cases hf
  | some g =>
    rw [hfind] at hf
    obtain ⟨l, hl⟩ := ho k g hfind
    subst hl
    simpa [Field.items] using hf

theorem SecCanon.write {fm : FieldMap} (h : SecCanon fm) (arr : List TagValue) : SecCanon (fm.write arr).2 := h

theorem SecCanon.setGroup {fm : FieldMap} (h : SecCanon fm) (t : Tag) (tvs : List TagValue)
    (hc : ∀ tv ∈ tvs, CanonTV tv ∧ tv.tag ≠ 212) : SecCanon (fm.setGroup t tvs) := by
  have hform : fm.setGroup t tvs = fm.put t (.owned tvs) := rfl
  rw [hform]
  intro k l hf x hx
  by_cases e : k = t
  · subst e; rw [put_find_self] at hf; injection hf with hf; injection hf with hf; subst hf; exact hc x hx
  · rw [put_find_other _ _ _ _ e] at hf; exact h k l hf x hx

theorem Wired.new : Wired Message.new := ⟨SecCanon.empty _, SecCanon.empty _, SecCanon.empty _⟩

theorem Wired.sec {m : Message} (hw : Wired m) (s : Sec) : SecCanon (m.sec s) := by
  cases s
  · exact hw.ch
  · exact hw.cb
  · exact hw.ct

theorem Wired.withSec {m : Message} (hw : Wired m) (s : Sec) (fm : FieldMap) (hc : SecCanon fm) : Wired (m.withSec s fm) := by
  cases s
  · exact ⟨hc, hw.cb, hw.ct⟩
  · exact ⟨hw.ch, hc, hw.ct⟩
  · exact ⟨hw.ch, hw.cb, hc⟩

/-- tags are int64 and not XMLDataLen, values are SOH-free (typed setters write SOH-free text by construction) -/
def MOp.wire : MOp → Prop
  | .set _ t v => inInt64 t ∧ t ≠ 212 ∧ ∀ c ∈ v, c ≠ SOH
  | .setInt _ t _ => inInt64 t ∧ t ≠ 212
  | .setBool _ t _ => inInt64 t ∧ t ≠ 212
  | .setGroup _ t tm es => ∀ tvs, writeGroup t tm es = .ok tvs → ∀ tv ∈ tvs, CanonTV tv ∧ tv.tag ≠ 212
  | _ => True

theorem Wired.setBytes {m m' : Message} (hb : Built m) (hw : Wired m) (s : Sec) (t : Tag) (v : Bytes)
    (ht : inInt64 t) (hx : t ≠ 212) (hv : ∀ c ∈ v, c ≠ SOH) (h : m.setBytes Fixes.cur s t v = .ok m') : Wired m' := by
  rw [setBytes_built_form hb s t v h]
  exact hw.withSec s _ ((hw.sec s).put (TagValue.init t v) (canon_init t v hv ht) hx)

theorem Wired.build {m m' : Message} (hb : Built m) (hw : Wired m) (bytes : Bytes) (h : m.build Fixes.cur = .ok (bytes, m')) : Wired m' := by
  simp only [Message.build] at h
  split at h
  case h_2 => cases h
  case h_3 => cases h
  rename_i m2 hcook
  simp only [Message.cook, Message.setInt] at hcook
  split at hcook
  case h_2 => cases hcook
  case h_3 => cases hcook
  rename_i m1 h1
  have hb1 := hb.setBytes .h 9 _ (fun _ => ⟨fun e => absurd e (by decide), fun _ => rfl⟩) h1
  have hw1 := hw.setBytes hb .h 9 _ (by unfold inInt64; omega) (by decide) (fun c hc => (fmtInt_chars _ c hc).2) h1
  have hw2 := hw1.setBytes hb1 .t 10 _ (by unfold inInt64; omega) (by decide) (fun c hc => by
      have := List.all_eq_true.1 (digitsW_all_digits 3 _) c hc
      have := (isDigit_iff c).1 this; unfold SOH; omega) hcook
  injection h with h
  have hm' : m' = (m2.writeAll none).2 := by rw [h]
  subst hm'
  exact ⟨by simpa [Message.writeAll] using hw2.ch.write m2.fields, by simpa [Message.writeAll] using hw2.cb.write m2.fields,
         by simpa [Message.writeAll] using hw2.ct.write m2.fields⟩

theorem MOp.apply_wired {m m' : Message} (hb : Built m) (hw : Wired m) (op : MOp) (hp : op.wire) (h : op.apply m = .ok m') : Wired m' := by
  cases op with
  | set s t v => exact hw.setBytes hb s t v hp.1 hp.2.1 hp.2.2 h
  | setInt s t v => exact hw.setBytes hb s t _ hp.1 hp.2 (fun c hc => (fmtInt_chars _ c hc).2) h
  | setBool s t v =>
    refine hw.setBytes hb s t _ hp.1 hp.2 ?_ h
    intro c hc; cases v <;> simp at hc <;> subst hc <;> decide
  | setGroup s t tm es =>
    simp only [MOp.apply, Message.setGroup] at h
    split at h
    · rename_i tvs hwg
      injection h with h; subst h
      exact hw.withSec s _ ((hw.sec s).setGroup t tvs (hp tvs hwg))
    · cases h
    · cases h
  | remove s t =>
    simp only [MOp.apply] at h; injection h with h; subst h
    simp only [Message.remove, Fixes.cur, if_true]
    exact hw.withSec s _ ((hw.sec s).remove t)
  | clear s =>
    simp only [MOp.apply] at h; injection h with h; subst h
    exact hw.withSec s _ SecCanon.clear
  | copy =>
    simp only [MOp.apply, Message.copy, copyFM, Fixes.cur, if_true] at h
    injection h with h; subst h
    exact ⟨hw.ch.copy hb.ph.owned _, hw.cb.copy hb.pb.owned _, hw.ct.copy hb.pt.owned _⟩
  | build =>
    simp only [MOp.apply] at h
    split at h
    · rename_i r hr; injection h with h; subst h; exact hw.build hb r.1 hr
    · cases h
    · cases h

theorem runMOps_wired (ops : List MOp) : ∀ (m m' : Message), Built m → Wired m → (∀ op ∈ ops, op.proper ∧ op.wire) →
    runMOps ops m = .ok m' → Built m' ∧ Wired m' := by
  induction ops with
  | nil => intro m m' hb hw _ hr; simp only [runMOps] at hr; injection hr with hr; subst hr; exact ⟨hb, hw⟩
  | cons op r ih =>
    intro m m' hb hw hp hr
    simp only [runMOps] at hr
    cases ha : op.apply m with
    | ok m1 =>
      rw [ha] at hr
      have h1 := hp op (by simp)
      exact ih m1 m' (MOp.apply_built hb op h1.1 ha) (MOp.apply_wired hb hw op h1.2 ha) (fun o ho => hp o (by simp [ho])) hr
    | err e => rw [ha] at hr; cases hr
    | fault w => rw [ha] at hr; cases hr

end Qfx
