/-
  The READER side of what `RepeatingGroup.Write` emits: for entries that conform to their template (`Spec.entriesOK`) over a template tree
  of distinct tags, the output is `n` entries of well-formed member blocks (`EntryOKB`, nested groups reading back with their nested
  templates) at ANY nesting depth — by the mutual functional induction of `buildEntry` / `writeEntries` (`write_blocks`).
-/
import Qfx.Lemmas.CodecWriteNest
import Qfx.Lemmas.CodecOps
namespace Qfx
open Qfx.Spec

/-- the tags strictly inside the nested group items of a template -/
def deepTags : List Item → List Tag
  | [] => []
  | .elem _ :: r => deepTags r
  | .group _ sub :: r => allTmplTags sub ++ deepTags r

theorem allTmplTags_perm (tm : List Item) : (allTmplTags tm).Perm (tmplTags tm ++ deepTags tm) := by
  induction tm with
  | nil => simp [allTmplTags, tmplTags, deepTags]
  | cons it r ih =>
    cases it with
    | elem t =>
      simp only [allTmplTags, tmplTags, List.map_cons, Item.tag, deepTags, List.cons_append]
      exact List.Perm.cons _ ih
    | group t sub =>
      simp only [allTmplTags, tmplTags, List.map_cons, Item.tag, deepTags, List.cons_append]
      refine List.Perm.cons _ ?_
      have h1 : (allTmplTags sub ++ allTmplTags r).Perm (allTmplTags sub ++ (tmplTags r ++ deepTags r)) := List.Perm.append_left _ ih
      refine h1.trans ?_
      simp only [tmplTags]
      rw [← List.append_assoc, ← List.append_assoc]
      exact List.Perm.append_right _ List.perm_append_comm

theorem nodupTags_iff (l : List Tag) : nodupTags l = true ↔ l.Nodup := by
  induction l with
  | nil => simp [nodupTags]
  | cons t r ih =>
    simp only [nodupTags, Bool.and_eq_true, Bool.not_eq_true', List.nodup_cons, ih]
    constructor
    · rintro ⟨h1, h2⟩; exact ⟨by simpa using h1, h2⟩
    · rintro ⟨h1, h2⟩; exact ⟨by simpa using h1, h2⟩

theorem deep_of_find_group {tm : List Item} {t t' : Tag} {sub : List Item} (h : findItem tm t = some (.group t' sub)) :
    ∀ x ∈ allTmplTags sub, x ∈ deepTags tm := by
  induction tm with
  | nil => simp [findItem] at h
  | cons it r ih =>
    simp only [findItem] at h
    by_cases e : it.tag = t
    · simp only [e, if_true, Option.some.injEq] at h
      subst h
      intro x hx; simp [deepTags, hx]
    · simp only [e, if_false] at h
      intro x hx
      cases it with
      | elem _ => simpa [deepTags] using ih h x hx
      | group _ s2 => simp only [deepTags, List.mem_append]; exact Or.inr (ih h x hx)

theorem nodup_sub_of_find_group {tm : List Item} {t t' : Tag} {sub : List Item} (h : findItem tm t = some (.group t' sub))
    (hn : (allTmplTags tm).Nodup) : (allTmplTags sub).Nodup := by
  induction tm with
  | nil => simp [findItem] at h
  | cons it r ih =>
    simp only [findItem] at h
    by_cases e : it.tag = t
    · simp only [e, if_true, Option.some.injEq] at h
      subst h
      simp only [allTmplTags, List.nodup_cons, List.nodup_append] at hn
      exact hn.2.1
    · simp only [e, if_false] at h
      cases it with
      | elem _ => simp only [allTmplTags, List.nodup_cons] at hn; exact ih h hn.2
      | group _ s2 => simp only [allTmplTags, List.nodup_cons, List.nodup_append] at hn; exact ih h hn.2.2.1

theorem findItem_none_of_not_mem (tm : List Item) (t : Tag) (h : t ∉ tmplTags tm) : findItem tm t = none := by
  induction tm with
  | nil => rfl
  | cons it r ih =>
    simp only [tmplTags, List.map_cons, List.mem_cons, not_or] at h
    simp only [findItem, Ne.symm h.1, if_false]
    exact ih h.2

/-- top-level template tags are not nested tags, when all tags of the template tree are distinct -/
theorem top_not_deep {tm : List Item} (hn : (allTmplTags tm).Nodup) (t : Tag) (ht : t ∈ tmplTags tm) : t ∉ deepTags tm := by
  have := (allTmplTags_perm tm).nodup_iff.1 hn
  rw [List.nodup_append] at this
  intro hd
  exact this.2.2 t ht t hd rfl

theorem sub_tags_split {sub : List Item} (x : Tag) : x ∈ allTmplTags sub ↔ x ∈ tmplTags sub ∨ x ∈ deepTags sub := by
  rw [(allTmplTags_perm sub).mem_iff, List.mem_append]


mutual
  /-- every (nested) entry count fits Go's int -/
  inductive SmallE : List GFld → Prop where
    | nil : SmallE []
    | fld {t : Tag} {v : Bytes} {r : List GFld} : SmallE r → SmallE (.fld t v :: r)
    | grp {t : Tag} {tm : List Item} {es : List (List GFld)} {r : List GFld} : es.length < 9223372036854775808 → SmallEs es → SmallE r →
        SmallE (.grp t tm es :: r)
  inductive SmallEs : List (List GFld) → Prop where
    | nil : SmallEs []
    | cons {e : List GFld} {es : List (List GFld)} : SmallE e → SmallEs es → SmallEs (e :: es)
end

theorem C13_read_zero' (fuel : Nat) (tmpl : List Item) (t0 : TagValue) (rest : List TagValue) (h0 : atoi t0.value = .ok 0) :
    readGroup (fuel + 1) tmpl (t0 :: rest) = .ok (rest, []) := by
  simp [readGroup, h0]

theorem blockData_some (f : GFld) : ∃ p, blockData f = some p ∧ p.1 = f.tag := by
  cases f with
  | fld t v => exact ⟨_, rfl, rfl⟩
  | grp t tm es =>
    obtain ⟨W, hW⟩ := write_total.2 tm es
    exact ⟨(t, countTV t es.length :: W), by simp [blockData, hW], rfl⟩

theorem exists_blocks : ∀ (e : List GFld), ∃ bs : List (Tag × List TagValue), e.map blockData = bs.map some := by
  intro e
  induction e with
  | nil => exact ⟨[], rfl⟩
  | cons f r ih =>
    obtain ⟨bs, h⟩ := ih
    obtain ⟨p, hp, _⟩ := blockData_some f
    exact ⟨p :: bs, by simp [hp, h]⟩

theorem blocks_mem : ∀ (e : List GFld) (bs : List (Tag × List TagValue)), e.map blockData = bs.map some →
    (∀ p ∈ bs, ∃ f ∈ e, blockData f = some p) ∧ (∀ f ∈ e, ∃ p ∈ bs, blockData f = some p) := by
  intro e
  induction e with
  | nil =>
    intro bs h
    cases bs with
    | nil => exact ⟨fun p hp => (by cases hp), fun f hf => (by cases hf)⟩
    | cons b r => simp at h
  | cons f r ih =>
    intro bs h
    cases bs with
    | nil => simp at h
    | cons b bs' =>
      simp only [List.map_cons, List.cons.injEq] at h
      obtain ⟨h1, h2⟩ := ih bs' h.2
      refine ⟨?_, ?_⟩
      · intro p hp
        simp only [List.mem_cons] at hp
        rcases hp with e | e
        · subst e; exact ⟨f, by simp, h.1⟩
        · obtain ⟨g, hg, hgp⟩ := h1 p e; exact ⟨g, by simp [hg], hgp⟩
      · intro g hg
        simp only [List.mem_cons] at hg
        rcases hg with e | e
        · subst e; exact ⟨b, by simp, h.1⟩
        · obtain ⟨p, hp, hgp⟩ := h2 g e; exact ⟨p, by simp [hp], hgp⟩

theorem latestB_of_mem (bs : List (Tag × List TagValue)) (t : Tag) (h : ∃ p ∈ bs, p.1 = t) : ∃ v, latestB bs t = some v := by
  induction bs with
  | nil => obtain ⟨p, hp, _⟩ := h; cases hp
  | cons b r ih =>
    obtain ⟨k, x⟩ := b
    simp only [latestB]
    cases hl : latestB r t with
    | some y => exact ⟨y, rfl⟩
    | none =>
      by_cases hk : k = t
      · exact ⟨x, by simp [hk]⟩
      · obtain ⟨p, hp, hpt⟩ := h
        simp only [List.mem_cons] at hp
        rcases hp with e | e
        · subst e; exact absurd hpt hk
        · obtain ⟨v, hv⟩ := ih ⟨p, e, hpt⟩; rw [hl] at hv; cases hv

theorem entriesOK_cons {tm : List Item} {e : List GFld} {es : List (List GFld)} (h : entriesOK tm (e :: es) = true) :
    (∃ d r, tm = .elem d :: r ∧ e.any (fun f => f.tag = d) = true) ∧ entryOK tm e = true ∧ entriesOK tm es = true := by
  unfold entriesOK at h
  simp only [Bool.and_eq_true] at h
  obtain ⟨⟨h1, h2⟩, h3⟩ := h
  refine ⟨?_, h2, h3⟩
  cases tm with
  | nil => simp at h1
  | cons d0 r =>
    cases d0 with
    | elem d => simp only [Bool.true_and, Item.tag] at h1; exact ⟨d, r, rfl, h1⟩
    | group _ _ => simp at h1

/-- `Write` OF TEMPLATE-CONFORMING ENTRIES IS, FOR THE READER, A LIST OF WELL-FORMED MEMBER BLOCKS (any nesting depth): the reader-side
    counterpart of `write_gwu` -/
theorem write_blocks :
    (∀ (e : List GFld) (fm : FieldMap), FMOK 0 fm → ∀ (tm : List Item), (allTmplTags tm).Nodup → entryOK tm e = true → SmallE e →
      ∀ f ∈ e, ∀ p, blockData f = some p →
        p.1 ∈ tmplTags tm ∧ p.2 ≠ [] ∧ BlockOK (fun t => t ∉ deepTags tm) tm ⟨p.1, p.2⟩ ∧
        (∀ dd, findItem tm p.1 = some (.elem dd) → ∃ tv, p.2 = [tv] ∧ tv.tag = p.1)) ∧
    (∀ (tm : List Item) (es : List (List GFld)), ∀ (d : Tag) (tmplr : List Item), tm = .elem d :: tmplr → (allTmplTags tm).Nodup →
      entriesOK tm es = true → SmallEs es →
      ∃ bss : List (List Block), bss.length = es.length ∧ writeEntries tm es = .ok (bss.flatMap serBlocks) ∧
        ∀ e ∈ bss, EntryOKB (fun t => t ∉ deepTags tm) d tmplr e) := by
  apply buildEntry.mutual_induct
    (motive1 := fun e fm => FMOK 0 fm → ∀ (tm : List Item), (allTmplTags tm).Nodup → entryOK tm e = true → SmallE e →
      ∀ f ∈ e, ∀ p, blockData f = some p →
        p.1 ∈ tmplTags tm ∧ p.2 ≠ [] ∧ BlockOK (fun t => t ∉ deepTags tm) tm ⟨p.1, p.2⟩ ∧
        (∀ dd, findItem tm p.1 = some (.elem dd) → ∃ tv, p.2 = [tv] ∧ tv.tag = p.1))
    (motive2 := fun tm es => ∀ (d : Tag) (tmplr : List Item), tm = .elem d :: tmplr → (allTmplTags tm).Nodup →
      entriesOK tm es = true → SmallEs es →
      ∃ bss : List (List Block), bss.length = es.length ∧ writeEntries tm es = .ok (bss.flatMap serBlocks) ∧
        ∀ e ∈ bss, EntryOKB (fun t => t ∉ deepTags tm) d tmplr e)
  · intro fm _ tm _ _ _ f hf; cases hf
  · -- a plain member
    intro t v r fm s hs ih hfm tm hn hok hsm f hf p hp
    simp only [entryOK, Bool.and_eq_true] at hok
    obtain ⟨r', hr', hne⟩ := hfm.setTV (TagValue.init t v)
    have hsr : s = r' := by
      have : fm.setBytes t v = .ok r' := hr'
      rw [hs] at this; injection this
    subst hsr
    cases hsm with
    | fld hsr =>
      simp only [List.mem_cons] at hf
      rcases hf with e | e
      · subst e
        simp only [blockData, Option.some.injEq] at hp
        subst hp
        cases hfi : findItem tm t with
        | none => rw [hfi] at hok; simp at hok
        | some it =>
          cases it with
          | group _ _ => rw [hfi] at hok; simp at hok
          | elem t' =>
            refine ⟨(findItem_some_tag tm t _ hfi).2, by simp, Or.inl ⟨TagValue.init t v, t', rfl, rfl, hfi⟩, ?_⟩
            intro dd _; exact ⟨_, rfl, rfl⟩
      · exact ih hne tm hn hok.2 hsr f e p hp
  · intro t v r fm e hs hfm tm _ _ _ f hf p hp
    obtain ⟨r', hr', _⟩ := hfm.setTV (TagValue.init t v)
    have : fm.setBytes t v = .ok r' := hr'
    rw [hs] at this; cases this
  · intro t v r fm w hs hfm tm _ _ _ f hf p hp
    obtain ⟨r', hr', _⟩ := hfm.setTV (TagValue.init t v)
    have : fm.setBytes t v = .ok r' := hr'
    rw [hs] at this; cases this
  · -- a nested group member
    intro t sub es' r fm tvs hw ih2 ih1 hfm tm hn hok hsm f hf p hp
    simp only [entryOK, Bool.and_eq_true] at hok
    cases hsm with
    | grp hcnt hses hsr =>
      simp only [List.mem_cons] at hf
      rcases hf with e | e
      · subst e
        simp only [blockData, hw, Option.some.injEq] at hp
        subst hp
        cases hfi : findItem tm t with
        | none => rw [hfi] at hok; simp at hok
        | some it =>
          cases it with
          | elem _ => rw [hfi] at hok; simp at hok
          | group t' sub' =>
            rw [hfi] at hok
            simp only at hok
            have etm : sub = sub' := tmplEq_eq sub sub' hok.1.1
            subst etm
            have hmemT := (findItem_some_tag tm t _ hfi).2
            refine ⟨hmemT, by simp, Or.inr ⟨t', sub, countTV t es'.length, tvs, hfi, rfl, rfl, ?_⟩, ?_⟩
            · -- the nested group's wire form reads back whenever a tag allowed at this level follows
              cases es' with
              | nil =>
                simp only [writeEntries] at hw; injection hw with hw; subst hw
                intro fuel after hf _
                cases fuel with
                | zero => simp at hf
                | succ k =>
                  refine ⟨[], ?_⟩
                  have h0 : atoi (countTV t ([] : List (List GFld)).length).value = .ok 0 := by
                    have := atoi_fmtNat 0 (by decide)
                    simpa [countTV, TagValue.init] using this
                  simpa using C13_read_zero' k sub (countTV t 0) after h0
              | cons e1 es2 =>
                obtain ⟨⟨d', r', hsub, _⟩, _, _⟩ := entriesOK_cons hok.1.2
                have hnsub := nodup_sub_of_find_group hfi hn
                obtain ⟨bss, hlen, hwr, hes⟩ := ih2 d' r' hsub hnsub hok.1.2 hses
                rw [hw] at hwr; injection hwr with hwr
                subst hwr
                rw [← hlen]
                subst hsub
                refine nestedOK_of_entries (fun x => x ∉ deepTags (.elem d' :: r')) (fun x => x ∉ deepTags tm) t d' r' ?_ ?_ bss hes
                  (by rw [hlen]; exact hcnt)
                · intro x hx; exact top_not_deep hnsub x hx
                · intro x hx
                  have hnot : x ∉ allTmplTags (.elem d' :: r') := fun hm => hx (deep_of_find_group hfi x hm)
                  rw [sub_tags_split] at hnot
                  exact ⟨fun hd => hnot (Or.inr hd), findItem_none_of_not_mem _ _ (fun hm => hnot (Or.inl hm))⟩
            · intro dd hdd; cases hdd
      · exact ih1 (hfm.setGroup t _ _) tm hn hok.2 hsr f e p hp
  · intro t sub es' r fm e hw _ _ tm _ _ _ f hf p hp
    obtain ⟨W, hW⟩ := write_total.2 sub es'; rw [hw] at hW; cases hW
  · intro t sub es' r fm w hw _ _ tm _ _ _ f hf p hp
    obtain ⟨W, hW⟩ := write_total.2 sub es'; rw [hw] at hW; cases hW
  · intro tm d tmplr _ _ _ _
    exact ⟨[], rfl, by simp [writeEntries], by intro e he; cases he⟩
  · -- one more entry
    intro tm e es fm hb tvs hw ih1 ih2 d tmplr htm hn hok hsm
    obtain ⟨⟨d0, r0, htm0, hany⟩, hokE, hokEs⟩ := entriesOK_cons hok
    cases hsm with
    | cons hsE hsEs =>
      obtain ⟨bss', hlen', hwr', hes'⟩ := ih2 d tmplr htm hn hokEs hsEs
      have hall := ih1 (FMOK.empty 0 _) tm hn hokE hsE
      obtain ⟨bs, hdata⟩ := exists_blocks e
      obtain ⟨hm1, hm2⟩ := blocks_mem e bs hdata
      have hprop : ∀ p ∈ bs, p.1 ∈ tmplTags tm ∧ p.2 ≠ [] ∧ BlockOK (fun t => t ∉ deepTags tm) tm ⟨p.1, p.2⟩ ∧
          (∀ dd, findItem tm p.1 = some (.elem dd) → ∃ tv, p.2 = [tv] ∧ tv.tag = p.1) := by
        intro p hp; obtain ⟨f, hf, hfp⟩ := hm1 p hp; exact hall f hf p hfp
      have hne : (FieldMap.empty (.group (tmplTags tm))).ownedNE := by
        intro k f hf; simp [FieldMap.empty, alFind] at hf
      have hbe := buildEntry_blocks e bs _ hdata hne (fun p hp => (hprop p hp).2.1)
      rw [hb] at hbe; injection hbe with hbe
      have htop : (tmplTags tm).Nodup := by
        have := (allTmplTags_perm tm).nodup_iff.1 hn
        exact (List.nodup_append.1 this).1
      have hent : entryTVs fm = serBlocks (canonB (tmplTags tm) bs) := by
        rw [hbe]; exact entryTVs_blocks (tmplTags tm) htop bs (fun p hp => (hprop p hp).1)
      -- the delimiter
      have hd0 : d0 = d := by rw [htm] at htm0; injection htm0 with h1 _; injection h1 with h1; exact h1.symm
      subst hd0
      have hdel : ∃ tv, latestB bs d0 = some [tv] ∧ tv.tag = d0 := by
        obtain ⟨f, hf, hft⟩ := List.any_eq_true.1 hany
        have hft' : f.tag = d0 := by simpa using hft
        obtain ⟨p, hp, hfp⟩ := hm2 f hf
        obtain ⟨q, hq, hqt⟩ := blockData_some f
        rw [hfp] at hq; injection hq with hq; subst hq
        obtain ⟨v, hv⟩ := latestB_of_mem bs d0 ⟨p, hp, by rw [hqt, hft']⟩
        have hmem := latestB_mem bs d0 v hv
        have hfd : findItem tm (d0, v).1 = some (.elem d0) := by rw [htm]; simp [findItem, Item.tag]
        obtain ⟨tv, htv, htag⟩ := (hprop (d0, v) hmem).2.2.2 d0 hfd
        simp only at htv htag
        exact ⟨tv, by rw [hv, htv], htag⟩
      obtain ⟨tv, hd, htv⟩ := hdel
      have hE : EntryOKB (fun t => t ∉ deepTags tm) d0 tmplr (canonB (tmplTags tm) bs) := by
        rw [htm] at htop hprop ⊢
        exact canonB_entryOK _ d0 tmplr htop bs tv hd htv (fun p hp => (hprop p hp).2.2.1)
      refine ⟨canonB (tmplTags tm) bs :: bss', by simp [hlen'], ?_, ?_⟩
      · rw [hw] at hwr'; injection hwr' with hwr'
        simp only [writeEntries, hb, hw, hent, List.flatMap_cons, hwr']
      · intro x hx
        simp only [List.mem_cons] at hx
        rcases hx with e' | e'
        · subst e'; exact hE
        · exact hes' x e'
  · intro tm e es fm hb e1 hw _ _ d tmplr _ _ _ _
    obtain ⟨W, hW⟩ := write_total.2 tm es; rw [hw] at hW; cases hW
  · intro tm e es fm hb w hw _ _ d tmplr _ _ _ _
    obtain ⟨W, hW⟩ := write_total.2 tm es; rw [hw] at hW; cases hW
  · intro tm e es e1 hb _ d tmplr _ _ _ _
    obtain ⟨fm', h, _⟩ := write_total.1 e _ (FMOK.empty 0 _); rw [hb] at h; cases h
  · intro tm e es w hb _ d tmplr _ _ _ _
    obtain ⟨fm', h, _⟩ := write_total.1 e _ (FMOK.empty 0 _); rw [hb] at h; cases h

end Qfx
