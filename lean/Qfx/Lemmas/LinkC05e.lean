/-
  C05 helper lemmas, part e: the invariant `K` of one engine step relative to the (fixed) store of the peer — sender
  role (`Snd`), the expected inbound number never passes the peer's next outbound number, and what was delivered is
  exactly the payloads of the peer's application messages numbered below the expected number — and its preservation
  by the handlers of inbound messages, for messages the peer wrote.
-/
import Qfx.Lemmas.LinkC05d
namespace Qfx.Link
open Qfx Qfx.Sess

/-- payloads delivered according to a log (newest first) -/
def dl (rcv : List (String × String)) (log : List Obs) : List String := (deliveredSeqs log.reverse).map (payloadOf rcv)

theorem deliveredSeqs_neutral (l : List Obs) (h : l.all neutral = true) : deliveredSeqs l = [] := by
  induction l with
  | nil => rfl
  | cons o l ih =>
    simp only [List.all_cons, Bool.and_eq_true] at h
    unfold deliveredSeqs at ih ⊢
    rw [List.filterMap_cons]
    cases o <;> simp_all [neutral]

theorem deliveredSeqs_append (a b : List Obs) : deliveredSeqs (a ++ b) = deliveredSeqs a ++ deliveredSeqs b := by
  simp [deliveredSeqs, List.filterMap_append]

theorem dl_ext {s s' : Sess} (h : Ext s s') (rcv : List (String × String)) : dl rcv s'.log = dl rcv s.log := by
  obtain ⟨_, extra, hl, hn⟩ := h
  unfold dl
  rw [hl, List.reverse_append, deliveredSeqs_append, deliveredSeqs_neutral extra.reverse (by simpa using hn)]
  simp

theorem dl_cons_neutral (rcv : List (String × String)) (o : Obs) (log : List Obs) (h : neutral o = true) : dl rcv (o :: log) = dl rcv log := by
  unfold dl
  rw [List.reverse_cons, deliveredSeqs_append, deliveredSeqs_neutral [o] (by simp [h])]
  simp

theorem dl_cons_incT (rcv : List (String × String)) (log : List Obs) : dl rcv (Obs.incT :: log) = dl rcv log := by
  unfold dl
  rw [List.reverse_cons, deliveredSeqs_append]
  simp [deliveredSeqs]

theorem dl_cons_setT (rcv : List (String × String)) (n : Int) (log : List Obs) : dl rcv (Obs.setT n :: log) = dl rcv log := by
  unfold dl
  rw [List.reverse_cons, deliveredSeqs_append]
  simp [deliveredSeqs]

theorem dl_cons_fromApp (rcv : List (String × String)) (sq : String) (t : Int) (log : List Obs) :
    dl rcv (Obs.fromApp sq t :: log) = dl rcv log ++ [payloadOf rcv sq] := by
  unfold dl
  rw [List.reverse_cons, deliveredSeqs_append]
  simp [deliveredSeqs]

structure K (c : Ctx) (s : Sess) : Prop where
  cfg : s.cfg = c.cfg
  snd : Snd c.st0 s
  t1 : 1 ≤ s.store.target
  t2 : s.store.target ≤ c.P.sender
  d : c.d0 ++ dl c.rcv s.log = appPay (below s.store.target c.P.msgs)

theorem SExt.K {c : Ctx} {s s' : Sess} (h : SExt s s') (hk : K c s) : K c s' :=
  ⟨h.cfg.trans hk.cfg, h.snd _ hk.snd, by rw [h.ext.tgt]; exact hk.t1, by rw [h.ext.tgt]; exact hk.t2,
    by rw [dl_ext h.ext, h.ext.tgt]; exact hk.d⟩

/-! ### inversion of `Wire` -/

theorem wire_at {P : Store} {m : OutMsg} (h : Wire P m) (hk : m.kind ≠ "4") :
    ∃ m0, (m.seq, m0) ∈ P.msgs ∧ m0.kind = m.kind ∧ m0.f.get? 9000 = m.f.get? 9000 := by
  cases h with
  | stored h => exact ⟨_, h, rfl, rfl⟩
  | @resent m0 h happ => exact ⟨m0, h, rfl, (resent_get? m0 9000 (by decide) (by decide)).symm⟩
  | gap b e l => exact absurd rfl hk

theorem wire_gap_inv {P : Store} (hP : StoreOK P) {m : OutMsg} (h : Wire P m) (hk : m.kind = "4") :
    ∃ b e l, m = gapFillL b e l ∧ b < e ∧ e ≤ P.sender ∧ -9223372036854775808 ≤ b ∧
      ∀ p ∈ P.msgs, b ≤ p.1 → p.1 < e → isAdminKind p.2.kind = true := by
  cases h with
  | stored h => exact absurd hk (hP.ent _ h).2.2.2.k4
  | @resent m0 h happ =>
    have : m0.kind = "4" := hk
    rw [this] at happ
    exact absurd happ (by decide)
  | gap b e l hbe he hb hadm => exact ⟨b, e, l, rfl, hbe, he, hb, hadm⟩

/-! ### advancing the expected number -/

theorem snd_target {st0 : Store} {s : Sess} (h : Snd st0 s) (n : Int) (o : Obs) (ho : ∀ m, o ≠ .wire m) :
    Snd st0 ((s.setTarget n).emit o) :=
  ⟨h.persist, h.sok.target n, h.grow.target n, fun m hm => (h.q m hm).mono (Grow.target (Grow.refl true s.store) n), by
    intro m hm
    simp only [Sess.emit, Sess.setTarget, List.mem_cons] at hm
    rcases hm with hm | hm
    · exact absurd hm.symm (ho m)
    · exact (h.w m hm).mono (Grow.target (Grow.refl true s.store) n)⟩

/-- the expected number passes an administrative message of the peer -/
theorem K.incr_admin {c : Ctx} {s : Sess} (hc : CtxOK c) (hk : K c s) (m0 : OutMsg) (hmem : (s.store.target, m0) ∈ c.P.msgs)
    (ha : isAdminKind m0.kind = true) : K c (incrTarget s) := by
  have hlt := (hc.pok.ent _ hmem).2.2.1
  simp only at hlt
  refine ⟨hk.cfg, snd_target hk.snd _ _ (by intro m; simp), ?_, ?_, ?_⟩
  · have := hk.t1; simp only [incrTarget, Sess.emit, Sess.setTarget]; omega
  · simp only [incrTarget, Sess.emit, Sess.setTarget]; omega
  · simp only [incrTarget, Sess.emit, Sess.setTarget, dl_cons_incT]
    rw [adv_one _ m0 _ hc.pok.desc hmem, hk.d]
    simp [pay, ha]

/-- the expected number passes an application message of the peer: its payload is delivered -/
theorem K.deliver {c : Ctx} {s : Sess} (hc : CtxOK c) (hk : K c s) (m0 : OutMsg) (hmem : (s.store.target, m0) ∈ c.P.msgs)
    (ha : isAdminKind m0.kind = false) (p : String) (hp : m0.f.get? 9000 = some p) (sq : String) (hn : payloadOf c.rcv sq = p) (tt : Int) :
    K c (incrTarget (s.emit (.fromApp sq tt))) := by
  have hlt := (hc.pok.ent _ hmem).2.2.1
  simp only at hlt
  have hs1 : Snd c.st0 (s.emit (.fromApp sq tt)) := (SExt.of_eq (s := s) (s' := s) rfl rfl rfl rfl).snd _ hk.snd |> fun h =>
    ⟨h.persist, h.sok, h.grow, h.q, by
      intro m hm
      simp only [Sess.emit, List.mem_cons] at hm
      rcases hm with hm | hm
      · cases hm
      · exact h.w m hm⟩
  refine ⟨hk.cfg, snd_target hs1 _ _ (by intro m; simp), ?_, ?_, ?_⟩
  · have := hk.t1; simp only [incrTarget, Sess.emit, Sess.setTarget]; omega
  · simp only [incrTarget, Sess.emit, Sess.setTarget]; omega
  · simp only [incrTarget, Sess.emit, Sess.setTarget, dl_cons_incT, dl_cons_fromApp]
    rw [adv_one _ m0 _ hc.pok.desc hmem, ← hk.d, hn]
    simp [pay, ha, hp]

/-- a gap fill of the peer moves the expected number over administrative messages only -/
theorem K.setT {c : Ctx} {s : Sess} (hc : CtxOK c) (hk : K c s) (e : Int) (hbe : s.store.target < e) (he : e ≤ c.P.sender)
    (hadm : ∀ p ∈ c.P.msgs, s.store.target ≤ p.1 → p.1 < e → isAdminKind p.2.kind = true) :
    K c ((s.setTarget e).emit (.setT e)) := by
  refine ⟨hk.cfg, snd_target hk.snd _ _ (by intro m; simp), ?_, ?_, ?_⟩
  · have := hk.t1; simp only [Sess.emit, Sess.setTarget]; omega
  · simp only [Sess.emit, Sess.setTarget]; exact he
  · simp only [Sess.emit, Sess.setTarget, dl_cons_setT]
    rw [adv_gap _ e _ hc.pok.desc (by omega) hadm, hk.d]

/-! ### handlers of inbound messages -/

theorem cbObs_toIn (x : Sess) (pcfg : Cfg) (m : OutMsg) : cbObs x (toIn pcfg m) =
    if isAdminKind m.kind then .fromAdmin m.kind (toString m.seq) else .fromApp (toString m.seq) x.store.target := by
  unfold cbObs; rw [toIn_kind, toIn_seqText]

theorem sext_emit_cb_admin (x : Sess) (pcfg : Cfg) (m : OutMsg) (ha : isAdminKind m.kind = true) : SExt x (x.emit (cbObs x (toIn pcfg m))) := by
  rw [cbObs_toIn, if_pos ha]
  exact SExt.emit _ _ rfl (by intro _; simp)

theorem checkTooLow_pool {c : Ctx} (hc : CtxOK c) {m : OutMsg} (hw : Wire c.P m) (x : Sess) : checkTooLow x (toIn c.pcfg m) =
    if m.seq < x.store.target then some (.tooLow m.seq x.store.target) else none := by
  unfold checkTooLow; rw [pf_seq hc hw]

theorem checkTooHigh_pool {c : Ctx} (hc : CtxOK c) {m : OutMsg} (hw : Wire c.P m) (x : Sess) : checkTooHigh x (toIn c.pcfg m) =
    if m.seq > x.store.target then some (.tooHigh m.seq x.store.target) else none := by
  unfold checkTooHigh; rw [pf_seq hc hw]

theorem kind_ne {c : Ctx} (hc : CtxOK c) {m : OutMsg} (hw : Wire c.P m) : kindOf (toIn c.pcfg m) ≠ "" := by
  rw [toIn_kind]; exact (wire_facts hc.pok hc.bound hw).k

theorem K_reject_high {c : Ctx} {s : Sess} (hk : K c s) (im : InMsg) (recv exp : Int) : K c (processReject s im (.tooHigh recv exp)).1 := by
  unfold processReject
  simp only []
  split
  · exact hk
  · exact (sext_sendResendRequest s _ _).K hk

theorem K_reject_low {c : Ctx} (hc : CtxOK c) {s : Sess} (hk : K c s) {m : OutMsg} (hw : Wire c.P m) (a b : Int) :
    K c (processReject s (toIn c.pcfg m) (.tooLow a b)).1 := by
  unfold processReject
  simp only []
  exact (sext_doTargetTooLow s _ 0 (getTime_at0 _ _ (toIn_get52 _ _)) (kind_ne hc hw)).K hk

/-- the message is exactly the expected one and administrative: after any replies, the expected number passes it -/
theorem K_finish_admin {c : Ctx} (hc : CtxOK c) {s : Sess} (hk : K c s) {m : OutMsg} (hw : Wire c.P m) {x : Sess} (hx : SExt s x)
    (ha : isAdminKind m.kind = true) (hk4 : m.kind ≠ "4")
    (h1 : s.store.target ≤ m.seq) (h2 : m.seq ≤ s.store.target) : K c (incrTarget x) := by
  obtain ⟨m0, hmem, hkd, _⟩ := wire_at hw hk4
  have hx' := hx.K hk
  have ht : x.store.target = m.seq := by rw [hx.ext.tgt]; omega
  exact hx'.incr_admin hc m0 (by rw [ht]; exact hmem) (by rw [hkd]; exact ha)

theorem K_handleLogout {c : Ctx} (hc : CtxOK c) {s : Sess} (hk : K c s) {m : OutMsg} (hw : Wire c.P m)
    (ha : isAdminKind m.kind = true) (hk4 : m.kind ≠ "4") : K c (handleLogout s (toIn c.pcfg m)).1 := by
  unfold handleLogout
  rw [verifySelect_pool hc hk.cfg hw]
  simp only [Bool.false_eq_true, false_and, if_false, if_true]
  generalize hx : (if (s.emit (cbObs s (toIn c.pcfg m))).st.loggedOn = true
      then sendInReplyTo (s.emit (cbObs s (toIn c.pcfg m))) ((mkOut "5" []).inReplyTo (toIn c.pcfg m)) else s.emit (cbObs s (toIn c.pcfg m))) = x
  have hX : SExt s x := by
    rw [← hx]
    have := sext_emit_cb_admin s c.pcfg m ha
    sx_peel
  have hcfg : x.cfg.resetOnLogout = false := by rw [hX.cfg, hk.cfg]; exact hc.nr.2.1
  simp only [hcfg, Bool.false_eq_true, if_false]
  rw [checkTooLow_pool hc hw, checkTooHigh_pool hc hw]
  have e := hX.ext.tgt
  by_cases h1 : m.seq < x.store.target
  · simp only [h1, if_true, Option.isSome_some]; exact hX.K hk
  · by_cases h2 : m.seq > x.store.target
    · simp only [h1, h2, if_true, if_false, Option.isSome_some, Option.isSome_none, Bool.false_eq_true]; exact hX.K hk
    · simp only [h1, h2, if_false, Option.isSome_none, Bool.false_eq_true]
      exact K_finish_admin hc hk hw hX ha hk4 (by omega) (by omega)

theorem wire_stored_of_admin {P : Store} {m : OutMsg} (hw : Wire P m) (ha : isAdminKind m.kind = true) (hk4 : m.kind ≠ "4") :
    (m.seq, m) ∈ P.msgs := by
  cases hw with
  | stored h => exact h
  | @resent m0 h happ =>
    have : isAdminKind m0.kind = true := ha
    rw [this] at happ; cases happ
  | gap b e l => exact absurd rfl hk4

theorem K_handleTestRequest {c : Ctx} (hc : CtxOK c) {s : Sess} (hk : K c s) {m : OutMsg} (hw : Wire c.P m)
    (ha : isAdminKind m.kind = true) (hk4 : m.kind ≠ "4") : K c (handleTestRequest s (toIn c.pcfg m)).1 := by
  unfold handleTestRequest
  rw [verifySelect_pool hc hk.cfg hw]
  simp only [true_and, if_true]
  by_cases h1 : m.seq < s.store.target
  · simp only [h1, if_true]; exact K_reject_low hc hk hw _ _
  · by_cases h2 : s.store.target < m.seq
    · simp only [h1, h2, if_true, if_false]; exact K_reject_high hk _ _ _
    · simp only [h1, h2, if_false]
      have h0 := sext_emit_cb_admin s c.pcfg m ha
      refine K_finish_admin hc hk hw ?_ ha hk4 (by omega) (by omega)
      split
      · rename_i id hid
        rw [toIn_get_body _ _ 112 (by decide)] at hid
        have hne : id ≠ "" := ((wire_facts hc.pok hc.bound hw).vals _ (get?_mem hid)).1
        have := outOK_hbReply id hne
        sx_peel
      · exact h0

theorem getBool_Y (im : InMsg) (t : Nat) (h : im.f.get? t = some "Y") : getBool im t = .val true := by
  unfold getBool; rw [h]
  have : readBool (strBytes "Y") = .ok true := by decide
  simp only [this]

theorem K_handleSequenceReset {c : Ctx} (hc : CtxOK c) {s : Sess} (hk : K c s) {m : OutMsg} (hw : Wire c.P m)
    (hk4 : m.kind = "4") : K c (handleSequenceReset s (toIn c.pcfg m)).1 := by
  obtain ⟨b, e, l, rfl, hbe, he, hb, hadm⟩ := wire_gap_inv hc.pok hw hk4
  have h123 : getBool (toIn c.pcfg (gapFillL b e l)) 123 = .val true :=
    getBool_Y _ _ (by rw [toIn_get_body _ _ 123 (by decide)]; simp [gapFillL, gapFill, get?_cons])
  have hbound := hc.bound
  have h36 : getInt (toIn c.pcfg (gapFillL b e l)) 36 = .val e :=
    getInt_of_get? _ _ _ (by rw [toIn_get_body _ _ 36 (by decide)]; simp [gapFillL, gapFill, get?_cons])
      (by unfold inInt64; unfold maxSeq at hbound; omega)
  unfold handleSequenceReset
  rw [h123]
  simp only []
  rw [verifySelect_pool hc hk.cfg hw]
  simp only [true_and, if_true]
  have hseq : (gapFillL b e l).seq = b := rfl
  rw [hseq]
  by_cases h1 : b < s.store.target
  · simp only [h1, if_true]; exact K_reject_low hc hk hw _ _
  · by_cases h2 : s.store.target < b
    · simp only [h1, h2, if_true, if_false]; exact K_reject_high hk _ _ _
    · simp only [h1, h2, if_false]
      rw [h36]
      simp only []
      have hX := sext_emit_cb_admin s c.pcfg (gapFillL b e l) (show isAdminKind "4" = true by decide)
      have hk' := hX.K hk
      have ht : (s.emit (cbObs s (toIn c.pcfg (gapFillL b e l)))).store.target = s.store.target := rfl
      have hgt : e > (s.emit (cbObs s (toIn c.pcfg (gapFillL b e l)))).store.target := by rw [ht]; omega
      rw [if_pos hgt]
      exact hk'.setT hc e (by rw [ht]; omega) he (by
        intro p hp h3 h4
        rw [ht] at h3
        exact hadm p hp (by omega) h4)

theorem K_handleResendRequest {c : Ctx} (hc : CtxOK c) {s : Sess} (hk : K c s) {m : OutMsg} (hw : Wire c.P m)
    (hk2 : m.kind = "2") : K c (handleResendRequest s (toIn c.pcfg m)).1 := by
  have ha : isAdminKind m.kind = true := by rw [hk2]; decide
  have hk4 : m.kind ≠ "4" := by rw [hk2]; decide
  have hst := wire_stored_of_admin hw ha hk4
  obtain ⟨x7, x16, h7, h16⟩ := (hc.pok.ent _ hst).2.2.2.rr hk2
  obtain ⟨b, hb⟩ := getInt_of_get?_some (toIn c.pcfg m) 7 x7 (by rw [toIn_get_body _ _ 7 (by decide)]; exact h7)
  obtain ⟨e, he⟩ := getInt_of_get?_some (toIn c.pcfg m) 16 x16 (by rw [toIn_get_body _ _ 16 (by decide)]; exact h16)
  have hb64 := getInt_in64 _ _ _ hb
  unfold handleResendRequest
  rw [verifySelect_pool hc hk.cfg hw]
  simp only [Bool.false_eq_true, false_and, if_false, if_true]
  rw [hb]
  simp only []
  rw [he]
  simp only []
  have h0 := sext_emit_cb_admin s c.pcfg m ha
  generalize hs1 : s.emit (cbObs s (toIn c.pcfg m)) = s1 at h0
  generalize he' : (if (decide (s1.cfg.bs ≥ 2) && e == 0 || decide (s1.cfg.bs ≤ 2) && e == 999999 || decide (e ≥ s1.store.sender)) = true
      then s1.store.sender - 1 else e) = e'
  have hle : e' ≤ s1.store.sender - 1 := by
    rw [← he']
    split
    · exact Int.le_refl _
    · rename_i hcond
      simp only [Bool.or_eq_true, decide_eq_true_eq, not_or] at hcond
      omega
  generalize hs1r : s1.setReplyLast (replyLastOf s1 (toIn c.pcfg m)) = s1r
  have h0r : SExt s s1r := by rw [← hs1r]; exact xpeel_setReplyLast _ h0
  have hle : e' ≤ s1r.store.sender - 1 := by rw [← hs1r]; exact hle
  have hX : SExt s (resendMessages s1r b e') :=
    h0r.trans (sext_resendMessages s1r b e' (by unfold inInt64 at hb64; omega) hle)
  have e2 := hX.ext.tgt
  rw [checkTooLow_pool hc hw, checkTooHigh_pool hc hw]
  by_cases h1 : m.seq < (resendMessages s1r b e').store.target
  · simp only [h1, if_true, Option.isSome_some]; exact hX.K hk
  · by_cases h2 : m.seq > (resendMessages s1r b e').store.target
    · simp only [h1, h2, if_true, if_false, Option.isSome_some, Option.isSome_none, Bool.false_eq_true]; exact hX.K hk
    · simp only [h1, h2, if_false, Option.isSome_none, Bool.false_eq_true]
      exact K_finish_admin hc hk hw hX ha hk4 (by omega) (by omega)

theorem K_generic {c : Ctx} (hc : CtxOK c) {s : Sess} (hk : K c s) {m : OutMsg} (hw : Wire c.P m) (hn : Noted c.rcv m)
    (hk4 : m.kind ≠ "4") :
    K c (match verifySelect s (toIn c.pcfg m) true true true with
      | (s, some r) => processReject s (toIn c.pcfg m) r
      | (s, none) => (incrTarget s, SState.inSession)).1 := by
  rw [verifySelect_pool hc hk.cfg hw]
  simp only [true_and, if_true]
  by_cases h1 : m.seq < s.store.target
  · simp only [h1, if_true]; exact K_reject_low hc hk hw _ _
  · by_cases h2 : s.store.target < m.seq
    · simp only [h1, h2, if_true, if_false]; exact K_reject_high hk _ _ _
    · simp only [h1, h2, if_false]
      cases ha : isAdminKind m.kind with
      | true => exact K_finish_admin hc hk hw (sext_emit_cb_admin s c.pcfg m ha) ha hk4 (by omega) (by omega)
      | false =>
        rw [cbObs_toIn, ha]
        simp only [Bool.false_eq_true, if_false]
        obtain ⟨m0, hmem, hkd, h9⟩ := wire_at hw hk4
        have ht : s.store.target = m.seq := by omega
        have ha0 : isAdminKind m0.kind = false := by rw [hkd]; exact ha
        obtain ⟨p, hp⟩ := (hc.pok.ent _ hmem).2.2.2.app ha0
        have hp0 : m0.f.get? 9000 = some p := by rw [hp]; simp [get?_cons]
        exact hk.deliver hc m0 (by rw [ht]; exact hmem) ha0 p hp0 _ (hn p (by rw [← h9]; exact hp0)) _

theorem sext_logonReply (s : Sess) (im : InMsg) : SExt s (logonReply s im false) := by
  unfold logonReply
  sx_cases

theorem K_logonFinish {c : Ctx} (hc : CtxOK c) {s : Sess} (hk : K c s) {m : OutMsg} (hw : Wire c.P m)
    (ha : isAdminKind m.kind = true) (hk4 : m.kind ≠ "4") {x : Sess} (hX : SExt s x) (h1 : s.store.target ≤ m.seq) (ns : Int) :
    K c (logonFinish x (toIn c.pcfg m) ns).1 ∧
      (∀ r, (logonFinish x (toIn c.pcfg m) ns).2 = some (LogonErr.rej r) → ∃ a b, r = Rej.tooHigh a b) := by
  unfold logonFinish
  rw [nxEval_off _ _ _ (by show x.cfg.nextExpected = false; rw [hX.cfg, hk.cfg]; exact hc.nx)]
  simp only []
  generalize hx4 : ((x.setSentReset false).emit (Obs.armPeer (1200 * x.hb))).emit Obs.onLogon = x4
  have hX4 : SExt s x4 := by rw [← hx4]; sx_peel
  have e := hX4.ext.tgt
  rw [checkTooHigh_pool hc hw]
  by_cases h2 : m.seq > x4.store.target
  · simp only [h2, if_true]
    exact ⟨hX4.K hk, fun r hr => by simp only [Option.some.injEq, LogonErr.rej.injEq] at hr; exact ⟨_, _, hr.symm⟩⟩
  · simp only [h2, if_false]
    exact ⟨K_finish_admin hc hk hw hX4 ha hk4 h1 (by omega), fun r hr => by cases hr⟩

theorem K_handleLogon {c : Ctx} (hc : CtxOK c) {s : Sess} (hk : K c s) {m : OutMsg} (hw : Wire c.P m)
    (ha : isAdminKind m.kind = true) (hk4 : m.kind ≠ "4") :
    K c (handleLogon s (toIn c.pcfg m)).1 ∧
      (∀ r, (handleLogon s (toIn c.pcfg m)).2 = some (.rej r) → (∃ a b, r = .tooLow a b) ∨ (∃ a b, r = .tooHigh a b)) := by
  unfold handleLogon
  split
  · exact ⟨hk, fun r hr => by cases hr⟩
  · generalize hs1 : (if (!s.cfg.initiator && s.cfg.refreshOnLogon) = true then s.emit Obs.refresh else s) = s1
    have h1 : SExt s s1 := by rw [← hs1]; sx_peel
    simp only []
    rw [verifyAppImpl_pass s1 _ (pf_valid hc (h1.cfg.trans hk.cfg) hw), pf_cb hc hw]
    have h2 : SExt s (s1.emit (cbObs s1 (toIn c.pcfg m))) := h1.trans (sext_emit_cb_admin s1 c.pcfg m ha)
    generalize hs2 : s1.emit (cbObs s1 (toIn c.pcfg m)) = s2 at h2
    have hcfg2 : s2.cfg = c.cfg := h2.cfg.trans hk.cfg
    have hro : s2.cfg.resetOnLogon = false := by rw [hcfg2]; exact hc.nr.1
    rw [pf_flag hc hw]
    simp only [hro, Bool.false_and, Bool.or_false, ite_self, Bool.false_eq_true, if_false]
    rw [verifySelect_pool hc hcfg2 hw]
    simp only [Bool.false_eq_true, false_and, if_false, true_and]
    have e2 := h2.ext.tgt
    by_cases hlow : m.seq < s2.store.target
    · simp only [hlow, if_true]
      exact ⟨h2.K hk, fun r hr => by simp only [Option.some.injEq, LogonErr.rej.injEq] at hr; exact Or.inl ⟨_, _, hr.symm⟩⟩
    · simp only [hlow, if_false]
      have h3 : SExt s (logonReply s2 (toIn c.pcfg m) false) := h2.trans (sext_logonReply s2 _)
      rw [logonTail_off _ _ _ (by rw [hcfg2]; exact hc.nx), pf_flag hc hw]
      obtain ⟨k1, k2⟩ := K_logonFinish hc hk hw ha hk4 h3 (by omega) s.store.sender
      exact ⟨k1, fun r hr => Or.inr (k2 r hr)⟩

end Qfx.Link
