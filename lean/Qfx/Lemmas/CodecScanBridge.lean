/-
  The bridge between the independent scanner of `Qfx.Spec.Codec` (`scanFields`, `wfScanned`, `tagNum`) and the parser's vocabulary
  (`IsWire`, `WireMsg`): what the scanner accepts is the concatenation of fields of the wire form, the scanner's numeric tag agrees with
  `atoi`, and a well-formed scan (with the numeric side conditions) is a `WireMsg` with the right BodyLength.
-/
import Qfx.Lemmas.CodecAnyDict
import Qfx.Lemmas.CodecScan
namespace Qfx
open Qfx.Spec

theorem digitsVal_lt18 (ds : Bytes) (h : ds.all isDigit = true) (hl : ds.length ≤ 18) : digitsVal ds < 1000000000000000000 := by
  have h1 := digitsVal_lt ds h
  have h2 : 10 ^ ds.length ≤ 10 ^ 18 := Nat.pow_le_pow_right (by decide) hl
  have : (10 : Nat) ^ 18 = 1000000000000000000 := by decide
  omega

theorem tagNum_digits (ds : Bytes) (t : Int) (h : (if ds.isEmpty || decide (ds.length > 18) || !ds.all isDigit then none else some t) = some t) :
    ds ≠ [] ∧ ds.length ≤ 18 ∧ ds.all isDigit = true := by
  by_cases hc : (ds.isEmpty || decide (ds.length > 18) || !ds.all isDigit) = true
  · rw [if_pos hc] at h; cases h
  · simp only [Bool.or_eq_true, not_or, Bool.not_eq_true, decide_eq_false_iff_not, Bool.not_eq_false'] at hc
    obtain ⟨⟨hne, hlen⟩, hdig⟩ := hc
    exact ⟨by intro e; subst e; simp at hne, by omega, by simpa using hdig⟩

/-- the scanner's numeric reading of a tag text agrees with the parser's `atoi` -/
theorem atoi_of_tagNum (b : Bytes) (t : Int) (h : tagNum b = some t) : atoi b = .ok t := by
  cases b with
  | nil => simp [tagNum] at h
  | cons c cs =>
    by_cases hc : c = 45
    · subst hc
      simp only [tagNum] at h
      by_cases hcond : (cs.isEmpty || decide (cs.length > 18) || !cs.all isDigit) = true
      · rw [if_pos hcond] at h; cases h
      · rw [if_neg hcond] at h
        injection h with h
        obtain ⟨hne, hlen, hdig⟩ := tagNum_digits cs t (by rw [if_neg hcond])
        have hb := digitsVal_lt18 cs hdig hlen
        subst h
        simp only [atoi, cMinus, if_true, parseUInt_digits _ hne hdig]
        have h1 : wrap64 ((digitsVal cs : Nat) : Int) = (digitsVal cs : Int) := wrap64_of_in _ (by unfold inInt64; omega)
        rw [h1, wrap64_of_in _ (by unfold inInt64; omega)]
    · have htn : tagNum (c :: cs) = (if (c :: cs).isEmpty || decide ((c :: cs).length > 18) || !(c :: cs).all isDigit then none
          else some ((digitsVal (c :: cs) : Nat) : Int)) := by
        unfold tagNum
        split
        · rename_i ds heq; injection heq with h1 _; exact absurd h1 hc
        · rfl
      rw [htn] at h
      by_cases hcond : ((c :: cs).isEmpty || decide ((c :: cs).length > 18) || !(c :: cs).all isDigit) = true
      · rw [if_pos hcond] at h; cases h
      · rw [if_neg hcond] at h
        injection h with h
        obtain ⟨hne, hlen, hdig⟩ := tagNum_digits (c :: cs) t (by rw [if_neg hcond])
        have hb := digitsVal_lt18 (c :: cs) hdig hlen
        subst h
        rw [atoi_digits' (c :: cs) hne hdig, wrap64_of_in _ (by unfold inInt64; omega)]


/-- what the scanner knows about one field: `<tagText>=<val>␁`, the tag text non-empty and free of `=` and SOH, the value SOH-free -/
def FieldShape (f : WField) : Prop :=
  f.tagText ≠ [] ∧ (∀ c ∈ f.tagText, c ≠ cEq ∧ c ≠ SOH) ∧ f.raw = f.tagText ++ cEq :: (f.val ++ [SOH]) ∧ ∀ c ∈ f.val, c ≠ SOH

theorem take_succ_of_getElem? (b : Bytes) (e x : Nat) (h : b[e]? = some x) : b.take (e + 1) = b.take e ++ [x] := by
  rw [List.take_succ, h]; rfl

theorem no_mem_of_index (l : Bytes) (c n : Nat) (h : ∀ j, j < n → l[j]? ≠ some c) : ∀ x ∈ l.take n, x ≠ c := by
  intro x hx e
  subst e
  obtain ⟨i, hi, hget⟩ := List.mem_iff_getElem.1 hx
  have hin : i < n := by simp at hi; omega
  have : l[i]? = some x := by
    have h1 : (l.take n)[i]? = some x := by rw [List.getElem?_eq_getElem hi, hget]
    rwa [List.getElem?_take, if_pos hin] at h1
  exact h i hin this

theorem scan_shape (b : Bytes) (e q : Nat) (he : indexByte b SOH = some e) (hq : indexByte (b.take (e + 1)) cEq = some q) (hq0 : q ≠ 0) :
    FieldShape { tagText := (b.take (e + 1)).take q, val := ((b.take (e + 1)).take e).drop (q + 1), raw := b.take (e + 1) } ∧
    b = b.take (e + 1) ++ b.drop (e + 1) := by
  obtain ⟨hbe, hbefore⟩ := indexByte_spec b SOH e he
  obtain ⟨hrq, hqbefore⟩ := indexByte_spec _ cEq q hq
  have hraw : b.take (e + 1) = b.take e ++ [SOH] := take_succ_of_getElem? b e SOH hbe
  have hlen : (b.take e).length = e := by
    have := indexByte_lt b SOH e he
    simp; omega
  -- `=` sits strictly before the SOH
  have hqe : q < e := by
    have hql := indexByte_lt _ cEq q hq
    rw [hraw] at hql hrq
    simp only [List.length_append, hlen, List.length_singleton] at hql
    rcases Nat.lt_or_ge q e with h | h
    · exact h
    · have : q = e := by omega
      subst this
      rw [List.getElem?_append_right (by omega), hlen] at hrq
      simp [cEq, SOH] at hrq
  have hnoSOH : ∀ x ∈ b.take e, x ≠ SOH := no_mem_of_index b SOH e hbefore
  have htake : (b.take (e + 1)).take e = b.take e := by rw [hraw, List.take_left' hlen]
  have htt : (b.take (e + 1)).take q = (b.take e).take q := by
    rw [hraw, List.take_append_of_le_length (by omega)]
  have hqin : (b.take e)[q]? = some cEq := by
    rw [hraw, List.getElem?_append_left (by omega)] at hrq; exact hrq
  have hsplit : b.take e = (b.take e).take q ++ cEq :: (b.take e).drop (q + 1) := by
    have h1 : (b.take e) = (b.take e).take (q + 1) ++ (b.take e).drop (q + 1) := (List.take_append_drop _ _).symm
    rw [take_succ_of_getElem? _ q cEq hqin] at h1
    simpa [List.append_assoc] using h1
  refine ⟨⟨?_, ?_, ?_, ?_⟩, (List.take_append_drop _ _).symm⟩
  · show (b.take (e + 1)).take q ≠ []
    rw [htt]
    intro h0
    have hl : ((b.take e).take q).length = q := by rw [List.length_take, hlen]; omega
    rw [h0] at hl
    simp at hl
    omega
  · intro c hc
    show c ≠ cEq ∧ c ≠ SOH
    have hc' : c ∈ (b.take e).take q := by rw [← htt]; exact hc
    refine ⟨?_, hnoSOH c (List.mem_of_mem_take hc')⟩
    exact no_mem_of_index (b.take (e + 1)) cEq q hqbefore c hc
  · show b.take (e + 1) = (b.take (e + 1)).take q ++ cEq :: (((b.take (e + 1)).take e).drop (q + 1) ++ [SOH])
    rw [htake, htt, hraw]
    have h2 := congrArg (fun l => l ++ [SOH]) hsplit
    simp only [List.append_assoc, List.cons_append] at h2
    exact h2
  · intro c hc
    show c ≠ SOH
    have : c ∈ (b.take e).drop (q + 1) := by rw [← htake]; exact hc
    exact hnoSOH c (List.mem_of_mem_drop this)


theorem scanLoop_none_of_noSOH (fuel : Nat) (x : Nat) (xs : Bytes) (h : indexByte (x :: xs) SOH = none) :
    scanLoop (fuel + 1) (x :: xs) 0 = none := by
  simp only [scanLoop, h, Nat.lt_irrefl, if_false]

/-- THE SCANNER INVERTS NOTHING BUT THE WIRE FORM: whatever `scanFields` accepts (no field whose numeric tag is 212) is the concatenation
    of its fields' raw bytes, every field of the shape `<tagText>=<val>␁` -/
theorem scanLoop_wire : ∀ (fuel : Nat) (b : Bytes) (fs : List WField), scanLoop fuel b 0 = some fs →
    (∀ f ∈ fs, tagNum f.tagText ≠ some 212) → b = (fs.map (·.raw)).flatten ∧ ∀ f ∈ fs, FieldShape f := by
  intro fuel
  induction fuel with
  | zero => intro b fs h; simp [scanLoop] at h
  | succ k ih =>
    intro b fs h hno
    cases b with
    | nil =>
      simp only [scanLoop] at h; injection h with h; subst h
      exact ⟨rfl, fun f hf => by cases hf⟩
    | cons x xs =>
      cases he : indexByte (x :: xs) SOH with
      | none => rw [scanLoop_none_of_noSOH k x xs he] at h; cases h
      | some e =>
        rw [scanLoop_cons k x xs e he] at h
        cases hq : indexByte ((x :: xs).take (e + 1)) cEq with
        | none => rw [hq] at h; cases h
        | some q =>
          rw [hq] at h
          cases q with
          | zero => cases h
          | succ q' =>
            simp only at h
            cases hrec : scanLoop k ((x :: xs).drop (e + 1))
                (if ((x :: xs).take (e + 1)).take (q' + 1) = [50, 49, 50] then smallNat ((((x :: xs).take (e + 1)).take e).drop (q' + 1 + 1)) else 0) with
            | none => rw [hrec] at h; cases h
            | some fs' =>
              rw [hrec] at h
              simp only [Option.map_some, Option.some.injEq] at h
              subst h
              obtain ⟨hshape, hb⟩ := scan_shape (x :: xs) e (q' + 1) he hq (by omega)
              have hn212 : ((x :: xs).take (e + 1)).take (q' + 1) ≠ [50, 49, 50] := by
                intro e212
                have := hno _ (List.mem_cons_self ..)
                simp only at this
                rw [e212] at this
                exact this (by decide)
              rw [if_neg hn212] at hrec
              obtain ⟨h1, h2⟩ := ih _ fs' hrec (fun f hf => hno f (List.mem_cons_of_mem _ hf))
              refine ⟨?_, ?_⟩
              · simp only [List.map_cons, List.flatten_cons]
                rw [← h1]; exact hb
              · intro f hf
                simp only [List.mem_cons] at hf
                rcases hf with e' | e'
                · subst e'; exact hshape
                · exact h2 f e'

/-- the TagValue the parser stores for a scanned field -/
def tvOf (f : WField) : TagValue := { tag := (tagNum f.tagText).getD 0, value := f.val, bytes := f.raw }

theorem tvOf_wire (f : WField) (hs : FieldShape f) (t : Int) (ht : tagNum f.tagText = some t) : IsWire (tvOf f) ∧ (tvOf f).tag = t := by
  obtain ⟨h1, h2, h3, h4⟩ := hs
  refine ⟨⟨f.tagText, h1, h2, ?_, h3, h4⟩, by simp [tvOf, ht]⟩
  simp only [tvOf, ht, Option.getD_some]
  exact atoi_of_tagNum _ _ ht

theorem wireOf_tvOf (fs : List WField) : wireOf (fs.map tvOf) = (fs.map (·.raw)).flatten := by
  induction fs with
  | nil => rfl
  | cons f r ih =>
    have e1 : wireOf (tvOf f :: r.map tvOf) = f.raw ++ wireOf (r.map tvOf) := by simp [wireOf, tvOf]
    simp only [List.map_cons, List.flatten_cons, e1, ih]


theorem wfScanned_shape (fs : List WField) (h : wfScanned fs = true) :
    ∃ f8 f9 f35 mid f10, fs = f8 :: f9 :: f35 :: (mid ++ [f10]) ∧ f8.tagText = Spec.t8 ∧ f9.tagText = Spec.t9 ∧ f35.tagText = Spec.t35 ∧
      f10.tagText = Spec.t10 ∧ f9.val = fmtNat (rawLen (f35 :: mid)) := by
  unfold wfScanned at h
  cases fs with
  | nil => cases h
  | cons f8 r1 =>
    cases r1 with
    | nil => cases h
    | cons f9 rest =>
      simp only at h
      cases hr : rest.reverse with
      | nil => rw [hr] at h; cases h
      | cons f10 midRev =>
        rw [hr] at h
        simp only [Bool.and_eq_true, beq_iff_eq] at h
        obtain ⟨⟨⟨⟨⟨⟨h1, h2⟩, h3⟩, h4⟩, _⟩, h6⟩, _⟩ := h
        have hrest : rest = midRev.reverse ++ [f10] := by
          have := congrArg List.reverse hr
          simpa using this
        cases hm : midRev.reverse with
        | nil => rw [hm] at h3; simp at h3
        | cons f35 mid =>
          rw [hm] at h3 h6
          simp only [List.head?_cons, Option.map_some, Option.some.injEq] at h3
          exact ⟨f8, f9, f35, mid, f10, by rw [hrest, hm]; rfl, h1, h2, h3, h4, h6⟩

theorem fieldsLength_tvOf (mid : List WField) (h : ∀ f ∈ mid, ∀ t, tagNum f.tagText = some t → t ≠ 8 ∧ t ≠ 9 ∧ t ≠ 10)
    (hnum : ∀ f ∈ mid, (tagNum f.tagText).isSome) : fieldsLength (mid.map tvOf) = rawLen mid := by
  induction mid with
  | nil => rfl
  | cons f r ih =>
    have hf := hnum f (by simp)
    cases ht : tagNum f.tagText with
    | none => rw [ht] at hf; cases hf
    | some t =>
      obtain ⟨a, b, c⟩ := h f (by simp) t ht
      have e : fieldsLength (tvOf f :: r.map tvOf) = f.raw.length + fieldsLength (r.map tvOf) := by
        simp [fieldsLength, List.filter_cons, tvOf, ht, a, b, c, TagValue.length]
      simp only [List.map_cons, e, ih (fun g hg => h g (by simp [hg])) (fun g hg => hnum g (by simp [hg]))]
      simp [rawLen]

/-- what a well-formed scan is for the parser: a `WireMsg` with the right BodyLength -/
theorem scanned_wireMsg (w : Bytes) (fs : List WField) (hscan : scanFields w = some fs) (hwf : wfScanned fs = true)
    (hnum : ∀ f ∈ fs, (tagNum f.tagText).isSome)
    (hmid : ∀ f ∈ (fs.drop 3).dropLast, ∀ t, tagNum f.tagText = some t → t ≠ 8 ∧ t ≠ 9 ∧ t ≠ 10 ∧ t ≠ 212)
    (hsmall : w.length < 9223372036854775808) :
    ∃ f8 f9 f35 mid f10, fs = f8 :: f9 :: f35 :: (mid ++ [f10]) ∧
      WireMsg (tvOf f8) (tvOf f9) (tvOf f35) (mid.map tvOf) (tvOf f10) ∧
      w = wireOf (tvOf f8 :: tvOf f9 :: tvOf f35 :: (mid.map tvOf ++ [tvOf f10])) ∧
      atoi (tvOf f9).value = .ok ((fieldsLength (tvOf f8 :: tvOf f9 :: tvOf f35 :: (mid.map tvOf ++ [tvOf f10])) : Nat) : Int) ∧
      ∀ f ∈ fs, ∀ t, tagNum f.tagText = some t → (tvOf f).tag = t := by
  obtain ⟨f8, f9, f35, mid, f10, hfs, e8, e9, e35, e10, hlen9⟩ := wfScanned_shape fs hwf
  subst hfs
  have hmid' : ∀ f ∈ mid, ∀ t, tagNum f.tagText = some t → t ≠ 8 ∧ t ≠ 9 ∧ t ≠ 10 ∧ t ≠ 212 := by
    intro f hf
    apply hmid f
    simp [hf]
  have n8 : tagNum f8.tagText = some 8 := by rw [e8]; decide
  have n9 : tagNum f9.tagText = some 9 := by rw [e9]; decide
  have n35 : tagNum f35.tagText = some 35 := by rw [e35]; decide
  have n10 : tagNum f10.tagText = some 10 := by rw [e10]; decide
  have hno212 : ∀ f ∈ f8 :: f9 :: f35 :: (mid ++ [f10]), tagNum f.tagText ≠ some 212 := by
    intro f hf
    simp only [List.mem_cons, List.mem_append, List.mem_nil_iff, or_false] at hf
    rcases hf with e | e | e | e | e
    · subst e; rw [n8]; decide
    · subst e; rw [n9]; decide
    · subst e; rw [n35]; decide
    · intro h212; exact (hmid' f e 212 h212).2.2.2 rfl
    · subst e; rw [n10]; decide
  obtain ⟨hw, hshape⟩ := scanLoop_wire _ w _ hscan hno212
  have sh := fun f hf => hshape f hf
  obtain ⟨w8, t8⟩ := tvOf_wire f8 (sh f8 (by simp)) 8 n8
  obtain ⟨w9, t9⟩ := tvOf_wire f9 (sh f9 (by simp)) 9 n9
  obtain ⟨w35, t35'⟩ := tvOf_wire f35 (sh f35 (by simp)) 35 n35
  obtain ⟨w10, t10'⟩ := tvOf_wire f10 (sh f10 (by simp)) 10 n10
  have hwm : WireMsg (tvOf f8) (tvOf f9) (tvOf f35) (mid.map tvOf) (tvOf f10) := by
    refine ⟨w8, w9, w35, ?_, w10, t8, t9, t35', t10', ?_⟩
    · intro tv htv
      obtain ⟨f, hf, rfl⟩ := List.mem_map.1 htv
      have hs := hnum f (by simp [hf])
      cases ht : tagNum f.tagText with
      | none => rw [ht] at hs; cases hs
      | some t =>
        obtain ⟨wf, tf⟩ := tvOf_wire f (sh f (by simp [hf])) t ht
        obtain ⟨_, _, a, b⟩ := hmid' f hf t ht
        exact ⟨wf, by rw [tf]; exact a, by rw [tf]; exact b⟩
    · intro tv htv
      obtain ⟨f, hf, rfl⟩ := List.mem_map.1 htv
      have hs := hnum f (by simp [hf])
      cases ht : tagNum f.tagText with
      | none => rw [ht] at hs; cases hs
      | some t =>
        obtain ⟨_, tf⟩ := tvOf_wire f (sh f (by simp [hf])) t ht
        rw [tf]; exact (hmid' f hf t ht).2.1
  have hwire : w = wireOf (tvOf f8 :: tvOf f9 :: tvOf f35 :: (mid.map tvOf ++ [tvOf f10])) := by
    rw [hw, ← wireOf_tvOf]; simp
  have hrl : rawLen (f35 :: mid) < 9223372036854775808 := by
    have h1 : rawLen (f35 :: mid) ≤ w.length := by
      rw [hw]
      simp only [rawLen, List.map_cons, List.map_append, List.flatten_cons, List.flatten_append, List.length_append, List.sum_cons]
      have : ((mid.map (·.raw)).flatten).length = ((mid.map (fun f => f.raw.length))).sum := by
        simp [List.length_flatten, List.map_map, Function.comp_def]
      omega
    omega
  have hbl : atoi (tvOf f9).value = .ok ((fieldsLength (tvOf f8 :: tvOf f9 :: tvOf f35 :: (mid.map tvOf ++ [tvOf f10])) : Nat) : Int) := by
    have hfl : fieldsLength (tvOf f8 :: tvOf f9 :: tvOf f35 :: (mid.map tvOf ++ [tvOf f10])) = rawLen (f35 :: mid) := by
      have e : tvOf f8 :: tvOf f9 :: tvOf f35 :: (mid.map tvOf ++ [tvOf f10]) = tvOf f8 :: tvOf f9 :: (((f35 :: mid).map tvOf) ++ [tvOf f10]) := by simp
      rw [e, fieldsLength_framed _ _ _ _ t8 t9 t10']
      apply fieldsLength_tvOf
      · intro f hf t ht
        simp only [List.mem_cons] at hf
        rcases hf with e | e
        · subst e; rw [n35] at ht; injection ht with ht; subst ht; decide
        · obtain ⟨a, b, c, _⟩ := hmid' f e t ht; exact ⟨a, b, c⟩
      · intro f hf; exact hnum f (by simp only [List.mem_cons] at hf ⊢; rcases hf with e | e; exact Or.inr (Or.inr (Or.inl e)); exact Or.inr (Or.inr (Or.inr (by simp [e]))))
    rw [hfl]
    show atoi f9.val = _
    rw [hlen9]
    exact atoi_fmtNat _ hrl
  refine ⟨f8, f9, f35, mid, f10, rfl, hwm, hwire, hbl, ?_⟩
  intro f hf t ht
  simp [tvOf, ht]

/-- FIDELITY IN THE SCANNER'S VOCABULARY, ANY DICTIONARIES: every byte string that the independent scanner splits into fields and finds
    well-formed (`wfScanned`), all tag texts numeric, no field between MsgType and CheckSum whose NUMERIC tag is 8, 9, 10 or 212, parses
    to exactly the scanned fields, raw bytes kept -/
theorem faithful_scanned (d : Dicts) (w : Bytes) (fs : List WField) (hscan : scanFields w = some fs) (hwf : wfScanned fs = true)
    (hnum : ∀ f ∈ fs, (tagNum f.tagText).isSome)
    (hmid : ∀ f ∈ (fs.drop 3).dropLast, ∀ t, tagNum f.tagText = some t → t ≠ 8 ∧ t ≠ 9 ∧ t ≠ 10 ∧ t ≠ 212)
    (hsmall : w.length < 9223372036854775808) :
    ∃ m, parseMessage Fixes.cur d w = .ok m ∧ m.raw = some w ∧ m.fields = fs.map tvOf := by
  obtain ⟨f8, f9, f35, mid, f10, hfs, hwm, hwire, hbl, _⟩ := scanned_wireMsg w fs hscan hwf hnum hmid hsmall
  obtain ⟨c', hp⟩ := parse_wire_anydict (d := d) _ _ _ _ _ hwm hbl
  rw [← hwire] at hp
  exact ⟨_, hp, rfl, by rw [hfs]; simp [msgOf]⟩

end Qfx
