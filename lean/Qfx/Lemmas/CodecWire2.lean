/-
  A refinement of `build_wire'` (CodecWire.lean) that also says where the header TagValues behind MsgType come from: the rest of the
  MsgType field, or a header field with another key.
-/
import Qfx.Lemmas.CodecWire
namespace Qfx
open Qfx.Spec

theorem header_tvs' {fm : FieldMap} (hi : FMInv fm) (ho : fm.ord = .header) (hp : SecProper .h fm) (arr : List TagValue)
    (tv8 tv9 : TagValue) (f35 : Field) (h8 : alFind fm.lookup 8 = some (.owned [tv8]))
    (h9 : alFind fm.lookup 9 = some (.owned [tv9])) (h35 : alFind fm.lookup 35 = some f35) :
    ∃ tv35 rest, fm.tvs arr = tv8 :: tv9 :: tv35 :: rest ∧ tv35.tag = 35 ∧ (∀ tv ∈ rest, ¬ isSpecialTag tv.tag) ∧
      (∀ tv ∈ rest, (∃ more, f35 = .owned (tv35 :: more) ∧ tv ∈ more) ∨
        (∃ k f, k ≠ 35 ∧ k ≠ 9 ∧ alFind fm.lookup k = some f ∧ tv ∈ f.items arr)) ∧
      ∃ more, f35 = .owned (tv35 :: more) := by
  have mem : ∀ k f, alFind fm.lookup k = some f → k ∈ fm.tags := by
    intro k f hf; rw [hi.same, mem_alKeys_iff, hf]; rfl
  have hs := header_sorted_decomp fm.tags hi.tagsNodup (mem 8 _ h8) (mem 9 _ h9) (mem 35 _ h35)
  have hperm : (sortTags .normal (fm.tags.filter nonSpecial)).Perm (fm.tags.filter nonSpecial) := sortTags_perm _ _
  obtain ⟨l35, hl35⟩ := hp.owned 35 f35 h35
  subst hl35
  obtain ⟨tv35, more, hl, ht35⟩ := hp.head 35 l35 h35
  subst hl
  have c35 := hp.clean arr 35 _ h35 (by intro h; rcases h with e | e | e <;> exact absurd e (by decide))
  refine ⟨tv35, more ++ ((sortTags .normal (fm.tags.filter nonSpecial)).filterMap (alFind fm.lookup)).flatMap (Field.items arr), ?_, ht35, ?_, ?_, ⟨more, rfl⟩⟩
  · simp only [FieldMap.tvs, ho, hs, List.filterMap_cons, h8, h9, h35, List.flatMap_cons, Field.items, List.cons_append,
      List.nil_append, List.append_assoc]
  · intro tv htv
    rcases List.mem_append.1 htv with hm | hm
    · have := c35 tv (by simp [Field.items, hm]); simp only [isSpecialTag, not_or]; exact this
    · apply tvs_of_tags arr fm.lookup _ (fun tv => ¬ isSpecialTag tv.tag) _ tv hm
      intro t ht f hf x hx
      have hns : ¬ isSpecialTag t := by
        intro hk
        have hks := hp.key_special t f hf hk
        have := (List.mem_filter.1 (hperm.mem_iff.1 ht)).2
        rw [nonSpecial_iff] at this
        rcases hk with e | e | e
        · exact this.1 e
        · exact this.2.1 e
        · exact absurd (hks.1 e) (by decide)
      have := hp.clean arr t f hf hns x hx
      simp only [isSpecialTag, not_or]; exact this
  · intro tv htv
    rcases List.mem_append.1 htv with hm | hm
    · exact Or.inl ⟨more, rfl, hm⟩
    · right
      simp only [List.mem_flatMap, List.mem_filterMap] at hm
      obtain ⟨f, ⟨k, hk, hf⟩, hx⟩ := hm
      have := (List.mem_filter.1 (hperm.mem_iff.1 hk)).2
      rw [nonSpecial_iff] at this
      exact ⟨k, f, this.2.2, this.2.1, hf, hx⟩

theorem build_wire'' (m : Message) (hb : Built m) (hc : Wired m) (tv8 : TagValue) (f35 : Field)
    (h8 : alFind m.header.lookup 8 = some (.owned [tv8])) (h35 : alFind m.header.lookup 35 = some f35)
    (bytes : Bytes) (m' : Message) (h : m.build Fixes.cur = .ok (bytes, m')) (hsmall : bytes.length < 9223372036854775808) :
    ∃ t9 t35 restH frontT t10, bytes = wireOf (tv8 :: t9 :: t35 :: ((restH ++ m.body.tvs m.fields ++ frontT) ++ [t10])) ∧
      WireMsg tv8 t9 t35 (restH ++ m.body.tvs m.fields ++ frontT) t10 ∧
      atoi t9.value = .ok ((fieldsLength (tv8 :: t9 :: t35 :: ((restH ++ m.body.tvs m.fields ++ frontT) ++ [t10])) : Nat) : Int) ∧
      (∀ tv ∈ t35 :: restH, ∃ k f, alFind m.header.lookup k = some f ∧ tv ∈ f.items m.fields) ∧
      (∀ tv ∈ frontT, ∃ k f, alFind m.trailer.lookup k = some f ∧ tv ∈ f.items m.fields ∧ k ≠ 10) ∧
      t9 = TagValue.init 9 (fmtNat (fieldsLength (tv8 :: t9 :: t35 :: ((restH ++ m.body.tvs m.fields ++ frontT) ++ [t10])))) ∧
      t10 = TagValue.init 10 (digitsW 3 ((wireOf (tv8 :: t9 :: t35 :: (restH ++ m.body.tvs m.fields ++ frontT))).sum % 256)) ∧
      (∀ tv ∈ tv8 :: t9 :: t35 :: ((restH ++ m.body.tvs m.fields ++ frontT) ++ [t10]), CanonTV tv) ∧
      (∀ tv ∈ t35 :: (restH ++ m.body.tvs m.fields ++ frontT), ¬ isSpecialTag tv.tag) ∧
      (∀ tv ∈ restH, (∃ more, f35 = .owned (t35 :: more) ∧ tv ∈ more) ∨
        (∃ k f, k ≠ 35 ∧ alFind m.header.lookup k = some f ∧ tv ∈ f.items m.fields)) ∧
      (∃ more, f35 = .owned (t35 :: more)) := by
  obtain ⟨C, iH, iT, pH, pT, hbytes, hCdef⟩ := build_cooked m hb bytes m' h
  generalize hN : m.header.length m.fields + m.body.length m.fields + m.trailer.length m.fields = N at iH pH hbytes hCdef
  have c9 : CanonTV (TagValue.init 9 (fmtInt (N : Int))) :=
    canon_init 9 _ (fun c hc' => (fmtInt_chars _ c hc').2) (by unfold inInt64; omega)
  have c10 : CanonTV (TagValue.init 10 (digitsW 3 C)) :=
    canon_init 10 _ (fun c hc' => by
      have := List.all_eq_true.1 (digitsW_all_digits 3 C) c hc'
      have := (isDigit_iff c).1 this; unfold SOH; omega) (by unfold inInt64; omega)
  have cH : SecCanon (m.header.put 9 (.owned [TagValue.init 9 (fmtInt (N : Int))])) := hc.ch.put _ c9 (by simp [TagValue.init])
  have cT : SecCanon (m.trailer.put 10 (.owned [TagValue.init 10 (digitsW 3 C)])) := hc.ct.put _ c10 (by simp [TagValue.init])
  have h8' : alFind (m.header.put 9 (.owned [TagValue.init 9 (fmtInt (N : Int))])).lookup 8 = some (.owned [tv8]) :=
    (put_find_other _ _ _ _ (by decide)).trans h8
  have h35' : alFind (m.header.put 9 (.owned [TagValue.init 9 (fmtInt (N : Int))])).lookup 35 = some f35 :=
    (put_find_other _ _ _ _ (by decide)).trans h35
  obtain ⟨t35, restH, eH, ht35, clH, hprov, hhead⟩ := header_tvs' iH hb.inv.oh pH m.fields tv8 _ f35 h8' (put_find_self _ _ _) h35'
  obtain ⟨frontT, eT, clT⟩ := trailer_tvs iT hb.inv.ot pT m.fields _ (put_find_self _ _ _)
  have clB := body_tvs_clean hb.pb m.fields
  have tagOf : ∀ tv : TagValue, ¬ isSpecialTag tv.tag → tv.tag ≠ 10 ∧ tv.tag ≠ 9 := by
    intro tv h; simp only [isSpecialTag, not_or] at h; exact ⟨h.2.2, h.2.1⟩
  -- all TagValues written
  have allH := cH.tvs pH.owned m.fields
  have allB := hc.cb.tvs hb.pb.owned m.fields
  have allT := cT.tvs pT.owned m.fields
  rw [eH] at allH
  rw [eT] at allT
  have hL : bytes = wireOf (tv8 :: TagValue.init 9 (fmtInt (N : Int)) :: t35 :: ((restH ++ m.body.tvs m.fields ++ frontT) ++ [TagValue.init 10 (digitsW 3 C)])) := by
    rw [hbytes, write_eq_wireOf, write_eq_wireOf, write_eq_wireOf, eH, eT, ← wireOf_append, ← wireOf_append]
    congr 1
    simp [List.append_assoc]
  have t8tag : tv8.tag = 8 := by
    obtain ⟨tv, rest, hl, ht⟩ := hb.ph.head 8 _ h8
    injection hl with a b; subst a; exact ht
  refine ⟨_, t35, restH, frontT, _, hL, ?_, ?_, ?_, ?_, ?_, ?_, ?_, ?_, ?_, hhead⟩
  · refine ⟨canonTV_isWire _ (allH tv8 (by simp)).1, canonTV_isWire _ c9, canonTV_isWire _ (allH t35 (by simp)).1, ?_,
      canonTV_isWire _ c10, t8tag, rfl, ht35, rfl, ?_⟩
    · intro tv htv
      simp only [List.mem_append] at htv
      rcases htv with (hm | hm) | hm
      · exact ⟨canonTV_isWire _ (allH tv (by simp [hm])).1, (tagOf tv (clH tv hm)).1, (allH tv (by simp [hm])).2⟩
      · exact ⟨canonTV_isWire _ (allB tv hm).1, (tagOf tv (clB tv hm)).1, (allB tv hm).2⟩
      · exact ⟨canonTV_isWire _ (allT tv (by simp [hm])).1, (tagOf tv (clT tv hm)).1, (allT tv (by simp [hm])).2⟩
    · intro tv htv
      simp only [List.mem_append] at htv
      rcases htv with (hm | hm) | hm
      · exact (tagOf tv (clH tv hm)).2
      · exact (tagOf tv (clB tv hm)).2
      · exact (tagOf tv (clT tv hm)).2
  · -- BodyLength
    have lenH : (m.header.put 9 (.owned [TagValue.init 9 (fmtInt (N : Int))])).length m.fields = m.header.length m.fields :=
      put_length_special _ _ _ _ (lenKeep_special _ _ (Or.inr (Or.inl rfl))) (fun o ho => hb.ph.old_len _ 9 (Or.inr (Or.inl rfl)) o ho)
    have lenT : (m.trailer.put 10 (.owned [TagValue.init 10 (digitsW 3 C)])).length m.fields = m.trailer.length m.fields :=
      put_length_special _ _ _ _ (lenKeep_special _ _ (Or.inr (Or.inr rfl))) (fun o ho => hb.pt.old_len _ 10 (Or.inr (Or.inr rfl)) o ho)
    have hNL : N = fieldsLength (tv8 :: TagValue.init 9 (fmtInt (N : Int)) :: t35 :: ((restH ++ m.body.tvs m.fields ++ frontT) ++ [TagValue.init 10 (digitsW 3 C)])) := by
      have e : tv8 :: TagValue.init 9 (fmtInt (N : Int)) :: t35 :: ((restH ++ m.body.tvs m.fields ++ frontT) ++ [TagValue.init 10 (digitsW 3 C)]) =
          (tv8 :: TagValue.init 9 (fmtInt (N : Int)) :: t35 :: restH) ++ m.body.tvs m.fields ++ (frontT ++ [TagValue.init 10 (digitsW 3 C)]) := by
        simp [List.append_assoc]
      rw [e, fieldsLength_append, fieldsLength_append, ← eH, ← eT, ← length_eq_fieldsLength iH, ← length_eq_fieldsLength hb.inv.b,
        ← length_eq_fieldsLength iT, lenH, lenT, hN]
    have hNs : N < 9223372036854775808 := by
      have := fieldsLength_le (tv8 :: TagValue.init 9 (fmtInt (N : Int)) :: t35 :: ((restH ++ m.body.tvs m.fields ++ frontT) ++ [TagValue.init 10 (digitsW 3 C)]))
      rw [← hL, ← hNL] at this
      omega
    have e9 : atoi (fmtInt (N : Int)) = .ok (N : Int) := by rw [fmtInt_ofNat]; exact atoi_fmtNat N hNs
    show atoi (fmtInt (N : Int)) = _
    rw [e9, ← hNL]
  · -- provenance of the remaining header TagValues
    intro tv htv
    have hmem : tv ∈ (m.header.put 9 (.owned [TagValue.init 9 (fmtInt (N : Int))])).tvs m.fields := by
      rw [eH]; simp only [List.mem_cons] at htv ⊢; rcases htv with e | e
      · exact Or.inr (Or.inr (Or.inl e))
      · exact Or.inr (Or.inr (Or.inr e))
    obtain ⟨k, f, hf, hm⟩ := mem_tvs _ _ tv hmem
    by_cases e : k = 9
    · subst e
      rw [put_find_self] at hf; injection hf with hf; subst hf
      simp only [Field.items, List.mem_singleton] at hm
      have t9 : tv.tag = 9 := by rw [hm]; rfl
      rcases List.mem_cons.1 htv with e | e
      · rw [e, ht35] at t9; exact absurd t9 (by decide)
      · exact absurd (Or.inr (Or.inl t9)) (clH tv e)
    · rw [put_find_other _ _ _ _ e] at hf; exact ⟨k, f, hf, hm⟩
  · -- provenance of the trailer TagValues before CheckSum
    intro tv htv
    have hmem : tv ∈ (m.trailer.put 10 (.owned [TagValue.init 10 (digitsW 3 C)])).tvs m.fields := by
      rw [eT]; simp [htv]
    obtain ⟨k, f, hf, hm⟩ := mem_tvs _ _ tv hmem
    by_cases e : k = 10
    · subst e
      rw [put_find_self] at hf; injection hf with hf; subst hf
      simp only [Field.items, List.mem_singleton] at hm
      have t10 : tv.tag = 10 := by rw [hm]; rfl
      exact absurd (Or.inr (Or.inr t10)) (clT tv htv)
    · rw [put_find_other _ _ _ _ e] at hf; exact ⟨k, f, hf, hm, e⟩

  · -- BodyLength field, explicitly
    have lenH : (m.header.put 9 (.owned [TagValue.init 9 (fmtInt (N : Int))])).length m.fields = m.header.length m.fields :=
      put_length_special _ _ _ _ (lenKeep_special _ _ (Or.inr (Or.inl rfl))) (fun o ho => hb.ph.old_len _ 9 (Or.inr (Or.inl rfl)) o ho)
    have lenT : (m.trailer.put 10 (.owned [TagValue.init 10 (digitsW 3 C)])).length m.fields = m.trailer.length m.fields :=
      put_length_special _ _ _ _ (lenKeep_special _ _ (Or.inr (Or.inr rfl))) (fun o ho => hb.pt.old_len _ 10 (Or.inr (Or.inr rfl)) o ho)
    have e : tv8 :: TagValue.init 9 (fmtInt (N : Int)) :: t35 :: ((restH ++ m.body.tvs m.fields ++ frontT) ++ [TagValue.init 10 (digitsW 3 C)]) =
        (tv8 :: TagValue.init 9 (fmtInt (N : Int)) :: t35 :: restH) ++ m.body.tvs m.fields ++ (frontT ++ [TagValue.init 10 (digitsW 3 C)]) := by
      simp [List.append_assoc]
    rw [e, fieldsLength_append, fieldsLength_append, ← eH, ← eT, ← length_eq_fieldsLength iH, ← length_eq_fieldsLength hb.inv.b,
      ← length_eq_fieldsLength iT, lenH, lenT, hN, fmtInt_ofNat]
  · -- CheckSum field, explicitly
    have totT : (m.trailer.put 10 (.owned [TagValue.init 10 (digitsW 3 C)])).total m.fields = m.trailer.total m.fields :=
      put_total_special _ _ _ _ (sumKeep_10 _ _ rfl) (fun o ho => hb.pt.old_sum _ o ho)
    have hsum : (m.header.put 9 (.owned [TagValue.init 9 (fmtInt (N : Int))])).total m.fields + m.body.total m.fields + m.trailer.total m.fields =
        (wireOf (tv8 :: TagValue.init 9 (fmtInt (N : Int)) :: t35 :: (restH ++ m.body.tvs m.fields ++ frontT))).sum := by
      rw [← totT, total_eq_fieldsTotal iH, total_eq_fieldsTotal hb.inv.b, total_eq_fieldsTotal iT, eH, eT, fieldsTotal_append,
        show fieldsTotal [TagValue.init 10 (digitsW 3 C)] = 0 from by simp [fieldsTotal, TagValue.init],
        Nat.add_zero, ← fieldsTotal_append, ← fieldsTotal_append]
      have e : tv8 :: TagValue.init 9 (fmtInt (N : Int)) :: t35 :: restH ++ m.body.tvs m.fields ++ frontT =
          tv8 :: TagValue.init 9 (fmtInt (N : Int)) :: t35 :: (restH ++ m.body.tvs m.fields ++ frontT) := by simp [List.append_assoc]
      rw [e]
      apply fieldsTotal_eq_sum
      intro tv htv
      simp only [List.mem_cons, List.mem_append] at htv
      rcases htv with e | e | e | (e | e) | e
      · subst e; rw [t8tag]; decide
      · subst e; simp [TagValue.init]
      · subst e; rw [ht35]; decide
      · exact (tagOf tv (clH tv e)).1
      · exact (tagOf tv (clB tv e)).1
      · exact (tagOf tv (clT tv e)).1
    rw [hCdef, hsum]
  · -- every TagValue written is canonical
    intro tv htv
    simp only [List.mem_cons, List.mem_append, List.mem_singleton] at htv
    rcases htv with e | e | e | ((e | e) | e) | e
    · subst e; exact (allH tv (by simp)).1
    · subst e; exact c9
    · subst e; exact (allH tv (by simp)).1
    · exact (allH tv (by simp [e])).1
    · exact (allB tv e).1
    · exact (allT tv (by simp [e])).1
    · rcases e with e | e
      · exact (allT tv (by simp [e])).1
      · simp at e
  · -- no special tag between BodyLength and CheckSum
    intro tv htv
    simp only [List.mem_cons, List.mem_append] at htv
    rcases htv with e | (e | e) | e
    · subst e; intro hsp; rcases hsp with h | h | h <;> rw [ht35] at h <;> exact absurd h (by decide)
    · exact clH tv e
    · exact clB tv e
    · exact clT tv e
  · -- where the remaining header TagValues come from
    intro tv htv
    rcases hprov tv htv with h | ⟨k, f, hk, hk9, hf, hm⟩
    · exact Or.inl h
    · rw [put_find_other _ _ _ _ hk9] at hf
      exact Or.inr ⟨k, f, hk, hf, hm⟩

end Qfx
