/-
  C05 helper lemmas, part g: one `step` of one engine seen from the link (`side_step`), the two directions of the link
  (`Half`), the ghost table of received payloads.
-/
import Qfx.Lemmas.LinkC05f
import Qfx.Lemmas.SessRun
namespace Qfx.Link
open Qfx Qfx.Sess

theorem mem_wiresOf (obs : List Obs) (m : OutMsg) : m ∈ wiresOf obs ↔ Obs.wire m ∈ obs := by
  unfold wiresOf
  simp only [List.mem_filterMap]
  constructor
  · rintro ⟨o, ho, h⟩
    cases o <;> simp at h
    subst h; exact ho
  · intro h; exact ⟨_, h, rfl⟩

theorem evOK_of_linkEv {c : Ctx} {e : Ev} (cfg : Cfg) (he : LinkEv c e) : EvOK TN TS (PoolP c) cfg e := by
  cases e with
  | incomingMsg m =>
    cases m with
    | none => exact he.elim
    | some im => intro x hx; cases hx; exact he
  | connect => trivial
  | arrive m => exact he.elim
  | pop => trivial
  | timeout ev => trivial
  | disconnected => trivial
  | stop => trivial
  | send m => exact he.elim
  | flush => trivial
  | sessionTime r sm => exact he.elim
  | resetTime now => exact he.elim

/-- what one event does to one engine, given the invariant before it -/
structure StepRes (c : Ctx) (s s' : Sess) (obs : List Obs) : Prop where
  cfg : s'.cfg = s.cfg
  sok : StoreOK s'.store
  grow : Grow true s.store s'.store
  q : ∀ m ∈ s'.toSend, Wire s'.store m
  w : ∀ m ∈ wiresOf obs, Wire s'.store m
  t1 : 1 ≤ s'.store.target
  t2 : s'.store.target ≤ c.P.sender
  d : c.d0 ++ (deliveredSeqs obs).map (payloadOf c.rcv) = appPay (below s'.store.target c.P.msgs)
  pool : PoolInv (PoolP c) s'

theorem side_step {c : Ctx} (hc : CtxOK c) (s : Sess) (e : Ev) (he : LinkEv c e) (hcfg : s.cfg = c.cfg) (hst0 : c.st0 = s.store)
    (hsok : StoreOK s.store) (hq : ∀ m ∈ s.toSend, Wire s.store m) (ht1 : 1 ≤ s.store.target) (ht2 : s.store.target ≤ c.P.sender)
    (hd : c.d0 = appPay (below s.store.target c.P.msgs)) (hp : PoolInv (PoolP c) s) :
    StepRes c s (step s e).1 (step s e).2.1 := by
  have hk : K c s.clearLog :=
    ⟨hcfg, ⟨by rw [show s.clearLog.cfg = s.cfg from rfl, hcfg]; exact hc.persist, hsok, by rw [hst0]; exact Grow.refl _ _, hq,
      by intro m hm; cases hm⟩, ht1, ht2, by simp [dl, deliveredSeqs, Sess.clearLog, hd]⟩
  have k := K_stepCore hc s.clearLog e he hk (poolInv_clearLog s hp)
  have g := good_stepCore (N := TN) (S := TS) (P := PoolP c) s.clearLog e (poolHyp_triv _ _) (cfgHyp_triv _) (poolInv_clearLog s hp)
    (evOK_of_linkEv _ he)
  unfold step
  simp only []
  generalize stepCore s.clearLog e = r at k g
  obtain ⟨s', status⟩ := r
  simp only [] at k g ⊢
  refine ⟨k.cfg.trans hcfg.symm, k.snd.sok, by have := k.snd.grow; rw [hst0] at this; exact this, k.snd.q, ?_, k.t1, k.t2, ?_, g.2⟩
  · intro m hm
    rw [mem_wiresOf] at hm
    exact k.snd.w m (by simpa using hm)
  · exact k.d

/-! ### the ghost table -/

theorem find?_filter_ne (rcv : List (String × String)) (sq sq' : String) (h : sq' ≠ sq) :
    (rcv.filter (fun x => x.1 != sq)).find? (fun x => x.1 == sq') = rcv.find? (fun x => x.1 == sq') := by
  induction rcv with
  | nil => rfl
  | cons x rcv ih =>
    by_cases hx : x.1 = sq
    · have h1 : (x.1 != sq) = false := by simp [hx]
      have h2 : (x.1 == sq') = false := by rw [hx]; simpa using h.symm
      simp only [List.filter_cons, h1, Bool.false_eq_true, if_false, List.find?_cons, h2]
      exact ih
    · have h1 : (x.1 != sq) = true := by simpa using hx
      simp only [List.filter_cons, h1, if_true, List.find?_cons, ih]

theorem noteRcv_toIn (rcv : List (String × String)) (cfg : Cfg) (m : OutMsg) :
    noteRcv rcv (toIn cfg m) = match m.f.get? 9000 with
      | some p => (toString m.seq, p) :: rcv.filter (fun x => x.1 != toString m.seq)
      | none => rcv := by
  unfold noteRcv
  rw [toIn_get_body _ _ 9000 (by decide), toIn_get34]
  cases m.f.get? 9000 <;> rfl

theorem noted_self (rcv : List (String × String)) (cfg : Cfg) (m : OutMsg) : Noted (noteRcv rcv (toIn cfg m)) m := by
  intro p hp
  rw [noteRcv_toIn, hp]
  simp [payloadOf]

/-- two messages in flight with the same number and a payload carry the same payload -/
theorem wire_payload_unique {P : Store} (hP : StoreOK P) {m m' : OutMsg} (hw : Wire P m) (hw' : Wire P m') (hs : m'.seq = m.seq)
    (p p' : String) (hp : m.f.get? 9000 = some p) (hp' : m'.f.get? 9000 = some p') : p = p' := by
  have hk : ∀ x : OutMsg, ∀ q, x.f.get? 9000 = some q → x.kind = "4" → Wire P x → False := by
    intro x q hq hk4 hx
    obtain ⟨b, e, l, rfl, _⟩ := wire_gap_inv hP hx hk4
    simp [gapFillL, gapFill, get?_cons, get?_nil] at hq
  obtain ⟨m0, h0, _, e0⟩ := wire_at hw (fun h => hk m p hp h hw)
  obtain ⟨m0', h0', _, e0'⟩ := wire_at hw' (fun h => hk m' p' hp' h hw')
  rw [hs] at h0'
  have := desc_unique P.msgs hP.desc m.seq m0 m0' h0 h0'
  subst this
  rw [← e0, e0'] at hp
  rw [hp'] at hp
  cases hp; rfl

theorem noted_mono {P : Store} (hP : StoreOK P) (rcv : List (String × String)) (cfg : Cfg) {m m' : OutMsg} (hw : Wire P m) (hw' : Wire P m')
    (h : Noted rcv m') : Noted (noteRcv rcv (toIn cfg m)) m' := by
  intro p' hp'
  rw [noteRcv_toIn]
  cases hp : m.f.get? 9000 with
  | none => exact h p' hp'
  | some p =>
    simp only []
    by_cases hs : toString m'.seq = toString m.seq
    · have := wire_payload_unique hP hw hw' (toString_int_inj hs) p p' hp hp'
      subst this
      rw [hs]
      simp [payloadOf]
    · have := h p' hp'
      unfold payloadOf at this ⊢
      have hne : ((toString m.seq, p).1 == toString m'.seq) = false := by
        simp only [beq_eq_false_iff_ne, ne_eq]; exact fun h => hs h.symm
      rw [List.find?_cons, hne, find?_filter_ne _ _ _ hs]
      exact this

/-! ### one direction of the link -/

/-- the context of a step of `y` with peer `x` -/
def mkCtx (y x : Sess) (rcvY : List (String × String)) (dlvY : List String) : Ctx :=
  { cfg := y.cfg, pcfg := x.cfg, st0 := y.store, P := x.store, rcv := rcvY, d0 := dlvY }

/-- direction x → y: `x` sends, `y` receives -/
structure Half (x y : Sess) (x2y : List OutMsg) (sentX dlvY : List String) (rcvY : List (String × String)) : Prop where
  sok : StoreOK x.store
  q : ∀ m ∈ x.toSend, Wire x.store m
  fl : ∀ m ∈ x2y, Wire x.store m
  t1 : 1 ≤ y.store.target
  t2 : y.store.target ≤ x.store.sender
  dlv : dlvY = appPay (below y.store.target x.store.msgs)
  sent : sentX = appPay x.store.msgs
  pool : PoolInv (PoolP (mkCtx y x rcvY dlvY)) y

/-- both configurations, as C05 assumes them -/
structure CfgsOK (cfgA cfgB : Cfg) : Prop where
  pa : cfgA.persist = true
  pb : cfgB.persist = true
  na : NoResetCfg cfgA
  nb : NoResetCfg cfgB
  st : cfgA.sender = cfgB.target
  ts : cfgA.target = cfgB.sender
  bs : cfgA.bs = cfgB.bs
  ne1 : cfgA.sender ≠ ""
  ne2 : cfgA.target ≠ ""
  /-- neither engine has a data dictionary configured: the default validator, under any of its five settings (with a
      dictionary whether the peer's traffic passes depends on what the dictionary says) -/
  vda : cfgA.validator.app = none
  vdb : cfgB.validator.app = none
  /-- EnableNextExpectedMsgSeqNum is off on both engines -/
  nxa : cfgA.nextExpected = false
  nxb : cfgB.nextExpected = false

theorem CfgsOK.symm {cfgA cfgB : Cfg} (h : CfgsOK cfgA cfgB) : CfgsOK cfgB cfgA :=
  ⟨h.pb, h.pa, h.nb, h.na, h.ts.symm, h.st.symm, h.bs.symm, by rw [← h.ts]; exact h.ne2, by rw [← h.st]; exact h.ne1, h.vdb, h.vda, h.nxb, h.nxa⟩

theorem poolP_mono {y x x' : Sess} {rcvY : List (String × String)} {d d' : List String} {adm : Bool} (hc : x'.cfg = x.cfg)
    (hg : Grow adm x.store x'.store) {im : InMsg} (h : PoolP (mkCtx y x rcvY d) im) : PoolP (mkCtx y x' rcvY d') im := by
  obtain ⟨m, he, hw, hn⟩ := h
  exact ⟨m, by rw [he]; simp only [mkCtx, hc], hw.mono hg, hn⟩

theorem poolInv_mono {P Q : InMsg → Prop} {s : Sess} (h : ∀ im, P im → Q im) (hp : PoolInv P s) : PoolInv Q s :=
  ⟨fun m hm => h m (hp.1 m hm), fun p hpp => h p.2 (hp.2 p hpp)⟩

/-- `y` makes a step (any event of the link with inbound messages written by `x`): both directions survive -/
theorem halves_step {cx cy : Cfg} (hcf : CfgsOK cx cy) {x y : Sess} (hcx : x.cfg = cx) (hcy : y.cfg = cy)
    {x2y y2x : List OutMsg} {sentX sentY dlvX dlvY : List String} {rcvX rcvY : List (String × String)}
    (hxy : Half x y x2y sentX dlvY rcvY) (hyx : Half y x y2x sentY dlvX rcvX) (hb : x.store.sender ≤ maxSeq)
    (e : Ev) (he : LinkEv (mkCtx y x rcvY dlvY) e) :
    Half x (step y e).1 x2y sentX (dlvY ++ (deliveredSeqs (step y e).2.1).map (payloadOf rcvY)) rcvY ∧
    Half (step y e).1 x (y2x ++ wiresOf (step y e).2.1) sentY dlvX rcvX ∧ (step y e).1.cfg = cy := by
  have hc : CtxOK (mkCtx y x rcvY dlvY) :=
    ⟨by simp only [mkCtx, hcy]; exact hcf.pb, by simp only [mkCtx, hcy]; exact hcf.nb, by simp only [mkCtx, hcx, hcy]; exact hcf.ts.symm,
      by simp only [mkCtx, hcx, hcy]; exact hcf.st.symm, by simp only [mkCtx, hcx, hcy]; exact hcf.bs.symm,
      by simp only [mkCtx, hcx]; exact hcf.ne1, by simp only [mkCtx, hcx]; exact hcf.ne2, hxy.sok, hb,
      by simp only [mkCtx, hcy]; exact hcf.vdb, by simp only [mkCtx, hcy]; exact hcf.nxb⟩
  have r := side_step hc y e he rfl rfl hyx.sok hyx.q hxy.t1 hxy.t2 hxy.dlv hxy.pool
  generalize step y e = st at r
  obtain ⟨y', obs, status⟩ := st
  simp only [] at r ⊢
  refine ⟨⟨hxy.sok, hxy.q, hxy.fl, r.t1, r.t2, r.d, hxy.sent, ?_⟩, ⟨r.sok, r.q, ?_, hyx.t1, ?_, ?_, ?_, ?_⟩, r.cfg.trans hcy⟩
  · exact poolInv_mono (fun im h => by
      obtain ⟨m, he, hw, hn⟩ := h
      exact ⟨m, he, hw, hn⟩) r.pool
  · intro m hm
    rcases List.mem_append.1 hm with hm | hm
    · exact (hyx.fl m hm).mono r.grow
    · exact r.w m hm
  · have := r.grow.1; have := hyx.t2; omega
  · rw [r.grow.below _ hyx.t2]; exact hyx.dlv
  · rw [r.grow.appPay]; exact hyx.sent
  · exact poolInv_mono (fun im h => poolP_mono r.cfg r.grow h) hyx.pool

end Qfx.Link
