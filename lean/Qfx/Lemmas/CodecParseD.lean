/- C11 with dictionaries: the no-group development of CodecParse.lean generalised to any dictionaries `d` under which no field
   of the message starts a repeating group (`NoGroupTag`) — header / trailer membership then comes from the transport dictionary -/
import Qfx.Lemmas.CodecParse
namespace Qfx
open Qfx.Spec

/-- the application dictionary defines no repeating group under tag `t`, whatever the message type -/
def NoGroupTag (d : Dicts) (t : Tag) : Prop := ∀ msgs, d.app = some msgs → ∀ p ∈ msgs, pathWalk p.2 [t] = none

theorem alFindB_mem {β} (l : List (Bytes × β)) (k : Bytes) (v : β) (h : alFindB l k = some v) : (k, v) ∈ l := by
  induction l with
  | nil => simp [alFindB] at h
  | cons p r ih =>
    obtain ⟨k', x⟩ := p
    simp only [alFindB] at h
    split at h
    · rename_i hk; injection h with h; subst h; subst hk; simp
    · exact List.mem_cons_of_mem _ (ih h)

theorem isNum_false (d : Dicts) (flds : List TagValue) (hd : FieldMap) (t : Tag) (h : NoGroupTag d t) :
    isNumInGroupField d flds hd [t] = false := by
  unfold isNumInGroupField msgFields
  cases hap : d.app with
  | none => rfl
  | some msgs =>
    simp only []
    cases hg : hd.getBytes flds 35 with
    | ok mt =>
      simp only []
      cases hf : alFindB msgs mt with
      | none => rfl
      | some fs => simp [h msgs hap (mt, fs) (alFindB_mem _ _ _ hf)]
    | err e => rfl
    | fault w => rfl

variable {d : Dicts}

def ndSwitchD (d : Dicts) (idx : Nat) (tv : TagValue) (c : PCore) : PCore :=
  if isHeaderField d tv.tag then { c with header := c.header.add tv.tag (.view idx 1) }
  else if isTrailerField d tv.tag then { c with trailer := c.trailer.add tv.tag (.view idx 1), foundTrailer := true }
  else { c with foundBody := true, trailerBytes := c.rawBytes, body := c.body.add tv.tag (.view idx 1) }

theorem mainSwitch_D (fx : Fixes) (flds : List TagValue) (idx : Nat) (tv : TagValue) (c : PCore) (hng : NoGroupTag d tv.tag) :
    mainSwitch fx d flds idx tv c = (ndSwitchD d idx tv c, none) := by
  unfold mainSwitch ndSwitchD
  split
  · rfl
  · split
    · rfl
    · simp [isNum_false d flds c.header tv.tag hng]

theorem parseLoop_step_D (fx : Fixes) (fields : List TagValue) (idx : Nat) (c : PCore) (tv : TagValue) (raw' : Bytes)
    (hidx : idx < fields.length) (hx : c.xmlDataLen = 0) (hex : extractField c.rawBytes = (raw', .ok tv))
    (h10 : tv.tag ≠ 10) (h212 : tv.tag ≠ 212) (hng : NoGroupTag d tv.tag) :
    parseLoop fx d .main fields idx c =
      parseLoop fx d .main (fields.set idx tv) (idx + 1) (ndTail (ndSwitchD d idx tv { c with rawBytes := raw' })) := by
  rw [parseLoop]
  simp only [hidx, dite_true, hx, show ¬ ((0 : Int) > 0) by decide, if_false, hex, mainSwitch_D _ _ _ _ _ hng,
    tailStep_nd _ _ _ h10 h212]

theorem parseLoop_last_D (fx : Fixes) (fields : List TagValue) (idx : Nat) (c : PCore) (tv : TagValue) (raw' : Bytes)
    (hidx : idx < fields.length) (hx : c.xmlDataLen = 0) (hex : extractField c.rawBytes = (raw', .ok tv))
    (h10 : tv.tag = 10) (hng : NoGroupTag d tv.tag) :
    parseLoop fx d .main fields idx c = finishParse (fields.set idx tv) (ndSwitchD d idx tv { c with rawBytes := raw' }) := by
  rw [parseLoop]
  simp only [hidx, dite_true, hx, show ¬ ((0 : Int) > 0) by decide, if_false, hex, mainSwitch_D _ _ _ _ _ hng,
    tailStep_10 _ _ _ h10]

def runNDD (d : Dicts) : Nat → List TagValue → Bytes → PCore → PCore
  | _, [], _, c => c
  | idx, tv :: r, tail, c => runNDD d (idx + 1) r tail (ndTail (ndSwitchD d idx tv { c with rawBytes := wireOf r ++ tail }))

theorem ndSwitchD_raw (idx : Nat) (tv : TagValue) (c : PCore) :
    (ndSwitchD d idx tv c).rawBytes = c.rawBytes ∧ (ndSwitchD d idx tv c).xmlDataLen = c.xmlDataLen ∧ (ndSwitchD d idx tv c).xmlDataMsg = c.xmlDataMsg := by
  unfold ndSwitchD; split
  · exact ⟨rfl, rfl, rfl⟩
  · split <;> exact ⟨rfl, rfl, rfl⟩

theorem parseLoop_ndD (fx : Fixes) : ∀ (pre : List TagValue) (fields : List TagValue) (idx : Nat) (c : PCore) (t10 : TagValue) (rest : Bytes),
    (∀ tv ∈ pre, IsWire tv ∧ tv.tag ≠ 10 ∧ tv.tag ≠ 212) → (∀ tv ∈ pre, NoGroupTag d tv.tag) → NoGroupTag d t10.tag →
    IsWire t10 → t10.tag = 10 → c.xmlDataLen = 0 →
    c.rawBytes = wireOf pre ++ (t10.bytes ++ rest) → idx + pre.length < fields.length →
    parseLoop fx d .main fields idx c =
      finishParse (setRange fields idx (pre ++ [t10]))
        (ndSwitchD d (idx + pre.length) t10 { (runNDD d idx pre (t10.bytes ++ rest) c) with rawBytes := rest }) := by
  intro pre
  induction pre with
  | nil =>
    intro fields idx c t10 rest _ _ hng10 hw h10 hx hraw hlen
    have hex : extractField c.rawBytes = (rest, .ok t10) := by
      rw [hraw]; simpa [wireOf] using extractField_wire t10 rest hw
    rw [parseLoop_last_D fx fields idx c t10 rest (by simpa using hlen) hx hex h10 hng10]
    simp [setRange, runNDD]
  | cons tv r ih =>
    intro fields idx c t10 rest hpre hng hng10 hw h10 hx hraw hlen
    have htv := hpre tv (by simp)
    have hex : extractField c.rawBytes = (wireOf r ++ (t10.bytes ++ rest), .ok tv) := by
      rw [hraw]
      have : wireOf (tv :: r) ++ (t10.bytes ++ rest) = tv.bytes ++ (wireOf r ++ (t10.bytes ++ rest)) := by
        simp [wireOf, List.append_assoc]
      rw [this]; exact extractField_wire tv _ htv.1
    have hlen' : idx < fields.length := by simp at hlen; omega
    rw [parseLoop_step_D fx fields idx c tv _ hlen' hx hex htv.2.1 htv.2.2 (hng tv (by simp))]
    have hraw' : (ndTail (ndSwitchD d idx tv { c with rawBytes := wireOf r ++ (t10.bytes ++ rest) })).rawBytes = wireOf r ++ (t10.bytes ++ rest) := by
      rw [(ndTail_raw _).1, (ndSwitchD_raw _ _ _).1]
    have hx' : (ndTail (ndSwitchD d idx tv { c with rawBytes := wireOf r ++ (t10.bytes ++ rest) })).xmlDataLen = 0 := by
      rw [(ndTail_raw _).2.1, (ndSwitchD_raw _ _ _).2.1]; exact hx
    rw [ih (fields.set idx tv) (idx + 1) _ t10 rest (fun x hx => hpre x (by simp [hx])) (fun x hx => hng x (by simp [hx])) hng10 hw h10 hx' hraw'
      (by simp at hlen ⊢; omega)]
    have e : idx + 1 + r.length = idx + (tv :: r).length := by simp; omega
    simp only [setRange, runNDD, List.cons_append, e]


theorem ndSwitchD_header_find (idx : Nat) (tv : TagValue) (c : PCore) (k : Tag) (hk : tv.tag ≠ k) :
    alFind (ndSwitchD d idx tv c).header.lookup k = alFind c.header.lookup k := by
  unfold ndSwitchD; split
  · simp only [FieldMap.add]; exact alFind_insert_other _ _ _ _ (Ne.symm hk)
  · split <;> rfl

theorem runNDD_header_find (k : Tag) : ∀ (pre : List TagValue) (idx : Nat) (tail : Bytes) (c : PCore),
    (∀ tv ∈ pre, tv.tag ≠ k) → alFind (runNDD d idx pre tail c).header.lookup k = alFind c.header.lookup k := by
  intro pre
  induction pre with
  | nil => intro idx tail c _; rfl
  | cons tv r ih =>
    intro idx tail c h
    simp only [runNDD]
    rw [ih _ _ _ (fun x hx => h x (by simp [hx])), (ndTail_raw _).2.2.2.1, ndSwitchD_header_find _ _ _ _ (h tv (by simp))]

theorem runNDD_xml : ∀ (pre : List TagValue) (idx : Nat) (tail : Bytes) (c : PCore),
    (runNDD d idx pre tail c).xmlDataMsg = c.xmlDataMsg := by
  intro pre
  induction pre with
  | nil => intro idx tail c; rfl
  | cons tv r ih =>
    intro idx tail c
    simp only [runNDD]
    rw [ih, (ndTail_raw _).2.2.1, (ndSwitchD_raw _ _ _).2.2]

theorem ndSwitchD_find_other (idx : Nat) (tv : TagValue) (c : PCore) (s : Sec) (k : Tag) (hk : tv.tag ≠ k) :
    alFind ((ndSwitchD d idx tv c).sec s).lookup k = alFind (c.sec s).lookup k := by
  unfold ndSwitchD
  split
  · cases s <;> simp only [PCore.sec, FieldMap.add]
    exact alFind_insert_other _ _ _ _ (Ne.symm hk)
  · split
    · cases s <;> simp only [PCore.sec, FieldMap.add]
      exact alFind_insert_other _ _ _ _ (Ne.symm hk)
    · cases s <;> simp only [PCore.sec, FieldMap.add]
      exact alFind_insert_other _ _ _ _ (Ne.symm hk)

theorem ndSwitchD_find_self (idx : Nat) (tv : TagValue) (c : PCore) :
    alFind ((ndSwitchD d idx tv c).sec (secOf d tv.tag)).lookup tv.tag = some (.view idx 1) := by
  unfold ndSwitchD secOf
  split
  · simp only [PCore.sec, FieldMap.add]; exact alFind_insert_self _ _ _
  · split
    · simp only [PCore.sec, FieldMap.add]; exact alFind_insert_self _ _ _
    · simp only [PCore.sec, FieldMap.add]; exact alFind_insert_self _ _ _

theorem runNDD_find_absent (k : Tag) (s : Sec) : ∀ (pre : List TagValue) (idx : Nat) (tail : Bytes) (c : PCore),
    (∀ tv ∈ pre, tv.tag ≠ k) → alFind ((runNDD d idx pre tail c).sec s).lookup k = alFind (c.sec s).lookup k := by
  intro pre
  induction pre with
  | nil => intro idx tail c _; rfl
  | cons tv r ih =>
    intro idx tail c h
    simp only [runNDD]
    rw [ih _ _ _ (fun x hx => h x (by simp [hx])), ndTail_sec, ndSwitchD_find_other _ _ _ _ _ (h tv (by simp))]
    rfl

theorem runNDD_find_unique : ∀ (pre : List TagValue) (idx : Nat) (tail : Bytes) (c : PCore) (j : Nat) (tv : TagValue),
    pre[j]? = some tv → (∀ j' tv', pre[j']? = some tv' → j' ≠ j → tv'.tag ≠ tv.tag) →
    alFind ((runNDD d idx pre tail c).sec (secOf d tv.tag)).lookup tv.tag = some (.view (idx + j) 1) := by
  intro pre
  induction pre with
  | nil => intro idx tail c j tv h; simp at h
  | cons x r ih =>
    intro idx tail c j tv hj huniq
    simp only [runNDD]
    cases j with
    | zero =>
      simp only [List.getElem?_cons_zero, Option.some.injEq] at hj
      subst hj
      rw [runNDD_find_absent x.tag _ r _ _ _ (fun y hy => by
        obtain ⟨i, hi⟩ := List.getElem?_of_mem hy
        exact huniq (i + 1) y (by simpa using hi) (by omega)), ndTail_sec]
      simpa using ndSwitchD_find_self idx x _
    | succ j =>
      have hj' : r[j]? = some tv := by simpa using hj
      have := ih (idx + 1) tail (ndTail (ndSwitchD d idx x { c with rawBytes := wireOf r ++ tail })) j tv hj'
        (fun j' tv' h' hne => huniq (j' + 1) tv' (by simpa using h') (by omega))
      rw [this]
      congr 2; omega


def ndFinalD (d : Dicts) (t8 t9 t35 : TagValue) (pre : List TagValue) (t10 : TagValue) : PCore :=
  finishAdjust (ndSwitchD d (3 + pre.length) t10
    { (runNDD d 3 pre (t10.bytes ++ []) (ndInit t8 t9 t35 (wireOf (pre ++ [t10])))) with rawBytes := [] })

theorem parseLoop_ndD_ok (fx : Fixes) (t8 t9 t35 : TagValue) (pre : List TagValue) (t10 : TagValue)
    (hw : WireMsg t8 t9 t35 pre t10)
    (hbl : atoi t9.value = .ok ((fieldsLength (t8 :: t9 :: t35 :: (pre ++ [t10])) : Nat) : Int))
    (hng : ∀ tv ∈ pre, NoGroupTag d tv.tag) (hng10 : NoGroupTag d 10) (hh10 : isHeaderField d 10 = false) :
    parseLoop fx d .main ([t8, t9, t35] ++ List.replicate (pre ++ [t10]).length TagValue.zero) 3
        (ndInit t8 t9 t35 (wireOf (pre ++ [t10]))) =
      .ok (t8 :: t9 :: t35 :: (pre ++ [t10]), ndFinalD d t8 t9 t35 pre t10) := by
  have hraw : (ndInit t8 t9 t35 (wireOf (pre ++ [t10]))).rawBytes = wireOf pre ++ (t10.bytes ++ []) := by simp [ndInit, wireOf]
  rw [parseLoop_ndD fx pre _ 3 _ t10 [] hw.wpre hng (by rw [hw.tag10]; exact hng10) hw.w10 hw.tag10 rfl hraw (by simp; omega)]
  have hsr := setRange_replicate TagValue.zero (pre ++ [t10]) [t8, t9, t35]
  simp only [List.length_cons, List.length_nil] at hsr
  rw [hsr]
  unfold ndFinalD
  have hCh : (ndSwitchD d (3 + pre.length) t10 { (runNDD d 3 pre (t10.bytes ++ []) (ndInit t8 t9 t35 (wireOf (pre ++ [t10])))) with rawBytes := [] }).header =
      (runNDD d 3 pre (t10.bytes ++ []) (ndInit t8 t9 t35 (wireOf (pre ++ [t10])))).header := by
    unfold ndSwitchD
    have h1 : isHeaderField d t10.tag = false := by rw [hw.tag10]; exact hh10
    have h2 : isTrailerField d t10.tag = true := by rw [hw.tag10]; simp [isTrailerField, Tag.isTrailer, staticTrailerTags]
    simp [h1, h2]
  have hCx : (ndSwitchD d (3 + pre.length) t10 { (runNDD d 3 pre (t10.bytes ++ []) (ndInit t8 t9 t35 (wireOf (pre ++ [t10])))) with rawBytes := [] }).xmlDataMsg = false := by
    rw [(ndSwitchD_raw _ _ _).2.2]; simp only []; rw [runNDD_xml]; rfl
  generalize ndSwitchD d (3 + pre.length) t10 { (runNDD d 3 pre (t10.bytes ++ []) (ndInit t8 t9 t35 (wireOf (pre ++ [t10])))) with rawBytes := [] } = C at hCh hCx ⊢
  have hfind : alFind C.header.lookup 9 = some (.view 1 1) := by
    rw [hCh, runNDD_header_find 9 pre 3 _ _ hw.single9]
    simp [ndInit, FieldMap.add, FieldMap.empty, alInsert, alFind, hw.tag8, hw.tag9, hw.tag35]
  have hget : (finishAdjust C).header.getInt ([t8, t9, t35] ++ (pre ++ [t10])) 9 =
      .ok ((fieldsLength (t8 :: t9 :: t35 :: (pre ++ [t10])) : Nat) : Int) := by
    rw [(finishAdjust_keeps C).1]
    simp [FieldMap.getInt, FieldMap.getBytes, hfind, Field.head, Field.items, idxR, hbl]
  simp only [finishParse, hget]
  simp only [List.cons_append, List.nil_append, ne_eq, not_true_eq_false, false_and, if_false]

def ndMessageD (d : Dicts) (t8 t9 t35 : TagValue) (pre : List TagValue) (t10 : TagValue) : Message :=
  { header := (ndFinalD d t8 t9 t35 pre t10).header, body := (ndFinalD d t8 t9 t35 pre t10).body,
    trailer := (ndFinalD d t8 t9 t35 pre t10).trailer, fields := t8 :: t9 :: t35 :: (pre ++ [t10]),
    bodyBytes := (ndFinalD d t8 t9 t35 pre t10).bodyBytes, raw := some (wireOf (t8 :: t9 :: t35 :: (pre ++ [t10]))) }

theorem parse_wire_D (fx : Fixes) (t8 t9 t35 : TagValue) (pre : List TagValue) (t10 : TagValue)
    (hw : WireMsg t8 t9 t35 pre t10)
    (hbl : atoi t9.value = .ok ((fieldsLength (t8 :: t9 :: t35 :: (pre ++ [t10])) : Nat) : Int))
    (hng : ∀ tv ∈ pre, NoGroupTag d tv.tag) (hng10 : NoGroupTag d 10) (hh10 : isHeaderField d 10 = false) :
    parseMessage fx d (wireOf (t8 :: t9 :: t35 :: (pre ++ [t10]))) = .ok (ndMessageD d t8 t9 t35 pre t10) := by
  have hall : ∀ tv ∈ t8 :: t9 :: t35 :: (pre ++ [t10]), IsWire tv := by
    intro tv htv
    simp only [List.mem_cons, List.mem_append] at htv
    rcases htv with e | e | e | h | e
    · subst e; exact hw.w8
    · subst e; exact hw.w9
    · subst e; exact hw.w35
    · exact (hw.wpre tv h).1
    · simp at e; subst e; exact hw.w10
  have hcount := countByte_wireOf _ hall
  have hn : (t8 :: t9 :: t35 :: (pre ++ [t10])).length = pre.length + 4 := by simp
  have ex1 : extractField (wireOf (t8 :: t9 :: t35 :: (pre ++ [t10]))) = (wireOf (t9 :: t35 :: (pre ++ [t10])), .ok t8) := by
    have : wireOf (t8 :: t9 :: t35 :: (pre ++ [t10])) = t8.bytes ++ wireOf (t9 :: t35 :: (pre ++ [t10])) := by simp [wireOf]
    rw [this]; exact extractField_wire t8 _ hw.w8
  have ex2 : extractField (wireOf (t9 :: t35 :: (pre ++ [t10]))) = (wireOf (t35 :: (pre ++ [t10])), .ok t9) := by
    have : wireOf (t9 :: t35 :: (pre ++ [t10])) = t9.bytes ++ wireOf (t35 :: (pre ++ [t10])) := by simp [wireOf]
    rw [this]; exact extractField_wire t9 _ hw.w9
  have ex3 : extractField (wireOf (t35 :: (pre ++ [t10]))) = (wireOf (pre ++ [t10]), .ok t35) := by
    have : wireOf (t35 :: (pre ++ [t10])) = t35.bytes ++ wireOf (pre ++ [t10]) := by simp [wireOf]
    rw [this]; exact extractField_wire t35 _ hw.w35
  simp only [parseMessage, hcount, hn]
  have hne : ¬ (pre.length + 4 = 0) := by omega
  simp only [hne, if_false]
  rw [extractSpecific_ok fx 8 _ 0 _ _ _ t8 (by simp) ex1 hw.tag8]
  simp only []
  rw [extractSpecific_ok fx 9 _ 1 _ _ _ t9 (by simp) ex2 hw.tag9]
  simp only []
  rw [extractSpecific_ok fx 35 _ 2 _ _ _ t35 (by simp) ex3 hw.tag35]
  simp only []
  have hf3 : (((List.replicate (pre.length + 4) TagValue.zero).set 0 t8).set 1 t9).set 2 t35 =
      [t8, t9, t35] ++ List.replicate (pre ++ [t10]).length TagValue.zero := by
    simp [List.replicate_succ]
  rw [hf3]
  have := parseLoop_ndD_ok (d := d) fx t8 t9 t35 pre t10 hw hbl hng hng10 hh10
  unfold ndInit at this
  rw [this]
  rfl


theorem ndFinalD_sec (t8 t9 t35 : TagValue) (pre : List TagValue) (t10 : TagValue) (s : Sec) :
    (ndFinalD d t8 t9 t35 pre t10).sec s =
      (ndSwitchD d (3 + pre.length) t10 { (runNDD d 3 pre (t10.bytes ++ []) (ndInit t8 t9 t35 (wireOf (pre ++ [t10])))) with rawBytes := [] }).sec s := by
  unfold ndFinalD
  cases s
  · exact (finishAdjust_keeps _).1
  · exact (finishAdjust_keeps _).2.2.1
  · exact (finishAdjust_keeps _).2.2.2

theorem ndFinalD_find (t8 t9 t35 : TagValue) (pre : List TagValue) (t10 : TagValue) (hw : WireMsg t8 t9 t35 pre t10)
    (j : Nat) (tv : TagValue) (hj : (t8 :: t9 :: t35 :: (pre ++ [t10]))[j]? = some tv)
    (huniq : ∀ j' tv', (t8 :: t9 :: t35 :: (pre ++ [t10]))[j']? = some tv' → j' ≠ j → tv'.tag ≠ tv.tag) :
    alFind ((ndFinalD d t8 t9 t35 pre t10).sec (secOf d tv.tag)).lookup tv.tag = some (.view j 1) := by
  rw [ndFinalD_sec]
  have hpre : ∀ i x, pre[i]? = some x → (t8 :: t9 :: t35 :: (pre ++ [t10]))[i + 3]? = some x := by
    intro i x hx
    have hi : i < pre.length := by
      rcases Nat.lt_or_ge i pre.length with h | h
      · exact h
      · rw [List.getElem?_eq_none_iff.2 h] at hx; cases hx
    simp [List.getElem?_append_left hi, hx]
  have hlast : (t8 :: t9 :: t35 :: (pre ++ [t10]))[pre.length + 3]? = some t10 := by simp
  -- a leading field (position < 3): nothing else carries its tag
  have lead : ∀ (p : Nat), p < 3 → j = p →
      alFind ((ndInit t8 t9 t35 (wireOf (pre ++ [t10]))).sec (secOf d tv.tag)).lookup tv.tag = some (.view p 1) →
      alFind ((ndSwitchD d (3 + pre.length) t10 { (runNDD d 3 pre (t10.bytes ++ []) (ndInit t8 t9 t35 (wireOf (pre ++ [t10])))) with rawBytes := [] }).sec (secOf d tv.tag)).lookup tv.tag = some (.view j 1) := by
    intro p hp hjp hinit
    have h10 : t10.tag ≠ tv.tag := huniq (pre.length + 3) t10 hlast (by omega)
    rw [ndSwitchD_find_other _ _ _ _ _ h10, withRaw_sec,
      runNDD_find_absent tv.tag _ pre 3 _ _ (fun x hx => by
        obtain ⟨i, hi⟩ := List.getElem?_of_mem hx
        exact huniq (i + 3) x (hpre i x hi) (by omega)), hinit, hjp]
  match j, hj with
  | 0, hj =>
    simp only [List.getElem?_cons_zero, Option.some.injEq] at hj; subst hj
    apply lead 0 (by omega) rfl
    have : secOf d t8.tag = .h := by rw [hw.tag8]; simp [secOf, isHeaderField, Tag.isHeader, staticHeaderTags]
    rw [this]; simp [ndInit, PCore.sec, FieldMap.add, FieldMap.empty, alInsert, alFind, hw.tag8, hw.tag9, hw.tag35]
  | 1, hj =>
    simp only [List.getElem?_cons_succ, List.getElem?_cons_zero, Option.some.injEq] at hj; subst hj
    apply lead 1 (by omega) rfl
    have : secOf d t9.tag = .h := by rw [hw.tag9]; simp [secOf, isHeaderField, Tag.isHeader, staticHeaderTags]
    rw [this]; simp [ndInit, PCore.sec, FieldMap.add, FieldMap.empty, alInsert, alFind, hw.tag8, hw.tag9, hw.tag35]
  | 2, hj =>
    simp only [List.getElem?_cons_succ, List.getElem?_cons_zero, Option.some.injEq] at hj; subst hj
    apply lead 2 (by omega) rfl
    have : secOf d t35.tag = .h := by rw [hw.tag35]; simp [secOf, isHeaderField, Tag.isHeader, staticHeaderTags]
    rw [this]; simp [ndInit, PCore.sec, FieldMap.add, FieldMap.empty, alInsert, alFind, hw.tag8, hw.tag9, hw.tag35]
  | i + 3, hj =>
    have hj' : (pre ++ [t10])[i]? = some tv := by simpa using hj
    rcases Nat.lt_or_ge i pre.length with hi | hi
    · -- a field of `pre`
      rw [List.getElem?_append_left hi] at hj'
      have h10 : t10.tag ≠ tv.tag := huniq (pre.length + 3) t10 hlast (by omega)
      rw [ndSwitchD_find_other _ _ _ _ _ h10, withRaw_sec,
        runNDD_find_unique pre 3 _ _ i tv hj' (fun j' tv' h' hne => huniq (j' + 3) tv' (hpre j' tv' h') (by omega))]
      congr 2; omega
    · -- the CheckSum field
      have hi' : i = pre.length := by
        rcases Nat.lt_or_ge pre.length i with h | h
        · rw [List.getElem?_eq_none_iff.2 (by simp; omega)] at hj'; cases hj'
        · omega
      subst hi'
      have : tv = t10 := by simpa using hj'.symm
      subst this
      have := ndSwitchD_find_self (d := d) (3 + pre.length) tv { (runNDD d 3 pre (tv.bytes ++ []) (ndInit t8 t9 t35 (wireOf (pre ++ [tv])))) with rawBytes := [] }
      rw [this]; congr 2; omega


end Qfx
