/-
  Helper lemmas for C07 (Props/C07.lean): continuity as an instance of the generic frame theorem (policy: no `reset`
  observation, store monotone), the reset-Logon handshake on both sides, reset on logout / disconnect, SequenceReset.
-/
import Qfx.Lemmas.SessRun
import Qfx.Spec.SessionTypedC07
namespace Qfx.Sess
open Qfx

/-! ## continuity -/

theorem StoreMono.refl (a : Store) : StoreMono a a := ⟨rfl, List.suffix_refl _, Int.le_refl _, Int.le_refl _⟩
theorem StoreMono.trans {a b c : Store} (h1 : StoreMono a b) (h2 : StoreMono b c) : StoreMono a c :=
  ⟨h2.epoch.trans h1.epoch, h1.msgs.trans h2.msgs, Int.le_trans h1.sender h2.sender, Int.le_trans h1.target h2.target⟩

/-- the continuity policy: no `reset` observation, store monotone -/
instance contPolicy : Policy (fun o => o ≠ Obs.reset) StoreMono where
  sRefl := StoreMono.refl
  sTrans := StoreMono.trans
  nWire := fun _ => by simp
  nSaved := fun _ _ _ => by simp
  nIncS := by simp
  nIncT := by simp
  nSetT := fun _ => by simp
  nArm := fun _ => by simp
  nClosed := by simp
  nOnLogout := by simp
  nRefresh := by simp
  sPersist := fun st seq m => ⟨rfl, List.suffix_cons _ _, by simp; omega, Int.le_refl _⟩
  sIncS := fun st => ⟨rfl, List.suffix_refl _, by simp; omega, Int.le_refl _⟩
  sTarget := fun st n h => ⟨rfl, List.suffix_refl _, Int.le_refl _, h⟩

theorem cont_msgHyp (cfg : Cfg) (m : InMsg) (hm : NoResetIn m) : MsgHyp (fun o => o ≠ Obs.reset) StoreMono NoResetIn cfg m where
  p := hm
  cb := by intro _ s'; unfold cbObs; split <;> simp
  cbA := by intro _ _ s'; unfold cbObs; split <;> simp
  onLogon := by intro _ _ _; simp
  ro := Or.inr hm

theorem cont_evOK (cfg : Cfg) (hc : cfg.resetSeqTime = none) (e : Ev) (h : NoResetEv e) :
    EvOK (fun o => o ≠ Obs.reset) StoreMono NoResetIn cfg e := by
  cases e with
  | incomingMsg o => intro x hx; subst hx; exact h
  | arrive m => exact h
  | send m => exact Or.inr h
  | sessionTime a b => exact Or.inl h
  | resetTime now => exact Or.inr hc
  | _ => trivial

/-- continuity from any state whose buffered / stashed messages negotiate no reset -/
theorem continuity_run (s : Sess) (evs : List Ev) (hcfg : NoResetOptions s.cfg) (hpool : PoolInv NoResetIn s)
    (hev : ∀ e ∈ evs, NoResetEv e) :
    (∀ o ∈ _root_.traceOf s evs, o ≠ Obs.reset) ∧ StoreMono s.store (_root_.runEvents s evs).store
      ∧ PoolInv NoResetIn (_root_.runEvents s evs) ∧ (_root_.runEvents s evs).cfg = s.cfg := by
  have := run_good (N := fun o => o ≠ Obs.reset) (S := StoreMono) (P := NoResetIn) s evs
    (fun m hm => cont_msgHyp s.cfg m hm) (Or.inr hcfg.1) hpool
    (fun e he => cont_evOK s.cfg hcfg.2 e (hev e he))
  exact ⟨this.1, this.2.1, this.2.2.2, this.2.2.1⟩

/-! ## the reset Logon -/

/-- the state in which the acceptor builds its Logon reply: the peer's HeartBtInt adopted unless overridden -/
def replyBase (s : Sess) (m : InMsg) : Sess :=
  if !s.cfg.hbOverride then (match getInt m 108 with | .val h => s.setHb h | _ => s) else s

/-- `logonReply` in terms of `replyBase`: the acceptor answers, unless the Logon is the answer to its own reset Logon -/
theorem logonReply_base (s : Sess) (m : InMsg) (flag : Bool) :
    logonReply s m flag =
      if (!s.cfg.initiator) = true then
        (if (flag && (replyBase s m).sentReset && (replyBase s m).st.loggedOn) = true then replyBase s m
         else sendLogonRe (replyBase s m) flag m)
      else s := rfl

theorem logonMsgX_141 (s : Sess) (nx : Option Int) : (logonMsgX s true nx).f.get? 141 = some "Y" := by
  unfold logonMsgX mkOut Fields.get?
  simp

theorem logonMsgX_mem141 (s : Sess) (nx : Option Int) : (141, "Y") ∈ (logonMsgX s true nx).f := by
  unfold logonMsgX mkOut
  simp

theorem logonMsgX_no141 (s : Sess) (nx : Option Int) : (logonMsgX s false nx).f.get? 141 = none := by
  unfold logonMsgX mkOut Fields.get? nxTag
  cases nx <;> by_cases h : s.cfg.applVer.isEmpty = true <;> simp [h, List.find?]

theorem logonMsg_141 (s : Sess) : (logonMsg s true).f.get? 141 = some "Y" := logonMsgX_141 s _
theorem logonMsg_mem141 (s : Sess) : (141, "Y") ∈ (logonMsg s true).f := logonMsgX_mem141 s _
theorem logonMsgRe_mem141 (s : Sess) (m : InMsg) : (141, "Y") ∈ (logonMsgRe s true m).f := logonMsgX_mem141 s _

/-- a Logon whose ResetSeqNumFlag reads `Y` has tag 141: its tag 789 is not evaluated -/
theorem has141_of_flag (m : InMsg) (h : logonResetFlag m = true) : m.f.has 141 = true := by
  unfold logonResetFlag getBool at h
  cases hg : m.f.get? 141 with
  | none => rw [hg] at h; simp at h
  | some v => exact Fields.has_of_get? _ _ v hg

theorem nxEval_flag (s : Sess) (m : InMsg) (ns : Int) (h : logonResetFlag m = true) : nxEval s m ns = (s, none) := by
  unfold nxEval; rw [has141_of_flag m h]; simp

theorem logonMsg_kind (s : Sess) (b : Bool) : (logonMsg s b).kind = "A" := rfl

/-- `dropAndSend` of a Logon that carries 141=Y (`o` is the message as built; `stamp s o` is it with the header filled —
    tag 369 when EnableLastMsgSeqNumProcessed is on, read BEFORE the reset): the store is reset first, the Logon is
    number 1, the next outbound number is 2, `sentReset` is raised -/
theorem dropAndSend_reset (s : Sess) (o : OutMsg) (hkA : o.kind = "A") (h141 : o.f.get? 141 = some "Y") :
    let reply : OutMsg := { stamp s o with seq := 1 }
    let s' := dropAndSend s o
    s'.store.sender = 2 ∧ s'.store.target = 1 ∧ s'.store.msgs = (if s.cfg.persist then [(1, reply)] else []) ∧ s'.sentReset = true
    ∧ s'.cfg = s.cfg ∧ s'.st = s.st ∧ s'.hb = s.hb ∧ s'.store.epoch = s.store.epoch + 1
    ∧ (s.out = true → s'.log = .wire reply :: (if s.cfg.persist then .saved 1 "A" (resendable reply) else .incS) :: .reset :: s.log) := by
  intro reply s'
  have hk : isAdminKind (stamp s o).kind = true := by rw [stamp_kind, hkA]; decide
  have hr : ((stamp s o).kind == "A" && (stamp s o).f.get? 141 == some "Y") = true := by
    rw [stamp_kind, stamp_f, h141, hkA]; decide
  have : s' = sendQueued ((((s.storeReset.setSentReset true).persistOut 1 reply)).setToSend [reply]) := by
    show dropAndSend s o = _
    unfold dropAndSend prep prepCore
    simp only [hk, hr, if_true]
    rfl
  rw [this]
  unfold sendQueued Sess.persistOut
  cases hp : s.cfg.persist <;> cases ho : s.out <;>
    simp [Sess.setToSend, Sess.emit, Sess.setSentReset, Sess.storeReset, Store.reset, hp, ho, reply, hkA]

/-- sending a Logon that carries 141=Y (not in reply to a message): `dropAndSend_reset` for `logonMsg s true` -/
theorem sendLogon_reset (s : Sess) :
    let reply : OutMsg := { stamp s (logonMsg s true) with seq := 1 }
    let s' := sendLogonInReplyTo s true
    s'.store.sender = 2 ∧ s'.store.target = 1 ∧ s'.store.msgs = (if s.cfg.persist then [(1, reply)] else []) ∧ s'.sentReset = true
    ∧ s'.cfg = s.cfg ∧ s'.st = s.st ∧ s'.hb = s.hb ∧ s'.store.epoch = s.store.epoch + 1
    ∧ (s.out = true → s'.log = .wire reply :: (if s.cfg.persist then .saved 1 "A" (resendable reply) else .incS) :: .reset :: s.log) :=
  dropAndSend_reset s (logonMsg s true) rfl (logonMsg_141 s)

/-- … and in reply to the Logon `m` (the acceptor's answer) -/
theorem sendLogonRe_reset (s : Sess) (m : InMsg) :
    let reply : OutMsg := { stamp s ((logonMsgRe s true m).inReplyTo m) with seq := 1 }
    let s' := sendLogonRe s true m
    s'.store.sender = 2 ∧ s'.store.target = 1 ∧ s'.store.msgs = (if s.cfg.persist then [(1, reply)] else []) ∧ s'.sentReset = true
    ∧ s'.cfg = s.cfg ∧ s'.st = s.st ∧ s'.hb = s.hb ∧ s'.store.epoch = s.store.epoch + 1
    ∧ (s.out = true → s'.log = .wire reply :: (if s.cfg.persist then .saved 1 "A" (resendable reply) else .incS) :: .reset :: s.log) :=
  dropAndSend_reset s ((logonMsgRe s true m).inReplyTo m) rfl (logonMsgX_141 s _)

theorem replyBase_frame (s : Sess) (m : InMsg) :
    (replyBase s m).cfg = s.cfg ∧ (replyBase s m).st = s.st ∧ (replyBase s m).store = s.store ∧ (replyBase s m).out = s.out
    ∧ (replyBase s m).log = s.log := by
  unfold replyBase
  split
  · split <;> exact ⟨rfl, rfl, rfl, rfl, rfl⟩
  · exact ⟨rfl, rfl, rfl, rfl, rfl⟩

/-- **acceptor, reset Logon received.**  A Logon with ResetSeqNumFlag=Y that passes the gates, is numbered 1 and is not the
    echo of a reset we asked for: the store is reset, the reply Logon is outbound number 1 and carries 141=Y, the inbound
    Logon consumed number 1: both counters are 2 afterwards, `sentReset` is down again. -/
theorem logon_reset_received (s : Sess) (m : InMsg) (hi : s.cfg.initiator = false)
    (h5 : (s.cfg.bs == 5 && !m.f.has 1137) = false) (hg : GateMsg s.cfg m) (ht : TimeGate s m)
    (hv : callbackVerdict m = none) (hf : logonResetFlag m = true) (hsr : s.sentReset = false) (h34 : getInt m 34 = .val 1)
    (hnx : nxAbove s.cfg m 1 = false) :
    ∃ base : Sess, base.cfg = s.cfg ∧ base.store.target = 1 ∧
    let reply : OutMsg := { stamp base ((logonMsgRe base true m).inReplyTo m) with seq := 1 }
    let r := handleLogon s m
    r.2 = none ∧ r.1.store.sender = 2 ∧ r.1.store.target = 2 ∧ r.1.sentReset = false
    ∧ r.1.store.msgs = (if s.cfg.persist then [(1, reply)] else [])
    ∧ (141, "Y") ∈ reply.f ∧ reply.kind = "A" ∧ reply.seq = 1
    ∧ (s.out = true → Obs.wire reply ∈ r.1.log) ∧ Obs.onLogon ∈ r.1.log ∧ Obs.reset ∈ r.1.log := by
  -- stage 1: refresh, validation + FromAdmin
  generalize hs1 : (if (!s.cfg.initiator && s.cfg.refreshOnLogon) = true then s.emit Obs.refresh else s) = s1
  have a1 : s1.cfg = s.cfg ∧ s1.st = s.st ∧ s1.sentReset = s.sentReset ∧ s1.out = s.out := by
    rw [← hs1]; split <;> exact ⟨rfl, rfl, rfl, rfl⟩
  obtain ⟨s2, hs2⟩ : ∃ x, x = s1.emit (cbObs s1 m) := ⟨_, rfl⟩
  have a2 : s2.cfg = s.cfg ∧ s2.st = s.st ∧ s2.sentReset = s.sentReset ∧ s2.out = s.out := by rw [hs2]; exact a1
  have e1 : verifyAppImpl s1 m = (s2, none) := by rw [verifyAppImpl_pass s1 m (by rw [a1.1]; exact hg.valid), hv, hs2]
  -- stage 2: the reset
  have hreset : ((if s2.cfg.initiator = true then false else s2.cfg.resetOnLogon) || logonResetFlag m && !s2.sentReset) = true := by
    rw [hf, a2.2.2.1, hsr]; simp
  obtain ⟨s3, hs3⟩ : ∃ x, x = dropAndReset s2 := ⟨_, rfl⟩
  have a3 : s3.cfg = s.cfg ∧ s3.st = s.st ∧ s3.out = s.out ∧ s3.store.target = 1 ∧ Obs.reset ∈ s3.log := by
    rw [hs3]; exact ⟨a2.1, a2.2.1, a2.2.2.2, rfl, by simp [dropAndReset, Sess.setToSend, Sess.storeReset, Sess.emit]⟩
  have a3s : s3.store.sender = 1 := by rw [hs3]; rfl
  have c3 := a3.1
  have e2 : verifySelect s3 m false true false = (s3, none) := by
    rw [verifySelect_complete s3 m false true false (by rw [c3]; exact hg.begin) (by rw [c3]; exact hg.comp)
      (timeGate_congr m a3.2.1 c3 ht) ⟨fun _ => ⟨1, h34, by rw [a3.2.2.2.1]; omega⟩, fun h => by cases h⟩]
    rfl
  -- stage 3: the reply
  have hacc : (!s3.cfg.initiator) = true := by rw [c3, hi]; rfl
  have hsr3 : (replyBase s3 m).sentReset = false := by
    have : (replyBase s3 m).sentReset = s3.sentReset := by
      unfold replyBase; split
      · cases getInt m 108 <;> rfl
      · rfl
    rw [this, hs3]; exact a2.2.2.1.trans hsr
  have e3 : logonReply s3 m (logonResetFlag m) = sendLogonRe (replyBase s3 m) true m := by
    rw [logonReply_base, if_pos hacc, hf, hsr3]; rfl
  obtain ⟨b1, b2, b3, b4, b5⟩ := replyBase_frame s3 m
  obtain ⟨q1, q2, q3, q4, q5, q6, q7, q8, q9⟩ := sendLogonRe_reset (replyBase s3 m) m
  have hrel := relF_sendLogonRe (N := fun _ => True) (S := fun _ _ => True) (replyBase s3 m) true m (Or.inl triv_resetOK)
  generalize hs4 : sendLogonRe (replyBase s3 m) true m = s4 at q1 q2 q3 q4 q5 q6 q7 q8 q9 e3 hrel
  -- stage 4: notification and consuming the Logon's number
  obtain ⟨s5, hs5⟩ : ∃ x, x = ((s4.setSentReset false).emit (.armPeer (1200 * s4.hb))).emit .onLogon := ⟨_, rfl⟩
  have e4 : ∀ ns, logonFinish s4 m ns = (incrTarget s5, none) := by
    intro ns
    unfold logonFinish
    rw [nxEval_flag _ m ns hf]
    simp only []
    rw [← hs5]
    have : checkTooHigh s5 m = none := by
      unfold checkTooHigh; rw [h34]; simp only []
      rw [if_neg]; rw [hs5]; show ¬ (1 : Int) > s4.store.target; rw [q2]; omega
    rw [this]
  have hl : handleLogon s m = (incrTarget s5, none) := by
    unfold handleLogon
    rw [if_neg (by rw [h5]; simp), hs1]
    simp only [e1, hreset, if_true]
    rw [← hs3]
    have hnr : logonRefuses s3 m (logonResetFlag m) = false := by
      unfold logonRefuses nxRefuses; rw [c3, a3s, hnx, Bool.and_false]
    unfold logonTail
    simp only [e2, hnr, Bool.false_eq_true, if_false, e3, e4]
  refine ⟨replyBase s3 m, b1.trans c3, by rw [b3]; exact a3.2.2.2.1, ?_⟩
  intro reply r
  have hr : r = (incrTarget s5, none) := hl
  rw [hr, hs5]
  refine ⟨rfl, ?_, ?_, rfl, ?_, logonMsgRe_mem141 _ _, rfl, rfl, ?_, ?_, ?_⟩
  · show s4.store.sender = 2; exact q1
  · show s4.store.target + 1 = 2; rw [q2]; rfl
  · show s4.store.msgs = _; rw [q3, b1, c3]
  · intro ho
    have ho' : (replyBase s3 m).out = true := by rw [b4, a3.2.2.1, ho]
    show Obs.wire reply ∈ Obs.incT :: Obs.onLogon :: Obs.armPeer _ :: s4.log
    rw [q9 ho']; simp [reply]
  · show Obs.onLogon ∈ Obs.incT :: Obs.onLogon :: _; simp
  · show Obs.reset ∈ Obs.incT :: Obs.onLogon :: Obs.armPeer _ :: s4.log
    have : Obs.reset ∈ (replyBase s3 m).log := by rw [b5]; exact a3.2.2.2.2
    obtain ⟨extra, hx, _⟩ := hrel.log
    rw [hx]; simp [this]


/-! ## EnableNextExpectedMsgSeqNum: tag 789 of our Logons, the peer's tag 789 -/

theorem mem_nxTag (l : Fields) (n : Int) : (789, toString n) ∈ l ++ nxTag (some n) := by simp [nxTag]

theorem logonMsgX_mem789 (s : Sess) (reset : Bool) (n : Int) : (789, toString n) ∈ (logonMsgX s reset (some n)).f := by
  unfold logonMsgX mkOut; exact mem_nxTag _ n

theorem logonMsgX_no789 (s : Sess) (reset : Bool) : (logonMsgX s reset none).f.get? 789 = none := by
  unfold logonMsgX mkOut Fields.get? nxTag
  cases reset <;> by_cases h : s.cfg.applVer.isEmpty = true <;> simp [h, List.find?]

/-- the acceptor's reply without the reset flag: numbered with the next outbound number, nothing else in the store changes -/
theorem sendLogonRe_plain (s : Sess) (m : InMsg) :
    let reply : OutMsg := { stamp s ((logonMsgRe s false m).inReplyTo m) with seq := s.store.sender }
    let s' := sendLogonRe s false m
    s'.store.sender = s.store.sender + 1 ∧ s'.store.target = s.store.target ∧ s'.store.epoch = s.store.epoch
    ∧ s'.store.msgs = (if s.cfg.persist then (s.store.sender, reply) :: s.store.msgs else s.store.msgs)
    ∧ s'.sentReset = s.sentReset ∧ s'.cfg = s.cfg ∧ s'.st = s.st ∧ s'.out = s.out
    ∧ (s.out = true → s'.log = .wire reply :: (if s.cfg.persist then .saved s.store.sender "A" (resendable reply) else .incS) :: s.log
                      ∧ s'.toSend = []) := by
  intro reply s'
  have hkA : (logonMsgRe s false m).kind = "A" := rfl
  have hk : isAdminKind (stamp s ((logonMsgRe s false m).inReplyTo m)).kind = true := by
    rw [stamp_kind, inReplyTo_kind, hkA]; decide
  have h141 : ((logonMsgRe s false m).inReplyTo m).f.get? 141 = none := logonMsgX_no141 s _
  have hr : ((stamp s ((logonMsgRe s false m).inReplyTo m)).kind == "A" && (stamp s ((logonMsgRe s false m).inReplyTo m)).f.get? 141 == some "Y") = false := by
    rw [stamp_f, h141]; simp
  have : s' = sendQueued ((s.persistOut s.store.sender reply).setToSend [reply]) := by
    show dropAndSend s ((logonMsgRe s false m).inReplyTo m) = _
    unfold dropAndSend prep prepCore
    simp only [hk, hr, if_true, Bool.false_eq_true, if_false]
    rfl
  rw [this]
  unfold sendQueued Sess.persistOut
  cases hp : s.cfg.persist <;> cases ho : s.out <;>
    simp [Sess.setToSend, Sess.emit, hp, ho, reply, hkA]

/-- the evaluation of the peer's tag 789 never touches the store, the configuration, the state or `sentReset` -/
theorem nxEval_frame (s : Sess) (m : InMsg) (ns : Int) :
    (nxEval s m ns).1.store = s.store ∧ (nxEval s m ns).1.cfg = s.cfg ∧ (nxEval s m ns).1.st = s.st
    ∧ (nxEval s m ns).1.sentReset = s.sentReset ∧ (nxEval s m ns).1.out = s.out ∧ (nxEval s m ns).1.hb = s.hb := by
  have he : ∀ o : OutMsg, (enqueueAndSend s o).store = s.store ∧ (enqueueAndSend s o).cfg = s.cfg ∧ (enqueueAndSend s o).st = s.st
      ∧ (enqueueAndSend s o).sentReset = s.sentReset ∧ (enqueueAndSend s o).out = s.out ∧ (enqueueAndSend s o).hb = s.hb := by
    intro o
    unfold enqueueAndSend sendQueued
    simp only []
    repeat' split
    all_goals exact ⟨rfl, rfl, rfl, rfl, rfl, rfl⟩
  unfold nxEval
  repeat' split
  all_goals first | exact he _ | exact ⟨rfl, rfl, rfl, rfl, rfl, rfl⟩

/-- when nothing is to be done: the option off, a Logon carrying tag 141, no readable 789, or a 789 equal to our number -/
theorem nxEval_quiet (s : Sess) (m : InMsg) (ns : Int)
    (h : s.cfg.nextExpected = false ∨ m.f.has 141 = true ∨ peerNext m = none ∨ peerNext m = some ns) : nxEval s m ns = (s, none) := by
  unfold nxEval
  rcases h with h | h | h | h
  · rw [h]; rfl
  · rw [h]; simp
  · rw [h]; simp
  · rw [h]; simp

/-- the implied gap fill: the option on, no tag 141, a readable 789 different from our number, message persistence on -/
theorem nxEval_fill (s : Sess) (m : InMsg) (ns n : Int) (h1 : s.cfg.nextExpected = true) (h2 : m.f.has 141 = false)
    (h3 : peerNext m = some n) (h4 : n ≠ ns) (hp : s.cfg.persist = true) :
    nxEval s m ns = (enqueueAndSend s (gapFillRe s m n (ns + 1)), none) := by
  unfold nxEval
  rw [h1, h2, h3, hp]
  simp [h4]

/-- … and without persistence: the error `targetTooHigh{789, our outbound number}`, nothing sent -/
theorem nxEval_nopersist (s : Sess) (m : InMsg) (ns n : Int) (h1 : s.cfg.nextExpected = true) (h2 : m.f.has 141 = false)
    (h3 : peerNext m = some n) (h4 : n ≠ ns) (hp : s.cfg.persist = false) :
    nxEval s m ns = (s, some (.tooHigh n ns)) := by
  unfold nxEval
  rw [h1, h2, h3, hp]
  simp [h4]

theorem nxEval_log (s : Sess) (m : InMsg) (ns : Int) : ∃ pre, (nxEval s m ns).1.log = pre ++ s.log := by
  have hq : ∀ x : Sess, ∃ pre, (sendQueued x).log = pre ++ x.log := by
    intro x; unfold sendQueued; split
    · exact ⟨_, rfl⟩
    · exact ⟨[], rfl⟩
  have he : ∀ (x : Sess) (o : OutMsg), ∃ pre, (enqueueAndSend x o).log = pre ++ x.log := by
    intro x o; unfold enqueueAndSend; simp only []
    split <;> exact hq _
  unfold nxEval
  repeat' split
  all_goals first | exact he _ _ | exact ⟨[], rfl⟩

/-- with a connection the gap fill is the last thing written; what was queued goes out in front of it when logged on and is
    dropped from the wire queue otherwise (EnqueueBytesAndSend) -/
theorem enqueueAndSend_log (s : Sess) (o : OutMsg) (ho : s.out = true) :
    (enqueueAndSend s o).log = Obs.wire o :: ((if s.st.loggedOn then s.toSend else []).map Obs.wire).reverse ++ s.log
    ∧ (enqueueAndSend s o).toSend = [] := by
  unfold enqueueAndSend sendQueued
  cases hl : s.st.loggedOn <;> simp [Sess.setToSend, ho]

/-- a Logon that passes every gate, asks for no reset (or is the echo of ours) and is not below the expected number reaches
    the tail of `handleLogon` with nothing changed but the callback observations -/
theorem handleLogon_passes (s : Sess) (m : InMsg)
    (h5 : (s.cfg.bs == 5 && !m.f.has 1137) = false) (hg : GateMsg s.cfg m) (ht : TimeGate s m)
    (hv : callbackVerdict m = none) (hro : (if s.cfg.initiator then false else s.cfg.resetOnLogon) = false)
    (hf : logonResetFlag m = false ∨ s.sentReset = true) (n : Int) (h34 : getInt m 34 = .val n) (hge : s.store.target ≤ n) :
    ∃ s2 : Sess, s2.cfg = s.cfg ∧ s2.st = s.st ∧ s2.store = s.store ∧ s2.sentReset = s.sentReset ∧ s2.out = s.out
      ∧ s2.toSend = s.toSend ∧ s2.hb = s.hb ∧ (∃ pre, s2.log = pre ++ s.log ∧ ∀ o ∈ pre, o = cbObs s m ∨ o = Obs.refresh)
      ∧ handleLogon s m = logonTail s2 m s.store.sender := by
  generalize hs1 : (if (!s.cfg.initiator && s.cfg.refreshOnLogon) = true then s.emit Obs.refresh else s) = s1
  have a1 : s1.cfg = s.cfg ∧ s1.st = s.st ∧ s1.store = s.store ∧ s1.sentReset = s.sentReset ∧ s1.out = s.out ∧ s1.toSend = s.toSend
      ∧ s1.hb = s.hb ∧ ∃ pre, s1.log = pre ++ s.log ∧ ∀ o ∈ pre, o = Obs.refresh := by
    rw [← hs1]; split
    · exact ⟨rfl, rfl, rfl, rfl, rfl, rfl, rfl, [.refresh], rfl, by simp⟩
    · exact ⟨rfl, rfl, rfl, rfl, rfl, rfl, rfl, [], rfl, by simp⟩
  obtain ⟨c1, c2, c3, c4, c5, c6, c7, pre1, l1, p1⟩ := a1
  have hcb : cbObs s1 m = cbObs s m := by unfold cbObs; rw [c3]
  have e1 : verifyAppImpl s1 m = (s1.emit (cbObs s1 m), none) := by rw [verifyAppImpl_pass s1 m (by rw [c1]; exact hg.valid), hv]
  have hreset : ((if (s1.emit (cbObs s1 m)).cfg.initiator = true then false else (s1.emit (cbObs s1 m)).cfg.resetOnLogon)
      || logonResetFlag m && !(s1.emit (cbObs s1 m)).sentReset) = false := by
    show ((if s1.cfg.initiator = true then false else s1.cfg.resetOnLogon) || logonResetFlag m && !s1.sentReset) = false
    rw [c1, hro, c4]
    rcases hf with hf | hf <;> rw [hf] <;> simp
  have e2 : verifySelect (s1.emit (cbObs s1 m)) m false true false = (s1.emit (cbObs s1 m), none) := by
    rw [verifySelect_complete _ m false true false (by show BeginOK s1.cfg m; rw [c1]; exact hg.begin)
      (by show CompOK s1.cfg m; rw [c1]; exact hg.comp) (timeGate_congr m (by show s1.st = s.st; exact c2) (by show s1.cfg = s.cfg; exact c1) ht)
      ⟨fun _ => ⟨n, h34, by show s1.store.target ≤ n; rw [c3]; exact hge⟩, fun h => by cases h⟩]
    rfl
  refine ⟨s1.emit (cbObs s1 m), c1, c2, c3, c4, c5, c6, c7, ⟨cbObs s1 m :: pre1, by show _ :: s1.log = _; rw [l1]; rfl, ?_⟩, ?_⟩
  · intro o ho
    simp only [List.mem_cons] at ho
    rcases ho with rfl | ho
    · exact Or.inl hcb
    · exact Or.inr (p1 o ho)
  · unfold handleLogon
    rw [if_neg (by rw [h5]; simp), hs1]
    simp only [e1, hreset, Bool.false_eq_true, if_false, e2]

theorem logonFixMsgIn_of_ok (s : Sess) (m : InMsg) (hk : kindOf m = "A") (h : (handleLogon s m).2 = none) :
    logonFixMsgIn s m = ((handleLogon s m).1, .inSession) := by
  unfold logonFixMsgIn
  rw [if_neg (by simp [hk])]
  generalize handleLogon s m = r at h
  obtain ⟨s', o⟩ := r
  simp only [] at h
  subst h
  rfl

/-- the echo of our own reset request does not reset again (initiator, `sentReset` raised): no `reset` observation, the store
    only moves forward -/
theorem logon_echo_no_reset (s : Sess) (m : InMsg) (hi : s.cfg.initiator = true) (hsr : s.sentReset = true) :
    RelF (fun o => o ≠ Obs.reset) StoreMono s (handleLogon s m).1 := by
  unfold handleLogon
  split
  · exact RelF.refl s
  · have hs1 : (if (!s.cfg.initiator && s.cfg.refreshOnLogon) = true then s.emit Obs.refresh else s) = s := by
      rw [hi]; rfl
    rw [hs1]
    simp only []
    rcases verifyAppImpl_cases s m with ⟨_, he⟩ | ⟨_, r, he⟩
    · rw [he]
      have h2 : RelF (fun o => o ≠ Obs.reset) StoreMono s (s.emit (cbObs s m)) :=
        RelF.emit _ _ (by unfold cbObs; split <;> simp)
      have a2 : (s.emit (cbObs s m)).cfg.initiator = true ∧ (s.emit (cbObs s m)).sentReset = true := ⟨hi, hsr⟩
      generalize s.emit (cbObs s m) = s2 at h2 a2
      cases callbackVerdict m with
      | some r => exact h2
      | none =>
        simp only []
        have hno : ((if s2.cfg.initiator = true then false else s2.cfg.resetOnLogon) || logonResetFlag m && !s2.sentReset) = false := by
          rw [a2.1, a2.2]; simp
        rw [hno]
        simp only [Bool.false_eq_true, if_false]
        have hv1 := verifySelect_noApp s2 m false true
        generalize verifySelect s2 m false true false = r2 at hv1
        obtain ⟨s4, o2⟩ := r2
        simp only [] at hv1
        subst hv1
        cases o2 with
        | some r => exact h2
        | none =>
          simp only []
          have : logonReply s4 m (logonResetFlag m) = s4 := by
            unfold logonReply; rw [a2.1]; rfl
          unfold logonTail
          split
          · have : logonRefused s4 m = s4 := by unfold logonRefused; rw [a2.1]; rfl
            rw [this]; exact h2
          · rw [this]
            exact h2.trans (relF_logonFinish _ m _ (by simp))
    · rw [he]; exact RelF.refl s

/-- the same for the acceptor in an established session (after `fix:` cbdc133; ResetOnLogon off — with it every Logon
    resets): the peer's answer to the reset Logon we sent ourselves neither resets again nor is answered with another
    reset Logon — no `reset` observation, the store only moves forward -/
theorem logon_echo_no_reset_acceptor (s : Sess) (m : InMsg) (hi : s.cfg.initiator = false) (hrol : s.cfg.resetOnLogon = false)
    (hsr : s.sentReset = true) (hl : s.st.loggedOn = true) :
    RelF (fun o => o ≠ Obs.reset) StoreMono s (handleLogon s m).1 := by
  unfold handleLogon
  split
  · exact RelF.refl s
  · generalize hs1 : (if (!s.cfg.initiator && s.cfg.refreshOnLogon) = true then s.emit Obs.refresh else s) = s1
    have h1 : RelF (fun o => o ≠ Obs.reset) StoreMono s s1 := by
      rw [← hs1]; split
      · exact RelF.emit _ _ (by simp)
      · exact RelF.refl s
    have a1 : s1.cfg = s.cfg ∧ s1.sentReset = true ∧ s1.st = s.st := by
      rw [← hs1]; split <;> exact ⟨rfl, hsr, rfl⟩
    simp only []
    rcases verifyAppImpl_cases s1 m with ⟨_, he⟩ | ⟨_, r, he⟩
    · rw [he]
      have h2 : RelF (fun o => o ≠ Obs.reset) StoreMono s (s1.emit (cbObs s1 m)) :=
        h1.trans (RelF.emit _ _ (by unfold cbObs; split <;> simp))
      have a2 : (s1.emit (cbObs s1 m)).cfg = s.cfg ∧ (s1.emit (cbObs s1 m)).sentReset = true ∧ (s1.emit (cbObs s1 m)).st = s.st := a1
      generalize s1.emit (cbObs s1 m) = s2 at h2 a2
      cases callbackVerdict m with
      | some r => exact h2
      | none =>
        simp only []
        have hno : ((if s2.cfg.initiator = true then false else s2.cfg.resetOnLogon) || logonResetFlag m && !s2.sentReset) = false := by
          rw [a2.1, hi, hrol, a2.2.1]; simp
        rw [hno]
        simp only [Bool.false_eq_true, if_false]
        have hv1 := verifySelect_noApp s2 m false true
        generalize verifySelect s2 m false true false = r2 at hv1
        obtain ⟨s4, o2⟩ := r2
        simp only [] at hv1
        subst hv1
        cases o2 with
        | some r => exact h2
        | none =>
          simp only []
          have hb : (replyBase s4 m).sentReset = true ∧ (replyBase s4 m).st.loggedOn = true ∧
              RelF (fun o => o ≠ Obs.reset) StoreMono s4 (replyBase s4 m) := by
            unfold replyBase; split
            · have hl4 : s4.st.loggedOn = true := by rw [a2.2.2]; exact hl
              cases getInt m 108 <;> exact ⟨a2.2.1, hl4, RelF.of_eq rfl rfl rfl rfl rfl⟩
            · exact ⟨a2.2.1, by rw [a2.2.2]; exact hl, RelF.refl _⟩
          have hr : RelF (fun o => o ≠ Obs.reset) StoreMono s4 (logonReply s4 m (logonResetFlag m)) := by
            rw [logonReply_base]
            have : (!s4.cfg.initiator) = true := by rw [a2.1, hi]; rfl
            rw [if_pos this, hb.1, hb.2.1]
            cases logonResetFlag m
            · exact hb.2.2.trans (relF_sendLogonRe _ false m (Or.inr rfl))
            · exact hb.2.2
          unfold logonTail
          split
          · exact h2.trans (relF_logonRefused _ m)
          · exact (h2.trans hr).trans (relF_logonFinish _ m _ (by simp))
    · rw [he]; exact h1

theorem shouldSendReset_fix40 (s : Sess) (h : s.cfg.bs = 0) : shouldSendReset s = false := by
  unfold shouldSendReset; rw [h]; rfl

/-- the state in which the initiator builds its Logon: connection opened, store refreshed / reset per configuration -/
def connectBase (s : Sess) : Sess :=
  let s := s.openConn
  let s := if s.cfg.refreshOnLogon then s.emit .refresh else s
  if s.cfg.resetOnLogon then dropAndReset s else s

theorem connect_initiator (s : Sess) (hc : s.st.connected = false) (ht : s.st.sessionTime = true) (hi : s.cfg.initiator = true) :
    connect s = ((sendLogonInReplyTo (connectBase s) (shouldSendReset (connectBase s))).setSt .logon, "ok") := by
  unfold connect connectBase
  have : s.openConn.cfg.initiator = true := hi
  simp [hc, ht, this]

theorem connectBase_frame (s : Sess) : (connectBase s).cfg = s.cfg ∧ (connectBase s).out = true ∧ (connectBase s).st = s.st := by
  unfold connectBase
  simp only []
  split <;> split <;> exact ⟨rfl, rfl, rfl⟩

theorem connectBase_store (s : Sess) : (connectBase s).store = if s.cfg.resetOnLogon then s.store.reset else s.store := by
  unfold connectBase
  simp only []
  have : s.openConn.cfg = s.cfg := rfl
  split <;> split <;> simp_all [dropAndReset, Sess.setToSend, Sess.storeReset, Sess.emit, Sess.openConn]

/-! ### reset on logout / on disconnect -/

theorem processReject_not_latent (s : Sess) (m : InMsg) (r : Rej) : (processReject s m r).2 ≠ .latent := by
  unfold processReject
  split
  · split
    · simp
    · simp
  · unfold doTargetTooLow
    repeat' split
    all_goals (try dsimp only)
    all_goals (repeat' split)
    all_goals simp
  · simp
  · simp
  · split <;> simp

theorem dropAndReset_store (s : Sess) : (dropAndReset s).store = s.store.reset := rfl

/-- ResetOnLogout: whenever the Logout handler ends the session (returns Latent) the store has just been reset:
    both counters are 1, nothing is stored -/
theorem reset_on_logout (s : Sess) (m : InMsg) (hcfg : s.cfg.resetOnLogout = true) (hl : (handleLogout s m).2 = .latent) :
    (handleLogout s m).1.store.sender = 1 ∧ (handleLogout s m).1.store.target = 1 ∧ (handleLogout s m).1.store.msgs = []
    ∧ Obs.reset ∈ (handleLogout s m).1.log := by
  unfold handleLogout at hl ⊢
  have hv := relF_verifySelect (N := fun _ => True) (S := fun _ _ => True) (P := fun _ => True) s m false false true
    ⟨trivial, fun _ _ => trivial, fun _ _ _ => trivial, fun _ _ _ => trivial, Or.inl triv_resetOK⟩
  generalize verifySelect s m false false true = r at hv hl
  obtain ⟨s', o⟩ := r
  cases o with
  | some r => exact absurd hl (processReject_not_latent s' m r)
  | none =>
    dsimp only at hl ⊢
    generalize hs2 : (if s'.st.loggedOn = true then sendInReplyTo s' ((mkOut "5" []).inReplyTo m) else s') = s2
    have h2 : RelF (fun _ => True) (fun _ _ => True) s s2 := by rw [← hs2]; rel_peel
    have : s2.cfg.resetOnLogout = true := by rw [h2.cfg]; exact hcfg
    rw [if_pos this]
    exact ⟨rfl, rfl, rfl, by simp [dropAndReset, Sess.storeReset, Sess.emit]⟩

theorem ite_emit_frame (c : Prop) [Decidable c] (s : Sess) (o : Obs) :
    (if c then s.emit o else s).cfg = s.cfg ∧ (if c then s.emit o else s).store = s.store := by
  split <;> exact ⟨rfl, rfl⟩

/-- ResetOnDisconnect: the disconnect processing resets the store -/
theorem reset_on_disconnect_mid (s : Sess) (hcfg : s.cfg.resetOnDisconnect = true) :
    (discMid s).store = s.store.reset ∧ Obs.reset ∈ (discMid s).log := by
  unfold discMid
  simp only []
  generalize hs1 : (if (s.st.loggedOn || match s.st with | SState.logout => true | SState.logon => s.cfg.initiator | x => false) = true
      then s.emit Obs.onLogout else s) = s1
  have a1 : s1.cfg = s.cfg ∧ s1.store = s.store := by rw [← hs1]; exact ite_emit_frame _ _ _
  have : s1.cfg.resetOnDisconnect = true := by rw [a1.1]; exact hcfg
  rw [if_pos this]
  split
  · exact ⟨by show s1.store.reset = _; rw [a1.2], by simp [dropAndReset, Sess.storeReset, Sess.emit, Sess.setOut]⟩
  · exact ⟨by show s1.store.reset = _; rw [a1.2], by simp [dropAndReset, Sess.storeReset, Sess.emit]⟩

theorem discMid_keeps_store (s : Sess) (hcfg : s.cfg.resetOnDisconnect = false) : (discMid s).store = s.store := by
  unfold discMid
  simp only []
  generalize hs1 : (if (s.st.loggedOn || match s.st with | SState.logout => true | SState.logon => s.cfg.initiator | x => false) = true
      then s.emit Obs.onLogout else s) = s1
  have a1 : s1.cfg = s.cfg ∧ s1.store = s.store := by rw [← hs1]; exact ite_emit_frame _ _ _
  have : s1.cfg.resetOnDisconnect = false := by rw [a1.1]; exact hcfg
  rw [this]
  simp only [Bool.false_eq_true, if_false]
  split <;> exact a1.2

theorem drainIn_nil (fuel : Nat) (s : Sess) (h : s.inbox = []) : drainIn fuel s = s := by
  cases fuel with
  | zero => unfold drainIn; rfl
  | succ n =>
    unfold drainIn
    split
    · rfl
    · rw [h]

/-- a disconnect with nothing buffered: exactly the disconnect processing, then Latent -/
theorem disconnected_store (s : Sess) (hc : s.st.connected = true) (hi : s.inbox = []) :
    (step s .disconnected).1.store = (discMid s.clearLog).store ∧ (step s .disconnected).1.st = .latent := by
  unfold step stepCore
  have hc' : s.clearLog.st.connected = true := hc
  simp only [hc', if_true]
  have hf : fuelOf s.clearLog = 7 + 1 := by unfold fuelOf; show 4 * s.inbox.length + 8 = 8; rw [hi]; rfl
  rw [hf]
  unfold setState
  have hi' : s.clearLog.inbox = [] := hi
  have hd : (discMid s.clearLog).inbox = [] := by
    rw [(relF_discMid (N := fun _ => True) (S := fun _ _ => True) s.clearLog (Or.inl triv_resetOK)).inbox]; exact hi'
  have hl : (!SState.latent.connected) = true := rfl
  simp only [hl, if_true, hc', drainIn_nil 7 _ hi', drainIn_nil 7 _ hd]
  split <;> exact ⟨rfl, rfl⟩

/-! ### SequenceReset -/

/-- GapFillFlag as the handler reads it -/
def gapFillOf (m : InMsg) : Bool := match getBool m 123 with | .val b => b | _ => false

theorem handleSequenceReset_eq (s : Sess) (m : InMsg) (h123 : getBool m 123 ≠ .garbled) :
    handleSequenceReset s m =
      match verifySelect s m (gapFillOf m) (gapFillOf m) true with
      | (s, some r) => processReject s m r
      | (s, none) =>
        match getInt m 36 with
        | .val n =>
          if n > s.store.target then ((s.setTarget n).emit (.setT n), SState.inSession)
          else if n < s.store.target then (doReject s m 5 none false, SState.inSession)
          else (s, SState.inSession)
        | _ => (s, SState.inSession) := by
  unfold handleSequenceReset gapFillOf
  cases h : getBool m 123 with
  | garbled => exact absurd h h123
  | missing => rfl
  | val b => rfl

/-- a SequenceReset that passes the gates (GapFill: also the sequence checks): NewSeqNo above the expected number moves it
    there, equal changes nothing, below is answered with Reject reason 5 and changes nothing -/
theorem seqreset_forward_only (s : Sess) (m : InMsg) (n : Int) (h123 : getBool m 123 ≠ .garbled) (h36 : getInt m 36 = .val n)
    (hg : GateMsg s.cfg m) (ht : TimeGate s m) (hv : callbackVerdict m = none)
    (hseq : SeqGate s m (gapFillOf m) (gapFillOf m)) :
    let s1 := s.emit (cbObs s m)
    (n > s.store.target → handleSequenceReset s m = ((s1.setTarget n).emit (.setT n), .inSession))
    ∧ (n = s.store.target → handleSequenceReset s m = (s1, .inSession))
    ∧ (n < s.store.target → handleSequenceReset s m = (doReject s1 m 5 none false, .inSession)) := by
  intro s1
  have hvs : verifySelect s m (gapFillOf m) (gapFillOf m) true = (s1, none) := by
    rw [verifySelect_complete s m _ _ true hg.begin hg.comp ht hseq]
    simp only [if_true]
    rw [verifyAppImpl_pass s m hg.valid, hv]
  rw [handleSequenceReset_eq s m h123, hvs]
  simp only [h36]
  have ht1 : s1.store.target = s.store.target := rfl
  rw [ht1]
  refine ⟨?_, ?_, ?_⟩
  · intro h; rw [if_pos h]
  · intro h; rw [if_neg (by omega), if_neg (by omega)]
  · intro h; rw [if_neg (by omega), if_pos h]

/-- whatever the SequenceReset looks like (any 34 / 36 / 123 / 43, gates passing or not): no reset, the expected number
    never moves backwards, nothing stored is lost -/
theorem seqreset_never_backwards (s : Sess) (m : InMsg) (hk : kindOf m = "4") :
    RelF (fun o => o ≠ Obs.reset) StoreMono s (handleSequenceReset s m).1 := by
  have hm : MsgHyp (fun o => o ≠ Obs.reset) StoreMono (fun _ => True) s.cfg m :=
    ⟨trivial, by intro _ s'; unfold cbObs; split <;> simp, by intro _ _ s'; unfold cbObs; split <;> simp, by intro _ _ _; simp,
      Or.inr (by intro h; rw [hk] at h; exact absurd h (by decide))⟩
  exact (hout_handleSequenceReset s m hm (by intro p _; trivial)).rel

/-! ### connect -/

theorem connect_acceptor_store (s : Sess) (hi : s.cfg.initiator = false) (hcfg : s.cfg.resetOnDisconnect = false) :
    (connect s).1.store = s.store := by
  unfold connect
  split
  · rfl
  · split
    · simp [hcfg]
    · have : (!s.openConn.cfg.initiator) = true := by show (!s.cfg.initiator) = true; rw [hi]; rfl
      dsimp only
      rw [if_pos this]
      rfl

/-- sending a Logon without the reset flag: numbered with the next outbound number, nothing else in the store changes -/
theorem sendLogon_plain (s : Sess) :
    let reply : OutMsg := { stamp s (logonMsg s false) with seq := s.store.sender }
    let s' := sendLogonInReplyTo s false
    s'.store.sender = s.store.sender + 1 ∧ s'.store.target = s.store.target ∧ s'.store.epoch = s.store.epoch
    ∧ s'.store.msgs = (if s.cfg.persist then (s.store.sender, reply) :: s.store.msgs else s.store.msgs)
    ∧ s'.sentReset = s.sentReset
    ∧ (s.out = true → s'.log = .wire reply :: (if s.cfg.persist then .saved s.store.sender "A" (resendable reply) else .incS) :: s.log) := by
  intro reply s'
  have hk : isAdminKind (stamp s (logonMsg s false)).kind = true := by rw [stamp_kind, logonMsg_kind]; decide
  have h141 : (logonMsg s false).f.get? 141 = none := logonMsgX_no141 s _
  have hr : ((stamp s (logonMsg s false)).kind == "A" && (stamp s (logonMsg s false)).f.get? 141 == some "Y") = false := by
    rw [stamp_f, h141]; simp
  have : s' = sendQueued ((s.persistOut s.store.sender reply).setToSend [reply]) := by
    show dropAndSend s (logonMsg s false) = _
    unfold dropAndSend prep prepCore
    simp only [hk, hr, if_true, Bool.false_eq_true, if_false]
    rfl
  rw [this]
  unfold sendQueued Sess.persistOut
  cases hp : s.cfg.persist <;> cases ho : s.out <;>
    simp [Sess.setToSend, Sess.emit, hp, ho, reply, logonMsg_kind]


/-! ### sending does not touch the expected inbound number -/

theorem persistOut_target (s : Sess) (n : Int) (m : OutMsg) : (s.persistOut n m).store.target = s.store.target := by
  unfold Sess.persistOut; split <;> rfl

theorem sendQueued_store (s : Sess) : (sendQueued s).store = s.store := by
  unfold sendQueued; split <;> rfl

theorem prep_target (s : Sess) (m : OutMsg) (h : resetLogon m = false) : (prep s m).2.store.target = s.store.target := by
  have h : resetLogon (stamp s m) = false := by rw [resetLogon_stamp]; exact h
  unfold prep
  generalize stamp s m = m at h
  unfold prepCore
  simp only []
  split
  · split
    · rename_i hc; unfold resetLogon at h; rw [h] at hc; cases hc
    · exact persistOut_target _ _ _
  · split
    · rfl
    · exact persistOut_target _ _ _

theorem queueForSend_target (s : Sess) (m : OutMsg) (h : resetLogon m = false) : (queueForSend s m).store.target = s.store.target := by
  have hp := prep_target s m h
  unfold queueForSend
  generalize prep s m = r at hp
  obtain ⟨o, s'⟩ := r
  cases o <;> exact hp

theorem sendInReplyTo_target (s : Sess) (m : OutMsg) (h : resetLogon m = false) : (sendInReplyTo s m).store.target = s.store.target := by
  unfold sendInReplyTo
  split
  · exact queueForSend_target s _ (by rw [resetLogon_asNew]; exact h)
  · have hp := prep_target s m h
    generalize prep s m = r at hp
    obtain ⟨o, s'⟩ := r
    cases o with
    | none => exact hp
    | some m' =>
      show (sendQueued _).store.target = _
      rw [sendQueued_store]; exact hp

theorem doReject_target (s : Sess) (m : InMsg) (r : Nat) (t : Option Nat) (b : Bool) : (doReject s m r t b).store.target = s.store.target :=
  sendInReplyTo_target s _ (resetLogon_rejectMsg _ _ _ _ _)

/-! ## ResetSeqTime (CheckResetTime) -/

/-- the crossing test, as arithmetic: today's reset instant lies in (last check, now] -/
theorem crossedReset_iff (rs : Nat) (last now : Int) :
    crossedReset rs last now = true ↔ last < resetInstant rs now ∧ resetInstant rs now ≤ now := by
  unfold crossedReset
  simp

/-- today's reset instant is the configured second of the (UTC) day `now` lies in -/
theorem resetInstant_day (rs : Nat) (now : Int) (h : rs < 86400) :
    resetInstant rs now / 86400 = now / 86400 ∧ resetInstant rs now % 86400 = rs := by
  unfold resetInstant
  omega

/-- the taken branch of CheckResetTime -/
theorem checkResetTime_crossed (s : Sess) (now last : Int) (rs : Nat) (hrs : s.cfg.resetSeqTime = some rs)
    (hl : s.lastCheckedReset = some last) (hc : s.st.connected = true) (hx : crossedReset rs last now = true) :
    checkResetTime s now = (sendLogonInReplyTo s true).setLastChecked now := by
  unfold checkResetTime
  simp only [hrs, hl, hc, hx, Bool.not_true, Bool.false_eq_true, if_false, if_true]

/-- every other branch: only the clock of the last check may change -/
theorem checkResetTime_quiet (s : Sess) (now : Int)
    (h : s.cfg.resetSeqTime = none ∨ s.lastCheckedReset = none ∨ s.st.connected = false
         ∨ (∀ rs last, s.cfg.resetSeqTime = some rs → s.lastCheckedReset = some last → crossedReset rs last now = false)) :
    checkResetTime s now = s ∨ checkResetTime s now = s.setLastChecked now := by
  unfold checkResetTime
  split
  · exact Or.inl rfl
  · rename_i rs hrs
    split
    · exact Or.inr rfl
    · rename_i last hl
      split
      · exact Or.inr rfl
      · rename_i hc
        rcases h with h | h | h | h
        · rw [h] at hrs; cases hrs
        · rw [h] at hl; cases hl
        · rw [h] at hc; simp at hc
        · rw [h rs last hrs hl]; exact Or.inr rfl

theorem checkResetTime_records (s : Sess) (now : Int) (rs : Nat) (hrs : s.cfg.resetSeqTime = some rs) :
    (checkResetTime s now).lastCheckedReset = some now := by
  unfold checkResetTime
  simp only [hrs]
  repeat' split
  all_goals rfl

end Qfx.Sess
