/-
  Dictionary-guided parse of messages that are ANY sequence of plain fields and repeating groups (any depth): a group may be followed by a
  plain body field, by a header or trailer field (classified by the TRANSPORT dictionary), directly by the count field of another
  group, or by CheckSum.  Result: the section maps are EXACTLY the additions in wire order (`parse_dict_items`, `itmAdds`, `applyAdds`).
-/
import Qfx.Lemmas.CodecDictNest
import Qfx.Lemmas.CodecAnyDict
namespace Qfx
open Qfx.Spec

variable {d : Dicts}

/-- the loop state after the field `tv` at `idx` has closed the group whose count field sits at `j`: the group goes to the body, `tv` to
    the section the TRANSPORT dictionary / the built-in tag lists assign it -/
def exitAdd (d : Dicts) (idx j : Nat) (g0 tv : TagValue) (c : PCore) : PCore :=
  if isHeaderField d tv.tag then
    { c with body := c.body.add g0.tag (.view j (idx - j)), header := c.header.add tv.tag (.view idx 1) }
  else if isTrailerField d tv.tag then
    { c with body := c.body.add g0.tag (.view j (idx - j)), trailer := c.trailer.add tv.tag (.view idx 1), foundTrailer := true }
  else
    { c with trailerBytes := c.rawBytes, body := (c.body.add g0.tag (.view j (idx - j))).add tv.tag (.view idx 1) }

/-- a field that is not a member of the innermost level and ends the group: a header field, a trailer field, or a body field that no
    enclosing level lists and that starts no group -/
def EndsGroup (d : Dicts) (st : List Level) (t : Tag) : Prop :=
  isGroupMember t (lastGf st) = false ∧
  (isHeaderField d t = true ∨ isTrailerField d t = true ∨ (NoGroupTag d t ∧ stepSpec st t = none))

theorem parseLoop_exit_any {mt : Bytes} {fs : List DNode} (ha : AppMsg d mt fs) (st : List Level) (hres : Resolves fs st)
    (fields : List TagValue) (idx j : Nat) (c : PCore) (tv g0 t35 : TagValue) (raw' : Bytes)
    (hidx : idx < fields.length) (hmt : MTInv (fields.set idx tv) c.header t35) (hv : t35.value = mt)
    (hj : (fields.set idx tv)[j]? = some g0) (hex : extractField c.rawBytes = (raw', .ok tv))
    (hend : EndsGroup d st tv.tag) (h10 : tv.tag ≠ 10) (h212 : tv.tag ≠ 212) :
    parseLoop Fixes.cur d (.grp j (stackTags st) (lastGf st)) fields idx c =
      parseLoop Fixes.cur d .main (fields.set idx tv) (idx + 1) (ndTail (exitAdd d idx j g0 tv { c with rawBytes := raw' })) := by
  obtain ⟨hm, hkind⟩ := hend
  have hidxR : idxR (fields.set idx tv) j = .ok g0 := by simp [idxR, hj]
  by_cases hh : isHeaderField d tv.tag = true
  · rw [parseLoop]
    simp only [hidx, dite_true, hex]
    simp only [grpSwitch, hm, hh, Fixes.cur, if_true, Bool.false_eq_true, if_false, addDm, hidxR, tailStep_nd _ _ _ h10 h212, exitAdd]
  · have hh' : isHeaderField d tv.tag = false := by simpa using hh
    by_cases ht : isTrailerField d tv.tag = true
    · rw [parseLoop]
      simp only [hidx, dite_true, hex]
      simp only [grpSwitch, hm, hh', ht, Fixes.cur, if_true, Bool.false_eq_true, if_false, addDm, hidxR, tailStep_nd _ _ _ h10 h212, exitAdd]
    · have ht' : isTrailerField d tv.tag = false := by simpa using ht
      rcases hkind with e | e | ⟨hng, hstep⟩
      · exact absurd e hh
      · exact absurd e ht
      · rw [parseLoop_exit_stack ha st hres fields idx j c tv g0 t35 raw' hidx hmt hv hj hex hstep hh' ht' hng h10 h212]
        simp only [exitAdd, hh', ht', Bool.false_eq_true, if_false]

/-- the count field of ANOTHER top-level group directly behind a group: the first group goes to the body, `parseGroup` goes on with the new one -/
theorem parseLoop_next_group (fields : List TagValue) (idx j : Nat) (c : PCore) (tv g0 : TagValue) (raw' : Bytes) (tags : List Tag)
    (gf gf' : List DNode)
    (hidx : idx < fields.length) (hj : (fields.set idx tv)[j]? = some g0) (hex : extractField c.rawBytes = (raw', .ok tv))
    (hm : isGroupMember tv.tag gf = false) (hh : isHeaderField d tv.tag = false) (ht : isTrailerField d tv.tag = false)
    (hnum : isNumInGroupField d (fields.set idx tv) c.header [tv.tag] = true)
    (hgf : getGroupFields d (fields.set idx tv) c.header [tv.tag] = gf') :
    parseLoop Fixes.cur d (.grp j tags gf) fields idx c =
      parseLoop Fixes.cur d (.grp idx [tv.tag] gf') (fields.set idx tv) (idx + 1)
        { c with rawBytes := raw', trailerBytes := raw', body := c.body.add g0.tag (.view j (idx - j)) } := by
  have hidxR : idxR (fields.set idx tv) j = .ok g0 := by simp [idxR, hj]
  rw [parseLoop]
  simp only [hidx, dite_true, hex]
  simp only [grpSwitch, hm, hh, ht, hnum, hgf, Fixes.cur, if_true, Bool.false_eq_true, if_false, addDm, hidxR]


/-! ## messages as sequences of plain fields and groups, in any order and adjacency -/

inductive Itm where
  | plain (tv : TagValue)
  | group (g0 : TagValue) (M : List TagValue)

def Itm.flat : Itm → List TagValue
  | .plain tv => [tv]
  | .group g0 M => g0 :: M

def flatItms (l : List Itm) : List TagValue := l.flatMap Itm.flat

/-- the group `parseGroup` is collecting: index of its count field, the count field -/
abbrev Pend := Option (Nat × TagValue)

def stepItm (d : Dicts) (idx : Nat) (p : Pend) (it : Itm) (rest : Bytes) (c : PCore) : PCore × Pend :=
  match it, p with
  | .plain tv, none => (ndTail (ndSwitchD d idx tv { c with rawBytes := rest }), none)
  | .plain tv, some (j, g0) => (ndTail (exitAdd d idx j g0 tv { c with rawBytes := rest }), none)
  | .group g0 M, none =>
    (memState { c with rawBytes := wireOf M ++ rest, foundBody := true, trailerBytes := wireOf M ++ rest } M rest, some (idx, g0))
  | .group g0 M, some (j, g') =>
    (memState { c with rawBytes := wireOf M ++ rest, trailerBytes := wireOf M ++ rest,
                       body := c.body.add g'.tag (.view j (idx - j)) } M rest, some (idx, g0))

def runItms (d : Dicts) : Nat → Pend → List Itm → Bytes → PCore → PCore × Pend
  | _, p, [], _, c => (c, p)
  | idx, p, it :: r, tail, c =>
    runItms d (idx + it.flat.length) (stepItm d idx p it (wireOf (flatItms r) ++ tail) c).2 r tail
      (stepItm d idx p it (wireOf (flatItms r) ++ tail) c).1

def modeOf (s : Option (List Level)) (p : Pend) : Mode :=
  match s, p with
  | some st, some (j, _) => .grp j (stackTags st) (lastGf st)
  | _, _ => .main

/-- parser stack and pending group agree -/
def Sync (fs : List DNode) (s : Option (List Level)) (p : Pend) (fields : List TagValue) (idx : Nat) : Prop :=
  match s, p with
  | none, none => True
  | some st, some (j, g0) => Resolves fs st ∧ j < idx ∧ fields[j]? = some g0
  | _, _ => False

/-- a plain field in the main loop -/
structure PlainOK (d : Dicts) (tv : TagValue) : Prop where
  wire : IsWire tv
  n10 : tv.tag ≠ 10
  n212 : tv.tag ≠ 212
  n9 : tv.tag ≠ 9
  n35 : tv.tag ≠ 35
  ng : NoGroupTag d tv.tag

/-- WHICH SEQUENCES: plain fields and groups of the message type's field list `fs` in any order — a group may be followed by a plain body
    field that no level of it lists, by a header or trailer field, or directly by the count field of another group.  The index threads the
    parser's tag stack (`none` = main loop). -/
inductive ItemsOK (d : Dicts) (fs : List DNode) : Option (List Level) → List Itm → Option (List Level) → Prop where
  | nil (s : Option (List Level)) : ItemsOK d fs s [] s
  | plainMain {tv r s'} : PlainOK d tv → ItemsOK d fs none r s' → ItemsOK d fs none (.plain tv :: r) s'
  | plainExit {st tv r s'} : IsWire tv → tv.tag ≠ 10 → tv.tag ≠ 212 → tv.tag ≠ 35 → tv.tag ≠ 9 → EndsGroup d st tv.tag →
      ItemsOK d fs none r s' → ItemsOK d fs (some st) (.plain tv :: r) s'
  | groupMain {g0 M C st' r s'} : IsWire g0 → isHeaderField d g0.tag = false → isTrailerField d g0.tag = false →
      groupOf fs g0.tag = some C → WalkN d [(g0.tag, C)] M st' → ItemsOK d fs (some st') r s' →
      ItemsOK d fs none (.group g0 M :: r) s'
  | groupAdj {st g0 M C st' r s'} : IsWire g0 → isHeaderField d g0.tag = false → isTrailerField d g0.tag = false →
      isGroupMember g0.tag (lastGf st) = false →
      groupOf fs g0.tag = some C → WalkN d [(g0.tag, C)] M st' → ItemsOK d fs (some st') r s' →
      ItemsOK d fs (some st) (.group g0 M :: r) s'

theorem flatItms_cons (it : Itm) (r : List Itm) : flatItms (it :: r) = it.flat ++ flatItms r := by simp [flatItms]

theorem exitAdd_keeps (idx j : Nat) (g0 tv : TagValue) (c : PCore) (h35 : tv.tag ≠ 35) :
    (exitAdd d idx j g0 tv c).rawBytes = c.rawBytes ∧ (exitAdd d idx j g0 tv c).xmlDataLen = c.xmlDataLen ∧
    (exitAdd d idx j g0 tv c).xmlDataMsg = c.xmlDataMsg ∧
    alFind (exitAdd d idx j g0 tv c).header.lookup 35 = alFind c.header.lookup 35 := by
  unfold exitAdd
  split
  · exact ⟨rfl, rfl, rfl, by simp only [FieldMap.add]; exact alFind_insert_other _ _ _ _ (Ne.symm h35)⟩
  · split <;> exact ⟨rfl, rfl, rfl, rfl⟩

theorem itms_loop {mt : Bytes} {fs : List DNode} (ha : AppMsg d mt fs) (t35 : TagValue) (hv : t35.value = mt)
    {s s' : Option (List Level)} {items : List Itm} (hok : ItemsOK d fs s items s') :
    ∀ (fields : List TagValue) (idx : Nat) (c : PCore) (p : Pend) (tail : Bytes),
    Sync fs s p fields idx → MTInv fields c.header t35 → 3 ≤ idx → c.xmlDataLen = 0 →
    c.rawBytes = wireOf (flatItms items) ++ tail → idx + (flatItms items).length ≤ fields.length →
    parseLoop Fixes.cur d (modeOf s p) fields idx c =
      parseLoop Fixes.cur d (modeOf s' (runItms d idx p items tail c).2) (setRange fields idx (flatItms items))
        (idx + (flatItms items).length) (runItms d idx p items tail c).1 ∧
    Sync fs s' (runItms d idx p items tail c).2 (setRange fields idx (flatItms items)) (idx + (flatItms items).length) ∧
    MTInv (setRange fields idx (flatItms items)) (runItms d idx p items tail c).1.header t35 ∧
    (runItms d idx p items tail c).1.xmlDataLen = 0 ∧ (runItms d idx p items tail c).1.xmlDataMsg = c.xmlDataMsg ∧
    (runItms d idx p items tail c).1.rawBytes = tail := by
  induction hok with
  | nil s =>
    intro fields idx c p tail hsync hmt _ hx hraw _
    exact ⟨by simp [flatItms, setRange, runItms], by simpa [flatItms, setRange, runItms] using hsync,
      by simpa [flatItms, setRange, runItms] using hmt, by simpa [runItms] using hx, by simp [runItms],
      by simpa [flatItms, wireOf, runItms] using hraw⟩
  | @plainMain tv r s' hp _ ih =>
    intro fields idx c p tail hsync hmt hi hx hraw hlen
    cases p with
    | some q => exact absurd hsync (by simp [Sync])
    | none =>
      rw [flatItms_cons] at hraw hlen
      simp only [Itm.flat, List.length_append, List.length_cons, List.length_nil] at hlen
      have hraw' : c.rawBytes = wireOf [tv] ++ (wireOf (flatItms r) ++ tail) := by
        rw [hraw]; simp [Itm.flat, wireOf, List.append_assoc]
      have h1 := parseLoop_prefixD (d := d) Fixes.cur [tv] fields idx c (wireOf (flatItms r) ++ tail)
        (fun x hx' => by simp only [List.mem_singleton] at hx'; subst hx'; exact ⟨hp.wire, hp.n10, hp.n212⟩)
        (fun x hx' => by simp only [List.mem_singleton] at hx'; subst hx'; exact hp.ng) hx hraw' (by simp; omega)
      have hc1 : runNDD d idx [tv] (wireOf (flatItms r) ++ tail) c = ndTail (ndSwitchD d idx tv { c with rawBytes := wireOf (flatItms r) ++ tail }) := by
        simp [runNDD, wireOf]
      rw [hc1] at h1
      generalize hcc : ndTail (ndSwitchD d idx tv { c with rawBytes := wireOf (flatItms r) ++ tail }) = c1 at h1
      have hc1raw : c1.rawBytes = wireOf (flatItms r) ++ tail := by rw [← hcc, (ndTail_raw _).1, (ndSwitchD_raw _ _ _).1]
      have hc1x : c1.xmlDataLen = 0 := by rw [← hcc, (ndTail_raw _).2.1, (ndSwitchD_raw _ _ _).2.1]; exact hx
      have hc1xm : c1.xmlDataMsg = c.xmlDataMsg := by rw [← hcc, (ndTail_raw _).2.2.1, (ndSwitchD_raw _ _ _).2.2]
      have hmt1 : MTInv (setRange fields idx [tv]) c1.header t35 := by
        refine MTInv.setRange ⟨?_, hmt.2⟩ idx _ hi
        rw [← hcc, (ndTail_raw _).2.2.2.1, ndSwitchD_header_find _ _ _ _ hp.n35]; exact hmt.1
      obtain ⟨e1, e2, e3, e4, e5, e6⟩ := ih (setRange fields idx [tv]) (idx + 1) c1 none tail trivial hmt1 (by omega) hc1x hc1raw
        (by rw [setRange_length]; omega)
      have hrun : runItms d idx none (.plain tv :: r) tail c = runItms d (idx + 1) none r tail c1 := by
        simp only [runItms, stepItm, Itm.flat, List.length_cons, List.length_nil]; rw [hcc]
      have hset : setRange fields idx (flatItms (.plain tv :: r)) = setRange (setRange fields idx [tv]) (idx + 1) (flatItms r) := by
        rw [flatItms_cons]; simp only [Itm.flat]; rw [setRange_append]; rfl
      have hlen2 : idx + (flatItms (.plain tv :: r)).length = idx + 1 + (flatItms r).length := by
        rw [flatItms_cons]; simp [Itm.flat]; omega
      rw [hrun, hset, hlen2]
      refine ⟨?_, e2, e3, e4, by rw [e5, hc1xm], e6⟩
      show parseLoop Fixes.cur d .main fields idx c = _
      rw [h1]
      exact e1
  | @plainExit st tv r s' hw h10 h212 h35 h9 hend _ ih =>
    intro fields idx c p tail hsync hmt hi hx hraw hlen
    cases p with
    | none => exact absurd hsync (by simp [Sync])
    | some q =>
      obtain ⟨j, g0⟩ := q
      obtain ⟨hres, hj, hfj⟩ := hsync
      rw [flatItms_cons] at hraw hlen
      simp only [Itm.flat, List.length_append, List.length_cons, List.length_nil] at hlen
      have hex : extractField c.rawBytes = (wireOf (flatItms r) ++ tail, .ok tv) := by
        rw [hraw]
        have : wireOf ([tv] ++ flatItms r) ++ tail = tv.bytes ++ (wireOf (flatItms r) ++ tail) := by simp [wireOf, List.append_assoc]
        simp only [Itm.flat]; rw [this]; exact extractField_wire tv _ hw
      have hidx : idx < fields.length := by omega
      have hmt' : MTInv (fields.set idx tv) c.header t35 := hmt.set idx tv hi
      have hfj' : (fields.set idx tv)[j]? = some g0 := by rw [List.getElem?_set_ne (by omega)]; exact hfj
      have h1 := parseLoop_exit_any ha st hres fields idx j c tv g0 t35 _ hidx hmt' hv hfj' hex hend h10 h212
      generalize hcc : ndTail (exitAdd d idx j g0 tv { c with rawBytes := wireOf (flatItms r) ++ tail }) = c1 at h1
      obtain ⟨k1, k2, k3, k4⟩ := exitAdd_keeps (d := d) idx j g0 tv { c with rawBytes := wireOf (flatItms r) ++ tail } h35
      have hc1raw : c1.rawBytes = wireOf (flatItms r) ++ tail := by rw [← hcc, (ndTail_raw _).1, k1]
      have hc1x : c1.xmlDataLen = 0 := by rw [← hcc, (ndTail_raw _).2.1, k2]; exact hx
      have hc1xm : c1.xmlDataMsg = c.xmlDataMsg := by rw [← hcc, (ndTail_raw _).2.2.1, k3]
      have hmt1 : MTInv (fields.set idx tv) c1.header t35 := by
        refine ⟨?_, hmt'.2⟩
        rw [← hcc, (ndTail_raw _).2.2.2.1, k4]; exact hmt.1
      obtain ⟨e1, e2, e3, e4, e5, e6⟩ := ih (fields.set idx tv) (idx + 1) c1 none tail trivial hmt1 (by omega) hc1x hc1raw
        (by simp; omega)
      have hrun : runItms d idx (some (j, g0)) (.plain tv :: r) tail c = runItms d (idx + 1) none r tail c1 := by
        simp only [runItms, stepItm, Itm.flat, List.length_cons, List.length_nil]; rw [hcc]
      have hset : setRange fields idx (flatItms (.plain tv :: r)) = setRange (fields.set idx tv) (idx + 1) (flatItms r) := by
        rw [flatItms_cons]; simp only [Itm.flat]; rw [setRange_append]; rfl
      have hlen2 : idx + (flatItms (.plain tv :: r)).length = idx + 1 + (flatItms r).length := by
        rw [flatItms_cons]; simp [Itm.flat]; omega
      rw [hrun, hset, hlen2]
      refine ⟨?_, e2, e3, e4, by rw [e5, hc1xm], e6⟩
      show parseLoop Fixes.cur d (.grp j (stackTags st) (lastGf st)) fields idx c = _
      rw [h1]
      exact e1
  | @groupMain g0 M C st' r s' hw hgh hgt hgC hW _ ih =>
    intro fields idx c p tail hsync hmt hi hx hraw hlen
    cases p with
    | some q => exact absurd hsync (by simp [Sync])
    | none =>
      rw [flatItms_cons] at hraw hlen
      simp only [Itm.flat, List.length_append, List.length_cons] at hlen
      have hraw' : c.rawBytes = wireOf [] ++ (g0.bytes ++ (wireOf M ++ (wireOf (flatItms r) ++ tail))) := by
        rw [hraw]; simp [Itm.flat, wireOf, List.append_assoc]
      obtain ⟨h1, hres'⟩ := main_to_walkN ha hgC t35 g0 [] M st' hW (wireOf (flatItms r) ++ tail) fields idx c hv
        (by intro x hx'; cases hx') hw rfl hgh hgt hmt hi hx hraw' (by simp; omega)
      simp only [List.length_nil, Nat.add_zero, List.nil_append, runNDD] at h1
      obtain ⟨m1, m2, m3, m4, m5, _⟩ := memState_keeps ({ c with rawBytes := wireOf M ++ (wireOf (flatItms r) ++ tail), foundBody := true, trailerBytes := wireOf M ++ (wireOf (flatItms r) ++ tail) } : PCore) M (wireOf (flatItms r) ++ tail)
      generalize hcc : memState ({ c with rawBytes := wireOf M ++ (wireOf (flatItms r) ++ tail), foundBody := true, trailerBytes := wireOf M ++ (wireOf (flatItms r) ++ tail) } : PCore) M (wireOf (flatItms r) ++ tail) = c1 at h1 m1 m4 m5
      have hc1raw : c1.rawBytes = wireOf (flatItms r) ++ tail := by rw [← hcc]; exact memState_raw _ _ _ rfl
      have hflen : idx < (setRange fields idx (g0 :: M)).length := by rw [setRange_length]; omega
      have hmt1 : MTInv (setRange fields idx (g0 :: M)) c1.header t35 := by
        rw [m1]; exact hmt.setRange idx _ hi
      have hsync1 : Sync fs (some st') (some (idx, g0)) (setRange fields idx (g0 :: M)) (idx + 1 + M.length) := by
        refine ⟨hres', by omega, ?_⟩
        have := setRange_getElem_self fields idx [] g0 M (by simp; omega)
        simpa using this
      obtain ⟨e1, e2, e3, e4, e5, e6⟩ := ih (setRange fields idx (g0 :: M)) (idx + 1 + M.length) c1 (some (idx, g0)) tail hsync1 hmt1
        (by omega) (by rw [m4]; exact hx) hc1raw (by rw [setRange_length]; omega)
      have hrun : runItms d idx none (.group g0 M :: r) tail c = runItms d (idx + 1 + M.length) (some (idx, g0)) r tail c1 := by
        simp only [runItms, stepItm, Itm.flat, List.length_cons]; rw [hcc]
        congr 1; omega
      have hset : setRange fields idx (flatItms (.group g0 M :: r)) = setRange (setRange fields idx (g0 :: M)) (idx + 1 + M.length) (flatItms r) := by
        rw [flatItms_cons]; simp only [Itm.flat]; rw [setRange_append]; congr 1; simp; omega
      have hlen2 : idx + (flatItms (.group g0 M :: r)).length = idx + 1 + M.length + (flatItms r).length := by
        rw [flatItms_cons]; simp [Itm.flat]; omega
      rw [hrun, hset, hlen2]
      refine ⟨?_, e2, e3, e4, by rw [e5, m5], e6⟩
      show parseLoop Fixes.cur d .main fields idx c = _
      rw [h1]
      exact e1
  | @groupAdj st g0 M C st' r s' hw hgh hgt hnm hgC hW _ ih =>
    intro fields idx c p tail hsync hmt hi hx hraw hlen
    cases p with
    | none => exact absurd hsync (by simp [Sync])
    | some q =>
      obtain ⟨j, g'⟩ := q
      obtain ⟨hres, hj, hfj⟩ := hsync
      rw [flatItms_cons] at hraw hlen
      simp only [Itm.flat, List.length_append, List.length_cons] at hlen
      have hex : extractField c.rawBytes = (wireOf M ++ (wireOf (flatItms r) ++ tail), .ok g0) := by
        rw [hraw]
        have : wireOf (g0 :: M ++ flatItms r) ++ tail = g0.bytes ++ (wireOf M ++ (wireOf (flatItms r) ++ tail)) := by
          simp [wireOf, List.append_assoc]
        simp only [Itm.flat]; rw [this]; exact extractField_wire g0 _ hw
      have hidx : idx < fields.length := by omega
      have hmt' : MTInv (fields.set idx g0) c.header t35 := hmt.set idx g0 hi
      have hfj' : (fields.set idx g0)[j]? = some g' := by rw [List.getElem?_set_ne (by omega)]; exact hfj
      have hmf := appMsg_fields ha (fields.set idx g0) c.header t35 hmt' hv
      have h1 := parseLoop_next_group (d := d) fields idx j c g0 g' _ (stackTags st) (lastGf st) C hidx hfj' hex hnm hgh hgt
        (by simp only [isNumInGroupField, hmf, pathWalk_single, hgC, Option.isSome_some])
        (by simp only [getGroupFields, hmf, pathWalk_single, hgC])
      obtain ⟨h2, hres'⟩ := walkN_loop (d := d) ha t35 hv idx hW (fields.set idx g0) (idx + 1) ({ c with rawBytes := wireOf M ++ (wireOf (flatItms r) ++ tail), trailerBytes := wireOf M ++ (wireOf (flatItms r) ++ tail), body := c.body.add g'.tag (.view j (idx - j)) } : PCore) (wireOf (flatItms r) ++ tail)
        (by simpa [Resolves] using hgC) hmt' (by omega) rfl (by simp; omega)
      obtain ⟨m1, m2, m3, m4, m5, _⟩ := memState_keeps ({ c with rawBytes := wireOf M ++ (wireOf (flatItms r) ++ tail), trailerBytes := wireOf M ++ (wireOf (flatItms r) ++ tail), body := c.body.add g'.tag (.view j (idx - j)) } : PCore) M (wireOf (flatItms r) ++ tail)
      generalize hcc : memState ({ c with rawBytes := wireOf M ++ (wireOf (flatItms r) ++ tail), trailerBytes := wireOf M ++ (wireOf (flatItms r) ++ tail), body := c.body.add g'.tag (.view j (idx - j)) } : PCore) M (wireOf (flatItms r) ++ tail) = c1 at h2 m1 m4 m5
      have hc1raw : c1.rawBytes = wireOf (flatItms r) ++ tail := by rw [← hcc]; exact memState_raw _ _ _ rfl
      have hsr : setRange (fields.set idx g0) (idx + 1) M = setRange fields idx (g0 :: M) := rfl
      have hmt1 : MTInv (setRange fields idx (g0 :: M)) c1.header t35 := by
        rw [m1]; exact hmt.setRange idx _ hi
      have hsync1 : Sync fs (some st') (some (idx, g0)) (setRange fields idx (g0 :: M)) (idx + 1 + M.length) := by
        refine ⟨hres', by omega, ?_⟩
        have := setRange_getElem_self fields idx [] g0 M (by simp; omega)
        simpa using this
      obtain ⟨e1, e2, e3, e4, e5, e6⟩ := ih (setRange fields idx (g0 :: M)) (idx + 1 + M.length) c1 (some (idx, g0)) tail hsync1 hmt1
        (by omega) (by rw [m4]; exact hx) hc1raw (by rw [setRange_length]; omega)
      have hrun : runItms d idx (some (j, g')) (.group g0 M :: r) tail c = runItms d (idx + 1 + M.length) (some (idx, g0)) r tail c1 := by
        simp only [runItms, stepItm, Itm.flat, List.length_cons]; rw [hcc]
        congr 1; omega
      have hset : setRange fields idx (flatItms (.group g0 M :: r)) = setRange (setRange fields idx (g0 :: M)) (idx + 1 + M.length) (flatItms r) := by
        rw [flatItms_cons]; simp only [Itm.flat]; rw [setRange_append]; congr 1; simp; omega
      have hlen2 : idx + (flatItms (.group g0 M :: r)).length = idx + 1 + M.length + (flatItms r).length := by
        rw [flatItms_cons]; simp [Itm.flat]; omega
      rw [hrun, hset, hlen2]
      refine ⟨?_, e2, e3, e4, by rw [e5, m5], e6⟩
      show parseLoop Fixes.cur d (.grp j (stackTags st) (lastGf st)) fields idx c = _
      rw [h1]
      show parseLoop Fixes.cur d (.grp idx (stackTags [(g0.tag, C)]) (lastGf [(g0.tag, C)])) _ _ _ = _
      rw [h2, hsr]
      exact e1


/-! ## the section maps: exactly the additions in wire order -/

/-- one `FieldMap.add`: section, tag, field -/
abbrev SAdd := Sec × Tag × Field

def secAdd (s : Sec) (fm : FieldMap) (a : SAdd) : FieldMap := if a.1 = s then fm.add a.2.1 a.2.2 else fm

def applyAdds (s : Sec) (l : List SAdd) (fm : FieldMap) : FieldMap := l.foldl (secAdd s) fm

/-- what a sequence starting at field index `idx` adds, in wire order: a plain field goes to the section of its tag as a one-field view, a
    group to the body as ONE view over its count field and all its member fields (the members add nothing) -/
def itmAdds (d : Dicts) : Nat → List Itm → List SAdd
  | _, [] => []
  | idx, .plain tv :: r => (secOf d tv.tag, tv.tag, .view idx 1) :: itmAdds d (idx + 1) r
  | idx, .group g0 M :: r => (.b, g0.tag, .view idx (1 + M.length)) :: itmAdds d (idx + 1 + M.length) r

/-- the sections as they will be once the pending group has been added -/
def effSec (c : PCore) (p : Pend) (idx : Nat) (s : Sec) : FieldMap :=
  match p with
  | some (j, g0) => secAdd s (c.sec s) (.b, g0.tag, .view j (idx - j))
  | none => c.sec s

theorem ndSwitchD_sec (idx : Nat) (tv : TagValue) (c : PCore) (s : Sec) :
    (ndSwitchD d idx tv c).sec s = secAdd s (c.sec s) (secOf d tv.tag, tv.tag, .view idx 1) := by
  unfold ndSwitchD secOf secAdd
  by_cases hh : isHeaderField d tv.tag = true
  · simp only [hh, if_true]; cases s <;> simp [PCore.sec]
  · by_cases ht : isTrailerField d tv.tag = true
    · simp only [hh, ht, if_true, if_false]; cases s <;> simp [PCore.sec]
    · simp only [hh, ht, if_false]; cases s <;> simp [PCore.sec]

theorem exitAdd_sec (idx j : Nat) (g0 tv : TagValue) (c : PCore) (s : Sec) :
    (exitAdd d idx j g0 tv c).sec s = secAdd s (secAdd s (c.sec s) (.b, g0.tag, .view j (idx - j))) (secOf d tv.tag, tv.tag, .view idx 1) := by
  unfold exitAdd secOf secAdd
  by_cases hh : isHeaderField d tv.tag = true
  · simp only [hh, if_true]; cases s <;> simp [PCore.sec]
  · by_cases ht : isTrailerField d tv.tag = true
    · simp only [hh, ht, if_true, if_false]; cases s <;> simp [PCore.sec]
    · simp only [hh, ht, if_false]; cases s <;> simp [PCore.sec]

theorem memState_sec (c : PCore) (M : List TagValue) (tail : Bytes) (s : Sec) : (memState c M tail).sec s = c.sec s := by
  obtain ⟨k1, k2, k3, _⟩ := memState_keeps c M tail
  cases s
  · exact k1
  · exact k2
  · exact k3

theorem runItms_sec (s : Sec) : ∀ (items : List Itm) (idx : Nat) (p : Pend) (tail : Bytes) (c : PCore),
    effSec (runItms d idx p items tail c).1 (runItms d idx p items tail c).2 (idx + (flatItms items).length) s =
      applyAdds s (itmAdds d idx items) (effSec c p idx s) := by
  intro items
  induction items with
  | nil => intro idx p tail c; simp [runItms, flatItms, itmAdds, applyAdds]
  | cons it r ih =>
    intro idx p tail c
    have hlen : idx + (flatItms (it :: r)).length = idx + it.flat.length + (flatItms r).length := by
      rw [flatItms_cons, List.length_append]; omega
    simp only [runItms]
    rw [hlen, ih]
    cases it with
    | plain tv =>
      cases p with
      | none =>
        simp only [stepItm, itmAdds, applyAdds, List.foldl_cons, effSec, Itm.flat, List.length_cons, List.length_nil]
        rw [ndTail_sec, ndSwitchD_sec]
        rfl
      | some q =>
        obtain ⟨j, g0⟩ := q
        simp only [stepItm, itmAdds, applyAdds, List.foldl_cons, effSec, Itm.flat, List.length_cons, List.length_nil]
        rw [ndTail_sec, exitAdd_sec]
        rfl
    | group g0 M =>
      cases p with
      | none =>
        simp only [stepItm, itmAdds, applyAdds, List.foldl_cons, effSec, Itm.flat, List.length_cons]
        rw [memState_sec]
        have e : idx + (M.length + 1) - idx = 1 + M.length := by omega
        have e2 : idx + (M.length + 1) = idx + 1 + M.length := by omega
        rw [e, e2]
        cases s <;> rfl
      | some q =>
        obtain ⟨j, g'⟩ := q
        simp only [stepItm, itmAdds, applyAdds, List.foldl_cons, effSec, Itm.flat, List.length_cons]
        rw [memState_sec]
        have e : idx + (M.length + 1) - idx = 1 + M.length := by omega
        have e2 : idx + (M.length + 1) = idx + 1 + M.length := by omega
        rw [e, e2]
        cases s <;> simp [secAdd, PCore.sec]

theorem applyAdds_append (s : Sec) (a b : List SAdd) (fm : FieldMap) : applyAdds s (a ++ b) fm = applyAdds s b (applyAdds s a fm) := by
  simp [applyAdds, List.foldl_append]

theorem applyAdds_find_absent (s : Sec) (k : Tag) : ∀ (l : List SAdd) (fm : FieldMap), (∀ a ∈ l, ¬ (a.1 = s ∧ a.2.1 = k)) →
    alFind (applyAdds s l fm).lookup k = alFind fm.lookup k := by
  intro l
  induction l with
  | nil => intro fm _; rfl
  | cons a r ih =>
    intro fm h
    simp only [applyAdds, List.foldl_cons]
    have := ih (secAdd s fm a) (fun x hx => h x (by simp [hx]))
    simp only [applyAdds] at this
    rw [this]
    unfold secAdd
    by_cases e : a.1 = s
    · simp only [e, if_true, FieldMap.add]
      exact alFind_insert_other _ _ _ _ (fun ek => h a (by simp) ⟨e, ek.symm⟩)
    · simp [e]

/-- THE LAST ADDITION WINS: the field found under `k` in section `s` is the one added last -/
theorem applyAdds_find_last (s : Sec) (k : Tag) (f : Field) (A B : List SAdd) (fm : FieldMap)
    (hB : ∀ a ∈ B, ¬ (a.1 = s ∧ a.2.1 = k)) :
    alFind (applyAdds s (A ++ (s, k, f) :: B) fm).lookup k = some f := by
  rw [applyAdds_append]
  have : applyAdds s ((s, k, f) :: B) (applyAdds s A fm) = applyAdds s B ((applyAdds s A fm).add k f) := by
    simp [applyAdds, secAdd]
  rw [this, applyAdds_find_absent s k B _ hB]
  simp only [FieldMap.add]
  exact alFind_insert_self _ _ _


theorem parseLoop_main_10 (fields : List TagValue) (idx : Nat) (c : PCore) (t10 : TagValue) (raw' : Bytes)
    (hidx : idx < fields.length) (hx : c.xmlDataLen = 0) (hex : extractField c.rawBytes = (raw', .ok t10)) (h10 : t10.tag = 10) :
    parseLoop Fixes.cur d .main fields idx c = finishParse (fields.set idx t10) (ndSwitchD d idx t10 { c with rawBytes := raw' }) := by
  have ht : isTrailerField d t10.tag = true := by rw [h10]; simp [isTrailerField, Tag.isTrailer, staticTrailerTags]
  rw [parseLoop]
  simp only [hidx, dite_true, hx, show ¬ ((0 : Int) > 0) by decide, if_false, hex]
  by_cases hh : isHeaderField d t10.tag = true
  · simp only [mainSwitch, ndSwitchD, hh, if_true, tailStep_10 _ _ _ h10]
  · have hh' : isHeaderField d t10.tag = false := by simpa using hh
    simp only [mainSwitch, ndSwitchD, hh', ht, Bool.false_eq_true, if_true, if_false, tailStep_10 _ _ _ h10]

theorem itmAdds_no_h9 {fs : List DNode} {s s' : Option (List Level)} {items : List Itm} (hok : ItemsOK d fs s items s') :
    ∀ (idx : Nat), ∀ a ∈ itmAdds d idx items, ¬ (a.1 = Sec.h ∧ a.2.1 = 9) := by
  induction hok with
  | nil s => intro idx a ha; simp [itmAdds] at ha
  | plainMain hp _ ih =>
    intro idx a ha
    simp only [itmAdds, List.mem_cons] at ha
    rcases ha with e | e
    · subst e; intro h; exact hp.n9 h.2
    · exact ih _ a e
  | plainExit _ _ _ _ h9 _ _ ih =>
    intro idx a ha
    simp only [itmAdds, List.mem_cons] at ha
    rcases ha with e | e
    · subst e; intro h; exact h9 h.2
    · exact ih _ a e
  | groupMain _ _ _ _ _ _ ih =>
    intro idx a ha
    simp only [itmAdds, List.mem_cons] at ha
    rcases ha with e | e
    · subst e; intro h; cases h.1
    · exact ih _ a e
  | groupAdj _ _ _ _ _ _ _ ih =>
    intro idx a ha
    simp only [itmAdds, List.mem_cons] at ha
    rcases ha with e | e
    · subst e; intro h; cases h.1
    · exact ih _ a e

theorem ItemsOK.wire {fs : List DNode} {s s' : Option (List Level)} {items : List Itm} (hok : ItemsOK d fs s items s') :
    ∀ tv ∈ flatItms items, IsWire tv := by
  induction hok with
  | nil s => intro tv h; simp [flatItms] at h
  | plainMain hp _ ih =>
    intro x hx; rw [flatItms_cons] at hx; simp only [Itm.flat, List.mem_append, List.mem_singleton] at hx
    rcases hx with e | e
    · subst e; exact hp.wire
    · exact ih x e
  | plainExit hw _ _ _ _ _ _ ih =>
    intro x hx; rw [flatItms_cons] at hx; simp only [Itm.flat, List.mem_append, List.mem_singleton] at hx
    rcases hx with e | e
    · subst e; exact hw
    · exact ih x e
  | groupMain hw _ _ _ hW _ ih =>
    intro x hx; rw [flatItms_cons] at hx; simp only [Itm.flat, List.mem_append, List.mem_cons] at hx
    rcases hx with (e | e) | e
    · subst e; exact hw
    · exact hW.wire x e
    · exact ih x e
  | groupAdj hw _ _ _ _ hW _ ih =>
    intro x hx; rw [flatItms_cons] at hx; simp only [Itm.flat, List.mem_append, List.mem_cons] at hx
    rcases hx with (e | e) | e
    · subst e; exact hw
    · exact hW.wire x e
    · exact ih x e

/-- the sections right after the three leading fields -/
def initSec (t8 t9 t35 : TagValue) : Sec → FieldMap
  | .h => (((FieldMap.empty OrdKind.header).add t8.tag (Field.view 0 1)).add t9.tag (Field.view 1 1)).add t35.tag (Field.view 2 1)
  | .b => FieldMap.empty OrdKind.normal
  | .t => FieldMap.empty OrdKind.trailer

/-- the message may end inside a group only if that group does not list CheckSum -/
def ClosesOK : Option (List Level) → Prop
  | none => True
  | some st => isGroupMember 10 (lastGf st) = false

/-- PARSE WITH DICTIONARIES, ANY SEQUENCE OF PLAIN FIELDS AND GROUPS (any depth, any adjacency): the section maps are EXACTLY the
    additions in wire order -/
theorem parse_dict_items {mt : Bytes} {fs : List DNode} (ha : AppMsg d mt fs) (t8 t9 t35 t10 : TagValue) (items : List Itm)
    (s' : Option (List Level))
    (hw8 : IsWire t8) (hw9 : IsWire t9) (hw35 : IsWire t35) (hw10 : IsWire t10)
    (h8 : t8.tag = 8) (h9 : t9.tag = 9) (h35 : t35.tag = 35) (h10 : t10.tag = 10) (hv : t35.value = mt)
    (hok : ItemsOK d fs none items s') (hclose : ClosesOK s') (hh10 : isHeaderField d 10 = false)
    (hbl : atoi t9.value = .ok ((fieldsLength (t8 :: t9 :: t35 :: (flatItms items ++ [t10])) : Nat) : Int)) :
    ∃ m, parseMessage Fixes.cur d (wireOf (t8 :: t9 :: t35 :: (flatItms items ++ [t10]))) = .ok m ∧
      m.fields = t8 :: t9 :: t35 :: (flatItms items ++ [t10]) ∧
      m.raw = some (wireOf (t8 :: t9 :: t35 :: (flatItms items ++ [t10]))) ∧
      ∀ s, m.sec s = applyAdds s (itmAdds d 3 items ++ [(Sec.t, 10, Field.view (3 + (flatItms items).length) 1)]) (initSec t8 t9 t35 s) := by
  have hrestW : ∀ tv ∈ flatItms items ++ [t10], IsWire tv := by
    intro tv htv
    simp only [List.mem_append, List.mem_singleton] at htv
    rcases htv with h | e
    · exact hok.wire tv h
    · subst e; exact hw10
  rw [parseMessage_lead Fixes.cur t8 t9 t35 _ hw8 hw9 hw35 hrestW h8 h9 h35]
  have hwire : wireOf (flatItms items ++ [t10]) = wireOf (flatItms items) ++ (t10.bytes ++ []) := by simp [wireOf]
  rw [hwire]
  generalize hL : flatItms items = Lf at *
  generalize hc0 : ndInit t8 t9 t35 (wireOf Lf ++ (t10.bytes ++ [])) = c0
  have hraw0 : c0.rawBytes = wireOf Lf ++ (t10.bytes ++ []) := by rw [← hc0]; rfl
  have hx0 : c0.xmlDataLen = 0 := by rw [← hc0]; rfl
  have hxm0 : c0.xmlDataMsg = false := by rw [← hc0]; rfl
  have h35find0 : alFind c0.header.lookup 35 = some (.view 2 1) := by
    rw [← hc0]; simp [ndInit, FieldMap.add, FieldMap.empty, alInsert, alFind, h8, h9, h35]
  have hsec0 : ∀ s, c0.sec s = initSec t8 t9 t35 s := by intro s; rw [← hc0]; cases s <;> rfl
  have hlenR : (Lf ++ [t10]).length = Lf.length + 1 := by simp
  obtain ⟨hP, hsync, hmtR, hxR, hxmR, hrawR⟩ := itms_loop (d := d) ha t35 hv hok
    ([t8, t9, t35] ++ List.replicate (Lf ++ [t10]).length TagValue.zero) 3 c0 none (t10.bytes ++ [])
    trivial ⟨h35find0, by simp⟩ (by omega) hx0 (by rw [hL]; exact hraw0) (by rw [hL]; simp; omega)
  rw [hL] at hP hsync hmtR
  have hsecR := fun s => runItms_sec (d := d) s items 3 none (t10.bytes ++ []) c0
  simp only [hL] at hsecR
  generalize hr : runItms d 3 none items (t10.bytes ++ []) c0 = R at hP hsync hmtR hxR hxmR hrawR hsecR
  obtain ⟨r1, p1⟩ := R
  simp only at hP hsync hmtR hxR hxmR hrawR hsecR
  have hP' : parseLoop Fixes.cur d .main ([t8, t9, t35] ++ List.replicate (Lf ++ [t10]).length TagValue.zero) 3 c0 =
      parseLoop Fixes.cur d (modeOf s' p1) (setRange ([t8, t9, t35] ++ List.replicate (Lf ++ [t10]).length TagValue.zero) 3 Lf) (3 + Lf.length) r1 := hP
  rw [hP']
  generalize hF : setRange ([t8, t9, t35] ++ List.replicate (Lf ++ [t10]).length TagValue.zero) 3 Lf = F at hsync hmtR
  have hFlen : F.length = 3 + Lf.length + 1 := by rw [← hF, setRange_length]; simp; omega
  have hk : 3 + Lf.length < F.length := by omega
  have hFL : F.set (3 + Lf.length) t10 = t8 :: t9 :: t35 :: (Lf ++ [t10]) := by
    rw [← hF, setRange_snoc]
    have := setRange_replicate TagValue.zero (Lf ++ [t10]) [t8, t9, t35]
    simpa using this
  have hex : extractField r1.rawBytes = ([], .ok t10) := by rw [hrawR]; exact extractField_wire t10 [] hw10
  have h9R : alFind r1.header.lookup 9 = some (.view 1 1) := by
    have hh := hsecR .h
    have e1 : effSec r1 p1 (3 + Lf.length) .h = r1.header := by
      cases p1 with
      | none => rfl
      | some q => obtain ⟨j, g0⟩ := q; simp [effSec, secAdd, PCore.sec]
    have e2 : effSec c0 none 3 .h = c0.header := rfl
    rw [e1, e2] at hh
    rw [hh, applyAdds_find_absent .h 9 _ _ (itmAdds_no_h9 hok 3)]
    rw [← hc0]; simp [ndInit, FieldMap.add, FieldMap.empty, alInsert, alFind, h8, h9, h35]
  have hsecT : secOf d 10 = .t := by
    have ht : isTrailerField d 10 = true := by simp [isTrailerField, Tag.isTrailer, staticTrailerTags]
    simp [secOf, hh10, ht]
  -- the closing state and its sections
  have hfin : ∃ C : PCore, parseLoop Fixes.cur d (modeOf s' p1) F (3 + Lf.length) r1 = finishParse (F.set (3 + Lf.length) t10) C ∧
      C.header = r1.header ∧ C.xmlDataMsg = r1.xmlDataMsg ∧
      ∀ s, C.sec s = secAdd s (effSec r1 p1 (3 + Lf.length) s) (Sec.t, 10, Field.view (3 + Lf.length) 1) := by
    cases s' with
    | none =>
      cases p1 with
      | some q => exact absurd hsync (by simp [Sync])
      | none =>
        refine ⟨ndSwitchD d (3 + Lf.length) t10 { r1 with rawBytes := [] }, parseLoop_main_10 F _ r1 t10 [] hk hxR hex h10,
          (ndSwitchD_10 _ _ _ h10 hh10).1, (ndSwitchD_raw _ _ _).2.2, ?_⟩
        intro s
        rw [ndSwitchD_sec, h10, hsecT]
        cases s <;> rfl
    | some st =>
      cases p1 with
      | none => exact absurd hsync (by simp [Sync])
      | some q =>
        obtain ⟨j, g0⟩ := q
        obtain ⟨_, hj, hfj⟩ := hsync
        have hfj' : (F.set (3 + Lf.length) t10)[j]? = some g0 := by rw [List.getElem?_set_ne (by omega)]; exact hfj
        refine ⟨_, parseLoop_exit_10_gen F _ j r1 t10 g0 [] (stackTags st) (lastGf st) hk hfj' hex (by rw [h10]; exact hclose)
          (by rw [h10]; exact hh10) h10, rfl, rfl, ?_⟩
        intro s
        cases s <;> simp [PCore.sec, effSec, secAdd, h10]
  obtain ⟨C, hC, hCh, hCx, hCs⟩ := hfin
  rw [hC, hFL, finish_ok _ C t9 (by rw [hCh]; exact h9R) (by simp) hbl (by rw [hCx, hxmR]; exact hxm0)]
  refine ⟨_, rfl, rfl, rfl, ?_⟩
  intro s
  have hms : (msgOf (wireOf (t8 :: t9 :: t35 :: (Lf ++ [t10]))) (t8 :: t9 :: t35 :: (Lf ++ [t10])) (finishAdjust C)).sec s = C.sec s := by
    obtain ⟨k1, _, k3, k4⟩ := finishAdjust_keeps C
    cases s
    · exact k1
    · exact k3
    · exact k4
  rw [hms, hCs, hsecR, applyAdds_append]
  have : effSec c0 none 3 s = initSec t8 t9 t35 s := hsec0 s
  rw [this]
  simp [applyAdds]


theorem itmAdds_append : ∀ (A B : List Itm) (idx : Nat),
    itmAdds d idx (A ++ B) = itmAdds d idx A ++ itmAdds d (idx + (flatItms A).length) B := by
  intro A
  induction A with
  | nil => intro B idx; simp [itmAdds, flatItms]
  | cons it r ih =>
    intro B idx
    cases it with
    | plain tv =>
      have e : idx + (flatItms (Itm.plain tv :: r)).length = idx + 1 + (flatItms r).length := by
        rw [flatItms_cons]; simp [Itm.flat]; omega
      simp only [List.cons_append, itmAdds, ih, e]
    | group g0 M =>
      have e : idx + (flatItms (Itm.group g0 M :: r)).length = idx + 1 + M.length + (flatItms r).length := by
        rw [flatItms_cons]; simp [Itm.flat]; omega
      simp only [List.cons_append, itmAdds, ih, e]


/-! ## the same sequences, described from the dictionaries alone -/

/-- the tag is listed at no level of the dictionary tree under `C` -/
def NotListed (C : List DNode) (t : Tag) : Prop :=
  isGroupMember t C = false ∧ ∀ C', Below C C' → isGroupMember t C' = false

/-- THE SAME SEQUENCES DESCRIBED FROM THE DICTIONARIES ALONE (no reference to the parser's tag stack): plain fields; groups of the message
    type whose member fields are well nested (`GroupWalk`) over a tag-disjoint tree (`TreeOK`); what follows a group — a plain field, a
    header / trailer field, the count field of another group — carries a tag listed nowhere in that group's tree.  The index threads the
    member list of the group that is open (`none` = none). -/
inductive ItemsN (d : Dicts) (fs : List DNode) : Option (List DNode) → List Itm → Option (List DNode) → Prop where
  | nil (s : Option (List DNode)) : ItemsN d fs s [] s
  | plainMain {tv r s'} : PlainOK d tv → ItemsN d fs none r s' → ItemsN d fs none (.plain tv :: r) s'
  | plainExit {C0 tv r s'} : IsWire tv → tv.tag ≠ 10 → tv.tag ≠ 212 → tv.tag ≠ 35 → tv.tag ≠ 9 → NotListed C0 tv.tag →
      (isHeaderField d tv.tag = true ∨ isTrailerField d tv.tag = true ∨ NoGroupTag d tv.tag) →
      ItemsN d fs none r s' → ItemsN d fs (some C0) (.plain tv :: r) s'
  | groupMain {g0 M C r s'} : IsWire g0 → isHeaderField d g0.tag = false → isTrailerField d g0.tag = false →
      groupOf fs g0.tag = some C → GroupWalk C M → TreeOK d C → ItemsN d fs (some C) r s' →
      ItemsN d fs none (.group g0 M :: r) s'
  | groupAdj {C0 g0 M C r s'} : IsWire g0 → isHeaderField d g0.tag = false → isTrailerField d g0.tag = false →
      NotListed C0 g0.tag →
      groupOf fs g0.tag = some C → GroupWalk C M → TreeOK d C → ItemsN d fs (some C) r s' →
      ItemsN d fs (some C0) (.group g0 M :: r) s'

/-- a parser stack over the tree of `C` -/
def StackOver : Option (List DNode) → Option (List Level) → Prop
  | none, none => True
  | some C, some st => ∃ G ext, st = (G, C) :: ext ∧ ∀ l ∈ ext, Below C l.2
  | _, _ => False

theorem notListed_stack {C : List DNode} {t : Tag} (h : NotListed C t) (G : Tag) (ext : List Level) (hext : ∀ l ∈ ext, Below C l.2) :
    ∀ l ∈ (G, C) :: ext, isGroupMember t l.2 = false := by
  intro l hl
  simp only [List.mem_cons] at hl
  rcases hl with e | e
  · subst e; exact h.1
  · exact h.2 l.2 (hext l e)

theorem lastGf_notMember (t : Tag) (st : List Level) (h : ∀ l ∈ st, isGroupMember t l.2 = false) :
    isGroupMember t (lastGf st) = false := by
  cases st with
  | nil => rfl
  | cons a r => obtain ⟨l, hl, e⟩ := lastGf_mem (a :: r) (by simp); rw [e]; exact h l hl

theorem itemsN_ok {fs : List DNode} {s s' : Option (List DNode)} {items : List Itm} (h : ItemsN d fs s items s') :
    ∀ so, StackOver s so → ∃ so', ItemsOK d fs so items so' ∧ StackOver s' so' := by
  induction h with
  | nil s => intro so hso; exact ⟨so, .nil _, hso⟩
  | plainMain hp _ ih =>
    intro so hso
    cases so with
    | some st => exact absurd hso (by simp [StackOver])
    | none =>
      obtain ⟨so', h1, h2⟩ := ih none trivial
      exact ⟨so', .plainMain hp h1, h2⟩
  | @plainExit C0 tv r s' hw h10 h212 h35 h9 hnl hkind _ ih =>
    intro so hso
    cases so with
    | none => exact absurd hso (by simp [StackOver])
    | some st =>
      obtain ⟨G, ext, hst, hext⟩ := hso
      subst hst
      have hall := notListed_stack hnl G ext hext
      have hend : EndsGroup d ((G, C0) :: ext) tv.tag := by
        refine ⟨lastGf_notMember _ _ hall, ?_⟩
        rcases hkind with e | e | e
        · exact Or.inl e
        · exact Or.inr (Or.inl e)
        · exact Or.inr (Or.inr ⟨e, stepSpec_exit _ _ hall⟩)
      obtain ⟨so', h1, h2⟩ := ih none trivial
      exact ⟨so', .plainExit hw h10 h212 h35 h9 hend h1, h2⟩
  | @groupMain g0 M C r s' hw hgh hgt hgC hM htree _ ih =>
    intro so hso
    cases so with
    | some st => exact absurd hso (by simp [StackOver])
    | none =>
      obtain ⟨ext', he', hW⟩ := groupWalk_walkN (d := d) hM [(g0.tag, C)] [] (by simp) rfl htree (by intro l h; cases h)
      obtain ⟨so', h1, h2⟩ := ih (some ([(g0.tag, C)] ++ ext')) ⟨g0.tag, ext', rfl, he'⟩
      exact ⟨so', .groupMain hw hgh hgt hgC (by simpa using hW) h1, h2⟩
  | @groupAdj C0 g0 M C r s' hw hgh hgt hnl hgC hM htree _ ih =>
    intro so hso
    cases so with
    | none => exact absurd hso (by simp [StackOver])
    | some st =>
      obtain ⟨G, ext, hst, hext⟩ := hso
      subst hst
      have hall := notListed_stack hnl G ext hext
      obtain ⟨ext', he', hW⟩ := groupWalk_walkN (d := d) hM [(g0.tag, C)] [] (by simp) rfl htree (by intro l h; cases h)
      obtain ⟨so', h1, h2⟩ := ih (some ([(g0.tag, C)] ++ ext')) ⟨g0.tag, ext', rfl, he'⟩
      exact ⟨so', .groupAdj hw hgh hgt (lastGf_notMember _ _ hall) hgC (by simpa using hW) h1, h2⟩

/-- the message may end inside a group whose tree does not list CheckSum -/
def ClosesN : Option (List DNode) → Prop
  | none => True
  | some C => NotListed C 10

theorem closesN_ok {s : Option (List DNode)} {so : Option (List Level)} (h : ClosesN s) (hso : StackOver s so) : ClosesOK so := by
  cases s with
  | none =>
    cases so with
    | none => trivial
    | some st => exact absurd hso (by simp [StackOver])
  | some C =>
    cases so with
    | none => exact absurd hso (by simp [StackOver])
    | some st =>
      obtain ⟨G, ext, hst, hext⟩ := hso
      subst hst
      exact lastGf_notMember _ _ (notListed_stack h G ext hext)


end Qfx
