/-
  Invariant machinery for C01 over Qfx.Model.Session: a ghost monitor folded over the observation log,
  the "neutral extension" relation for functions that neither touch the expected number nor deliver, and
  one preservation lemma per model function.
-/
import Qfx.Spec.SessionTyped
namespace Qfx.Sess
open Qfx

def g1Of (g0 : G1) (s : Sess) : G1 := s.log.reverse.foldl g1Step g0

/-- invariant: monitor happy, its T is the store's, everything delivered in this epoch is below T
    (or is exactly T while the advance it must be followed by is still pending) -/
def J (g0 : G1) (s : Sess) : Prop :=
  (g1Of g0 s).ok = true ∧ (g1Of g0 s).T = s.store.target ∧
  ((g1Of g0 s).expectInc = false → ∀ l, (g1Of g0 s).last = some l → l < (g1Of g0 s).T) ∧
  ((g1Of g0 s).expectInc = true → (g1Of g0 s).last = some (g1Of g0 s).T)

/-- `J` and no advance pending -/
def J0 (g0 : G1) (s : Sess) : Prop := J g0 s ∧ (g1Of g0 s).expectInc = false

theorem g1Of_emit (g0 : G1) (s : Sess) (o : Obs) : g1Of g0 (s.emit o) = g1Step (g1Of g0 s) o := by
  simp [g1Of, Sess.emit, List.foldl_append]

def neutral : Obs → Bool
  | .reset | .incT | .setT _ | .fromApp _ _ => false
  | _ => true

theorem g1Step_neutral (g : G1) (o : Obs) (h : neutral o = true) : g1Step g o = g := by
  cases o <;> simp_all [g1Step, neutral]

theorem foldl_neutral (g : G1) (l : List Obs) (h : l.all neutral = true) : l.foldl g1Step g = g := by
  induction l generalizing g with
  | nil => rfl
  | cons o l ih =>
    simp only [List.all_cons, Bool.and_eq_true] at h
    simp only [List.foldl_cons, g1Step_neutral g o h.1]; exact ih g h.2

/-- `s'` extends the log of `s` by neutral observations only and leaves the expected number alone -/
structure Ext (s s' : Sess) : Prop where
  tgt : s'.store.target = s.store.target
  log : ∃ extra : List Obs, s'.log = extra ++ s.log ∧ extra.all neutral = true

theorem Ext.refl (s : Sess) : Ext s s := ⟨rfl, [], rfl, rfl⟩

theorem Ext.trans {a b c : Sess} (h1 : Ext a b) (h2 : Ext b c) : Ext a c := by
  obtain ⟨t1, e1, l1, n1⟩ := h1
  obtain ⟨t2, e2, l2, n2⟩ := h2
  refine ⟨t2.trans t1, e2 ++ e1, ?_, ?_⟩
  · rw [l2, l1, List.append_assoc]
  · simp [List.all_append, n1, n2]

theorem Ext.emit (s : Sess) (o : Obs) (h : neutral o = true) : Ext s (s.emit o) :=
  ⟨rfl, [o], rfl, by simp [h]⟩

theorem Ext.g1 {s s' : Sess} (h : Ext s s') (g0 : G1) : g1Of g0 s' = g1Of g0 s := by
  obtain ⟨_, e, l, n⟩ := h
  unfold g1Of
  rw [l, List.reverse_append, List.foldl_append]
  exact foldl_neutral _ _ (by simpa using n)

theorem Ext.presJ {s s' : Sess} (h : Ext s s') (g0 : G1) (hj : J g0 s) : J g0 s' := by
  unfold J at *
  rw [h.g1 g0, h.tgt]; exact hj

theorem Ext.presJ0 {s s' : Sess} (h : Ext s s') (g0 : G1) (hj : J0 g0 s) : J0 g0 s' := by
  unfold J0 at *
  exact ⟨h.presJ g0 hj.1, by rw [h.g1 g0]; exact hj.2⟩

/-- field updates that touch neither the log nor the store are extensions -/
theorem Ext.of_eq {s s' : Sess} (h1 : s'.store.target = s.store.target) (h2 : s'.log = s.log) : Ext s s' :=
  ⟨h1, [], by simp [h2], rfl⟩

/-- preservation of both invariants -/
def Pres (g0 : G1) (s s' : Sess) : Prop := (J g0 s → J g0 s') ∧ (J0 g0 s → J0 g0 s')

theorem Pres.refl (g0 : G1) (s : Sess) : Pres g0 s s := ⟨id, id⟩
theorem Pres.trans {g0 : G1} {a b c : Sess} (h1 : Pres g0 a b) (h2 : Pres g0 b c) : Pres g0 a c :=
  ⟨fun h => h2.1 (h1.1 h), fun h => h2.2 (h1.2 h)⟩
theorem Ext.pres {s s' : Sess} (h : Ext s s') (g0 : G1) : Pres g0 s s' := ⟨h.presJ g0, h.presJ0 g0⟩

/-! ### primitives -/

theorem ext_persistOut (s : Sess) (seq : Int) (m : OutMsg) : Ext s (s.persistOut seq m) := by
  unfold Sess.persistOut
  split
  · exact ⟨rfl, [.saved seq m.kind (resendable m)], rfl, rfl⟩
  · exact ⟨rfl, [.incS], rfl, rfl⟩

theorem ext_sendQueued (s : Sess) : Ext s (sendQueued s) := by
  unfold sendQueued
  split
  · refine ⟨rfl, (s.toSend.map Obs.wire).reverse, rfl, ?_⟩
    simp [List.all_eq_true, neutral]
  · exact Ext.refl s

theorem J0_storeReset (g0 : G1) (s : Sess) (h : J g0 s) : J0 g0 s.storeReset := by
  obtain ⟨hok, _, _, _⟩ := h
  unfold J0 J Sess.storeReset
  rw [g1Of_emit]
  simp [g1Step, Store.reset, Sess.emit, g1Of] at *
  exact hok

theorem pres_storeReset (g0 : G1) (s : Sess) : Pres g0 s s.storeReset :=
  ⟨fun h => (J0_storeReset g0 s h).1, fun h => J0_storeReset g0 s h.1⟩

theorem J0_incrTarget (g0 : G1) (s : Sess) (h : J g0 s) : J0 g0 (incrTarget s) := by
  obtain ⟨hok, hT, h0, h1⟩ := h
  unfold J0 J incrTarget
  rw [g1Of_emit]
  have hg : g1Of g0 (s.setTarget (s.store.target + 1)) = g1Of g0 s := rfl
  rw [hg]
  simp only [g1Step, Sess.emit]
  refine ⟨⟨hok, by simp [hT, Sess.setTarget], ?_, by simp⟩, by simp⟩
  intro _ l hl
  cases he : (g1Of g0 s).expectInc
  · have := h0 he l hl; omega
  · have := h1 he; rw [this] at hl; cases hl; omega

theorem pres_incrTarget (g0 : G1) (s : Sess) : Pres g0 s (incrTarget s) :=
  ⟨fun h => (J0_incrTarget g0 s h).1, fun h => J0_incrTarget g0 s h.1⟩

/-! ### sending -/

theorem pres_of_ext_after {g0 : G1} {a b c : Sess} (h1 : Pres g0 a b) (h2 : Ext b c) : Pres g0 a c := h1.trans (h2.pres g0)

theorem pres_prep (g0 : G1) (s : Sess) (m : OutMsg) : Pres g0 s (prep s m).2 := by
  unfold prep prepCore
  simp only []
  split
  · split
    · exact pres_of_ext_after ((pres_storeReset g0 s).trans ((Ext.of_eq (s := s.storeReset) (s' := s.storeReset.setSentReset true) rfl rfl).pres g0)) (ext_persistOut _ _ _)
    · exact (ext_persistOut _ _ _).pres g0
  · split
    · exact Pres.refl g0 s
    · exact (ext_persistOut _ _ _).pres g0

theorem ext_sendQueued_after (s mid : Sess) (h1 : mid.store.target = s.store.target) (h2 : mid.log = s.log) : Ext s (sendQueued mid) :=
  (Ext.of_eq (s := s) (s' := mid) h1 h2).trans (ext_sendQueued mid)

theorem pres_queueForSend (g0 : G1) (s : Sess) (m : OutMsg) : Pres g0 s (queueForSend s m) := by
  unfold queueForSend
  have hp := pres_prep g0 s m
  generalize prep s m = r at hp
  obtain ⟨o, s'⟩ := r
  cases o with
  | none => exact hp
  | some m' => exact pres_of_ext_after hp (Ext.of_eq (s := s') rfl rfl)

theorem pres_sendInReplyTo (g0 : G1) (s : Sess) (m : OutMsg) : Pres g0 s (sendInReplyTo s m) := by
  unfold sendInReplyTo
  split
  · exact pres_queueForSend g0 s _
  · have hp := pres_prep g0 s m
    generalize prep s m = r at hp
    obtain ⟨o, s'⟩ := r
    cases o with
    | none => exact hp
    | some m' => exact pres_of_ext_after hp (ext_sendQueued_after s' _ rfl rfl)

theorem pres_dropAndSend (g0 : G1) (s : Sess) (m : OutMsg) : Pres g0 s (dropAndSend s m) := by
  unfold dropAndSend
  have hp := pres_prep g0 s m
  generalize prep s m = r at hp
  obtain ⟨o, s'⟩ := r
  cases o with
  | none => exact hp
  | some m' => exact pres_of_ext_after hp (ext_sendQueued_after s' _ rfl rfl)

theorem ext_enqueueAndSend (s : Sess) (m : OutMsg) : Ext s (enqueueAndSend s m) := by
  unfold enqueueAndSend
  simp only []
  split
  · exact ext_sendQueued_after s _ rfl rfl
  · exact ext_sendQueued_after s _ rfl rfl

theorem pres_dropAndReset (g0 : G1) (s : Sess) : Pres g0 s (dropAndReset s) := by
  unfold dropAndReset
  exact ((Ext.of_eq (s := s) (s' := s.setToSend []) rfl rfl).pres g0).trans (pres_storeReset g0 _)

theorem pres_sendLogonInReplyTo (g0 : G1) (s : Sess) (r : Bool) : Pres g0 s (sendLogonInReplyTo s r) := pres_dropAndSend g0 s _
theorem pres_sendLogout (g0 : G1) (s : Sess) : Pres g0 s (sendLogout s) := pres_sendInReplyTo g0 s _
theorem pres_initiateLogout (g0 : G1) (s : Sess) : Pres g0 s (initiateLogout s) := pres_sendLogout g0 s

theorem pres_sendResendRequest (g0 : G1) (s : Sess) (b e : Int) : Pres g0 s (sendResendRequest s b e).1 := by
  unfold sendResendRequest
  simp only []
  split <;> exact pres_sendInReplyTo g0 s _

theorem pres_doReject (g0 : G1) (s : Sess) (m : InMsg) (r : Nat) (t : Option Nat) (b : Bool) : Pres g0 s (doReject s m r t b) :=
  pres_sendInReplyTo g0 s _


/-! ### verification -/

/-- outcome of the verification pipeline, as far as C01 is concerned -/
inductive VOut (s : Sess) (m : InMsg) : Sess → Option Rej → Prop
  | ext {s' : Sess} {r : Option Rej} (h : Ext s s') : VOut s m s' r
  | delivered (hseq : readInt (strBytes (seqText m)) = .ok s.store.target) (hk : isAdminKind (kindOf m) = false) :
      VOut s m (s.emit (.fromApp (seqText m) s.store.target)) (callbackVerdict m)

theorem verifyAppImpl_admin (s : Sess) (m : InMsg) (hk : isAdminKind (kindOf m) = true) : Ext s (verifyAppImpl s m).1 := by
  unfold verifyAppImpl
  split
  · exact Ext.refl s
  · simp only [hk, if_true]; exact Ext.emit _ _ rfl

theorem getInt_seqText (m : InMsg) (n : Int) (h : getInt m 34 = .val n) : readInt (strBytes (seqText m)) = .ok n := by
  unfold getInt at h
  unfold seqText
  cases hv : m.f.get? 34 with
  | none => simp [hv] at h
  | some v =>
    simp only [hv] at h
    simp only [Option.getD_some]
    cases hr : readInt (strBytes v) with
    | ok i => simp only [hr] at h; cases h; rfl
    | err e => simp [hr] at h
    | fault w => simp [hr] at h

theorem checkTooLow_none (s : Sess) (m : InMsg) (h : checkTooLow s m = none) : ∃ n, getInt m 34 = .val n ∧ s.store.target ≤ n := by
  unfold checkTooLow at h
  cases hg : getInt m 34 with
  | missing => simp [hg] at h
  | garbled => simp [hg] at h
  | val n =>
    simp only [hg] at h
    refine ⟨n, rfl, ?_⟩
    split at h
    · cases h
    · omega

theorem checkTooHigh_none (s : Sess) (m : InMsg) (h : checkTooHigh s m = none) : ∃ n, getInt m 34 = .val n ∧ n ≤ s.store.target := by
  unfold checkTooHigh at h
  cases hg : getInt m 34 with
  | missing => simp [hg] at h
  | garbled => simp [hg] at h
  | val n =>
    simp only [hg] at h
    refine ⟨n, rfl, ?_⟩
    split at h
    · cases h
    · omega

/-- with both sequence checks on, a delivery happens exactly at the expected number -/
theorem verifySelect_full (s : Sess) (m : InMsg) :
    VOut s m (verifySelect s m true true true).1 (verifySelect s m true true true).2 := by
  unfold verifySelect
  split
  · exact .ext (Ext.refl s)
  · split
    · exact .ext (Ext.refl s)
    · split
      · exact .ext (Ext.refl s)
      · split
        · exact .ext (Ext.refl s)
        · split
          · exact .ext (Ext.refl s)
          · rename_i _ _ _ _ _ _ _ hlow _ hhigh
            simp only [if_true] at hlow hhigh ⊢
            obtain ⟨n, hn, h1⟩ := checkTooLow_none s m hlow
            obtain ⟨n', hn', h2⟩ := checkTooHigh_none s m hhigh
            rw [hn] at hn'; cases hn'
            have hnt : n = s.store.target := by omega
            unfold verifyAppImpl
            split
            · exact .ext (Ext.refl s)
            · by_cases hk : isAdminKind (kindOf m) = true
              · simp only [hk, if_true]; exact .ext (Ext.emit _ _ rfl)
              · have hk' : isAdminKind (kindOf m) = false := by simpa using hk
                simp only [hk', Bool.false_eq_true, if_false]
                exact .delivered (by rw [getInt_seqText m n hn, hnt]) hk'

/-- for administrative kinds (and whenever the application is not consulted) nothing is delivered -/
theorem verifySelect_ext (s : Sess) (m : InMsg) (th tl ai : Bool) (h : ai = false ∨ isAdminKind (kindOf m) = true) :
    Ext s (verifySelect s m th tl ai).1 := by
  unfold verifySelect
  split
  · exact Ext.refl s
  · split
    · exact Ext.refl s
    · split
      · exact Ext.refl s
      · split
        · exact Ext.refl s
        · split
          · exact Ext.refl s
          · rcases h with h | h
            · simp [h]; exact Ext.refl s
            · cases ai
              · exact Ext.refl s
              · simp only [if_true]; exact verifyAppImpl_admin s m h


/-! ### composition lemmas: peel the outermost model function -/
section peel
variable {g0 : G1} {s x : Sess}
theorem peel_incrTarget (h : Pres g0 s x) : Pres g0 s (incrTarget x) := h.trans (pres_incrTarget g0 x)
theorem peel_doReject (m : InMsg) (r : Nat) (t : Option Nat) (b : Bool) (h : Pres g0 s x) : Pres g0 s (doReject x m r t b) := h.trans (pres_doReject g0 x m r t b)
theorem peel_initiateLogout (h : Pres g0 s x) : Pres g0 s (initiateLogout x) := h.trans (pres_initiateLogout g0 x)
theorem peel_sendLogout (h : Pres g0 s x) : Pres g0 s (sendLogout x) := h.trans (pres_sendLogout g0 x)
theorem peel_sendInReplyTo (m : OutMsg) (h : Pres g0 s x) : Pres g0 s (sendInReplyTo x m) := h.trans (pres_sendInReplyTo g0 x m)
theorem peel_dropAndSend (m : OutMsg) (h : Pres g0 s x) : Pres g0 s (dropAndSend x m) := h.trans (pres_dropAndSend g0 x m)
theorem peel_dropAndReset (h : Pres g0 s x) : Pres g0 s (dropAndReset x) := h.trans (pres_dropAndReset g0 x)
theorem peel_storeReset (h : Pres g0 s x) : Pres g0 s x.storeReset := h.trans (pres_storeReset g0 x)
theorem peel_enqueueAndSend (m : OutMsg) (h : Pres g0 s x) : Pres g0 s (enqueueAndSend x m) := h.trans ((ext_enqueueAndSend x m).pres g0)
theorem peel_sendQueued (h : Pres g0 s x) : Pres g0 s (sendQueued x) := h.trans ((ext_sendQueued x).pres g0)
theorem peel_sendLogonInReplyTo (r : Bool) (h : Pres g0 s x) : Pres g0 s (sendLogonInReplyTo x r) := h.trans (pres_sendLogonInReplyTo g0 x r)
theorem peel_sendResendRequest (b e : Int) (h : Pres g0 s x) : Pres g0 s (sendResendRequest x b e).1 := h.trans (pres_sendResendRequest g0 x b e)
theorem peel_sendLogonRe (r : Bool) (m : InMsg) (h : Pres g0 s x) : Pres g0 s (sendLogonRe x r m) := h.trans (pres_dropAndSend g0 x _)
theorem peel_setReplyLast (v : Option Int) (h : Pres g0 s x) : Pres g0 s (x.setReplyLast v) := h.trans ((Ext.of_eq (s := x) rfl rfl).pres g0)
theorem peel_emit (o : Obs) (hn : neutral o = true) (h : Pres g0 s x) : Pres g0 s (x.emit o) := h.trans ((Ext.emit x o hn).pres g0)
end peel

/-- one peeling step; extended with `macro_rules` as more lemmas become available -/
syntax "pres_step" : tactic
macro_rules | `(tactic| pres_step) => `(tactic| assumption)
macro_rules | `(tactic| pres_step) => `(tactic| exact Pres.refl _ _)
macro_rules | `(tactic| pres_step) => `(tactic| apply peel_incrTarget)
macro_rules | `(tactic| pres_step) => `(tactic| apply peel_doReject)
macro_rules | `(tactic| pres_step) => `(tactic| apply peel_initiateLogout)
macro_rules | `(tactic| pres_step) => `(tactic| apply peel_sendLogout)
macro_rules | `(tactic| pres_step) => `(tactic| apply peel_sendInReplyTo)
macro_rules | `(tactic| pres_step) => `(tactic| apply peel_dropAndSend)
macro_rules | `(tactic| pres_step) => `(tactic| apply peel_dropAndReset)
macro_rules | `(tactic| pres_step) => `(tactic| apply peel_storeReset)
macro_rules | `(tactic| pres_step) => `(tactic| apply peel_enqueueAndSend)
macro_rules | `(tactic| pres_step) => `(tactic| apply peel_sendQueued)
macro_rules | `(tactic| pres_step) => `(tactic| apply peel_sendLogonInReplyTo)
macro_rules | `(tactic| pres_step) => `(tactic| apply peel_sendResendRequest)
macro_rules | `(tactic| pres_step) => `(tactic| apply peel_sendLogonRe)
macro_rules | `(tactic| pres_step) => `(tactic| apply peel_setReplyLast)
macro_rules | `(tactic| pres_step) => `(tactic| apply peel_emit _ (by simp [neutral]))

/-- close `Pres g0 s (f₁ (f₂ … x))` goals by peeling model functions down to an assumption `Pres g0 s x` or to `s` itself -/
macro "pres_peel" : tactic => `(tactic| with_reducible (repeat pres_step))

macro "pres_cases" : tactic => `(tactic| (
  (repeat' split)
  all_goals (try dsimp only)
  all_goals (repeat' split)
  all_goals (try dsimp only)
  all_goals (repeat' split)
  all_goals (try dsimp only)
  all_goals pres_peel))

theorem pres_doTargetTooLow (g0 : G1) (s : Sess) (m : InMsg) : Pres g0 s (doTargetTooLow s m).1 := by
  unfold doTargetTooLow
  pres_cases

theorem pres_processReject (g0 : G1) (s : Sess) (m : InMsg) (r : Rej) : Pres g0 s (processReject s m r).1 := by
  unfold processReject
  split
  · split
    · exact Pres.refl g0 s
    · split
      rename_i recv exp _ _ _ _ _ _ heq
      have := pres_sendResendRequest g0 s exp (recv - 1)
      rw [heq] at this; exact this
  · exact pres_doTargetTooLow g0 s m
  all_goals pres_cases

/-- after a delivery the application's verdict, whatever it is, consumes the number -/
theorem processReject_cb (g0 : G1) (s : Sess) (m : InMsg) (r : Rej) (hr : callbackVerdict m = some r) (h : J g0 s) :
    J0 g0 (processReject s m r).1 := by
  have hcases : r = .plain 5 (some 9001) false ∨ r = .plain 3 none true ∨ r = .rejectLogon := by
    unfold callbackVerdict at hr
    split at hr <;> simp_all
  rcases hcases with rfl | rfl | rfl
  · simp only [processReject]
    exact J0_incrTarget g0 _ ((pres_doReject g0 s m _ _ _).1 h)
  · simp only [processReject]
    exact J0_incrTarget g0 _ ((pres_doReject g0 s m _ _ _).1 h)
  · simp only [processReject]
    exact J0_incrTarget g0 _ ((pres_doReject g0 s m _ _ _).1 h)

theorem peel_processReject {g0 : G1} {s x : Sess} (m : InMsg) (r : Rej) (h : Pres g0 s x) : Pres g0 s (processReject x m r).1 :=
  h.trans (pres_processReject g0 x m r)
macro_rules | `(tactic| pres_step) => `(tactic| apply peel_processReject)

/-- handlers of administrative kinds: the verification step delivers nothing -/
theorem pres_handleLogout (g0 : G1) (s : Sess) (m : InMsg) (hk : isAdminKind (kindOf m) = true) : Pres g0 s (handleLogout s m).1 := by
  unfold handleLogout
  have hv := (verifySelect_ext s m false false true (Or.inr hk)).pres g0
  generalize verifySelect s m false false true = r at hv
  obtain ⟨s', o⟩ := r
  cases o with
  | some r => exact peel_processReject m r hv
  | none => dsimp only; pres_cases

theorem pres_handleTestRequest (g0 : G1) (s : Sess) (m : InMsg) (hk : isAdminKind (kindOf m) = true) : Pres g0 s (handleTestRequest s m).1 := by
  unfold handleTestRequest
  have hv := (verifySelect_ext s m true true true (Or.inr hk)).pres g0
  generalize verifySelect s m true true true = r at hv
  obtain ⟨s', o⟩ := r
  cases o with
  | some r => exact peel_processReject m r hv
  | none => dsimp only; pres_cases

/-- SequenceReset forward: allowed only with no advance pending and never backwards -/
theorem J0_setT (g0 : G1) (s : Sess) (n : Int) (hn : n > s.store.target) (h : J0 g0 s) :
    J0 g0 ((s.setTarget n).emit (.setT n)) := by
  obtain ⟨⟨hok, hT, h0, _⟩, he⟩ := h
  unfold J0 J
  rw [g1Of_emit]
  have hg : g1Of g0 (s.setTarget n) = g1Of g0 s := rfl
  rw [hg]
  simp only [g1Step, Sess.emit]
  refine ⟨⟨?_, rfl, ?_, ?_⟩, trivial⟩
  · simp only [hok, he, Bool.true_and, Bool.not_false, Bool.and_true, decide_eq_true_eq]; omega
  · intro _ l hl
    have := h0 he l hl
    omega
  · intro hc; cases hc

theorem J0_handleSequenceReset_core (g0 : G1) (s : Sess) (m : InMsg) (gf : Bool) (hk : isAdminKind (kindOf m) = true) (h : J0 g0 s) :
    J0 g0 (match verifySelect s m gf gf true with
      | (s, some r) => processReject s m r
      | (s, none) =>
        match getInt m 36 with
        | .val n =>
          if n > s.store.target then ((s.setTarget n).emit (.setT n), SState.inSession)
          else if n < s.store.target then (doReject s m 5 none false, SState.inSession)
          else (s, SState.inSession)
        | _ => (s, SState.inSession)).1 := by
  have hv := (verifySelect_ext s m gf gf true (Or.inr hk)).pres g0
  generalize verifySelect s m gf gf true = r at hv
  obtain ⟨s', o⟩ := r
  cases o with
  | some r => exact (peel_processReject m r hv).2 h
  | none =>
    dsimp only
    have h' := hv.2 h
    split
    · split
      · rename_i n _ hgt
        exact J0_setT g0 s' n hgt h'
      · split
        · exact (pres_doReject g0 s' m _ _ _).2 h'
        · exact h'
    · exact h'

theorem J0_handleSequenceReset (g0 : G1) (s : Sess) (m : InMsg) (hk : isAdminKind (kindOf m) = true) (h : J0 g0 s) :
    J0 g0 (handleSequenceReset s m).1 := by
  unfold handleSequenceReset
  split
  · exact (pres_processReject g0 s m _).2 h
  · exact J0_handleSequenceReset_core g0 s m _ hk h

theorem ext_resendLoop (s : Sess) (a b : Int) (l : List (Int × OutMsg)) : Ext s (resendLoop s a b l).1 := by
  induction l generalizing s a b with
  | nil => exact Ext.refl s
  | cons p rest ih =>
    obtain ⟨n, m⟩ := p
    simp only [resendLoop]
    split
    · exact ih s a (n + 1)
    · split
      · exact ih s a (n + 1)
      · try dsimp only
        split
        · exact ((ext_enqueueAndSend s _).trans (ext_enqueueAndSend _ _)).trans (ih _ _ _)
        · exact (ext_enqueueAndSend s _).trans (ih _ _ _)

theorem ext_resendMessages (s : Sess) (b e : Int) : Ext s (resendMessages s b e) := by
  unfold resendMessages
  split
  · exact Ext.refl s
  · split
    · exact ext_enqueueAndSend s _
    · have hl := ext_resendLoop s b b (s.store.range b e)
      generalize resendLoop s b b (s.store.range b e) = r at hl
      obtain ⟨s', x, y⟩ := r
      try dsimp only at hl ⊢
      split
      · exact hl.trans (ext_enqueueAndSend s' _)
      · exact hl

theorem peel_resendMessages {g0 : G1} {s x : Sess} (b e : Int) (h : Pres g0 s x) : Pres g0 s (resendMessages x b e) :=
  h.trans ((ext_resendMessages x b e).pres g0)
macro_rules | `(tactic| pres_step) => `(tactic| apply peel_resendMessages)

theorem pres_handleResendRequest (g0 : G1) (s : Sess) (m : InMsg) (hk : isAdminKind (kindOf m) = true) : Pres g0 s (handleResendRequest s m).1 := by
  unfold handleResendRequest
  have hv := (verifySelect_ext s m false false true (Or.inr hk)).pres g0
  generalize verifySelect s m false false true = r at hv
  obtain ⟨s', o⟩ := r
  simp only [] at hv
  cases o with
  | some r => exact peel_processReject m r hv
  | none => dsimp only; pres_cases


theorem pres_ite {g0 : G1} {s a b : Sess} (c : Prop) [Decidable c] (ha : Pres g0 s a) (hb : Pres g0 s b) : Pres g0 s (if c then a else b) := by
  split <;> assumption
macro_rules | `(tactic| pres_step) => `(tactic| apply pres_ite)

section peel2
variable {g0 : G1} {s x : Sess}
theorem peel_setHb (h : Int) (hp : Pres g0 s x) : Pres g0 s (x.setHb h) := hp.trans ((Ext.of_eq (s := x) rfl rfl).pres g0)
theorem peel_setSentReset (b : Bool) (hp : Pres g0 s x) : Pres g0 s (x.setSentReset b) := hp.trans ((Ext.of_eq (s := x) rfl rfl).pres g0)
theorem peel_setToSend (q : List OutMsg) (hp : Pres g0 s x) : Pres g0 s (x.setToSend q) := hp.trans ((Ext.of_eq (s := x) rfl rfl).pres g0)
theorem peel_setSt (st : SState) (hp : Pres g0 s x) : Pres g0 s (x.setSt st) := hp.trans ((Ext.of_eq (s := x) rfl rfl).pres g0)
theorem peel_setOut (b : Bool) (hp : Pres g0 s x) : Pres g0 s (x.setOut b) := hp.trans ((Ext.of_eq (s := x) rfl rfl).pres g0)
theorem peel_setInbox (ib : List InMsg) (hp : Pres g0 s x) : Pres g0 s (x.setInbox ib) := hp.trans ((Ext.of_eq (s := x) rfl rfl).pres g0)
theorem peel_closeInbox (hp : Pres g0 s x) : Pres g0 s x.closeInbox := hp.trans ((Ext.of_eq (s := x) rfl rfl).pres g0)
theorem peel_setPendingStop (hp : Pres g0 s x) : Pres g0 s x.setPendingStop := hp.trans ((Ext.of_eq (s := x) rfl rfl).pres g0)
theorem peel_setStopped (hp : Pres g0 s x) : Pres g0 s x.setStopped := hp.trans ((Ext.of_eq (s := x) rfl rfl).pres g0)
theorem peel_openConn (hp : Pres g0 s x) : Pres g0 s x.openConn := hp.trans ((Ext.of_eq (s := x) rfl rfl).pres g0)
end peel2
macro_rules | `(tactic| pres_step) => `(tactic| apply peel_setHb)
macro_rules | `(tactic| pres_step) => `(tactic| apply peel_setSentReset)
macro_rules | `(tactic| pres_step) => `(tactic| apply peel_setToSend)
macro_rules | `(tactic| pres_step) => `(tactic| apply peel_setSt)
macro_rules | `(tactic| pres_step) => `(tactic| apply peel_setOut)
macro_rules | `(tactic| pres_step) => `(tactic| apply peel_setInbox)
macro_rules | `(tactic| pres_step) => `(tactic| apply peel_closeInbox)
macro_rules | `(tactic| pres_step) => `(tactic| apply peel_setPendingStop)
macro_rules | `(tactic| pres_step) => `(tactic| apply peel_setStopped)
macro_rules | `(tactic| pres_step) => `(tactic| apply peel_openConn)

theorem pres_logonReply (g0 : G1) (s : Sess) (m : InMsg) (flag : Bool) : Pres g0 s (logonReply s m flag) := by
  unfold logonReply
  pres_cases

theorem pres_nxEval (g0 : G1) (s : Sess) (m : InMsg) (ns : Int) : Pres g0 s (nxEval s m ns).1 := by
  unfold nxEval
  pres_cases

theorem pres_logonFinish (g0 : G1) (s : Sess) (m : InMsg) (ns : Int) : Pres g0 s (logonFinish s m ns).1 := by
  unfold logonFinish
  have h : Pres g0 s (nxEval (((s.setSentReset false).emit (.armPeer (1200 * s.hb))).emit .onLogon) m ns).1 :=
    Pres.trans (by pres_peel) (pres_nxEval g0 _ m ns)
  generalize nxEval _ m ns = r at h
  obtain ⟨x, o⟩ := r
  cases o with
  | some r => exact h
  | none =>
    dsimp only at h ⊢
    pres_cases

theorem pres_logonRefused (g0 : G1) (s : Sess) (m : InMsg) : Pres g0 s (logonRefused s m) := by
  unfold logonRefused
  pres_cases

theorem pres_logonTail (g0 : G1) (s : Sess) (m : InMsg) (ns : Int) : Pres g0 s (logonTail s m ns).1 := by
  unfold logonTail
  split
  · exact pres_logonRefused g0 s m
  · exact (pres_logonReply g0 s m _).trans (pres_logonFinish g0 _ m _)

theorem pres_handleLogon (g0 : G1) (s : Sess) (m : InMsg) (hk : isAdminKind (kindOf m) = true) : Pres g0 s (handleLogon s m).1 := by
  unfold handleLogon
  split
  · exact Pres.refl g0 s
  · generalize hs1 : (if (!s.cfg.initiator && s.cfg.refreshOnLogon) = true then s.emit Obs.refresh else s) = s1
    have h1 : Pres g0 s s1 := by rw [← hs1]; pres_peel
    simp only []
    have hv := (verifyAppImpl_admin s1 m hk).pres g0
    generalize verifyAppImpl s1 m = r at hv
    obtain ⟨s2, o⟩ := r
    simp only [] at hv
    have h2 := h1.trans hv
    cases o with
    | some r => exact h2
    | none =>
      simp only []
      generalize hs3 : (if ((if s2.cfg.initiator = true then false else s2.cfg.resetOnLogon) || logonResetFlag m && !s2.sentReset) = true
          then dropAndReset s2 else s2) = s3
      have h3 : Pres g0 s s3 := by rw [← hs3]; pres_peel
      have hv2 := (verifySelect_ext s3 m false true false (Or.inl rfl)).pres g0
      generalize verifySelect s3 m false true false = r2 at hv2
      obtain ⟨s4, o2⟩ := r2
      simp only [] at hv2
      have h4 := h3.trans hv2
      cases o2 with
      | some r => exact h4
      | none => exact h4.trans (pres_logonTail g0 s4 m _)

theorem admin_of_eq (m : InMsg) (k : String) (hk : (kindOf m == k) = true) (ha : isAdminKind k = true) : isAdminKind (kindOf m) = true := by
  have : kindOf m = k := by simpa using hk
  rw [this]; exact ha

theorem J0_inSessionFixMsgIn (g0 : G1) (s : Sess) (m : InMsg) (h : J0 g0 s) : J0 g0 (inSessionFixMsgIn s m).1 := by
  unfold inSessionFixMsgIn
  simp only []
  split
  · rename_i hk
    have ha := admin_of_eq m "A" hk (by decide)
    have hl := pres_handleLogon g0 s m ha
    generalize handleLogon s m = r at hl
    obtain ⟨s', o⟩ := r
    cases o with
    | some e => exact (hl.trans (pres_sendInReplyTo g0 s' ((mkOut "5" []).inReplyTo m))).2 h
    | none => exact hl.2 h
  · split
    · rename_i hk
      exact (pres_handleLogout g0 s m (admin_of_eq m "5" hk (by decide))).2 h
    · split
      · rename_i hk
        exact (pres_handleResendRequest g0 s m (admin_of_eq m "2" hk (by decide))).2 h
      · split
        · rename_i hk
          exact J0_handleSequenceReset g0 s m (admin_of_eq m "4" hk (by decide)) h
        · split
          · rename_i hk
            exact (pres_handleTestRequest g0 s m (admin_of_eq m "1" hk (by decide))).2 h
          · have hv := verifySelect_full s m
            generalize verifySelect s m true true true = r at hv
            obtain ⟨s', o⟩ := r
            simp only [] at hv ⊢
            cases hv with
            | ext he =>
              have h' := he.presJ0 g0 h
              cases o with
              | some r => exact (pres_processReject g0 s' m r).2 h'
              | none => exact (pres_incrTarget g0 s').2 h'
            | delivered hseq hk =>
              -- exactly at the expected number: the monitor accepts the delivery, the advance is now pending
              have hJ : J g0 (s.emit (.fromApp (seqText m) s.store.target)) := by
                obtain ⟨⟨hok, hT, h0, _⟩, he⟩ := h
                unfold J
                rw [g1Of_emit]
                simp only [g1Step, hseq, Sess.emit]
                refine ⟨?_, hT, ?_, ?_⟩
                · simp only [hok, he, hT, Bool.true_and, Bool.not_false, decide_true, Bool.and_true]
                  cases hl : (g1Of g0 s).last with
                  | none => rfl
                  | some l => have := h0 he l hl; simp only [decide_eq_true_eq]; omega
                · intro hc; cases hc
                · intro _; simp [hT]
              cases hc : callbackVerdict m with
              | none => exact J0_incrTarget g0 _ hJ
              | some r => exact processReject_cb g0 _ m r hc hJ


theorem J0_drainStash (g0 : G1) (fuel : Nat) (s : Sess) (stash : List (Int × InMsg)) (last : SState) (h : J0 g0 s) :
    J0 g0 (drainStash fuel s stash last).1 := by
  induction fuel generalizing s stash last with
  | zero => exact h
  | succ n ih =>
    unfold drainStash
    split
    · exact h
    · simp only []
      rename_i nn m _
      have h1 := J0_inSessionFixMsgIn g0 s m h
      generalize inSessionFixMsgIn s m = r at h1
      obtain ⟨s', nx⟩ := r
      simp only [] at h1 ⊢
      split
      · exact h1
      · exact ih _ _ _ h1

theorem J0_sendResendRequest (g0 : G1) (s : Sess) (b e : Int) (h : J0 g0 s) : J0 g0 (sendResendRequest s b e).1 :=
  (pres_sendResendRequest g0 s b e).2 h

theorem J0_sRR_eq {g0 : G1} {s : Sess} {b e : Int} {r : Sess × Int × Int} (hr : sendResendRequest s b e = r) (h : J0 g0 s) : J0 g0 r.1 := by
  rw [← hr]; exact J0_sendResendRequest g0 s b e h

theorem J0_drain_eq {g0 : G1} {fuel : Nat} {s : Sess} {stash : List (Int × InMsg)} {last : SState} {r : Sess × SState × List (Int × InMsg)}
    (hr : drainStash fuel s stash last = r) (h : J0 g0 s) : J0 g0 r.1 := by
  rw [← hr]; exact J0_drainStash g0 fuel s stash last h

theorem J0_resendFixMsgIn (g0 : G1) (s : Sess) (stash : List (Int × InMsg)) (cur fin : Int) (m : InMsg) (h : J0 g0 s) :
    J0 g0 (resendFixMsgIn s stash cur fin m).1 := by
  unfold resendFixMsgIn
  have h1 := J0_inSessionFixMsgIn g0 s m h
  generalize inSessionFixMsgIn s m = r at h1
  obtain ⟨s', nx⟩ := r
  simp only [] at h1 ⊢
  repeat' split
  all_goals (try dsimp only)
  all_goals first
    | exact h1
    | exact J0_sendResendRequest g0 _ _ _ h1
    | exact J0_sRR_eq (by assumption) h1
    | exact J0_drain_eq (by assumption) h1

theorem J0_shutdownWithReason (g0 : G1) (s : Sess) (m : InMsg) (incr : Bool) (h : J0 g0 s) : J0 g0 (shutdownWithReason s m incr).1 := by
  unfold shutdownWithReason
  have : Pres g0 s (if incr = true then incrTarget (dropAndSend s ((mkOut "5" []).inReplyTo m)) else dropAndSend s ((mkOut "5" []).inReplyTo m)) := by pres_peel
  exact this.2 h

theorem J0_handleLogon_eq {g0 : G1} {s : Sess} {m : InMsg} {r : Sess × Option LogonErr} (hk : (kindOf m != "A") = false)
    (hr : handleLogon s m = r) (h : J0 g0 s) : J0 g0 r.1 := by
  have ha : isAdminKind (kindOf m) = true := by
    have : kindOf m = "A" := by simpa using hk
    rw [this]; decide
  rw [← hr]; exact (pres_handleLogon g0 s m ha).2 h

theorem J0_logonFixMsgIn (g0 : G1) (s : Sess) (m : InMsg) (h : J0 g0 s) : J0 g0 (logonFixMsgIn s m).1 := by
  unfold logonFixMsgIn
  split
  · exact h
  · rename_i hk
    have hk' : (kindOf m != "A") = false := by simpa using hk
    repeat' split
    all_goals (try dsimp only)
    all_goals (
      have hh := J0_handleLogon_eq hk' (by assumption : handleLogon s m = _) h
      first
        | exact hh
        | exact J0_shutdownWithReason g0 _ _ _ hh
        | exact J0_sRR_eq (by assumption) hh)

theorem J0_fixMsgInCore (g0 : G1) (s : Sess) (m : InMsg) (h : J0 g0 s) : J0 g0 (fixMsgInCore s m).1 := by
  unfold fixMsgInCore
  split
  · exact h
  · exact h
  · exact J0_logonFixMsgIn g0 s m h
  · have h1 := J0_inSessionFixMsgIn g0 s m h
    generalize inSessionFixMsgIn s m = r at h1
    obtain ⟨s', nx⟩ := r
    dsimp only
    split <;> exact h1
  · exact J0_inSessionFixMsgIn g0 s m h
  · exact J0_inSessionFixMsgIn g0 s m h
  · exact J0_resendFixMsgIn g0 s _ _ _ m h
  · exact J0_resendFixMsgIn g0 s _ _ _ m h


theorem pres_discMid (g0 : G1) (s : Sess) : Pres g0 s (discMid s) := by
  unfold discMid
  simp only []
  pres_peel

theorem J0_of_pres {g0 : G1} {a b : Sess} (hp : Pres g0 a b) (h : J0 g0 a) : J0 g0 b := hp.2 h

theorem J0_mutual (g0 : G1) : ∀ fuel : Nat,
    (∀ s next, J0 g0 s → J0 g0 (setState fuel s next)) ∧
    (∀ s, J0 g0 s → J0 g0 (drainIn fuel s)) ∧
    (∀ s m, J0 g0 s → J0 g0 (incoming fuel s m)) ∧
    (∀ s a b, J0 g0 s → J0 g0 (checkSessionTime fuel s a b)) := by
  intro fuel
  induction fuel with
  | zero =>
    refine ⟨?_, ?_, ?_, ?_⟩
    · intro s next h; unfold setState; exact J0_of_pres (by pres_peel) h
    · intro s h; unfold drainIn; exact h
    · intro s m h; unfold incoming; exact h
    · intro s a b h; unfold checkSessionTime; exact h
  | succ n ih =>
    obtain ⟨ihS, ihD, ihI, ihC⟩ := ih
    refine ⟨?_, ?_, ?_, ?_⟩
    · intro s next h
      unfold setState
      simp only []
      split
      · generalize hx : (if s.st.connected = true then (drainIn n (discMid (drainIn n s))).closeInbox else s) = x
        have hxJ : J0 g0 x := by
          rw [← hx]; split
          · exact J0_of_pres (by pres_peel) (ihD _ (J0_of_pres (pres_discMid g0 _) (ihD s h)))
          · exact h
        exact J0_of_pres (by pres_peel) hxJ
      · exact J0_of_pres (by pres_peel) h
    · intro s h
      unfold drainIn
      split
      · exact h
      · split
        · exact h
        · exact ihD _ (ihI _ _ (J0_of_pres (by pres_peel) h))
    · intro s m h
      unfold incoming
      simp only []
      have h1 := ihC s true true h
      generalize checkSessionTime n s true true = s1 at h1
      split
      · exact h1
      · cases m with
        | none => exact J0_of_pres (by pres_peel) h1
        | some m =>
          simp only []
          have hf := J0_fixMsgInCore g0 s1 m h1
          generalize fixMsgInCore s1 m = r at hf
          obtain ⟨s2, nx⟩ := r
          exact J0_of_pres (by pres_peel) (ihS s2 nx hf)
    · intro s a b h
      unfold checkSessionTime
      simp only []
      split
      · exact ihS _ _ (J0_of_pres (by pres_peel) h)
      · generalize hx : (if (!s.st.sessionTime) = true then setState n s SState.latent else s) = x
        have hxJ : J0 g0 x := by
          rw [← hx]; split
          · exact ihS _ _ h
          · exact h
        split
        · exact ihS _ _ (J0_of_pres (by pres_peel) hxJ)
        · exact hxJ


theorem pres_inSessionTimeout (g0 : G1) (s : Sess) (e : TimerEv) : Pres g0 s (inSessionTimeout s e).1 := by
  unfold inSessionTimeout
  pres_cases

theorem J0_ist_eq {g0 : G1} {s : Sess} {e : TimerEv} {r : Sess × Bool} (hr : inSessionTimeout s e = r) (h : J0 g0 s) : J0 g0 r.1 := by
  rw [← hr]; exact J0_of_pres (pres_inSessionTimeout g0 s e) h

theorem J0_timeoutCore (g0 : G1) (s : Sess) (e : TimerEv) (h : J0 g0 s) : J0 g0 (timeoutCore s e).1 := by
  unfold timeoutCore
  repeat' split
  all_goals (try dsimp only)
  all_goals first
    | exact h
    | exact J0_of_pres (pres_inSessionTimeout g0 s e) h
    | exact J0_ist_eq (by assumption) h

theorem J0_connect (g0 : G1) (s : Sess) (h : J0 g0 s) : J0 g0 (connect s).1 := by
  unfold connect
  repeat' split
  all_goals (try simp only [apply_ite Prod.fst])
  all_goals exact J0_of_pres (by pres_peel) h

theorem J0_stopNext (g0 : G1) (s : Sess) (h : J0 g0 s) : J0 g0 (stopNext s).1 := by
  unfold stopNext
  repeat' split
  all_goals (try dsimp only)
  all_goals first | exact h | exact J0_of_pres (by pres_peel) h

theorem peel_setLastChecked {g0 : G1} {s x : Sess} (n : Int) (hp : Pres g0 s x) : Pres g0 s (x.setLastChecked n) :=
  hp.trans ((Ext.of_eq (s := x) rfl rfl).pres g0)
macro_rules | `(tactic| pres_step) => `(tactic| apply peel_setLastChecked)

theorem pres_checkResetTime (g0 : G1) (s : Sess) (now : Int) : Pres g0 s (checkResetTime s now) := by
  unfold checkResetTime
  repeat' split
  all_goals (try dsimp only)
  all_goals pres_peel

theorem J0_stepCore (g0 : G1) (s : Sess) (e : Ev) (h : J0 g0 s) : J0 g0 (stepCore s e).1 := by
  obtain ⟨hS, hD, hI, hC⟩ := J0_mutual g0 (fuelOf s)
  unfold stepCore
  simp only []
  cases e with
  | connect => exact J0_connect g0 s h
  | incomingMsg m => exact hI s m h
  | arrive m => dsimp only; split <;> first | exact h | exact J0_of_pres (by pres_peel) h
  | pop =>
    dsimp only
    split
    · exact h
    · split
      · exact h
      · exact hI _ _ (J0_of_pres (by pres_peel) h)
  | timeout ev =>
    dsimp only
    have h1 := hC s true true h
    have h2 := J0_timeoutCore g0 _ ev h1
    generalize timeoutCore (checkSessionTime (fuelOf s) s true true) ev = r at h2
    obtain ⟨s2, nx⟩ := r
    exact hS s2 nx h2
  | disconnected => dsimp only; split <;> first | exact h | exact hS _ _ h
  | stop =>
    dsimp only
    have h1 : J0 g0 s.setPendingStop := J0_of_pres (by pres_peel) h
    have h2 := J0_stopNext g0 _ h1
    generalize stopNext s.setPendingStop = r at h2
    obtain ⟨s2, nx⟩ := r
    exact hS s2 nx h2
  | send m =>
    dsimp only
    have hp := (pres_prep g0 s m).2 h
    generalize prep s m = r at hp
    obtain ⟨o, s2⟩ := r
    cases o with
    | none => exact hp
    | some m' => exact J0_of_pres (by pres_peel) hp
  | flush =>
    dsimp only
    have h1 := hC s true true h
    split <;> exact J0_of_pres (by pres_peel) h1
  | sessionTime r sm => exact hC s r sm h
  | resetTime now => exact J0_of_pres (pres_checkResetTime g0 s now) h


end Qfx.Sess
