/-
  Sequential layer of C02, per-epoch clauses (wire order; saved since the last reset): invariant `E` over
  Qfx.Model.Session, same structure as Lemmas/SessC02.lean.  The clauses need one hypothesis on histories: the
  application does not itself submit a Logon carrying ResetSeqNumFlag=Y through SendToTarget (that would reset the
  store inside `prepMessageForSend` without dropping the queue); the engine never does (its Logons go through
  `dropAndSendInReplyTo`).
-/
import Qfx.Lemmas.SessC02
namespace Qfx.Sess.C02b
open Qfx Qfx.Sess Qfx.Sess.C02

def g3Of (p : Bool) (g0 : G3) (s : Sess) : G3 := s.log.reverse.foldl (g3Step p) g0

/-- the first-time numbers in the queue increase strictly from `lo` and stay below `b` -/
def QSeq : Int → List OutMsg → Int → Prop
  | lo, [], b => lo < b
  | lo, m :: q, b => if firstTime m = true then lo < m.seq ∧ QSeq m.seq q b else QSeq lo q b

theorem QSeq.lt {lo b : Int} {q : List OutMsg} (h : QSeq lo q b) : lo < b := by
  induction q generalizing lo with
  | nil => exact h
  | cons m q ih =>
    unfold QSeq at h
    split at h
    · exact Int.lt_trans h.1 (ih h.2)
    · exact ih h

theorem QSeq.mono {lo b b' : Int} {q : List OutMsg} (h : QSeq lo q b) (hb : b ≤ b') : QSeq lo q b' := by
  induction q generalizing lo with
  | nil => exact Int.lt_of_lt_of_le h hb
  | cons m q ih =>
    unfold QSeq at h ⊢
    split at h
    · rename_i hf; rw [if_pos hf]; exact ⟨h.1, ih h.2⟩
    · rename_i hf; rw [if_neg hf]; exact ih h

theorem QSeq.snoc {lo b : Int} {q : List OutMsg} {m : OutMsg} (h : QSeq lo q m.seq) (hb : m.seq < b) :
    QSeq lo (q ++ [m]) b := by
  induction q generalizing lo with
  | nil =>
    simp only [List.nil_append, QSeq]
    split
    · exact ⟨h, hb⟩
    · exact Int.lt_trans h hb
  | cons x q ih =>
    simp only [List.cons_append]
    unfold QSeq at h ⊢
    split at h
    · rename_i hf; rw [if_pos hf]; exact ⟨h.1, ih h.2⟩
    · rename_i hf; rw [if_neg hf]; exact ih h

theorem QSeq.snoc_dup {lo b : Int} {q : List OutMsg} {m : OutMsg} (h : QSeq lo q b) (hd : firstTime m = false) :
    QSeq lo (q ++ [m]) b := by
  induction q generalizing lo with
  | nil => simp only [List.nil_append, QSeq, hd]; exact h
  | cons x q ih =>
    simp only [List.cons_append]
    unfold QSeq at h ⊢
    split at h
    · rename_i hf; rw [if_pos hf]; exact ⟨h.1, ih h.2⟩
    · rename_i hf; rw [if_neg hf]; exact ih h

def triple (m : OutMsg) : Int × String × Bool := (m.seq, m.kind, resendable m)

/-- invariant: the per-epoch monitor is happy, persistence as configured, the queue is ordered between the last
    first-time write and the store's next number, and (with persistence) every queued first-time message has been saved
    since the last reset -/
def E (p : Bool) (g0 : G3) (s : Sess) : Prop :=
  (g3Of p g0 s).ok = true ∧ s.cfg.persist = p ∧ QSeq (g3Of p g0 s).lastFirst s.toSend s.store.sender ∧
  (p = true → ∀ m ∈ s.toSend, firstTime m = true → triple m ∈ (g3Of p g0 s).savedE)

theorem g3Of_emit (p : Bool) (g0 : G3) (s : Sess) (o : Obs) : g3Of p g0 (s.emit o) = g3Step p (g3Of p g0 s) o := by
  simp [g3Of, Sess.emit, List.foldl_append]

theorem g3Step_neutral (p : Bool) (g : G3) (o : Obs) (h : neutral o = true) : g3Step p g o = g := by
  cases o <;> simp_all [g3Step, neutral]

theorem foldl_neutral3 (p : Bool) (g : G3) (l : List Obs) (h : l.all neutral = true) : l.foldl (g3Step p) g = g := by
  induction l generalizing g with
  | nil => rfl
  | cons o l ih =>
    simp only [List.all_cons, Bool.and_eq_true] at h
    simp only [List.foldl_cons, g3Step_neutral p g o h.1]; exact ih g h.2

theorem Ext.g3 {s s' : Sess} (h : Ext s s') (p : Bool) (g0 : G3) : g3Of p g0 s' = g3Of p g0 s := by
  obtain ⟨_, _, _, e, l, n⟩ := h
  unfold g3Of
  rw [l, List.reverse_append, List.foldl_append]
  exact foldl_neutral3 _ _ _ (by simpa using n)

def Pres (p : Bool) (g0 : G3) (s s' : Sess) : Prop := E p g0 s → E p g0 s'

theorem Pres.refl (p : Bool) (g0 : G3) (s : Sess) : Pres p g0 s s := id
theorem Pres.trans {p : Bool} {g0 : G3} {a b c : Sess} (h1 : Pres p g0 a b) (h2 : Pres p g0 b c) : Pres p g0 a c :=
  fun h => h2 (h1 h)

theorem _root_.Qfx.Sess.C02.Ext.pres3 {s s' : Sess} (h : Ext s s') (p : Bool) (g0 : G3) : Pres p g0 s s' := by
  intro hk
  unfold E at *
  rw [Ext.g3 h p g0, h.snd, h.q, h.cfg]; exact hk

/-! ### primitives -/

theorem E_setToSend_nil {p : Bool} {g0 : G3} {s : Sess} (h : E p g0 s) : E p g0 (s.setToSend []) := by
  obtain ⟨hok, hc, hq, hs⟩ := h
  exact ⟨hok, hc, hq.lt, fun _ m hm => by simp [Sess.setToSend] at hm⟩

/-- dropAndReset: the queue is emptied first, so nothing of the old epoch can be written later -/
theorem pres_dropAndReset (p : Bool) (g0 : G3) (s : Sess) : Pres p g0 s (dropAndReset s) := by
  intro ⟨hok, hc, _, _⟩
  unfold dropAndReset E Sess.storeReset
  rw [g3Of_emit]
  have hg : g3Of p g0 { s.setToSend [] with store := (s.setToSend []).store.reset } = g3Of p g0 s := rfl
  rw [hg]
  refine ⟨by simpa [g3Step] using hok, hc, ?_, ?_⟩
  · simp [g3Step, Sess.emit, Sess.setToSend, Store.reset, QSeq]
  · intro _ m hm; simp [Sess.emit, Sess.setToSend] at hm

/-- persisting under the store's own next number -/
theorem E_persistOut (p : Bool) (g0 : G3) (s : Sess) (m : OutMsg) (h : E p g0 s) :
    E p g0 (s.persistOut s.store.sender m) ∧
    (g3Of p g0 (s.persistOut s.store.sender m)).lastFirst = (g3Of p g0 s).lastFirst ∧
    (s.persistOut s.store.sender m).toSend = s.toSend ∧
    (s.persistOut s.store.sender m).store.sender = s.store.sender + 1 ∧
    (p = true → (s.store.sender, m.kind, resendable m) ∈ (g3Of p g0 (s.persistOut s.store.sender m)).savedE) := by
  obtain ⟨hok, hc, hq, hs⟩ := h
  unfold Sess.persistOut
  split
  · rename_i hp
    have hg : g3Of p g0 { s with store := { s.store with msgs := (s.store.sender, m) :: s.store.msgs, sender := s.store.sender + 1 } } = g3Of p g0 s := rfl
    refine ⟨?_, ?_, rfl, rfl, ?_⟩
    · unfold E
      rw [g3Of_emit, hg]
      refine ⟨by simpa [g3Step] using hok, hc, ?_, ?_⟩
      · simp only [g3Step, Sess.emit]
        exact hq.mono (by omega)
      · intro hpp x hx hf
        simp only [g3Step, List.mem_cons]
        exact Or.inr (hs hpp x hx hf)
    · rw [g3Of_emit, hg]; rfl
    · intro _
      rw [g3Of_emit, hg]
      simp [g3Step]
  · rename_i hp
    have hpp : p = false := by rw [← hc]; simpa using hp
    have hg : g3Of p g0 { s with store := { s.store with sender := s.store.sender + 1 } } = g3Of p g0 s := rfl
    refine ⟨?_, ?_, rfl, rfl, ?_⟩
    · unfold E
      rw [g3Of_emit, hg]
      refine ⟨by simpa [g3Step] using hok, hc, ?_, ?_⟩
      · simp only [g3Step, Sess.emit]
        exact hq.mono (by omega)
      · intro h; rw [hpp] at h; cases h
    · rw [g3Of_emit, hg]; rfl
    · intro h; rw [hpp] at h; cases h

/-- writing the whole queue in order -/
theorem foldl_wire3 (p : Bool) (pers : Bool) (b : Int) :
    ∀ (l : List OutMsg) (g : G3), g.ok = true → QSeq g.lastFirst l b →
      (pers = true → ∀ m ∈ l, firstTime m = true → triple m ∈ g.savedE) → p = pers →
      ((l.map Obs.wire).foldl (g3Step p) g).ok = true ∧ ((l.map Obs.wire).foldl (g3Step p) g).lastFirst < b ∧
      ((l.map Obs.wire).foldl (g3Step p) g).savedE = g.savedE := by
  intro l
  induction l with
  | nil => intro g hok hq _ _; exact ⟨hok, hq, rfl⟩
  | cons m l ih =>
    intro g hok hq hs hp
    simp only [List.map_cons, List.foldl_cons]
    unfold QSeq at hq
    by_cases hf : firstTime m = true
    · rw [if_pos hf] at hq
      have hstep : g3Step p g (.wire m) = { g with lastFirst := m.seq } := by
        simp only [g3Step, hf, if_true]
        have h1 : decide (g.lastFirst < m.seq) = true := by simpa using hq.1
        have h2 : (!p || g.savedE.contains (m.seq, m.kind, resendable m)) = true := by
          cases hpp : p with
          | false => simp
          | true =>
            have := hs (by rw [← hp]; exact hpp) m (by simp) hf
            simp [triple] at this
            simp [this]
        rw [hok, h1, h2]; rfl
      rw [hstep]
      exact ih _ hok hq.2 (fun hpp x hx hxf => hs hpp x (by simp [hx]) hxf) hp
    · rw [if_neg hf] at hq
      have hstep : g3Step p g (.wire m) = g := by simp [g3Step, hf]
      rw [hstep]
      exact ih _ hok hq (fun hpp x hx hxf => hs hpp x (by simp [hx]) hxf) hp

theorem pres_sendQueued (p : Bool) (g0 : G3) (s : Sess) : Pres p g0 s (sendQueued s) := by
  intro ⟨hok, hc, hq, hs⟩
  unfold sendQueued
  split
  · unfold E
    have hg : g3Of p g0 { s with log := (s.toSend.map Obs.wire).reverse ++ s.log, toSend := [] }
        = (s.toSend.map Obs.wire).foldl (g3Step p) (g3Of p g0 s) := by
      unfold g3Of
      simp only [List.reverse_append, List.reverse_reverse, List.foldl_append]
    rw [hg]
    obtain ⟨a, b, c⟩ := foldl_wire3 p p s.store.sender s.toSend (g3Of p g0 s) hok hq hs rfl
    exact ⟨a, hc, b, fun _ m hm => by simp at hm⟩
  · exact ⟨hok, hc, hq, hs⟩

theorem E_setToSend_snoc {p : Bool} {g0 : G3} {s : Sess} {m : OutMsg} (h : E p g0 s)
    (hq : QSeq (g3Of p g0 s).lastFirst (s.toSend ++ [m]) s.store.sender)
    (hm : p = true → firstTime m = true → triple m ∈ (g3Of p g0 s).savedE) :
    E p g0 (s.setToSend (s.toSend ++ [m])) := by
  obtain ⟨hok, hc, _, hs⟩ := h
  refine ⟨hok, hc, hq, fun hp x hx hf => ?_⟩
  simp only [Sess.setToSend, List.mem_append, List.mem_singleton] at hx
  rcases hx with hx | hx
  · exact hs hp x hx hf
  · subst hx; exact hm hp hf

/-- the ResetSeqNumFlag branch of prepMessageForSend is not taken -/
def noResetLogon (m : OutMsg) : Bool := !(m.kind == "A" && m.f.get? 141 == some "Y")

/-- prepMessageForSend outside the Logon-reset branch: the numbered message can be appended to the queue -/
theorem E_prepCore (p : Bool) (g0 : G3) (s : Sess) (m : OutMsg) (hn : noResetLogon m = true) (h : E p g0 s) :
    E p g0 (prepCore s m).2 ∧ (∀ m', (prepCore s m).1 = some m' →
      QSeq (g3Of p g0 (prepCore s m).2).lastFirst ((prepCore s m).2.toSend ++ [m']) (prepCore s m).2.store.sender ∧
      (p = true → firstTime m' = true → triple m' ∈ (g3Of p g0 (prepCore s m).2).savedE)) := by
  have hn' : (m.kind == "A" && m.f.get? 141 == some "Y") = false := by
    unfold noResetLogon at hn
    cases hb : (m.kind == "A" && m.f.get? 141 == some "Y") with
    | false => rfl
    | true => rw [hb] at hn; cases hn
  have key : ∀ (m0 : OutMsg), m0 = { m with seq := s.store.sender } →
      E p g0 (s.persistOut s.store.sender m0) ∧
      (QSeq (g3Of p g0 (s.persistOut s.store.sender m0)).lastFirst ((s.persistOut s.store.sender m0).toSend ++ [m0])
          (s.persistOut s.store.sender m0).store.sender ∧
       (p = true → firstTime m0 = true → triple m0 ∈ (g3Of p g0 (s.persistOut s.store.sender m0)).savedE)) := by
    intro m0 hm0
    obtain ⟨a, b, c, d, e⟩ := E_persistOut p g0 s m0 h
    refine ⟨a, ?_, fun hp _ => ?_⟩
    · rw [b, c, d]
      have hseq : m0.seq = s.store.sender := by rw [hm0]
      exact QSeq.snoc (by rw [hseq]; exact h.2.2.1) (by rw [hseq]; omega)
    · have := e hp
      have hseq : m0.seq = s.store.sender := by rw [hm0]
      simpa [triple, hseq] using this
  unfold prepCore
  simp only []
  split
  · rw [if_neg (by simpa using hn')]
    simp only []
    obtain ⟨a, b⟩ := key _ rfl
    exact ⟨a, fun m' hm' => by simp only [Option.some.injEq] at hm'; subst hm'; exact b⟩
  · split
    · exact ⟨h, fun m' hm' => by cases hm'⟩
    · obtain ⟨a, b⟩ := key _ rfl
      exact ⟨a, fun m' hm' => by simp only [Option.some.injEq] at hm'; subst hm'; exact b⟩

theorem noResetLogon_stamp (s : Sess) (m : OutMsg) : noResetLogon (stamp s m) = noResetLogon m := by simp [noResetLogon]
theorem noResetLogon_asNew (m : OutMsg) : noResetLogon m.asNew = noResetLogon m := rfl
theorem noResetLogon_re (o : OutMsg) (m : InMsg) (h : noResetLogon o = true) : noResetLogon (o.inReplyTo m) = true := h

theorem E_prep (p : Bool) (g0 : G3) (s : Sess) (m : OutMsg) (hn : noResetLogon m = true) (h : E p g0 s) :
    E p g0 (prep s m).2 ∧ (∀ m', (prep s m).1 = some m' →
      QSeq (g3Of p g0 (prep s m).2).lastFirst ((prep s m).2.toSend ++ [m']) (prep s m).2.store.sender ∧
      (p = true → firstTime m' = true → triple m' ∈ (g3Of p g0 (prep s m).2).savedE)) :=
  E_prepCore p g0 s (stamp s m) (by rw [noResetLogon_stamp]; exact hn) h

theorem pres_queueForSend (p : Bool) (g0 : G3) (s : Sess) (m : OutMsg) (hn : noResetLogon m = true) :
    Pres p g0 s (queueForSend s m) := by
  intro h
  unfold queueForSend
  have hp := E_prep p g0 s m hn h
  generalize prep s m = r at hp
  obtain ⟨o, s'⟩ := r
  cases o with
  | none => exact hp.1
  | some m' => exact E_setToSend_snoc hp.1 (hp.2 m' rfl).1 (hp.2 m' rfl).2

theorem pres_sendInReplyTo (p : Bool) (g0 : G3) (s : Sess) (m : OutMsg) (hn : noResetLogon m = true) :
    Pres p g0 s (sendInReplyTo s m) := by
  intro h
  unfold sendInReplyTo
  split
  · exact pres_queueForSend p g0 s _ (by rw [noResetLogon_asNew]; exact hn) h
  · have hp := E_prep p g0 s m hn h
    generalize prep s m = r at hp
    obtain ⟨o, s'⟩ := r
    cases o with
    | none => exact hp.1
    | some m' => exact pres_sendQueued p g0 _ (E_setToSend_snoc hp.1 (hp.2 m' rfl).1 (hp.2 m' rfl).2)

/-! ### dropAndSendInReplyTo: the queue is replaced, so the Logon-reset branch is harmless there -/

/-- the part of `E` that does not speak about the queue -/
def E0 (p : Bool) (g0 : G3) (s : Sess) : Prop :=
  (g3Of p g0 s).ok = true ∧ s.cfg.persist = p ∧ (g3Of p g0 s).lastFirst < s.store.sender

theorem E.toE0 {p : Bool} {g0 : G3} {s : Sess} (h : E p g0 s) : E0 p g0 s := ⟨h.1, h.2.1, h.2.2.1.lt⟩

theorem E0_storeReset {p : Bool} {g0 : G3} {s : Sess} (h : E0 p g0 s) : E0 p g0 s.storeReset := by
  obtain ⟨hok, hc, _⟩ := h
  unfold E0 Sess.storeReset
  rw [g3Of_emit]
  have hg : g3Of p g0 { s with store := s.store.reset } = g3Of p g0 s := rfl
  rw [hg]
  exact ⟨by simpa [g3Step] using hok, hc, by simp [g3Step, Sess.emit, Store.reset]⟩

theorem E0_persistOut (p : Bool) (g0 : G3) (s : Sess) (m : OutMsg) (h : E0 p g0 s) :
    E0 p g0 (s.persistOut s.store.sender m) ∧
    (g3Of p g0 (s.persistOut s.store.sender m)).lastFirst < s.store.sender ∧
    (s.persistOut s.store.sender m).store.sender = s.store.sender + 1 ∧
    (p = true → (s.store.sender, m.kind, resendable m) ∈ (g3Of p g0 (s.persistOut s.store.sender m)).savedE) := by
  obtain ⟨hok, hc, hl⟩ := h
  unfold Sess.persistOut
  split
  · have hg : g3Of p g0 { s with store := { s.store with msgs := (s.store.sender, m) :: s.store.msgs, sender := s.store.sender + 1 } } = g3Of p g0 s := rfl
    refine ⟨?_, ?_, rfl, ?_⟩
    · unfold E0
      rw [g3Of_emit, hg]
      exact ⟨by simpa [g3Step] using hok, hc, by simp only [g3Step, Sess.emit]; omega⟩
    · rw [g3Of_emit, hg]; exact hl
    · intro _; rw [g3Of_emit, hg]; simp [g3Step]
  · rename_i hp
    have hpp : p = false := by rw [← hc]; simpa using hp
    have hg : g3Of p g0 { s with store := { s.store with sender := s.store.sender + 1 } } = g3Of p g0 s := rfl
    refine ⟨?_, ?_, rfl, ?_⟩
    · unfold E0
      rw [g3Of_emit, hg]
      exact ⟨by simpa [g3Step] using hok, hc, by simp only [g3Step, Sess.emit]; omega⟩
    · rw [g3Of_emit, hg]; exact hl
    · intro h; rw [hpp] at h; cases h

/-- prepMessageForSend, any message: the numbered message lies strictly between the last first-time write and the
    store's next number, and has been saved in the current epoch -/
theorem E0_prepCore (p : Bool) (g0 : G3) (s : Sess) (m : OutMsg) (h : E0 p g0 s) :
    E0 p g0 (prepCore s m).2 ∧ (∀ m', (prepCore s m).1 = some m' →
      (g3Of p g0 (prepCore s m).2).lastFirst < m'.seq ∧ m'.seq < (prepCore s m).2.store.sender ∧
      (p = true → triple m' ∈ (g3Of p g0 (prepCore s m).2).savedE)) := by
  have key : ∀ (s1 : Sess), E0 p g0 s1 → ∀ (m0 : OutMsg), m0 = { m with seq := s1.store.sender } →
      E0 p g0 (s1.persistOut s1.store.sender m0) ∧
      ((g3Of p g0 (s1.persistOut s1.store.sender m0)).lastFirst < m0.seq ∧
        m0.seq < (s1.persistOut s1.store.sender m0).store.sender ∧
       (p = true → triple m0 ∈ (g3Of p g0 (s1.persistOut s1.store.sender m0)).savedE)) := by
    intro s1 h1 m0 hm0
    obtain ⟨a, b, c, d⟩ := E0_persistOut p g0 s1 m0 h1
    have hseq : m0.seq = s1.store.sender := by rw [hm0]
    refine ⟨a, by rw [hseq]; exact b, by rw [hseq, c]; omega, fun hp => ?_⟩
    have := d hp
    simpa [triple, hseq] using this
  unfold prepCore
  simp only []
  split
  · split
    · have h1 : E0 p g0 (s.storeReset.setSentReset true) := E0_storeReset h
      obtain ⟨a, b⟩ := key _ h1 _ rfl
      exact ⟨a, fun m' hm' => by simp only [Option.some.injEq] at hm'; subst hm'; exact b⟩
    · obtain ⟨a, b⟩ := key _ h _ rfl
      exact ⟨a, fun m' hm' => by simp only [Option.some.injEq] at hm'; subst hm'; exact b⟩
  · split
    · exact ⟨h, fun m' hm' => by cases hm'⟩
    · obtain ⟨a, b⟩ := key _ h _ rfl
      exact ⟨a, fun m' hm' => by simp only [Option.some.injEq] at hm'; subst hm'; exact b⟩

theorem E0_prep (p : Bool) (g0 : G3) (s : Sess) (m : OutMsg) (h : E0 p g0 s) :
    E0 p g0 (prep s m).2 ∧ (∀ m', (prep s m).1 = some m' →
      (g3Of p g0 (prep s m).2).lastFirst < m'.seq ∧ m'.seq < (prep s m).2.store.sender ∧
      (p = true → triple m' ∈ (g3Of p g0 (prep s m).2).savedE)) :=
  E0_prepCore p g0 s (stamp s m) h

theorem E_setToSend_single {p : Bool} {g0 : G3} {s : Sess} {m : OutMsg} (h : E0 p g0 s)
    (h1 : (g3Of p g0 s).lastFirst < m.seq) (h2 : m.seq < s.store.sender)
    (h3 : p = true → triple m ∈ (g3Of p g0 s).savedE) : E p g0 (s.setToSend [m]) := by
  obtain ⟨hok, hc, hl⟩ := h
  refine ⟨hok, hc, ?_, fun hp x hx _ => ?_⟩
  · show QSeq (g3Of p g0 s).lastFirst [m] s.store.sender
    simp only [QSeq]
    split
    · exact ⟨h1, h2⟩
    · exact hl
  · simp only [Sess.setToSend, List.mem_singleton] at hx
    subst hx; exact h3 hp

theorem pres_dropAndSend (p : Bool) (g0 : G3) (s : Sess) (m : OutMsg) : Pres p g0 s (dropAndSend s m) := by
  intro h
  unfold dropAndSend
  have hp := E0_prep p g0 s m h.toE0
  have hq : (prep s m).1 = none → (prep s m).2 = s := by
    unfold prep prepCore
    simp only []
    split
    · intro hx; simp at hx
    · split
      · intro _; rfl
      · intro hx; simp at hx
  generalize hr : prep s m = r at hp hq
  obtain ⟨o, s'⟩ := r
  cases o with
  | none =>
    have hs' : s' = s := by simpa using hq
    simp only []
    rw [hs']; exact h
  | some m' =>
    obtain ⟨a, b, c⟩ := hp.2 m' rfl
    exact pres_sendQueued p g0 _ (E_setToSend_single hp.1 a b c)

/-- EnqueueBytesAndSend of a replayed message or gap fill -/
theorem pres_enqueueAndSend (p : Bool) (g0 : G3) (s : Sess) (m : OutMsg) (hd : firstTime m = false) :
    Pres p g0 s (enqueueAndSend s m) := by
  intro h
  unfold enqueueAndSend
  simp only []
  have snoc : ∀ s1 : Sess, E p g0 s1 → E p g0 (s1.setToSend (s1.toSend ++ [m])) := fun s1 h1 =>
    E_setToSend_snoc h1 (QSeq.snoc_dup h1.2.2.1 hd) (fun _ hf => by rw [hd] at hf; cases hf)
  split
  · exact pres_sendQueued p g0 _ (snoc _ (E_setToSend_nil h))
  · exact pres_sendQueued p g0 _ (snoc _ h)

/-! ### derived: every model function preserves `E` -/

theorem noResetLogon_of_kind {m : OutMsg} (h : (m.kind == "A") = false) : noResetLogon m = true := by
  simp [noResetLogon, h]

theorem noResetLogon_mkOut (k : String) (f : Fields) (h : (k == "A") = false) : noResetLogon (mkOut k f) = true :=
  noResetLogon_of_kind h

theorem noResetLogon_rejectMsg (cfg : Cfg) (m : InMsg) (r : Nat) (t : Option Nat) (b : Bool) :
    noResetLogon (rejectMsg cfg m r t b) = true := by
  unfold rejectMsg
  simp only []
  split
  · split
    · exact noResetLogon_mkOut _ _ (by decide)
    · exact noResetLogon_mkOut _ _ (by decide)
  · exact noResetLogon_mkOut _ _ (by decide)

theorem pres_sendLogonInReplyTo (p : Bool) (g0 : G3) (s : Sess) (r : Bool) : Pres p g0 s (sendLogonInReplyTo s r) := pres_dropAndSend p g0 s _
theorem pres_sendLogout (p : Bool) (g0 : G3) (s : Sess) : Pres p g0 s (sendLogout s) :=
  pres_sendInReplyTo p g0 s _ (noResetLogon_mkOut _ _ (by decide))
theorem pres_initiateLogout (p : Bool) (g0 : G3) (s : Sess) : Pres p g0 s (initiateLogout s) := pres_sendLogout p g0 s

theorem pres_sendResendRequest (p : Bool) (g0 : G3) (s : Sess) (b e : Int) : Pres p g0 s (sendResendRequest s b e).1 := by
  unfold sendResendRequest
  simp only []
  split <;> exact pres_sendInReplyTo p g0 s _ (noResetLogon_mkOut _ _ (by decide))

theorem pres_doReject (p : Bool) (g0 : G3) (s : Sess) (m : InMsg) (r : Nat) (t : Option Nat) (b : Bool) :
    Pres p g0 s (doReject s m r t b) :=
  pres_sendInReplyTo p g0 s _ (noResetLogon_re _ _ (noResetLogon_rejectMsg _ _ _ _ _))

section peel
variable {p : Bool} {g0 : G3} {s x : Sess}
theorem peel_incrTarget (h : Pres p g0 s x) : Pres p g0 s (incrTarget x) := h.trans ((ext_incrTarget x).pres3 p g0)
theorem peel_doReject (m : InMsg) (r : Nat) (t : Option Nat) (b : Bool) (h : Pres p g0 s x) : Pres p g0 s (doReject x m r t b) := h.trans (pres_doReject p g0 x m r t b)
theorem peel_initiateLogout (h : Pres p g0 s x) : Pres p g0 s (initiateLogout x) := h.trans (pres_initiateLogout p g0 x)
theorem peel_sendLogout (h : Pres p g0 s x) : Pres p g0 s (sendLogout x) := h.trans (pres_sendLogout p g0 x)
theorem peel_sendInReplyTo (m : OutMsg) (hn : noResetLogon m = true) (h : Pres p g0 s x) : Pres p g0 s (sendInReplyTo x m) := h.trans (pres_sendInReplyTo p g0 x m hn)
theorem peel_dropAndSend (m : OutMsg) (h : Pres p g0 s x) : Pres p g0 s (dropAndSend x m) := h.trans (pres_dropAndSend p g0 x m)
theorem peel_dropAndReset (h : Pres p g0 s x) : Pres p g0 s (dropAndReset x) := h.trans (pres_dropAndReset p g0 x)
theorem peel_sendQueued (h : Pres p g0 s x) : Pres p g0 s (sendQueued x) := h.trans (pres_sendQueued p g0 x)
theorem peel_sendLogonInReplyTo (r : Bool) (h : Pres p g0 s x) : Pres p g0 s (sendLogonInReplyTo x r) := h.trans (pres_sendLogonInReplyTo p g0 x r)
theorem peel_sendResendRequest (b e : Int) (h : Pres p g0 s x) : Pres p g0 s (sendResendRequest x b e).1 := h.trans (pres_sendResendRequest p g0 x b e)
theorem peel_sendLogonRe (r : Bool) (m : InMsg) (h : Pres p g0 s x) : Pres p g0 s (sendLogonRe x r m) := h.trans (pres_dropAndSend p g0 x _)
theorem peel_setReplyLast (v : Option Int) (hp : Pres p g0 s x) : Pres p g0 s (x.setReplyLast v) := hp.trans ((C02.Ext.of_eq (s := x) rfl rfl rfl rfl).pres3 p g0)
theorem peel_emit (o : Obs) (hn : neutral o = true) (h : Pres p g0 s x) : Pres p g0 s (x.emit o) := h.trans ((C02.Ext.emit x o hn).pres3 p g0)
theorem peel_setToSend_nil (h : Pres p g0 s x) : Pres p g0 s (x.setToSend []) := fun hk => E_setToSend_nil (h hk)
theorem peel_setTarget (n : Int) (h : Pres p g0 s x) : Pres p g0 s (x.setTarget n) := h.trans ((C02.Ext.of_eq (s := x) rfl rfl rfl rfl).pres3 p g0)
theorem peel_setHb (hb : Int) (hp : Pres p g0 s x) : Pres p g0 s (x.setHb hb) := hp.trans ((C02.Ext.of_eq (s := x) rfl rfl rfl rfl).pres3 p g0)
theorem peel_setSentReset (b : Bool) (hp : Pres p g0 s x) : Pres p g0 s (x.setSentReset b) := hp.trans ((C02.Ext.of_eq (s := x) rfl rfl rfl rfl).pres3 p g0)
theorem peel_setSt (st : SState) (hp : Pres p g0 s x) : Pres p g0 s (x.setSt st) := hp.trans ((C02.Ext.of_eq (s := x) rfl rfl rfl rfl).pres3 p g0)
theorem peel_setOut (b : Bool) (hp : Pres p g0 s x) : Pres p g0 s (x.setOut b) := hp.trans ((C02.Ext.of_eq (s := x) rfl rfl rfl rfl).pres3 p g0)
theorem peel_setInbox (ib : List InMsg) (hp : Pres p g0 s x) : Pres p g0 s (x.setInbox ib) := hp.trans ((C02.Ext.of_eq (s := x) rfl rfl rfl rfl).pres3 p g0)
theorem peel_closeInbox (hp : Pres p g0 s x) : Pres p g0 s x.closeInbox := hp.trans ((C02.Ext.of_eq (s := x) rfl rfl rfl rfl).pres3 p g0)
theorem peel_setPendingStop (hp : Pres p g0 s x) : Pres p g0 s x.setPendingStop := hp.trans ((C02.Ext.of_eq (s := x) rfl rfl rfl rfl).pres3 p g0)
theorem peel_setStopped (hp : Pres p g0 s x) : Pres p g0 s x.setStopped := hp.trans ((C02.Ext.of_eq (s := x) rfl rfl rfl rfl).pres3 p g0)
theorem peel_openConn (hp : Pres p g0 s x) : Pres p g0 s x.openConn := hp.trans ((C02.Ext.of_eq (s := x) rfl rfl rfl rfl).pres3 p g0)
theorem pres_ite {a b : Sess} (c : Prop) [Decidable c] (ha : Pres p g0 s a) (hb : Pres p g0 s b) : Pres p g0 s (if c then a else b) := by
  split <;> assumption
end peel

syntax "c3_step" : tactic
macro_rules | `(tactic| c3_step) => `(tactic| assumption)
macro_rules | `(tactic| c3_step) => `(tactic| exact Pres.refl _ _ _)
macro_rules | `(tactic| c3_step) => `(tactic| apply peel_incrTarget)
macro_rules | `(tactic| c3_step) => `(tactic| apply peel_doReject)
macro_rules | `(tactic| c3_step) => `(tactic| apply peel_initiateLogout)
macro_rules | `(tactic| c3_step) => `(tactic| apply peel_sendLogout)
macro_rules | `(tactic| c3_step) => `(tactic| apply peel_sendInReplyTo _ (noResetLogon_mkOut _ _ (by decide)))
macro_rules | `(tactic| c3_step) => `(tactic| apply peel_dropAndSend)
macro_rules | `(tactic| c3_step) => `(tactic| apply peel_dropAndReset)
macro_rules | `(tactic| c3_step) => `(tactic| apply peel_sendQueued)
macro_rules | `(tactic| c3_step) => `(tactic| apply peel_sendLogonInReplyTo)
macro_rules | `(tactic| c3_step) => `(tactic| apply peel_sendResendRequest)
macro_rules | `(tactic| c3_step) => `(tactic| apply peel_sendLogonRe)
macro_rules | `(tactic| c3_step) => `(tactic| apply peel_setReplyLast)
macro_rules | `(tactic| c3_step) => `(tactic| apply peel_sendInReplyTo _ (noResetLogon_re _ _ (noResetLogon_mkOut _ _ (by decide))))
macro_rules | `(tactic| c3_step) => `(tactic| apply peel_emit _ (by simp [neutral]))
macro_rules | `(tactic| c3_step) => `(tactic| apply peel_setToSend_nil)
macro_rules | `(tactic| c3_step) => `(tactic| apply peel_setTarget)
macro_rules | `(tactic| c3_step) => `(tactic| apply peel_setHb)
macro_rules | `(tactic| c3_step) => `(tactic| apply peel_setSentReset)
macro_rules | `(tactic| c3_step) => `(tactic| apply peel_setSt)
macro_rules | `(tactic| c3_step) => `(tactic| apply peel_setOut)
macro_rules | `(tactic| c3_step) => `(tactic| apply peel_setInbox)
macro_rules | `(tactic| c3_step) => `(tactic| apply peel_closeInbox)
macro_rules | `(tactic| c3_step) => `(tactic| apply peel_setPendingStop)
macro_rules | `(tactic| c3_step) => `(tactic| apply peel_setStopped)
macro_rules | `(tactic| c3_step) => `(tactic| apply peel_openConn)
macro_rules | `(tactic| c3_step) => `(tactic| apply pres_ite)

macro "c3_peel" : tactic => `(tactic| with_reducible (repeat c3_step))

macro "c3_cases" : tactic => `(tactic| (
  (repeat' split)
  all_goals (try dsimp only)
  all_goals (repeat' split)
  all_goals (try dsimp only)
  all_goals (repeat' split)
  all_goals (try dsimp only)
  all_goals c3_peel))

theorem pres_doTargetTooLow (p : Bool) (g0 : G3) (s : Sess) (m : InMsg) : Pres p g0 s (doTargetTooLow s m).1 := by
  unfold doTargetTooLow
  c3_cases

theorem pres_processReject (p : Bool) (g0 : G3) (s : Sess) (m : InMsg) (r : Rej) : Pres p g0 s (processReject s m r).1 := by
  unfold processReject
  split
  · split
    · exact Pres.refl p g0 s
    · split
      rename_i recv exp _ _ _ _ _ _ heq
      have := pres_sendResendRequest p g0 s exp (recv - 1)
      rw [heq] at this; exact this
  · exact pres_doTargetTooLow p g0 s m
  all_goals c3_cases

theorem peel_processReject {p : Bool} {g0 : G3} {s x : Sess} (m : InMsg) (r : Rej) (h : Pres p g0 s x) :
    Pres p g0 s (processReject x m r).1 :=
  h.trans (pres_processReject p g0 x m r)
macro_rules | `(tactic| c3_step) => `(tactic| apply peel_processReject)

theorem pres_handleLogout (p : Bool) (g0 : G3) (s : Sess) (m : InMsg) : Pres p g0 s (handleLogout s m).1 := by
  unfold handleLogout
  have hv := (ext_verifySelect s m false false true).pres3 p g0
  generalize verifySelect s m false false true = r at hv
  obtain ⟨s', o⟩ := r
  cases o with
  | some r => exact peel_processReject m r hv
  | none => dsimp only; c3_cases

theorem pres_handleTestRequest (p : Bool) (g0 : G3) (s : Sess) (m : InMsg) : Pres p g0 s (handleTestRequest s m).1 := by
  unfold handleTestRequest
  have hv := (ext_verifySelect s m true true true).pres3 p g0
  generalize verifySelect s m true true true = r at hv
  obtain ⟨s', o⟩ := r
  cases o with
  | some r => exact peel_processReject m r hv
  | none => dsimp only; c3_cases

theorem pres_handleSequenceReset_core (p : Bool) (g0 : G3) (s : Sess) (m : InMsg) (gf : Bool) :
    Pres p g0 s (match verifySelect s m gf gf true with
      | (s, some r) => processReject s m r
      | (s, none) =>
        match getInt m 36 with
        | .val n =>
          if n > s.store.target then ((s.setTarget n).emit (.setT n), SState.inSession)
          else if n < s.store.target then (doReject s m 5 none false, SState.inSession)
          else (s, SState.inSession)
        | _ => (s, SState.inSession)).1 := by
  have hv := (ext_verifySelect s m gf gf true).pres3 p g0
  generalize verifySelect s m gf gf true = r at hv
  obtain ⟨s', o⟩ := r
  cases o with
  | some r => exact peel_processReject m r hv
  | none => dsimp only; c3_cases

theorem pres_handleSequenceReset (p : Bool) (g0 : G3) (s : Sess) (m : InMsg) : Pres p g0 s (handleSequenceReset s m).1 := by
  unfold handleSequenceReset
  split
  · exact pres_processReject p g0 s m _
  · exact pres_handleSequenceReset_core p g0 s m _

theorem pres_resendLoop (p : Bool) (g0 : G3) (s : Sess) (a b : Int) (l : List (Int × OutMsg)) :
    Pres p g0 s (resendLoop s a b l).1 := by
  induction l generalizing s a b with
  | nil => exact Pres.refl p g0 s
  | cons q rest ih =>
    obtain ⟨n, m⟩ := q
    simp only [resendLoop]
    split
    · exact ih s a (n + 1)
    · split
      · exact ih s a (n + 1)
      · try dsimp only
        split
        · exact ((pres_enqueueAndSend p g0 s _ (firstTime_gapFillR _ _ _)).trans
            (pres_enqueueAndSend p g0 _ _ (firstTime_resent m))).trans (ih _ _ _)
        · exact (pres_enqueueAndSend p g0 s _ (firstTime_resent m)).trans (ih _ _ _)

theorem pres_resendMessages (p : Bool) (g0 : G3) (s : Sess) (b e : Int) : Pres p g0 s (resendMessages s b e) := by
  unfold resendMessages
  split
  · exact Pres.refl p g0 s
  · split
    · exact pres_enqueueAndSend p g0 s _ (firstTime_gapFillR _ _ _)
    · have hl := pres_resendLoop p g0 s b b (s.store.range b e)
      generalize resendLoop s b b (s.store.range b e) = r at hl
      obtain ⟨s', x, y⟩ := r
      try dsimp only at hl ⊢
      split
      · exact hl.trans (pres_enqueueAndSend p g0 s' _ (firstTime_gapFillR _ _ _))
      · exact hl

theorem peel_resendMessages {p : Bool} {g0 : G3} {s x : Sess} (b e : Int) (h : Pres p g0 s x) :
    Pres p g0 s (resendMessages x b e) :=
  h.trans (pres_resendMessages p g0 x b e)
macro_rules | `(tactic| c3_step) => `(tactic| apply peel_resendMessages)

theorem pres_handleResendRequest (p : Bool) (g0 : G3) (s : Sess) (m : InMsg) : Pres p g0 s (handleResendRequest s m).1 := by
  unfold handleResendRequest
  have hv := (ext_verifySelect s m false false true).pres3 p g0
  generalize verifySelect s m false false true = r at hv
  obtain ⟨s', o⟩ := r
  simp only [] at hv
  cases o with
  | some r => exact peel_processReject m r hv
  | none => dsimp only; c3_cases

theorem pres_logonReply (p : Bool) (g0 : G3) (s : Sess) (m : InMsg) (flag : Bool) : Pres p g0 s (logonReply s m flag) := by
  unfold logonReply
  c3_cases

theorem firstTime_gapFillRe (s : Sess) (m : InMsg) (b e : Int) : firstTime (gapFillRe s m b e) = false := firstTime_gapFill b e

theorem pres_nxEval (p : Bool) (g0 : G3) (s : Sess) (m : InMsg) (ns : Int) : Pres p g0 s (nxEval s m ns).1 := by
  unfold nxEval
  split
  · split
    · split
      · split
        · exact pres_enqueueAndSend p g0 s _ (firstTime_gapFillRe _ _ _ _)
        · exact Pres.refl p g0 s
      · exact Pres.refl p g0 s
    · exact Pres.refl p g0 s
  · exact Pres.refl p g0 s

theorem pres_logonFinish (p : Bool) (g0 : G3) (s : Sess) (m : InMsg) (ns : Int) : Pres p g0 s (logonFinish s m ns).1 := by
  unfold logonFinish
  have h : Pres p g0 s (nxEval (((s.setSentReset false).emit (.armPeer (1200 * s.hb))).emit .onLogon) m ns).1 :=
    Pres.trans (by c3_peel) (pres_nxEval p g0 _ m ns)
  generalize nxEval _ m ns = r at h
  obtain ⟨x, o⟩ := r
  cases o with
  | some r => exact h
  | none =>
    dsimp only at h ⊢
    c3_cases

theorem pres_logonRefused (p : Bool) (g0 : G3) (s : Sess) (m : InMsg) : Pres p g0 s (logonRefused s m) := by
  unfold logonRefused
  c3_cases

theorem pres_logonTail (p : Bool) (g0 : G3) (s : Sess) (m : InMsg) (ns : Int) : Pres p g0 s (logonTail s m ns).1 := by
  unfold logonTail
  split
  · exact pres_logonRefused p g0 s m
  · exact (pres_logonReply p g0 s m _).trans (pres_logonFinish p g0 _ m _)

theorem pres_handleLogon (p : Bool) (g0 : G3) (s : Sess) (m : InMsg) : Pres p g0 s (handleLogon s m).1 := by
  unfold handleLogon
  split
  · exact Pres.refl p g0 s
  · generalize hs1 : (if (!s.cfg.initiator && s.cfg.refreshOnLogon) = true then s.emit Obs.refresh else s) = s1
    have h1 : Pres p g0 s s1 := by rw [← hs1]; c3_peel
    simp only []
    have hv := (ext_verifyAppImpl s1 m).pres3 p g0
    generalize verifyAppImpl s1 m = r at hv
    obtain ⟨s2, o⟩ := r
    simp only [] at hv
    have h2 := h1.trans hv
    cases o with
    | some r => exact h2
    | none =>
      simp only []
      generalize hs3 : (if ((if s2.cfg.initiator = true then false else s2.cfg.resetOnLogon) || logonResetFlag m && !s2.sentReset) = true
          then dropAndReset s2 else s2) = s3
      have h3 : Pres p g0 s s3 := by rw [← hs3]; c3_peel
      have hv2 := (ext_verifySelect s3 m false true false).pres3 p g0
      generalize verifySelect s3 m false true false = r2 at hv2
      obtain ⟨s4, o2⟩ := r2
      simp only [] at hv2
      have h4 := h3.trans hv2
      cases o2 with
      | some r => exact h4
      | none => exact h4.trans (pres_logonTail p g0 s4 m _)

theorem pres_inSessionFixMsgIn (p : Bool) (g0 : G3) (s : Sess) (m : InMsg) : Pres p g0 s (inSessionFixMsgIn s m).1 := by
  unfold inSessionFixMsgIn
  simp only []
  split
  · have hl := pres_handleLogon p g0 s m
    generalize handleLogon s m = r at hl
    obtain ⟨s', o⟩ := r
    cases o with
    | some e => exact hl.trans (pres_sendInReplyTo p g0 s' ((mkOut "5" []).inReplyTo m) (noResetLogon_re _ _ (noResetLogon_mkOut _ _ (by decide))))
    | none => exact hl
  · split
    · exact pres_handleLogout p g0 s m
    · split
      · exact pres_handleResendRequest p g0 s m
      · split
        · exact pres_handleSequenceReset p g0 s m
        · split
          · exact pres_handleTestRequest p g0 s m
          · have hv := (ext_verifySelect s m true true true).pres3 p g0
            generalize verifySelect s m true true true = r at hv
            obtain ⟨s', o⟩ := r
            simp only [] at hv ⊢
            cases o with
            | some r => exact peel_processReject m r hv
            | none => exact peel_incrTarget hv

theorem E_drainStash (p : Bool) (g0 : G3) (fuel : Nat) (s : Sess) (stash : List (Int × InMsg)) (last : SState)
    (h : E p g0 s) : E p g0 (drainStash fuel s stash last).1 := by
  induction fuel generalizing s stash last with
  | zero => exact h
  | succ n ih =>
    unfold drainStash
    split
    · exact h
    · simp only []
      rename_i nn m _
      have h1 := pres_inSessionFixMsgIn p g0 s m h
      generalize inSessionFixMsgIn s m = r at h1
      obtain ⟨s', nx⟩ := r
      simp only [] at h1 ⊢
      split
      · exact h1
      · exact ih _ _ _ h1

theorem E_sRR_eq {p : Bool} {g0 : G3} {s : Sess} {b e : Int} {r : Sess × Int × Int}
    (hr : sendResendRequest s b e = r) (h : E p g0 s) : E p g0 r.1 := by
  rw [← hr]; exact pres_sendResendRequest p g0 s b e h

theorem E_drain_eq {p : Bool} {g0 : G3} {fuel : Nat} {s : Sess} {stash : List (Int × InMsg)} {last : SState}
    {r : Sess × SState × List (Int × InMsg)} (hr : drainStash fuel s stash last = r) (h : E p g0 s) : E p g0 r.1 := by
  rw [← hr]; exact E_drainStash p g0 fuel s stash last h

theorem E_resendFixMsgIn (p : Bool) (g0 : G3) (s : Sess) (stash : List (Int × InMsg)) (cur fin : Int) (m : InMsg)
    (h : E p g0 s) : E p g0 (resendFixMsgIn s stash cur fin m).1 := by
  unfold resendFixMsgIn
  have h1 := pres_inSessionFixMsgIn p g0 s m h
  generalize inSessionFixMsgIn s m = r at h1
  obtain ⟨s', nx⟩ := r
  simp only [] at h1 ⊢
  repeat' split
  all_goals (try dsimp only)
  all_goals first
    | exact h1
    | exact pres_sendResendRequest p g0 _ _ _ h1
    | exact E_sRR_eq (by assumption) h1
    | exact E_drain_eq (by assumption) h1

theorem E_shutdownWithReason (p : Bool) (g0 : G3) (s : Sess) (m : InMsg) (incr : Bool) (h : E p g0 s) :
    E p g0 (shutdownWithReason s m incr).1 := by
  unfold shutdownWithReason
  have : Pres p g0 s (if incr = true then incrTarget (dropAndSend s ((mkOut "5" []).inReplyTo m)) else dropAndSend s ((mkOut "5" []).inReplyTo m)) := by c3_peel
  exact this h

theorem E_handleLogon_eq {p : Bool} {g0 : G3} {s : Sess} {m : InMsg} {r : Sess × Option LogonErr}
    (hr : handleLogon s m = r) (h : E p g0 s) : E p g0 r.1 := by
  rw [← hr]; exact pres_handleLogon p g0 s m h

theorem E_logonFixMsgIn (p : Bool) (g0 : G3) (s : Sess) (m : InMsg) (h : E p g0 s) : E p g0 (logonFixMsgIn s m).1 := by
  unfold logonFixMsgIn
  split
  · exact h
  · repeat' split
    all_goals (try dsimp only)
    all_goals (
      have hh := E_handleLogon_eq (by assumption : handleLogon s m = _) h
      first
        | exact hh
        | exact E_shutdownWithReason p g0 _ _ _ hh
        | exact E_sRR_eq (by assumption) hh)

theorem E_fixMsgInCore (p : Bool) (g0 : G3) (s : Sess) (m : InMsg) (h : E p g0 s) : E p g0 (fixMsgInCore s m).1 := by
  unfold fixMsgInCore
  split
  · exact h
  · exact h
  · exact E_logonFixMsgIn p g0 s m h
  · have h1 := pres_inSessionFixMsgIn p g0 s m h
    generalize inSessionFixMsgIn s m = r at h1
    obtain ⟨s', nx⟩ := r
    dsimp only
    split <;> exact h1
  · exact pres_inSessionFixMsgIn p g0 s m h
  · exact pres_inSessionFixMsgIn p g0 s m h
  · exact E_resendFixMsgIn p g0 s _ _ _ m h
  · exact E_resendFixMsgIn p g0 s _ _ _ m h

theorem pres_discMid (p : Bool) (g0 : G3) (s : Sess) : Pres p g0 s (discMid s) := by
  unfold discMid
  simp only []
  c3_peel

theorem E_mutual (p : Bool) (g0 : G3) : ∀ fuel : Nat,
    (∀ s next, E p g0 s → E p g0 (setState fuel s next)) ∧
    (∀ s, E p g0 s → E p g0 (drainIn fuel s)) ∧
    (∀ s m, E p g0 s → E p g0 (incoming fuel s m)) ∧
    (∀ s a b, E p g0 s → E p g0 (checkSessionTime fuel s a b)) := by
  intro fuel
  induction fuel with
  | zero =>
    refine ⟨?_, ?_, ?_, ?_⟩
    · intro s next h; unfold setState; exact (by c3_peel : Pres p g0 s _) h
    · intro s h; unfold drainIn; exact h
    · intro s m h; unfold incoming; exact h
    · intro s a b h; unfold checkSessionTime; exact h
  | succ n ih =>
    obtain ⟨ihS, ihD, ihI, ihC⟩ := ih
    refine ⟨?_, ?_, ?_, ?_⟩
    · intro s next h
      unfold setState
      simp only []
      split
      · generalize hx : (if s.st.connected = true then (drainIn n (discMid (drainIn n s))).closeInbox else s) = x
        have hxJ : E p g0 x := by
          rw [← hx]; split
          · exact (by c3_peel : Pres p g0 (drainIn n (discMid (drainIn n s))) _) (ihD _ (pres_discMid p g0 _ (ihD s h)))
          · exact h
        exact (by c3_peel : Pres p g0 x _) hxJ
      · exact (by c3_peel : Pres p g0 s _) h
    · intro s h
      unfold drainIn
      split
      · exact h
      · split
        · exact h
        · exact ihD _ (ihI _ _ ((by c3_peel : Pres p g0 s _) h))
    · intro s m h
      unfold incoming
      simp only []
      have h1 := ihC s true true h
      generalize checkSessionTime n s true true = s1 at h1
      split
      · exact h1
      · cases m with
        | none => exact (by c3_peel : Pres p g0 s1 _) h1
        | some m =>
          simp only []
          have hf := E_fixMsgInCore p g0 s1 m h1
          generalize fixMsgInCore s1 m = r at hf
          obtain ⟨s2, nx⟩ := r
          exact (by c3_peel : Pres p g0 (setState n s2 nx) _) (ihS s2 nx hf)
    · intro s a b h
      unfold checkSessionTime
      simp only []
      split
      · exact ihS _ _ ((by c3_peel : Pres p g0 s _) h)
      · generalize hx : (if (!s.st.sessionTime) = true then setState n s SState.latent else s) = x
        have hxJ : E p g0 x := by
          rw [← hx]; split
          · exact ihS _ _ h
          · exact h
        split
        · exact ihS _ _ ((by c3_peel : Pres p g0 x _) hxJ)
        · exact hxJ

theorem pres_inSessionTimeout (p : Bool) (g0 : G3) (s : Sess) (e : TimerEv) : Pres p g0 s (inSessionTimeout s e).1 := by
  unfold inSessionTimeout
  c3_cases

theorem E_ist_eq {p : Bool} {g0 : G3} {s : Sess} {e : TimerEv} {r : Sess × Bool} (hr : inSessionTimeout s e = r)
    (h : E p g0 s) : E p g0 r.1 := by
  rw [← hr]; exact pres_inSessionTimeout p g0 s e h

theorem E_timeoutCore (p : Bool) (g0 : G3) (s : Sess) (e : TimerEv) (h : E p g0 s) : E p g0 (timeoutCore s e).1 := by
  unfold timeoutCore
  repeat' split
  all_goals (try dsimp only)
  all_goals first
    | exact h
    | exact pres_inSessionTimeout p g0 s e h
    | exact E_ist_eq (by assumption) h

theorem E_connect (p : Bool) (g0 : G3) (s : Sess) (h : E p g0 s) : E p g0 (connect s).1 := by
  unfold connect
  repeat' split
  all_goals (try simp only [apply_ite Prod.fst])
  all_goals exact (by c3_peel : Pres p g0 s _) h

theorem E_stopNext (p : Bool) (g0 : G3) (s : Sess) (h : E p g0 s) : E p g0 (stopNext s).1 := by
  unfold stopNext
  repeat' split
  all_goals (try dsimp only)
  all_goals first | exact h | exact (by c3_peel : Pres p g0 s _) h

theorem peel_setLastChecked {p : Bool} {g0 : G3} {s x : Sess} (n : Int) (hp : Pres p g0 s x) : Pres p g0 s (x.setLastChecked n) :=
  hp.trans ((C02.Ext.of_eq (s := x) rfl rfl rfl rfl).pres3 p g0)
macro_rules | `(tactic| c3_step) => `(tactic| apply peel_setLastChecked)

/-- CheckResetTime: the reset Logon goes through `dropAndSend`, the queue of the old epoch is dropped with it -/
theorem pres_checkResetTime (p : Bool) (g0 : G3) (s : Sess) (now : Int) : Pres p g0 s (checkResetTime s now) := by
  unfold checkResetTime
  repeat' split
  all_goals (try dsimp only)
  all_goals c3_peel

/-- events the per-epoch clauses are stated for: the application does not submit a Logon with ResetSeqNumFlag=Y -/
def benign : Ev → Bool
  | .send m => noResetLogon m
  | _ => true

theorem E_stepCore (p : Bool) (g0 : G3) (s : Sess) (e : Ev) (hb : benign e = true) (h : E p g0 s) : E p g0 (stepCore s e).1 := by
  obtain ⟨hS, hD, hI, hC⟩ := E_mutual p g0 (fuelOf s)
  unfold stepCore
  simp only []
  cases e with
  | connect => exact E_connect p g0 s h
  | incomingMsg m => exact hI s m h
  | arrive m => dsimp only; split <;> first | exact h | exact (by c3_peel : Pres p g0 s _) h
  | pop =>
    dsimp only
    split
    · exact h
    · split
      · exact h
      · exact hI _ _ ((by c3_peel : Pres p g0 s _) h)
  | timeout ev =>
    dsimp only
    have h1 := hC s true true h
    have h2 := E_timeoutCore p g0 _ ev h1
    generalize timeoutCore (checkSessionTime (fuelOf s) s true true) ev = r at h2
    obtain ⟨s2, nx⟩ := r
    exact hS s2 nx h2
  | disconnected => dsimp only; split <;> first | exact h | exact hS _ _ h
  | stop =>
    dsimp only
    have h1 : E p g0 s.setPendingStop := (by c3_peel : Pres p g0 s _) h
    have h2 := E_stopNext p g0 _ h1
    generalize stopNext s.setPendingStop = r at h2
    obtain ⟨s2, nx⟩ := r
    exact hS s2 nx h2
  | send m =>
    dsimp only
    have hp := E_prep p g0 s m hb h
    generalize prep s m = r at hp
    obtain ⟨o, s2⟩ := r
    cases o with
    | none => exact hp.1
    | some m' => exact E_setToSend_snoc hp.1 (hp.2 m' rfl).1 (hp.2 m' rfl).2
  | flush =>
    dsimp only
    have h1 := hC s true true h
    split
    · exact pres_sendQueued p g0 _ h1
    · exact E_setToSend_nil h1
  | sessionTime r sm => exact hC s r sm h
  | resetTime now => exact pres_checkResetTime p g0 s now h

/-! ### liveness of one flush -/

theorem checkSessionTime_inrange (fuel : Nat) (s : Sess) (h : s.st.sessionTime = true) :
    checkSessionTime (fuel + 1) s true true = s := by
  unfold checkSessionTime
  simp [h]

theorem loggedOn_sessionTime (st : SState) (h : st.loggedOn = true) : st.sessionTime = true := by
  cases st <;> simp_all [SState.loggedOn, SState.sessionTime]

end Qfx.Sess.C02b
