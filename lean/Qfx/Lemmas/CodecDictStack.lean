/-
  Dictionary-guided parse (`parseGroup`, fixed code) for repeating groups with nested groups of ANY DEPTH: the tag stack as a list of
  resolved levels (`Resolves`), `popToMember` as a function of the stack (`popSpecRev`), one iteration of `parseGroup` as `stepSpec`
  (`grpSwitch_stack`), member walks `WalkN`, runs `SegOKN`, whole messages `parse_dict_segsN`.
-/
import Qfx.Lemmas.CodecDictSegs
namespace Qfx
open Qfx.Spec

variable {d : Dicts}

/-- one level of the parser's tag stack: the group tag and the member list the dictionary gives for it -/
abbrev Level := Tag × List DNode

def stackTags (st : List Level) : List Tag := st.map (·.1)

/-- the member list of the innermost level -/
def lastGf : List Level → List DNode
  | [] => []
  | [l] => l.2
  | _ :: l2 :: r => lastGf (l2 :: r)

/-- what the dictionary says about tag `t` among the members `gf`: the member list of a repeating group, or nothing -/
def groupOf (gf : List DNode) (t : Tag) : Option (List DNode) :=
  match dfind gf t with
  | some n => if n.children.isEmpty then none else some n.children
  | none => none

/-- the dictionary resolves the stack from the node list `C`: every level is a repeating group among the members one level up -/
def Resolves : List DNode → List Level → Prop
  | _, [] => False
  | C, [l] => groupOf C l.1 = some l.2
  | C, l :: l2 :: r => groupOf C l.1 = some l.2 ∧ Resolves l.2 (l2 :: r)

theorem groupOf_some {gf : List DNode} {t : Tag} {c : List DNode} (h : groupOf gf t = some c) :
    ∃ n, dfind gf t = some n ∧ n.children = c ∧ c.isEmpty = false := by
  unfold groupOf at h
  cases hd : dfind gf t with
  | none => rw [hd] at h; cases h
  | some n =>
    rw [hd] at h
    by_cases he : n.children.isEmpty
    · simp [he] at h
    · simp only [he] at h
      injection h with h
      exact ⟨n, rfl, h, by rw [← h]; simpa using he⟩

theorem pathWalk_single (C : List DNode) (t : Tag) : pathWalk C [t] = groupOf C t := by
  unfold groupOf; rfl

theorem pathWalk_cons_found (C : List DNode) (t t2 : Tag) (r : List Tag) (c : List DNode) (h : groupOf C t = some c) :
    pathWalk C (t :: t2 :: r) = pathWalk c (t2 :: r) := by
  obtain ⟨n, hd, hc, _⟩ := groupOf_some h
  simp only [pathWalk, hd, hc]

theorem resolves_walk : ∀ (st : List Level) (C : List DNode), Resolves C st → pathWalk C (stackTags st) = some (lastGf st) := by
  intro st
  induction st with
  | nil => intro C h; exact absurd h (by simp [Resolves])
  | cons l r ih =>
    intro C h
    cases r with
    | nil => simp only [Resolves] at h; simp [stackTags, lastGf, pathWalk_single, h]
    | cons l2 r2 =>
      simp only [Resolves] at h
      have := ih l.2 h.2
      simp only [stackTags, List.map_cons] at this ⊢
      rw [pathWalk_cons_found C l.1 l2.1 _ l.2 h.1]
      simpa [lastGf] using this

theorem resolves_extend : ∀ (st : List Level) (C : List DNode) (t : Tag), Resolves C st →
    pathWalk C (stackTags st ++ [t]) = groupOf (lastGf st) t := by
  intro st
  induction st with
  | nil => intro C t h; exact absurd h (by simp [Resolves])
  | cons l r ih =>
    intro C t h
    cases r with
    | nil =>
      simp only [Resolves] at h
      simp only [stackTags, List.map_cons, List.map_nil, List.cons_append, List.nil_append, lastGf]
      rw [pathWalk_cons_found C l.1 t [] l.2 h, pathWalk_single]
    | cons l2 r2 =>
      simp only [Resolves] at h
      have := ih l.2 t h.2
      simp only [stackTags, List.map_cons, List.cons_append] at this ⊢
      rw [pathWalk_cons_found C l.1 l2.1 _ l.2 h.1]
      simpa [lastGf] using this

theorem resolves_push : ∀ (st : List Level) (C : List DNode) (t : Tag) (c : List DNode), Resolves C st →
    groupOf (lastGf st) t = some c → Resolves C (st ++ [(t, c)]) := by
  intro st
  induction st with
  | nil => intro C t c h; exact absurd h (by simp [Resolves])
  | cons l r ih =>
    intro C t c h hg
    cases r with
    | nil =>
      simp only [Resolves] at h
      simp only [List.cons_append, List.nil_append, Resolves]
      exact ⟨h, by simpa [lastGf] using hg⟩
    | cons l2 r2 =>
      simp only [Resolves] at h
      simp only [List.cons_append, Resolves]
      exact ⟨h.1, by simpa using ih l.2 t c h.2 (by simpa [lastGf] using hg)⟩

theorem resolves_prefix : ∀ (a b : List Level) (C : List DNode), a ≠ [] → Resolves C (a ++ b) → Resolves C a := by
  intro a
  induction a with
  | nil => intro b C h; exact absurd rfl h
  | cons l r ih =>
    intro b C _ h
    cases r with
    | nil =>
      cases b with
      | nil => simpa using h
      | cons b1 b2 => simp only [List.cons_append, List.nil_append, Resolves] at h; simp only [Resolves]; exact h.1
    | cons l2 r2 =>
      simp only [List.cons_append, Resolves] at h ⊢
      exact ⟨h.1, ih b l.2 (by simp) (by simpa using h.2)⟩

/-- the application dictionary's field list for the message type -/
def AppMsg (d : Dicts) (mt : Bytes) (fs : List DNode) : Prop := ∃ msgs, d.app = some msgs ∧ alFindB msgs mt = some fs

theorem appMsg_fields {mt : Bytes} {fs : List DNode} (ha : AppMsg d mt fs) (fields : List TagValue) (hd : FieldMap) (t35 : TagValue)
    (hmt : MTInv fields hd t35) (hv : t35.value = mt) : msgFields d fields hd = some fs := by
  obtain ⟨msgs, hap, hfs⟩ := ha
  simp only [msgFields, hap, hmt.getBytes, hv, hfs]

/-- `popToMember` on a resolved stack, as a function of the stack alone (argument: the REVERSED stack) -/
def popSpecRev (t : Tag) : List Level → Option (List Level)
  | [] => none
  | _ :: r =>
    match r with
    | [] => none
    | p :: _ => if isGroupMember t p.2 then some r.reverse else popSpecRev t r

theorem lastGf_reverse_cons (p : Level) (r : List Level) : lastGf (p :: r).reverse = p.2 := by
  simp only [List.reverse_cons]
  generalize r.reverse = q
  induction q with
  | nil => rfl
  | cons a b ih =>
    cases b with
    | nil => rfl
    | cons b1 b2 => simpa [lastGf] using ih

theorem popToMember_cons2 (fields : List TagValue) (hd : FieldMap) (t x y : Tag) (r : List Tag) :
    popToMember d fields hd t (x :: y :: r) =
      if isGroupMember t (getGroupFields d fields hd (y :: r).reverse) then
        some ((y :: r).reverse, getGroupFields d fields hd (y :: r).reverse)
      else popToMember d fields hd t (y :: r) := by
  rw [popToMember]
  intro h; cases h

theorem popSpecRev_cons2 (t : Tag) (x p : Level) (r : List Level) :
    popSpecRev t (x :: p :: r) = if isGroupMember t p.2 then some (p :: r).reverse else popSpecRev t (p :: r) := by
  rw [popSpecRev]

theorem popToMember_spec {mt : Bytes} {fs : List DNode} (ha : AppMsg d mt fs) (fields : List TagValue) (hd : FieldMap) (t35 : TagValue)
    (hmt : MTInv fields hd t35) (hv : t35.value = mt) (t : Tag) :
    ∀ (rs : List Level), Resolves fs rs.reverse →
      popToMember d fields hd t (rs.map (·.1)) = (popSpecRev t rs).map (fun st' => (stackTags st', lastGf st')) := by
  have hmf := appMsg_fields ha fields hd t35 hmt hv
  intro rs
  induction rs with
  | nil => intro _; rfl
  | cons x r ih =>
    intro hres
    cases r with
    | nil => simp [popToMember, popSpecRev]
    | cons p r2 =>
      have hpre : Resolves fs (p :: r2).reverse := by
        have : (x :: p :: r2).reverse = (p :: r2).reverse ++ [x] := by simp
        rw [this] at hres
        exact resolves_prefix _ _ _ (by simp) hres
      have hgf : getGroupFields d fields hd ((p :: r2).map (·.1)).reverse = p.2 := by
        have hw := resolves_walk _ _ hpre
        have e : stackTags (p :: r2).reverse = ((p :: r2).map (·.1)).reverse := by simp [stackTags, List.map_reverse]
        rw [e] at hw
        simp only [getGroupFields, hmf, hw, lastGf_reverse_cons]
      simp only [List.map_cons] at hgf ih
      simp only [List.map_cons]
      rw [popToMember_cons2, popSpecRev_cons2, hgf]
      by_cases hm : isGroupMember t p.2 = true
      · simp only [hm, if_true, Option.map_some]
        have e : stackTags (p :: r2).reverse = (p.1 :: List.map (fun x => x.1) r2).reverse := by simp [stackTags, List.map_reverse]
        rw [e, lastGf_reverse_cons]
      · simp only [hm, if_false]
        exact ih hpre


theorem lastGf_snoc (st : List Level) (l : Level) : lastGf (st ++ [l]) = l.2 := by
  induction st with
  | nil => rfl
  | cons a b ih =>
    cases b with
    | nil => rfl
    | cons b1 b2 => simpa [lastGf] using ih

theorem stackTags_snoc (st : List Level) (l : Level) : stackTags (st ++ [l]) = stackTags st ++ [l.1] := by simp [stackTags]

theorem popSpecRev_prefix (t : Tag) : ∀ (rs : List Level) (st1 : List Level), popSpecRev t rs = some st1 →
    st1 ≠ [] ∧ ∃ b, rs.reverse = st1 ++ b := by
  intro rs
  induction rs with
  | nil => intro st1 h; simp [popSpecRev] at h
  | cons x r ih =>
    intro st1 h
    cases r with
    | nil => simp [popSpecRev] at h
    | cons p r2 =>
      rw [popSpecRev_cons2] at h
      by_cases hm : isGroupMember t p.2 = true
      · simp only [hm, if_true, Option.some.injEq] at h
        subst h
        exact ⟨by simp, [x], by simp⟩
      · simp only [hm, if_false] at h
        obtain ⟨hne, b, hb⟩ := ih st1 h
        refine ⟨hne, b ++ [x], ?_⟩
        have : (x :: p :: r2).reverse = (p :: r2).reverse ++ [x] := by simp
        rw [this, hb, List.append_assoc]

/-- the parser's move on a member-or-not field with tag `t`, as a function of the stack: the next stack, or `none` = the group ends -/
def stepSpec (st : List Level) (t : Tag) : Option (List Level) :=
  if isGroupMember t (lastGf st) then
    (match groupOf (lastGf st) t with | some c => some (st ++ [(t, c)]) | none => some st)
  else
    match popSpecRev t st.reverse with
    | some st1 => (match groupOf (lastGf st1) t with | some c => some (st1 ++ [(t, c)]) | none => some st1)
    | none => none

theorem isNum_stack {mt : Bytes} {fs : List DNode} (ha : AppMsg d mt fs) (fields : List TagValue) (hd : FieldMap) (t35 : TagValue)
    (hmt : MTInv fields hd t35) (hv : t35.value = mt) (st : List Level) (hres : Resolves fs st) (t : Tag) :
    isNumInGroupField d fields hd (stackTags st ++ [t]) = (groupOf (lastGf st) t).isSome ∧
    getGroupFields d fields hd (stackTags st ++ [t]) = (match groupOf (lastGf st) t with | some c => c | none => []) := by
  have hmf := appMsg_fields ha fields hd t35 hmt hv
  refine ⟨?_, ?_⟩ <;> simp only [isNumInGroupField, getGroupFields, hmf, resolves_extend st fs t hres]
  all_goals (try rfl)

theorem stepSpec_resolves {fs : List DNode} (st : List Level) (hres : Resolves fs st) (t : Tag) (st' : List Level)
    (h : stepSpec st t = some st') : Resolves fs st' := by
  unfold stepSpec at h
  by_cases hm : isGroupMember t (lastGf st) = true
  · simp only [hm, if_true] at h
    cases hg : groupOf (lastGf st) t with
    | none => rw [hg] at h; injection h with h; subst h; exact hres
    | some c => rw [hg] at h; injection h with h; subst h; exact resolves_push st fs t c hres hg
  · have hm' : isGroupMember t (lastGf st) = false := by simpa using hm
    cases hp : popSpecRev t st.reverse with
    | none => simp only [hm', hp, Bool.false_eq_true, if_false] at h; cases h
    | some st1 =>
      obtain ⟨hne, b, hb⟩ := popSpecRev_prefix t _ _ hp
      rw [List.reverse_reverse] at hb
      have hr1 : Resolves fs st1 := resolves_prefix st1 b fs hne (by rw [← hb]; exact hres)
      cases hg : groupOf (lastGf st1) t with
      | none => simp only [hm', hp, hg, Bool.false_eq_true, if_false] at h; injection h with h; subst h; exact hr1
      | some c =>
        simp only [hm', hp, hg, Bool.false_eq_true, if_false] at h; injection h with h; subst h
        exact resolves_push st1 fs t c hr1 hg

/-- ONE ITERATION OF `parseGroup` (fixed code) on a resolved tag stack of any depth -/
theorem grpSwitch_stack {mt : Bytes} {fs : List DNode} (ha : AppMsg d mt fs) (fields : List TagValue) (idx j : Nat) (c : PCore) (tv t35 : TagValue)
    (hmt : MTInv fields c.header t35) (hv : t35.value = mt) (st : List Level) (hres : Resolves fs st)
    (hside : isGroupMember tv.tag (lastGf st) = false →
      isHeaderField d tv.tag = false ∧ isTrailerField d tv.tag = false ∧ NoGroupTag d tv.tag) :
    grpSwitch Fixes.cur d fields idx tv j (stackTags st) (lastGf st) c =
      match stepSpec st tv.tag with
      | some st' => .ok ({ c with trailerBytes := c.rawBytes }, some (.grp j (stackTags st') (lastGf st')))
      | none =>
        (match addDm fields j idx { c with trailerBytes := c.rawBytes } with
         | .ok c1 => .ok ({ c1 with body := c1.body.add tv.tag (.view idx 1) }, none)
         | .err e => .err e
         | .fault w => .fault w) := by
  obtain ⟨hnum, hgf⟩ := isNum_stack ha fields c.header t35 hmt hv st hres tv.tag
  by_cases hm : isGroupMember tv.tag (lastGf st) = true
  · cases hg : groupOf (lastGf st) tv.tag with
    | none =>
      rw [hg] at hnum hgf
      simp only [grpSwitch, hm, hnum, Fixes.cur, if_true, Option.isSome_none, Bool.false_eq_true, if_false, stepSpec, hg]
    | some cN =>
      rw [hg] at hnum hgf
      simp only [grpSwitch, hm, hnum, hgf, Fixes.cur, if_true, Option.isSome_some, stepSpec, hg, stackTags_snoc, lastGf_snoc]
  · have hm' : isGroupMember tv.tag (lastGf st) = false := by simpa using hm
    obtain ⟨hh, ht, hng⟩ := hside hm'
    have hpop := popToMember_spec ha fields c.header t35 hmt hv tv.tag st.reverse (by rw [List.reverse_reverse]; exact hres)
    have e : List.map (fun x => x.1) st.reverse = (stackTags st).reverse := by simp [stackTags, List.map_reverse]
    rw [e] at hpop
    cases hp : popSpecRev tv.tag st.reverse with
    | none =>
      rw [hp] at hpop
      simp only [grpSwitch, hm', hh, ht, isNum_false d _ _ tv.tag hng, Fixes.cur, if_true, Bool.false_eq_true, if_false, hpop,
        Option.map_none, stepSpec, hp]
      rfl
    | some st1 =>
      rw [hp] at hpop
      obtain ⟨hne, b, hb⟩ := popSpecRev_prefix tv.tag _ _ hp
      rw [List.reverse_reverse] at hb
      have hr1 : Resolves fs st1 := resolves_prefix st1 b fs hne (by rw [← hb]; exact hres)
      obtain ⟨hnum1, hgf1⟩ := isNum_stack ha fields c.header t35 hmt hv st1 hr1 tv.tag
      cases hg : groupOf (lastGf st1) tv.tag with
      | none =>
        rw [hg] at hnum1 hgf1
        simp only [grpSwitch, hm', hh, ht, isNum_false d _ _ tv.tag hng, Fixes.cur, if_true, Bool.false_eq_true, if_false, hpop,
          Option.map_some, hnum1, Option.isSome_none, stepSpec, hp, hg]
      | some cN =>
        rw [hg] at hnum1 hgf1
        simp only [grpSwitch, hm', hh, ht, isNum_false d _ _ tv.tag hng, Fixes.cur, if_true, Bool.false_eq_true, if_false, hpop,
          Option.map_some, hnum1, hgf1, Option.isSome_some, stepSpec, hp, hg, stackTags_snoc, lastGf_snoc]


/-- the member fields of a repeating group with nested groups of ANY depth, in any arrangement the parser accepts: each field moves
    the tag stack as `stepSpec` says (stay, push a nested group, pop to the enclosing level that lists the tag, pop and push) -/
inductive WalkN (d : Dicts) : List Level → List TagValue → List Level → Prop where
  | nil (st : List Level) : WalkN d st [] st
  | step {st st1 st' : List Level} {tv : TagValue} {r : List TagValue} : IsWire tv →
      (isGroupMember tv.tag (lastGf st) = false →
        isHeaderField d tv.tag = false ∧ isTrailerField d tv.tag = false ∧ NoGroupTag d tv.tag) →
      stepSpec st tv.tag = some st1 → WalkN d st1 r st' → WalkN d st (tv :: r) st'

theorem WalkN.wire {st st' : List Level} {M : List TagValue} (h : WalkN d st M st') : ∀ tv ∈ M, IsWire tv := by
  induction h with
  | nil s => intro tv h; cases h
  | step hw _ _ _ ih =>
    intro x hx; rcases List.mem_cons.1 hx with e | e
    · subst e; exact hw
    · exact ih x e

theorem walkN_loop {mt : Bytes} {fs : List DNode} (ha : AppMsg d mt fs) (t35 : TagValue) (hv : t35.value = mt) (j : Nat)
    {st st' : List Level} {M : List TagValue} (hw : WalkN d st M st') :
    ∀ (fields : List TagValue) (idx : Nat) (c : PCore) (tail : Bytes),
    Resolves fs st → MTInv fields c.header t35 → 3 ≤ idx → c.rawBytes = wireOf M ++ tail → idx + M.length ≤ fields.length →
    parseLoop Fixes.cur d (.grp j (stackTags st) (lastGf st)) fields idx c =
      parseLoop Fixes.cur d (.grp j (stackTags st') (lastGf st')) (setRange fields idx M) (idx + M.length) (memState c M tail) ∧
    Resolves fs st' := by
  induction hw with
  | nil s => intro fields idx c tail hok _ _ _ _; exact ⟨by simp [setRange, memState], hok⟩
  | @step st st1 st' tv r hwire hside hstep _ ih =>
    intro fields idx c tail hok hmt hi hraw hlen
    have hex : extractField c.rawBytes = (wireOf r ++ tail, .ok tv) := by
      rw [hraw]
      have : wireOf (tv :: r) ++ tail = tv.bytes ++ (wireOf r ++ tail) := by simp [wireOf, List.append_assoc]
      rw [this]; exact extractField_wire tv _ hwire
    have hlen' : idx < fields.length := by simp at hlen; omega
    have hmt' : MTInv (fields.set idx tv) c.header t35 := hmt.set idx tv hi
    have hsw := grpSwitch_stack ha (fields.set idx tv) idx j { c with rawBytes := wireOf r ++ tail } tv t35 hmt' hv st hok hside
    rw [hstep] at hsw
    have h1 := parseLoop_grp_step (d := d) fields idx j c tv _ (stackTags st) (stackTags st1) (lastGf st) (lastGf st1) hlen' hex hsw
    obtain ⟨h2, hok'⟩ := ih (fields.set idx tv) (idx + 1) { c with rawBytes := wireOf r ++ tail, trailerBytes := wireOf r ++ tail } tail
      (stepSpec_resolves st hok tv.tag st1 hstep) hmt' (by omega) rfl (by simp at hlen ⊢; omega)
    refine ⟨?_, hok'⟩
    rw [h1, h2]
    have e : idx + 1 + r.length = idx + (tv :: r).length := by simp; omega
    simp only [setRange, e]
    congr 1
    cases r with
    | nil => simp [memState, wireOf]
    | cons y ys => simp [memState]

/-- the first field behind the group that no level of the stack lists: the whole group is closed -/
theorem parseLoop_exit_stack {mt : Bytes} {fs : List DNode} (ha : AppMsg d mt fs) (st : List Level) (hres : Resolves fs st)
    (fields : List TagValue) (idx j : Nat) (c : PCore) (tv g0 t35 : TagValue) (raw' : Bytes)
    (hidx : idx < fields.length) (hmt : MTInv (fields.set idx tv) c.header t35) (hv : t35.value = mt)
    (hj : (fields.set idx tv)[j]? = some g0) (hex : extractField c.rawBytes = (raw', .ok tv))
    (hstep : stepSpec st tv.tag = none)
    (hh : isHeaderField d tv.tag = false) (ht : isTrailerField d tv.tag = false)
    (hng : NoGroupTag d tv.tag) (h10 : tv.tag ≠ 10) (h212 : tv.tag ≠ 212) :
    parseLoop Fixes.cur d (.grp j (stackTags st) (lastGf st)) fields idx c =
      parseLoop Fixes.cur d .main (fields.set idx tv) (idx + 1)
        (ndTail { c with rawBytes := raw', trailerBytes := raw',
                         body := (c.body.add g0.tag (.view j (idx - j))).add tv.tag (.view idx 1) }) := by
  rw [parseLoop]
  simp only [hidx, dite_true, hex]
  have hsw := grpSwitch_stack ha (fields.set idx tv) idx j { c with rawBytes := raw' } tv t35 hmt hv st hres (fun _ => ⟨hh, ht, hng⟩)
  rw [hstep] at hsw
  have hidxR : idxR (fields.set idx tv) j = .ok g0 := by simp [idxR, hj]
  simp only [addDm, hidxR] at hsw
  simp only [hsw, tailStep_nd _ _ _ h10 h212]

/-- from any point of the main loop: plain fields, the count field of `G`, the member fields (any depth) -/
theorem main_to_walkN {mt : Bytes} {fs : List DNode} (ha : AppMsg d mt fs) {G : Tag} {C : List DNode} (hgC : groupOf fs G = some C)
    (t35 g0 : TagValue) (preA M : List TagValue) (st' : List Level) (hW : WalkN d [(G, C)] M st') (Z : Bytes) (f0 : List TagValue)
    (idx : Nat) (c0 : PCore) (hv : t35.value = mt)
    (hpre : PlainFields d preA) (hg0 : IsWire g0) (hG : g0.tag = G)
    (hGh : isHeaderField d G = false) (hGt : isTrailerField d G = false)
    (hmt0 : MTInv f0 c0.header t35) (hi : 3 ≤ idx) (hx0 : c0.xmlDataLen = 0)
    (hraw0 : c0.rawBytes = wireOf preA ++ (g0.bytes ++ (wireOf M ++ Z)))
    (hlen : idx + preA.length + 1 + M.length ≤ f0.length) :
    parseLoop Fixes.cur d .main f0 idx c0 =
      parseLoop Fixes.cur d (.grp (idx + preA.length) (stackTags st') (lastGf st')) (setRange f0 idx (preA ++ g0 :: M)) (idx + preA.length + 1 + M.length)
        (memState { (runNDD d idx preA (g0.bytes ++ (wireOf M ++ Z)) c0) with
                      rawBytes := wireOf M ++ Z, foundBody := true, trailerBytes := wireOf M ++ Z } M Z) ∧
      Resolves fs st' := by
  have hP1 := parseLoop_prefixD (d := d) Fixes.cur preA f0 idx c0 (g0.bytes ++ (wireOf M ++ Z))
    (fun tv h => ⟨(hpre tv h).1, (hpre tv h).2.1, (hpre tv h).2.2.1⟩) (fun tv h => (hpre tv h).2.2.2.2.2) hx0 hraw0 (by omega)
  generalize hc1 : runNDD d idx preA (g0.bytes ++ (wireOf M ++ Z)) c0 = c1 at hP1 ⊢
  have hraw1 : c1.rawBytes = g0.bytes ++ (wireOf M ++ Z) := by rw [← hc1]; exact runNDD_raw' _ _ _ _ hraw0
  have hx1 : c1.xmlDataLen = 0 := by rw [← hc1, runNDD_xmlLen]; exact hx0
  have h35find1 : alFind c1.header.lookup 35 = some (.view 2 1) := by
    rw [← hc1, runNDD_header_find 35 preA idx _ c0 (fun tv h => (hpre tv h).2.2.2.2.1)]; exact hmt0.1
  have hidx1 : idx + preA.length < (setRange f0 idx preA).length := by rw [setRange_length]; omega
  have hex1 : extractField c1.rawBytes = (wireOf M ++ Z, .ok g0) := by rw [hraw1]; exact extractField_wire g0 _ hg0
  have hmt2 : MTInv ((setRange f0 idx preA).set (idx + preA.length) g0) c1.header t35 :=
    (MTInv.setRange ⟨h35find1, hmt0.2⟩ idx preA hi).set _ _ (by omega)
  have hmf := appMsg_fields ha ((setRange f0 idx preA).set (idx + preA.length) g0) c1.header t35 hmt2 hv
  have hnumG : isNumInGroupField d ((setRange f0 idx preA).set (idx + preA.length) g0) c1.header [G] = true := by
    simp only [isNumInGroupField, hmf, pathWalk_single, hgC, Option.isSome_some]
  have hgfG : getGroupFields d ((setRange f0 idx preA).set (idx + preA.length) g0) c1.header [G] = C := by
    simp only [getGroupFields, hmf, pathWalk_single, hgC]
  have hP2 := parseLoop_enter_group (d := d) (setRange f0 idx preA) (idx + preA.length) c1 g0 (wireOf M ++ Z) C hidx1 hx1 hex1
    (by rw [hG]; exact hGh) (by rw [hG]; exact hGt) (by rw [hG]; exact hnumG) (by rw [hG]; exact hgfG)
  rw [hG] at hP2
  obtain ⟨hP3, hok⟩ := walkN_loop (d := d) ha t35 hv (idx + preA.length) hW ((setRange f0 idx preA).set (idx + preA.length) g0) (idx + preA.length + 1)
    { c1 with rawBytes := wireOf M ++ Z, foundBody := true, trailerBytes := wireOf M ++ Z } Z (by simpa [Resolves] using hgC) hmt2 (by omega) rfl
    (by simp [setRange_length]; omega)
  refine ⟨?_, hok⟩
  rw [hP1, hP2]
  show parseLoop Fixes.cur d (.grp (idx + preA.length) (stackTags [(G, C)]) (lastGf [(G, C)])) _ _ _ = _
  rw [hP3]
  have e1 : (setRange f0 idx preA).set (idx + preA.length) g0 = setRange f0 idx (preA ++ [g0]) := setRange_snoc _ _ _ _
  have e2 : setRange (setRange f0 idx (preA ++ [g0])) (idx + preA.length + 1) M = setRange f0 idx (preA ++ g0 :: M) := by
    have := setRange_append f0 idx (preA ++ [g0]) M
    simp only [List.length_append, List.length_singleton, List.append_assoc, List.singleton_append] at this
    rw [this]; congr 1
  rw [e1, e2]

/-- a run with a group of any nesting depth -/
structure SegOKN (d : Dicts) (mt : Bytes) (fs : List DNode) (s : Seg) : Prop where
  pre : PlainFields d s.pre
  grp : ∃ C st', groupOf fs s.g0.tag = some C ∧ WalkN d [(s.g0.tag, C)] s.M st' ∧ stepSpec st' s.z0.tag = none
  wg0 : IsWire s.g0
  gh : isHeaderField d s.g0.tag = false
  gt : isTrailerField d s.g0.tag = false
  z : PlainFields d [s.z0]
  zh : isHeaderField d s.z0.tag = false
  zt : isTrailerField d s.z0.tag = false

theorem parseLoop_segN {mt : Bytes} {fs : List DNode} (ha : AppMsg d mt fs) (t35 : TagValue) (hv : t35.value = mt) (s : Seg)
    (hs : SegOKN d mt fs s) (tail : Bytes) (f0 : List TagValue) (idx : Nat) (c0 : PCore)
    (hmt0 : MTInv f0 c0.header t35) (hi : 3 ≤ idx) (hx0 : c0.xmlDataLen = 0)
    (hraw0 : c0.rawBytes = wireOf s.flat ++ tail) (hlen : idx + s.flat.length ≤ f0.length) :
    parseLoop Fixes.cur d .main f0 idx c0 =
      parseLoop Fixes.cur d .main (setRange f0 idx s.flat) (idx + s.flat.length) (segState d idx s tail c0) := by
  obtain ⟨C, st', hgC, hW, hzstep⟩ := hs.grp
  rw [s.flat_wire] at hraw0
  rw [s.flat_length] at hlen
  obtain ⟨hP, hok⟩ := main_to_walkN ha hgC t35 s.g0 s.pre s.M st' hW (s.z0.bytes ++ tail) f0 idx c0 hv hs.pre hs.wg0 rfl hs.gh hs.gt
    hmt0 hi hx0 hraw0 (by omega)
  rw [hP]
  generalize hcM : memState { (runNDD d idx s.pre (s.g0.bytes ++ (wireOf s.M ++ (s.z0.bytes ++ tail))) c0) with
      rawBytes := wireOf s.M ++ (s.z0.bytes ++ tail), foundBody := true, trailerBytes := wireOf s.M ++ (s.z0.bytes ++ tail) } s.M (s.z0.bytes ++ tail) = cM
  have hcraw : cM.rawBytes = s.z0.bytes ++ tail := by rw [← hcM]; exact memState_raw _ _ _ rfl
  have hch : cM.header = (runNDD d idx s.pre (s.g0.bytes ++ (wireOf s.M ++ (s.z0.bytes ++ tail))) c0).header := by
    rw [← hcM]; exact (memState_keeps _ _ _).1
  generalize hF3 : setRange f0 idx (s.pre ++ s.g0 :: s.M) = F3
  have hF3len : F3.length = f0.length := by rw [← hF3, setRange_length]
  have hk : idx + s.pre.length + 1 + s.M.length < F3.length := by omega
  have hjF3 : F3[idx + s.pre.length]? = some s.g0 := by
    rw [← hF3]; exact setRange_getElem_self _ idx s.pre s.g0 s.M (by omega)
  have hj : (F3.set (idx + s.pre.length + 1 + s.M.length) s.z0)[idx + s.pre.length]? = some s.g0 := by
    rw [List.getElem?_set_ne (by omega)]; exact hjF3
  have hz0 := hs.z s.z0 (by simp)
  have hex : extractField cM.rawBytes = (tail, .ok s.z0) := by rw [hcraw]; exact extractField_wire s.z0 _ hz0.1
  have hmtM : MTInv (F3.set (idx + s.pre.length + 1 + s.M.length) s.z0) cM.header t35 := by
    refine MTInv.set ?_ _ _ (by omega)
    rw [← hF3]
    refine MTInv.setRange ⟨?_, hmt0.2⟩ idx _ hi
    rw [hch, runNDD_header_find 35 s.pre idx _ _ (fun tv h => (hs.pre tv h).2.2.2.2.1)]
    exact hmt0.1
  rw [parseLoop_exit_stack ha st' hok F3 _ (idx + s.pre.length) cM s.z0 s.g0 t35 _ hk hmtM hv hj hex hzstep hs.zh hs.zt
    hz0.2.2.2.2.2 hz0.2.1 hz0.2.2.1]
  have hFeq : F3.set (idx + s.pre.length + 1 + s.M.length) s.z0 = setRange f0 idx s.flat := by
    rw [← hF3]
    have e1 : idx + s.pre.length + 1 + s.M.length = idx + (s.pre ++ s.g0 :: s.M).length := by simp; omega
    rw [e1, setRange_snoc]
    congr 1
    simp [Seg.flat]
  have hidx : idx + s.pre.length + 1 + s.M.length + 1 = idx + s.flat.length := by rw [s.flat_length]; omega
  rw [hFeq, hidx]
  subst hcM
  rfl

theorem segState_find_z (idx : Nat) (s : Seg) (tail : Bytes) (c : PCore) :
    alFind (segState d idx s tail c).body.lookup s.z0.tag = some (.view (idx + s.pre.length + 1 + s.M.length) 1) := by
  rw [segState_body]
  simp only [FieldMap.add]
  rw [alFind_insert_self]

theorem parseLoop_segsN {mt : Bytes} {fs : List DNode} (ha : AppMsg d mt fs) (t35 : TagValue) (hv : t35.value = mt) :
    ∀ (segs : List Seg), (∀ s ∈ segs, SegOKN d mt fs s) → ∀ (tail : Bytes) (f0 : List TagValue) (idx : Nat) (c0 : PCore),
    MTInv f0 c0.header t35 → 3 ≤ idx → c0.xmlDataLen = 0 →
    c0.rawBytes = wireOf (segs.flatMap Seg.flat) ++ tail → idx + (segs.flatMap Seg.flat).length ≤ f0.length →
    parseLoop Fixes.cur d .main f0 idx c0 =
      parseLoop Fixes.cur d .main (setRange f0 idx (segs.flatMap Seg.flat)) (idx + (segs.flatMap Seg.flat).length) (runSegs d idx segs tail c0) ∧
    alFind (runSegs d idx segs tail c0).header.lookup 35 = some (.view 2 1) := by
  intro segs
  induction segs with
  | nil => intro _ tail f0 idx c0 hmt _ _ _ _; exact ⟨by simp [setRange, runSegs], hmt.1⟩
  | cons s r ih =>
    intro hok tail f0 idx c0 hmt hi hx hraw hlen
    have hs := hok s (by simp)
    have hraw' : c0.rawBytes = wireOf s.flat ++ (wireOf (r.flatMap Seg.flat) ++ tail) := by
      rw [hraw]; simp [wireOf_append, List.append_assoc]
    have hlen' : idx + s.flat.length + (r.flatMap Seg.flat).length ≤ f0.length := by
      simp only [List.flatMap_cons, List.length_append] at hlen; omega
    have h1 := parseLoop_segN (d := d) ha t35 hv s hs (wireOf (r.flatMap Seg.flat) ++ tail) f0 idx c0 hmt hi hx hraw' (by omega)
    have hmt1 : MTInv (setRange f0 idx s.flat) (segState d idx s (wireOf (r.flatMap Seg.flat) ++ tail) c0).header t35 := by
      refine MTInv.setRange ⟨?_, hmt.2⟩ idx _ hi
      rw [segState_header, runNDD_header_find 35 s.pre idx _ _ (fun tv h => (hs.pre tv h).2.2.2.2.1)]
      exact hmt.1
    obtain ⟨h2, h35⟩ := ih (fun x hx => hok x (by simp [hx])) tail (setRange f0 idx s.flat) (idx + s.flat.length)
      (segState d idx s (wireOf (r.flatMap Seg.flat) ++ tail) c0) hmt1 (by omega)
      (by rw [(segState_raw _ _ _ _).2.1]; exact hx) (segState_raw _ _ _ _).1 (by rw [setRange_length]; omega)
    refine ⟨?_, by simpa [runSegs] using h35⟩
    rw [h1, h2]
    simp only [runSegs, List.flatMap_cons, List.length_append]
    rw [setRange_append, Nat.add_assoc]



/-- PARSE WITH THE DICTIONARY, ANY NUMBER OF GROUPS OF ANY NESTING DEPTH: `8, 9, 35, (plain…, G=<n>, <members>, z)…, plain…, 10` -/
theorem parse_dict_segsN {mt : Bytes} {fs : List DNode} (ha : AppMsg d mt fs) (t8 t9 t35 t10 : TagValue) (segs : List Seg) (post : List TagValue)
    (hw8 : IsWire t8) (hw9 : IsWire t9) (hw35 : IsWire t35) (hw10 : IsWire t10)
    (h8 : t8.tag = 8) (h9 : t9.tag = 9) (h35 : t35.tag = 35) (h10 : t10.tag = 10) (hv : t35.value = mt)
    (hsegs : ∀ s ∈ segs, SegOKN d mt fs s) (hpost : PlainFields d post)
    (hng10 : NoGroupTag d 10) (hh10 : isHeaderField d 10 = false)
    (hbl : atoi t9.value = .ok ((fieldsLength (t8 :: t9 :: t35 :: (segs.flatMap Seg.flat ++ (post ++ [t10]))) : Nat) : Int)) :
    ∃ m, parseMessage Fixes.cur d (wireOf (t8 :: t9 :: t35 :: (segs.flatMap Seg.flat ++ (post ++ [t10])))) = .ok m ∧
      m.fields = t8 :: t9 :: t35 :: (segs.flatMap Seg.flat ++ (post ++ [t10])) ∧
      m.raw = some (wireOf (t8 :: t9 :: t35 :: (segs.flatMap Seg.flat ++ (post ++ [t10])))) ∧
      (∀ (A : List Seg) (s : Seg) (B : List Seg), segs = A ++ s :: B →
        (∀ tv ∈ s.z0 :: (B.flatMap Seg.adds ++ post), tv.tag ≠ s.g0.tag) →
        alFind m.body.lookup s.g0.tag = some (.view (3 + (A.flatMap Seg.flat).length + s.pre.length) (1 + s.M.length))) ∧
      (∀ (A : List Seg) (s : Seg) (B : List Seg), segs = A ++ s :: B →
        (∀ tv ∈ B.flatMap Seg.adds ++ post, tv.tag ≠ s.z0.tag) →
        alFind m.body.lookup s.z0.tag = some (.view (3 + (A.flatMap Seg.flat).length + s.pre.length + 1 + s.M.length) 1)) := by
  have hsegW : ∀ s ∈ segs, ∀ tv ∈ s.flat, IsWire tv := by
    intro s hs tv htv
    have hok := hsegs s hs
    obtain ⟨C, st', _, hW, _⟩ := hok.grp
    simp only [Seg.flat, List.mem_append, List.mem_cons, List.mem_nil_iff, or_false] at htv
    rcases htv with h | e | h | e
    · exact (hok.pre tv h).1
    · subst e; exact hok.wg0
    · exact hW.wire tv h
    · subst e; exact (hok.z s.z0 (by simp)).1
  have hrestW : ∀ tv ∈ segs.flatMap Seg.flat ++ (post ++ [t10]), IsWire tv := by
    intro tv htv
    simp only [List.mem_append, List.mem_flatMap, List.mem_singleton] at htv
    rcases htv with ⟨s, hs, h⟩ | h | e
    · exact hsegW s hs tv h
    · exact (hpost tv h).1
    · subst e; exact hw10
  rw [parseMessage_lead Fixes.cur t8 t9 t35 _ hw8 hw9 hw35 hrestW h8 h9 h35]
  have hwire : wireOf (segs.flatMap Seg.flat ++ (post ++ [t10])) =
      wireOf (segs.flatMap Seg.flat) ++ (wireOf post ++ (t10.bytes ++ [])) := by
    simp [wireOf, List.append_assoc]
  rw [hwire]
  generalize hA : segs.flatMap Seg.flat = Afl at *
  have hlenR : (Afl ++ (post ++ [t10])).length = Afl.length + post.length + 1 := by simp; omega
  generalize hc0 : ndInit t8 t9 t35 (wireOf Afl ++ (wireOf post ++ (t10.bytes ++ []))) = c0
  have hraw0 : c0.rawBytes = wireOf Afl ++ (wireOf post ++ (t10.bytes ++ [])) := by rw [← hc0]; rfl
  have hx0 : c0.xmlDataLen = 0 := by rw [← hc0]; rfl
  have hxm0 : c0.xmlDataMsg = false := by rw [← hc0]; rfl
  have h35find0 : alFind c0.header.lookup 35 = some (.view 2 1) := by
    rw [← hc0]; simp [ndInit, FieldMap.add, FieldMap.empty, alInsert, alFind, h8, h9, h35]
  have h9find0 : alFind c0.header.lookup 9 = some (.view 1 1) := by
    rw [← hc0]; simp [ndInit, FieldMap.add, FieldMap.empty, alInsert, alFind, h8, h9, h35]
  obtain ⟨hP, _⟩ := parseLoop_segsN (d := d) ha t35 hv segs hsegs (wireOf post ++ (t10.bytes ++ []))
    ([t8, t9, t35] ++ List.replicate (Afl ++ (post ++ [t10])).length TagValue.zero) 3 c0
    ⟨h35find0, by simp⟩ (by omega) hx0 (by rw [hA]; exact hraw0) (by rw [hA]; simp [hlenR]; omega)
  rw [hA] at hP
  rw [hP]
  generalize hc4 : runSegs d 3 segs (wireOf post ++ (t10.bytes ++ [])) c0 = c4
  have hc4x : c4.xmlDataLen = 0 := by rw [← hc4, (runSegs_keeps _ _ _ _).1]; exact hx0
  have hc4xm : c4.xmlDataMsg = false := by rw [← hc4, (runSegs_keeps _ _ _ _).2]; exact hxm0
  have hc4raw : c4.rawBytes = wireOf post ++ (t10.bytes ++ []) := by
    rw [← hc4]; exact runSegs_raw _ _ _ _ (by rw [hA]; exact hraw0)
  have h9seg : ∀ tv ∈ segs.flatMap Seg.adds, tv.tag ≠ 9 := by
    intro tv htv
    obtain ⟨s, hs, h⟩ := List.mem_flatMap.1 htv
    have hok := hsegs s hs
    simp only [Seg.adds, List.mem_append, List.mem_cons, List.mem_singleton, List.mem_nil_iff, or_false] at h
    rcases h with h | e | e
    · exact (hok.pre tv h).2.2.2.1
    · subst e
      intro e9
      have := hok.gh
      rw [e9] at this
      simp [isHeaderField, Tag.isHeader, staticHeaderTags] at this
    · subst e; exact (hok.z s.z0 (by simp)).2.2.2.1
  rw [parseLoop_ndD Fixes.cur post _ (3 + Afl.length) c4 t10 []
    (fun tv h => ⟨(hpost tv h).1, (hpost tv h).2.1, (hpost tv h).2.2.1⟩)
    (fun tv h => (hpost tv h).2.2.2.2.2) (by rw [h10]; exact hng10) hw10 h10 hc4x hc4raw
    (by simp [setRange_length, hlenR]; omega)]
  have hFeq : setRange (setRange ([t8, t9, t35] ++ List.replicate (Afl ++ (post ++ [t10])).length TagValue.zero) 3 Afl) (3 + Afl.length) (post ++ [t10]) =
      t8 :: t9 :: t35 :: (Afl ++ (post ++ [t10])) := by
    rw [← setRange_append]
    have := setRange_replicate TagValue.zero (Afl ++ (post ++ [t10])) [t8, t9, t35]
    simpa using this
  rw [hFeq]
  generalize hC5 : ndSwitchD d (3 + Afl.length + post.length) t10
      { (runNDD d (3 + Afl.length) post (t10.bytes ++ []) c4) with rawBytes := [] } = C5
  have hC5hb := ndSwitchD_10 (d := d) (3 + Afl.length + post.length) t10
      { (runNDD d (3 + Afl.length) post (t10.bytes ++ []) c4) with rawBytes := [] } h10 hh10
  rw [hC5] at hC5hb
  have e9 : alFind C5.header.lookup 9 = some (.view 1 1) := by
    rw [hC5hb.1]
    show alFind (runNDD d _ post _ c4).header.lookup 9 = _
    rw [runNDD_header_find 9 post _ _ c4 (fun tv h => (hpost tv h).2.2.2.1), ← hc4]
    have := runSegs_find_absent (d := d) 9 .h segs 3 (wireOf post ++ (t10.bytes ++ [])) c0 h9seg
    simp only [PCore.sec] at this
    rw [this]; exact h9find0
  have hxm5 : C5.xmlDataMsg = false := by
    rw [← hC5, (ndSwitchD_raw _ _ _).2.2]
    show (runNDD d _ post _ c4).xmlDataMsg = false
    rw [runNDD_xml]; exact hc4xm
  rw [finish_ok _ C5 t9 e9 (by simp) hbl hxm5]
  refine ⟨_, rfl, rfl, rfl, ?_, ?_⟩
  rotate_left
  · intro A s B hsplit huniq
    show alFind (finishAdjust C5).body.lookup s.z0.tag = _
    rw [(finishAdjust_keeps _).2.2.1, hC5hb.2]
    show alFind ((runNDD d _ post _ c4).sec .b).lookup s.z0.tag = _
    rw [runNDD_find_absent s.z0.tag .b post _ _ c4 (fun tv h => huniq tv (by simp [h]))]
    rw [← hc4, hsplit, runSegs_append]
    simp only [runSegs]
    rw [runSegs_find_absent s.z0.tag .b B _ _ _ (fun tv h => huniq tv (by simp [h]))]
    show alFind (segState d _ s _ _).body.lookup s.z0.tag = _
    rw [segState_find_z]
  intro A s B hsplit huniq
  show alFind (finishAdjust C5).body.lookup s.g0.tag = _
  rw [(finishAdjust_keeps _).2.2.1, hC5hb.2]
  show alFind ((runNDD d _ post _ c4).sec .b).lookup s.g0.tag = _
  rw [runNDD_find_absent s.g0.tag .b post _ _ c4 (fun tv h => huniq tv (by simp [h]))]
  rw [← hc4, hsplit, runSegs_append]
  simp only [runSegs]
  rw [runSegs_find_absent s.g0.tag .b B _ _ _ (fun tv h => huniq tv (by simp [h]))]
  show alFind (segState d _ s _ _).body.lookup s.g0.tag = _
  rw [segState_find_group _ _ _ _ (huniq s.z0 (by simp))]


end Qfx
