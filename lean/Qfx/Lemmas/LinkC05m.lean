/-
  C05 liveness, part m: the link seen from the other side (`swapL`), `chain_A`, and the first liveness theorem
  (`settle_nogap`): with no gap, delivering everything in flight makes delivered = submitted.
-/
import Qfx.Lemmas.LinkC05l
namespace Qfx.Link
open Qfx Qfx.Sess

/-- the same link seen from the other side -/
def swapL (l : LSt) : LSt :=
  { a := l.b, b := l.a, a2b := l.b2a, b2a := l.a2b, sentA := l.sentB, sentB := l.sentA, dlvA := l.dlvB, dlvB := l.dlvA,
    rcvA := l.rcvB, rcvB := l.rcvA }

theorem swapL_swapL (l : LSt) : swapL (swapL l) = l := rfl

def swapSide : Side → Side | .A => .B | .B => .A

theorem onSide_swap (l : LSt) (side : Side) (e : Ev) : (onSide (swapL l) (swapSide side) e).1 = swapL (onSide l side e).1 := by
  cases side <;> rfl

theorem lstep_swap_deliver (l : LSt) (side : Side) : (lstep (swapL l) (.deliver (swapSide side))).1 = swapL (lstep l (.deliver side)).1 := by
  cases side with
  | A =>
    show (lstep (swapL l) (.deliver .B)).1 = _
    cases hq : l.b2a with
    | nil => simp [lstep, swapL, hq]
    | cons m rest => simp [lstep, swapL, hq, onSide]
  | B =>
    show (lstep (swapL l) (.deliver .A)).1 = _
    cases hq : l.a2b with
    | nil => simp [lstep, swapL, hq]
    | cons m rest => simp [lstep, swapL, hq, onSide]

theorem lstep_swap_flush (l : LSt) (side : Side) : (lstep (swapL l) (.flush (swapSide side))).1 = swapL (lstep l (.flush side)).1 := by
  cases side <;> rfl

theorem runL_swap_deliver (side : Side) (n : Nat) : ∀ l : LSt,
    runL (swapL l) (List.replicate n (.deliver (swapSide side))) = swapL (runL l (List.replicate n (.deliver side))) := by
  induction n with
  | zero => intro l; rfl
  | succ n ih =>
    intro l
    simp only [List.replicate_succ, runL]
    rw [lstep_swap_deliver, ih]

theorem LInv_swap {cfgA cfgB : Cfg} {l : LSt} (h : LInv cfgA cfgB l) : LInv cfgB cfgA (swapL l) := ⟨h.cb, h.ca, h.ba, h.ab⟩
theorem Bnd_swap {l : LSt} (h : Bnd l) : Bnd (swapL l) := ⟨h.2, h.1⟩

/-- `chain_B` for the other direction -/
theorem chain_A {cfgA cfgB : Cfg} (hcf : CfgsOK cfgA cfgB) {st : Store} {t E : Int} {chain : List OutMsg} (hseg : Seg st t chain E)
    (l : LSt) (rest : List OutMsg) (h : LInv cfgA cfgB l) (hst0 : l.b.store = st) (hq : l.b2a = chain ++ rest) (hst : RecvSt l.a.st)
    (hfix : stAt l.a.st t = l.a.st) (ht : l.a.store.target = t) (ho : l.a.out = true) (hb : Bnd l) :
    let l' := runL l (List.replicate chain.length (.deliver .A))
    LInv cfgA cfgB l' ∧ l'.b = l.b ∧ l'.b2a = rest ∧ l'.a2b = l.a2b ∧ l'.a.st = stAt l.a.st E ∧ l'.a.store.target = E ∧
      l'.a.store.sender = l.a.store.sender ∧ l'.a.toSend = l.a.toSend ∧ l'.a.out = true ∧ l'.sentA = l.sentA ∧ l'.sentB = l.sentB ∧
      Grow true l.a.store l'.a.store := by
  intro l'
  have := chain_B hcf.symm hseg (swapL l) rest (LInv_swap h) hst0 hq hst hfix ht ho (Bnd_swap hb)
  have e : runL (swapL l) (List.replicate chain.length (.deliver .B)) = swapL l' := runL_swap_deliver .A chain.length l
  rw [e] at this
  obtain ⟨j1, j2, j3, j4, j5, j6, j7, j8, j9, j10, j11, j12⟩ := this
  exact ⟨LInv_swap j1, j2, j3, j4, j5, j6, j7, j8, j9, j11, j10, j12⟩

theorem Seg.mono {adm : Bool} {st st' : Store} (hg : Grow adm st st') {t E : Int} {l : List OutMsg} (h : Seg st t l E) : Seg st' t l E := by
  induction h with
  | nil t => exact .nil t
  | gap hw _ ih => exact .gap (hw.mono hg) ih
  | msg hw hs hk _ ih => exact .msg (hw.mono hg) hs hk ih

theorem runL_append (l : LSt) (x y : List LEv) : runL l (x ++ y) = runL (runL l x) y := by
  induction x generalizing l with
  | nil => rfl
  | cons e es ih => exact ih _

/-- the invariant turns "the expected number has caught up with the peer's next number" into "everything submitted has
    been delivered" -/
theorem delivered_all_B {cfgA cfgB : Cfg} {l : LSt} (h : LInv cfgA cfgB l) (ht : l.b.store.target = l.a.store.sender) : l.dlvB = l.sentA := by
  rw [h.ab.dlv, h.ab.sent, ht, below_all _ _ (fun p hp => (h.ab.sok.ent p hp).2.2.1)]

theorem delivered_all_A {cfgA cfgB : Cfg} {l : LSt} (h : LInv cfgA cfgB l) (ht : l.a.store.target = l.b.store.sender) : l.dlvA = l.sentB := by
  rw [h.ba.dlv, h.ba.sent, ht, below_all _ _ (fun p hp => (h.ba.sok.ent p hp).2.2.1)]

/-- the receiving state is stable at the current expected number: a resend state still has its gap ahead -/
def RecvAt (st : SState) (t : Int) : Prop := RecvSt st ∧ stAt st t = st

/-- **liveness, no gap.**  Both engines logged on, and each link carries exactly the peer's messages from the receiver's
    expected number up to the sender's next number (application messages, heartbeats, rejects, PossDup copies, gap fills —
    nothing that needs an answer): delivering everything in flight makes delivered = submitted in both directions -/
theorem settle_nogap {cfgA cfgB : Cfg} (hcf : CfgsOK cfgA cfgB) (l : LSt) (h : LInv cfgA cfgB l) (hb : Bnd l)
    (hsa : RecvAt l.a.st l.a.store.target) (hsb : RecvAt l.b.st l.b.store.target) (hoa : l.a.out = true) (hob : l.b.out = true)
    (hab : Seg l.a.store l.b.store.target l.a2b l.a.store.sender) (hba : Seg l.b.store l.a.store.target l.b2a l.b.store.sender) :
    let l' := runL l (List.replicate l.a2b.length (.deliver .B) ++ List.replicate l.b2a.length (.deliver .A))
    l'.dlvB = l'.sentA ∧ l'.dlvA = l'.sentB ∧ l'.a2b = [] ∧ l'.b2a = [] ∧ LInv cfgA cfgB l' := by
  intro l'
  obtain ⟨j1, j2, j3, j4, j5, j6, j7, j8, j9, j10, j11, j12⟩ :=
    chain_B hcf hab l [] h rfl (by simp) hsb.1 hsb.2 rfl hob hb
  generalize hl1 : runL l (List.replicate l.a2b.length (.deliver .B)) = l1 at j1 j2 j3 j4 j5 j6 j7 j8 j9 j10 j11 j12
  have hb1 : Bnd l1 := ⟨by rw [j2]; exact hb.1, by rw [j7]; exact hb.2⟩
  have hba1 : Seg l1.b.store l1.a.store.target l1.b2a l1.b.store.sender := by
    rw [j2, j4, j7]; exact hba.mono j12
  obtain ⟨k1, k2, k3, k4, k5, k6, k7, k8, k9, k10, k11, k12⟩ :=
    chain_A hcf hba1 l1 [] j1 rfl (by simp) (by rw [j2]; exact hsa.1) (by rw [j2]; exact hsa.2) rfl (by rw [j2]; exact hoa) hb1
  have hl' : l' = runL l1 (List.replicate l1.b2a.length (.deliver .A)) := by
    show runL l _ = _
    rw [runL_append, hl1, j4]
  rw [hl']
  refine ⟨delivered_all_B k1 ?_, delivered_all_A k1 ?_, ?_, k3, k1⟩
  · rw [k2, j6, k7, j2]
  · rw [k6, k2]
  · rw [k4, j3]

end Qfx.Link
