/-
  Lemmas for C08, second part: composition of the preservation steps, handler outcomes, the handlers of the logged-on
  states (see SessC08.lean for the ghost state, the invariant and the sending primitives).
-/
import Qfx.Lemmas.SessC08
namespace Qfx.Sess
open Qfx

/-! ## 5. preservation: composition, the handlers -/

theorem appFirst_admin (m : OutMsg) (h : isAdminKind m.kind = true) : appFirst m = false := by simp [appFirst, h]
theorem appFirst_mkOut_j (f : Fields) : appFirst (mkOut "j" f) = false := by simp [appFirst, mkOut]
theorem rejectMsg_ok (cfg : Cfg) (m : InMsg) (r : Nat) (t : Option Nat) (b : Bool) :
    ((rejectMsg cfg m r t b).kind == "5") = false ∧ appFirst (rejectMsg cfg m r t b) = false := by
  unfold rejectMsg
  simp only []
  repeat' split
  all_goals first
    | exact ⟨rfl, appFirst_mkOut_j _⟩
    | exact ⟨rfl, appFirst_admin _ (by decide)⟩
theorem gapFill_ok (a b : Int) : ((gapFill a b).kind == "5") = false ∧ appFirst (gapFill a b) = false :=
  ⟨rfl, appFirst_admin _ (by show isAdminKind "4" = true; decide)⟩
theorem gapFillR_ok (s : Sess) (a b : Int) : ((gapFillR s a b).kind == "5") = false ∧ appFirst (gapFillR s a b) = false :=
  ⟨rfl, appFirst_admin _ (by show isAdminKind "4" = true; decide)⟩
theorem resent_ok (m : OutMsg) (h : isAdminKind m.kind = false) : ((resent m).kind == "5") = false ∧ appFirst (resent m) = false := by
  refine ⟨?_, ?_⟩
  · show (m.kind == "5") = false
    cases hk : m.kind == "5"
    · rfl
    · have : m.kind = "5" := by simpa using hk
      rw [this] at h; revert h; decide
  · simp [appFirst, resent_possDup]

/-- `P true` = both invariants preserved, `P false` = the weak one (a Logout may have been written) -/
structure P (b : Bool) (g0 : G8) (s x : Sess) : Prop where
  fr : Fr s x
  w : WK g0 s → WK g0 x
  st : b = true → SK g0 s → SK g0 x

theorem P.refl (b : Bool) (g0 : G8) (s : Sess) : P b g0 s s := ⟨Fr.refl s, id, fun _ => id⟩
theorem P.pn {b : Bool} {g0 : G8} {s x y : Sess} (h : P b g0 s x) (h2 : PN g0 x y) : P b g0 s y :=
  ⟨h.fr.trans h2.fr, fun hw => h2.w (h.w hw), fun hb hs => h2.st (h.st hb hs)⟩
theorem P.pl {b : Bool} {g0 : G8} {s x y : Sess} (h : P b g0 s x) (h2 : PL g0 x y) : P false g0 s y :=
  ⟨h.fr.trans h2.fr, fun hw => h2.w (h.w hw), fun hb => by cases hb⟩
theorem P.weaken {b : Bool} {g0 : G8} {s x : Sess} (h : P b g0 s x) : P false g0 s x :=
  ⟨h.fr, h.w, fun hb => by cases hb⟩
theorem P.trans {b : Bool} {g0 : G8} {s x y : Sess} (h : P b g0 s x) (h2 : P b g0 x y) : P b g0 s y :=
  ⟨h.fr.trans h2.fr, fun hw => h2.w (h.w hw), fun hb hs => h2.st hb (h.st hb hs)⟩
theorem P.ofPN {g0 : G8} {s x : Sess} (b : Bool) (h : PN g0 s x) : P b g0 s x := (P.refl b g0 s).pn h

/-- an observation that leaves the ghost state alone here -/
theorem pn_emit_fix (g0 : G8) (s : Sess) (o : Obs) (h : WK g0 s → c8o (g8Of g0 s) o = g8Of g0 s) : PN g0 s (s.emit o) := by
  have fr : Fr s (s.emit o) := ⟨rfl, rfl, rfl, rfl, rfl⟩
  have hw : WK g0 s → WK g0 (s.emit o) := fun hW => by
    unfold WK; rw [g8Of_emit, h hW]; exact W.congr hW rfl rfl rfl rfl rfl rfl
  exact ⟨fr, hw, fun hS => SK_of hS fr (hw hS.1) (by rw [g8Of_emit, h hS.1])⟩

section peel
variable {b : Bool} {g0 : G8} {s x : Sess}
theorem qpeel_emit (o : Obs) (ho : silent o = true) (h : P b g0 s x) : P b g0 s (x.emit o) := h.pn ((Sil.emit x o ho).pn g0)
theorem qpeel_setSentReset (v : Bool) (h : P b g0 s x) : P b g0 s (x.setSentReset v) :=
  h.pn ((Sil.of_eq (s := x) (s' := x.setSentReset v) ⟨rfl, rfl, rfl, rfl, rfl⟩ rfl rfl).pn g0)
theorem qpeel_setHb (v : Int) (h : P b g0 s x) : P b g0 s (x.setHb v) :=
  h.pn ((Sil.of_eq (s := x) (s' := x.setHb v) ⟨rfl, rfl, rfl, rfl, rfl⟩ rfl rfl).pn g0)
theorem qpeel_setTarget (v : Int) (h : P b g0 s x) : P b g0 s (x.setTarget v) :=
  h.pn ((Sil.of_eq (s := x) (s' := x.setTarget v) ⟨rfl, rfl, rfl, rfl, rfl⟩ rfl rfl).pn g0)
theorem qpeel_setPendingStop (h : P b g0 s x) : P b g0 s x.setPendingStop :=
  h.pn ((Sil.of_eq (s := x) (s' := x.setPendingStop) ⟨rfl, rfl, rfl, rfl, rfl⟩ rfl rfl).pn g0)
theorem qpeel_storeReset (h : P b g0 s x) : P b g0 s x.storeReset := h.pn ((sil_storeReset x).pn g0)
theorem qpeel_incrTarget (h : P b g0 s x) : P b g0 s (incrTarget x) := h.pn ((sil_incrTarget x).pn g0)
theorem qpeel_setToSend_nil (h : P b g0 s x) : P b g0 s (x.setToSend []) := h.pn (pn_setToSend_nil g0 x)
theorem qpeel_dropAndReset (h : P b g0 s x) : P b g0 s (dropAndReset x) := h.pn (pn_dropAndReset g0 x)
theorem qpeel_sendInReplyTo (m : OutMsg) (hk5 : (m.kind == "5") = false) (ha : appFirst m = false) (h : P b g0 s x) :
    P b g0 s (sendInReplyTo x m) := h.pn (pn_sendInReplyTo g0 x m hk5 ha)
theorem qpeel_heartbeat (f : Fields) (h : P b g0 s x) : P b g0 s (sendInReplyTo x (mkOut "0" f)) :=
  qpeel_sendInReplyTo _ rfl (appFirst_admin _ rfl) h
theorem qpeel_heartbeatRe (f : Fields) (m : InMsg) (h : P b g0 s x) : P b g0 s (sendInReplyTo x ((mkOut "0" f).inReplyTo m)) :=
  qpeel_sendInReplyTo _ rfl (appFirst_admin _ rfl) h
theorem qpeel_testRequest (f : Fields) (h : P b g0 s x) : P b g0 s (sendInReplyTo x (mkOut "1" f)) :=
  qpeel_sendInReplyTo _ rfl (appFirst_admin _ rfl) h
theorem qpeel_doReject (m : InMsg) (r : Nat) (t : Option Nat) (bz : Bool) (h : P b g0 s x) : P b g0 s (doReject x m r t bz) :=
  h.pn (pn_sendInReplyTo g0 x _ (rejectMsg_ok x.cfg m r t bz).1 (rejectMsg_ok x.cfg m r t bz).2)
theorem qpeel_sendLogonInReplyTo (r : Bool) (h : P b g0 s x) : P b g0 s (sendLogonInReplyTo x r) :=
  h.pn (pn_dropAndSend_logon g0 x _ rfl)
theorem qpeel_sendLogonRe (r : Bool) (m : InMsg) (h : P b g0 s x) : P b g0 s (sendLogonRe x r m) :=
  h.pn (pn_dropAndSend_logon g0 x _ rfl)
theorem qpeel_setReplyLast (v : Option Int) (h : P b g0 s x) : P b g0 s (x.setReplyLast v) :=
  h.pn ((Sil.of_eq (s := x) (s' := x.setReplyLast v) ⟨rfl, rfl, rfl, rfl, rfl⟩ rfl rfl).pn g0)
theorem qpeel_enqueueAndSend (m : OutMsg) (hn : (s.st.loggedOn || s.st.isLogout) = true) (hk5 : (m.kind == "5") = false)
    (ha : appFirst m = false) (h : P b g0 s x) : P b g0 s (enqueueAndSend x m) :=
  h.pn (pn_enqueueAndSend g0 x m (by rw [h.fr.st]; exact hn) hk5 ha)
theorem qpeel_sendLogout (hst : s.st.isLogon = false) (h : P false g0 s x) : P false g0 s (sendLogout x) :=
  h.pl (pl_sendLogout g0 x (by rw [h.fr.st]; exact hst))
theorem qpeel_initiateLogout (hst : s.st.isLogon = false) (h : P false g0 s x) : P false g0 s (initiateLogout x) :=
  h.pl (pl_sendLogout g0 x (by rw [h.fr.st]; exact hst))
theorem qpeel_sendInReplyTo_logout (hst : s.st.isLogon = false) (h : P false g0 s x) : P false g0 s (sendInReplyTo x (mkOut "5" [])) :=
  h.pl (pl_sendLogout g0 x (by rw [h.fr.st]; exact hst))
theorem qpeel_dropAndSend_logout (h : P false g0 s x) : P false g0 s (dropAndSend x (mkOut "5" [])) :=
  h.pl (pl_dropAndSend_logout g0 x)
theorem qpeel_sendInReplyTo_logoutRe (m : InMsg) (hst : s.st.isLogon = false) (h : P false g0 s x) :
    P false g0 s (sendInReplyTo x ((mkOut "5" []).inReplyTo m)) :=
  h.pl (pl_sendLogoutMsg g0 x _ rfl (by rw [h.fr.st]; exact hst))
theorem qpeel_dropAndSend_logoutRe (m : InMsg) (h : P false g0 s x) : P false g0 s (dropAndSend x ((mkOut "5" []).inReplyTo m)) :=
  h.pl (pl_dropAndSend_logoutMsg g0 x _ rfl)
theorem qpeel_ite (c : Prop) [Decidable c] {y z : Sess} (hy : P b g0 s y) (hz : P b g0 s z) : P b g0 s (if c then y else z) := by
  split <;> assumption
theorem qpeel_sendResendRequest (bq e : Int) (h : P b g0 s x) : P b g0 s (sendResendRequest x bq e).1 := by
  unfold sendResendRequest
  simp only []
  split <;> exact qpeel_sendInReplyTo _ rfl (appFirst_admin _ (by show isAdminKind "2" = true; decide)) h
end peel

syntax "q_step" : tactic
macro_rules | `(tactic| q_step) => `(tactic| assumption)
macro_rules | `(tactic| q_step) => `(tactic| exact P.refl _ _ _)
macro_rules | `(tactic| q_step) => `(tactic| exact P.weaken (by assumption))
macro_rules | `(tactic| q_step) => `(tactic| apply qpeel_emit _ (by with_unfolding_all rfl))
macro_rules | `(tactic| q_step) => `(tactic| apply qpeel_setSentReset)
macro_rules | `(tactic| q_step) => `(tactic| apply qpeel_setHb)
macro_rules | `(tactic| q_step) => `(tactic| apply qpeel_setTarget)
macro_rules | `(tactic| q_step) => `(tactic| apply qpeel_setPendingStop)
macro_rules | `(tactic| q_step) => `(tactic| apply qpeel_storeReset)
macro_rules | `(tactic| q_step) => `(tactic| apply qpeel_incrTarget)
macro_rules | `(tactic| q_step) => `(tactic| apply qpeel_setToSend_nil)
macro_rules | `(tactic| q_step) => `(tactic| apply qpeel_dropAndReset)
macro_rules | `(tactic| q_step) => `(tactic| apply qpeel_heartbeat)
macro_rules | `(tactic| q_step) => `(tactic| apply qpeel_testRequest)
macro_rules | `(tactic| q_step) => `(tactic| apply qpeel_sendInReplyTo_logout)
macro_rules | `(tactic| q_step) => `(tactic| apply qpeel_doReject)
macro_rules | `(tactic| q_step) => `(tactic| apply qpeel_sendLogonInReplyTo)
macro_rules | `(tactic| q_step) => `(tactic| apply qpeel_sendLogonRe)
macro_rules | `(tactic| q_step) => `(tactic| apply qpeel_setReplyLast)
macro_rules | `(tactic| q_step) => `(tactic| apply qpeel_heartbeatRe)
macro_rules | `(tactic| q_step) => `(tactic| apply qpeel_sendInReplyTo_logoutRe)
macro_rules | `(tactic| q_step) => `(tactic| apply qpeel_dropAndSend_logoutRe)
macro_rules | `(tactic| q_step) => `(tactic| apply qpeel_sendResendRequest)
macro_rules | `(tactic| q_step) => `(tactic| apply qpeel_sendLogout)
macro_rules | `(tactic| q_step) => `(tactic| apply qpeel_initiateLogout)
macro_rules | `(tactic| q_step) => `(tactic| apply qpeel_dropAndSend_logout)
macro_rules | `(tactic| q_step) => `(tactic| apply qpeel_ite)

/-- close `P b g0 s (f₁ (f₂ … x))` goals by peeling model functions down to an assumption or to `s` itself -/
macro "q_peel" : tactic => `(tactic| with_reducible (repeat q_step))

/-! ### handler outcomes -/

/-- from the logout state every connected outcome is the logout state again -/
def eff (cur nx : SState) : SState := if cur.isLogout then .logout else nx

/-- what a handler `(session, next state)` guarantees: if the next state is connected both invariants hold with
    the next state in place; if not, the weak invariant holds with the old state still in place (the disconnect is
    `setState`'s business) -/
structure H8 (g0 : G8) (s : Sess) (r : Sess × SState) : Prop where
  fr : Fr s r.1
  nst : r.2.sessionTime = true
  w : WK g0 s → if r.2.connected then WK g0 (r.1.setSt (eff s.st r.2)) else WK g0 r.1
  st : SK g0 s → if r.2.connected then SK g0 (r.1.setSt (eff s.st r.2)) else WK g0 r.1

theorem g8Of_setSt (g0 : G8) (s : Sess) (st : SState) : g8Of g0 (s.setSt st) = g8Of g0 s := rfl

/-- a handler that stays logged on (from the logout state: stays there) after neutral steps only -/
theorem H8.same {g0 : G8} {s x : Sess} {nx : SState} (hn : (s.st.loggedOn || s.st.isLogout) = true) (hnx : nx.loggedOn = true)
    (h : P true g0 s x) : H8 g0 s (x, nx) := by
  have hc : nx.connected = true := by rw [SState.connected_eq, hnx]; rfl
  have key : ∀ g, W g x → W g (x.setSt (eff s.st nx)) := by
    intro g hW
    unfold eff
    cases hlo : s.st.isLogout
    · have hl : s.st.loggedOn = true := by rw [hlo] at hn; simpa using hn
      simp only [Bool.false_eq_true, if_false]
      exact hW.congr (by rw [h.fr.st, hl]; exact hnx)
        (by rw [h.fr.st, SState.loggedOn_not_logon _ hl]; exact SState.loggedOn_not_logon _ hnx)
        (by rw [h.fr.st, hlo]; exact SState.loggedOn_not_logout _ hnx) rfl rfl rfl
    · simp only [if_true]
      exact hW.congr (by rw [h.fr.st, SState.logout_not_loggedOn _ hlo]; rfl)
        (by rw [h.fr.st, SState.logout_not_logon _ hlo]; rfl) (by rw [h.fr.st, hlo]; rfl) rfl rfl rfl
  refine ⟨h.fr, (by cases nx <;> first | rfl | cases hnx), fun hW => ?_, fun hS => ?_⟩
  · simp only [hc, if_true]
    exact key _ (h.w hW)
  · simp only [hc, if_true]
    have hS' := h.st rfl hS
    refine ⟨key _ hS'.1, ?_⟩
    intro ho hst
    have h2 := hS'.2 ho
    unfold eff at hst
    cases hlo : s.st.isLogout
    · have hl : s.st.loggedOn = true := by rw [hlo] at hn; simpa using hn
      exact h2 (by rw [h.fr.st, hl]; rfl)
    · rw [hlo] at hst; simp [Sess.setSt, SState.loggedOn, SState.isLogon] at hst

/-- a handler that ends in the logout state -/
theorem H8.logout {b : Bool} {g0 : G8} {s x : Sess} (hn : (s.st.loggedOn || s.st.isLogout) = true)
    (h : P b g0 s x) : H8 g0 s (x, .logout) := by
  have key : ∀ g, W g x → W g (x.setSt (eff s.st .logout)) := by
    intro g hW
    have he : eff s.st .logout = .logout := by unfold eff; split <;> rfl
    rw [he]
    obtain ⟨a1, a2, a3, a4, a5, a6, a7, a8⟩ := hW
    have hxn : (x.st.loggedOn || x.st.isLogout) = true := by rw [h.fr.st]; exact hn
    exact { ok := a1, conn := a2, cb := (by rw [a3, hxn]; rfl), hs := a4,
            notif := (fun _ => a5 (by cases hl : x.st.loggedOn <;> simp_all)),
            fresh := (fun ho hf => by
              have := (a6 ho hf).1
              cases hl : x.st.loggedOn
              · rw [hl] at hxn; simp at hxn; rw [SState.logout_not_logon _ hxn] at this; cases this
              · rw [SState.loggedOn_not_logon _ hl] at this; cases this),
            queue := (fun _ hc => by simp [Sess.setSt, SState.loggedOn, SState.isLogon] at hc),
            noconn := (fun hc => by simp [Sess.setSt, SState.loggedOn, SState.isLogon, SState.isLogout] at hc) }
  refine ⟨h.fr, rfl, fun hW => ?_, fun hS => ?_⟩
  · simp only [SState.connected, if_true]
    exact key _ (h.w hW)
  · simp only [SState.connected, if_true]
    refine ⟨key _ (h.w hS.1), ?_⟩
    intro _ hst
    have he : eff s.st .logout = .logout := by unfold eff; split <;> rfl
    rw [he] at hst
    simp [Sess.setSt, SState.loggedOn, SState.isLogon] at hst

/-- a handler that ends the connection -/
theorem H8.down {b : Bool} {g0 : G8} {s x : Sess} (h : P b g0 s x) : H8 g0 s (x, .latent) :=
  ⟨h.fr, rfl, fun hW => by simp only [SState.connected, Bool.false_eq_true, if_false]; exact h.w hW,
   fun hS => by simp only [SState.connected, Bool.false_eq_true, if_false]; exact h.w hS.1⟩

theorem H8.after {g0 : G8} {s s' : Sess} {r : Sess × SState} (h : P true g0 s s') (hr : H8 g0 s' r) : H8 g0 s r := by
  refine ⟨h.fr.trans hr.fr, hr.nst, fun hW => ?_, fun hS => ?_⟩
  · rw [← h.fr.st]; exact hr.w (h.w hW)
  · rw [← h.fr.st]; exact hr.st (h.st rfl hS)

macro "h8_close" : tactic => `(tactic| first
  | (apply H8.same (by assumption) rfl; q_peel; done)
  | (apply H8.logout (b := false) (by assumption); q_peel; done)
  | (apply H8.down (b := false); q_peel; done))

macro "h8_cases" : tactic => `(tactic| (
  (repeat' split)
  all_goals (try dsimp only)
  all_goals (repeat' split)
  all_goals (try dsimp only)
  all_goals h8_close))

theorem notif_not_logon {st : SState} (hn : (st.loggedOn || st.isLogout) = true) : st.isLogon = false := by
  cases hl : st.isLogon
  · rfl
  · rw [SState.logon_not_loggedOn _ hl, SState.logon_not_logout _ hl] at hn; cases hn

theorem c8o_fromApp (g : G8) (a : String) (t : Int) : c8o g (.fromApp a t) = { g with ok := g.ok && g.cb } := rfl
theorem c8o_onLogon (g : G8) : c8o g .onLogon = { g with cb := true, handshake := true } := rfl

theorem pn_verifyAppImpl (g0 : G8) (s : Sess) (m : InMsg)
    (h : (s.st.loggedOn || s.st.isLogout) = true ∨ isAdminKind (kindOf m) = true) : PN g0 s (verifyAppImpl s m).1 := by
  unfold verifyAppImpl
  split
  · exact PN.refl g0 s
  · simp only []
    split
    · exact (Sil.emit _ _ rfl).pn g0
    · rename_i hk
      rcases h with h | h
      · refine pn_emit_fix g0 s _ (fun hW => ?_)
        rw [c8o_fromApp]
        have h1 := hW.ok
        have h2 : (g8Of g0 s).cb = true := by rw [hW.cb]; exact h
        generalize g8Of g0 s = g at h1 h2
        cases g; simp_all
      · exact absurd h hk

theorem pn_verifySelect (g0 : G8) (s : Sess) (m : InMsg) (a b c : Bool)
    (h : (s.st.loggedOn || s.st.isLogout) = true ∨ isAdminKind (kindOf m) = true ∨ c = false) :
    PN g0 s (verifySelect s m a b c).1 := by
  unfold verifySelect
  repeat' split
  all_goals first
    | exact PN.refl g0 s
    | (rcases h with h | h | h
       · exact pn_verifyAppImpl g0 s m (Or.inl h)
       · exact pn_verifyAppImpl g0 s m (Or.inr h)
       · rename_i hc; exact absurd h (by simpa using hc))

theorem h8_doTargetTooLow (g0 : G8) (s : Sess) (m : InMsg) (hn : (s.st.loggedOn || s.st.isLogout) = true) :
    H8 g0 s (doTargetTooLow s m) := by
  have hnl := notif_not_logon hn
  unfold doTargetTooLow
  h8_cases

theorem h8_processReject (g0 : G8) (s : Sess) (m : InMsg) (r : Rej) (hn : (s.st.loggedOn || s.st.isLogout) = true) :
    H8 g0 s (processReject s m r) := by
  have hnl := notif_not_logon hn
  unfold processReject
  split
  · split
    · h8_close
    · split
      rename_i recv exp _ _ _ _ _ _ heq
      have hp : P true g0 s (sendResendRequest s exp (recv - 1)).1 := qpeel_sendResendRequest _ _ (P.refl _ _ _)
      rw [heq] at hp
      h8_close
  · exact h8_doTargetTooLow g0 s m hn
  all_goals h8_cases

theorem pn_resendLoop (g0 : G8) (s : Sess) (a b : Int) (l : List (Int × OutMsg)) (hn : (s.st.loggedOn || s.st.isLogout) = true) :
    PN g0 s (resendLoop s a b l).1 := by
  induction l generalizing s a b with
  | nil => exact PN.refl g0 s
  | cons p rest ih =>
    obtain ⟨n, m⟩ := p
    simp only [resendLoop]
    split
    · exact ih s a (n + 1) hn
    · split
      · exact ih s a (n + 1) hn
      · rename_i hadm _
        have hadm' : isAdminKind m.kind = false := by simpa using hadm
        have h2 := fun x hx => pn_enqueueAndSend g0 x (resent m) hx (resent_ok m hadm').1 (resent_ok m hadm').2
        have h1 := fun x hx => pn_enqueueAndSend g0 x (gapFillR s a n) hx (gapFillR_ok s a n).1 (gapFillR_ok s a n).2
        try dsimp only
        split
        · have e1 := h1 s hn
          have hn1 : ((enqueueAndSend s (gapFillR s a n)).st.loggedOn || (enqueueAndSend s (gapFillR s a n)).st.isLogout) = true := by
            rw [e1.fr.st]; exact hn
          have e2 := h2 _ hn1
          have hn2 : ((enqueueAndSend (enqueueAndSend s (gapFillR s a n)) (resent m)).st.loggedOn ||
              (enqueueAndSend (enqueueAndSend s (gapFillR s a n)) (resent m)).st.isLogout) = true := by
            rw [e2.fr.st]; exact hn1
          exact (e1.trans e2).trans (ih _ _ _ hn2)
        · have e2 := h2 s hn
          have hn2 : ((enqueueAndSend s (resent m)).st.loggedOn || (enqueueAndSend s (resent m)).st.isLogout) = true := by
            rw [e2.fr.st]; exact hn
          exact e2.trans (ih _ _ _ hn2)

theorem pn_resendMessages (g0 : G8) (s : Sess) (b e : Int) (hn : (s.st.loggedOn || s.st.isLogout) = true) :
    PN g0 s (resendMessages s b e) := by
  unfold resendMessages
  split
  · exact PN.refl g0 s
  · split
    · exact pn_enqueueAndSend g0 s _ hn (gapFillR_ok _ _ _).1 (gapFillR_ok _ _ _).2
    · have hl := pn_resendLoop g0 s b b (s.store.range b e) hn
      generalize resendLoop s b b (s.store.range b e) = r at hl
      obtain ⟨s', x, y⟩ := r
      try dsimp only at hl ⊢
      split
      · exact hl.trans (pn_enqueueAndSend g0 s' _ (by rw [hl.fr.st]; exact hn) (gapFillR_ok _ _ _).1 (gapFillR_ok _ _ _).2)
      · exact hl

theorem qpeel_resendMessages {b : Bool} {g0 : G8} {s x : Sess} (bq e : Int) (hn : (s.st.loggedOn || s.st.isLogout) = true)
    (h : P b g0 s x) : P b g0 s (resendMessages x bq e) :=
  h.pn (pn_resendMessages g0 x bq e (by rw [h.fr.st]; exact hn))
macro_rules | `(tactic| q_step) => `(tactic| apply qpeel_resendMessages)

theorem h8_handleLogout (g0 : G8) (s : Sess) (m : InMsg) (hn : (s.st.loggedOn || s.st.isLogout) = true) :
    H8 g0 s (handleLogout s m) := by
  have hnl := notif_not_logon hn
  unfold handleLogout
  have hv := pn_verifySelect g0 s m false false true (Or.inl hn)
  generalize verifySelect s m false false true = r at hv
  obtain ⟨s', o⟩ := r
  have hv' : P true g0 s s' := P.ofPN true hv
  cases o with
  | some r => exact H8.after hv' (h8_processReject g0 s' m r (by rw [hv.fr.st]; exact hn))
  | none => dsimp only; h8_cases

theorem h8_handleTestRequest (g0 : G8) (s : Sess) (m : InMsg) (hn : (s.st.loggedOn || s.st.isLogout) = true) :
    H8 g0 s (handleTestRequest s m) := by
  have hnl := notif_not_logon hn
  unfold handleTestRequest
  have hv := pn_verifySelect g0 s m true true true (Or.inl hn)
  generalize verifySelect s m true true true = r at hv
  obtain ⟨s', o⟩ := r
  have hv' : P true g0 s s' := P.ofPN true hv
  cases o with
  | some r => exact H8.after hv' (h8_processReject g0 s' m r (by rw [hv.fr.st]; exact hn))
  | none => dsimp only; h8_cases

theorem h8_handleSequenceReset_core (g0 : G8) (s : Sess) (m : InMsg) (gf : Bool) (hn : (s.st.loggedOn || s.st.isLogout) = true) :
    H8 g0 s (match verifySelect s m gf gf true with
      | (s, some r) => processReject s m r
      | (s, none) =>
        match getInt m 36 with
        | .val n =>
          if n > s.store.target then ((s.setTarget n).emit (.setT n), SState.inSession)
          else if n < s.store.target then (doReject s m 5 none false, SState.inSession)
          else (s, SState.inSession)
        | _ => (s, SState.inSession)) := by
  have hnl := notif_not_logon hn
  have hv := pn_verifySelect g0 s m gf gf true (Or.inl hn)
  generalize verifySelect s m gf gf true = r at hv
  obtain ⟨s', o⟩ := r
  have hv' : P true g0 s s' := P.ofPN true hv
  cases o with
  | some r => exact H8.after hv' (h8_processReject g0 s' m r (by rw [hv.fr.st]; exact hn))
  | none => dsimp only; h8_cases

theorem h8_handleSequenceReset (g0 : G8) (s : Sess) (m : InMsg) (hn : (s.st.loggedOn || s.st.isLogout) = true) :
    H8 g0 s (handleSequenceReset s m) := by
  unfold handleSequenceReset
  split
  · exact h8_processReject g0 s m _ hn
  · exact h8_handleSequenceReset_core g0 s m _ hn

theorem h8_handleResendRequest (g0 : G8) (s : Sess) (m : InMsg) (hn : (s.st.loggedOn || s.st.isLogout) = true) :
    H8 g0 s (handleResendRequest s m) := by
  have hnl := notif_not_logon hn
  unfold handleResendRequest
  have hv := pn_verifySelect g0 s m false false true (Or.inl hn)
  generalize verifySelect s m false false true = r at hv
  obtain ⟨s', o⟩ := r
  have hv' : P true g0 s s' := P.ofPN true hv
  have hn' : (s'.st.loggedOn || s'.st.isLogout) = true := by rw [hv.fr.st]; exact hn
  cases o with
  | some r => exact H8.after hv' (h8_processReject g0 s' m r hn')
  | none =>
    dsimp only
    repeat' split
    all_goals (try dsimp only)
    all_goals first
      | h8_close
      | exact H8.after hv' (h8_processReject g0 s' m _ hn')

/-! ## 6. Logon handling -/

def Rej.isTooHigh : Rej → Bool
  | .tooHigh _ _ => true
  | _ => false

def LogonErr.isTooHigh : LogonErr → Bool
  | .rej r => r.isTooHigh
  | .other => false

theorem checkTooLow_notTooHigh (s : Sess) (m : InMsg) (r : Rej) (h : checkTooLow s m = some r) : r.isTooHigh = false := by
  unfold checkTooLow at h
  repeat' split at h
  all_goals (cases h <;> rfl)

theorem verifyAppImpl_notTooHigh (s : Sess) (m : InMsg) (r : Rej) (h : (verifyAppImpl s m).2 = some r) : r.isTooHigh = false := by
  unfold verifyAppImpl at h
  split at h
  · rename_i hv
    obtain ⟨_, _, rfl⟩ := validate_plain hv
    cases h; rfl
  · simp only [] at h
    unfold callbackVerdict at h
    repeat' split at h
    all_goals (cases h <;> rfl)

/-- without the too-high check no too-high verdict -/
theorem verifySelect_notTooHigh (s : Sess) (m : InMsg) (tl ai : Bool) (r : Rej)
    (h : (verifySelect s m false tl ai).2 = some r) : r.isTooHigh = false := by
  unfold verifySelect at h
  split at h
  · rename_i r' hb
    cases h
    unfold checkBeginString at hb
    repeat' split at hb
    all_goals (cases hb <;> rfl)
  · split at h
    · rename_i r' hb
      cases h
      unfold checkCompID at hb
      repeat' split at hb
      all_goals (cases hb <;> rfl)
    · split at h
      · rename_i r' hb
        cases h
        split at hb
        · cases hb
        · unfold checkSendingTime at hb
          repeat' split at hb
          all_goals (cases hb <;> rfl)
      · split at h
        · rename_i r' hb
          cases h
          split at hb
          · exact checkTooLow_notTooHigh s m _ hb
          · cases hb
        · split at h
          · rename_i r' hb
            simp at hb
          · split at h
            · exact verifyAppImpl_notTooHigh s m r h
            · cases h

theorem ctl_none_seq (s : Sess) (m : InMsg) (h : checkTooLow s m = none) : ∃ n, getInt m 34 = .val n := by
  unfold checkTooLow at h
  cases hg : getInt m 34 with
  | missing => simp [hg] at h
  | garbled => simp [hg] at h
  | val n => exact ⟨n, rfl⟩

/-- with the too-low check passed, MsgSeqNum is readable -/
theorem verifySelect_none_seq (s : Sess) (m : InMsg) (th ai : Bool) (h : (verifySelect s m th true ai).2 = none) :
    ∃ n, getInt m 34 = .val n := by
  unfold verifySelect at h
  repeat' split at h
  all_goals (try cases h)
  all_goals exact ctl_none_seq s m (by assumption)

macro "q_cases" : tactic => `(tactic| (
  (repeat' split)
  all_goals (try dsimp only)
  all_goals (repeat' split)
  all_goals (try dsimp only)
  all_goals q_peel))

theorem p_logonReply (b : Bool) (g0 : G8) (s : Sess) (m : InMsg) (flag : Bool) : P b g0 s (logonReply s m flag) := by
  unfold logonReply
  q_cases

/-- after the Logon reply went out (acceptor) or was sent at connect (initiator): the connection has been written on,
    and an acceptor's queue is empty -/
def Ready (g0 : G8) (x : Sess) : Prop :=
  x.out = true → ((g8Of g0 x).fresh = false ∧ (x.cfg.initiator = false → x.toSend = []))

theorem dropAndSend_admin (g0 : G8) (s : Sess) (m : OutMsg) (h : isAdminKind m.kind = true) (ho : s.out = true) :
    (dropAndSend s m).toSend = [] ∧ (g8Of g0 (dropAndSend s m)).fresh = false := by
  unfold dropAndSend
  obtain ⟨m', hm, _, _⟩ := prep_admin s m h
  have hfr := (prep_spec s m).1.fr
  generalize prep s m = r at hm hfr
  obtain ⟨o, s'⟩ := r
  dsimp only at hm hfr
  subst hm
  dsimp only
  have hq := sendQueued_spec g0 (s'.setToSend [m'])
  have ho' : (s'.setToSend [m']).out = true := by show s'.out = true; rw [hfr.out]; exact ho
  rw [ho'] at hq
  simp only [if_true] at hq
  refine ⟨hq.2.1, ?_⟩
  rw [hq.2.2]
  show (c8o _ (.wire m')).fresh = false
  rw [c8o_wire]

theorem ready_logonReply (g0 : G8) (s : Sess) (m : InMsg) (flag : Bool) (hW : WK g0 s) (hnl : s.st.loggedOn = false) :
    Ready g0 (logonReply s m flag) := by
  unfold logonReply
  split
  · rename_i hini
    have hini' : s.cfg.initiator = false := by simpa using hini
    generalize hx : (if (!s.cfg.hbOverride) = true then
        match getInt m 108 with
        | Got.val h => s.setHb h
        | x => s
      else s) = x
    have hfr : Fr s x := by
      rw [← hx]; repeat' split
      all_goals exact ⟨rfl, rfl, rfl, rfl, rfl⟩
    have hxl : (flag && x.sentReset && x.st.loggedOn) = false := by rw [hfr.st, hnl]; simp
    simp only [hxl, Bool.false_eq_true, if_false]
    intro ho
    have hfr2 : Fr x (sendLogonRe x flag m) := fr_dropAndSend x _
    have hox : x.out = true := by rw [← hfr2.out]; exact ho
    have := dropAndSend_admin g0 x ((logonMsgRe x flag m).inReplyTo m) rfl hox
    exact ⟨this.2, fun _ => this.1⟩
  · rename_i hini
    have hini' : s.cfg.initiator = true := by simpa using hini
    intro ho
    refine ⟨?_, fun h => by rw [hini'] at h; cases h⟩
    cases hf : (g8Of g0 s).fresh
    · rfl
    · have := (hW.fresh ho hf).2.1
      rw [hini'] at this; cases this

/-- the part of `handleLogon` before `logonFinish`: either it ends early with an error that is not a too-high
    verdict, or it reaches `logonFinish` with a readable MsgSeqNum and the Logon reply out; neutral steps only, in
    every state -/
theorem handleLogon_shape (g0 : G8) (s : Sess) (m : InMsg) (hk : isAdminKind (kindOf m) = true) :
    (∃ e, (handleLogon s m).2 = some e ∧ e.isTooHigh = false ∧ P true g0 s (handleLogon s m).1) ∨
    (∃ x ns, P true g0 s x ∧ (WK g0 s → s.st.loggedOn = false → Ready g0 x) ∧ handleLogon s m = logonFinish x m ns ∧ ∃ n, getInt m 34 = .val n) := by
  unfold handleLogon
  split
  · exact Or.inl ⟨_, rfl, rfl, P.refl _ _ _⟩
  · generalize hs1 : (if (!s.cfg.initiator && s.cfg.refreshOnLogon) = true then s.emit Obs.refresh else s) = s1
    have h1 : P true g0 s s1 := by rw [← hs1]; q_peel
    simp only []
    have hv := pn_verifyAppImpl g0 s1 m (Or.inr hk)
    have hnt := verifyAppImpl_notTooHigh s1 m
    generalize verifyAppImpl s1 m = r at hv hnt
    obtain ⟨s2, o⟩ := r
    simp only [] at hv hnt
    have h2 := h1.pn hv
    cases o with
    | some r => exact Or.inl ⟨_, rfl, hnt r rfl, h2⟩
    | none =>
      simp only []
      generalize hs3 : (if ((if s2.cfg.initiator = true then false else s2.cfg.resetOnLogon) || logonResetFlag m && !s2.sentReset) = true
          then dropAndReset s2 else s2) = s3
      have h3 : P true g0 s s3 := by rw [← hs3]; q_peel
      have hv2 := pn_verifySelect g0 s3 m false true false (Or.inr (Or.inr rfl))
      have hnt2 := verifySelect_notTooHigh s3 m true false
      have hseq := verifySelect_none_seq s3 m false false
      generalize verifySelect s3 m false true false = r2 at hv2 hnt2 hseq
      obtain ⟨s4, o2⟩ := r2
      simp only [] at hv2 hnt2 hseq
      have h4 := h3.pn hv2
      cases o2 with
      | some r => exact Or.inl ⟨_, rfl, hnt2 r rfl, h4⟩
      | none =>
        simp only []
        by_cases hr : logonRefuses s4 m (logonResetFlag m) = true
        · have e : ∀ ns, logonTail s4 m ns = (logonRefused s4 m, some (.rej .rejectLogon)) := by intro ns; unfold logonTail; rw [if_pos hr]
          rw [e]
          refine Or.inl ⟨_, rfl, rfl, h4.trans ?_⟩
          unfold logonRefused
          q_cases
        · have e : ∀ ns, logonTail s4 m ns = logonFinish (logonReply s4 m (logonResetFlag m)) m ns := by
            intro ns; unfold logonTail; rw [if_neg hr]
          rw [e]
          exact Or.inr ⟨_, _, h4.trans (p_logonReply true g0 s4 m _), fun hW hnl => ready_logonReply g0 s4 m _ (h4.w hW) (by rw [h4.fr.st]; exact hnl), rfl, hseq rfl⟩

/-- the evaluation of the peer's tag 789 reports nothing but a too-high verdict -/
theorem nxEval_err (s : Sess) (m : InMsg) (ns : Int) (e : Rej) (h : (nxEval s m ns).2 = some e) : ∃ a b, e = .tooHigh a b := by
  unfold nxEval at h
  repeat' split at h
  all_goals first | (cases h; exact ⟨_, _, rfl⟩) | cases h

/-- `logonFinish` with a readable MsgSeqNum: the notification, the peer's tag 789, then either a too-high verdict (the gap
    check's, or the one the evaluation of tag 789 reports without persistence) or the number consumed -/
theorem logonFinish_spec (x : Sess) (m : InMsg) (ns n : Int) (hn : getInt m 34 = .val n) :
    let y := (nxEval (((x.setSentReset false).emit (.armPeer (1200 * x.hb))).emit .onLogon) m ns).1
    logonFinish x m ns = (incrTarget y, none) ∨ ∃ a b, logonFinish x m ns = (y, some (.rej (.tooHigh a b))) := by
  unfold logonFinish
  have he := nxEval_err (((x.setSentReset false).emit (.armPeer (1200 * x.hb))).emit .onLogon) m ns
  generalize nxEval _ m ns = r at he
  obtain ⟨y, o⟩ := r
  cases o with
  | some e =>
    obtain ⟨a, b, rfl⟩ := he e rfl
    exact Or.inr ⟨a, b, rfl⟩
  | none =>
    simp only []
    unfold checkTooHigh
    simp only [hn]
    split
    · rename_i r hr
      split at hr
      · cases hr; exact Or.inr ⟨_, _, rfl⟩
      · cases hr
    · exact Or.inl rfl

theorem gapFillRe_ok (s : Sess) (m : InMsg) (a b : Int) : ((gapFillRe s m a b).kind == "5") = false ∧ appFirst (gapFillRe s m a b) = false :=
  ⟨rfl, appFirst_admin _ (by show isAdminKind "4" = true; decide)⟩

/-- the evaluation of the peer's tag 789 in a state that has been logged on: a gap fill at most -/
theorem pn_nxEval_notif (g0 : G8) (x : Sess) (m : InMsg) (ns : Int) (hn : (x.st.loggedOn || x.st.isLogout) = true) :
    PN g0 x (nxEval x m ns).1 := by
  unfold nxEval
  repeat' split
  all_goals first
    | exact PN.refl g0 x
    | exact pn_enqueueAndSend g0 x _ hn (gapFillRe_ok _ _ _ _).1 (gapFillRe_ok _ _ _ _).2

/-- in a state that has been logged on the logon notification changes nothing in the automaton -/
theorem pn_onLogon_again (g0 : G8) (s : Sess) (hn : (s.st.loggedOn || s.st.isLogout) = true) : PN g0 s (s.emit .onLogon) := by
  refine pn_emit_fix g0 s _ (fun hW => ?_)
  rw [c8o_onLogon]
  have h2 : (g8Of g0 s).cb = true := by rw [hW.cb]; exact hn
  have h3 := hW.hs h2
  generalize g8Of g0 s = g at h2 h3
  cases g; simp_all

theorem p_logonFinish_notif (g0 : G8) (x : Sess) (m : InMsg) (ns : Int) (hn : (x.st.loggedOn || x.st.isLogout) = true) :
    P true g0 x (logonFinish x m ns).1 := by
  have hy : P true g0 x (nxEval (((x.setSentReset false).emit (.armPeer (1200 * x.hb))).emit .onLogon) m ns).1 :=
    ((by q_peel : P true g0 x ((x.setSentReset false).emit (.armPeer (1200 * x.hb)))).pn (pn_onLogon_again g0 _ hn)).pn
      (pn_nxEval_notif g0 _ m ns hn)
  unfold logonFinish
  generalize nxEval _ m ns = r at hy
  obtain ⟨y, o⟩ := r
  cases o with
  | some e => exact hy
  | none =>
    simp only [] at hy ⊢
    split
    · exact hy
    · exact qpeel_incrTarget hy

theorem p_handleLogon_notif (g0 : G8) (s : Sess) (m : InMsg) (hk : isAdminKind (kindOf m) = true)
    (hn : (s.st.loggedOn || s.st.isLogout) = true) : P true g0 s (handleLogon s m).1 := by
  rcases handleLogon_shape g0 s m hk with ⟨e, _, _, h⟩ | ⟨x, ns, hx, _, heq, _⟩
  · exact h
  · rw [heq]; exact hx.trans (p_logonFinish_notif g0 x m ns (by rw [hx.fr.st]; exact hn))

theorem kind_admin_of_beq (m : InMsg) (k : String) (hk : (kindOf m == k) = true) (ha : isAdminKind k = true) : isAdminKind (kindOf m) = true := by
  have : kindOf m = k := by simpa using hk
  rw [this]; exact ha

theorem h8_inSessionFixMsgIn (g0 : G8) (s : Sess) (m : InMsg) (hn : (s.st.loggedOn || s.st.isLogout) = true) :
    H8 g0 s (inSessionFixMsgIn s m) := by
  have hnl := notif_not_logon hn
  unfold inSessionFixMsgIn
  simp only []
  split
  · rename_i hk
    have hl := p_handleLogon_notif g0 s m (kind_admin_of_beq m "A" hk (by decide)) hn
    generalize handleLogon s m = r at hl
    obtain ⟨s', o⟩ := r
    cases o <;> (dsimp only; h8_close)
  · split
    · exact h8_handleLogout g0 s m hn
    · split
      · exact h8_handleResendRequest g0 s m hn
      · split
        · exact h8_handleSequenceReset g0 s m hn
        · split
          · exact h8_handleTestRequest g0 s m hn
          · have hv := pn_verifySelect g0 s m true true true (Or.inl hn)
            generalize verifySelect s m true true true = r at hv
            obtain ⟨s', o⟩ := r
            have hv' : P true g0 s s' := P.ofPN true hv
            cases o with
            | some r => exact H8.after hv' (h8_processReject g0 s' m r (by rw [hv.fr.st]; exact hn))
            | none => dsimp only; h8_close

end Qfx.Sess
