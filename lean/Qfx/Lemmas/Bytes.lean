import Qfx.Model.Bytes
namespace Qfx

theorem isDigit_iff (b : Nat) : isDigit b = true ↔ 48 ≤ b ∧ b ≤ 57 := by simp [isDigit]

theorem digitsVal_foldl_append (l : Bytes) (c : Nat) :
    digitsVal (l ++ [c]) = 10 * digitsVal l + (c - 48) := by
  simp [digitsVal, List.foldl_append]

theorem isDigit_add (d : Nat) (h : d < 10) : isDigit (48 + d) = true := by
  rw [isDigit_iff]; omega

theorem fmtNat_all_digits (n : Nat) : (fmtNat n).all isDigit = true := by
  fun_induction fmtNat n with
  | case1 n h => simp [isDigit_add n h]
  | case2 n h ih => simp only [List.all_append, ih, List.all_cons, List.all_nil, Bool.and_true, Bool.true_and]
                    exact isDigit_add _ (Nat.mod_lt _ (by decide))

theorem fmtNat_ne_nil (n : Nat) : fmtNat n ≠ [] := by
  fun_induction fmtNat n <;> simp

theorem digitsVal_fmtNat (n : Nat) : digitsVal (fmtNat n) = n := by
  fun_induction fmtNat n with
  | case1 n h => simp [digitsVal]
  | case2 n h ih => rw [digitsVal_foldl_append, ih]; omega

theorem digitsW_length (w n : Nat) : (digitsW w n).length = w := by
  induction w generalizing n with
  | zero => simp [digitsW]
  | succ w ih => simp [digitsW, ih]

theorem digitsW_all_digits (w n : Nat) : (digitsW w n).all isDigit = true := by
  induction w generalizing n with
  | zero => simp [digitsW]
  | succ w ih =>
    simp only [digitsW, List.all_append, ih, List.all_cons, List.all_nil, Bool.and_true, Bool.true_and]
    exact isDigit_add _ (Nat.mod_lt _ (by decide))

theorem digitsVal_digitsW (w n : Nat) : digitsVal (digitsW w n) = n % 10 ^ w := by
  induction w generalizing n with
  | zero => simp [digitsW, digitsVal, Nat.mod_one]
  | succ w ih =>
    simp only [digitsW]
    rw [digitsVal_foldl_append, ih, Nat.pow_succ]
    have h1 : 48 + n % 10 - 48 = n % 10 := by omega
    rw [h1, Nat.mul_comm (10 ^ w) 10, Nat.mod_mul]
    omega

theorem digitsVal_digitsW_of_lt (w n : Nat) (h : n < 10 ^ w) : digitsVal (digitsW w n) = n := by
  rw [digitsVal_digitsW, Nat.mod_eq_of_lt h]

end Qfx
