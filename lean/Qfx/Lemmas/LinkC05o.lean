/-
  C05 liveness, part o: the Logon and the ResendRequest delivered over the link (`logonB`, `rrB`, `rrA`).
-/
import Qfx.Lemmas.LinkC05n
namespace Qfx.Link
open Qfx Qfx.Sess

theorem clipEnd_infinity (cfg cfg' : Cfg) (hbs : cfg.bs = cfg'.bs) (sender : Int) : clipEnd cfg sender (infinityEnd cfg') = sender - 1 := by
  unfold clipEnd isInfinity infinityEnd
  rw [hbs]
  by_cases h : cfg'.bs < 2
  · have h2 : cfg'.bs ≤ 2 := by omega
    simp [h, h2]
  · have h2 : cfg'.bs ≥ 2 := by omega
    simp [h, h2]

/-- a ResendRequest for "everything from `t`" as an engine with configuration `cfg` (no chunking) composes it -/
def IsRR (cfg : Cfg) (t : Int) (m : OutMsg) : Prop :=
  m.kind = "2" ∧ m.f.get? 7 = some (toString t) ∧ m.f.get? 16 = some (toString (infinityEnd cfg))

/-- (number and header bookkeeping do not matter) -/
theorem isRR_of (cfg : Cfg) (hch : cfg.chunk = 0) (t e : Int) (m : OutMsg) (hk : m.kind = "2") (hf : m.f = (rrOut cfg t e).f) :
    IsRR cfg t m := by
  refine ⟨hk, ?_, ?_⟩
  · rw [hf]; simp [rrOut, mkOut, get?_cons]
  · rw [hf]; simp [rrOut, rrEnd, mkOut, get?_cons, hch]

theorem isRR_rrOut (cfg : Cfg) (hch : cfg.chunk = 0) (t e n : Int) : IsRR cfg t { rrOut cfg t e with seq := n } :=
  isRR_of cfg hch t e _ rfl rfl

theorem rrCur_chunk0 (cfg : Cfg) (hch : cfg.chunk = 0) (t e : Int) : rrCur cfg t e = 0 := by simp [rrCur, hch]

/-- the peer's ResendRequest "everything from `b`" reaches an engine that is logged on: it replays `b … sender-1` behind
    whatever it still had queued -/
theorem res_rr_fix {c : Ctx} (hc : CtxOK c) {s : Sess} (hs : s.cfg = c.cfg) {m : OutMsg} (hw : Wire c.P m) (b : Int)
    (hrr : IsRR c.pcfg b m) (hb1 : 1 ≤ b) (hb2 : b ≤ maxSeq) (hst : RecvSt s.st) (ho : s.out = true) (hge : s.store.target ≤ m.seq) :
    ∃ W q, ((replyPlanR (replyLastOf s (toIn c.pcfg m)) true s.store b (s.store.sender - 1) = [] ∧ W = [] ∧ q = s.toSend) ∨
            (replyPlanR (replyLastOf s (toIn c.pcfg m)) true s.store b (s.store.sender - 1) ≠ [] ∧
              W = s.toSend ++ replyPlanR (replyLastOf s (toIn c.pcfg m)) true s.store b (s.store.sender - 1) ∧ q = [])) ∧
      Res s (fixMsgInCore s (toIn c.pcfg m)) 0 W q (if m.seq = s.store.target then s.store.target + 1 else s.store.target)
        (stAt s.st (if m.seq = s.store.target then s.store.target + 1 else s.store.target)) := by
  obtain ⟨hk2, h7, h16⟩ := hrr
  have hinf : inInt64 (infinityEnd c.pcfg) := by unfold infinityEnd inInt64; split <;> omega
  obtain ⟨W, q, hWq, hres⟩ := res_resendRequest hc hs hw hk2 b (infinityEnd c.pcfg) h7 h16 (in64_of_range b hb1 hb2) hinf
    (recvSt_loggedOn hst) ho hge
  rw [clipEnd_infinity s.cfg c.pcfg (by rw [hs]; exact hc.bs) s.store.sender] at hWq
  refine ⟨W, q, hWq, ?_⟩
  have hfx : inSessionFixMsgIn s (toIn c.pcfg m) = handleResendRequest s (toIn c.pcfg m) := by
    unfold inSessionFixMsgIn
    simp only [toIn_kind, hk2]
    simp
  have hg : getBool (toIn c.pcfg m) 123 ≠ .garbled := by
    rw [getBool_missing _ _ (by rw [toIn_get_body _ _ 123 (by decide)]; exact wire_no123 hc.pok hw (by rw [hk2]; decide))]; simp
  exact res_recv hst (by rw [hfx]; exact hres) hg

theorem ctxOK_A {cfgA cfgB : Cfg} (hcf : CfgsOK cfgA cfgB) {l : LSt} (h : LInv cfgA cfgB l) (hb : l.b.store.sender ≤ maxSeq)
    (rcv : List (String × String)) (d : List String) : CtxOK (mkCtx l.a l.b rcv d) :=
  ctxOK_B hcf.symm (l := swapL l) (LInv_swap h) hb rcv d

theorem seg_nil_eq {st : Store} {t E : Int} (h : Seg st t [] E) : t = E := by
  cases h; rfl

/-- A's ResendRequest "everything from `b`" is delivered to B (logged on): B's replay of `b … sender-1` goes on the wire
    behind B's queue -/
theorem rrB {cfgA cfgB : Cfg} (hcf : CfgsOK cfgA cfgB) {l : LSt} (h : LInv cfgA cfgB l) (hfull : LFull l) {m : OutMsg} {rest : List OutMsg}
    (hq : l.a2b = m :: rest) (b : Int) (hrr : IsRR cfgA b m) (hb1 : 1 ≤ b) (hblt : b ≤ l.b.store.sender - 1)
    (hst : RecvSt l.b.st) (ho : l.b.out = true) (hge : l.b.store.target ≤ m.seq) (hbnd : Bnd l) :
    let l' := (lstep l (.deliver .B)).1
    let t' := if m.seq = l.b.store.target then l.b.store.target + 1 else l.b.store.target
    ∃ plan, Seg l'.b.store b plan l.b.store.sender ∧ LInv cfgA cfgB l' ∧ l'.a = l.a ∧ l'.a2b = rest ∧
      l'.b2a = l.b2a ++ (l.b.toSend ++ plan) ∧ l'.b.st = stAt l.b.st t' ∧ l'.b.store.target = t' ∧
      l'.b.store.sender = l.b.store.sender ∧ l'.b.toSend = [] ∧ l'.b.out = true ∧ l'.sentA = l.sentA ∧ l'.sentB = l.sentB ∧
      Grow true l.b.store l'.b.store := by
  intro l' t'
  have hw : Wire l.a.store m := h.ab.fl m (by rw [hq]; exact List.mem_cons_self)
  have hctx := ctxOK_B hcf h hbnd.1 (noteRcv l.rcvB (toIn l.a.cfg m)) l.dlvB
  have hrr' : IsRR (mkCtx l.b l.a (noteRcv l.rcvB (toIn l.a.cfg m)) l.dlvB).pcfg b m := by
    show IsRR l.a.cfg b m; rw [h.ca]; exact hrr
  obtain ⟨W, q, hWq, hres⟩ := res_rr_fix hctx (s := l.b.clearLog) rfl hw b hrr' hb1 (by have := hbnd.2; omega) hst ho hge
  obtain ⟨_, _, _, _, hall⟩ := hfull.2 rfl
  generalize hlt : replyLastOf l.b.clearLog (toIn (mkCtx l.b l.a (noteRcv l.rcvB (toIn l.a.cfg m)) l.dlvB).pcfg m) = lt at hWq
  have hWq : (replyPlanR lt true l.b.store b (l.b.store.sender - 1) = [] ∧ W = [] ∧ q = l.b.toSend) ∨
      (replyPlanR lt true l.b.store b (l.b.store.sender - 1) ≠ [] ∧ W = l.b.toSend ++ replyPlanR lt true l.b.store b (l.b.store.sender - 1) ∧ q = []) := hWq
  have hseg := seg_reply l.b.store h.ba.sok b (l.b.store.sender - 1) (by omega) hblt (Int.le_refl _) lt
    (fun n h1 h2 => hall n (by omega) h2)
  have hne : replyPlanR lt true l.b.store b (l.b.store.sender - 1) ≠ [] := by
    intro he; rw [he] at hseg; have := seg_nil_eq hseg; omega
  have hWq' : W = l.b.toSend ++ replyPlanR lt true l.b.store b (l.b.store.sender - 1) ∧ q = [] := by
    rcases hWq with ⟨he, _⟩ | ⟨_, h1, h2⟩
    · exact absurd he hne
    · exact ⟨h1, h2⟩
  have hnx : (stAt l.b.st t').connected = true := recvSt_connected (recvSt_stAt hst t')
  obtain ⟨k1, k2, k3, k4, k5, k6, k7, k8, k9, k10, k11, k12⟩ :=
    deliverB_gen hcf h hq (recvSt_connected hst) hbnd hres hnx (by have := hbnd.2; omega)
  refine ⟨replyPlanR lt true l.b.store b (l.b.store.sender - 1), ?_, k1, k2, k3, ?_, k5, k6, ?_, ?_, ?_, k10, k11, k12⟩
  · have := hseg.mono k12
    rw [show l.b.store.sender - 1 + 1 = l.b.store.sender by omega] at this
    exact this
  · rw [k4, hWq'.1]
  · rw [k7]; omega
  · rw [k8, hWq'.2]
  · rw [k9]; exact ho

theorem LFull_swap {l : LSt} (h : LFull l) : LFull (swapL l) := ⟨h.2, h.1⟩

theorem rrA {cfgA cfgB : Cfg} (hcf : CfgsOK cfgA cfgB) {l : LSt} (h : LInv cfgA cfgB l) (hfull : LFull l) {m : OutMsg} {rest : List OutMsg}
    (hq : l.b2a = m :: rest) (b : Int) (hrr : IsRR cfgB b m) (hb1 : 1 ≤ b) (hblt : b ≤ l.a.store.sender - 1)
    (hst : RecvSt l.a.st) (ho : l.a.out = true) (hge : l.a.store.target ≤ m.seq) (hbnd : Bnd l) :
    let l' := (lstep l (.deliver .A)).1
    let t' := if m.seq = l.a.store.target then l.a.store.target + 1 else l.a.store.target
    ∃ plan, Seg l'.a.store b plan l.a.store.sender ∧ LInv cfgA cfgB l' ∧ l'.b = l.b ∧ l'.b2a = rest ∧
      l'.a2b = l.a2b ++ (l.a.toSend ++ plan) ∧ l'.a.st = stAt l.a.st t' ∧ l'.a.store.target = t' ∧
      l'.a.store.sender = l.a.store.sender ∧ l'.a.toSend = [] ∧ l'.a.out = true ∧ l'.sentA = l.sentA ∧ l'.sentB = l.sentB ∧
      Grow true l.a.store l'.a.store := by
  intro l' t'
  have := rrB hcf.symm (l := swapL l) (LInv_swap h) (LFull_swap hfull) hq b hrr hb1 hblt hst ho hge (Bnd_swap hbnd)
  have e : (lstep (swapL l) (.deliver .B)).1 = swapL l' := lstep_swap_deliver l .A
  rw [e] at this
  obtain ⟨plan, j0, j1, j2, j3, j4, j5, j6, j7, j8, j9, j10, j11, j12⟩ := this
  exact ⟨plan, j0, LInv_swap j1, j2, j3, j4, j5, j6, j7, j8, j9, j11, j10, j12⟩

/-- the peer's Logon is delivered to B, which waits for it: B answers per its role; with a gap it queues a ResendRequest
    for everything from its expected number and enters the resend state -/
theorem logonB {cfgA cfgB : Cfg} (hcf : CfgsOK cfgA cfgB) (hch : cfgB.chunk = 0) (hv : cfgB.bs = 5 → cfgA.applVer ≠ "")
    {l : LSt} (h : LInv cfgA cfgB l) {m : OutMsg} {rest : List OutMsg} (hq : l.a2b = m :: rest) (hlog : IsLogon cfgA m)
    (hst : l.b.st = .logon) (ho : l.b.out = true) (hge : l.b.store.target ≤ m.seq) (hbnd : Bnd l) (hslack : l.b.store.sender + 2 ≤ maxSeq) :
    let l' := (lstep l (.deliver .B)).1
    ∃ n0 W q0, LogonRole l.b n0 W q0 ∧ LInv cfgA cfgB l' ∧ l'.a = l.a ∧ l'.a2b = rest ∧ l'.b2a = l.b2a ++ W ∧ l'.b.out = true ∧
      l'.sentA = l.sentA ∧ l'.sentB = l.sentB ∧ Grow true l.b.store l'.b.store ∧
      ((m.seq = l.b.store.target ∧ l'.b.st = .inSession ∧ l'.b.store.target = l.b.store.target + 1 ∧
          l'.b.store.sender = l.b.store.sender + n0 ∧ l'.b.toSend = q0) ∨
       (l.b.store.target < m.seq ∧ l'.b.st = .resend [] 0 (m.seq - 1) ∧ l'.b.store.target = l.b.store.target ∧
          l'.b.store.sender = l.b.store.sender + n0 + 1 ∧
          ∃ rr, IsRR cfgB l.b.store.target rr ∧ rr.seq = l.b.store.sender + n0 ∧ l'.b.toSend = q0 ++ [rr])) := by
  intro l'
  have hw : Wire l.a.store m := h.ab.fl m (by rw [hq]; exact List.mem_cons_self)
  have hctx := ctxOK_B hcf h hbnd.1 (noteRcv l.rcvB (toIn l.a.cfg m)) l.dlvB
  have hcon : l.b.st.connected = true := by rw [hst]; rfl
  obtain ⟨n0, W, q0, hrole, hres1, hres2⟩ := res_logonFix hctx (s := l.b.clearLog) rfl hw
    (show IsLogon l.a.cfg m by rw [h.ca]; exact hlog) (show l.b.cfg.bs = 5 → l.a.cfg.applVer ≠ "" by rw [h.ca, h.cb]; exact hv)
    ho hst hge
  have hn0 : n0 = 0 ∨ n0 = 1 := by
    rcases hrole with ⟨_, h0, _⟩ | ⟨_, h0, _⟩
    · exact Or.inl h0
    · exact Or.inr h0
  by_cases heq : m.seq = l.b.store.target
  · obtain ⟨k1, k2, k3, k4, k5, k6, k7, k8, k9, k10, k11, k12⟩ :=
      deliverB_gen hcf h hq hcon hbnd (hres1 heq) rfl (by rcases hn0 with h0 | h0 <;> omega)
    exact ⟨n0, W, q0, hrole, k1, k2, k3, k4, by rw [k9]; exact ho, k10, k11, k12, Or.inl ⟨heq, k5, k6, k7, k8⟩⟩
  · have hlt : l.b.store.target < m.seq := by omega
    obtain ⟨k1, k2, k3, k4, k5, k6, k7, k8, k9, k10, k11, k12⟩ :=
      deliverB_gen hcf h hq hcon hbnd (hres2 hlt) rfl (by rcases hn0 with h0 | h0 <;> omega)
    refine ⟨n0, W, q0, hrole, k1, k2, k3, k4, by rw [k9]; exact ho, k10, k11, k12, Or.inr ⟨hlt, ?_, k6, by rw [k7]; omega, ?_⟩⟩
    · rw [k5]
      show SState.resend [] (rrCur l.b.cfg l.b.store.target (m.seq - 1)) (m.seq - 1) = _
      rw [rrCur_chunk0 _ (by rw [h.cb]; exact hch)]
    · refine ⟨_, ?_, rfl, k8⟩
      obtain ⟨a1, a2, a3⟩ := isRR_rrOut l.b.cfg (by rw [h.cb]; exact hch) l.b.store.target (m.seq - 1) (l.b.store.sender + n0)
      exact ⟨a1, a2, by rw [← h.cb]; exact a3⟩

theorem logonA {cfgA cfgB : Cfg} (hcf : CfgsOK cfgA cfgB) (hch : cfgA.chunk = 0) (hv : cfgA.bs = 5 → cfgB.applVer ≠ "")
    {l : LSt} (h : LInv cfgA cfgB l) {m : OutMsg} {rest : List OutMsg} (hq : l.b2a = m :: rest) (hlog : IsLogon cfgB m)
    (hst : l.a.st = .logon) (ho : l.a.out = true) (hge : l.a.store.target ≤ m.seq) (hbnd : Bnd l) (hslack : l.a.store.sender + 2 ≤ maxSeq) :
    let l' := (lstep l (.deliver .A)).1
    ∃ n0 W q0, LogonRole l.a n0 W q0 ∧ LInv cfgA cfgB l' ∧ l'.b = l.b ∧ l'.b2a = rest ∧ l'.a2b = l.a2b ++ W ∧ l'.a.out = true ∧
      l'.sentA = l.sentA ∧ l'.sentB = l.sentB ∧ Grow true l.a.store l'.a.store ∧
      ((m.seq = l.a.store.target ∧ l'.a.st = .inSession ∧ l'.a.store.target = l.a.store.target + 1 ∧
          l'.a.store.sender = l.a.store.sender + n0 ∧ l'.a.toSend = q0) ∨
       (l.a.store.target < m.seq ∧ l'.a.st = .resend [] 0 (m.seq - 1) ∧ l'.a.store.target = l.a.store.target ∧
          l'.a.store.sender = l.a.store.sender + n0 + 1 ∧
          ∃ rr, IsRR cfgA l.a.store.target rr ∧ rr.seq = l.a.store.sender + n0 ∧ l'.a.toSend = q0 ++ [rr])) := by
  intro l'
  have := logonB hcf.symm hch hv (l := swapL l) (LInv_swap h) hq hlog hst ho hge (Bnd_swap hbnd) hslack
  have e : (lstep (swapL l) (.deliver .B)).1 = swapL l' := lstep_swap_deliver l .A
  rw [e] at this
  obtain ⟨n0, W, q0, hr, j1, j2, j3, j4, j5, j6, j7, j8, j9⟩ := this
  exact ⟨n0, W, q0, hr, LInv_swap j1, j2, j3, j4, j5, j7, j6, j8, j9⟩

end Qfx.Link
