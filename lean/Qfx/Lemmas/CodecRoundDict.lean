/-
  The dictionary round trip END TO END at model level (`roundtrip_dict`): built message (layout from `build_wire''`, `tvs_split`) →
  items (`ItemsN`; the group's members from `write_gwu`) → dictionary-guided parse (`parse_dict_items_group`) → `GetGroup` with the
  template (`write_blocks`, `readGroup_blocks`).
-/
import Qfx.Lemmas.CodecWriteBlocks
import Qfx.Lemmas.CodecWire2
import Qfx.Lemmas.CodecRound
namespace Qfx
open Qfx.Spec

variable {d : Dicts}

theorem flatItms_map_plain (l : List TagValue) : flatItms (l.map Itm.plain) = l := by
  induction l with
  | nil => rfl
  | cons x r ih => rw [List.map_cons, flatItms_cons, ih]; rfl

theorem flatItms_append (a b : List Itm) : flatItms (a ++ b) = flatItms a ++ flatItms b := by
  simp [flatItms, List.flatMap_append]

theorem itemsN_plains_main {fs : List DNode} (l : List TagValue) (hl : ∀ tv ∈ l, PlainOK d tv) {r : List Itm} {s' : Option (List DNode)}
    (hr : ItemsN d fs none r s') : ItemsN d fs none (l.map Itm.plain ++ r) s' := by
  induction l with
  | nil => simpa using hr
  | cons x xs ih =>
    simp only [List.map_cons, List.cons_append]
    exact .plainMain (hl x (by simp)) (ih (fun tv h => hl tv (by simp [h])))

theorem itemsN_after {fs : List DNode} (C : List DNode) (l : List TagValue) (hl : ∀ tv ∈ l, PlainOK d tv ∧ NotListed C tv.tag) :
    ItemsN d fs (some C) (l.map Itm.plain) (if l = [] then some C else none) := by
  cases l with
  | nil => simpa using ItemsN.nil (d := d) (fs := fs) (some C)
  | cons x xs =>
    obtain ⟨hp, hn⟩ := hl x (by simp)
    simp only [List.map_cons, List.cons_ne_nil, if_false]
    refine .plainExit hp.wire hp.n10 hp.n212 hp.n35 hp.n9 hn (Or.inr (Or.inr hp.ng)) ?_
    have := itemsN_plains_main (d := d) (fs := fs) xs (fun tv h => (hl tv (by simp [h])).1) (ItemsN.nil none)
    simpa using this

/-- every tag of a template that describes `C` is listed somewhere in the dictionary tree under `C` -/
theorem tmplDict_listed {tm : List Item} {C : List DNode} (h : TmplDict tm C) :
    ∀ t ∈ allTmplTags tm, isGroupMember t C = true ∨ ∃ C', Below C C' ∧ isGroupMember t C' = true := by
  induction h with
  | nil C => intro t ht; simp [allTmplTags] at ht
  | @elem t0 r C h1 _ _ ih =>
    intro t ht
    simp only [allTmplTags, List.mem_cons] at ht
    rcases ht with e | e
    · subst e; exact Or.inl h1
    · exact ih t e
  | @group t0 tm0 r C CN h1 _ _ ih1 ih2 =>
    intro t ht
    simp only [allTmplTags, List.mem_cons, List.mem_append] at ht
    rcases ht with e | e | e
    · subst e; exact Or.inl (groupOf_isMember h1)
    · rcases ih1 t e with h | ⟨C', hb, hm⟩
      · exact Or.inr ⟨CN, .child h1, h⟩
      · exact Or.inr ⟨C', .step h1 hb, hm⟩
    · exact ih2 t e

theorem notListed_not_tmpl {tm : List Item} {C : List DNode} (h : TmplDict tm C) (t : Tag) (hn : NotListed C t) : t ∉ allTmplTags tm := by
  intro ht
  rcases tmplDict_listed h t ht with h1 | ⟨C', hb, hm⟩
  · rw [hn.1] at h1; cases h1
  · rw [hn.2 C' hb] at hm; cases hm

/-- in a parse of `8, 9, 35, A…, G=<n>, members…, B…, 10` (items) a group whose tag is not added again later sits in the body as ONE view -/
theorem parse_dict_items_group {mt : Bytes} {fs : List DNode} (ha : AppMsg d mt fs) (t8 t9 t35 t10 : TagValue) (A B : List Itm)
    (g0 : TagValue) (M : List TagValue) (s' : Option (List DNode))
    (hw8 : IsWire t8) (hw9 : IsWire t9) (hw35 : IsWire t35) (hw10 : IsWire t10)
    (h8 : t8.tag = 8) (h9 : t9.tag = 9) (h35 : t35.tag = 35) (h10 : t10.tag = 10) (hv : t35.value = mt)
    (hok : ItemsN d fs none (A ++ .group g0 M :: B) s') (hclose : ClosesN s') (hh10 : isHeaderField d 10 = false)
    (hbl : atoi t9.value = .ok ((fieldsLength (t8 :: t9 :: t35 :: (flatItms (A ++ .group g0 M :: B) ++ [t10])) : Nat) : Int))
    (hlater : ∀ a ∈ itmAdds d (3 + (flatItms A).length + 1 + M.length) B, ¬ (a.1 = Sec.b ∧ a.2.1 = g0.tag)) :
    ∃ m, parseMessage Fixes.cur d (wireOf (t8 :: t9 :: t35 :: (flatItms (A ++ .group g0 M :: B) ++ [t10]))) = .ok m ∧
      m.fields = t8 :: t9 :: t35 :: (flatItms (A ++ .group g0 M :: B) ++ [t10]) ∧
      alFind m.body.lookup g0.tag = some (.view (3 + (flatItms A).length) (1 + M.length)) := by
  obtain ⟨so', hok', hso'⟩ := itemsN_ok hok none trivial
  obtain ⟨m, h1, h2, _, h4⟩ := parse_dict_items (d := d) ha t8 t9 t35 t10 _ so' hw8 hw9 hw35 hw10 h8 h9 h35 h10 hv hok'
    (closesN_ok hclose hso') hh10 hbl
  refine ⟨m, h1, h2, ?_⟩
  have hadds : itmAdds d 3 (A ++ .group g0 M :: B) ++ [(Sec.t, (10 : Tag), Field.view (3 + (flatItms (A ++ .group g0 M :: B)).length) 1)] =
      itmAdds d 3 A ++ (Sec.b, g0.tag, Field.view (3 + (flatItms A).length) (1 + M.length)) ::
        (itmAdds d (3 + (flatItms A).length + 1 + M.length) B ++ [(Sec.t, (10 : Tag), Field.view (3 + (flatItms (A ++ .group g0 M :: B)).length) 1)]) := by
    rw [itmAdds_append]; simp [itmAdds, List.append_assoc]
  have := h4 .b
  show alFind (m.sec .b).lookup g0.tag = _
  rw [this, hadds]
  apply applyAdds_find_last
  intro a ha'
  simp only [List.mem_append, List.mem_singleton] at ha'
  rcases ha' with e | e
  · exact hlater a e
  · subst e; intro h; cases h.1

theorem itmAdds_plain_tags (l : List TagValue) : ∀ (idx : Nat), ∀ a ∈ itmAdds d idx (l.map Itm.plain), ∃ tv ∈ l, a.2.1 = tv.tag := by
  induction l with
  | nil => intro idx a ha; simp [itmAdds] at ha
  | cons x xs ih =>
    intro idx a ha
    simp only [List.map_cons, itmAdds, List.mem_cons] at ha
    rcases ha with e | e
    · subst e; exact ⟨x, by simp, rfl⟩
    · obtain ⟨tv, htv, h⟩ := ih _ a e; exact ⟨tv, by simp [htv], h⟩


/-- THE DICTIONARY ROUND TRIP, END TO END (model level): a built message whose body holds, under `G`, what `Write` made of template-conforming
    entries; parsed with the dictionary that defines `G`; read back with the same template -/
theorem roundtrip_dict {mt : Bytes} {fs : List DNode} (ha : AppMsg d mt fs) (hh10 : isHeaderField d 10 = false)
    (m : Message) (hb : Built m) (hw : Wired m) (tv8 tv35 : TagValue)
    (h8 : alFind m.header.lookup 8 = some (.owned [tv8])) (h35 : alFind m.header.lookup 35 = some (.owned [tv35])) (hmt : tv35.value = mt)
    (G d0 : Tag) (tmplr : List Item) (esG : List (List GFld)) (tvs : List TagValue) (C : List DNode)
    (hbody : alFind m.body.lookup G = some (.owned tvs)) (hwrite : writeGroup G (.elem d0 :: tmplr) esG = .ok tvs)
    (hgC : groupOf fs G = some C) (htd : TmplDict (.elem d0 :: tmplr) C) (htree : TreeOK d C)
    (hGh : isHeaderField d G = false) (hGt : isTrailerField d G = false)
    (hok : entriesOK (.elem d0 :: tmplr) esG = true) (hsm : SmallEs esG) (hn : esG.length < 9223372036854775808)
    (hnd : (allTmplTags (.elem d0 :: tmplr)).Nodup) (h10C : NotListed C 10)
    (others : ∀ s k l, alFind (m.sec s).lookup k = some (.owned l) → ¬ (s = .b ∧ k = G) → ∀ tv ∈ l,
      NotListed C tv.tag ∧ NoGroupTag d tv.tag ∧ tv.tag ≠ G ∧ (tv.tag = 35 → s = .h ∧ k = 35))
    (bytes : Bytes) (m' : Message) (hbuild : m.build Fixes.cur = .ok (bytes, m')) (hsmall : bytes.length < 9223372036854775808) :
    ∃ (p : Message) (f : Field) (gs : List GEntry), parseMessage Fixes.cur d bytes = .ok p ∧ alFind p.body.lookup G = some f ∧
      getGroup (.elem d0 :: tmplr) (f.full p.fields) = .ok gs ∧ gs.length = esG.length := by
  obtain ⟨t9, t35, restH, frontT, t10, hbytes, hwm, hbl, _, hprovT, _, _, _, _, hprovR, ⟨more, hmore⟩⟩ :=
    build_wire'' m hb hw tv8 _ h8 h35 bytes m' hbuild hsmall
  injection hmore with hmore
  injection hmore with e35 emore
  subst e35; subst emore
  -- the body around the group
  obtain ⟨a, b, hna, hnb, hsplit⟩ := tvs_split hb.inv.b m.fields G _ hbody
  simp only [Field.items] at hsplit
  generalize hA : (a.filterMap (alFind m.body.lookup)).flatMap (Field.items m.fields) = A' at hsplit
  generalize hZ : (b.filterMap (alFind m.body.lookup)).flatMap (Field.items m.fields) = Z' at hsplit
  have hprovA : ∀ tv ∈ A', ∃ k l, k ≠ G ∧ alFind m.body.lookup k = some (.owned l) ∧ tv ∈ l := by
    intro tv htv
    rw [← hA] at htv
    simp only [List.mem_flatMap, List.mem_filterMap] at htv
    obtain ⟨f, ⟨k, hk, hf⟩, hx⟩ := htv
    obtain ⟨l, hl⟩ := hb.pb.owned k f hf
    subst hl
    exact ⟨k, l, fun e => hna (e ▸ hk), hf, hx⟩
  have hprovZ : ∀ tv ∈ Z', ∃ k l, k ≠ G ∧ alFind m.body.lookup k = some (.owned l) ∧ tv ∈ l := by
    intro tv htv
    rw [← hZ] at htv
    simp only [List.mem_flatMap, List.mem_filterMap] at htv
    obtain ⟨f, ⟨k, hk, hf⟩, hx⟩ := htv
    obtain ⟨l, hl⟩ := hb.pb.owned k f hf
    subst hl
    exact ⟨k, l, fun e => hnb (e ▸ hk), hf, hx⟩
  -- what `Write` made
  obtain ⟨bss, hlen, hwr, hes⟩ := write_blocks.2 (.elem d0 :: tmplr) esG d0 tmplr rfl hnd hok hsm
  have htvs : tvs = countTV G esG.length :: bss.flatMap serBlocks := by
    simp only [writeGroup, hwr] at hwrite; injection hwrite with hwrite; exact hwrite.symm
  subst htvs
  rw [hsplit] at hbytes hwm hbl
  have hwireAll : ∀ tv ∈ restH ++ (A' ++ countTV G esG.length :: bss.flatMap serBlocks ++ Z') ++ frontT, IsWire tv ∧ tv.tag ≠ 10 ∧ tv.tag ≠ 212 ∧ tv.tag ≠ 9 :=
    fun tv h => ⟨(hwm.wpre tv h).1, (hwm.wpre tv h).2.1, (hwm.wpre tv h).2.2, hwm.single9 tv h⟩
  have hGW : GroupWalk C (bss.flatMap serBlocks) :=
    (write_gwu.2 _ esG C htd hok _ hwr).wire (fun tv h => (hwireAll tv (by simp [h])).1)
  -- the other TagValues are plain for the dictionary and listed nowhere in the group's tree
  have hplain : ∀ tv, (tv ∈ restH ∨ tv ∈ A' ∨ tv ∈ Z' ∨ tv ∈ frontT) → PlainOK d tv ∧ NotListed C tv.tag ∧ tv.tag ≠ G := by
    intro tv htv
    have hmemAll : tv ∈ restH ++ (A' ++ countTV G esG.length :: bss.flatMap serBlocks ++ Z') ++ frontT := by
      simp only [List.mem_append, List.mem_cons]
      rcases htv with h | h | h | h
      · exact Or.inl (Or.inl h)
      · exact Or.inl (Or.inr (Or.inl (Or.inl h)))
      · exact Or.inl (Or.inr (Or.inr h))
      · exact Or.inr h
    obtain ⟨w1, w2, w3, w4⟩ := hwireAll tv hmemAll
    have key : NotListed C tv.tag ∧ NoGroupTag d tv.tag ∧ tv.tag ≠ G ∧ tv.tag ≠ 35 := by
      rcases htv with h | h | h | h
      · rcases hprovR tv h with ⟨mo, hmo, hin⟩ | ⟨k, f, hk, hf, hx⟩
        · injection hmo with hmo; injection hmo with _ hmo; subst hmo; cases hin
        · obtain ⟨l, hl⟩ := hb.ph.owned k f hf
          subst hl
          obtain ⟨o1, o2, o3, o4⟩ := others .h k l hf (by intro hh; cases hh.1) tv hx
          exact ⟨o1, o2, o3, fun e => hk (o4 e).2⟩
      · obtain ⟨k, l, hk, hf, hx⟩ := hprovA tv h
        obtain ⟨o1, o2, o3, o4⟩ := others .b k l hf (fun hh => hk hh.2) tv hx
        exact ⟨o1, o2, o3, fun e => by cases (o4 e).1⟩
      · obtain ⟨k, l, hk, hf, hx⟩ := hprovZ tv h
        obtain ⟨o1, o2, o3, o4⟩ := others .b k l hf (fun hh => hk hh.2) tv hx
        exact ⟨o1, o2, o3, fun e => by cases (o4 e).1⟩
      · obtain ⟨k, f, hf, hx, _⟩ := hprovT tv h
        obtain ⟨l, hl⟩ := hb.pt.owned k f hf
        subst hl
        obtain ⟨o1, o2, o3, o4⟩ := others .t k l hf (by intro hh; cases hh.1) tv hx
        exact ⟨o1, o2, o3, fun e => by cases (o4 e).1⟩
    exact ⟨⟨w1, w2, w3, w4, key.2.2.2, key.2.1⟩, key.1, key.2.2.1⟩
  -- the message as a sequence of items
  have hg0w : IsWire (countTV G esG.length) := (hwireAll _ (by simp)).1
  have hItems : ItemsN d fs none ((restH ++ A').map Itm.plain ++ Itm.group (countTV G esG.length) (bss.flatMap serBlocks) ::
      (Z' ++ frontT).map Itm.plain) (if Z' ++ frontT = [] then some C else none) := by
    refine itemsN_plains_main _ (fun tv h => (hplain tv (by simp only [List.mem_append] at h; rcases h with h | h; exact Or.inl h; exact Or.inr (Or.inl h))).1) ?_
    refine .groupMain hg0w hGh hGt hgC hGW htree ?_
    exact itemsN_after C _ (fun tv h => by
      have := hplain tv (by simp only [List.mem_append] at h; rcases h with h | h; exact Or.inr (Or.inr (Or.inl h)); exact Or.inr (Or.inr (Or.inr h)))
      exact ⟨this.1, this.2.1⟩)
  have hclose : ClosesN (if Z' ++ frontT = [] then some C else none) := by
    split
    · exact h10C
    · trivial
  have hflat : flatItms ((restH ++ A').map Itm.plain ++ Itm.group (countTV G esG.length) (bss.flatMap serBlocks) :: (Z' ++ frontT).map Itm.plain) =
      restH ++ (A' ++ countTV G esG.length :: bss.flatMap serBlocks ++ Z') ++ frontT := by
    rw [flatItms_append, flatItms_cons, flatItms_map_plain, flatItms_map_plain]
    simp [Itm.flat, List.append_assoc]
  obtain ⟨p, hparse, hfields, hfind⟩ := parse_dict_items_group (d := d) ha tv8 t9 tv35 t10 ((restH ++ A').map Itm.plain)
    ((Z' ++ frontT).map Itm.plain) (countTV G esG.length) (bss.flatMap serBlocks) _ hwm.w8 hwm.w9 hwm.w35 hwm.w10 hwm.tag8 hwm.tag9 hwm.tag35
    hwm.tag10 hmt hItems hclose hh10 (by rw [hflat]; exact hbl)
    (by
      intro x hx
      obtain ⟨tv, htv, htag⟩ := itmAdds_plain_tags (d := d) _ _ x hx
      intro hh
      have := (hplain tv (by simp only [List.mem_append] at htv; rcases htv with h | h; exact Or.inr (Or.inr (Or.inl h)); exact Or.inr (Or.inr (Or.inr h)))).2.2
      exact this (by rw [← htag]; exact hh.2))
  rw [hflat] at hparse hfields
  rw [flatItms_map_plain] at hfind
  refine ⟨p, _, readSpecB (Z' ++ frontT ++ [t10]) bss, by rw [hbytes]; exact hparse, hfind, ?_, by rw [readSpecB_length, hlen]⟩
  -- reading it back
  have hfull : (Field.view (3 + (restH ++ A').length) (1 + (bss.flatMap serBlocks).length)).full p.fields =
      countTV G bss.length :: (bss.flatMap serBlocks ++ (Z' ++ frontT ++ [t10])) := by
    rw [hfields, hlen]
    have hL : tv8 :: t9 :: tv35 :: (restH ++ (A' ++ countTV G esG.length :: bss.flatMap serBlocks ++ Z') ++ frontT ++ [t10]) =
        (tv8 :: t9 :: tv35 :: (restH ++ A')) ++ countTV G esG.length :: (bss.flatMap serBlocks ++ (Z' ++ frontT ++ [t10])) := by
      simp [List.append_assoc]
    have e : 3 + (restH ++ A').length = (tv8 :: t9 :: tv35 :: (restH ++ A')).length := by simp; omega
    simp only [Field.full]
    rw [hL, e, List.drop_left]
  rw [hfull]
  have hfollow : ∀ f r, Z' ++ frontT ++ [t10] = f :: r → f.tag ∉ allTmplTags (.elem d0 :: tmplr) := by
    intro f r hfr
    have hmem : f ∈ Z' ++ frontT ++ [t10] := by rw [hfr]; simp
    simp only [List.mem_append, List.mem_singleton] at hmem
    rcases hmem with (h | h) | h
    · exact notListed_not_tmpl htd _ (hplain f (Or.inr (Or.inr (Or.inl h)))).2.1
    · exact notListed_not_tmpl htd _ (hplain f (Or.inr (Or.inr (Or.inr h)))).2.1
    · subst h; rw [hwm.tag10]; exact notListed_not_tmpl htd _ h10C
  have hfuel : readFuel (countTV G bss.length :: (bss.flatMap serBlocks ++ (Z' ++ frontT ++ [t10]))) ≥ 2 * (1 + tvCount bss) + 1 := by
    have := flatMap_serBlocks_length bss
    simp [readFuel, this]; omega
  simp only [getGroup, readGroup_blocks (fun t => t ∉ deepTags (.elem d0 :: tmplr)) G d0 tmplr (Z' ++ frontT ++ [t10])
    (fun t ht => top_not_deep hnd t ht)
    (fun f r hfr hd => hfollow f r hfr ((sub_tags_split _).2 (Or.inr hd)))
    (fun f r hfr => findItem_none_of_not_mem _ _ (fun hm => hfollow f r hfr ((sub_tags_split _).2 (Or.inl hm))))
    bss hes (by rw [hlen]; exact hn) _ hfuel]


/-! ## `Write` emits only tags of the template tree -/

/-- every TagValue of every field carries a tag of `T` -/
def FMtags (T : List Tag) (fm : FieldMap) : Prop := ∀ k f, alFind fm.lookup k = some f → ∃ l, f = .owned l ∧ ∀ tv ∈ l, tv.tag ∈ T

theorem FMtags.insert {T : List Tag} {fm : FieldMap} (h : FMtags T fm) (t : Tag) (l : List TagValue) (tags : List Tag)
    (hl : ∀ tv ∈ l, tv.tag ∈ T) : FMtags T { fm with lookup := alInsert fm.lookup t (.owned l), tags := tags } := by
  intro k f hf
  simp only at hf
  by_cases e : k = t
  · subst e; rw [alFind_insert_self] at hf; injection hf with hf; exact ⟨l, hf.symm, hl⟩
  · rw [alFind_insert_other _ _ _ _ e] at hf; exact h k f hf

theorem FMtags.setTV {T : List Tag} {fm : FieldMap} (h : FMtags T fm) (tv : TagValue) (s : SetRes) (hs : fm.setTV tv = .ok s)
    (ht : tv.tag ∈ T) : FMtags T s.fm := by
  have hl : ∀ x ∈ [tv], x.tag ∈ T := by intro x hx; simp only [List.mem_singleton] at hx; subst hx; exact ht
  unfold FieldMap.setTV at hs
  cases hf : alFind fm.lookup tv.tag with
  | none => rw [hf] at hs; injection hs with hs; subst hs; exact h.insert _ _ _ hl
  | some f =>
    rw [hf] at hs
    obtain ⟨l, e, _⟩ := h _ _ hf
    subst e
    cases l with
    | nil => cases hs
    | cons x r => injection hs with hs; subst hs; exact h.insert _ _ _ hl

theorem collectTags_tags {T : List Tag} {fm : FieldMap} (h : FMtags T fm) : ∀ l : List Tag, ∀ tv ∈ collectTags fm.lookup l, tv.tag ∈ T := by
  intro l
  induction l with
  | nil => intro tv h; cases h
  | cons t r ih =>
    intro tv htv
    simp only [collectTags, List.mem_append] at htv
    rcases htv with e | e
    · cases hf : alFind fm.lookup t with
      | none => rw [hf] at e; cases e
      | some f =>
        rw [hf] at e
        obtain ⟨x, ex, hx⟩ := h t f hf
        subst ex
        exact hx tv (by simpa [Field.items] using e)
    · exact ih tv e

/-- `Write` emits only tags of the template tree -/
theorem write_tags :
    (∀ (e : List GFld) (fm : FieldMap), ∀ (tm : List Item), entryOK tm e = true → FMtags (allTmplTags tm) fm →
      ∀ fm', buildEntry e fm = .ok fm' → FMtags (allTmplTags tm) fm') ∧
    (∀ (tm : List Item) (es : List (List GFld)), entriesOK tm es = true →
      ∀ W, writeEntries tm es = .ok W → ∀ tv ∈ W, tv.tag ∈ allTmplTags tm) := by
  apply buildEntry.mutual_induct
    (motive1 := fun e fm => ∀ (tm : List Item), entryOK tm e = true → FMtags (allTmplTags tm) fm →
      ∀ fm', buildEntry e fm = .ok fm' → FMtags (allTmplTags tm) fm')
    (motive2 := fun tm es => entriesOK tm es = true → ∀ W, writeEntries tm es = .ok W → ∀ tv ∈ W, tv.tag ∈ allTmplTags tm)
  · intro fm tm _ h fm' hb
    simp only [buildEntry] at hb; injection hb with hb; subst hb; exact h
  · intro t v r fm s hs ih tm hok h fm' hb
    simp only [entryOK, Bool.and_eq_true] at hok
    simp only [buildEntry, hs] at hb
    cases hfi : findItem tm t with
    | none => rw [hfi] at hok; simp at hok
    | some it =>
      have hmem : t ∈ allTmplTags tm := (sub_tags_split t).2 (Or.inl (findItem_some_tag tm t it hfi).2)
      exact ih tm hok.2 (h.setTV _ s hs (by simpa [TagValue.init] using hmem)) fm' hb
  · intro t v r fm e hs tm _ _ fm' hb
    simp only [buildEntry, hs] at hb; cases hb
  · intro t v r fm w hs tm _ _ fm' hb
    simp only [buildEntry, hs] at hb; cases hb
  · intro t sub es r fm tvs hw ih2 ih1 tm hok h fm' hb
    simp only [entryOK, Bool.and_eq_true] at hok
    simp only [buildEntry, hw] at hb
    cases hfi : findItem tm t with
    | none => rw [hfi] at hok; simp at hok
    | some it =>
      cases it with
      | elem _ => rw [hfi] at hok; simp at hok
      | group t' sub' =>
        rw [hfi] at hok
        simp only at hok
        have etm : sub = sub' := tmplEq_eq sub sub' hok.1.1
        subst etm
        have hW := ih2 hok.1.2 tvs hw
        have hl : ∀ tv ∈ countTV t es.length :: tvs, tv.tag ∈ allTmplTags tm := by
          intro tv htv
          simp only [List.mem_cons] at htv
          rcases htv with e | e
          · subst e; exact (sub_tags_split t).2 (Or.inl (findItem_some_tag tm t _ hfi).2)
          · exact (sub_tags_split _).2 (Or.inr (deep_of_find_group hfi _ (hW tv e)))
        exact ih1 tm hok.2 (h.insert _ _ _ hl) fm' hb
  · intro t tm es r fm e hw _ tm' _ _ fm' hb
    simp only [buildEntry, hw] at hb; cases hb
  · intro t tm es r fm w hw _ tm' _ _ fm' hb
    simp only [buildEntry, hw] at hb; cases hb
  · intro tm _ W hW
    simp only [writeEntries] at hW; injection hW with hW; subst hW; intro tv h; cases h
  · intro tm e es fm hb tvs hw ih1 ih2 hok W hW
    simp only [writeEntries, hb, hw] at hW
    injection hW with hW; subst hW
    obtain ⟨_, hokE, hokEs⟩ := entriesOK_cons hok
    have hfm := ih1 tm hokE (by intro k f hf; simp [FieldMap.empty, alFind] at hf) fm hb
    intro tv htv
    simp only [List.mem_append] at htv
    rcases htv with e' | e'
    · exact collectTags_tags hfm _ tv e'
    · exact ih2 hokEs tvs hw tv e'
  · intro tm e es fm hb e1 hw _ _ _ W hW
    simp only [writeEntries, hb, hw] at hW; cases hW
  · intro tm e es fm hb w hw _ _ _ W hW
    simp only [writeEntries, hb, hw] at hW; cases hW
  · intro tm e es e1 hb _ _ W hW
    simp only [writeEntries, hb] at hW; cases hW
  · intro tm e es w hb _ _ W hW
    simp only [writeEntries, hb] at hW; cases hW


end Qfx
