/-
  C05 liveness, part k: exact results of the handlers on messages the peer wrote (`Res`): Logon while waiting for one,
  ResendRequest, the elements of a replay.
-/
import Qfx.Lemmas.LinkC05j
namespace Qfx.Link
open Qfx Qfx.Sess

/-- result of a handler: what was sent, the new expected number, the next state -/
structure Res (s : Sess) (r : Sess × SState) (n : Int) (W q : List OutMsg) (t' : Int) (nx : SState) : Prop where
  fr : Fr s r.1
  tgt : r.1.store.target = t'
  snd : r.1.store.sender = s.store.sender + n
  w : wl r.1 = wl s ++ W
  q : r.1.toSend = q
  nx : r.2 = nx

theorem Res.of_eff {s s1 : Sess} {n : Int} {W q : List OutMsg} (h : Eff s s1 n W q) (nx : SState) :
    Res s (s1, nx) n W q s.store.target nx := ⟨h.fr, h.tgt, h.snd, h.w, h.q, rfl⟩

theorem Res.of_eff_incr {s s1 : Sess} {n : Int} {W q : List OutMsg} (h : Eff s s1 n W q) (nx : SState) :
    Res s (incrTarget s1, nx) n W q (s.store.target + 1) nx :=
  ⟨h.fr.trans (fr_incrTarget s1), by simp [incrTarget, Sess.emit, Sess.setTarget, h.tgt], h.snd,
    by rw [show wl (incrTarget s1) = wl s1 from wl_emit _ _ (by intro _; simp)]; exact h.w, h.q, rfl⟩

/-- a Logon as an engine with configuration `cfg` composes it -/
def IsLogon (cfg : Cfg) (m : OutMsg) : Prop := m.kind = "A" ∧ (cfg.bs = 5 → cfg.applVer ≠ "" → m.f.has 1137 = true)

theorem isLogon_logonMsg (x : Sess) (n : Int) : IsLogon x.cfg { logonMsg x false with seq := n } := by
  refine ⟨rfl, fun _ hv => ?_⟩
  have : x.cfg.applVer.isEmpty = false := (isEmpty_false_iff _).2 hv
  simp [logonMsg, mkOut, Fields.has, this]

theorem eff_logonReply (s : Sess) (im : InMsg) (hp : s.cfg.persist = true) (ho : s.out = true) :
    (s.cfg.initiator = true ∧ logonReply s im false = s) ∨
    (s.cfg.initiator = false ∧ ∃ mL, IsLogon s.cfg mL ∧ mL.seq = s.store.sender ∧ Eff s (logonReply s im false) 1 [mL] []) := by
  unfold logonReply
  cases hi : s.cfg.initiator
  · right
    refine ⟨rfl, ?_⟩
    simp only [Bool.not_false, if_true]
    generalize hx : (if (!s.cfg.hbOverride) = true then match getInt im 108 with | Got.val h => s.setHb h | x => s else s) = x
    have hX : Eff s x 0 [] s.toSend := by
      rw [← hx]
      split
      · split
        · exact Eff.of_eq ⟨rfl, rfl, rfl, rfl, rfl⟩ rfl rfl rfl
        · exact Eff.refl s
      · exact Eff.refl s
    have hxp : x.cfg.persist = true := by rw [hX.fr.cfg]; exact hp
    have hxo : x.out = true := by rw [hX.fr.out]; exact ho
    have h2 := eff_dropAndSend x (logonMsg x false) (outOK_logon x) hxp hxo
    refine ⟨numbered x (logonMsg x false), ?_, ?_, ?_⟩
    · have := isLogon_logonMsg x x.store.sender
      rw [hX.fr.cfg] at this; exact this
    · show x.store.sender = _; rw [hX.snd]; omega
    · have h3 : Eff s _ (0 + 1) ([] ++ [numbered x (logonMsg x false)]) [] := hX.trans h2
      rw [show (0 : Int) + 1 = 1 from rfl, List.nil_append] at h3
      exact h3
  · left; exact ⟨rfl, by simp⟩

/-- EndSeqNo / chunk end / the ResendRequest composed by `sendResendRequest s b e` -/
def rrEnd (cfg : Cfg) (b e : Int) : Int := if cfg.chunk ≠ 0 ∧ b + cfg.chunk - 1 < e then b + cfg.chunk - 1 else infinityEnd cfg
def rrCur (cfg : Cfg) (b e : Int) : Int := if cfg.chunk ≠ 0 ∧ b + cfg.chunk - 1 < e then b + cfg.chunk - 1 else 0
def rrOut (cfg : Cfg) (b e : Int) : OutMsg := mkOut "2" [(7, toString b), (16, toString (rrEnd cfg b e))]

theorem sRR_eq (s : Sess) (b e : Int) :
    sendResendRequest s b e = (sendInReplyTo s (rrOut s.cfg b e), rrCur s.cfg b e, e) := by
  unfold sendResendRequest rrOut rrEnd rrCur
  by_cases hc : s.cfg.chunk = 0
  · simp [hc]
  · have hc' : (s.cfg.chunk != 0) = true := by simpa using hc
    simp only [hc', if_true, ne_eq, hc, not_false_eq_true, true_and]
    by_cases h2 : b + (s.cfg.chunk : Int) - 1 < e
    · simp [h2]
    · simp [h2]

theorem outOK_rrOut (cfg : Cfg) (b e : Int) : OutOK (rrOut cfg b e) := outOK_resendRequest _ _

/-- how an engine answers a Logon: the acceptor writes its own Logon (dropping its queue), the initiator nothing -/
def LogonRole (s : Sess) (n0 : Int) (W q0 : List OutMsg) : Prop :=
  (s.cfg.initiator = true ∧ n0 = 0 ∧ W = [] ∧ q0 = s.toSend) ∨
  (s.cfg.initiator = false ∧ n0 = 1 ∧ q0 = [] ∧ ∃ mL, IsLogon s.cfg mL ∧ mL.seq = s.store.sender ∧ W = [mL])

theorem has_toIn_body (cfg : Cfg) (m : OutMsg) (t : Nat) (ht : bodyTag t = true) : (toIn cfg m).f.has t = m.f.has t := by
  rw [has_iff_get?, has_iff_get?, toIn_get_body cfg m t ht]

theorem handleLogon_pool {c : Ctx} (hc : CtxOK c) {s : Sess} (hs : s.cfg = c.cfg) {m : OutMsg} (hw : Wire c.P m)
    (hlog : IsLogon c.pcfg m) (hv : c.cfg.bs = 5 → c.pcfg.applVer ≠ "") (ho : s.out = true) (hge : s.store.target ≤ m.seq) :
    ∃ s1 n0 W q0, LogonRole s n0 W q0 ∧ Eff s s1 n0 W q0 ∧
      handleLogon s (toIn c.pcfg m) =
        if m.seq > s.store.target then (s1, some (.rej (.tooHigh m.seq s.store.target))) else (incrTarget s1, none) := by
  have hp : s.cfg.persist = true := by rw [hs]; exact hc.persist
  have ha : isAdminKind m.kind = true := by rw [hlog.1]; decide
  have h1137 : (s.cfg.bs == 5 && !(toIn c.pcfg m).f.has 1137) = false := by
    rw [has_toIn_body _ _ 1137 (by decide)]
    cases hb : (s.cfg.bs == 5) with
    | false => rfl
    | true =>
      have hb5 : c.cfg.bs = 5 := by rw [← hs]; simpa using hb
      have := hlog.2 (by rw [← hc.bs]; exact hb5) (hv hb5)
      simp [this]
  unfold handleLogon
  simp only [h1137, Bool.false_eq_true, if_false]
  generalize hs1 : (if (!s.cfg.initiator && s.cfg.refreshOnLogon) = true then s.emit Obs.refresh else s) = s1
  have e1 : Eff s s1 0 [] s.toSend := by
    rw [← hs1]; split
    · exact Eff.emit s _ (by intro _; simp)
    · exact Eff.refl s
  rw [verifyAppImpl_pass s1 _ (pf_noEmpty hc hw), pf_cb hc hw]
  simp only []
  have e2 : Eff s (s1.emit (cbObs s1 (toIn c.pcfg m))) 0 [] s.toSend := by
    have := e1.trans (Eff.emit s1 (cbObs s1 (toIn c.pcfg m)) (by
      intro x; rw [cbObs_toIn, if_pos ha]; simp))
    rw [e1.q] at this
    simpa using this
  generalize hs2 : s1.emit (cbObs s1 (toIn c.pcfg m)) = s2 at e2
  have hcfg2 : s2.cfg = c.cfg := e2.fr.cfg.trans hs
  have hro : s2.cfg.resetOnLogon = false := by rw [hcfg2]; exact hc.nr.1
  rw [pf_flag hc hw]
  simp only [hro, Bool.false_and, Bool.or_false, ite_self, Bool.false_eq_true, if_false]
  rw [verifySelect_pool hc hcfg2 hw]
  have hnl : ¬ m.seq < s2.store.target := by rw [e2.tgt]; omega
  simp only [Bool.false_eq_true, false_and, if_false, true_and, hnl]
  -- the reply
  have hp2 : s2.cfg.persist = true := by rw [hcfg2]; exact hc.persist
  have ho2 : s2.out = true := by rw [e2.fr.out]; exact ho
  have hfin : ∀ x : Sess, ∀ n0 W q0, Eff s x n0 W q0 → ∃ s1, Eff s s1 n0 W q0 ∧
      logonFinish x (toIn c.pcfg m) = if m.seq > s.store.target then (s1, some (.rej (.tooHigh m.seq s.store.target))) else (incrTarget s1, none) := by
    intro x n0 W q0 hx
    unfold logonFinish
    simp only []
    generalize hx4 : ((x.setSentReset false).emit (Obs.armPeer (1200 * x.hb))).emit Obs.onLogon = x4
    have e4 : Eff s x4 n0 W q0 := by
      have a1 : Eff x (x.setSentReset false) 0 [] x.toSend := Eff.of_eq ⟨rfl, rfl, rfl, rfl, rfl⟩ rfl rfl rfl
      have a2 := (a1.trans (Eff.emit _ (Obs.armPeer (1200 * x.hb)) (by intro _; simp))).trans (Eff.emit _ Obs.onLogon (by intro _; simp))
      rw [hx4] at a2
      have := hx.trans a2
      simp only [Int.add_zero, List.append_nil] at this
      have hq : x.toSend = q0 := hx.q
      exact ⟨this.fr, this.tgt, this.snd, this.w, by rw [this.q]; exact hq⟩
    refine ⟨x4, e4, ?_⟩
    rw [checkTooHigh_pool hc hw, e4.tgt]
    by_cases h2 : m.seq > s.store.target
    · simp [h2]
    · simp [h2]
  rcases eff_logonReply s2 (toIn c.pcfg m) hp2 ho2 with ⟨hi, hr⟩ | ⟨hi, mL, hl1, hl2, hr⟩
  · rw [hr]
    obtain ⟨s3, e3, h3⟩ := hfin s2 0 [] s.toSend e2
    exact ⟨s3, 0, [], s.toSend, Or.inl ⟨by rw [← e2.fr.cfg]; exact hi, rfl, rfl, rfl⟩, e3, h3⟩
  · have e3 : Eff s (logonReply s2 (toIn c.pcfg m) false) 1 [mL] [] := by
      have := e2.trans hr
      simpa using this
    obtain ⟨s3, e3', h3⟩ := hfin _ 1 [mL] [] e3
    refine ⟨s3, 1, [mL], [], Or.inr ⟨by rw [← e2.fr.cfg]; exact hi, rfl, rfl, mL, by rw [← e2.fr.cfg]; exact hl1, ?_, rfl⟩, e3', h3⟩
    rw [hl2, e2.snd]; omega

/-- an engine waiting for a Logon gets the peer's Logon (number at or above the expected one): it answers per its
    role; if the number is the expected one it is in session, otherwise it queues a ResendRequest for the gap and
    enters the resend state with an empty stash -/
theorem res_logonFix {c : Ctx} (hc : CtxOK c) {s : Sess} (hs : s.cfg = c.cfg) {m : OutMsg} (hw : Wire c.P m)
    (hlog : IsLogon c.pcfg m) (hv : c.cfg.bs = 5 → c.pcfg.applVer ≠ "") (ho : s.out = true) (hst : s.st = .logon)
    (hge : s.store.target ≤ m.seq) :
    ∃ n0 W q0, LogonRole s n0 W q0 ∧
      (m.seq = s.store.target → Res s (fixMsgInCore s (toIn c.pcfg m)) n0 W q0 (s.store.target + 1) .inSession) ∧
      (s.store.target < m.seq → Res s (fixMsgInCore s (toIn c.pcfg m)) (n0 + 1) W
          (q0 ++ [{ rrOut s.cfg s.store.target (m.seq - 1) with seq := s.store.sender + n0 }]) s.store.target
          (.resend [] (rrCur s.cfg s.store.target (m.seq - 1)) (m.seq - 1))) := by
  obtain ⟨s1, n0, W, q0, hrole, e1, hh⟩ := handleLogon_pool hc hs hw hlog hv ho hge
  refine ⟨n0, W, q0, hrole, ?_, ?_⟩
  · intro heq
    have hfx : fixMsgInCore s (toIn c.pcfg m) = (incrTarget s1, .inSession) := by
      unfold fixMsgInCore; rw [hst]; simp only []
      unfold logonFixMsgIn
      simp only [toIn_kind, hlog.1, bne_self_eq_false, Bool.false_eq_true, if_false]
      rw [hh, if_neg (by omega)]
    rw [hfx]; exact Res.of_eff_incr e1 _
  · intro hlt
    have hnl : s1.st.loggedOn = false := by rw [e1.fr.st, hst]; rfl
    have hp1 : s1.cfg.persist = true := by rw [e1.fr.cfg, hs]; exact hc.persist
    have e2 := eff_sendInReplyTo_off s1 (rrOut s1.cfg s.store.target (m.seq - 1)) (outOK_rrOut _ _ _) hp1 hnl
    have hfx : fixMsgInCore s (toIn c.pcfg m) =
        (sendInReplyTo s1 (rrOut s1.cfg s.store.target (m.seq - 1)), .resend [] (rrCur s1.cfg s.store.target (m.seq - 1)) (m.seq - 1)) := by
      unfold fixMsgInCore; rw [hst]; simp only []
      unfold logonFixMsgIn
      simp only [toIn_kind, hlog.1, bne_self_eq_false, Bool.false_eq_true, if_false]
      rw [hh, if_pos (by omega)]
      simp only [sRR_eq]
    rw [e1.fr.cfg] at e2 hfx
    rw [hfx]
    have e3 := e1.trans e2
    refine ⟨e3.fr, e3.tgt, e3.snd, ?_, ?_, rfl⟩
    · show wl (sendInReplyTo s1 _) = _
      rw [e3.w]; simp
    · show (sendInReplyTo s1 _).toSend = _
      rw [e3.q, e1.q]
      simp only [numbered, e1.snd]

end Qfx.Link
