/-
  C05 liveness, part k: exact results of the handlers on messages the peer wrote (`Res`): Logon while waiting for one,
  ResendRequest, the elements of a replay.
-/
import Qfx.Lemmas.LinkC05j
namespace Qfx.Link
open Qfx Qfx.Sess

/-- result of a handler: what was sent, the new expected number, the next state -/
structure Res (s : Sess) (r : Sess × SState) (n : Int) (W q : List OutMsg) (t' : Int) (nx : SState) : Prop where
  fr : Fr s r.1
  tgt : r.1.store.target = t'
  snd : r.1.store.sender = s.store.sender + n
  w : wl r.1 = wl s ++ W
  q : r.1.toSend = q
  nx : r.2 = nx
  grow : Grow true s.store r.1.store

theorem Res.of_eff {s s1 : Sess} {n : Int} {W q : List OutMsg} (h : Eff s s1 n W q) (nx : SState) :
    Res s (s1, nx) n W q s.store.target nx := ⟨h.fr, h.tgt, h.snd, h.w, h.q, rfl, h.grow⟩

theorem Res.of_eff_incr {s s1 : Sess} {n : Int} {W q : List OutMsg} (h : Eff s s1 n W q) (nx : SState) :
    Res s (incrTarget s1, nx) n W q (s.store.target + 1) nx :=
  ⟨h.fr.trans (fr_incrTarget s1), by simp [incrTarget, Sess.emit, Sess.setTarget, h.tgt], h.snd,
    by rw [show wl (incrTarget s1) = wl s1 from wl_emit _ _ (by intro _; simp)]; exact h.w, h.q, rfl, h.grow.target _⟩

/-- a Logon as an engine with configuration `cfg` composes it -/
def IsLogon (cfg : Cfg) (m : OutMsg) : Prop := m.kind = "A" ∧ (cfg.bs = 5 → cfg.applVer ≠ "" → m.f.has 1137 = true)

/-- header bookkeeping (number, tag 369, reply marker) does not matter: any message with the kind and fields of `logonMsg` -/
theorem isLogon_of (x : Sess) (mL : OutMsg) (nx : Option Int) (hk : mL.kind = "A") (hf : mL.f = (logonMsgX x false nx).f) :
    IsLogon x.cfg mL := by
  refine ⟨hk, fun _ hv => ?_⟩
  have : x.cfg.applVer.isEmpty = false := (isEmpty_false_iff _).2 hv
  rw [hf]
  simp [logonMsgX, mkOut, Fields.has, this]

theorem isLogon_logonMsg (x : Sess) (n : Int) : IsLogon x.cfg { logonMsg x false with seq := n } := isLogon_of x _ _ rfl rfl

theorem eff_logonReply (s : Sess) (im : InMsg) (hp : s.cfg.persist = true) (ho : s.out = true) :
    (s.cfg.initiator = true ∧ logonReply s im false = s) ∨
    (s.cfg.initiator = false ∧ ∃ mL, IsLogon s.cfg mL ∧ mL.seq = s.store.sender ∧ Eff s (logonReply s im false) 1 [mL] []) := by
  unfold logonReply
  cases hi : s.cfg.initiator
  · right
    refine ⟨rfl, ?_⟩
    simp only [Bool.not_false, if_true]
    generalize hx : (if (!s.cfg.hbOverride) = true then match getInt im 108 with | Got.val h => s.setHb h | x => s else s) = x
    have hX : Eff s x 0 [] s.toSend := by
      rw [← hx]
      split
      · split
        · exact Eff.of_eq ⟨rfl, rfl, rfl, rfl, rfl⟩ rfl rfl rfl
        · exact Eff.refl s
      · exact Eff.refl s
    have hxp : x.cfg.persist = true := by rw [hX.fr.cfg]; exact hp
    have hxo : x.out = true := by rw [hX.fr.out]; exact ho
    have h2 := eff_dropAndSend x ((logonMsgRe x false im).inReplyTo im) ((outOK_logonX x _).re im) hxp hxo
    simp only [Bool.false_and, Bool.false_eq_true, if_false]
    refine ⟨numbered x ((logonMsgRe x false im).inReplyTo im), ?_, ?_, ?_⟩
    · have := isLogon_of x (numbered x ((logonMsgRe x false im).inReplyTo im)) _ rfl rfl
      rw [hX.fr.cfg] at this; exact this
    · show x.store.sender = _; rw [hX.snd]; omega
    · have h3 : Eff s _ (0 + 1) ([] ++ [numbered x ((logonMsgRe x false im).inReplyTo im)]) [] := hX.trans h2
      rw [show (0 : Int) + 1 = 1 from rfl, List.nil_append] at h3
      exact h3
  · left; exact ⟨rfl, by simp⟩

/-- EndSeqNo / chunk end / the ResendRequest composed by `sendResendRequest s b e` -/
def rrEnd (cfg : Cfg) (b e : Int) : Int := if cfg.chunk ≠ 0 ∧ b + cfg.chunk - 1 < e then b + cfg.chunk - 1 else infinityEnd cfg
def rrCur (cfg : Cfg) (b e : Int) : Int := if cfg.chunk ≠ 0 ∧ b + cfg.chunk - 1 < e then b + cfg.chunk - 1 else 0
def rrOut (cfg : Cfg) (b e : Int) : OutMsg := mkOut "2" [(7, toString b), (16, toString (rrEnd cfg b e))]

theorem sRR_eq (s : Sess) (b e : Int) :
    sendResendRequest s b e = (sendInReplyTo s (rrOut s.cfg b e), rrCur s.cfg b e, e) := by
  unfold sendResendRequest rrOut rrEnd rrCur
  by_cases hc : s.cfg.chunk = 0
  · simp [hc]
  · have hc' : (s.cfg.chunk != 0) = true := by simpa using hc
    simp only [hc', if_true, ne_eq, hc, not_false_eq_true, true_and]
    by_cases h2 : b + (s.cfg.chunk : Int) - 1 < e
    · simp [h2]
    · simp [h2]

theorem outOK_rrOut (cfg : Cfg) (b e : Int) : OutOK (rrOut cfg b e) := outOK_resendRequest _ _

/-- how an engine answers a Logon: the acceptor writes its own Logon (dropping its queue), the initiator nothing -/
def LogonRole (s : Sess) (n0 : Int) (W q0 : List OutMsg) : Prop :=
  (s.cfg.initiator = true ∧ n0 = 0 ∧ W = [] ∧ q0 = s.toSend) ∨
  (s.cfg.initiator = false ∧ n0 = 1 ∧ q0 = [] ∧ ∃ mL, IsLogon s.cfg mL ∧ mL.seq = s.store.sender ∧ W = [mL])

theorem has_toIn_body (cfg : Cfg) (m : OutMsg) (t : Nat) (ht : bodyTag t = true) : (toIn cfg m).f.has t = m.f.has t := by
  rw [has_iff_get?, has_iff_get?, toIn_get_body cfg m t ht]

theorem handleLogon_pool {c : Ctx} (hc : CtxOK c) {s : Sess} (hs : s.cfg = c.cfg) {m : OutMsg} (hw : Wire c.P m)
    (hlog : IsLogon c.pcfg m) (hv : c.cfg.bs = 5 → c.pcfg.applVer ≠ "") (ho : s.out = true) (hge : s.store.target ≤ m.seq) :
    ∃ s1 n0 W q0, LogonRole s n0 W q0 ∧ Eff s s1 n0 W q0 ∧
      handleLogon s (toIn c.pcfg m) =
        if m.seq > s.store.target then (s1, some (.rej (.tooHigh m.seq s.store.target))) else (incrTarget s1, none) := by
  have hp : s.cfg.persist = true := by rw [hs]; exact hc.persist
  have ha : isAdminKind m.kind = true := by rw [hlog.1]; decide
  have h1137 : (s.cfg.bs == 5 && !(toIn c.pcfg m).f.has 1137) = false := by
    rw [has_toIn_body _ _ 1137 (by decide)]
    cases hb : (s.cfg.bs == 5) with
    | false => rfl
    | true =>
      have hb5 : c.cfg.bs = 5 := by rw [← hs]; simpa using hb
      have := hlog.2 (by rw [← hc.bs]; exact hb5) (hv hb5)
      simp [this]
  unfold handleLogon
  simp only [h1137, Bool.false_eq_true, if_false]
  generalize hs1 : (if (!s.cfg.initiator && s.cfg.refreshOnLogon) = true then s.emit Obs.refresh else s) = s1
  have e1 : Eff s s1 0 [] s.toSend := by
    rw [← hs1]; split
    · exact Eff.emit s _ (by intro _; simp)
    · exact Eff.refl s
  have hcfg1 : s1.cfg = c.cfg := by rw [← hs1]; split <;> exact hs
  rw [verifyAppImpl_pass s1 _ (pf_valid hc hcfg1 hw), pf_cb hc hw]
  simp only []
  have e2 : Eff s (s1.emit (cbObs s1 (toIn c.pcfg m))) 0 [] s.toSend := by
    have := e1.trans (Eff.emit s1 (cbObs s1 (toIn c.pcfg m)) (by
      intro x; rw [cbObs_toIn, if_pos ha]; simp))
    rw [e1.q] at this
    simpa using this
  generalize hs2 : s1.emit (cbObs s1 (toIn c.pcfg m)) = s2 at e2
  have hcfg2 : s2.cfg = c.cfg := e2.fr.cfg.trans hs
  have hro : s2.cfg.resetOnLogon = false := by rw [hcfg2]; exact hc.nr.1
  rw [pf_flag hc hw]
  simp only [hro, Bool.false_and, Bool.or_false, ite_self, Bool.false_eq_true, if_false]
  rw [verifySelect_pool hc hcfg2 hw]
  have hnl : ¬ m.seq < s2.store.target := by rw [e2.tgt]; omega
  simp only [Bool.false_eq_true, false_and, if_false, true_and, hnl]
  -- the reply
  have hp2 : s2.cfg.persist = true := by rw [hcfg2]; exact hc.persist
  have ho2 : s2.out = true := by rw [e2.fr.out]; exact ho
  rw [logonTail_off _ _ _ (by rw [hcfg2]; exact hc.nx), pf_flag hc hw]
  have hfin : ∀ x : Sess, ∀ n0 W q0, Eff s x n0 W q0 → ∀ ns : Int, ∃ s1, Eff s s1 n0 W q0 ∧
      logonFinish x (toIn c.pcfg m) ns =
        if m.seq > s.store.target then (s1, some (LogonErr.rej (Rej.tooHigh m.seq s.store.target))) else (incrTarget s1, none) := by
    intro x n0 W q0 hx ns
    unfold logonFinish
    rw [nxEval_off _ _ _ (by show x.cfg.nextExpected = false; rw [hx.fr.cfg, hs]; exact hc.nx)]
    simp only []
    generalize hx4 : ((x.setSentReset false).emit (Obs.armPeer (1200 * x.hb))).emit Obs.onLogon = x4
    have e4 : Eff s x4 n0 W q0 := by
      have a1 : Eff x (x.setSentReset false) 0 [] x.toSend := Eff.of_eq ⟨rfl, rfl, rfl, rfl, rfl⟩ rfl rfl rfl
      have a2 := (a1.trans (Eff.emit _ (Obs.armPeer (1200 * x.hb)) (by intro _; simp))).trans (Eff.emit _ Obs.onLogon (by intro _; simp))
      rw [hx4] at a2
      have := hx.trans a2
      simp only [Int.add_zero, List.append_nil] at this
      have hq : x.toSend = q0 := hx.q
      exact ⟨this.fr, this.tgt, this.snd, this.w, by rw [this.q]; exact hq, this.grow⟩
    refine ⟨x4, e4, ?_⟩
    rw [checkTooHigh_pool hc hw, e4.tgt]
    by_cases h2 : m.seq > s.store.target
    · simp [h2]
    · simp [h2]
  rcases eff_logonReply s2 (toIn c.pcfg m) hp2 ho2 with ⟨hi, hr⟩ | ⟨hi, mL, hl1, hl2, hr⟩
  · rw [hr]
    obtain ⟨s3, e3, h3⟩ := hfin s2 0 [] s.toSend e2 s.store.sender
    exact ⟨s3, 0, [], s.toSend, Or.inl ⟨by rw [← e2.fr.cfg]; exact hi, rfl, rfl, rfl⟩, e3, h3⟩
  · have e3 : Eff s (logonReply s2 (toIn c.pcfg m) false) 1 [mL] [] := by
      have := e2.trans hr
      simpa using this
    obtain ⟨s3, e3', h3⟩ := hfin _ 1 [mL] [] e3 s.store.sender
    refine ⟨s3, 1, [mL], [], Or.inr ⟨by rw [← e2.fr.cfg]; exact hi, rfl, rfl, mL, by rw [← e2.fr.cfg]; exact hl1, ?_, rfl⟩, e3', h3⟩
    rw [hl2, e2.snd]; omega

/-- an engine waiting for a Logon gets the peer's Logon (number at or above the expected one): it answers per its
    role; if the number is the expected one it is in session, otherwise it queues a ResendRequest for the gap and
    enters the resend state with an empty stash -/
theorem res_logonFix {c : Ctx} (hc : CtxOK c) {s : Sess} (hs : s.cfg = c.cfg) {m : OutMsg} (hw : Wire c.P m)
    (hlog : IsLogon c.pcfg m) (hv : c.cfg.bs = 5 → c.pcfg.applVer ≠ "") (ho : s.out = true) (hst : s.st = .logon)
    (hge : s.store.target ≤ m.seq) :
    ∃ n0 W q0, LogonRole s n0 W q0 ∧
      (m.seq = s.store.target → Res s (fixMsgInCore s (toIn c.pcfg m)) n0 W q0 (s.store.target + 1) .inSession) ∧
      (s.store.target < m.seq → Res s (fixMsgInCore s (toIn c.pcfg m)) (n0 + 1) W
          (q0 ++ [{ stamp s (rrOut s.cfg s.store.target (m.seq - 1)) with seq := s.store.sender + n0 }]) s.store.target
          (.resend [] (rrCur s.cfg s.store.target (m.seq - 1)) (m.seq - 1))) := by
  obtain ⟨s1, n0, W, q0, hrole, e1, hh⟩ := handleLogon_pool hc hs hw hlog hv ho hge
  refine ⟨n0, W, q0, hrole, ?_, ?_⟩
  · intro heq
    have hfx : fixMsgInCore s (toIn c.pcfg m) = (incrTarget s1, .inSession) := by
      unfold fixMsgInCore; rw [hst]; simp only []
      unfold logonFixMsgIn
      simp only [toIn_kind, hlog.1, bne_self_eq_false, Bool.false_eq_true, if_false]
      rw [hh, if_neg (by omega)]
    rw [hfx]; exact Res.of_eff_incr e1 _
  · intro hlt
    have hnl : s1.st.loggedOn = false := by rw [e1.fr.st, hst]; rfl
    have hp1 : s1.cfg.persist = true := by rw [e1.fr.cfg, hs]; exact hc.persist
    have e2 := eff_sendInReplyTo_off s1 (rrOut s1.cfg s.store.target (m.seq - 1)) (outOK_rrOut _ _ _) hp1 hnl
    have hfx : fixMsgInCore s (toIn c.pcfg m) =
        (sendInReplyTo s1 (rrOut s1.cfg s.store.target (m.seq - 1)), .resend [] (rrCur s1.cfg s.store.target (m.seq - 1)) (m.seq - 1)) := by
      unfold fixMsgInCore; rw [hst]; simp only []
      unfold logonFixMsgIn
      simp only [toIn_kind, hlog.1, bne_self_eq_false, Bool.false_eq_true, if_false]
      rw [hh, if_pos (by omega)]
      simp only [sRR_eq]
    rw [e1.fr.cfg] at e2 hfx
    rw [hfx]
    have e3 := e1.trans e2
    refine ⟨e3.fr, e3.tgt, e3.snd, ?_, ?_, rfl, e3.grow⟩
    · show wl (sendInReplyTo s1 _) = _
      rw [e3.w]; simp
    · show (sendInReplyTo s1 _).toSend = _
      rw [e3.q, e1.q]
      have hst : stamp s1 (rrOut s.cfg s.store.target (m.seq - 1)).asNew = stamp s (rrOut s.cfg s.store.target (m.seq - 1)) :=
        stamp_congr s s1 _ e1.fr.cfg e1.tgt
      simp only [numbered, e1.snd, hst]

theorem wl_wrote (s : Sess) (ms : List OutMsg) : wl (s.wrote ms) = wl s ++ ms := by
  simp only [wl, Sess.wrote, List.reverse_append, List.reverse_reverse, wiresOf_append]
  congr 1
  induction ms with
  | nil => rfl
  | cons m rest ih => simp [wiresOf] at ih ⊢; exact ih

/-- the replay: nothing is numbered; a non-empty plan goes out behind whatever was still queued -/
theorem eff_resendMessages (s : Sess) (b e : Int) (hl : s.st.loggedOn = true) (ho : s.out = true) (hp : s.cfg.persist = true) :
    (replyPlanR s.replyLast true s.store b e = [] ∧ resendMessages s b e = s) ∨
    (replyPlanR s.replyLast true s.store b e ≠ [] ∧ Eff s (resendMessages s b e) 0 (s.toSend ++ replyPlanR s.replyLast true s.store b e) []) := by
  rw [resendMessages_eq, hp]
  cases hpl : replyPlanR s.replyLast true s.store b e with
  | nil => left; exact ⟨rfl, rfl⟩
  | cons m rest =>
    right
    refine ⟨by simp, ?_⟩
    rw [enqAll_out s m rest ho]
    have hk : s.keptQueue = s.toSend := by simp [Sess.keptQueue, hl]
    rw [hk]
    exact ⟨⟨rfl, rfl, rfl, rfl, rfl⟩, rfl, by show s.store.sender = _; omega, wl_wrote _ _, rfl, Grow.refl _ _⟩

/-- a ResendRequest of the peer (numbered at or above the expected number) reaches a logged-on engine: the replay of
    the clipped range goes out; the request's own number is consumed iff it is the expected one -/
theorem res_resendRequest {c : Ctx} (hc : CtxOK c) {s : Sess} (hs : s.cfg = c.cfg) {m : OutMsg} (hw : Wire c.P m)
    (hk2 : m.kind = "2") (b e : Int) (h7 : m.f.get? 7 = some (toString b)) (h16 : m.f.get? 16 = some (toString e))
    (hb64 : inInt64 b) (he64 : inInt64 e) (hl : s.st.loggedOn = true) (ho : s.out = true) (hge : s.store.target ≤ m.seq) :
    ∃ W q, ((replyPlanR (replyLastOf s (toIn c.pcfg m)) true s.store b (clipEnd s.cfg s.store.sender e) = [] ∧ W = [] ∧ q = s.toSend) ∨
            (replyPlanR (replyLastOf s (toIn c.pcfg m)) true s.store b (clipEnd s.cfg s.store.sender e) ≠ [] ∧
              W = s.toSend ++ replyPlanR (replyLastOf s (toIn c.pcfg m)) true s.store b (clipEnd s.cfg s.store.sender e) ∧ q = [])) ∧
      Res s (handleResendRequest s (toIn c.pcfg m)) 0 W q (if m.seq = s.store.target then s.store.target + 1 else s.store.target) .inSession := by
  have ha : isAdminKind m.kind = true := by rw [hk2]; decide
  have hb : getInt (toIn c.pcfg m) 7 = .val b := getInt_of_get? _ _ _ (by rw [toIn_get_body _ _ 7 (by decide)]; exact h7) hb64
  have he : getInt (toIn c.pcfg m) 16 = .val e := getInt_of_get? _ _ _ (by rw [toIn_get_body _ _ 16 (by decide)]; exact h16) he64
  have hv : verifySelect s (toIn c.pcfg m) false false true = (s.emit (cbObs s (toIn c.pcfg m)), none) := by
    rw [verifySelect_pool hc hs hw]; simp
  rw [C03_handleResendRequest s _ _ b e hv hb he]
  simp only []
  generalize hs1 : (s.emit (cbObs s (toIn c.pcfg m))).setReplyLast (replyLastOf (s.emit (cbObs s (toIn c.pcfg m))) (toIn c.pcfg m)) = s1
  have hrl1 : s1.replyLast = replyLastOf s (toIn c.pcfg m) := by rw [← hs1]; rfl
  have hcl : clipEnd (s.emit (cbObs s (toIn c.pcfg m))).cfg (s.emit (cbObs s (toIn c.pcfg m))).store.sender e
      = clipEnd s.cfg s.store.sender e := rfl
  rw [hcl]
  have e1 : Eff s s1 0 [] s.toSend := by
    rw [← hs1]
    have a1 := Eff.emit s (cbObs s (toIn c.pcfg m)) (by intro x; rw [cbObs_toIn, if_pos ha]; simp)
    have a2 : Eff (s.emit (cbObs s (toIn c.pcfg m))) ((s.emit (cbObs s (toIn c.pcfg m))).setReplyLast (replyLastOf (s.emit (cbObs s (toIn c.pcfg m))) (toIn c.pcfg m))) 0 [] (s.emit (cbObs s (toIn c.pcfg m))).toSend :=
      Eff.of_eq ⟨rfl, rfl, rfl, rfl, rfl⟩ rfl rfl rfl
    have := a1.trans a2
    exact ⟨this.fr, this.tgt, by rw [this.snd]; omega, by rw [this.w]; simp, this.q, this.grow⟩
  have hl1 : s1.st.loggedOn = true := by rw [e1.fr.st]; exact hl
  have ho1 : s1.out = true := by rw [e1.fr.out]; exact ho
  have hp1 : s1.cfg.persist = true := by rw [e1.fr.cfg, hs]; exact hc.persist
  have hst1 : s1.store = s.store := by rw [← hs1]; rfl
  have hq1 : s1.toSend = s.toSend := e1.q
  have key : ∀ s2 : Sess, ∀ W q, Eff s s2 0 W q →
      Res s (if (checkTooLow s2 (toIn c.pcfg m)).isSome = true then (s2, SState.inSession)
             else if (checkTooHigh s2 (toIn c.pcfg m)).isSome = true then (s2, SState.inSession)
             else (incrTarget s2, SState.inSession)) 0 W q (if m.seq = s.store.target then s.store.target + 1 else s.store.target) .inSession := by
    intro s2 W q e2
    rw [checkTooLow_pool hc hw, checkTooHigh_pool hc hw, e2.tgt]
    have h1 : ¬ m.seq < s.store.target := by omega
    by_cases h2 : m.seq > s.store.target
    · have hne : ¬ m.seq = s.store.target := by omega
      simp only [h1, h2, hne, if_true, if_false, Option.isSome_some, Option.isSome_none, Bool.false_eq_true]
      exact Res.of_eff e2 _
    · have heq : m.seq = s.store.target := by omega
      have h3 : ¬ s.store.target < s.store.target := by omega
      have h4 : ¬ s.store.target > s.store.target := by omega
      simp only [heq, h3, h4, if_true, if_false, Option.isSome_none, Bool.false_eq_true]
      exact Res.of_eff_incr e2 SState.inSession
  rcases eff_resendMessages s1 b (clipEnd s.cfg s.store.sender e) hl1 ho1 hp1 with ⟨hpl, hr⟩ | ⟨hpl, hr⟩
  · rw [hst1, hrl1] at hpl
    rw [hr]
    exact ⟨[], s.toSend, Or.inl ⟨hpl, rfl, rfl⟩, key s1 [] s.toSend e1⟩
  · rw [hst1, hrl1] at hpl hr
    rw [hq1] at hr
    have e2 := e1.trans hr
    simp only [Int.add_zero, List.nil_append] at e2
    exact ⟨_, [], Or.inr ⟨hpl, rfl, rfl⟩, key _ _ [] e2⟩

/-- a gap fill of the peer numbered exactly as expected: the expected number jumps to its NewSeqNo, nothing is sent -/
theorem res_gapFill {c : Ctx} (hc : CtxOK c) {s : Sess} (hs : s.cfg = c.cfg) (b e : Int) (l : Option Int) (hw : Wire c.P (gapFillL b e l))
    (hb : b = s.store.target) :
    Res s (inSessionFixMsgIn s (toIn c.pcfg (gapFillL b e l))) 0 [] s.toSend e .inSession := by
  obtain ⟨b', e', l', heq, hbe, he, hlo, _⟩ := wire_gap_inv hc.pok hw rfl
  have hb' : b' = b := by have := congrArg OutMsg.seq heq; exact this.symm
  have he' : e' = e := by
    have := congrArg OutMsg.f heq
    simp only [gapFillL, gapFill, List.cons.injEq, Prod.mk.injEq, true_and, and_true] at this
    exact (toString_int_inj this).symm
  subst hb' he'
  have h123 : getBool (toIn c.pcfg (gapFillL b' e' l)) 123 = .val true :=
    getBool_Y _ _ (by rw [toIn_get_body _ _ 123 (by decide)]; simp [gapFillL, gapFill, get?_cons])
  have hbound := hc.bound
  have h36 : getInt (toIn c.pcfg (gapFillL b' e' l)) 36 = .val e' :=
    getInt_of_get? _ _ _ (by rw [toIn_get_body _ _ 36 (by decide)]; simp [gapFillL, gapFill, get?_cons])
      (by unfold inInt64; unfold maxSeq at hbound; omega)
  have hfx : inSessionFixMsgIn s (toIn c.pcfg (gapFillL b' e' l)) = handleSequenceReset s (toIn c.pcfg (gapFillL b' e' l)) := by
    unfold inSessionFixMsgIn
    simp only [toIn_kind, gapFillL, gapFill]
    simp
  rw [hfx]
  unfold handleSequenceReset
  rw [h123]
  simp only []
  rw [verifySelect_pool hc hs hw]
  have hseq : (gapFillL b' e' l).seq = b' := rfl
  have h1 : ¬ b' < s.store.target := by omega
  have h2 : ¬ s.store.target < b' := by omega
  simp only [true_and, if_true, hseq, h1, h2, if_false]
  rw [h36]
  simp only []
  have ht : (s.emit (cbObs s (toIn c.pcfg (gapFillL b' e' l)))).store.target = s.store.target := rfl
  have hgt : e' > (s.emit (cbObs s (toIn c.pcfg (gapFillL b' e' l)))).store.target := by rw [ht]; omega
  rw [if_pos hgt]
  refine ⟨⟨rfl, rfl, rfl, rfl, rfl⟩, rfl, by show s.store.sender = _; omega, ?_, rfl, rfl, Grow.target (Grow.refl true s.store) e'⟩
  show wl (((s.emit _).setTarget e').emit _) = _
  rw [wl_emit _ _ (by intro _; simp)]
  show wl (s.emit _) = _
  rw [wl_emit _ _ (by intro x; rw [cbObs_toIn]; split <;> simp)]
  simp

/-- any other message of the peer that needs no answer (not Logon / Logout / ResendRequest / TestRequest / SequenceReset)
    numbered exactly as expected: the expected number advances by one, nothing is sent -/
theorem res_plain {c : Ctx} (hc : CtxOK c) {s : Sess} (hs : s.cfg = c.cfg) {m : OutMsg} (hw : Wire c.P m)
    (hk : m.kind ≠ "A" ∧ m.kind ≠ "5" ∧ m.kind ≠ "2" ∧ m.kind ≠ "4" ∧ m.kind ≠ "1") (hseq : m.seq = s.store.target) :
    Res s (inSessionFixMsgIn s (toIn c.pcfg m)) 0 [] s.toSend (s.store.target + 1) .inSession := by
  obtain ⟨hA, h5, h2, h4, h1⟩ := hk
  unfold inSessionFixMsgIn
  simp only [toIn_kind, beq_iff_eq, hA, h5, h2, h4, h1, if_false]
  rw [verifySelect_pool hc hs hw]
  have g1 : ¬ m.seq < s.store.target := by omega
  have g2 : ¬ s.store.target < m.seq := by omega
  simp only [true_and, if_true, g1, g2, if_false]
  exact Res.of_eff_incr (Eff.emit s _ (by intro x; rw [cbObs_toIn]; split <;> simp)) _

/-- in the resend state with nothing stashed and the whole gap requested at once (`cur = 0`): the message is handled as
    in session; the engine leaves the resend state as soon as the expected number has passed the end of the gap -/
theorem res_resendFix {s : Sess} {im : InMsg} {n : Int} {W q : List OutMsg} {t' : Int} (fin : Int)
    (h : Res s (inSessionFixMsgIn s im) n W q t' .inSession) (hg : getBool im 123 ≠ .garbled) :
    Res s (resendFixMsgIn s [] 0 fin im) n W q t' (if fin ≥ t' then .resend [] 0 fin else .inSession) := by
  unfold resendFixMsgIn
  generalize inSessionFixMsgIn s im = r at h
  obtain ⟨s', nx⟩ := r
  obtain ⟨hfr, htg, hsn, hw, hq, hnx, hgr⟩ := h
  simp only [] at hfr htg hsn hw hq hnx hgr ⊢
  subst hnx
  simp only [SState.loggedOn, Bool.not_true, Bool.false_eq_true, if_false, bne_self_eq_false, Bool.false_and, Bool.and_false]
  rw [htg]
  by_cases hf : fin ≥ t'
  · simp only [hf, if_true]
    exact ⟨hfr, htg, hsn, hw, hq, rfl, hgr⟩
  · simp only [hf, if_false]
    simp only [drainStash, List.length_nil, List.find?_nil]
    exact ⟨hfr, htg, hsn, hw, hq, rfl, hgr⟩

/-- what one event did to an engine, as far as the resynchronisation is concerned -/
structure StepIs (s : Sess) (e : Ev) (st' : SState) (t' n : Int) (W q : List OutMsg) (o : Bool) : Prop where
  st : (step s e).1.st = st'
  tgt : (step s e).1.store.target = t'
  snd : (step s e).1.store.sender = s.store.sender + n
  w : wiresOf (step s e).2.1 = W
  q : (step s e).1.toSend = q
  out : (step s e).1.out = o
  grow : Grow true s.store (step s e).1.store

theorem connected_sessionTime {st : SState} (h : st.connected = true) : st.sessionTime = true := by
  cases st <;> simp_all [SState.connected, SState.sessionTime]

theorem stepIs_incoming (s : Sess) (im : InMsg) (hcon : s.st.connected = true) {n : Int} {W q : List OutMsg} {t' : Int} {nx : SState}
    (hr : Res s.clearLog (fixMsgInCore s.clearLog im) n W q t' nx) (hnx : nx.connected = true) :
    StepIs s (.incomingMsg (some im)) nx t' n W q s.out := by
  have hstep : step s (.incomingMsg (some im)) =
      ((((fixMsgInCore s.clearLog im).1.setSt nx).emit (.armPeer (1200 * (fixMsgInCore s.clearLog im).1.hb))).clearLog,
       ((((fixMsgInCore s.clearLog im).1.setSt nx).emit (.armPeer (1200 * (fixMsgInCore s.clearLog im).1.hb))).log.reverse), "ok") := by
    unfold step stepCore
    simp only []
    have hf : fuelOf s.clearLog = (4 * s.inbox.length + 6) + 1 + 1 := by unfold fuelOf; rfl
    rw [hf]
    unfold incoming
    simp only []
    rw [checkSessionTime_inrange _ _ (connected_sessionTime (by exact hcon))]
    have hc : s.clearLog.st.connected = true := hcon
    simp only [hc, Bool.not_true, Bool.false_eq_true, if_false]
    generalize fixMsgInCore s.clearLog im = r at hr
    obtain ⟨s1, nx1⟩ := r
    have : nx1 = nx := hr.nx
    subst this
    simp only [setState_connected _ _ _ hnx]
    rfl
  generalize fixMsgInCore s.clearLog im = r at hr hstep
  obtain ⟨s1, nx1⟩ := r
  obtain ⟨hfr, htg, hsn, hw, hq, hn, hgr⟩ := hr
  simp only [] at hfr htg hsn hw hq hn hgr hstep
  have hwl : wl s1 = W := by rw [hw]; simp [wl, Sess.clearLog, wiresOf]
  refine ⟨by rw [hstep]; rfl, by rw [hstep]; exact htg, by rw [hstep]; exact hsn, ?_, by rw [hstep]; exact hq,
    by rw [hstep]; exact hfr.out, by rw [hstep]; exact hgr⟩
  rw [hstep]
  show wiresOf ((Obs.armPeer _ :: s1.log).reverse) = W
  rw [List.reverse_cons, wiresOf_append, ← hwl]
  simp [wl, wiresOf]

theorem stepIs_flush (s : Sess) (hl : s.st.loggedOn = true) (ho : s.out = true) :
    StepIs s .flush s.st s.store.target 0 s.toSend [] true := by
  have hcon : s.st.connected = true := by cases h : s.st <;> simp_all [SState.loggedOn, SState.connected]
  have hstep : step s .flush = ((sendQueued s.clearLog).clearLog, (sendQueued s.clearLog).log.reverse, "ok") := by
    unfold step stepCore
    simp only []
    have hf : fuelOf s.clearLog = (4 * s.inbox.length + 7) + 1 := by unfold fuelOf; rfl
    rw [hf, checkSessionTime_inrange _ _ (connected_sessionTime (by exact hcon))]
    have : s.clearLog.st.loggedOn = true := hl
    simp [this]
  have e := eff_sendQueued s.clearLog (show s.clearLog.out = true from ho)
  refine ⟨by rw [hstep]; exact e.fr.st, by rw [hstep]; exact e.tgt, by rw [hstep]; show (sendQueued s.clearLog).store.sender = _; rw [e.snd]; rfl,
    ?_, by rw [hstep]; exact e.q, by rw [hstep]; show (sendQueued s.clearLog).out = true; rw [e.fr.out]; exact ho,
    by rw [hstep]; exact e.grow⟩
  rw [hstep]
  show wl (sendQueued s.clearLog) = s.toSend
  rw [e.w]; simp [wl, Sess.clearLog, wiresOf]

/-- connecting from the disconnected state, reset options off: the initiator writes its Logon (its queue is dropped),
    the acceptor only waits -/
theorem stepIs_connect {s : Sess} (hst : s.st = .latent) (hnr : NoResetCfg s.cfg) (hp : s.cfg.persist = true) :
    (s.cfg.initiator = true ∧ ∃ mL, IsLogon s.cfg mL ∧ mL.seq = s.store.sender ∧
        StepIs s .connect .logon s.store.target 1 [mL] [] true) ∨
    (s.cfg.initiator = false ∧ StepIs s .connect .logon s.store.target 0 [] s.toSend true) := by
  have h1 : s.cfg.resetOnDisconnect = false := hnr.2.2
  have h2 : s.cfg.resetOnLogon = false := hnr.1
  have hcon : s.clearLog.st.connected = false := by show s.st.connected = false; rw [hst]; rfl
  have hses : s.clearLog.st.sessionTime = true := by show s.st.sessionTime = true; rw [hst]; rfl
  cases hi : s.cfg.initiator
  · right
    refine ⟨rfl, ?_⟩
    have hstep : step s .connect = ((s.clearLog.openConn.setSt .logon).clearLog, (s.clearLog.openConn.setSt .logon).log.reverse, "ok") := by
      unfold step stepCore connect
      have : s.clearLog.openConn.cfg.initiator = false := hi
      simp [hcon, hses, this]
    exact ⟨by rw [hstep]; rfl, by rw [hstep]; rfl, by rw [hstep]; show s.store.sender = _; omega, by rw [hstep]; rfl, by rw [hstep]; rfl, by rw [hstep]; rfl,
      by rw [hstep]; exact Grow.refl _ _⟩
  · left
    refine ⟨rfl, ?_⟩
    generalize hx : (if s.clearLog.openConn.cfg.refreshOnLogon = true then s.clearLog.openConn.emit Obs.refresh else s.clearLog.openConn) = x
    have ex : Eff s.clearLog.openConn x 0 [] s.toSend := by
      rw [← hx]; split
      · exact Eff.emit _ _ (by intro _; simp)
      · exact Eff.refl _
    have hxo : x.out = true := by rw [ex.fr.out]; rfl
    have hxp : x.cfg.persist = true := by rw [ex.fr.cfg]; exact hp
    have hxc : x.cfg = s.cfg := ex.fr.cfg
    have hsr : shouldSendReset x = false := shouldSendReset_false x (by rw [hxc]; exact hnr)
    have e2 := eff_dropAndSend x (logonMsg x false) (outOK_logon x) hxp hxo
    have hstep : step s .connect = (((sendLogonInReplyTo x false).setSt .logon).clearLog, ((sendLogonInReplyTo x false).setSt .logon).log.reverse, "ok") := by
      unfold step stepCore connect
      have hi' : s.clearLog.openConn.cfg.initiator = true := hi
      have h2' : x.cfg.resetOnLogon = false := by rw [hxc]; exact h2
      simp only [hcon, hses, Bool.false_eq_true, if_false, Bool.not_true, hi', hx, h2', hsr]
    have e3 := ex.trans e2
    refine ⟨numbered x (logonMsg x false), ?_, ?_, ?_⟩
    · have := isLogon_logonMsg x x.store.sender; rw [hxc] at this; exact this
    · show x.store.sender = _; rw [ex.snd]; show s.store.sender + 0 = _; omega
    · refine ⟨by rw [hstep]; rfl, by rw [hstep]; exact e3.tgt, by rw [hstep]; show (dropAndSend x _).store.sender = _; rw [e3.snd]; show s.store.sender + _ = _; omega,
        ?_, by rw [hstep]; exact e3.q, by rw [hstep]; show (dropAndSend x _).out = true; rw [e3.fr.out]; rfl,
        by rw [hstep]; exact e3.grow⟩
      rw [hstep]
      show wl (dropAndSend x (logonMsg x false)) = _
      rw [e3.w]; simp [wl, Sess.clearLog, Sess.openConn, wiresOf]

end Qfx.Link
