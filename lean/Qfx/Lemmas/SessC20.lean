/-
  Helper lemmas for C20 over Qfx.Model.Session (timer events, whole-event lifting, the pending wrapper is transparent
  to inbound processing).
-/
import Qfx.Lemmas.SessC04
import Qfx.Spec.SessionTypedC20
namespace Qfx.Sess
open Qfx

/-! ## timer events on whole steps -/

theorem step_timeout_eq (s : Sess) (e : TimerEv) (hc : s.st.sessionTime = true) (r : Sess × SState)
    (hr : timeoutCore s.clearLog e = r) (hnx : r.2.connected = true) :
    step s (.timeout e) = ((r.1.setSt r.2).clearLog, r.1.log.reverse, "ok") := by
  subst hr
  unfold step stepCore
  simp only [checkSessionTime_noop _ s.clearLog hc]
  rw [setState_connected _ _ _ hnx]
  rfl

/-- leaving for `latent` from a connected state with nothing buffered: logout notification / reset / close, inbox closed -/
theorem setState_latent_nil (fuel : Nat) (s : Sess) (hc : s.st.connected = true) (hi : s.inbox = []) :
    setState (fuel + 1) s .latent =
      (if (discMid s).closeInbox.pendingStop then (discMid s).closeInbox.setStopped else (discMid s).closeInbox).setSt .latent := by
  unfold setState
  have hl : (!SState.latent.connected) = true := rfl
  simp only [hl, if_true, hc]
  rw [drainIn_nil fuel s hi, drainIn_nil fuel _ (by rw [discMid_inbox]; exact hi)]

theorem discMid_loggedOn (s : Sess) (hl : s.st.loggedOn = true) :
    (discMid s).log.reverse = s.log.reverse ++ Obs.onLogout ::
        ((if s.cfg.resetOnDisconnect then [Obs.reset] else []) ++ (if s.out then [Obs.closed] else [])) ∧
    (discMid s).out = false := by
  unfold discMid
  simp only [hl, Bool.true_or, if_true]
  by_cases hr : s.cfg.resetOnDisconnect = true <;> by_cases ho : s.out = true <;>
    simp [hr, ho, Sess.emit, dropAndReset, Sess.storeReset, Sess.setToSend, Sess.setOut]

/-- what `setState … latent` keeps of the intermediate record -/
def finishLatent (d : Sess) : Sess :=
  (if d.closeInbox.pendingStop then d.closeInbox.setStopped else d.closeInbox).setSt .latent

theorem finishLatent_log (d : Sess) : (finishLatent d).log = d.log := by unfold finishLatent; split <;> rfl
theorem finishLatent_out (d : Sess) : (finishLatent d).out = d.out := by unfold finishLatent; split <;> rfl
theorem finishLatent_st (d : Sess) : (finishLatent d).st = .latent := by unfold finishLatent; split <;> rfl

theorem step_timeout_latent (s : Sess) (e : TimerEv) (hl : s.st.loggedOn = true) (hi : s.inbox = [])
    (hr : timeoutCore s.clearLog e = (s.clearLog, .latent)) :
    (step s (.timeout e)).1.st = .latent ∧ (step s (.timeout e)).1.out = false ∧
    (step s (.timeout e)).2.1 = Obs.onLogout ::
        ((if s.cfg.resetOnDisconnect then [Obs.reset] else []) ++ (if s.out then [Obs.closed] else [])) := by
  have hc : s.clearLog.st.connected = true := loggedOn_connected _ hl
  have hd := discMid_loggedOn s.clearLog hl
  have hstep : step s (.timeout e) = ((finishLatent (discMid s.clearLog)).clearLog, (finishLatent (discMid s.clearLog)).log.reverse, "ok") := by
    unfold step stepCore
    simp only [checkSessionTime_noop _ s.clearLog (connected_sessionTime _ hc), hr, fuelOf_succ]
    rw [setState_latent_nil _ _ hc hi]
    rfl
  rw [hstep]
  refine ⟨finishLatent_st (discMid s.clearLog), ?_, ?_⟩
  · show (finishLatent (discMid s.clearLog)).out = false
    rw [finishLatent_out]; exact hd.2
  · show (finishLatent (discMid s.clearLog)).log.reverse = _
    rw [finishLatent_log, hd.1]; rfl

/-! ## the state tag matters to inbound processing only through `loggedOn` and `curResend` -/

/-- `b` is indistinguishable from the current state tag for inbound processing -/
structure Same (b : SState) (s : Sess) : Prop where
  lo : b.loggedOn = s.st.loggedOn
  cr : curResend (s.setSt b) = curResend s

theorem Same.of_Q {b : SState} {k : Nat} {s s' : Sess} (h : Same b s) (hq : Q k s s') : Same b s' := by
  refine ⟨by rw [hq.st]; exact h.lo, ?_⟩
  rw [hq.curResend, ← h.cr]
  exact curResend_congr rfl hq.cfg

def mapSt {α : Type} (b : SState) (r : Sess × α) : Sess × α := (r.1.setSt b, r.2)

section reads
variable (b : SState) (s : Sess)
theorem setSt_cfg : (s.setSt b).cfg = s.cfg := rfl
theorem setSt_store : (s.setSt b).store = s.store := rfl
theorem setSt_toSend : (s.setSt b).toSend = s.toSend := rfl
theorem setSt_out : (s.setSt b).out = s.out := rfl
theorem setSt_hb : (s.setSt b).hb = s.hb := rfl
theorem setSt_sentReset : (s.setSt b).sentReset = s.sentReset := rfl
theorem setSt_log : (s.setSt b).log = s.log := rfl
theorem setSt_st : (s.setSt b).st = b := rfl
theorem setSt_storeReset : (s.setSt b).storeReset = s.storeReset.setSt b := rfl
theorem setSt_setSentReset (x : Bool) : (s.setSt b).setSentReset x = (s.setSentReset x).setSt b := rfl
theorem setSt_emit (o : Obs) : (s.setSt b).emit o = (s.emit o).setSt b := rfl
theorem setSt_setToSend (q : List OutMsg) : (s.setSt b).setToSend q = (s.setToSend q).setSt b := rfl
theorem setSt_setTarget (n : Int) : (s.setSt b).setTarget n = (s.setTarget n).setSt b := rfl
theorem setSt_setHb (n : Int) : (s.setSt b).setHb n = (s.setHb n).setSt b := rfl
end reads

macro "reads" : tactic => `(tactic| simp +instances only [setSt_storeReset, setSt_setSentReset, setSt_emit, setSt_setToSend, setSt_setTarget, setSt_setHb, setSt_cfg, setSt_store, setSt_toSend, setSt_out, setSt_hb, setSt_sentReset, setSt_log])

theorem c_persistOut (b : SState) (s : Sess) (q : Int) (m : OutMsg) : (s.setSt b).persistOut q m = (s.persistOut q m).setSt b := by
  unfold Sess.persistOut; reads
  by_cases hp : s.cfg.persist = true <;> simp only [hp, ↓reduceIte] <;> rfl

theorem c_sendQueued (b : SState) (s : Sess) : sendQueued (s.setSt b) = (sendQueued s).setSt b := by
  unfold sendQueued; reads
  by_cases hp : s.out = true <;> simp only [hp, ↓reduceIte] <;> rfl

theorem stamp_setSt (b : SState) (s : Sess) (m : OutMsg) : stamp (s.setSt b) m = stamp s m := rfl
theorem gapFillR_setSt (b : SState) (s : Sess) (x y : Int) : gapFillR (s.setSt b) x y = gapFillR s x y := rfl
theorem replyLastOf_setSt (b : SState) (s : Sess) (m : InMsg) : replyLastOf (s.setSt b) m = replyLastOf s m := rfl

theorem c_prep (b : SState) (s : Sess) (m : OutMsg) : prep (s.setSt b) m = ((prep s m).1, (prep s m).2.setSt b) := by
  unfold prep
  rw [stamp_setSt]
  generalize stamp s m = m
  unfold prepCore
  reads
  split
  · split <;> simp only [c_persistOut]
  · split
    · rfl
    · simp only [c_persistOut]

theorem c_queueForSend (b : SState) (s : Sess) (m : OutMsg) : queueForSend (s.setSt b) m = (queueForSend s m).setSt b := by
  unfold queueForSend
  rw [c_prep]
  generalize prep s m = r
  obtain ⟨o, s'⟩ := r
  cases o <;> rfl

theorem c_sendInReplyTo (b : SState) (s : Sess) (m : OutMsg) (h : Same b s) :
    sendInReplyTo (s.setSt b) m = (sendInReplyTo s m).setSt b := by
  unfold sendInReplyTo
  have : (s.setSt b).st.loggedOn = s.st.loggedOn := h.lo
  rw [this]
  split
  · exact c_queueForSend b s _
  · rw [c_prep]
    generalize prep s m = r
    obtain ⟨o, s'⟩ := r
    cases o with
    | none => rfl
    | some m' => exact c_sendQueued b (s'.setToSend (s'.toSend ++ [m']))


theorem c_dropAndSend (b : SState) (s : Sess) (m : OutMsg) : dropAndSend (s.setSt b) m = (dropAndSend s m).setSt b := by
  unfold dropAndSend
  rw [c_prep]
  generalize prep s m = r
  obtain ⟨o, s'⟩ := r
  cases o with
  | none => rfl
  | some m' => exact c_sendQueued b (s'.setToSend [m'])

theorem c_enqueueAndSend (b : SState) (s : Sess) (m : OutMsg) (h : Same b s) :
    enqueueAndSend (s.setSt b) m = (enqueueAndSend s m).setSt b := by
  unfold enqueueAndSend
  have : (s.setSt b).st.loggedOn = s.st.loggedOn := h.lo
  rw [this]
  by_cases hl : s.st.loggedOn = true <;> simp only [hl, Bool.not_true, Bool.not_false, Bool.false_eq_true, ↓reduceIte] <;> reads <;>
    rw [c_sendQueued]

theorem c_dropAndReset (b : SState) (s : Sess) : dropAndReset (s.setSt b) = (dropAndReset s).setSt b := rfl

theorem c_sendLogonInReplyTo (b : SState) (s : Sess) (r : Bool) :
    sendLogonInReplyTo (s.setSt b) r = (sendLogonInReplyTo s r).setSt b := by
  unfold sendLogonInReplyTo
  have : logonMsg (s.setSt b) r = logonMsg s r := rfl
  rw [this, c_dropAndSend]

theorem c_sendLogonRe (b : SState) (s : Sess) (r : Bool) (m : InMsg) :
    sendLogonRe (s.setSt b) r m = (sendLogonRe s r m).setSt b := by
  unfold sendLogonRe
  have : logonMsgRe (s.setSt b) r m = logonMsgRe s r m := rfl
  rw [this, c_dropAndSend]

theorem c_sendLogout (b : SState) (s : Sess) (h : Same b s) : sendLogout (s.setSt b) = (sendLogout s).setSt b :=
  c_sendInReplyTo b s _ h

theorem c_initiateLogout (b : SState) (s : Sess) (h : Same b s) : initiateLogout (s.setSt b) = (initiateLogout s).setSt b :=
  c_sendLogout b s h

theorem c_sendResendRequest (b : SState) (s : Sess) (x y : Int) (h : Same b s) :
    sendResendRequest (s.setSt b) x y = ((sendResendRequest s x y).1.setSt b, (sendResendRequest s x y).2) := by
  simp only [sendResendRequest_eq, setSt_cfg, c_sendInReplyTo b s _ h]

theorem c_doReject (b : SState) (s : Sess) (m : InMsg) (r : Nat) (t : Option Nat) (bz : Bool) (h : Same b s) :
    doReject (s.setSt b) m r t bz = (doReject s m r t bz).setSt b := by
  unfold doReject
  rw [setSt_cfg, c_sendInReplyTo b s _ h]

theorem c_incrTarget (b : SState) (s : Sess) : incrTarget (s.setSt b) = (incrTarget s).setSt b := rfl

theorem c_verifyAppImpl (b : SState) (s : Sess) (m : InMsg) : verifyAppImpl (s.setSt b) m = mapSt b (verifyAppImpl s m) := by
  unfold verifyAppImpl mapSt
  rw [setSt_cfg]
  split
  · rfl
  · reads
    split <;> rfl

theorem c_verifySelect (b : SState) (s : Sess) (m : InMsg) (th tl ai : Bool) (h : Same b s) :
    verifySelect (s.setSt b) m th tl ai = mapSt b (verifySelect s m th tl ai) := by
  unfold verifySelect
  have h1 : checkBeginString (s.setSt b) m = checkBeginString s m := rfl
  have h2 : checkCompID (s.setSt b) m = checkCompID s m := rfl
  have h3 : checkSendingTime (s.setSt b) m = checkSendingTime s m := rfl
  have h4 : checkTooLow (s.setSt b) m = checkTooLow s m := rfl
  have h5 : checkTooHigh (s.setSt b) m = checkTooHigh s m := rfl
  rw [h1, h2, h3, h4, h5, h.cr]
  split
  · rfl
  · split
    · rfl
    · split
      · rfl
      · split
        · rfl
        · split
          · rfl
          · split
            · exact c_verifyAppImpl b s m
            · rfl


theorem c_doTargetTooLow (b : SState) (s : Sess) (m : InMsg) (h : Same b s) :
    doTargetTooLow (s.setSt b) m = mapSt b (doTargetTooLow s m) := by
  unfold doTargetTooLow mapSt
  simp only [c_doReject b s m _ _ _ h, c_initiateLogout b s h, c_incrTarget,
    c_initiateLogout b _ (h.of_Q (q_doReject s m 10 none false))]
  repeat' split
  all_goals rfl


theorem c_processReject (b : SState) (s : Sess) (m : InMsg) (r : Rej) (h : Same b s) :
    processReject (s.setSt b) m r = mapSt b (processReject s m r) := by
  cases r with
  | tooHigh recv exp =>
    simp only [processReject, h.cr, c_sendResendRequest b s _ _ h]
    split <;> rfl
  | tooLow x y => exact c_doTargetTooLow b s m h
  | badBeginString => simp only [processReject, c_initiateLogout b s h]; rfl
  | rejectLogon => simp only [processReject, c_doReject b s m _ _ _ h, c_incrTarget]; rfl
  | plain x y z =>
    simp only [processReject, c_doReject b s m _ _ _ h, c_incrTarget, c_initiateLogout b _ (h.of_Q (q_doReject s m x y z))]
    split <;> rfl

theorem c_resendLoop (b : SState) (s : Sess) (x y : Int) (l : List (Int × OutMsg)) (h : Same b s) :
    resendLoop (s.setSt b) x y l = ((resendLoop s x y l).1.setSt b, (resendLoop s x y l).2) := by
  induction l generalizing s x y with
  | nil => rfl
  | cons p rest ih =>
    obtain ⟨n, m⟩ := p
    simp only [resendLoop]
    split
    · exact ih s x (n + 1) h
    · rename_i hk
      split
      · exact ih s x (n + 1) h
      · have hr := rrK_resent m hk
        split
        · have h1 : Same b (enqueueAndSend s (gapFillR s x n)) := h.of_Q (q_enqueueAndSend s _)
          rw [gapFillR_setSt, c_enqueueAndSend b s _ h, c_enqueueAndSend b _ _ h1]
          exact ih _ _ _ (h1.of_Q (q_enqueueAndSend _ _))
        · rw [c_enqueueAndSend b s _ h]
          exact ih _ _ _ (h.of_Q (q_enqueueAndSend _ _))

theorem c_resendMessages (b : SState) (s : Sess) (x y : Int) (h : Same b s) :
    resendMessages (s.setSt b) x y = (resendMessages s x y).setSt b := by
  unfold resendMessages
  reads
  simp only [c_resendLoop b s x x _ h, c_enqueueAndSend b s _ h]
  have hq := q_resendLoop s x x (s.store.range x y)
  generalize resendLoop s x x (s.store.range x y) = r at hq ⊢
  obtain ⟨s', u, v⟩ := r
  simp only [] at hq ⊢
  rw [c_enqueueAndSend b s' _ (h.of_Q hq)]
  repeat' split
  all_goals first | rfl | contradiction


/-- split an `if` and reduce every other `if` on the same condition -/
macro "isplit" : tactic => `(tactic| (split <;> (rename_i hsplit; try simp only [hsplit, ↓reduceIte, not_true_eq_false, not_false_eq_true, Bool.false_eq_true])))

macro "cfin" : tactic => `(tactic| ((repeat' split) <;> first | rfl | contradiction))

theorem c_handleLogout (b : SState) (s : Sess) (m : InMsg) (h : Same b s) :
    handleLogout (s.setSt b) m = mapSt b (handleLogout s m) := by
  unfold handleLogout
  rw [c_verifySelect b s m _ _ _ h]
  have hq := q_verifySelect s m false false true
  generalize verifySelect s m false false true = r at hq
  obtain ⟨s', o⟩ := r
  simp only [] at hq
  have h' := h.of_Q hq
  cases o with
  | some r => exact c_processReject b s' m r h'
  | none =>
    simp only [mapSt, setSt_st, h'.lo]
    have e1 : (if s'.st.loggedOn = true then sendInReplyTo (s'.setSt b) ((mkOut "5" []).inReplyTo m) else s'.setSt b)
        = (if s'.st.loggedOn = true then sendInReplyTo s' ((mkOut "5" []).inReplyTo m) else s').setSt b := by
      split
      · exact c_sendInReplyTo b s' _ h'
      · rfl
    rw [e1]
    generalize (if s'.st.loggedOn = true then sendInReplyTo s' ((mkOut "5" []).inReplyTo m) else s') = s2
    have c1 : checkTooLow (s2.setSt b) m = checkTooLow s2 m := rfl
    have c2 : checkTooHigh (s2.setSt b) m = checkTooHigh s2 m := rfl
    rw [c1, c2, setSt_cfg]
    cfin

theorem c_handleTestRequest (b : SState) (s : Sess) (m : InMsg) (h : Same b s) :
    handleTestRequest (s.setSt b) m = mapSt b (handleTestRequest s m) := by
  unfold handleTestRequest
  rw [c_verifySelect b s m _ _ _ h]
  have hq := q_verifySelect s m true true true
  generalize verifySelect s m true true true = r at hq
  obtain ⟨s', o⟩ := r
  simp only [] at hq
  have h' := h.of_Q hq
  cases o with
  | some r => exact c_processReject b s' m r h'
  | none =>
    simp only [mapSt]
    cases m.f.get? 112 with
    | none => rfl
    | some id => simp only [c_sendInReplyTo b s' _ h', c_incrTarget]

theorem c_handleSequenceReset_core (b : SState) (s : Sess) (m : InMsg) (gf : Bool) (h : Same b s) :
    (match verifySelect (s.setSt b) m gf gf true with
      | (s, some r) => processReject s m r
      | (s, none) =>
        match getInt m 36 with
        | .val n =>
          if n > s.store.target then ((s.setTarget n).emit (.setT n), SState.inSession)
          else if n < s.store.target then (doReject s m 5 none false, SState.inSession)
          else (s, SState.inSession)
        | _ => (s, SState.inSession)) =
    mapSt b (match verifySelect s m gf gf true with
      | (s, some r) => processReject s m r
      | (s, none) =>
        match getInt m 36 with
        | .val n =>
          if n > s.store.target then ((s.setTarget n).emit (.setT n), SState.inSession)
          else if n < s.store.target then (doReject s m 5 none false, SState.inSession)
          else (s, SState.inSession)
        | _ => (s, SState.inSession)) := by
  rw [c_verifySelect b s m _ _ _ h]
  have hq := q_verifySelect s m gf gf true
  generalize verifySelect s m gf gf true = r at hq
  obtain ⟨s', o⟩ := r
  simp only [] at hq
  have h' := h.of_Q hq
  cases o with
  | some r => exact c_processReject b s' m r h'
  | none =>
    simp only [mapSt, setSt_store, c_doReject b s' m _ _ _ h']
    cfin

theorem c_handleSequenceReset (b : SState) (s : Sess) (m : InMsg) (h : Same b s) :
    handleSequenceReset (s.setSt b) m = mapSt b (handleSequenceReset s m) := by
  unfold handleSequenceReset
  split
  · exact c_processReject b s m _ h
  · exact c_handleSequenceReset_core b s m _ h


theorem c_rrTail (b : SState) (s2 : Sess) (m : InMsg) :
    (if (checkTooLow (s2.setSt b) m).isSome = true then (s2.setSt b, SState.inSession)
     else if (checkTooHigh (s2.setSt b) m).isSome = true then (s2.setSt b, SState.inSession)
     else (incrTarget (s2.setSt b), SState.inSession)) =
    mapSt b (if (checkTooLow s2 m).isSome = true then (s2, SState.inSession)
     else if (checkTooHigh s2 m).isSome = true then (s2, SState.inSession)
     else (incrTarget s2, SState.inSession)) := by
  have c1 : checkTooLow (s2.setSt b) m = checkTooLow s2 m := rfl
  have c2 : checkTooHigh (s2.setSt b) m = checkTooHigh s2 m := rfl
  rw [c1, c2]
  cfin

theorem c_handleResendRequest (b : SState) (s : Sess) (m : InMsg) (h : Same b s) :
    handleResendRequest (s.setSt b) m = mapSt b (handleResendRequest s m) := by
  unfold handleResendRequest
  rw [c_verifySelect b s m _ _ _ h]
  have hq := q_verifySelect s m false false true
  generalize verifySelect s m false false true = r at hq
  obtain ⟨s', o⟩ := r
  simp only [] at hq
  have h' := h.of_Q hq
  cases o with
  | some r => exact c_processReject b s' m r h'
  | none =>
    simp only [mapSt, setSt_store, setSt_cfg, c_processReject b s' m _ h']
    cases getInt m 7 with
    | missing => rfl
    | garbled => rfl
    | val x =>
      cases getInt m 16 with
      | missing => rfl
      | garbled => rfl
      | val y =>
        have hrl : (s'.setSt b).setReplyLast (replyLastOf (s'.setSt b) m) = (s'.setReplyLast (replyLastOf s' m)).setSt b := rfl
        have h'' : Same b (s'.setReplyLast (replyLastOf s' m)) := h'.of_Q (Q.of_eq rfl rfl rfl rfl rfl rfl rfl)
        simp only [hrl, c_resendMessages b _ _ _ h'', c_rrTail, mapSt]
        rfl

/-- the state in which the acceptor decides about / builds its Logon reply -/
def hbBase (s : Sess) (m : InMsg) : Sess :=
  if (!s.cfg.hbOverride) = true then (match getInt m 108 with | .val h => s.setHb h | _ => s) else s

theorem hbBase_frame (s : Sess) (m : InMsg) : (hbBase s m).sentReset = s.sentReset ∧ (hbBase s m).st = s.st := by
  unfold hbBase; split
  · cases getInt m 108 <;> exact ⟨rfl, rfl⟩
  · exact ⟨rfl, rfl⟩

theorem hbBase_setSt (b : SState) (s : Sess) (m : InMsg) : hbBase (s.setSt b) m = (hbBase s m).setSt b := by
  unfold hbBase
  by_cases h2 : s.cfg.hbOverride = true
  · have h2' : (s.setSt b).cfg.hbOverride = true := h2
    simp only [h2, h2', Bool.not_true, Bool.false_eq_true, if_false]
  · have h2' : ¬ (s.setSt b).cfg.hbOverride = true := h2
    simp only [h2, h2', Bool.not_false, if_true]
    cases getInt m 108 <;> rfl

theorem logonReply_eq (s : Sess) (m : InMsg) (flag : Bool) :
    logonReply s m flag =
      if (!s.cfg.initiator) = true then
        (if (flag && (hbBase s m).sentReset && (hbBase s m).st.loggedOn) = true then hbBase s m else sendLogonRe (hbBase s m) flag m)
      else s := rfl

theorem c_logonReply (b : SState) (s : Sess) (m : InMsg) (flag : Bool) (h : Same b s) :
    logonReply (s.setSt b) m flag = (logonReply s m flag).setSt b := by
  rw [logonReply_eq, logonReply_eq, hbBase_setSt]
  by_cases h1 : s.cfg.initiator = true
  · have h1' : (s.setSt b).cfg.initiator = true := h1
    simp only [h1, h1', Bool.not_true, Bool.false_eq_true, if_false]
  · have h1' : ¬ (s.setSt b).cfg.initiator = true := h1
    simp only [h1, h1', Bool.not_false, if_true]
    have e : (flag && ((hbBase s m).setSt b).sentReset && ((hbBase s m).setSt b).st.loggedOn)
        = (flag && (hbBase s m).sentReset && (hbBase s m).st.loggedOn) := by
      show (flag && (hbBase s m).sentReset && b.loggedOn) = _
      rw [h.lo, (hbBase_frame s m).2]
    rw [e]
    split
    · rfl
    · exact c_sendLogonRe b _ flag m

theorem c_nxEval (b : SState) (s : Sess) (m : InMsg) (ns : Int) (h : Same b s) :
    nxEval (s.setSt b) m ns = mapSt b (nxEval s m ns) := by
  unfold nxEval mapSt
  reads
  by_cases h1 : (s.cfg.nextExpected && !(m.f.has 141)) = true
  · simp only [h1, ↓reduceIte]
    cases peerNext m with
    | none => rfl
    | some n =>
      simp only []
      by_cases h2 : (n != ns) = true
      · simp only [h2, ↓reduceIte]
        by_cases h3 : s.cfg.persist = true
        · simp only [h3, ↓reduceIte]
          rw [c_enqueueAndSend b s _ h]; rfl
        · simp only [h3, ↓reduceIte, Bool.false_eq_true]
      · simp only [h2, ↓reduceIte, Bool.false_eq_true]
  · simp only [h1, ↓reduceIte, Bool.false_eq_true]

theorem c_logonFinish (b : SState) (s : Sess) (m : InMsg) (ns : Int) (h : Same b s) :
    logonFinish (s.setSt b) m ns = mapSt b (logonFinish s m ns) := by
  unfold logonFinish
  have c2 : ∀ x : Sess, checkTooHigh (x.setSt b) m = checkTooHigh x m := fun _ => rfl
  dsimp only [setSt_setSentReset, setSt_emit, setSt_hb]
  have h' : Same b (((s.setSentReset false).emit (Obs.armPeer (1200 * s.hb))).emit Obs.onLogon) :=
    h.of_Q (((Q.of_eq (s := s) (s' := s.setSentReset false) rfl rfl rfl rfl rfl rfl rfl).trans0 (q_emit _ _ rfl)).trans0 (q_emit _ _ rfl))
  rw [c_nxEval b _ m ns h']
  generalize nxEval (((s.setSentReset false).emit (Obs.armPeer (1200 * s.hb))).emit Obs.onLogon) m ns = r
  obtain ⟨x, o⟩ := r
  cases o with
  | some r => rfl
  | none =>
    simp only [mapSt, c2]
    split <;> rfl

theorem logonRefuses_setSt (b : SState) (s : Sess) (m : InMsg) (flag : Bool) (h : Same b s) :
    logonRefuses (s.setSt b) m flag = logonRefuses s m flag := by
  have e1 : nxRefuses (s.setSt b) m = nxRefuses s m := rfl
  unfold logonRefuses
  rw [e1]
  show (!s.cfg.initiator && !(flag && s.sentReset && b.loggedOn) && nxRefuses s m) = _
  rw [h.lo]

theorem c_logonRefused (b : SState) (s : Sess) (m : InMsg) : logonRefused (s.setSt b) m = (logonRefused s m).setSt b := by
  unfold logonRefused
  reads
  by_cases h1 : (!s.cfg.initiator && !s.cfg.hbOverride) = true
  · simp only [h1, ↓reduceIte]
    cases getInt m 108 <;> rfl
  · simp only [h1, ↓reduceIte, Bool.false_eq_true]

theorem c_logonTail (b : SState) (s : Sess) (m : InMsg) (ns : Int) (h : Same b s) :
    logonTail (s.setSt b) m ns = mapSt b (logonTail s m ns) := by
  unfold logonTail
  rw [logonRefuses_setSt b s m _ h]
  by_cases h1 : logonRefuses s m (logonResetFlag m) = true
  · simp only [h1, ↓reduceIte, c_logonRefused, mapSt]
  · simp only [h1, ↓reduceIte, Bool.false_eq_true]
    rw [c_logonReply b s m _ h]
    exact c_logonFinish b _ m _ (h.of_Q (q_logonReply s m _))

/-- the part of handleLogon after the optional refresh -/
theorem c_handleLogon_tail (b : SState) (s1 : Sess) (m : InMsg) (ns : Int) (h : Same b s1) :
    (match verifyAppImpl (s1.setSt b) m with
      | (s, some r) => (s, some (LogonErr.rej r))
      | (s, none) =>
        match verifySelect (if ((if s.cfg.initiator then false else s.cfg.resetOnLogon) || (logonResetFlag m && !s.sentReset)) = true
              then dropAndReset s else s) m false true false with
        | (s, some r) => (s, some (LogonErr.rej r))
        | (s, none) => logonTail s m ns) =
    mapSt b (match verifyAppImpl s1 m with
      | (s, some r) => (s, some (LogonErr.rej r))
      | (s, none) =>
        match verifySelect (if ((if s.cfg.initiator then false else s.cfg.resetOnLogon) || (logonResetFlag m && !s.sentReset)) = true
              then dropAndReset s else s) m false true false with
        | (s, some r) => (s, some (LogonErr.rej r))
        | (s, none) => logonTail s m ns) := by
  rw [c_verifyAppImpl]
  have hv := q_verifyAppImpl s1 m
  generalize verifyAppImpl s1 m = r at hv
  obtain ⟨s2, o⟩ := r
  simp only [] at hv
  cases o with
  | some r => rfl
  | none =>
    simp only [mapSt]
    have e3 : (if ((if (s2.setSt b).cfg.initiator then false else (s2.setSt b).cfg.resetOnLogon) || (logonResetFlag m && !(s2.setSt b).sentReset)) = true
          then dropAndReset (s2.setSt b) else s2.setSt b) =
        (if ((if s2.cfg.initiator then false else s2.cfg.resetOnLogon) || (logonResetFlag m && !s2.sentReset)) = true
          then dropAndReset s2 else s2).setSt b := by
      by_cases hc : ((if s2.cfg.initiator then false else s2.cfg.resetOnLogon) || (logonResetFlag m && !s2.sentReset)) = true
      · have hc' : ((if (s2.setSt b).cfg.initiator then false else (s2.setSt b).cfg.resetOnLogon) || (logonResetFlag m && !(s2.setSt b).sentReset)) = true := hc
        rw [if_pos hc', if_pos hc]; rfl
      · have hc' : ¬ ((if (s2.setSt b).cfg.initiator then false else (s2.setSt b).cfg.resetOnLogon) || (logonResetFlag m && !(s2.setSt b).sentReset)) = true := hc
        rw [if_neg hc', if_neg hc]
    rw [e3]
    generalize hs3 : (if ((if s2.cfg.initiator then false else s2.cfg.resetOnLogon) || (logonResetFlag m && !s2.sentReset)) = true
        then dropAndReset s2 else s2) = s3
    have q3 : Q 0 s1 s3 := by rw [← hs3]; exact hv.trans0 (by q_peel)
    rw [c_verifySelect b s3 m _ _ _ (h.of_Q q3)]
    have q4 := q_verifySelect s3 m false true false
    generalize verifySelect s3 m false true false = r2 at q4
    obtain ⟨s4, o2⟩ := r2
    cases o2 with
    | some r => rfl
    | none => simp only [mapSt, c_logonTail b s4 m ns ((h.of_Q q3).of_Q q4)]

theorem c_handleLogon (b : SState) (s : Sess) (m : InMsg) (h : Same b s) :
    handleLogon (s.setSt b) m = mapSt b (handleLogon s m) := by
  unfold handleLogon
  reads
  by_cases h0 : (s.cfg.bs == 5 && !(m.f.has 1137)) = true
  · simp only [h0, ↓reduceIte]; rfl
  · simp only [h0, ↓reduceIte, Bool.false_eq_true]
    by_cases h1 : (!s.cfg.initiator && s.cfg.refreshOnLogon) = true
    · simp only [h1, ↓reduceIte]
      exact c_handleLogon_tail b (s.emit .refresh) m _ (h.of_Q (q_emit s _ rfl))
    · simp only [h1, ↓reduceIte, Bool.false_eq_true]
      exact c_handleLogon_tail b s m _ h

theorem c_inSessionFixMsgIn (b : SState) (s : Sess) (m : InMsg) (h : Same b s) :
    inSessionFixMsgIn (s.setSt b) m = mapSt b (inSessionFixMsgIn s m) := by
  unfold inSessionFixMsgIn
  simp only []
  split
  · rw [c_handleLogon b s m h]
    have hq := q_handleLogon s m
    generalize handleLogon s m = r at hq
    obtain ⟨s', o⟩ := r
    simp only [] at hq
    cases o with
    | some e => simp only [mapSt, c_sendInReplyTo b s' _ (h.of_Q hq)]
    | none => rfl
  · split
    · exact c_handleLogout b s m h
    · split
      · exact c_handleResendRequest b s m h
      · split
        · exact c_handleSequenceReset b s m h
        · split
          · exact c_handleTestRequest b s m h
          · rw [c_verifySelect b s m _ _ _ h]
            have hq := q_verifySelect s m true true true
            generalize verifySelect s m true true true = r at hq
            obtain ⟨s', o⟩ := r
            simp only [] at hq
            cases o with
            | some r => exact c_processReject b s' m r (h.of_Q hq)
            | none => rfl


theorem c_drainStash (b : SState) (fuel : Nat) (s : Sess) (stash : List (Int × InMsg)) (last : SState) (h : Same b s) :
    drainStash fuel (s.setSt b) stash last = mapSt b (drainStash fuel s stash last) := by
  induction fuel generalizing s stash last with
  | zero => rfl
  | succ n ih =>
    unfold drainStash
    reads
    split
    · rfl
    · rename_i nn mm _
      rw [c_inSessionFixMsgIn b s mm h]
      have hq := q_inSessionFixMsgIn s mm
      generalize inSessionFixMsgIn s mm = r at hq
      obtain ⟨s', nx⟩ := r
      simp only [] at hq
      show (if (!nx.loggedOn) = true then (s'.setSt b, nx, stash.filter (·.1 != nn))
            else drainStash n (s'.setSt b) (stash.filter (·.1 != nn)) nx) =
          mapSt b (if (!nx.loggedOn) = true then (s', nx, stash.filter (·.1 != nn))
            else drainStash n s' (stash.filter (·.1 != nn)) nx)
      by_cases hl : (!nx.loggedOn) = true
      · rw [if_pos hl, if_pos hl]; rfl
      · rw [if_neg hl, if_neg hl]
        exact ih _ _ _ (h.of_Q hq)

theorem c_chunkPart (b : SState) (s : Sess) (stash : List (Int × InMsg)) (fin : Int) (h : Same b s) :
    chunkPart (s.setSt b) stash fin = mapSt b (chunkPart s stash fin) := by
  simp only [chunkPart_eq, setSt_cfg, setSt_store, c_sendInReplyTo b s _ h, mapSt]

theorem c_drainPart (b : SState) (s : Sess) (nx : SState) (stash : List (Int × InMsg)) (h : Same b s) :
    drainPart (s.setSt b) nx stash = mapSt b (drainPart s nx stash) := by
  unfold drainPart
  rw [c_drainStash b _ s stash nx h, h.cr]
  generalize drainStash (stash.length + 1) s stash nx = r
  obtain ⟨s', nx', rest⟩ := r
  simp only [mapSt]
  cases nx' <;> rfl

theorem c_resendBook (b : SState) (s : Sess) (nx : SState) (stash : List (Int × InMsg)) (cur fin : Int) (m : InMsg) (h : Same b s) :
    resendBook (s.setSt b) nx stash cur fin m = mapSt b (resendBook s nx stash cur fin m) := by
  unfold resendBook
  by_cases h1 : (cur != 0 && decide (cur < s.store.target)) = true
  · have h1' : (cur != 0 && decide (cur < (s.setSt b).store.target)) = true := h1
    rw [if_pos h1', if_pos h1]; exact c_chunkPart b s stash fin h
  · have h1' : ¬ (cur != 0 && decide (cur < (s.setSt b).store.target)) = true := h1
    rw [if_neg h1', if_neg h1]
    have key : (if (gapFillFlag m && cur != 0 && cur == (s.setSt b).store.target) = true then chunkPart (s.setSt b) stash fin
          else if fin ≥ (s.setSt b).store.target then (s.setSt b, SState.resend stash cur fin) else drainPart (s.setSt b) nx stash) =
        mapSt b (if (gapFillFlag m && cur != 0 && cur == s.store.target) = true then chunkPart s stash fin
          else if fin ≥ s.store.target then (s, SState.resend stash cur fin) else drainPart s nx stash) := by
      by_cases h2 : (gapFillFlag m && cur != 0 && cur == s.store.target) = true
      · have h2' : (gapFillFlag m && cur != 0 && cur == (s.setSt b).store.target) = true := h2
        rw [if_pos h2', if_pos h2]; exact c_chunkPart b s stash fin h
      · have h2' : ¬ (gapFillFlag m && cur != 0 && cur == (s.setSt b).store.target) = true := h2
        rw [if_neg h2', if_neg h2]
        by_cases h3 : fin ≥ s.store.target
        · have h3' : fin ≥ (s.setSt b).store.target := h3
          rw [if_pos h3', if_pos h3]; rfl
        · have h3' : ¬ fin ≥ (s.setSt b).store.target := h3
          rw [if_neg h3', if_neg h3]; exact c_drainPart b s nx stash h
    cases getBool m 123 with
    | garbled => rfl
    | missing => exact key
    | val v => exact key

theorem c_sharedStash (b : SState) (s : Sess) (nx : SState) (stash : List (Int × InMsg)) (h : Same b s) :
    sharedStash (s.setSt b) nx stash = sharedStash s nx stash := by
  unfold sharedStash; rw [h.cr]

theorem c_resendFixMsgIn (b : SState) (s : Sess) (stash : List (Int × InMsg)) (cur fin : Int) (m : InMsg) (h : Same b s) :
    resendFixMsgIn (s.setSt b) stash cur fin m = mapSt b (resendFixMsgIn s stash cur fin m) := by
  rw [resendFixMsgIn_eq, resendFixMsgIn_eq, c_inSessionFixMsgIn b s m h]
  have hq := q_inSessionFixMsgIn s m
  generalize inSessionFixMsgIn s m = r at hq
  obtain ⟨s', nx⟩ := r
  simp only [] at hq
  have h' := h.of_Q hq
  show (if (!nx.loggedOn) = true then (s'.setSt b, nx)
        else resendBook (s'.setSt b) nx (sharedStash (s'.setSt b) nx stash) cur fin m) =
      mapSt b (if (!nx.loggedOn) = true then (s', nx) else resendBook s' nx (sharedStash s' nx stash) cur fin m)
  by_cases hl : (!nx.loggedOn) = true
  · rw [if_pos hl, if_pos hl]; rfl
  · rw [if_neg hl, if_neg hl, c_sharedStash b s' nx stash h', c_resendBook b s' nx _ cur fin m h']



/-! ## no handler chooses a pending state -/

def SState.isPending : SState → Bool
  | .pendingIn | .pendingResend .. => true
  | _ => false

macro "np_cases" : tactic => `(tactic| (
  (repeat' split)
  all_goals (try dsimp only)
  all_goals (repeat' split)
  all_goals (try dsimp only)
  all_goals (repeat' split)
  all_goals first | rfl | assumption))

theorem np_doTargetTooLow (s : Sess) (m : InMsg) : (doTargetTooLow s m).2.isPending = false := by
  unfold doTargetTooLow
  np_cases

theorem np_processReject (s : Sess) (m : InMsg) (r : Rej) : (processReject s m r).2.isPending = false := by
  cases r with
  | tooHigh a b => simp only [processReject]; np_cases
  | tooLow a b => exact np_doTargetTooLow s m
  | badBeginString => rfl
  | rejectLogon => rfl
  | plain a b c => simp only [processReject]; np_cases

theorem np_handleLogout (s : Sess) (m : InMsg) : (handleLogout s m).2.isPending = false := by
  unfold handleLogout
  generalize verifySelect s m false false true = r
  obtain ⟨s', o⟩ := r
  cases o with
  | some r => exact np_processReject s' m r
  | none => dsimp only; np_cases

theorem np_handleTestRequest (s : Sess) (m : InMsg) : (handleTestRequest s m).2.isPending = false := by
  unfold handleTestRequest
  generalize verifySelect s m true true true = r
  obtain ⟨s', o⟩ := r
  cases o with
  | some r => exact np_processReject s' m r
  | none => rfl

theorem np_handleSequenceReset (s : Sess) (m : InMsg) : (handleSequenceReset s m).2.isPending = false := by
  unfold handleSequenceReset
  split
  · exact np_processReject s m _
  · dsimp only
    generalize verifySelect s m _ _ true = r
    obtain ⟨s', o⟩ := r
    cases o with
    | some r => exact np_processReject s' m r
    | none => dsimp only; np_cases

theorem np_handleResendRequest (s : Sess) (m : InMsg) : (handleResendRequest s m).2.isPending = false := by
  unfold handleResendRequest
  generalize verifySelect s m false false true = r
  obtain ⟨s', o⟩ := r
  cases o with
  | some r => exact np_processReject s' m r
  | none =>
    dsimp only
    repeat' split
    all_goals (try dsimp only)
    all_goals first | rfl | exact np_processReject _ _ _

theorem np_inSessionFixMsgIn (s : Sess) (m : InMsg) : (inSessionFixMsgIn s m).2.isPending = false := by
  unfold inSessionFixMsgIn
  dsimp only
  split
  · split <;> rfl
  · split
    · exact np_handleLogout s m
    · split
      · exact np_handleResendRequest s m
      · split
        · exact np_handleSequenceReset s m
        · split
          · exact np_handleTestRequest s m
          · generalize verifySelect s m true true true = r
            obtain ⟨s', o⟩ := r
            cases o with
            | some r => exact np_processReject s' m r
            | none => rfl

theorem np_drainStash (fuel : Nat) (s : Sess) (stash : List (Int × InMsg)) (last : SState) (h : last.isPending = false) :
    (drainStash fuel s stash last).2.1.isPending = false := by
  induction fuel generalizing s stash last with
  | zero => exact h
  | succ n ih =>
    unfold drainStash
    split
    · exact h
    · rename_i nn mm _
      have := np_inSessionFixMsgIn s mm
      generalize inSessionFixMsgIn s mm = r at this
      obtain ⟨s', nx⟩ := r
      dsimp only at this ⊢
      split
      · exact this
      · exact ih _ _ _ this

theorem np_drainPart (s : Sess) (nx : SState) (stash : List (Int × InMsg)) (h : nx.isPending = false) :
    (drainPart s nx stash).2.isPending = false := by
  unfold drainPart
  have := np_drainStash (stash.length + 1) s stash nx h
  generalize drainStash (stash.length + 1) s stash nx = r at this
  obtain ⟨a, b, c⟩ := r
  dsimp only at this ⊢
  cases b <;> first | rfl | exact this

theorem np_resendFixMsgIn (s : Sess) (stash : List (Int × InMsg)) (cur fin : Int) (m : InMsg) :
    (resendFixMsgIn s stash cur fin m).2.isPending = false := by
  rw [resendFixMsgIn_eq]
  have hin := np_inSessionFixMsgIn s m
  generalize inSessionFixMsgIn s m = r at hin
  obtain ⟨s', nx⟩ := r
  dsimp only at hin ⊢
  split
  · exact hin
  · have hb := resendBook_out s' nx (sharedStash s' nx stash) cur fin m
    generalize resendBook s' nx (sharedStash s' nx stash) cur fin m = out at hb
    cases hb with
    | chunk _ _ => rfl
    | garbled _ => rfl
    | stay _ _ => rfl
    | drain _ _ => exact np_drainPart s' nx _ hin

theorem np_logonFixMsgIn (s : Sess) (m : InMsg) : (logonFixMsgIn s m).2.isPending = false := by
  unfold logonFixMsgIn shutdownWithReason
  np_cases

theorem np_fixMsgInCore (s : Sess) (m : InMsg) : (fixMsgInCore s m).2.isPending = false := by
  unfold fixMsgInCore
  split
  · rfl
  · rfl
  · exact np_logonFixMsgIn s m
  · generalize inSessionFixMsgIn s m = r
    obtain ⟨s', nx⟩ := r
    dsimp only
    split <;> rfl
  · exact np_inSessionFixMsgIn s m
  · exact np_inSessionFixMsgIn s m
  · exact np_resendFixMsgIn _ _ _ _ _
  · exact np_resendFixMsgIn _ _ _ _ _

/-! ## arming of the peer timer, the heartbeat interval -/

theorem incoming_arm (fuel : Nat) (s : Sess) (m : Option InMsg) (hc : s.st.connected = true) :
    ∃ x : Sess, incoming (fuel + 1) s m = x.emit (.armPeer (1200 * x.hb)) := by
  unfold incoming
  simp only [checkSessionTime_noop fuel s (connected_sessionTime _ hc), hc, Bool.not_true, Bool.false_eq_true, if_false]
  exact ⟨_, rfl⟩

theorem step_incoming_arm (s : Sess) (m : Option InMsg) (hc : s.st.connected = true) :
    ∃ pre, (step s (.incomingMsg m)).2.1 = pre ++ [.armPeer (1200 * (step s (.incomingMsg m)).1.hb)] := by
  obtain ⟨x, hx⟩ := incoming_arm (4 * s.clearLog.inbox.length + 7) s.clearLog m hc
  unfold step stepCore
  simp only [fuelOf_succ, hx]
  exact ⟨x.log.reverse, by simp [Sess.emit, Sess.clearLog]⟩

theorem hb_persistOut (s : Sess) (q : Int) (m : OutMsg) : (s.persistOut q m).hb = s.hb := by
  unfold Sess.persistOut; split <;> rfl
theorem hb_sendQueued (s : Sess) : (sendQueued s).hb = s.hb := by
  unfold sendQueued; split <;> rfl
theorem hb_prep (s : Sess) (m : OutMsg) : (prep s m).2.hb = s.hb := by
  unfold prep prepCore
  simp only []
  repeat' split
  all_goals first | rfl | exact hb_persistOut _ _ _
theorem hb_dropAndSend (s : Sess) (m : OutMsg) : (dropAndSend s m).hb = s.hb := by
  unfold dropAndSend
  have := hb_prep s m
  generalize prep s m = r at this
  obtain ⟨o, s'⟩ := r
  cases o with
  | none => exact this
  | some m' => simp only [hb_sendQueued]; exact this

theorem hb_verifyAppImpl (s : Sess) (m : InMsg) : (verifyAppImpl s m).1.hb = s.hb := by
  unfold verifyAppImpl
  split
  · rfl
  · dsimp only
    split <;> rfl

theorem hb_verifySelect (s : Sess) (m : InMsg) (a b c : Bool) : (verifySelect s m a b c).1.hb = s.hb := by
  unfold verifySelect
  repeat' split
  all_goals first | rfl | exact hb_verifyAppImpl s m

theorem hb_enqueueAndSend (s : Sess) (m : OutMsg) : (enqueueAndSend s m).hb = s.hb := by
  unfold enqueueAndSend
  simp only [hb_sendQueued]
  split <;> rfl

theorem hb_nxEval (s : Sess) (m : InMsg) (ns : Int) : (nxEval s m ns).1.hb = s.hb := by
  unfold nxEval
  repeat' split
  all_goals first | rfl | exact hb_enqueueAndSend _ _

theorem hb_logonFinish (s : Sess) (m : InMsg) (ns : Int) : (logonFinish s m ns).1.hb = s.hb := by
  unfold logonFinish
  have h := hb_nxEval (((s.setSentReset false).emit (.armPeer (1200 * s.hb))).emit .onLogon) m ns
  generalize nxEval _ m ns = r at h
  obtain ⟨x, o⟩ := r
  cases o with
  | some r => exact h
  | none =>
    simp only [] at h ⊢
    split <;> exact h

/-- the interval in force after the Logon reply -/
def hbAfterLogon (s : Sess) (m : InMsg) : Int :=
  if s.cfg.initiator then s.hb
  else if s.cfg.hbOverride then s.hb
  else match getInt m 108 with | .val h => h | _ => s.hb

theorem hb_logonReply (s : Sess) (m : InMsg) (flag : Bool) : (logonReply s m flag).hb = hbAfterLogon s m := by
  rw [logonReply_eq]
  unfold hbAfterLogon
  by_cases hi : s.cfg.initiator = true
  · simp [hi]
  · simp only [hi, Bool.not_false, Bool.false_eq_true, if_true, if_false]
    have hb : (hbBase s m).hb = if s.cfg.hbOverride = true then s.hb else (match getInt m 108 with | .val h => h | _ => s.hb) := by
      unfold hbBase
      by_cases ho : s.cfg.hbOverride = true
      · simp [ho]
      · simp only [ho, Bool.not_false, if_true, Bool.false_eq_true, if_false]
        cases getInt m 108 <;> rfl
    split
    · exact hb
    · unfold sendLogonRe; rw [hb_dropAndSend]; exact hb

/-- whenever `handleLogon` gets as far as the reply (accepted, or accepted with a gap), the interval in force is the
    peer's 108 for an acceptor without override, the configured one otherwise -/
theorem hb_handleLogon (s s' : Sess) (m : InMsg) (r : Option LogonErr) (h : handleLogon s m = (s', r))
    (hok : r = none ∨ ∃ n t, r = some (.rej (.tooHigh n t))) : s'.hb = hbAfterLogon s m := by
  unfold handleLogon at h
  split at h
  · simp only [Prod.mk.injEq] at h
    rcases hok with rfl | ⟨n, t, rfl⟩ <;> simp at h
  · simp only [] at h
    generalize hs1 : (if (!s.cfg.initiator && s.cfg.refreshOnLogon) = true then s.emit Obs.refresh else s) = s1 at h
    have e1 : s1.hb = s.hb ∧ s1.cfg = s.cfg := by rw [← hs1]; split <;> exact ⟨rfl, rfl⟩
    have hv := hb_verifyAppImpl s1 m
    have hq := q_verifyAppImpl s1 m
    split at h
    · rename_i s2 r' heq
      simp only [Prod.mk.injEq] at h
      have := verifyAppImpl_notHigh s1 m r' (by rw [heq])
      rcases hok with rfl | ⟨n, t, rfl⟩
      · simp at h
      · simp only [Option.some.injEq, LogonErr.rej.injEq] at h; rw [h.2] at this; cases this
    · rename_i s2 heq
      rw [heq] at hv hq
      simp only [] at hv hq h
      generalize hs3 : (if ((if s2.cfg.initiator = true then false else s2.cfg.resetOnLogon) || logonResetFlag m && !s2.sentReset) = true
          then dropAndReset s2 else s2) = s3 at h
      have e3 : s3.hb = s2.hb ∧ s3.cfg = s2.cfg := by
        rw [← hs3]
        by_cases hc : ((if s2.cfg.initiator = true then false else s2.cfg.resetOnLogon) || logonResetFlag m && !s2.sentReset) = true
        · rw [if_pos hc]; exact ⟨rfl, rfl⟩
        · rw [if_neg hc]; exact ⟨rfl, rfl⟩
      have hv2 := hb_verifySelect s3 m false true false
      have hq2 := q_verifySelect s3 m false true false
      split at h
      · rename_i s4 r' heq2
        simp only [Prod.mk.injEq] at h
        have := verifySelect_notHigh s3 m true false r' (by rw [heq2])
        rcases hok with rfl | ⟨n, t, rfl⟩
        · simp at h
        · simp only [Option.some.injEq, LogonErr.rej.injEq] at h; rw [h.2] at this; cases this
      · rename_i s4 heq2
        rw [heq2] at hv2 hq2
        simp only [] at hv2 hq2
        unfold logonTail at h
        split at h
        · simp only [Prod.mk.injEq] at h
          rcases hok with rfl | ⟨n, t, rfl⟩ <;> simp at h
        have hfin := hb_logonFinish (logonReply s4 m (logonResetFlag m)) m s.store.sender
        rw [h] at hfin
        simp only [] at hfin
        rw [hfin, hb_logonReply]
        unfold hbAfterLogon
        rw [hq2.cfg, e3.2, hq.cfg, e1.2, hv2, e3.1, hv, e1.1]

theorem C20Active.loggedOn {st : SState} (h : C20Active st) : st.loggedOn = true := by
  rcases h with h | ⟨a, b, c, h⟩ <;> rw [h] <;> rfl
theorem C20Pending.loggedOn {st : SState} (h : C20Pending st) : st.loggedOn = true := by
  rcases h with h | ⟨a, b, c, h⟩ <;> rw [h] <;> rfl

theorem pendingOf_connected (st : SState) (h : C20Active st) : (pendingOf st).connected = true := by
  rcases h with h | ⟨a, b, c, h⟩ <;> rw [h] <;> rfl


/-! ## the whole `Incoming` event does not depend on the pending wrapper -/

def finishDisc (d : Sess) (nx : SState) : Sess :=
  (if d.closeInbox.pendingStop then d.closeInbox.setStopped else d.closeInbox).setSt nx

theorem setState_disc_nil (fuel : Nat) (s : Sess) (nx : SState) (hn : nx.connected = false) (hc : s.st.connected = true)
    (hi : s.inbox = []) : setState (fuel + 1) s nx = finishDisc (discMid s) nx := by
  unfold setState finishDisc
  simp only [hn, Bool.not_false, if_true, hc]
  rw [drainIn_nil fuel s hi, drainIn_nil fuel _ (by rw [discMid_inbox]; exact hi)]

theorem finishDisc_setSt (d : Sess) (b nx : SState) : finishDisc (d.setSt b) nx = finishDisc d nx := by
  unfold finishDisc
  show (if d.closeInbox.pendingStop = true then (d.closeInbox.setSt b).setStopped else d.closeInbox.setSt b).setSt nx = _
  split <;> rfl

set_option linter.unusedSimpArgs false in
/-- for the logout notification only `loggedOn` matters when neither tag is `logout` / `logon` -/
theorem discMid_setSt (s : Sess) (b : SState) (hl : b.loggedOn = true) (hs : s.st.loggedOn = true) :
    discMid (s.setSt b) = (discMid s).setSt b := by
  unfold discMid
  have h1 : (s.setSt b).st.loggedOn = true := hl
  simp only [h1, hs, Bool.true_or, if_true]
  have e1 : ((s.setSt b).emit Obs.onLogout).cfg.resetOnDisconnect = s.cfg.resetOnDisconnect := rfl
  have e2 : (s.emit Obs.onLogout).cfg.resetOnDisconnect = s.cfg.resetOnDisconnect := rfl
  by_cases hr : s.cfg.resetOnDisconnect = true
  · have hr1 : ((s.setSt b).emit Obs.onLogout).cfg.resetOnDisconnect = true := hr
    have hr2 : (s.emit Obs.onLogout).cfg.resetOnDisconnect = true := hr
    simp only [hr1, hr2, ↓reduceIte, Bool.false_eq_true]
    by_cases ho : s.out = true
    · have ho1 : (dropAndReset ((s.setSt b).emit Obs.onLogout)).out = true := ho
      have ho2 : (dropAndReset (s.emit Obs.onLogout)).out = true := ho
      simp only [ho1, ho2, ↓reduceIte, Bool.false_eq_true]; rfl
    · have ho1 : ¬ (dropAndReset ((s.setSt b).emit Obs.onLogout)).out = true := ho
      have ho2 : ¬ (dropAndReset (s.emit Obs.onLogout)).out = true := ho
      simp only [ho1, ho2, ↓reduceIte, Bool.false_eq_true]; rfl
  · have hr1 : ¬ ((s.setSt b).emit Obs.onLogout).cfg.resetOnDisconnect = true := hr
    have hr2 : ¬ (s.emit Obs.onLogout).cfg.resetOnDisconnect = true := hr
    simp only [hr1, hr2, ↓reduceIte, Bool.false_eq_true]
    by_cases ho : s.out = true
    · have ho1 : ((s.setSt b).emit Obs.onLogout).out = true := ho
      have ho2 : (s.emit Obs.onLogout).out = true := ho
      simp only [ho1, ho2, ↓reduceIte, Bool.false_eq_true]; rfl
    · have ho1 : ¬ ((s.setSt b).emit Obs.onLogout).out = true := ho
      have ho2 : ¬ (s.emit Obs.onLogout).out = true := ho
      simp only [ho1, ho2, ↓reduceIte, Bool.false_eq_true]; rfl


theorem fuelOf_setSt (s : Sess) (b : SState) : fuelOf (s.setSt b) = fuelOf s := rfl

/-- `Incoming(m)` gives the same event on `s` and on `s` re-tagged `b`, provided the handler result is the same up to the
    tag, both tags are logged-on ones, and — when the handler ends the session — nothing is buffered -/
theorem step_incoming_retag (s : Sess) (m : InMsg) (b : SState) (hl : s.st.loggedOn = true) (hb : b.loggedOn = true)
    (key : fixMsgInCore (s.clearLog.setSt b) m = ((fixMsgInCore s.clearLog m).1.setSt b, (fixMsgInCore s.clearLog m).2))
    (hfr : (fixMsgInCore s.clearLog m).1.st = s.st ∧ (fixMsgInCore s.clearLog m).1.inbox = s.inbox)
    (hnx : (fixMsgInCore s.clearLog m).2.connected = true ∨ s.inbox = []) :
    step (s.setSt b) (.incomingMsg (some m)) = step s (.incomingMsg (some m)) := by
  have hc : s.clearLog.st.connected = true := loggedOn_connected _ hl
  have hcb : (s.clearLog.setSt b).st.connected = true := loggedOn_connected _ hb
  unfold step stepCore
  have e0 : (s.setSt b).clearLog = s.clearLog.setSt b := rfl
  rw [e0, fuelOf_setSt]
  simp only [fuelOf_succ]
  rw [incoming_some _ _ _ hc, incoming_some _ _ _ hcb, key]
  generalize fixMsgInCore s.clearLog m = r at hfr hnx
  obtain ⟨s1, nx⟩ := r
  dsimp only at hfr hnx ⊢
  have hset : setState (4 * s.clearLog.inbox.length + 6 + 1) (s1.setSt b) nx = setState (4 * s.clearLog.inbox.length + 6 + 1) s1 nx := by
    by_cases hn : nx.connected = true
    · rw [setState_connected _ _ _ hn, setState_connected _ _ _ hn]; rfl
    · have hn' : nx.connected = false := by simpa using hn
      have hi : s.inbox = [] := by rcases hnx with h | h; exact absurd h hn; exact h
      have hl1 : s1.st.loggedOn = true := by rw [hfr.1]; exact hl
      rw [setState_disc_nil _ _ _ hn' (loggedOn_connected _ hb) (by show s1.inbox = []; rw [hfr.2]; exact hi),
        setState_disc_nil _ _ _ hn' (loggedOn_connected _ hl1) (by rw [hfr.2]; exact hi),
        discMid_setSt s1 b hb hl1, finishDisc_setSt]
  have e7 : 4 * s.clearLog.inbox.length + 7 = 4 * s.clearLog.inbox.length + 6 + 1 := rfl
  rw [e7, hset]

end Qfx.Sess
