/-
  Declarative side of the any-depth dictionary-guided parse: member-field sequences that are WELL NESTED w.r.t. the dictionary
  (`GroupWalk`, defined from the dictionary alone) over a dictionary tree whose levels do not share tags (`TreeOK`) are exactly walked
  by the fixed `parseGroup` (`groupWalk_walkN`), hence satisfy the parser-side conditions `SegOKN` (`segOKN_of_wellnested`).
-/
import Qfx.Lemmas.CodecDictStack
namespace Qfx
open Qfx.Spec

variable {d : Dicts}

/-- `C'` is the member list of a repeating group nested (at any depth) inside the member list `C` -/
inductive Below : List DNode → List DNode → Prop where
  | child {C C' : List DNode} {t : Tag} : groupOf C t = some C' → Below C C'
  | step {C C' C'' : List DNode} {t : Tag} : groupOf C t = some C' → Below C' C'' → Below C C''

theorem Below.trans {A B C : List DNode} (h1 : Below A B) (h2 : Below B C) : Below A C := by
  induction h1 with
  | child hg => exact .step hg h2
  | step hg _ ih => exact .step hg (ih h2)

/-- the dictionary's tree under `C`: no tag is listed both at a level and at a level nested inside it, and no listed tag is a
    header / trailer field or a top-level repeating group of the application dictionary -/
def TreeOK (d : Dicts) (C : List DNode) : Prop :=
  ∀ C1, (C1 = C ∨ Below C C1) → ∀ t, isGroupMember t C1 = true →
    (isHeaderField d t = false ∧ isTrailerField d t = false ∧ NoGroupTag d t) ∧ ∀ C2, Below C1 C2 → isGroupMember t C2 = false

theorem TreeOK.below {C C' : List DNode} (h : TreeOK d C) (hb : Below C C') : TreeOK d C' := by
  intro C1 h1 t ht
  rcases h1 with e | e
  · subst e; exact h _ (Or.inr hb) t ht
  · exact h C1 (Or.inr (hb.trans e)) t ht

/-- a WELL-NESTED member-field sequence for the member list `C`, described from the dictionary alone: leaf members of `C`, and count
    fields of groups nested in `C` each followed by a well-nested sequence for that group's member list -/
inductive GroupWalk : List DNode → List TagValue → Prop where
  | nil (C : List DNode) : GroupWalk C []
  | leaf {C : List DNode} {tv : TagValue} {r : List TagValue} : IsWire tv → isGroupMember tv.tag C = true → groupOf C tv.tag = none →
      GroupWalk C r → GroupWalk C (tv :: r)
  | nest {C CN : List DNode} {tv : TagValue} {MN r : List TagValue} : IsWire tv → groupOf C tv.tag = some CN →
      GroupWalk CN MN → GroupWalk C r → GroupWalk C (tv :: (MN ++ r))

theorem WalkN.trans {a b c : List Level} {M1 M2 : List TagValue} (h1 : WalkN d a M1 b) (h2 : WalkN d b M2 c) : WalkN d a (M1 ++ M2) c := by
  induction h1 with
  | nil s => simpa using h2
  | step hw hs hst _ ih => exact .step hw hs hst (ih h2)

theorem lastGf_append_ne (st0 : List Level) : ∀ (ext : List Level), ext ≠ [] → lastGf (st0 ++ ext) = lastGf ext := by
  induction st0 with
  | nil => intro ext _; rfl
  | cons a r ih =>
    intro ext hne
    cases hr : r ++ ext with
    | nil =>
      have : ext = [] := by
        cases r with
        | nil => simpa using hr
        | cons x y => simp at hr
      exact absurd this hne
    | cons b1 b2 =>
      have := ih ext hne
      simp only [List.cons_append, hr, lastGf] at this ⊢
      exact this

theorem lastGf_mem (ext : List Level) (hne : ext ≠ []) : ∃ l ∈ ext, lastGf ext = l.2 := by
  induction ext with
  | nil => exact absurd rfl hne
  | cons a r ih =>
    cases r with
    | nil => exact ⟨a, by simp, rfl⟩
    | cons b1 b2 =>
      obtain ⟨l, hl, e⟩ := ih (by simp)
      exact ⟨l, by simp only [List.mem_cons] at hl ⊢; exact Or.inr hl, by simpa [lastGf] using e⟩

/-- popping finds the nearest level that lists the tag: here the levels `er` (reversed extension) do not, the last level of `st0` does -/
theorem popSpecRev_ext (t : Tag) (p : Level) (q : List Level) (hp : isGroupMember t p.2 = true) :
    ∀ (er : List Level), er ≠ [] → (∀ l ∈ er, isGroupMember t l.2 = false) →
      popSpecRev t (er ++ p :: q) = some (p :: q).reverse := by
  intro er
  induction er with
  | nil => intro h; exact absurd rfl h
  | cons x r ih =>
    intro _ hall
    cases r with
    | nil =>
      simp only [List.cons_append, List.nil_append]
      rw [popSpecRev_cons2, hp]; rfl
    | cons y r2 =>
      have hy : isGroupMember t y.2 = false := hall y (by simp)
      simp only [List.cons_append] at ih ⊢
      rw [popSpecRev_cons2, hy]
      simp only [Bool.false_eq_true, if_false]
      exact ih (by simp) (fun l hl => hall l (by simp only [List.mem_cons] at hl ⊢; exact Or.inr hl))

/-- a field listed at the last level of `st0` (and at no level of the extension) brings the stack back to `st0`, or to the nested
    group it starts there -/
theorem stepSpec_reenter (t : Tag) (st0 ext : List Level) (h0 : st0 ≠ []) (hm : isGroupMember t (lastGf st0) = true)
    (hext : ∀ l ∈ ext, isGroupMember t l.2 = false) :
    stepSpec (st0 ++ ext) t = (match groupOf (lastGf st0) t with | some c => some (st0 ++ [(t, c)]) | none => some st0) := by
  cases ext with
  | nil => simp only [List.append_nil, stepSpec, hm, if_true]; rfl
  | cons x r =>
    have hlast : isGroupMember t (lastGf (st0 ++ x :: r)) = false := by
      rw [lastGf_append_ne st0 (x :: r) (by simp)]
      obtain ⟨l, hl, e⟩ := lastGf_mem (x :: r) (by simp)
      rw [e]; exact hext l hl
    obtain ⟨p, q, hpq⟩ : ∃ p q, st0.reverse = p :: q := by
      cases hr : st0.reverse with
      | nil => exact absurd (List.reverse_eq_nil_iff.1 hr) h0
      | cons p q => exact ⟨p, q, rfl⟩
    have hst0 : st0 = (p :: q).reverse := by rw [← hpq, List.reverse_reverse]
    have hp : isGroupMember t p.2 = true := by rw [hst0, lastGf_reverse_cons] at hm; exact hm
    have hpop : popSpecRev t (st0 ++ x :: r).reverse = some st0 := by
      rw [List.reverse_append, hpq, hst0]
      exact popSpecRev_ext t p q hp (x :: r).reverse (by simp) (fun l hl => hext l (by simp only [List.mem_reverse] at hl; exact hl))
    simp only [stepSpec, hlast, Bool.false_eq_true, if_false, hpop]
    rfl

theorem popSpecRev_none (t : Tag) : ∀ (rs : List Level), (∀ l ∈ rs, isGroupMember t l.2 = false) → popSpecRev t rs = none := by
  intro rs
  induction rs with
  | nil => intro _; rfl
  | cons x r ih =>
    intro h
    cases r with
    | nil => rfl
    | cons p r2 =>
      rw [popSpecRev_cons2, h p (by simp)]
      simp only [Bool.false_eq_true, if_false]
      exact ih (fun l hl => h l (by simp only [List.mem_cons] at hl ⊢; exact Or.inr hl))

/-- a field that no level of the stack lists ends the group -/
theorem stepSpec_exit (t : Tag) (st : List Level) (h : ∀ l ∈ st, isGroupMember t l.2 = false) : stepSpec st t = none := by
  have hlast : isGroupMember t (lastGf st) = false := by
    cases st with
    | nil => rfl
    | cons a r => obtain ⟨l, hl, e⟩ := lastGf_mem (a :: r) (by simp); rw [e]; exact h l hl
  simp only [stepSpec, hlast, Bool.false_eq_true, if_false, popSpecRev_none t st.reverse (fun l hl => h l (by simpa using hl))]

theorem groupOf_isMember {C : List DNode} {t : Tag} {c : List DNode} (h : groupOf C t = some c) : isGroupMember t C = true := by
  obtain ⟨n, hn, _, _⟩ := groupOf_some h
  exact dfind_isMember C t n hn

/-- WELL-NESTED SEQUENCES ARE PARSED ALONG THEIR NESTING: from any stack `st0 ++ ext` (the extension left over from deeper levels)
    the fixed `parseGroup` walks a well-nested sequence for the last level of `st0` and ends in `st0 ++ ext'` -/
theorem groupWalk_walkN {C : List DNode} {M : List TagValue} (hw : GroupWalk C M) :
    ∀ (st0 ext : List Level), st0 ≠ [] → lastGf st0 = C → TreeOK d C → (∀ l ∈ ext, Below C l.2) →
    ∃ ext', (∀ l ∈ ext', Below C l.2) ∧ WalkN d (st0 ++ ext) M (st0 ++ ext') := by
  induction hw with
  | nil C => intro st0 ext _ _ _ hext; exact ⟨ext, hext, .nil _⟩
  | @leaf C tv r hwire hmem hleaf _ ih =>
    intro st0 ext h0 hl htree hext
    have hside := (htree C (Or.inl rfl) tv.tag hmem)
    have hstep : stepSpec (st0 ++ ext) tv.tag = some st0 := by
      rw [stepSpec_reenter tv.tag st0 ext h0 (by rw [hl]; exact hmem) (fun l hl' => hside.2 l.2 (hext l hl')), hl, hleaf]
    obtain ⟨ext', he', hw'⟩ := ih st0 [] h0 hl htree (by intro l h; cases h)
    refine ⟨ext', he', .step hwire (fun _ => hside.1) hstep ?_⟩
    simpa using hw'
  | @nest C CN tv MN r hwire hg _ _ ih1 ih2 =>
    intro st0 ext h0 hl htree hext
    have hmem := groupOf_isMember hg
    have hside := (htree C (Or.inl rfl) tv.tag hmem)
    have hstep : stepSpec (st0 ++ ext) tv.tag = some (st0 ++ [(tv.tag, CN)]) := by
      rw [stepSpec_reenter tv.tag st0 ext h0 (by rw [hl]; exact hmem) (fun l hl' => hside.2 l.2 (hext l hl')), hl, hg]
    have hbelow : Below C CN := .child hg
    obtain ⟨ext1, he1, hw1⟩ := ih1 (st0 ++ [(tv.tag, CN)]) [] (by simp) (lastGf_snoc st0 _) (htree.below hbelow) (by intro l h; cases h)
    obtain ⟨ext', he', hw2⟩ := ih2 st0 ([(tv.tag, CN)] ++ ext1) h0 hl htree (by
      intro l hl'
      simp only [List.mem_append, List.mem_singleton] at hl'
      rcases hl' with e | e
      · subst e; exact hbelow
      · exact hbelow.trans (he1 l e))
    refine ⟨ext', he', .step hwire (fun _ => hside.1) hstep ?_⟩
    have hw1' : WalkN d (st0 ++ [(tv.tag, CN)]) MN (st0 ++ ([(tv.tag, CN)] ++ ext1)) := by simpa [List.append_assoc] using hw1
    exact hw1'.trans hw2

/-- a run whose group's member fields are well nested w.r.t. the dictionary satisfies the parser-side conditions -/
theorem segOKN_of_wellnested {mt : Bytes} {fs : List DNode} (s : Seg) (C : List DNode)
    (hpre : PlainFields d s.pre) (hgC : groupOf fs s.g0.tag = some C) (hM : GroupWalk C s.M) (htree : TreeOK d C)
    (hzC : isGroupMember s.z0.tag C = false) (hzB : ∀ C', Below C C' → isGroupMember s.z0.tag C' = false)
    (wg0 : IsWire s.g0) (gh : isHeaderField d s.g0.tag = false) (gt : isTrailerField d s.g0.tag = false)
    (z : PlainFields d [s.z0]) (zh : isHeaderField d s.z0.tag = false) (zt : isTrailerField d s.z0.tag = false) :
    SegOKN d mt fs s := by
  obtain ⟨ext', he', hw⟩ := groupWalk_walkN (d := d) hM [(s.g0.tag, C)] [] (by simp) rfl htree (by intro l h; cases h)
  refine ⟨hpre, ⟨C, [(s.g0.tag, C)] ++ ext', hgC, by simpa using hw, ?_⟩, wg0, gh, gt, z, zh, zt⟩
  apply stepSpec_exit
  intro l hl
  simp only [List.mem_append, List.mem_singleton] at hl
  rcases hl with e | e
  · subst e; exact hzC
  · exact hzB l.2 (he' l e)


/-- a run described from the dictionary alone: plain fields, the count field of a group `G` of the message type's field list `fs`, a
    well-nested member sequence for `G`'s member list over a tag-disjoint tree, and a plain body field listed nowhere in that tree -/
structure SegNested (d : Dicts) (fs : List DNode) (s : Seg) : Prop where
  pre : PlainFields d s.pre
  grp : ∃ C, groupOf fs s.g0.tag = some C ∧ GroupWalk C s.M ∧ TreeOK d C ∧ isGroupMember s.z0.tag C = false ∧
          ∀ C', Below C C' → isGroupMember s.z0.tag C' = false
  wg0 : IsWire s.g0
  gh : isHeaderField d s.g0.tag = false
  gt : isTrailerField d s.g0.tag = false
  z : PlainFields d [s.z0]
  zh : isHeaderField d s.z0.tag = false
  zt : isTrailerField d s.z0.tag = false

theorem SegNested.ok {mt : Bytes} {fs : List DNode} {s : Seg} (h : SegNested d fs s) : SegOKN d mt fs s := by
  obtain ⟨C, hgC, hM, htree, hzC, hzB⟩ := h.grp
  exact segOKN_of_wellnested s C h.pre hgC hM htree hzC hzB h.wg0 h.gh h.gt h.z h.zh h.zt

end Qfx
