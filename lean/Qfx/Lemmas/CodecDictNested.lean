import Qfx.Lemmas.CodecDictGroup
namespace Qfx
open Qfx.Spec

variable {d : Dicts}

/-- a member field inside `parseGroup` that does not start a nested group (any tag stack) -/
theorem parseLoop_member_gen (fields : List TagValue) (idx j : Nat) (c : PCore) (tv : TagValue) (raw' : Bytes) (tags : List Tag) (gf : List DNode)
    (hidx : idx < fields.length) (hex : extractField c.rawBytes = (raw', .ok tv))
    (hmem : isGroupMember tv.tag gf = true)
    (hnum : isNumInGroupField d (fields.set idx tv) c.header (tags ++ [tv.tag]) = false) :
    parseLoop Fixes.cur d (.grp j tags gf) fields idx c =
      parseLoop Fixes.cur d (.grp j tags gf) (fields.set idx tv) (idx + 1) { c with rawBytes := raw', trailerBytes := raw' } := by
  rw [parseLoop]
  simp only [hidx, dite_true, hex]
  simp only [grpSwitch, hmem, hnum, Fixes.cur, if_true, Bool.false_eq_true, if_false]

/-- a member field that starts a nested group: the tag stack grows -/
theorem parseLoop_nested_start (fields : List TagValue) (idx j : Nat) (c : PCore) (tv : TagValue) (raw' : Bytes) (tags : List Tag) (gf gfN : List DNode)
    (hidx : idx < fields.length) (hex : extractField c.rawBytes = (raw', .ok tv))
    (hmem : isGroupMember tv.tag gf = true)
    (hnum : isNumInGroupField d (fields.set idx tv) c.header (tags ++ [tv.tag]) = true)
    (hgf : getGroupFields d (fields.set idx tv) c.header (tags ++ [tv.tag]) = gfN) :
    parseLoop Fixes.cur d (.grp j tags gf) fields idx c =
      parseLoop Fixes.cur d (.grp j (tags ++ [tv.tag]) gfN) (fields.set idx tv) (idx + 1) { c with rawBytes := raw', trailerBytes := raw' } := by
  rw [parseLoop]
  simp only [hidx, dite_true, hex]
  simp only [grpSwitch, hmem, hnum, hgf, Fixes.cur, if_true]

theorem parseLoop_members_gen (t35 : TagValue) (j : Nat) (tags : List Tag) (gf : List DNode) :
    ∀ (M : List TagValue) (fields : List TagValue) (idx : Nat) (c : PCore) (tail : Bytes),
    (∀ tv ∈ M, IsWire tv ∧ isGroupMember tv.tag gf = true ∧
      ∀ fields hd, MTInv fields hd t35 → isNumInGroupField d fields hd (tags ++ [tv.tag]) = false) → MTInv fields c.header t35 → 3 ≤ idx →
    c.rawBytes = wireOf M ++ tail → idx + M.length ≤ fields.length →
    parseLoop Fixes.cur d (.grp j tags gf) fields idx c =
      parseLoop Fixes.cur d (.grp j tags gf) (setRange fields idx M) (idx + M.length) (memState c M tail) := by
  intro M
  induction M with
  | nil => intro fields idx c tail _ _ _ _ _; simp [setRange, memState]
  | cons tv r ih =>
    intro fields idx c tail hM hmt hi hraw hlen
    have htv := hM tv (by simp)
    have hex : extractField c.rawBytes = (wireOf r ++ tail, .ok tv) := by
      rw [hraw]
      have : wireOf (tv :: r) ++ tail = tv.bytes ++ (wireOf r ++ tail) := by simp [wireOf, List.append_assoc]
      rw [this]; exact extractField_wire tv _ htv.1
    have hlen' : idx < fields.length := by simp at hlen; omega
    have hmt' : MTInv (fields.set idx tv) c.header t35 := hmt.set idx tv hi
    rw [parseLoop_member_gen fields idx j c tv _ tags gf hlen' hex htv.2.1 (htv.2.2 _ _ hmt')]
    rw [ih (fields.set idx tv) (idx + 1) { c with rawBytes := wireOf r ++ tail, trailerBytes := wireOf r ++ tail } tail
      (fun x hx => hM x (by simp [hx])) hmt' (by omega) rfl (by simp at hlen ⊢; omega)]
    have e : idx + 1 + r.length = idx + (tv :: r).length := by simp; omega
    simp only [setRange, e]
    congr 1
    cases r with
    | nil => simp [memState, wireOf]
    | cons y ys => simp [memState]

/-- the first field behind a NESTED group that belongs to no enclosing group: the whole group is closed (after the fix of D6) -/
theorem parseLoop_exit_nested_body {mt : Bytes} {G N : Tag} {C CN : List DNode} (hg : NestedGroup d mt G N C CN)
    (fields : List TagValue) (idx j : Nat) (c : PCore) (tv g0 t35 : TagValue) (raw' : Bytes)
    (hidx : idx < fields.length) (hmt : MTInv (fields.set idx tv) c.header t35) (hv : t35.value = mt)
    (hj : (fields.set idx tv)[j]? = some g0) (hex : extractField c.rawBytes = (raw', .ok tv))
    (hmN : isGroupMember tv.tag CN = false) (hmC : isGroupMember tv.tag C = false)
    (hh : isHeaderField d tv.tag = false) (ht : isTrailerField d tv.tag = false)
    (hng : NoGroupTag d tv.tag) (h10 : tv.tag ≠ 10) (h212 : tv.tag ≠ 212) :
    parseLoop Fixes.cur d (.grp j [G, N] CN) fields idx c =
      parseLoop Fixes.cur d .main (fields.set idx tv) (idx + 1)
        (ndTail { c with rawBytes := raw', trailerBytes := raw',
                         body := (c.body.add g0.tag (.view j (idx - j))).add tv.tag (.view idx 1) }) := by
  rw [parseLoop]
  simp only [hidx, dite_true, hex]
  have hsw := grpSwitch_fixed_exits hg (fields.set idx tv) idx j { c with rawBytes := raw' } tv g0 t35 hmt hv hj hmN hmC hh ht hng
  simp only [hsw, tailStep_nd _ _ _ h10 h212]


/-! ### dictionary walks for the nested structure -/

theorem nested_member_leaf {mt : Bytes} {G N : Tag} {C CN : List DNode} (hg : NestedGroup d mt G N C CN) (t35 : TagValue)
    (hv : t35.value = mt) (t : Tag) (hleaf : pathWalk C [t] = none) (fields : List TagValue) (hd : FieldMap) (hmt : MTInv fields hd t35) :
    isNumInGroupField d fields hd ([G] ++ [t]) = false := by
  obtain ⟨msgs, fs, nG, nN, hap, hfs, hnG, hcG, hnN, hcN⟩ := hg.defd
  have hmf : msgFields d fields hd = some fs := by simp only [msgFields, hap, hmt.getBytes, hv, hfs]
  have : pathWalk fs [G, t] = none := by simp only [pathWalk, hnG, hcG]; exact hleaf
  simp [isNumInGroupField, hmf, this]

theorem nested_start_walk {mt : Bytes} {G N : Tag} {C CN : List DNode} (hg : NestedGroup d mt G N C CN) (t35 : TagValue)
    (hv : t35.value = mt) (fields : List TagValue) (hd : FieldMap) (hmt : MTInv fields hd t35) :
    isNumInGroupField d fields hd ([G] ++ [N]) = true ∧ getGroupFields d fields hd ([G] ++ [N]) = CN := by
  obtain ⟨msgs, fs, nG, nN, hap, hfs, hnG, hcG, hnN, hcN⟩ := hg.defd
  have hmf : msgFields d fields hd = some fs := by simp only [msgFields, hap, hmt.getBytes, hv, hfs]
  have hne : nN.children.isEmpty = false := by rw [hcN]; exact hg.neN
  have hCNne : CN ≠ [] := by intro e; rw [e] at hg; exact absurd hg.neN (by simp)
  have hw : pathWalk fs [G, N] = some CN := by
    simp only [pathWalk, hnG, hcG, hnN, hne, hcN]; simp [hCNne]
  exact ⟨by simp [isNumInGroupField, hmf, hw], by simp [getGroupFields, hmf, hw]⟩

theorem nested_inner_leaf {mt : Bytes} {G N : Tag} {C CN : List DNode} (hg : NestedGroup d mt G N C CN) (t35 : TagValue)
    (hv : t35.value = mt) (t : Tag) (fields : List TagValue) (hd : FieldMap) (hmt : MTInv fields hd t35) :
    isNumInGroupField d fields hd ([G, N] ++ [t]) = false := by
  obtain ⟨msgs, fs, nG, nN, hap, hfs, hnG, hcG, hnN, hcN⟩ := hg.defd
  have hmf : msgFields d fields hd = some fs := by simp only [msgFields, hap, hmt.getBytes, hv, hfs]
  have : pathWalk fs [G, N, t] = none := by
    simp only [pathWalk, hnG, hcG, hnN, hcN]
    exact dfind_leaf_none CN hg.leavesN t
  simp [isNumInGroupField, hmf, this]


theorem dfind_isMember (C : List DNode) (t : Tag) (n : DNode) (h : dfind C t = some n) : isGroupMember t C = true := by
  induction C generalizing n with
  | nil => simp [dfind] at h
  | cons x r ih =>
    simp only [dfind] at h
    cases hr : dfind r t with
    | some y => rw [hr] at h; simp [isGroupMember, List.any_cons] at ih ⊢; exact Or.inr (ih _ hr)
    | none =>
      rw [hr] at h
      by_cases hx : x.tag = t
      · simp [isGroupMember, List.any_cons, hx]
      · simp [hx] at h

/-- from the start of the main loop to the end of the NESTED group's members:
    `plain…, G=<n>, leaf members of G…, N=<k>, members of N…` -/
theorem parse_to_nested {mt : Bytes} {G N : Tag} {C CN : List DNode} (hg : NestedGroup d mt G N C CN)
    (t8 t9 t35 g0 n0 : TagValue) (preA M1 MN : List TagValue) (Z : Bytes) (f0 : List TagValue)
    (hv : t35.value = mt) (h35 : t35.tag = 35) (h9 : t9.tag = 9) (h8 : t8.tag = 8)
    (hpre : PlainFields d preA) (hg0 : IsWire g0) (hG : g0.tag = G)
    (hGh : isHeaderField d G = false) (hGt : isTrailerField d G = false)
    (hM1 : ∀ tv ∈ M1, IsWire tv ∧ isGroupMember tv.tag C = true ∧ pathWalk C [tv.tag] = none)
    (hn0 : IsWire n0) (hN : n0.tag = N)
    (hMN : ∀ tv ∈ MN, IsWire tv ∧ isGroupMember tv.tag CN = true)
    (hf2 : f0[2]? = some t35) (hlen : 3 + preA.length + 1 + M1.length + 1 + MN.length ≤ f0.length) :
    ∃ cM : PCore,
      parseLoop Fixes.cur d .main f0 3 (ndInit t8 t9 t35 (wireOf preA ++ (g0.bytes ++ (wireOf M1 ++ (n0.bytes ++ (wireOf MN ++ Z)))))) =
        parseLoop Fixes.cur d (.grp (3 + preA.length) [G, N] CN) (setRange f0 3 (preA ++ g0 :: (M1 ++ n0 :: MN)))
          (3 + preA.length + 1 + M1.length + 1 + MN.length) cM ∧
      cM.header = (runNDD d 3 preA (g0.bytes ++ (wireOf M1 ++ (n0.bytes ++ (wireOf MN ++ Z)))) (ndInit t8 t9 t35 (wireOf preA ++ (g0.bytes ++ (wireOf M1 ++ (n0.bytes ++ (wireOf MN ++ Z))))))).header ∧
      cM.body = (runNDD d 3 preA (g0.bytes ++ (wireOf M1 ++ (n0.bytes ++ (wireOf MN ++ Z)))) (ndInit t8 t9 t35 (wireOf preA ++ (g0.bytes ++ (wireOf M1 ++ (n0.bytes ++ (wireOf MN ++ Z))))))).body ∧
      cM.xmlDataLen = 0 ∧ cM.xmlDataMsg = false ∧ cM.rawBytes = Z := by
  generalize hc0 : ndInit t8 t9 t35 (wireOf preA ++ (g0.bytes ++ (wireOf M1 ++ (n0.bytes ++ (wireOf MN ++ Z))))) = c0
  have hraw0 : c0.rawBytes = wireOf preA ++ (g0.bytes ++ (wireOf M1 ++ (n0.bytes ++ (wireOf MN ++ Z)))) := by rw [← hc0]; rfl
  have hx0 : c0.xmlDataLen = 0 := by rw [← hc0]; rfl
  have hxm0 : c0.xmlDataMsg = false := by rw [← hc0]; rfl
  have h35find0 : alFind c0.header.lookup 35 = some (.view 2 1) := by
    rw [← hc0]; simp [ndInit, FieldMap.add, FieldMap.empty, alInsert, alFind, h8, h9, h35]
  -- P1
  have hP1 := parseLoop_prefixD (d := d) Fixes.cur preA f0 3 c0 (g0.bytes ++ (wireOf M1 ++ (n0.bytes ++ (wireOf MN ++ Z))))
    (fun tv h => ⟨(hpre tv h).1, (hpre tv h).2.1, (hpre tv h).2.2.1⟩) (fun tv h => (hpre tv h).2.2.2.2.2) hx0 hraw0 (by omega)
  generalize hc1 : runNDD d 3 preA (g0.bytes ++ (wireOf M1 ++ (n0.bytes ++ (wireOf MN ++ Z)))) c0 = c1 at hP1 ⊢
  have hraw1 : c1.rawBytes = g0.bytes ++ (wireOf M1 ++ (n0.bytes ++ (wireOf MN ++ Z))) := by rw [← hc1]; exact runNDD_raw' _ _ _ _ hraw0
  have hx1 : c1.xmlDataLen = 0 := by rw [← hc1, runNDD_xmlLen]; exact hx0
  have hxm1 : c1.xmlDataMsg = false := by rw [← hc1, runNDD_xml]; exact hxm0
  have h35find1 : alFind c1.header.lookup 35 = some (.view 2 1) := by
    rw [← hc1, runNDD_header_find 35 preA 3 _ c0 (fun tv h => (hpre tv h).2.2.2.2.1)]; exact h35find0
  -- P2
  have hidx1 : 3 + preA.length < (setRange f0 3 preA).length := by rw [setRange_length]; omega
  have hex1 : extractField c1.rawBytes = (wireOf M1 ++ (n0.bytes ++ (wireOf MN ++ Z)), .ok g0) := by rw [hraw1]; exact extractField_wire g0 _ hg0
  have hmt2 : MTInv ((setRange f0 3 preA).set (3 + preA.length) g0) c1.header t35 :=
    (MTInv.setRange ⟨h35find1, hf2⟩ 3 preA (by omega)).set _ _ (by omega)
  obtain ⟨hnumG, hgfG⟩ := nested_walks hg _ c1.header t35 hmt2 hv
  have hP2 := parseLoop_enter_group (d := d) (setRange f0 3 preA) (3 + preA.length) c1 g0 _ C hidx1 hx1 hex1
    (by rw [hG]; exact hGh) (by rw [hG]; exact hGt) (by rw [hG]; exact hnumG) (by rw [hG]; exact hgfG)
  rw [hG] at hP2
  -- P3
  have hP3 := parseLoop_members_gen (d := d) t35 (3 + preA.length) [G] C M1 ((setRange f0 3 preA).set (3 + preA.length) g0) (3 + preA.length + 1)
    { c1 with rawBytes := wireOf M1 ++ (n0.bytes ++ (wireOf MN ++ Z)), foundBody := true, trailerBytes := wireOf M1 ++ (n0.bytes ++ (wireOf MN ++ Z)) }
    (n0.bytes ++ (wireOf MN ++ Z))
    (fun tv h => ⟨(hM1 tv h).1, (hM1 tv h).2.1, fun fl hd hm => nested_member_leaf hg t35 hv tv.tag (hM1 tv h).2.2 fl hd hm⟩)
    hmt2 (by omega) rfl (by simp [setRange_length]; omega)
  generalize hF3 : setRange ((setRange f0 3 preA).set (3 + preA.length) g0) (3 + preA.length + 1) M1 = F3 at hP3
  generalize hc3 : memState ({ c1 with rawBytes := wireOf M1 ++ (n0.bytes ++ (wireOf MN ++ Z)), foundBody := true, trailerBytes := wireOf M1 ++ (n0.bytes ++ (wireOf MN ++ Z)) } : PCore) M1 (n0.bytes ++ (wireOf MN ++ Z)) = c3 at hP3
  obtain ⟨k1, k2, k3, k4, k5, _⟩ := memState_keeps ({ c1 with rawBytes := wireOf M1 ++ (n0.bytes ++ (wireOf MN ++ Z)), foundBody := true, trailerBytes := wireOf M1 ++ (n0.bytes ++ (wireOf MN ++ Z)) } : PCore) M1 (n0.bytes ++ (wireOf MN ++ Z))
  rw [hc3] at k1 k2 k3 k4 k5
  have hraw3 : c3.rawBytes = n0.bytes ++ (wireOf MN ++ Z) := by rw [← hc3]; exact memState_raw _ _ _ rfl
  have hF3len : F3.length = f0.length := by rw [← hF3]; simp [setRange_length]
  have hmt3 : MTInv F3 c3.header t35 := by rw [← hF3, k1]; exact hmt2.setRange _ _ (by omega)
  -- P4
  have hidx4 : 3 + preA.length + 1 + M1.length < F3.length := by omega
  have hex4 : extractField c3.rawBytes = (wireOf MN ++ Z, .ok n0) := by rw [hraw3]; exact extractField_wire n0 _ hn0
  have hmt4 : MTInv (F3.set (3 + preA.length + 1 + M1.length) n0) c3.header t35 := hmt3.set _ _ (by omega)
  obtain ⟨hnumN, hgfN⟩ := nested_start_walk hg t35 hv _ c3.header hmt4
  have hmemN : isGroupMember n0.tag C = true := by
    obtain ⟨_, _, _, nN, _, _, _, _, hnN, _⟩ := hg.defd
    rw [hN]; exact dfind_isMember C N nN hnN
  have hP4 := parseLoop_nested_start (d := d) F3 (3 + preA.length + 1 + M1.length) (3 + preA.length) c3 n0 _ [G] C CN hidx4 hex4 hmemN
    (by rw [hN]; exact hnumN) (by rw [hN]; exact hgfN)
  rw [hN] at hP4
  -- P5
  have hP5 := parseLoop_members_gen (d := d) t35 (3 + preA.length) ([G] ++ [N]) CN MN (F3.set (3 + preA.length + 1 + M1.length) n0)
    (3 + preA.length + 1 + M1.length + 1) { c3 with rawBytes := wireOf MN ++ Z, trailerBytes := wireOf MN ++ Z } Z
    (fun tv h => ⟨(hMN tv h).1, (hMN tv h).2, fun fl hd hm => nested_inner_leaf hg t35 hv tv.tag fl hd hm⟩)
    hmt4 (by omega) rfl (by simp; omega)
  refine ⟨memState ({ c3 with rawBytes := wireOf MN ++ Z, trailerBytes := wireOf MN ++ Z } : PCore) MN Z, ?_, ?_⟩
  · rw [hP1, hP2, hP3, hP4, hP5]
    have e1 : (setRange f0 3 preA).set (3 + preA.length) g0 = setRange f0 3 (preA ++ [g0]) := setRange_snoc _ _ _ _
    have eF3 : F3 = setRange f0 3 ((preA ++ [g0]) ++ M1) := by
      rw [← hF3, e1]
      have := setRange_append f0 3 (preA ++ [g0]) M1
      simp only [List.length_append, List.length_singleton] at this
      rw [this, Nat.add_assoc]
    have e4 : F3.set (3 + preA.length + 1 + M1.length) n0 = setRange f0 3 (((preA ++ [g0]) ++ M1) ++ [n0]) := by
      rw [eF3]
      have := setRange_snoc f0 3 ((preA ++ [g0]) ++ M1) n0
      simp only [List.length_append, List.length_singleton] at this
      rw [← this]; congr 1; omega
    have e5 : setRange (F3.set (3 + preA.length + 1 + M1.length) n0) (3 + preA.length + 1 + M1.length + 1) MN =
        setRange f0 3 (preA ++ g0 :: (M1 ++ n0 :: MN)) := by
      rw [e4]
      have := setRange_append f0 3 ((((preA ++ [g0]) ++ M1) ++ [n0])) MN
      simp only [List.length_append, List.length_singleton] at this
      have e6 : (((preA ++ [g0]) ++ M1) ++ [n0]) ++ MN = preA ++ g0 :: (M1 ++ n0 :: MN) := by simp
      rw [e6] at this
      rw [this]; congr 1; omega
    rw [e5]; rfl
  · obtain ⟨j1, j2, _, j4, j5, _⟩ := memState_keeps ({ c3 with rawBytes := wireOf MN ++ Z, trailerBytes := wireOf MN ++ Z } : PCore) MN Z
    exact ⟨by rw [j1, k1], by rw [j2, k2], by rw [j4]; show c3.xmlDataLen = 0; rw [k4]; exact hx1,
      by rw [j5]; show c3.xmlDataMsg = false; rw [k5]; exact hxm1, memState_raw _ _ _ rfl⟩


/-- PARSE WITH THE DICTIONARY, GROUP WITH A NESTED GROUP, FOLLOWED BY BODY FIELDS (the D6 scenario, after the fix):
    `8, 9, 35, plain…, G=<n>, leaf members of G…, N=<k>, members of N…, z0, plain…, 10` where `z0` belongs to no group -/
theorem parse_dict_nested_mid {mt : Bytes} {G N : Tag} {C CN : List DNode} (hg : NestedGroup d mt G N C CN)
    (t8 t9 t35 g0 n0 z0 t10 : TagValue) (preA M1 MN postB : List TagValue)
    (hw8 : IsWire t8) (hw9 : IsWire t9) (hw35 : IsWire t35) (hw10 : IsWire t10)
    (h8 : t8.tag = 8) (h9 : t9.tag = 9) (h35 : t35.tag = 35) (h10 : t10.tag = 10) (hv : t35.value = mt)
    (hpre : PlainFields d preA) (hg0 : IsWire g0) (hG : g0.tag = G)
    (hGh : isHeaderField d G = false) (hGt : isTrailerField d G = false)
    (hM1 : ∀ tv ∈ M1, IsWire tv ∧ isGroupMember tv.tag C = true ∧ pathWalk C [tv.tag] = none)
    (hn0 : IsWire n0) (hN : n0.tag = N)
    (hMN : ∀ tv ∈ MN, IsWire tv ∧ isGroupMember tv.tag CN = true)
    (hz : PlainFields d (z0 :: postB)) (hzmN : isGroupMember z0.tag CN = false) (hzmC : isGroupMember z0.tag C = false)
    (hzh : isHeaderField d z0.tag = false) (hzt : isTrailerField d z0.tag = false)
    (hzG : ∀ tv ∈ z0 :: postB, tv.tag ≠ G)
    (hng10 : NoGroupTag d 10) (hh10 : isHeaderField d 10 = false)
    (hbl : atoi t9.value = .ok ((fieldsLength (t8 :: t9 :: t35 :: ((preA ++ g0 :: (M1 ++ n0 :: MN)) ++ (z0 :: postB ++ [t10]))) : Nat) : Int)) :
    ∃ m, parseMessage Fixes.cur d (wireOf (t8 :: t9 :: t35 :: ((preA ++ g0 :: (M1 ++ n0 :: MN)) ++ (z0 :: postB ++ [t10])))) = .ok m ∧
      m.fields = t8 :: t9 :: t35 :: ((preA ++ g0 :: (M1 ++ n0 :: MN)) ++ (z0 :: postB ++ [t10])) ∧
      alFind m.body.lookup G = some (.view (3 + preA.length) (1 + (M1 ++ n0 :: MN).length)) ∧
      ((∀ tv ∈ postB, tv.tag ≠ z0.tag) → alFind m.body.lookup z0.tag = some (.view (3 + preA.length + 1 + (M1 ++ n0 :: MN).length) 1)) := by
  have hz0 := hz z0 (by simp)
  have hrestW : ∀ tv ∈ (preA ++ g0 :: (M1 ++ n0 :: MN)) ++ (z0 :: postB ++ [t10]), IsWire tv := by
    intro tv htv
    simp only [List.mem_append, List.mem_cons, List.mem_singleton] at htv
    rcases htv with (h | e | h | e | h) | (e | h) | e
    · exact (hpre tv h).1
    · subst e; exact hg0
    · exact (hM1 tv h).1
    · subst e; exact hn0
    · exact (hMN tv h).1
    · subst e; exact hz0.1
    · exact (hz tv (by simp [h])).1
    · simp at e; subst e; exact hw10
  rw [parseMessage_lead Fixes.cur t8 t9 t35 _ hw8 hw9 hw35 hrestW h8 h9 h35]
  have hwire : wireOf ((preA ++ g0 :: (M1 ++ n0 :: MN)) ++ (z0 :: postB ++ [t10])) =
      wireOf preA ++ (g0.bytes ++ (wireOf M1 ++ (n0.bytes ++ (wireOf MN ++ (z0.bytes ++ (wireOf postB ++ (t10.bytes ++ []))))))) := by
    simp [wireOf, List.append_assoc]
  rw [hwire]
  have hlenR : ((preA ++ g0 :: (M1 ++ n0 :: MN)) ++ (z0 :: postB ++ [t10])).length =
      preA.length + 1 + M1.length + 1 + MN.length + 1 + postB.length + 1 := by
    simp; omega
  have hlenG : (M1 ++ n0 :: MN).length = M1.length + 1 + MN.length := by simp; omega
  obtain ⟨cM, hP, hch, hcb, hcx, hcxm, hcraw⟩ := parse_to_nested hg t8 t9 t35 g0 n0 preA M1 MN
    (z0.bytes ++ (wireOf postB ++ (t10.bytes ++ [])))
    ([t8, t9, t35] ++ List.replicate ((preA ++ g0 :: (M1 ++ n0 :: MN)) ++ (z0 :: postB ++ [t10])).length TagValue.zero) hv h35 h9 h8 hpre hg0 hG hGh hGt hM1
    hn0 hN hMN (by simp) (by simp [hlenR]; omega)
  rw [hP]
  generalize hF3 : setRange ([t8, t9, t35] ++ List.replicate ((preA ++ g0 :: (M1 ++ n0 :: MN)) ++ (z0 :: postB ++ [t10])).length TagValue.zero) 3 (preA ++ g0 :: (M1 ++ n0 :: MN)) = F3
  have hF3len : F3.length = 3 + (preA.length + 1 + M1.length + 1 + MN.length + 1 + postB.length + 1) := by
    rw [← hF3, setRange_length]; simp [hlenR]; omega
  have hk : 3 + preA.length + 1 + M1.length + 1 + MN.length < F3.length := by omega
  have hjF3 : F3[3 + preA.length]? = some g0 := by
    rw [← hF3]; exact setRange_getElem_self _ 3 preA g0 (M1 ++ n0 :: MN) (by simp [hlenR]; omega)
  have hj : (F3.set (3 + preA.length + 1 + M1.length + 1 + MN.length) z0)[3 + preA.length]? = some g0 := by
    rw [List.getElem?_set_ne (by omega)]; exact hjF3
  have hex : extractField cM.rawBytes = (wireOf postB ++ (t10.bytes ++ []), .ok z0) := by
    rw [hcraw]; exact extractField_wire z0 _ hz0.1
  have hmtM : MTInv (F3.set (3 + preA.length + 1 + M1.length + 1 + MN.length) z0) cM.header t35 := by
    refine MTInv.set ?_ _ _ (by omega)
    rw [← hF3]
    refine MTInv.setRange ⟨?_, by simp⟩ 3 _ (by omega)
    rw [hch, runNDD_header_find 35 preA 3 _ _ (fun tv h => (hpre tv h).2.2.2.2.1)]
    simp [ndInit, FieldMap.add, FieldMap.empty, alInsert, alFind, h8, h9, h35]
  rw [parseLoop_exit_nested_body hg F3 _ (3 + preA.length) cM z0 g0 t35 _ hk hmtM hv hj hex hzmN hzmC hzh hzt hz0.2.2.2.2.2 hz0.2.1 hz0.2.2.1]
  -- the plain suffix up to CheckSum
  have hc4def : ∃ c4 : PCore, ndTail { cM with rawBytes := wireOf postB ++ (t10.bytes ++ []), trailerBytes := wireOf postB ++ (t10.bytes ++ []), body := (cM.body.add g0.tag (.view (3 + preA.length) (3 + preA.length + 1 + M1.length + 1 + MN.length - (3 + preA.length)))).add z0.tag (.view (3 + preA.length + 1 + M1.length + 1 + MN.length) 1) } = c4 := ⟨_, rfl⟩
  obtain ⟨c4, hc4⟩ := hc4def
  rw [hc4]
  have hc4h : c4.header = cM.header := by rw [← hc4, (ndTail_raw _).2.2.2.1]
  have hc4b : c4.body = (cM.body.add g0.tag (.view (3 + preA.length) (3 + preA.length + 1 + M1.length + 1 + MN.length - (3 + preA.length)))).add z0.tag
        (.view (3 + preA.length + 1 + M1.length + 1 + MN.length) 1) := by rw [← hc4, (ndTail_raw _).2.2.2.2.1]
  have hc4x : c4.xmlDataLen = 0 := by rw [← hc4, (ndTail_raw _).2.1]; exact hcx
  have hc4xm : c4.xmlDataMsg = false := by rw [← hc4, (ndTail_raw _).2.2.1]; exact hcxm
  have hc4raw : c4.rawBytes = wireOf postB ++ (t10.bytes ++ []) := by rw [← hc4, (ndTail_raw _).1]
  rw [parseLoop_ndD Fixes.cur postB _ (3 + preA.length + 1 + M1.length + 1 + MN.length + 1) c4 t10 []
    (fun tv h => ⟨(hz tv (by simp [h])).1, (hz tv (by simp [h])).2.1, (hz tv (by simp [h])).2.2.1⟩)
    (fun tv h => (hz tv (by simp [h])).2.2.2.2.2) (by rw [h10]; exact hng10) hw10 h10 hc4x hc4raw
    (by simp; omega)]
  -- the field array is the wire
  have hFeq : setRange (F3.set (3 + preA.length + 1 + M1.length + 1 + MN.length) z0) (3 + preA.length + 1 + M1.length + 1 + MN.length + 1) (postB ++ [t10]) =
      t8 :: t9 :: t35 :: ((preA ++ g0 :: (M1 ++ n0 :: MN)) ++ (z0 :: postB ++ [t10])) := by
    rw [← hF3]
    have e1 : 3 + preA.length + 1 + M1.length + 1 + MN.length = 3 + (preA ++ g0 :: (M1 ++ n0 :: MN)).length := by simp; omega
    rw [e1, setRange_snoc]
    have e2 : 3 + (preA ++ g0 :: (M1 ++ n0 :: MN)).length + 1 = 3 + ((preA ++ g0 :: (M1 ++ n0 :: MN)) ++ [z0]).length := by simp; omega
    rw [e2, ← setRange_append]
    have e3 : ((preA ++ g0 :: (M1 ++ n0 :: MN)) ++ [z0]) ++ (postB ++ [t10]) = (preA ++ g0 :: (M1 ++ n0 :: MN)) ++ (z0 :: postB ++ [t10]) := by simp
    rw [e3]
    have := setRange_replicate TagValue.zero ((preA ++ g0 :: (M1 ++ n0 :: MN)) ++ (z0 :: postB ++ [t10])) [t8, t9, t35]
    simpa using this
  rw [hFeq]
  -- the final check
  generalize hC5 : ndSwitchD d (3 + preA.length + 1 + M1.length + 1 + MN.length + 1 + postB.length) t10
      { (runNDD d (3 + preA.length + 1 + M1.length + 1 + MN.length + 1) postB (t10.bytes ++ []) c4) with rawBytes := [] } = C5
  have hC5hb := ndSwitchD_10 (d := d) (3 + preA.length + 1 + M1.length + 1 + MN.length + 1 + postB.length) t10
      { (runNDD d (3 + preA.length + 1 + M1.length + 1 + MN.length + 1) postB (t10.bytes ++ []) c4) with rawBytes := [] } h10 hh10
  rw [hC5] at hC5hb
  have e9 : alFind C5.header.lookup 9 = some (.view 1 1) := by
    rw [hC5hb.1]
    show alFind (runNDD d _ postB _ c4).header.lookup 9 = _
    rw [runNDD_header_find 9 postB _ _ c4 (fun tv h => (hz tv (by simp [h])).2.2.2.1), hc4h, hch,
      runNDD_header_find 9 preA 3 _ _ (fun tv h => (hpre tv h).2.2.2.1)]
    simp [ndInit, FieldMap.add, FieldMap.empty, alInsert, alFind, h8, h9, h35]
  have hxm5 : C5.xmlDataMsg = false := by
    rw [← hC5, (ndSwitchD_raw _ _ _).2.2]
    show (runNDD d _ postB _ c4).xmlDataMsg = false
    rw [runNDD_xml]; exact hc4xm
  rw [finish_ok _ C5 t9 e9 (by simp) hbl hxm5]
  refine ⟨_, rfl, rfl, ?_, ?_⟩
  · show alFind (finishAdjust C5).body.lookup G = _
    rw [(finishAdjust_keeps _).2.2.1, hC5hb.2]
    show alFind ((runNDD d _ postB _ c4).sec .b).lookup G = _
    rw [runNDD_find_absent G .b postB _ _ c4 (fun tv h => hzG tv (by simp [h]))]
    show alFind c4.body.lookup G = _
    rw [hc4b]
    simp only [FieldMap.add]
    rw [alFind_insert_other _ _ _ _ (fun e => hzG z0 (by simp) e.symm), hG, alFind_insert_self]
    congr 2; rw [hlenG]; omega
  · intro hpz
    show alFind (finishAdjust C5).body.lookup z0.tag = _
    rw [(finishAdjust_keeps _).2.2.1, hC5hb.2]
    show alFind ((runNDD d _ postB _ c4).sec .b).lookup z0.tag = _
    rw [runNDD_find_absent z0.tag .b postB _ _ c4 hpz]
    show alFind c4.body.lookup z0.tag = _
    rw [hc4b]
    simp only [FieldMap.add]
    rw [alFind_insert_self]
    congr 2; rw [hlenG]; omega

end Qfx
