/- helper lemmas about the validator model (C15) -/
import Qfx.Spec.Validate
namespace Qfx.Validate
open Qfx Qfx.Dict

theorem minTag_none {l : List Nat} : minTag l = none ↔ l = [] := by
  induction l with
  | nil => simp [minTag]
  | cons x r ih =>
    simp only [minTag]
    cases h : minTag r <;> simp

theorem minTag_mem {l : List Nat} {t : Nat} (h : minTag l = some t) : t ∈ l := by
  induction l generalizing t with
  | nil => simp [minTag] at h
  | cons x r ih =>
    simp only [minTag] at h
    cases hr : minTag r with
    | none => simp [hr] at h; simp [h]
    | some y =>
      simp [hr] at h
      by_cases hxy : x ≤ y
      · simp [hxy] at h; simp [h]
      · simp [hxy] at h; subst h; exact List.mem_cons_of_mem _ (ih hr)

/-- all required tags present ⇒ the required-field rule passes -/
theorem requiredFieldMap_ok {req present : List Nat} (h : ∀ t ∈ req, t ∈ present) :
    validateRequiredFieldMap req present = .ok () := by
  have : req.filter (fun t => !present.contains t) = [] := by
    simp only [List.filter_eq_nil_iff]
    intro t ht
    simp [h t ht]
  unfold validateRequiredFieldMap
  rw [this]
  rfl

/-- a missing required tag ⇒ reason 1 naming a required tag that is missing -/
theorem requiredFieldMap_missing {req present : List Nat} {t : Nat} (hr : t ∈ req) (hm : t ∉ present) :
    ∃ t', validateRequiredFieldMap req present = .error (.reject ⟨1, some t'⟩) ∧ t' ∈ req ∧ t' ∉ present := by
  have hne : req.filter (fun t => !present.contains t) ≠ [] := by
    intro h
    have := List.filter_eq_nil_iff.mp h t hr
    simp [hm] at this
  cases hmin : minTag (req.filter (fun t => !present.contains t)) with
  | none => exact absurd (minTag_none.mp hmin) hne
  | some t' =>
    have hmem := minTag_mem hmin
    simp only [List.mem_filter] at hmem
    refine ⟨t', ?_, hmem.1, ?_⟩
    · unfold validateRequiredFieldMap
      rw [hmin]
      rfl
    · simpa using hmem.2

/-- exactly one required tag missing ⇒ that tag is named -/
theorem requiredFieldMap_single {req present : List Nat} {t : Nat} (hr : t ∈ req) (hm : t ∉ present)
    (honly : ∀ u ∈ req, u ≠ t → u ∈ present) :
    validateRequiredFieldMap req present = .error (.reject ⟨1, some t⟩) := by
  obtain ⟨t', h, hr', hm'⟩ := requiredFieldMap_missing hr hm
  have : t' = t := by
    by_cases e : t' = t
    · exact e
    · exact absurd (honly t' hr' e) hm'
  rw [h, this]

/-- validateFields passes iff every field passes validateField against its section's dictionary -/
theorem validateFields_ok {tr app : VDict} {s : Settings} {fs : List TV}
    (h : ∀ f ∈ fs, validateField (if isHeaderTag f.tag || isTrailerTag f.tag then tr else app) s f = .ok ()) :
    validateFields tr app s fs = .ok () := by
  induction fs with
  | nil => rfl
  | cons f r ih =>
    simp only [validateFields, bind, Except.bind]
    rw [h f (List.mem_cons_self ..)]
    exact ih (fun g hg => h g (List.mem_cons_of_mem _ hg))

/-- the first field that fails validateField decides validateFields -/
theorem validateFields_first {tr app : VDict} {s : Settings} {pre post : List TV} {f : TV} {e : Stop}
    (hpre : ∀ g ∈ pre, validateField (if isHeaderTag g.tag || isTrailerTag g.tag then tr else app) s g = .ok ())
    (hf : validateField (if isHeaderTag f.tag || isTrailerTag f.tag then tr else app) s f = .error e) :
    validateFields tr app s (pre ++ f :: post) = .error e := by
  induction pre with
  | nil =>
    simp only [List.nil_append, validateFields, bind, Except.bind]
    rw [hf]
  | cons g r ih =>
    simp only [List.cons_append, validateFields, bind, Except.bind]
    rw [hpre g (List.mem_cons_self ..)]
    exact ih (fun x hx => hpre x (List.mem_cons_of_mem _ hx))

/-! ### validateField, case by case -/

theorem validateField_empty (d : VDict) (s : Settings) (f : TV) (h : f.value = []) :
    validateField d s f = .error (.reject ⟨4, some f.tag⟩) := by
  simp [validateField, h, rej]

theorem validateField_undefined (d : VDict) (s : Settings) (f : TV) (hv : f.value ≠ [])
    (hu : d.ftype f.tag = none) (hs : checkFieldNotDefined s f.tag = false) :
    validateField d s f = .error (.reject ⟨0, some f.tag⟩) := by
  cases hval : f.value with
  | nil => exact absurd hval hv
  | cons a b => simp [validateField, hval, hu, hs, rej]

theorem validateField_undefined_tolerated (d : VDict) (s : Settings) (f : TV) (hv : f.value ≠ [])
    (hu : d.ftype f.tag = none) (hs : checkFieldNotDefined s f.tag = true) :
    validateField d s f = .ok () := by
  cases hval : f.value with
  | nil => exact absurd hval hv
  | cons a b => simp [validateField, hval, hu, hs]

theorem validateField_bad_enum (d : VDict) (s : Settings) (f : TV) (ft : FType) (hv : f.value ≠ [])
    (hd : d.ftype f.tag = some ft) (hne : ft.enums ≠ []) (hnot : f.value ∉ ft.enums) :
    validateField d s f = .error (.reject ⟨5, some f.tag⟩) := by
  cases hval : f.value with
  | nil => exact absurd hval hv
  | cons a b =>
    have : ft.enums.isEmpty = false := by cases h : ft.enums <;> simp_all
    have h2 : ft.enums.contains (a :: b) = false := by
      rw [hval] at hnot; simpa using hnot
    simp [validateField, hval, hd, this, h2, rej]

theorem validateField_bad_format (d : VDict) (s : Settings) (f : TV) (ft : FType) (p : Proto) (hv : f.value ≠ [])
    (hd : d.ftype f.tag = some ft) (henum : ft.enums = [] ∨ f.value ∈ ft.enums)
    (hp : ft.proto = some p) (hbad : protoReads p f.value = false) :
    validateField d s f = .error (.reject ⟨6, some f.tag⟩) := by
  cases hval : f.value with
  | nil => exact absurd hval hv
  | cons a b =>
    rw [hval] at henum hbad
    have h1 : (!ft.enums.isEmpty && !ft.enums.contains (a :: b)) = false := by
      rcases henum with h | h
      · simp [h]
      · have : ft.enums.contains (a :: b) = true := by simpa using h
        simp [this]
    simp [validateField, hd, h1, hp, hbad, rej]

theorem validateField_ok (d : VDict) (s : Settings) (f : TV) (ft : FType) (p : Proto) (hv : f.value ≠ [])
    (hd : d.ftype f.tag = some ft) (henum : ft.enums = [] ∨ f.value ∈ ft.enums)
    (hp : ft.proto = some p) (hgood : protoReads p f.value = true) :
    validateField d s f = .ok () := by
  cases hval : f.value with
  | nil => exact absurd hval hv
  | cons a b =>
    rw [hval] at henum hgood
    have h1 : (!ft.enums.isEmpty && !ft.enums.contains (a :: b)) = false := by
      rcases henum with h | h
      · simp [h]
      · have : ft.enums.contains (a :: b) = true := by simpa using h
        simp [this]
    simp [validateField, hd, h1, hp, hgood]

end Qfx.Validate
