/- helper lemmas about the validator model (C15) -/
import Qfx.Spec.Validate
namespace Qfx.Validate
open Qfx Qfx.Dict

theorem minTag_none {l : List Nat} : minTag l = none ↔ l = [] := by
  induction l with
  | nil => simp [minTag]
  | cons x r ih =>
    simp only [minTag]
    cases h : minTag r <;> simp

theorem minTag_mem {l : List Nat} {t : Nat} (h : minTag l = some t) : t ∈ l := by
  induction l generalizing t with
  | nil => simp [minTag] at h
  | cons x r ih =>
    simp only [minTag] at h
    cases hr : minTag r with
    | none => simp [hr] at h; simp [h]
    | some y =>
      simp [hr] at h
      by_cases hxy : x ≤ y
      · simp [hxy] at h; simp [h]
      · simp [hxy] at h; subst h; exact List.mem_cons_of_mem _ (ih hr)

/-- all required tags present ⇒ the required-field rule passes -/
theorem requiredFieldMap_ok {req present : List Nat} (h : ∀ t ∈ req, t ∈ present) :
    validateRequiredFieldMap req present = .ok () := by
  have : req.filter (fun t => !present.contains t) = [] := by
    simp only [List.filter_eq_nil_iff]
    intro t ht
    simp [h t ht]
  unfold validateRequiredFieldMap
  rw [this]
  rfl

/-- a missing required tag ⇒ reason 1 naming a required tag that is missing -/
theorem requiredFieldMap_missing {req present : List Nat} {t : Nat} (hr : t ∈ req) (hm : t ∉ present) :
    ∃ t', validateRequiredFieldMap req present = .error (.reject ⟨1, some t'⟩) ∧ t' ∈ req ∧ t' ∉ present := by
  have hne : req.filter (fun t => !present.contains t) ≠ [] := by
    intro h
    have := List.filter_eq_nil_iff.mp h t hr
    simp [hm] at this
  cases hmin : minTag (req.filter (fun t => !present.contains t)) with
  | none => exact absurd (minTag_none.mp hmin) hne
  | some t' =>
    have hmem := minTag_mem hmin
    simp only [List.mem_filter] at hmem
    refine ⟨t', ?_, hmem.1, ?_⟩
    · unfold validateRequiredFieldMap
      rw [hmin]
      rfl
    · simpa using hmem.2

/-- exactly one required tag missing ⇒ that tag is named -/
theorem requiredFieldMap_single {req present : List Nat} {t : Nat} (hr : t ∈ req) (hm : t ∉ present)
    (honly : ∀ u ∈ req, u ≠ t → u ∈ present) :
    validateRequiredFieldMap req present = .error (.reject ⟨1, some t⟩) := by
  obtain ⟨t', h, hr', hm'⟩ := requiredFieldMap_missing hr hm
  have : t' = t := by
    by_cases e : t' = t
    · exact e
    · exact absurd (honly t' hr' e) hm'
  rw [h, this]

/-- validateFields passes if every field other than MsgType passes validateField against its section's dictionary -/
theorem validateFields_ok {tr app : VDict} {s : Settings} {fs : List TV}
    (h : ∀ f ∈ fs, f.tag ≠ 35 → validateField (if isHeaderTag f.tag || isTrailerTag f.tag then tr else app) s f = .ok ()) :
    validateFields tr app s fs = .ok () := by
  induction fs with
  | nil => rfl
  | cons f r ih =>
    have ih' := ih (fun g hg => h g (List.mem_cons_of_mem _ hg))
    by_cases h35 : f.tag = 35
    · simp only [validateFields, h35, if_true]; exact ih'
    · simp only [validateFields, h35, if_false, bind, Except.bind]
      rw [h f (List.mem_cons_self ..) h35]
      exact ih'

/-- the first field (other than MsgType) that fails validateField decides validateFields -/
theorem validateFields_first {tr app : VDict} {s : Settings} {pre post : List TV} {f : TV} {e : Stop}
    (hpre : ∀ g ∈ pre, g.tag ≠ 35 → validateField (if isHeaderTag g.tag || isTrailerTag g.tag then tr else app) s g = .ok ())
    (h35 : f.tag ≠ 35)
    (hf : validateField (if isHeaderTag f.tag || isTrailerTag f.tag then tr else app) s f = .error e) :
    validateFields tr app s (pre ++ f :: post) = .error e := by
  induction pre with
  | nil =>
    simp only [List.nil_append, validateFields, h35, if_false, bind, Except.bind]
    rw [hf]
  | cons g r ih =>
    have ih' := ih (fun x hx => hpre x (List.mem_cons_of_mem _ hx))
    by_cases g35 : g.tag = 35
    · simp only [List.cons_append, validateFields, g35, if_true]; exact ih'
    · simp only [List.cons_append, validateFields, g35, if_false, bind, Except.bind]
      rw [hpre g (List.mem_cons_self ..) g35]
      exact ih'

/-! ### validateField, case by case -/

theorem validateField_empty (d : VDict) (s : Settings) (f : TV) (h : f.value = []) :
    validateField d s f = .error (.reject ⟨4, some f.tag⟩) := by
  simp [validateField, validateFieldWith, h, rej]

theorem validateField_undefined (d : VDict) (s : Settings) (f : TV) (hv : f.value ≠ [])
    (hu : d.ftype f.tag = none) (hs : checkFieldNotDefined s f.tag = false) :
    validateField d s f = .error (.reject ⟨0, some f.tag⟩) := by
  cases hval : f.value with
  | nil => exact absurd hval hv
  | cons a b => simp [validateField, validateFieldWith, hval, hu, hs, rej]

theorem validateField_undefined_tolerated (d : VDict) (s : Settings) (f : TV) (hv : f.value ≠ [])
    (hu : d.ftype f.tag = none) (hs : checkFieldNotDefined s f.tag = true) :
    validateField d s f = .ok () := by
  cases hval : f.value with
  | nil => exact absurd hval hv
  | cons a b => simp [validateField, validateFieldWith, hval, hu, hs]

theorem validateField_bad_enum (d : VDict) (s : Settings) (f : TV) (ft : FType) (hv : f.value ≠ [])
    (hd : d.ftype f.tag = some ft) (hne : ft.enums ≠ []) (hnot : f.value ∉ ft.enums)
    (htok : ft.multi = false ∨ ∃ tok ∈ splitOn32 f.value [], tok ∉ ft.enums) :
    validateField d s f = .error (.reject ⟨5, some f.tag⟩) := by
  have hbad : enumOK ft f.value = false := by
    rcases htok with h | ⟨tok, h1, h2⟩
    · simp [enumOK, hne, hnot, h]
    · simp only [enumOK, Bool.or_eq_false_iff, Bool.and_eq_false_iff]
      refine ⟨⟨by simp [hne], by simpa using hnot⟩, Or.inr ?_⟩
      simp only [List.all_eq_false]
      exact ⟨tok, h1, by simpa using h2⟩
  cases hval : f.value with
  | nil => exact absurd hval hv
  | cons a b =>
    rw [hval] at hbad
    simp [validateField, validateFieldWith, hval, hd, hbad, rej]

theorem validateField_bad_format (d : VDict) (s : Settings) (f : TV) (ft : FType) (p : Proto) (hv : f.value ≠ [])
    (hd : d.ftype f.tag = some ft) (henum : ft.enums = [] ∨ f.value ∈ ft.enums)
    (hp : ft.proto = some p) (hbad : protoReads p f.value = false) :
    validateField d s f = .error (.reject ⟨6, some f.tag⟩) := by
  cases hval : f.value with
  | nil => exact absurd hval hv
  | cons a b =>
    rw [hval] at henum hbad
    have hok : enumOK ft (a :: b) = true := by
      rcases henum with h | h
      · simp [enumOK, h]
      · simp [enumOK, h]
    simp [validateField, validateFieldWith, hval, hd, hok, hp, hbad, rej]

theorem validateField_ok (d : VDict) (s : Settings) (f : TV) (ft : FType) (p : Proto) (hv : f.value ≠ [])
    (hd : d.ftype f.tag = some ft) (henum : ft.enums = [] ∨ f.value ∈ ft.enums)
    (hp : ft.proto = some p) (hgood : protoReads p f.value = true) :
    validateField d s f = .ok () := by
  cases hval : f.value with
  | nil => exact absurd hval hv
  | cons a b =>
    rw [hval] at henum hgood
    have hok : enumOK ft (a :: b) = true := by
      rcases henum with h | h
      · simp [enumOK, h]
      · simp [enumOK, h]
    simp [validateField, validateFieldWith, hval, hd, hok, hp, hgood]

/-! ### section order (validateFieldContent) -/

theorem trailer_not_header {t : Nat} (h : isTrailerTag t = true) : isHeaderTag t = false := by
  simp only [isTrailerTag, trailerTags, List.contains_eq_mem, List.mem_cons, List.not_mem_nil, or_false,
    decide_eq_true_eq] at h
  rcases h with h | h | h <;> subst h <;> decide

/-- every field has a value, or empty values are not looked at by validateFieldContent (`hv = false`) -/
def ValuesOK (hv : Bool) (fs : List TV) : Prop := ∀ f ∈ fs, (hv && f.value.isEmpty) = false

/-- every field has a value -/
def AllValues (fs : List TV) : Prop := ∀ f ∈ fs, f.value.isEmpty = false

theorem AllValues.valuesOK {fs : List TV} (h : AllValues fs) (hv : Bool) : ValuesOK hv fs :=
  fun f hf => by simp [h f hf]

theorem ValuesOK.tail {hv : Bool} {f : TV} {r : List TV} (h : ValuesOK hv (f :: r)) : ValuesOK hv r :=
  fun g hg => h g (List.mem_cons_of_mem _ hg)

theorem contentLoop_trailer (hv ord : Bool) : ∀ (t : List TV) (it : Bool), ValuesOK hv t →
    (∀ f ∈ t, isTrailerTag f.tag = true) → fieldContentLoop hv ord t false it = .ok () := by
  intro t
  induction t with
  | nil => intros; rfl
  | cons f r ih =>
    intro it hval htr
    have h1 := hval f (List.mem_cons_self ..)
    have h2 := htr f (List.mem_cons_self ..)
    have h3 := trailer_not_header h2
    simp only [fieldContentLoop, h1, h2, h3]
    simp
    exact ih true hval.tail (fun g hg => htr g (List.mem_cons_of_mem _ hg))

theorem contentLoop_body (hv ord : Bool) : ∀ (b t : List TV), ValuesOK hv (b ++ t) →
    (∀ f ∈ b, isHeaderTag f.tag = false ∧ isTrailerTag f.tag = false) → (∀ f ∈ t, isTrailerTag f.tag = true) →
    fieldContentLoop hv ord (b ++ t) false false = .ok () := by
  intro b
  induction b with
  | nil => intro t hval _ htr; exact contentLoop_trailer hv ord t false hval htr
  | cons f r ih =>
    intro t hval hb htr
    have h1 := hval f (List.mem_cons_self ..)
    have ⟨h2, h3⟩ := hb f (List.mem_cons_self ..)
    simp only [List.cons_append, fieldContentLoop, h1, h2, h3]
    simp
    exact ih t hval.tail (fun g hg => hb g (List.mem_cons_of_mem _ hg)) htr

theorem contentLoop_header (hv ord : Bool) : ∀ (h b t : List TV), ValuesOK hv (h ++ (b ++ t)) →
    (∀ f ∈ h, isHeaderTag f.tag = true) →
    (∀ f ∈ b, isHeaderTag f.tag = false ∧ isTrailerTag f.tag = false) → (∀ f ∈ t, isTrailerTag f.tag = true) →
    fieldContentLoop hv ord (h ++ (b ++ t)) true false = .ok () := by
  intro h
  induction h with
  | nil =>
    intro b t hval _ hb htr
    cases b with
    | nil =>
      cases t with
      | nil => rfl
      | cons f r =>
        have h1 := hval f (List.mem_cons_self ..)
        have h2 := htr f (List.mem_cons_self ..)
        have h3 := trailer_not_header h2
        simp only [List.nil_append, fieldContentLoop, h1, h3]
        simp
        exact contentLoop_trailer hv ord r _ hval.tail (fun g hg => htr g (List.mem_cons_of_mem _ hg))
    | cons f r =>
      have h1 := hval f (List.mem_cons_self ..)
      have ⟨h2, h2t⟩ := hb f (List.mem_cons_self ..)
      simp only [List.nil_append, List.cons_append, fieldContentLoop, h1, h2, h2t]
      simp
      exact contentLoop_body hv ord r t hval.tail (fun g hg => hb g (List.mem_cons_of_mem _ hg)) htr
  | cons f r ih =>
    intro b t hval hh hb htr
    have h1 := hval f (List.mem_cons_self ..)
    have h2 := hh f (List.mem_cons_self ..)
    simp only [List.cons_append, fieldContentLoop, h1, h2]
    simp
    exact ih b t hval.tail (fun g hg => hh g (List.mem_cons_of_mem _ hg)) hb htr

/-- header fields, then body fields, then trailer fields (static tag classes of tag.go) -/
structure Sectioned (fs : List TV) : Prop where
  split : ∃ h b t, fs = h ++ (b ++ t) ∧ (∀ f ∈ h, isHeaderTag f.tag = true) ∧
    (∀ f ∈ b, isHeaderTag f.tag = false ∧ isTrailerTag f.tag = false) ∧ (∀ f ∈ t, isTrailerTag f.tag = true)

theorem validateFieldContent_ok (m : PMsg) (hv ord : Bool) (hs : Sectioned m.fields) (hval : ValuesOK hv m.fields) :
    validateFieldContent m hv ord = .ok () := by
  obtain ⟨h, b, t, heq, hh, hb, ht⟩ := hs.split
  unfold validateFieldContent
  split
  · rfl
  · rw [heq] at hval ⊢
    exact contentLoop_header hv ord h b t hval hh hb ht

/-! ### the walk on group-free messages -/

/-- the definition validateWalk consults for a tag -/
def defFor (tr : VDict) (body : MDef) (t : Nat) : Option MDef :=
  if isHeaderTag t then tr.header else if isTrailerTag t then tr.trailer else some body

/-- the field is defined for its section and is not a repeating group -/
def PlainDefined (tr : VDict) (body : MDef) (f : TV) : Prop :=
  ∃ md fd, defFor tr body f.tag = some md ∧ md.field? f.tag = some fd ∧ fd.isGroup = false

theorem walkLoop_flat (tr app : VDict) (s : Settings) (body : MDef) : ∀ (fs : List TV) (fuel : Nat) (seen : List Nat),
    fs.length + 1 < fuel → (fs.map (·.tag)).Nodup → (∀ f ∈ fs, f.tag ∉ seen) → (∀ f ∈ fs, PlainDefined tr body f) →
    walkLoop tr app s body fuel fs seen = .ok () := by
  intro fs
  induction fs with
  | nil =>
    intro fuel seen hf _ _ _
    cases fuel with
    | zero => omega
    | succ k => rfl
  | cons f r ih =>
    intro fuel seen hf hnd hseen hdef
    cases fuel with
    | zero => omega
    | succ k =>
      cases k with
      | zero => simp at hf
      | succ k2 =>
        obtain ⟨md, fd, h1, h2, h3⟩ := hdef f (List.mem_cons_self ..)
        have hns : seen.contains f.tag = false := by
          have := hseen f (List.mem_cons_self ..)
          simpa using this
        simp only [defFor] at h1
        simp only [walkLoop, h1, hns, h2, visitField, visitFieldW, h3]
        simp only [List.map_cons, List.nodup_cons] at hnd
        simp
        apply ih
        · simp only [List.length_cons] at hf; omega
        · exact hnd.2
        · intro g hg
          simp only [List.mem_cons, not_or]
          refine ⟨?_, hseen g (List.mem_cons_of_mem _ hg)⟩
          intro e
          exact hnd.1 (by rw [← e]; exact List.mem_map_of_mem hg)
        · exact fun g hg => hdef g (List.mem_cons_of_mem _ hg)

/-- a repeated top-level tag is named with reason 13 at its second occurrence, if everything before it is plain -/
theorem walkLoop_duplicate (tr app : VDict) (s : Settings) (body : MDef) : ∀ (pre : List TV) (fuel : Nat) (seen : List Nat)
    (f : TV) (post : List TV),
    pre.length + 2 < fuel → (pre.map (·.tag)).Nodup → (∀ g ∈ pre, g.tag ∉ seen) → (∀ g ∈ pre, PlainDefined tr body g) →
    (f.tag ∈ seen ∨ f.tag ∈ pre.map (·.tag)) → (defFor tr body f.tag).isSome →
    walkLoop tr app s body fuel (pre ++ f :: post) seen = .error (.reject ⟨13, some f.tag⟩) := by
  intro pre
  induction pre with
  | nil =>
    intro fuel seen f post hf _ _ _ hdup hd
    cases fuel with
    | zero => omega
    | succ k =>
      have hin : f.tag ∈ seen := by
        rcases hdup with h | h
        · exact h
        · simp at h
      obtain ⟨md, hmd⟩ := Option.isSome_iff_exists.mp hd
      simp only [defFor] at hmd
      simp [walkLoop, hmd, hin, rej]
  | cons g r ih =>
    intro fuel seen f post hf hnd hseen hdef hdup hd
    cases fuel with
    | zero => omega
    | succ k =>
      cases k with
      | zero => simp at hf
      | succ k2 =>
        obtain ⟨md, fd, h1, h2, h3⟩ := hdef g (List.mem_cons_self ..)
        have hns : seen.contains g.tag = false := by
          have := hseen g (List.mem_cons_self ..)
          simpa using this
        simp only [defFor] at h1
        simp only [List.cons_append, walkLoop, h1, hns, h2, visitField, visitFieldW, h3]
        simp only [List.map_cons, List.nodup_cons] at hnd
        simp
        apply ih
        · simp only [List.length_cons] at hf; omega
        · exact hnd.2
        · intro x hx
          simp only [List.mem_cons, not_or]
          refine ⟨?_, hseen x (List.mem_cons_of_mem _ hx)⟩
          intro e
          exact hnd.1 (by rw [← e]; exact List.mem_map_of_mem hx)
        · exact fun x hx => hdef x (List.mem_cons_of_mem _ hx)
        · rcases hdup with h | h
          · exact Or.inl (List.mem_cons_of_mem _ h)
          · simp only [List.map_cons, List.mem_cons] at h
            rcases h with h | h
            · exact Or.inl (by rw [h]; exact List.mem_cons_self ..)
            · exact Or.inr h
        · exact hd

end Qfx.Validate
