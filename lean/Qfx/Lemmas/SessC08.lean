/-
  Lemmas for C08 (trace shape of a connection): the pending-inbound measure and why the first drain of a disconnect
  empties the inbound buffer (fuel is sufficient); the ghost automaton state folded over the observation log; the
  invariant relating it to the session; one preservation lemma per model function.
-/
import Qfx.Spec.SessionTypedC08
import Qfx.Lemmas.SessFrame
import Qfx.Lemmas.SessC03
namespace Qfx.Sess
open Qfx

/-! ## 1. the inbound buffer: pending count, and the drains -/

/-- buffered inbound messages that can still be processed -/
def pend (s : Sess) : Nat := if s.inboxOpen then s.inbox.length else 0

theorem Fr.pend {s s' : Sess} (h : Fr s s') : pend s' = pend s := by
  unfold Sess.pend; rw [h.inbox, h.inboxOpen]

theorem discMid_inbox (s : Sess) : (discMid s).inbox = s.inbox ∧ (discMid s).inboxOpen = s.inboxOpen := by
  unfold discMid dropAndReset Sess.storeReset Sess.setToSend Sess.setOut Sess.emit
  simp only []
  repeat' split
  all_goals exact ⟨rfl, rfl⟩

theorem pend_discMid (s : Sess) : pend (discMid s) = pend s := by
  unfold pend; rw [(discMid_inbox s).1, (discMid_inbox s).2]

theorem pend_mutual : ∀ fuel : Nat,
    (∀ s next, pend (setState fuel s next) ≤ pend s) ∧
    (∀ s, pend (drainIn fuel s) ≤ pend s) ∧
    (∀ s m, pend (incoming fuel s m) ≤ pend s) ∧
    (∀ s a b, pend (checkSessionTime fuel s a b) ≤ pend s) := by
  intro fuel
  induction fuel with
  | zero =>
    refine ⟨?_, ?_, ?_, ?_⟩
    · intro s next; unfold setState; exact Nat.le_refl _
    · intro s; unfold drainIn; exact Nat.le_refl _
    · intro s m; unfold incoming; exact Nat.le_refl _
    · intro s a b; unfold checkSessionTime; exact Nat.le_refl _
  | succ n ih =>
    obtain ⟨ihS, ihD, ihI, ihC⟩ := ih
    refine ⟨?_, ?_, ?_, ?_⟩
    · intro s next
      unfold setState
      simp only []
      split
      · have hx : pend (if s.st.connected = true then (drainIn n (discMid (drainIn n s))).closeInbox else s) ≤ pend s := by
          split
          · simp [pend, Sess.closeInbox]
          · exact Nat.le_refl _
        generalize (if s.st.connected = true then (drainIn n (discMid (drainIn n s))).closeInbox else s) = x at hx
        have : pend ((if x.pendingStop = true then x.setStopped else x).setSt next) = pend x := by
          split <;> rfl
        omega
      · exact Nat.le_refl _
    · intro s
      unfold drainIn
      cases ho : s.inboxOpen
      · exact Nat.le_refl _
      · cases hib : s.inbox with
        | nil => exact Nat.le_refl _
        | cons m rest =>
          simp only [Bool.not_true, Bool.false_eq_true, if_false]
          have h1 := ihI (s.setInbox rest) (some m)
          have h2 := ihD (incoming n (s.setInbox rest) (some m))
          have h3 : pend (s.setInbox rest) ≤ pend s := by
            simp [pend, Sess.setInbox, hib, ho]
          omega
    · intro s m
      unfold incoming
      simp only []
      have h1 := ihC s true true
      generalize checkSessionTime n s true true = s1 at h1
      split
      · exact h1
      · cases m with
        | none => exact h1
        | some m =>
          simp only []
          have hf := (fr_fixMsgInCore s1 m).pend
          generalize fixMsgInCore s1 m = r at hf
          obtain ⟨s2, nx⟩ := r
          have := ihS s2 nx
          simp only [] at hf ⊢
          have he : pend ((setState n s2 nx).emit (Obs.armPeer (1200 * (setState n s2 nx).hb))) = pend (setState n s2 nx) := rfl
          omega
    · intro s a b
      unfold checkSessionTime
      simp only []
      split
      · have h1 : pend (if s.st.loggedOn = true then sendLogout s else s) = pend s := by
          split
          · exact (fpeel_sendLogout (Fr.refl s)).pend
          · rfl
        have := ihS (if s.st.loggedOn = true then sendLogout s else s) .notSessionTime
        omega
      · have hx : pend (if (!s.st.sessionTime) = true then setState n s SState.latent else s) ≤ pend s := by
          split
          · exact ihS _ _
          · exact Nat.le_refl _
        generalize (if (!s.st.sessionTime) = true then setState n s SState.latent else s) = x at hx
        split
        · have h1 : pend (dropAndReset (if x.st.loggedOn = true then sendLogout x else x)) = pend x := by
            have : Fr x (dropAndReset (if x.st.loggedOn = true then sendLogout x else x)) := by fr_peel
            exact this.pend
          have := ihS (dropAndReset (if x.st.loggedOn = true then sendLogout x else x)) .latent
          omega
        · exact hx

/-- with enough fuel a drain leaves nothing pending -/
theorem drainIn_complete (fuel : Nat) (s : Sess) (h : pend s < fuel) : pend (drainIn fuel s) = 0 := by
  induction fuel generalizing s with
  | zero => omega
  | succ n ih =>
    unfold drainIn
    cases ho : s.inboxOpen
    · simp [pend, ho]
    · cases hib : s.inbox with
      | nil => simp [pend, hib]
      | cons m rest =>
        simp only [Bool.not_true, Bool.false_eq_true, if_false]
        have h1 := (pend_mutual n).2.2.1 (s.setInbox rest) (some m)
        have h3 : pend (s.setInbox rest) + 1 ≤ pend s := by
          simp [pend, Sess.setInbox, hib, ho]
        exact ih _ (by omega)

/-- nothing pending: a drain does nothing -/
theorem drainIn_idle (fuel : Nat) (s : Sess) (h : pend s = 0) : drainIn fuel s = s := by
  cases fuel with
  | zero => rfl
  | succ n =>
    unfold drainIn
    cases ho : s.inboxOpen
    · rfl
    · cases hib : s.inbox with
      | nil => rfl
      | cons m rest => simp [pend, ho, hib] at h

/-! ## 2. the ghost automaton state -/

def c8o (g : G8) (o : Obs) : G8 := c8Step g (.obs o)
def g8Of (g0 : G8) (s : Sess) : G8 := s.log.reverse.foldl c8o g0
/-- writing a list of messages -/
def wr (g : G8) (q : List OutMsg) : G8 := q.foldl (fun g m => c8o g (.wire m)) g

theorem g8Of_emit (g0 : G8) (s : Sess) (o : Obs) : g8Of g0 (s.emit o) = c8o (g8Of g0 s) o := by
  simp [g8Of, Sess.emit, List.foldl_append]

def silent : Obs → Bool
  | .wire _ | .fromApp _ _ | .onLogon | .onLogout | .closed => false
  | _ => true

theorem c8o_silent (g : G8) (o : Obs) (h : silent o = true) : c8o g o = g := by
  cases o <;> simp_all [c8o, c8Step, silent]

theorem foldl_silent (g : G8) (l : List Obs) (h : l.all silent = true) : l.foldl c8o g = g := by
  induction l generalizing g with
  | nil => rfl
  | cons o l ih =>
    simp only [List.all_cons, Bool.and_eq_true] at h
    simp only [List.foldl_cons, c8o_silent g o h.1]; exact ih g h.2

theorem wr_append (g : G8) (a b : List OutMsg) : wr g (a ++ b) = wr (wr g a) b := by simp [wr, List.foldl_append]
theorem wr_nil (g : G8) : wr g [] = g := rfl
theorem wr_single (g : G8) (m : OutMsg) : wr g [m] = c8o g (.wire m) := rfl

/-- same view of the session (state, configuration, connection, inbound buffer, queue), log extended by silent
    observations only -/
structure Sil (s s' : Sess) : Prop where
  fr : Fr s s'
  q : s'.toSend = s.toSend
  log : ∃ extra : List Obs, s'.log = extra ++ s.log ∧ extra.all silent = true

theorem Sil.refl (s : Sess) : Sil s s := ⟨Fr.refl s, rfl, [], rfl, rfl⟩
theorem Sil.trans {a b c : Sess} (h1 : Sil a b) (h2 : Sil b c) : Sil a c := by
  obtain ⟨f1, q1, e1, l1, n1⟩ := h1
  obtain ⟨f2, q2, e2, l2, n2⟩ := h2
  refine ⟨f1.trans f2, q2.trans q1, e2 ++ e1, ?_, ?_⟩
  · rw [l2, l1, List.append_assoc]
  · simp [List.all_append, n1, n2]
theorem Sil.g8 {s s' : Sess} (h : Sil s s') (g0 : G8) : g8Of g0 s' = g8Of g0 s := by
  obtain ⟨_, _, e, l, n⟩ := h
  unfold g8Of
  rw [l, List.reverse_append, List.foldl_append]
  exact foldl_silent _ _ (by simpa using n)
theorem Sil.emit (s : Sess) (o : Obs) (h : silent o = true) : Sil s (s.emit o) :=
  ⟨⟨rfl, rfl, rfl, rfl, rfl⟩, rfl, [o], rfl, by simp [h]⟩
/-- updates that touch neither the view nor the log -/
theorem Sil.of_eq {s s' : Sess} (h1 : Fr s s') (h2 : s'.toSend = s.toSend) (h3 : s'.log = s.log) : Sil s s' :=
  ⟨h1, h2, [], by simp [h3], rfl⟩

theorem sil_storeReset (s : Sess) : Sil s s.storeReset := ⟨⟨rfl, rfl, rfl, rfl, rfl⟩, rfl, [.reset], rfl, rfl⟩
theorem sil_incrTarget (s : Sess) : Sil s (incrTarget s) := ⟨⟨rfl, rfl, rfl, rfl, rfl⟩, rfl, [.incT], rfl, rfl⟩
theorem sil_persistOut (s : Sess) (seq : Int) (m : OutMsg) : Sil s (s.persistOut seq m) := by
  unfold Sess.persistOut
  split
  · exact ⟨⟨rfl, rfl, rfl, rfl, rfl⟩, rfl, [.saved seq m.kind (resendable m)], rfl, rfl⟩
  · exact ⟨⟨rfl, rfl, rfl, rfl, rfl⟩, rfl, [.incS], rfl, rfl⟩

/-- `prep`: silent; the prepared message differs from the given one in its number only -/
theorem prep_spec (s : Sess) (m : OutMsg) :
    Sil s (prep s m).2 ∧ ((prep s m).1 = none ∨ ∃ m', (prep s m).1 = some m' ∧ m'.kind = m.kind ∧ m'.f = m.f) := by
  unfold prep prepCore
  simp only []
  split
  · split
    · exact ⟨((sil_storeReset s).trans (Sil.of_eq (s := s.storeReset) (s' := s.storeReset.setSentReset true) ⟨rfl, rfl, rfl, rfl, rfl⟩ rfl rfl)).trans
        (sil_persistOut _ _ _), Or.inr ⟨_, rfl, rfl, rfl⟩⟩
    · exact ⟨sil_persistOut _ _ _, Or.inr ⟨_, rfl, rfl, rfl⟩⟩
  · split
    · exact ⟨Sil.refl s, Or.inl rfl⟩
    · exact ⟨sil_persistOut _ _ _, Or.inr ⟨_, rfl, rfl, rfl⟩⟩

theorem prep_admin (s : Sess) (m : OutMsg) (h : isAdminKind m.kind = true) : ∃ m', (prep s m).1 = some m' ∧ m'.kind = m.kind ∧ m'.f = m.f := by
  have h : isAdminKind (stamp s m).kind = true := h
  unfold prep prepCore
  simp only [h, if_true]
  split <;> exact ⟨_, rfl, rfl, rfl⟩

/-! the sending primitives: effect on the queue and on the ghost state -/

theorem sendQueued_spec (g0 : G8) (s : Sess) :
    Fr s (sendQueued s) ∧
    (if s.out = true then (sendQueued s).toSend = [] ∧ g8Of g0 (sendQueued s) = wr (g8Of g0 s) s.toSend
     else sendQueued s = s) := by
  unfold sendQueued
  split
  · rename_i h
    refine ⟨⟨rfl, rfl, rfl, rfl, rfl⟩, ?_⟩
    simp only [h, true_and]
    simp [g8Of, wr, List.foldl_append, List.foldl_map]
  · exact ⟨Fr.refl s, by simp⟩

/-- outcome of a send: refused by the application (nothing but silent observations), or … -/
inductive SendOut (g0 : G8) (s r : Sess) (m : OutMsg) (kept : List OutMsg) (writes : Bool) : Prop
  | refused (h : Sil s r)
  | sent (m' : OutMsg) (hk : m'.kind = m.kind) (hf : m'.f = m.f) (fr : Fr s r)
      (h : if writes then r.toSend = [] ∧ g8Of g0 r = wr (g8Of g0 s) (kept ++ [m'])
           else r.toSend = kept ++ [m'] ∧ g8Of g0 r = g8Of g0 s)

/-- the outcome reads the message through its kind and fields only -/
theorem SendOut.congr_msg {g0 : G8} {s r : Sess} {m1 m2 : OutMsg} {kept : List OutMsg} {w : Bool}
    (h : SendOut g0 s r m1 kept w) (hk : m1.kind = m2.kind) (hf : m1.f = m2.f) : SendOut g0 s r m2 kept w := by
  cases h with
  | refused h => exact .refused h
  | sent m' hk' hf' fr h => exact .sent m' (hk'.trans hk) (hf'.trans hf) fr h

theorem queueForSend_spec (g0 : G8) (s : Sess) (m : OutMsg) : SendOut g0 s (queueForSend s m) m s.toSend false := by
  unfold queueForSend
  obtain ⟨hs, hm⟩ := prep_spec s m
  generalize prep s m = r at hs hm
  obtain ⟨o, s'⟩ := r
  dsimp only at hs hm
  rcases hm with hm | ⟨m', hm, hk, hf⟩
  · subst hm; exact .refused hs
  · subst hm
    refine .sent m' hk hf (hs.fr.trans ⟨rfl, rfl, rfl, rfl, rfl⟩) ?_
    simp only [Bool.false_eq_true, if_false]
    exact ⟨by simp [Sess.setToSend, hs.q], hs.g8 g0⟩

theorem sendInReplyTo_spec (g0 : G8) (s : Sess) (m : OutMsg) :
    SendOut g0 s (sendInReplyTo s m) m s.toSend (s.st.loggedOn && s.out) := by
  unfold sendInReplyTo
  split
  · rename_i h
    have : s.st.loggedOn = false := by simpa using h
    simp only [this, Bool.false_and]
    exact (queueForSend_spec g0 s m.asNew).congr_msg rfl rfl
  · rename_i h
    have hl : s.st.loggedOn = true := by simpa using h
    obtain ⟨hs, hm⟩ := prep_spec s m
    generalize prep s m = r at hs hm
    obtain ⟨o, s'⟩ := r
    dsimp only at hs hm
    rcases hm with hm | ⟨m', hm, hk, hf⟩
    · subst hm; exact .refused hs
    · subst hm
      simp only [hl, Bool.true_and]
      have hq := sendQueued_spec g0 (s'.setToSend (s'.toSend ++ [m']))
      have hfr : Fr s (s'.setToSend (s'.toSend ++ [m'])) := hs.fr.trans ⟨rfl, rfl, rfl, rfl, rfl⟩
      refine .sent m' hk hf (hfr.trans hq.1) ?_
      have hg : g8Of g0 (s'.setToSend (s'.toSend ++ [m'])) = g8Of g0 s := hs.g8 g0
      have ho : (s'.setToSend (s'.toSend ++ [m'])).out = s.out := hfr.out
      cases hout : s.out
      · have h2 := hq.2
        rw [ho, hout] at h2
        simp only [Bool.false_eq_true, if_false] at h2 ⊢
        rw [h2]
        exact ⟨by simp [Sess.setToSend, hs.q], hg⟩
      · have h2 := hq.2
        rw [ho, hout] at h2
        simp only [if_true] at h2 ⊢
        refine ⟨h2.1, ?_⟩
        rw [h2.2, hg]; simp [Sess.setToSend, hs.q]

theorem dropAndSend_spec (g0 : G8) (s : Sess) (m : OutMsg) : SendOut g0 s (dropAndSend s m) m [] s.out := by
  unfold dropAndSend
  obtain ⟨hs, hm⟩ := prep_spec s m
  generalize prep s m = r at hs hm
  obtain ⟨o, s'⟩ := r
  dsimp only at hs hm
  rcases hm with hm | ⟨m', hm, hk, hf⟩
  · subst hm; exact .refused hs
  · subst hm
    have hq := sendQueued_spec g0 (s'.setToSend [m'])
    have hfr : Fr s (s'.setToSend [m']) := hs.fr.trans ⟨rfl, rfl, rfl, rfl, rfl⟩
    refine .sent m' hk hf (hfr.trans hq.1) ?_
    have hg : g8Of g0 (s'.setToSend [m']) = g8Of g0 s := hs.g8 g0
    have ho : (s'.setToSend [m']).out = s.out := hfr.out
    cases hout : s.out
    · have h2 := hq.2
      rw [ho, hout] at h2
      simp only [Bool.false_eq_true, if_false] at h2 ⊢
      rw [h2]
      exact ⟨by simp [Sess.setToSend], hg⟩
    · have h2 := hq.2
      rw [ho, hout] at h2
      simp only [if_true] at h2 ⊢
      refine ⟨h2.1, ?_⟩
      rw [h2.2, hg]; simp [Sess.setToSend]

theorem enqueueAndSend_spec (g0 : G8) (s : Sess) (m : OutMsg) :
    SendOut g0 s (enqueueAndSend s m) m s.keptQueue s.out := by
  unfold enqueueAndSend
  simp only []
  generalize hx : (if (!s.st.loggedOn) = true then s.setToSend [] else s) = x
  have hfx : Fr s x := by rw [← hx]; split <;> exact ⟨rfl, rfl, rfl, rfl, rfl⟩
  have hqx : x.toSend = s.keptQueue := by
    rw [← hx]; unfold Sess.keptQueue; cases s.st.loggedOn <;> simp [Sess.setToSend]
  have hlx : x.log = s.log := by rw [← hx]; split <;> rfl
  have hq := sendQueued_spec g0 (x.setToSend (x.toSend ++ [m]))
  have hfr : Fr s (x.setToSend (x.toSend ++ [m])) := hfx.trans ⟨rfl, rfl, rfl, rfl, rfl⟩
  refine .sent m rfl rfl (hfr.trans hq.1) ?_
  have hg : g8Of g0 (x.setToSend (x.toSend ++ [m])) = g8Of g0 s := by simp [g8Of, Sess.setToSend, hlx]
  have ho : (x.setToSend (x.toSend ++ [m])).out = s.out := hfr.out
  cases hout : s.out
  · have h2 := hq.2
    rw [ho, hout] at h2
    simp only [Bool.false_eq_true, if_false] at h2 ⊢
    rw [h2]
    exact ⟨by simp [Sess.setToSend, hqx], hg⟩
  · have h2 := hq.2
    rw [ho, hout] at h2
    simp only [if_true] at h2 ⊢
    refine ⟨h2.1, ?_⟩
    rw [h2.2, hg]; simp [Sess.setToSend, hqx]

/-! ## 3. the invariant -/

def SState.isLogon : SState → Bool
  | .logon => true
  | _ => false
def SState.isLogout : SState → Bool
  | .logout => true
  | _ => false

theorem SState.connected_eq (st : SState) : st.connected = (st.loggedOn || st.isLogon || st.isLogout) := by
  cases st <;> rfl
theorem SState.loggedOn_not_logon (st : SState) (h : st.loggedOn = true) : st.isLogon = false := by
  cases st <;> simp_all [SState.loggedOn, SState.isLogon]
theorem SState.loggedOn_not_logout (st : SState) (h : st.loggedOn = true) : st.isLogout = false := by
  cases st <;> simp_all [SState.loggedOn, SState.isLogout]
theorem SState.logon_not_loggedOn (st : SState) (h : st.isLogon = true) : st.loggedOn = false := by
  cases st <;> simp_all [SState.loggedOn, SState.isLogon]
theorem SState.logon_not_logout (st : SState) (h : st.isLogon = true) : st.isLogout = false := by
  cases st <;> simp_all [SState.isLogout, SState.isLogon]
theorem SState.logout_not_loggedOn (st : SState) (h : st.isLogout = true) : st.loggedOn = false := by
  cases st <;> simp_all [SState.loggedOn, SState.isLogout]
theorem SState.logout_not_logon (st : SState) (h : st.isLogout = true) : st.isLogon = false := by
  cases st <;> simp_all [SState.isLogout, SState.isLogon]

/-- the queue can be written now without upsetting the automaton: no Logout in it, and no first-time application
    message if a Logout has already gone out -/
def Q (g : G8) (q : List OutMsg) : Prop :=
  (∀ m ∈ q, (m.kind == "5") = false) ∧ (g.sentLogout = true → ∀ m ∈ q, appFirst m = false)

theorem Q_nil (g : G8) : Q g [] := ⟨by simp, by simp⟩
theorem Q_append (g : G8) (q : List OutMsg) (m : OutMsg) (h : Q g q) (hk : (m.kind == "5") = false) (ha : appFirst m = false) :
    Q g (q ++ [m]) := by
  refine ⟨?_, ?_⟩
  · intro x hx; rcases List.mem_append.1 hx with hx | hx
    · exact h.1 x hx
    · simp only [List.mem_singleton] at hx; subst hx; exact hk
  · intro hs x hx; rcases List.mem_append.1 hx with hx | hx
    · exact h.2 hs x hx
    · simp only [List.mem_singleton] at hx; subst hx; exact ha

/-- the (weak) invariant: what holds at every point of an event -/
structure W (g : G8) (s : Sess) : Prop where
  ok : g.ok = true
  conn : g.conn = s.out
  cb : g.cb = (s.st.loggedOn || s.st.isLogout)
  hs : g.cb = true → g.handshake = true
  notif : (s.st.loggedOn || s.st.isLogon || s.st.isLogout) = true → g.notified = false
  fresh : s.out = true → g.fresh = true → (s.st.isLogon = true ∧ s.cfg.initiator = false ∧ g.handshake = false)
  queue : s.out = true → (s.st.loggedOn = true ∨ (s.st.isLogon = true ∧ s.cfg.initiator = true)) → Q g s.toSend
  noconn : (s.st.loggedOn || s.st.isLogon || s.st.isLogout) = false → s.out = false

/-- the strong invariant: what holds between events (and wherever no Logout has been written while logged on) -/
def S (g : G8) (s : Sess) : Prop :=
  W g s ∧ (s.out = true → (s.st.loggedOn || s.st.isLogon) = true → g.sentLogout = false)

def WK (g0 : G8) (s : Sess) : Prop := W (g8Of g0 s) s
def SK (g0 : G8) (s : Sess) : Prop := S (g8Of g0 s) s

theorem SK.w {g0 : G8} {s : Sess} (h : SK g0 s) : WK g0 s := h.1

/-- `W` reads the session through its state class, connection flag, role and queue only -/
theorem W.congr {g : G8} {s r : Sess} (h : W g s) (h1 : r.st.loggedOn = s.st.loggedOn) (h2 : r.st.isLogon = s.st.isLogon)
    (h3 : r.st.isLogout = s.st.isLogout) (h4 : r.out = s.out) (h5 : r.cfg = s.cfg) (h6 : r.toSend = s.toSend) : W g r := by
  obtain ⟨a1, a2, a3, a4, a5, a6, a7, a8⟩ := h
  exact ⟨a1, by rw [h4]; exact a2, by rw [h1, h3]; exact a3, a4, by rw [h1, h2, h3]; exact a5,
    by rw [h4, h2, h5]; exact a6, by rw [h4, h1, h2, h5, h6]; exact a7, by rw [h1, h2, h3, h4]; exact a8⟩

theorem S.congr {g : G8} {s r : Sess} (h : S g s) (h1 : r.st.loggedOn = s.st.loggedOn) (h2 : r.st.isLogon = s.st.isLogon)
    (h3 : r.st.isLogout = s.st.isLogout) (h4 : r.out = s.out) (h5 : r.cfg = s.cfg) (h6 : r.toSend = s.toSend) : S g r :=
  ⟨h.1.congr h1 h2 h3 h4 h5 h6, by rw [h4, h1, h2]; exact h.2⟩

theorem W.sil {g : G8} {s r : Sess} (h : W g s) (hs : Sil s r) : W g r :=
  h.congr (by rw [hs.fr.st]) (by rw [hs.fr.st]) (by rw [hs.fr.st]) hs.fr.out hs.fr.cfg hs.q
theorem S.sil {g : G8} {s r : Sess} (h : S g s) (hs : Sil s r) : S g r :=
  h.congr (by rw [hs.fr.st]) (by rw [hs.fr.st]) (by rw [hs.fr.st]) hs.fr.out hs.fr.cfg hs.q

theorem WK.sil {g0 : G8} {s r : Sess} (h : WK g0 s) (hs : Sil s r) : WK g0 r := by
  unfold WK; rw [hs.g8 g0]; exact W.sil h hs
theorem SK.sil {g0 : G8} {s r : Sess} (h : SK g0 s) (hs : Sil s r) : SK g0 r := by
  unfold SK; rw [hs.g8 g0]; exact S.sil h hs

/-- after a write the queue is empty: whatever the Logout flag now is -/
theorem W.afterWrite {g : G8} {s r : Sess} (h : W g s) (fr : Fr s r) (hq : r.toSend = []) (b : Bool) :
    W { g with fresh := false, sentLogout := b } r := by
  obtain ⟨a1, a2, a3, a4, a5, a6, a7, a8⟩ := h
  exact { ok := a1, conn := (by rw [fr.out]; exact a2), cb := (by rw [fr.st]; exact a3), hs := a4,
          notif := (by rw [fr.st]; exact a5), fresh := (by intro _ hf; cases hf),
          queue := (by intro _ _; rw [hq]; exact Q_nil _), noconn := (by rw [fr.st, fr.out]; exact a8) }

/-- a new queue, same ghost state -/
theorem W.newQueue {g : G8} {s r : Sess} (h : W g s) (fr : Fr s r)
    (hq : s.out = true → (s.st.loggedOn = true ∨ (s.st.isLogon = true ∧ s.cfg.initiator = true)) → Q g r.toSend) : W g r := by
  obtain ⟨a1, a2, a3, a4, a5, a6, a7, a8⟩ := h
  exact ⟨a1, by rw [fr.out]; exact a2, by rw [fr.st]; exact a3, a4, by rw [fr.st]; exact a5,
    by rw [fr.out, fr.st, fr.cfg]; exact a6, by rw [fr.out, fr.st, fr.cfg]; exact hq, by rw [fr.st, fr.out]; exact a8⟩

/-! ### writing -/

theorem c8o_wire (g : G8) (m : OutMsg) :
    c8o g (.wire m) = { g with fresh := false, sentLogout := g.sentLogout || m.kind == "5",
                               ok := g.ok && g.conn && (!g.fresh || m.kind == "A" || m.kind == "5")
                                     && (!appFirst m || (g.handshake && !g.sentLogout)) } := rfl

/-- a batch without Logout, on a connection already written on, whose first-time application messages are all
    allowed, leaves the automaton where it is -/
theorem wr_quiet (g : G8) (q : List OutMsg) (hok : g.ok = true) (hc : g.conn = true) (hf : g.fresh = false)
    (h5 : ∀ m ∈ q, (m.kind == "5") = false)
    (ha : ∀ m ∈ q, appFirst m = true → g.handshake = true ∧ g.sentLogout = false) : wr g q = g := by
  induction q with
  | nil => rfl
  | cons m rest ih =>
    have h1 : c8o g (.wire m) = g := by
      rw [c8o_wire]
      have k5 := h5 m (by simp)
      cases hap : appFirst m
      · cases g; simp_all
      · have := ha m (by simp) hap
        cases g; simp_all
    show wr (c8o g (.wire m)) rest = g
    rw [h1]
    exact ih (fun x hx => h5 x (by simp [hx])) (fun x hx => ha x (by simp [hx]))

/-- the ghost state after writing the kept queue and one engine-generated message -/
theorem wr_engine (g : G8) (kept : List OutMsg) (m : OutMsg) (hok : g.ok = true) (hc : g.conn = true)
    (hfresh : g.fresh = true → kept = [] ∧ (m.kind = "A" ∨ m.kind = "5"))
    (h5 : ∀ x ∈ kept, (x.kind == "5") = false)
    (ha : ∀ x ∈ kept, appFirst x = true → g.handshake = true ∧ g.sentLogout = false)
    (hm : appFirst m = false) :
    wr g (kept ++ [m]) = { g with fresh := false, sentLogout := g.sentLogout || m.kind == "5" } := by
  cases hf : g.fresh
  · rw [wr_append, wr_quiet g kept hok hc hf h5 ha, wr_single, c8o_wire]
    cases g; simp_all
  · obtain ⟨hk, hm2⟩ := hfresh hf
    subst hk
    rw [List.nil_append, wr_single, c8o_wire]
    rcases hm2 with h | h <;> (cases g; simp_all)

/-! ## 4. preservation: the sending primitives -/

/-- neutral step: frame, and both invariants are preserved -/
structure PN (g0 : G8) (s s' : Sess) : Prop where
  fr : Fr s s'
  w : WK g0 s → WK g0 s'
  st : SK g0 s → SK g0 s'
/-- a step that may write a Logout: frame, and the weak invariant is preserved -/
structure PL (g0 : G8) (s s' : Sess) : Prop where
  fr : Fr s s'
  w : WK g0 s → WK g0 s'

theorem PN.refl (g0 : G8) (s : Sess) : PN g0 s s := ⟨Fr.refl s, id, id⟩
theorem PN.trans {g0 : G8} {a b c : Sess} (h1 : PN g0 a b) (h2 : PN g0 b c) : PN g0 a c :=
  ⟨h1.fr.trans h2.fr, fun h => h2.w (h1.w h), fun h => h2.st (h1.st h)⟩
theorem PN.toPL {g0 : G8} {a b : Sess} (h : PN g0 a b) : PL g0 a b := ⟨h.fr, h.w⟩
theorem PL.trans {g0 : G8} {a b c : Sess} (h1 : PL g0 a b) (h2 : PL g0 b c) : PL g0 a c :=
  ⟨h1.fr.trans h2.fr, fun h => h2.w (h1.w h)⟩
theorem PL.refl (g0 : G8) (s : Sess) : PL g0 s s := ⟨Fr.refl s, id⟩
theorem Sil.pn {s r : Sess} (h : Sil s r) (g0 : G8) : PN g0 s r := ⟨h.fr, fun hw => hw.sil h, fun hs => hs.sil h⟩

theorem WK_write {g0 : G8} {s r : Sess} (hW : WK g0 s) (fr : Fr s r) (hq : r.toSend = []) (kept : List OutMsg) (m' : OutMsg)
    (hg : g8Of g0 r = wr (g8Of g0 s) (kept ++ [m'])) (hout : s.out = true)
    (hfresh : (g8Of g0 s).fresh = true → kept = [] ∧ (m'.kind = "A" ∨ m'.kind = "5"))
    (hkept : kept = [] ∨ (kept = s.toSend ∧ s.st.loggedOn = true))
    (hm : appFirst m' = false) :
    WK g0 r ∧ (g8Of g0 r).sentLogout = ((g8Of g0 s).sentLogout || m'.kind == "5") := by
  unfold WK at hW ⊢
  generalize g8Of g0 s = g at hW hg hfresh
  have hc : g.conn = true := by rw [hW.conn]; exact hout
  have h5 : ∀ x ∈ kept, (x.kind == "5") = false := by
    rcases hkept with rfl | ⟨rfl, hl⟩
    · simp
    · exact (hW.queue hout (Or.inl hl)).1
  have ha : ∀ x ∈ kept, appFirst x = true → g.handshake = true ∧ g.sentLogout = false := by
    rcases hkept with rfl | ⟨rfl, hl⟩
    · simp
    · intro x hx hap
      have hcb : g.cb = true := by rw [hW.cb, hl]; rfl
      refine ⟨hW.hs hcb, ?_⟩
      cases hsl : g.sentLogout
      · rfl
      · have := (hW.queue hout (Or.inl hl)).2 hsl x hx
        rw [hap] at this; cases this
  rw [hg, wr_engine g kept m' hW.ok hc hfresh h5 ha hm]
  exact ⟨hW.afterWrite fr hq _, rfl⟩

theorem WK_queue {g0 : G8} {s r : Sess} (hW : WK g0 s) (fr : Fr s r) (hg : g8Of g0 r = g8Of g0 s)
    (hq : s.out = true → (s.st.loggedOn = true ∨ (s.st.isLogon = true ∧ s.cfg.initiator = true)) → Q (g8Of g0 s) r.toSend) :
    WK g0 r := by
  unfold WK at hW ⊢
  rw [hg]; exact hW.newQueue fr hq

theorem SK_of {g0 : G8} {s r : Sess} (hS : SK g0 s) (fr : Fr s r) (hw : WK g0 r)
    (hsl : (g8Of g0 r).sentLogout = (g8Of g0 s).sentLogout) : SK g0 r := by
  refine ⟨hw, ?_⟩
  rw [fr.out, fr.st, hsl]; exact hS.2

/-- a reply that is not a Logout and not a first-time application message -/
theorem pn_sendInReplyTo (g0 : G8) (s : Sess) (m : OutMsg) (hk5 : (m.kind == "5") = false) (ha : appFirst m = false) :
    PN g0 s (sendInReplyTo s m) := by
  cases sendInReplyTo_spec g0 s m with
  | refused h => exact h.pn g0
  | sent m' hk hf fr h =>
    have ha' : appFirst m' = false := by unfold appFirst at ha ⊢; rw [hk, hf]; exact ha
    have hk5' : (m'.kind == "5") = false := by rw [hk]; exact hk5
    cases hwr : (s.st.loggedOn && s.out)
    · rw [hwr] at h
      simp only [Bool.false_eq_true, if_false] at h
      have hw : WK g0 s → WK g0 (sendInReplyTo s m) := fun hW =>
        WK_queue hW fr h.2 (fun ho hc => by rw [h.1]; exact Q_append _ _ _ (hW.queue ho hc) hk5' ha')
      exact ⟨fr, hw, fun hS => SK_of hS fr (hw hS.1) (by rw [h.2])⟩
    · rw [hwr] at h
      simp only [if_true] at h
      simp only [Bool.and_eq_true] at hwr
      have key : WK g0 s → WK g0 (sendInReplyTo s m) ∧ _ := fun hW =>
        WK_write hW fr h.1 s.toSend m' h.2 hwr.2
          (fun hfr => by
            have := (hW.fresh hwr.2 hfr).1
            rw [SState.loggedOn_not_logon _ hwr.1] at this; cases this)
          (Or.inr ⟨rfl, hwr.1⟩) ha'
      exact ⟨fr, fun hW => (key hW).1, fun hS => SK_of hS fr (key hS.1).1 (by rw [(key hS.1).2, hk5']; simp)⟩

/-- a Logout sent as a reply, anywhere but in the logon state -/
theorem pl_sendLogoutMsg (g0 : G8) (s : Sess) (o : OutMsg) (ho5 : o.kind = "5") (hst : s.st.isLogon = false) :
    PL g0 s (sendInReplyTo s o) := by
  cases sendInReplyTo_spec g0 s o with
  | refused h => exact (h.pn g0).toPL
  | sent m' hk hf fr h =>
    have ha' : appFirst m' = false := by unfold appFirst; rw [hk, ho5]; rfl
    cases hwr : (s.st.loggedOn && s.out)
    · rw [hwr] at h
      simp only [Bool.false_eq_true, if_false] at h
      refine ⟨fr, fun hW => WK_queue hW fr h.2 (fun ho hc => ?_)⟩
      rcases hc with hc | hc
      · simp [hc, ho] at hwr
      · rw [hst] at hc; cases hc.1
    · rw [hwr] at h
      simp only [if_true] at h
      simp only [Bool.and_eq_true] at hwr
      exact ⟨fr, fun hW => (WK_write hW fr h.1 s.toSend m' h.2 hwr.2
          (fun hfr => by
            have := (hW.fresh hwr.2 hfr).1
            rw [hst] at this; cases this)
          (Or.inr ⟨rfl, hwr.1⟩) ha').1⟩

theorem pl_sendLogout (g0 : G8) (s : Sess) (hst : s.st.isLogon = false) : PL g0 s (sendInReplyTo s (mkOut "5" [])) :=
  pl_sendLogoutMsg g0 s _ rfl hst

/-- `dropAndSend` of a Logon: fine in every state -/
theorem pn_dropAndSend_logon (g0 : G8) (s : Sess) (m : OutMsg) (hk : m.kind = "A") : PN g0 s (dropAndSend s m) := by
  cases dropAndSend_spec g0 s m with
  | refused h => exact h.pn g0
  | sent m' hk' hf fr h =>
    have hkA : m'.kind = "A" := hk'.trans hk
    have ha' : appFirst m' = false := by unfold appFirst; rw [hkA]; rfl
    have hk5' : (m'.kind == "5") = false := by rw [hkA]; rfl
    cases hout : s.out
    · rw [hout] at h
      simp only [Bool.false_eq_true, if_false] at h
      have hw : WK g0 s → WK g0 (dropAndSend s m) := fun hW =>
        WK_queue hW fr h.2 (fun ho _ => by rw [hout] at ho; cases ho)
      exact ⟨fr, hw, fun hS => SK_of hS fr (hw hS.1) (by rw [h.2])⟩
    · rw [hout] at h
      simp only [if_true] at h
      have key : WK g0 s → WK g0 (dropAndSend s m) ∧ _ := fun hW =>
        WK_write hW fr h.1 [] m' h.2 hout (fun _ => ⟨rfl, Or.inl hkA⟩) (Or.inl rfl) ha'
      exact ⟨fr, fun hW => (key hW).1, fun hS => SK_of hS fr (key hS.1).1 (by rw [(key hS.1).2, hk5']; simp)⟩

/-- `dropAndSend` of a Logout: fine in every state for the weak invariant -/
theorem pl_dropAndSend_logoutMsg (g0 : G8) (s : Sess) (o : OutMsg) (ho5 : o.kind = "5") : PL g0 s (dropAndSend s o) := by
  cases dropAndSend_spec g0 s o with
  | refused h => exact (h.pn g0).toPL
  | sent m' hk' hf fr h =>
    have hk5 : m'.kind = "5" := hk'.trans ho5
    have ha' : appFirst m' = false := by unfold appFirst; rw [hk5]; rfl
    cases hout : s.out
    · rw [hout] at h
      simp only [Bool.false_eq_true, if_false] at h
      exact ⟨fr, fun hW => WK_queue hW fr h.2 (fun ho _ => by rw [hout] at ho; cases ho)⟩
    · rw [hout] at h
      simp only [if_true] at h
      exact ⟨fr, fun hW => (WK_write hW fr h.1 [] m' h.2 hout (fun _ => ⟨rfl, Or.inr hk5⟩) (Or.inl rfl) ha').1⟩

theorem pl_dropAndSend_logout (g0 : G8) (s : Sess) : PL g0 s (dropAndSend s (mkOut "5" [])) :=
  pl_dropAndSend_logoutMsg g0 s _ rfl

/-- a replay element, in a state that has been logged on -/
theorem pn_enqueueAndSend (g0 : G8) (s : Sess) (m : OutMsg) (hn : (s.st.loggedOn || s.st.isLogout) = true)
    (hk5 : (m.kind == "5") = false) (ha : appFirst m = false) : PN g0 s (enqueueAndSend s m) := by
  have hnl : s.st.isLogon = false := by
    cases hl : s.st.isLogon
    · rfl
    · rw [SState.logon_not_loggedOn _ hl, SState.logon_not_logout _ hl] at hn; cases hn
  cases enqueueAndSend_spec g0 s m with
  | refused h => exact h.pn g0
  | sent m' hk hf fr h =>
    have ha' : appFirst m' = false := by unfold appFirst at ha ⊢; rw [hk, hf]; exact ha
    have hk5' : (m'.kind == "5") = false := by rw [hk]; exact hk5
    cases hout : s.out
    · rw [hout] at h
      simp only [Bool.false_eq_true, if_false] at h
      have hw : WK g0 s → WK g0 (enqueueAndSend s m) := fun hW =>
        WK_queue hW fr h.2 (fun ho _ => by rw [hout] at ho; cases ho)
      exact ⟨fr, hw, fun hS => SK_of hS fr (hw hS.1) (by rw [h.2])⟩
    · rw [hout] at h
      simp only [if_true] at h
      have hkept : s.keptQueue = [] ∨ (s.keptQueue = s.toSend ∧ s.st.loggedOn = true) := by
        unfold Sess.keptQueue; cases s.st.loggedOn <;> simp
      have key : WK g0 s → WK g0 (enqueueAndSend s m) ∧ _ := fun hW =>
        WK_write hW fr h.1 s.keptQueue m' h.2 hout
          (fun hfr => by
            have := (hW.fresh hout hfr).1
            rw [hnl] at this; cases this)
          hkept ha'
      exact ⟨fr, fun hW => (key hW).1, fun hS => SK_of hS fr (key hS.1).1 (by rw [(key hS.1).2, hk5']; simp)⟩

theorem pn_setToSend_nil (g0 : G8) (s : Sess) : PN g0 s (s.setToSend []) := by
  have fr : Fr s (s.setToSend []) := ⟨rfl, rfl, rfl, rfl, rfl⟩
  have hw : WK g0 s → WK g0 (s.setToSend []) := fun hW => WK_queue hW fr rfl (fun _ _ => Q_nil _)
  exact ⟨fr, hw, fun hS => SK_of hS fr (hw hS.1) rfl⟩

theorem pn_dropAndReset (g0 : G8) (s : Sess) : PN g0 s (dropAndReset s) :=
  (pn_setToSend_nil g0 s).trans ((sil_storeReset _).pn g0)

end Qfx.Sess
