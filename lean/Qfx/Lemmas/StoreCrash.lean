/- C17: the view a fresh store has of a crash image, and the images at primitive boundaries / after power loss -/
import Qfx.Lemmas.StoreFile
namespace Qfx.Store
open Qfx Qfx.Spec.Store

/-! ## the recovered view -/

/-- what a fresh syncing store opened on an image reports: both counters and `GetMessages` over the whole `int` range -/
def recoveredView (img : FS) : Int × Int × (List Bytes × IterEnd) :=
  let r := FileW.open true img 0
  (r.st.cache.nextS, r.st.cache.nextT, fileIterate (r.fs.header.getD []) (r.fs.body.getD []) 0 (maxInt : Int) 0)

/-- the counter a fresh store loads from a counter file -/
def counterOf (o : Option Bytes) : Int :=
  match o with
  | some b => (match atoiGo (trimCRLF b) with
               | some v => v
               | none => 1)
  | none => 1

def viewOf (img : FS) : Int × Int × (List Bytes × IterEnd) :=
  (counterOf img.sender, counterOf img.target, fileIterate (dropTorn (img.header.getD [])) (img.body.getD []) 0 (maxInt : Int) 0)

def touchesHB : Prim → Bool
  | .write f _ _ => f == .header || f == .body
  | .remove f => f == .header || f == .body
  | .truncate f _ => f == .header || f == .body
  | _ => false

theorem applyPrim_hb (fs : FS) (p : Prim) (h : touchesHB p = false) :
    (applyPrim fs p).header.getD [] = fs.header.getD [] ∧ (applyPrim fs p).body.getD [] = fs.body.getD [] := by
  obtain ⟨hd, bd, se, sn, tg⟩ := fs
  cases p with
  | write f off d =>
    cases f <;> simp [touchesHB] at h <;> simp [applyPrim, FS.get, FS.set] <;> split <;> simp
  | sync f => simp [applyPrim]
  | create f =>
    cases f <;> simp [applyPrim, FS.get, FS.set] <;> split <;> simp_all
  | remove f =>
    cases f <;> simp [touchesHB] at h <;> simp [applyPrim, FS.set]
  | truncate f n =>
    cases f <;> simp [touchesHB] at h <;> simp [applyPrim, FS.get, FS.set] <;> split <;> simp

theorem applyPrims_hb (ps : List Prim) : ∀ (fs : FS), (ps.all fun p => !touchesHB p) = true →
    (applyPrims fs ps).header.getD [] = fs.header.getD [] ∧ (applyPrims fs ps).body.getD [] = fs.body.getD [] := by
  induction ps with
  | nil => intro fs _; exact ⟨rfl, rfl⟩
  | cons p t ih =>
    intro fs h
    simp only [List.all_cons, Bool.and_eq_true, Bool.not_eq_true'] at h
    have h1 := applyPrim_hb fs p h.1
    have h2 := ih (applyPrim fs p) h.2
    show (applyPrims (applyPrim fs p) t).header.getD [] = _ ∧ (applyPrims (applyPrim fs p) t).body.getD [] = _
    rw [h2.1, h2.2, h1.1, h1.2]; exact ⟨rfl, rfl⟩

theorem closePrims_no_hb (o : Bool) : ((closePrims o).all fun p => !touchesHB p) = true := by cases o <;> rfl
theorem openPrims_no_hb : (openPrims.all fun p => !touchesHB p) = true := rfl
theorem setSession_no_hb (sync : Bool) (t : Nat) : ((setSessionPrims sync t).all fun p => !touchesHB p) = true := by cases sync <;> rfl
theorem setSeqS_no_hb (sync : Bool) (n : Int) : ((setSeqNumPrims sync .sender n).all fun p => !touchesHB p) = true := by cases sync <;> rfl
theorem setSeqT_no_hb (sync : Bool) (n : Int) : ((setSeqNumPrims sync .target n).all fun p => !touchesHB p) = true := by cases sync <;> rfl

theorem apply_trunc (sync : Bool) (fs : FS) (h : Bytes) (hh : fs.header.getD [] = h) :
    (applyPrims fs (truncPrims sync h)).header.getD [] = dropTorn h ∧ (applyPrims fs (truncPrims sync h)).body.getD [] = fs.body.getD [] := by
  unfold truncPrims
  by_cases hk : keepLen h = h.length
  · simp [hk, applyPrims, dropTorn, hh]
  · obtain ⟨hd, bd, se, sn, tg⟩ := fs
    cases hd with
    | none => simp at hh; subst hh; exact absurd rfl hk
    | some x =>
      simp at hh; subst hh
      cases sync <;> simp [hk, applyPrims, applyPrim, syncIf, FS.get, FS.set, dropTorn]

/-- `Refresh` changes the header only by dropping an incomplete trailing line, and never the body -/
theorem refreshOp_hb (st : FStore) (fs : FS) (now : Nat) :
    (applyPrims fs (refreshOp st fs now).2).header.getD [] = dropTorn (fs.header.getD [])
    ∧ (applyPrims fs (refreshOp st fs now).2).body.getD [] = fs.body.getD [] := by
  simp only [refreshOp]
  generalize populateCache (st.cache.reset now) fs = pc
  obtain ⟨pop, c1⟩ := pc
  simp only
  have hA := applyPrims_hb (closePrims st.opened ++ openPrims) fs (by simp [List.all_append, closePrims_no_hb, openPrims_no_hb])
  have hT := apply_trunc st.sync (applyPrims fs (closePrims st.opened ++ openPrims)) (fs.header.getD []) hA.1
  have hR := applyPrims_hb ((if pop = true then [] else setSessionPrims st.sync c1.ctime) ++ setSeqNumPrims st.sync .sender c1.nextS
      ++ setSeqNumPrims st.sync .target (c1.setS c1.nextS).nextT)
    (applyPrims (applyPrims fs (closePrims st.opened ++ openPrims)) (truncPrims st.sync (fs.header.getD [])))
    (by cases pop <;> simp [List.all_append, setSession_no_hb, setSeqS_no_hb, setSeqT_no_hb])
  have e : closePrims st.opened ++ (openPrims ++ truncPrims st.sync (fs.header.getD [])) ++ (if pop = true then [] else setSessionPrims st.sync c1.ctime)
        ++ setSeqNumPrims st.sync .sender c1.nextS ++ setSeqNumPrims st.sync .target (c1.setS c1.nextS).nextT
      = (closePrims st.opened ++ openPrims) ++ (truncPrims st.sync (fs.header.getD []) ++
          ((if pop = true then [] else setSessionPrims st.sync c1.ctime) ++ setSeqNumPrims st.sync .sender c1.nextS
            ++ setSeqNumPrims st.sync .target (c1.setS c1.nextS).nextT)) := by simp [List.append_assoc]
  rw [e, applyPrims_append, applyPrims_append, hR.1, hR.2, hT.1, hT.2, hA.2]
  exact ⟨rfl, rfl⟩

theorem populate_counters (c : MemStore) (img : FS) (h1 : c.senderM1 = 0) (h2 : c.targetM1 = 0) :
    (populateCache c img).2.nextS = counterOf img.sender ∧ (populateCache c img).2.nextT = counterOf img.target := by
  obtain ⟨hd, bd, se, sn, tg⟩ := img
  unfold populateCache counterOf
  cases se with
  | none =>
    cases sn <;> cases tg <;> simp [MemStore.nextS, MemStore.nextT, MemStore.setS, MemStore.setT, h1, h2] <;>
      (repeat' split) <;> simp_all [MemStore.nextS, MemStore.nextT, MemStore.setS, MemStore.setT]
  | some sb =>
    cases parseTime sb <;> cases sn <;> cases tg <;> simp [MemStore.nextS, MemStore.nextT, MemStore.setS, MemStore.setT, h1, h2] <;>
      (repeat' split) <;> simp_all [MemStore.nextS, MemStore.nextT, MemStore.setS, MemStore.setT]

theorem refreshOp_counters (st : FStore) (fs : FS) (now : Nat) :
    (refreshOp st fs now).1.cache.nextS = counterOf fs.sender ∧ (refreshOp st fs now).1.cache.nextT = counterOf fs.target := by
  have hp := populate_counters (st.cache.reset now) fs rfl rfl
  simp only [refreshOp]
  generalize populateCache (st.cache.reset now) fs = pc at hp ⊢
  obtain ⟨pop, c1⟩ := pc
  simp only [MemStore.setS, MemStore.setT, MemStore.nextS, MemStore.nextT] at hp ⊢
  omega

/-- the view of a fresh store depends on the image only through the two counter files, the header (minus an incomplete last line)
    and the body -/
theorem recoveredView_eq (img : FS) : recoveredView img = viewOf img := by
  unfold recoveredView viewOf FileW.open fileOpenPrims
  have hc := refreshOp_counters { cache := MemStore.reset {} 0, sync := true, opened := false } img (0 + 1)
  have hb := refreshOp_hb { cache := MemStore.reset {} 0, sync := true, opened := false } img (0 + 1)
  simp only [hc.1, hc.2, hb.1, hb.2]

/-! ## crash images between primitives and after power loss -/

def AllPre (Q : DFS → Prop) : DFS → List Prim → Prop
  | d, [] => Q d
  | d, p :: t => Q d ∧ AllPre Q (applyPrimD d p) t

theorem allPre_take (Q : DFS → Prop) : ∀ (ps : List Prim) (d : DFS), AllPre Q d ps → ∀ i, Q (applyPrimsD d (ps.take i)) := by
  intro ps
  induction ps with
  | nil => intro d h i; simpa [applyPrimsD, AllPre] using h
  | cons p t ih =>
    intro d h i
    cases i with
    | zero => simpa [applyPrimsD] using h.1
    | succ i => simpa [applyPrimsD, List.take_succ_cons] using ih (applyPrimD d p) h.2 i

theorem crashImage_power (d : DFS) (ps : List Prim) (i cut : Nat) :
    crashImage d ps i cut .power = (applyPrimsD d (ps.take i)).dur := by
  unfold crashImage
  cases h : ps[i]? with
  | none => simp
  | some p =>
    cases p with
    | write f off data => by_cases hc : cut = 0 <;> simp [hc, applyPrimD]
    | _ => simp

theorem crashImage_boundary (d : DFS) (ps : List Prim) (i : Nat) :
    crashImage d ps i 0 .process = (applyPrimsD d (ps.take i)).vol := by
  unfold crashImage
  cases h : ps[i]? with
  | none => simp
  | some p => cases p <;> simp

/-- the C17 conclusion about a recovered view, given the abstract values before (`p…`) and after (`q…`) the interrupted operation:
    completed saves intact, counters before-or-after, used ⇒ retrievable -/
def Concl (pm qm : List Bytes) (pS qS pT qT : Int) (v : Int × Int × (List Bytes × IterEnd)) : Prop :=
  (v.2.2 = (pm, IterEnd.ok) ∨ v.2.2 = (qm, IterEnd.ok))
  ∧ (v.1 = pS ∨ v.1 = qS) ∧ (v.2.1 = pT ∨ v.2.1 = qT)
  ∧ (v.1 = qS → qS ≠ pS → v.2.2 = (qm, IterEnd.ok))

theorem counterOf_none : counterOf none = 1 := rfl
theorem counterOf_empty : counterOf (some []) = 1 := rfl
theorem counterOf_fmt (S : Nat) (h : S ≤ maxInt) : counterOf (some (fmt019 (S : Int))) = (S : Int) := by
  simp [counterOf, counter_roundtrip S h]

theorem fileIterate_nil (B : Bytes) (b e : Int) (k : Nat) : fileIterate [] B b e k = ([], IterEnd.ok) := by
  simp [fileIterate, fileIterLoop, scanf3, scanNum]

theorem selectRange_all (l : MsgMap) (h : ∀ p ∈ l, p.1 ≤ maxInt) : selectRange 0 (maxInt : Int) l = values l := by
  induction l with
  | nil => rfl
  | cons p t ih =>
    have := h p (by simp)
    rw [selectRange_cons, inRange_true _ _ _ (by omega), ih (fun q hq => h q (by simp [hq]))]
    simp [values]

theorem fileIterate_whole (B : Bytes) (ents : List Ent) (hb : BodyOK B ents) (hbd : EntsB ents) (hso : Sorted (entMsgs ents)) :
    fileIterate (renderH ents) B 0 (maxInt : Int) 0 = (values (entMsgs ents), IterEnd.ok) := by
  rw [fileIterate_eq B ents 0 maxInt 0 hb hbd hso, selectRange_all]
  · simp [cbRun]
  · intro p hp
    simp only [entMsgs, List.mem_map] at hp
    obtain ⟨e, he, rfl⟩ := hp
    exact (hbd e he).1


theorem viewOf_mk (h b se sn tg : Option Bytes) :
    viewOf ⟨h, b, se, sn, tg⟩ = (counterOf sn, counterOf tg, fileIterate (dropTorn (h.getD [])) (b.getD []) 0 (maxInt : Int) 0) := rfl

theorem dropTorn_nil : dropTorn [] = [] := rfl

/-- the predicate checked at every crash point: both the process-crash image and the power-loss image recover well -/
def GoodD (pm qm : List Bytes) (pS qS pT qT : Int) (d : DFS) : Prop :=
  Concl pm qm pS qS pT qT (viewOf d.vol) ∧ Concl pm qm pS qS pT qT (viewOf d.dur)

macro "crash_simp" "[" ts:Lean.Parser.Tactic.simpLemma,* "]" : tactic =>
  `(tactic| (simp [GoodD, AllPre, applyPrimD, applyPrim, FS.get, FS.set, goodFS, viewOf_mk, Concl, counterOf_none, counterOf_empty,
      fileIterate_nil, writeAt_end, dropTorn_nil, $ts,*]))

theorem allPre_setSender (pm : List Bytes) (H B : Bytes) (ct S T n : Nat) (hS : S ≤ maxInt) (hT : T ≤ maxInt) (hn : n ≤ maxInt)
    (tH : dropTorn H = H) (I0 : fileIterate H B 0 (maxInt : Int) 0 = (pm, IterEnd.ok)) :
    AllPre (GoodD pm pm S n T T) ⟨goodFS H B ct S T, goodFS H B ct S T⟩ (setSeqNumPrims true .sender (n : Int)) := by
  have hw := writeAt_cover (fmt019 (S : Int)) (fmt019 (n : Int)) (by rw [fmt019_length S hS, fmt019_length n hn]; omega)
  have c1 := counterOf_fmt S hS
  have c2 := counterOf_fmt T hT
  have c3 := counterOf_fmt n hn
  crash_simp [setSeqNumPrims, syncIf, hw, c1, c2, c3, tH, I0]

theorem allPre_setTarget (pm : List Bytes) (H B : Bytes) (ct S T n : Nat) (hS : S ≤ maxInt) (hT : T ≤ maxInt) (hn : n ≤ maxInt)
    (tH : dropTorn H = H) (I0 : fileIterate H B 0 (maxInt : Int) 0 = (pm, IterEnd.ok)) :
    AllPre (GoodD pm pm S S T n) ⟨goodFS H B ct S T, goodFS H B ct S T⟩ (setSeqNumPrims true .target (n : Int)) := by
  have hw := writeAt_cover (fmt019 (T : Int)) (fmt019 (n : Int)) (by rw [fmt019_length T hT, fmt019_length n hn]; omega)
  have c1 := counterOf_fmt S hS
  have c2 := counterOf_fmt T hT
  have c3 := counterOf_fmt n hn
  crash_simp [setSeqNumPrims, syncIf, hw, c1, c2, c3, tH, I0]

theorem allPre_save (pm qm : List Bytes) (H B line m : Bytes) (ct S T : Nat) (hS : S ≤ maxInt) (hT : T ≤ maxInt)
    (tH : dropTorn H = H) (tHl : dropTorn (H ++ line) = H ++ line)
    (I0 : fileIterate H B 0 (maxInt : Int) 0 = (pm, IterEnd.ok))
    (I1 : fileIterate H (B ++ m) 0 (maxInt : Int) 0 = (pm, IterEnd.ok))
    (I2 : fileIterate (H ++ line) (B ++ m) 0 (maxInt : Int) 0 = (qm, IterEnd.ok)) :
    AllPre (GoodD pm qm S S T T) ⟨goodFS H B ct S T, goodFS H B ct S T⟩
      [.write .body B.length m, .write .header H.length line, .sync .body, .sync .header] := by
  have c1 := counterOf_fmt S hS
  have c2 := counterOf_fmt T hT
  crash_simp [c1, c2, tH, tHl, I0, I1, I2]

theorem allPre_saveIncr (pm qm : List Bytes) (H B line m : Bytes) (ct S T : Nat) (hS : S + 1 ≤ maxInt) (hT : T ≤ maxInt)
    (tH : dropTorn H = H) (tHl : dropTorn (H ++ line) = H ++ line)
    (I0 : fileIterate H B 0 (maxInt : Int) 0 = (pm, IterEnd.ok))
    (I1 : fileIterate H (B ++ m) 0 (maxInt : Int) 0 = (pm, IterEnd.ok))
    (I2 : fileIterate (H ++ line) (B ++ m) 0 (maxInt : Int) 0 = (qm, IterEnd.ok)) :
    AllPre (GoodD pm qm S ((S : Int) + 1) T T) ⟨goodFS H B ct S T, goodFS H B ct S T⟩
      ([.write .body B.length m, .write .header H.length line, .sync .body, .sync .header]
        ++ setSeqNumPrims true .sender ((S : Int) + 1)) := by
  have ec : ((S + 1 : Nat) : Int) = (S : Int) + 1 := by omega
  have hw := writeAt_cover (fmt019 (S : Int)) (fmt019 ((S + 1 : Nat) : Int)) (by rw [fmt019_length S (by omega), fmt019_length (S + 1) hS]; omega)
  have c1 := counterOf_fmt S (by omega)
  have c2 := counterOf_fmt T hT
  have c3 := counterOf_fmt (S + 1) hS
  rw [ec] at hw c3
  crash_simp [setSeqNumPrims, syncIf, hw, c1, c2, c3, tH, tHl, I0, I1, I2]
  intros; omega

theorem allPre_noop (pm : List Bytes) (H B : Bytes) (ct S T : Nat) (hS : S ≤ maxInt) (hT : T ≤ maxInt)
    (tH : dropTorn H = H) (I0 : fileIterate H B 0 (maxInt : Int) 0 = (pm, IterEnd.ok)) (ps : List Prim)
    (hps : ∀ p ∈ ps, applyPrimD ⟨goodFS H B ct S T, goodFS H B ct S T⟩ p = ⟨goodFS H B ct S T, goodFS H B ct S T⟩) :
    AllPre (GoodD pm pm S S T T) ⟨goodFS H B ct S T, goodFS H B ct S T⟩ ps := by
  have c1 := counterOf_fmt S hS
  have c2 := counterOf_fmt T hT
  have base : GoodD pm pm S S T T ⟨goodFS H B ct S T, goodFS H B ct S T⟩ := by
    simp [GoodD, goodFS, viewOf_mk, Concl, c1, c2, tH, I0]
  induction ps with
  | nil => exact base
  | cons p t ih =>
    refine ⟨base, ?_⟩
    rw [hps p (by simp)]
    exact ih (fun q hq => hps q (by simp [hq]))

/-- primitives that leave well-formed, fully synced files as they are: syncs, creates of existing files, rewrites of a counter
    file with the value it already holds -/
theorem noop_prims (H B : Bytes) (ct S T : Nat) (o : Bool) :
    ∀ p ∈ closePrims o ++ openPrims ++ setSeqNumPrims true .sender (S : Int) ++ setSeqNumPrims true .target (T : Int)
          ++ syncBH ++ [.create .body, .create .header],
      applyPrimD ⟨goodFS H B ct S T, goodFS H B ct S T⟩ p = ⟨goodFS H B ct S T, goodFS H B ct S T⟩ := by
  have hw1 := writeAt_cover (fmt019 (S : Int)) (fmt019 (S : Int)) (by omega)
  have hw2 := writeAt_cover (fmt019 (T : Int)) (fmt019 (T : Int)) (by omega)
  intro p hp
  cases o <;>
    simp [closePrims, openPrims, setSeqNumPrims, syncIf, syncBH] at hp <;>
    rcases hp with rfl | rfl | rfl | rfl | rfl | rfl | rfl | rfl | rfl | rfl | rfl | rfl | rfl | rfl | rfl | rfl | rfl | rfl <;>
    simp [applyPrimD, applyPrim, goodFS, FS.get, FS.set, hw1, hw2]



theorem allPre_reset (pm : List Bytes) (H B : Bytes) (ct S T t : Nat) (hS : S ≤ maxInt) (hT : T ≤ maxInt)
    (tH : dropTorn H = H) (I0 : fileIterate H B 0 (maxInt : Int) 0 = (pm, IterEnd.ok)) :
    AllPre (GoodD pm [] S 1 T 1) ⟨goodFS H B ct S T, goodFS H B ct S T⟩
      (closePrims true ++ removePrims ++ openPrims ++ setSessionPrims true t ++ setSeqNumPrims true .sender 1
        ++ setSeqNumPrims true .target 1) := by
  have c1 := counterOf_fmt S hS
  have c2 := counterOf_fmt T hT
  have c3 : counterOf (some (fmt019 1)) = 1 := counterOf_fmt 1 (by unfold maxInt; omega)
  have hw : ∀ x : Bytes, writeAt [] 0 x = x := fun x => by simp [writeAt]
  crash_simp [closePrims, removePrims, openPrims, setSessionPrims, setSeqNumPrims, syncIf, hw, c1, c2, c3, tH, I0]
  intros; omega


theorem noop_of (H B : Bytes) (ct S T : Nat) (o : Bool) (p : Prim)
    (hp : p ∈ closePrims o ∨ p ∈ openPrims ∨ p ∈ setSeqNumPrims true .sender (S : Int) ∨ p ∈ setSeqNumPrims true .target (T : Int)
          ∨ p ∈ syncBH ∨ p ∈ [Prim.create .body, Prim.create .header]) :
    applyPrimD ⟨goodFS H B ct S T, goodFS H B ct S T⟩ p = ⟨goodFS H B ct S T, goodFS H B ct S T⟩ := by
  apply noop_prims H B ct S T o
  simp only [List.mem_append]
  rcases hp with h | h | h | h | h | h <;> simp [h]

theorem refreshOp_prims_good (st : FStore) (H B : Bytes) (ct S T now : Nat) (hS : S ≤ maxInt) (hT : T ≤ maxInt) (hH : EndsNL H) :
    (refreshOp st (goodFS H B ct S T) now).2
      = closePrims st.opened ++ openPrims ++ setSeqNumPrims st.sync .sender (S : Int) ++ setSeqNumPrims st.sync .target (T : Int) := by
  have e1 : (S : Int) - 1 + 1 = (S : Int) := by omega
  have e2 : (T : Int) - 1 + 1 = (T : Int) := by omega
  simp only [refreshOp, populate_good _ H B ct S T hS hT, MemStore.reset, MemStore.setS, MemStore.setT, MemStore.nextS, MemStore.nextT,
    e1, e2, if_true, List.append_nil, goodFS_header, Option.getD_some, truncPrims_of_endsNL _ H hH]

theorem refreshOp_prims_fresh (c : MemStore) (sync : Bool) (now : Nat) :
    (refreshOp ⟨c, sync, false⟩ {} now).2
      = openPrims ++ setSessionPrims sync now ++ setSeqNumPrims sync .sender 1 ++ setSeqNumPrims sync .target 1 := by
  simp [refreshOp, populateCache, closePrims, MemStore.reset, MemStore.setS, MemStore.setT, MemStore.nextS, MemStore.nextT, truncPrims, keepLen]

theorem len_some (b : Bytes) : len (some b) = b.length := rfl

theorem values_entMsgs_append (l : MsgMap) (n : Nat) (m : Bytes) : values (l ++ [(n, m)]) = values l ++ [m] := by simp [values]

/-- every crash point between primitives (process crash) and every power-loss point of every operation on a reachable state of
    the syncing file store recovers to a view that satisfies the C17 conclusion -/
theorem crash_allPre (s : AStore) (c : MemStore) (clock : Nat) (hi : Option Nat) (ents : List Ent) (B : Bytes) (o : Op)
    (h : FileR s ⟨⟨c, true, true⟩, goodFS (renderH ents) B c.ctime s.sender s.target, clock⟩ hi ents B)
    (ha : ascendingOk hi o = true) (hfit' : Fits (s.step o).1) :
    AllPre (GoodD (values s.msgs) (values (s.step o).1.msgs) s.sender (s.step o).1.sender s.target (s.step o).1.target)
      ⟨goodFS (renderH ents) B c.ctime s.sender s.target, goodFS (renderH ents) B c.ctime s.sender s.target⟩
      (fileOpPrims ⟨c, true, true⟩ (goodFS (renderH ents) B c.ctime s.sender s.target) clock o).2.1 := by
  obtain ⟨_, _, hcs, hct, hfr, hm, hbody, hentsb, hblen, hso, hb, hfit⟩ := h
  simp only at hcs hct hfr
  have hS := hfit.1
  have hT := hfit.2.1
  have I0 : fileIterate (renderH ents) B 0 (maxInt : Int) 0 = (values s.msgs, IterEnd.ok) := by
    rw [fileIterate_whole B ents hbody hentsb (hm ▸ hso), hm]
  have hH := renderH_endsNL ents
  have tH := dropTorn_of_endsNL _ hH
  cases o with
  | setS n => exact allPre_setSender _ _ B c.ctime s.sender s.target n hS hT hfit'.1 tH I0
  | setT n => exact allPre_setTarget _ _ B c.ctime s.sender s.target n hS hT hfit'.2.1 tH I0
  | incS =>
    have e : c.nextS + 1 = ((s.sender + 1 : Nat) : Int) := by rw [hcs]; omega
    simp only [fileOpPrims, e]
    exact allPre_setSender _ _ B c.ctime s.sender s.target (s.sender + 1) hS hT hfit'.1 tH I0
  | incT =>
    have e : c.nextT + 1 = ((s.target + 1 : Nat) : Int) := by rw [hct]; omega
    simp only [fileOpPrims, e]
    exact allPre_setTarget _ _ B c.ctime s.sender s.target (s.target + 1) hS hT hfit'.2.1 tH I0
  | save n m =>
    have hlt := asc_keys_lt hi s.msgs n hb (asc_save hi n m ha)
    have hins := ainsert_asc n m s.msgs hlt
    have hf2 : (∀ p ∈ s.msgs ++ [(n, m)], p.1 ≤ maxInt) ∧ totalLen (s.msgs ++ [(n, m)]) ≤ maxInt := by
      have := hfit'; simp only [AStore.step, hins] at this; exact this.2.2
    obtain ⟨a1, a2, a3, a4, _, a6, _⟩ := fileR_save_aux s hi ents B n m hm hbody hentsb hblen hso hb hlt hf2
    have I1 : fileIterate (renderH ents) (B ++ m) 0 (maxInt : Int) 0 = (values s.msgs, IterEnd.ok) := by
      rw [fileIterate_whole (B ++ m) ents (fun e he => take_drop_append B m e.msg e.off (hbody e he)) hentsb (hm ▸ hso), hm]
    have I2 : fileIterate (renderH ents ++ headerLine (n : Int) B.length m.length) (B ++ m) 0 (maxInt : Int) 0
        = (values (s.msgs ++ [(n, m)]), IterEnd.ok) := by
      rw [← a1, fileIterate_whole (B ++ m) _ a3 a4 (a2 ▸ a6), a2]
    simp only [fileOpPrims, saveMessagePrims, AStore.step, hins, goodFS_header, goodFS_body, len_some, syncBH, if_true, List.cons_append,
      List.nil_append]
    exact allPre_save _ _ _ B _ m c.ctime s.sender s.target hS hT tH
      (dropTorn_of_endsNL _ (endsNL_append _ _ (headerLine_endsNL _ _ _))) I0 I1 I2
  | saveIncr n m =>
    have hlt := asc_keys_lt hi s.msgs n hb (asc_saveIncr hi n m ha)
    have hins := ainsert_asc n m s.msgs hlt
    have hf2 : (∀ p ∈ s.msgs ++ [(n, m)], p.1 ≤ maxInt) ∧ totalLen (s.msgs ++ [(n, m)]) ≤ maxInt := by
      have := hfit'; simp only [AStore.step, hins] at this; exact this.2.2
    have hn : s.sender + 1 ≤ maxInt := hfit'.1
    obtain ⟨a1, a2, a3, a4, _, a6, _⟩ := fileR_save_aux s hi ents B n m hm hbody hentsb hblen hso hb hlt hf2
    have I1 : fileIterate (renderH ents) (B ++ m) 0 (maxInt : Int) 0 = (values s.msgs, IterEnd.ok) := by
      rw [fileIterate_whole (B ++ m) ents (fun e he => take_drop_append B m e.msg e.off (hbody e he)) hentsb (hm ▸ hso), hm]
    have I2 : fileIterate (renderH ents ++ headerLine (n : Int) B.length m.length) (B ++ m) 0 (maxInt : Int) 0
        = (values (s.msgs ++ [(n, m)]), IterEnd.ok) := by
      rw [← a1, fileIterate_whole (B ++ m) _ a3 a4 (a2 ▸ a6), a2]
    have e : c.nextS + 1 = (s.sender : Int) + 1 := by rw [hcs]
    have ec : ((s.sender + 1 : Nat) : Int) = (s.sender : Int) + 1 := by omega
    simp only [fileOpPrims, saveMessagePrims, AStore.step, hins, goodFS_header, goodFS_body, len_some, syncBH, if_true, List.cons_append,
      List.nil_append, e, ec]
    exact allPre_saveIncr _ _ _ B _ m c.ctime s.sender s.target hn hT tH
      (dropTorn_of_endsNL _ (endsNL_append _ _ (headerLine_endsNL _ _ _))) I0 I1 I2
  | get b e =>
    apply allPre_noop _ _ B c.ctime s.sender s.target hS hT tH I0
    intro p hp
    apply noop_of _ B c.ctime s.sender s.target true p
    simp only [fileOpPrims, List.mem_append] at hp
    rcases hp with h | h <;> simp [h]
  | iter b e k =>
    apply allPre_noop _ _ B c.ctime s.sender s.target hS hT tH I0
    intro p hp
    apply noop_of _ B c.ctime s.sender s.target true p
    simp only [fileOpPrims, List.mem_append] at hp
    rcases hp with h | h <;> simp [h]
  | refresh =>
    apply allPre_noop _ _ B c.ctime s.sender s.target hS hT tH I0
    intro p hp
    apply noop_of _ B c.ctime s.sender s.target true p
    simp only [fileOpPrims, refreshOp_prims_good _ _ B c.ctime s.sender s.target _ hS hT (renderH_endsNL ents), List.mem_append] at hp
    rcases hp with ((h | h) | h) | h <;> simp [h]
  | reopen =>
    apply allPre_noop _ _ B c.ctime s.sender s.target hS hT tH I0
    intro p hp
    apply noop_of _ B c.ctime s.sender s.target true p
    simp only [fileOpPrims, refreshOp_prims_good _ _ B c.ctime s.sender s.target _ hS hT (renderH_endsNL ents), List.mem_append, closePrims] at hp
    simp only [closePrims, if_true]
    rcases hp with h | (((h | h) | h) | h) <;> simp [h] at * <;> simp [h]
  | reset =>
    have hrm := apply_remove_all (goodFS (renderH ents) B c.ctime s.sender s.target) true
    simp only [fileOpPrims, resetOp, hrm, refreshOp_prims_fresh, AStore.step, values, List.map_nil]
    have := allPre_reset (values s.msgs) (renderH ents) B c.ctime s.sender s.target (clock + 1) hS hT tH I0
    simpa [values, List.append_assoc] using this

/-! ## a crash INSIDE the write of an index line: the incomplete line is dropped when the store is opened -/

theorem takeWhile_all {α} (p : α → Bool) (l r : List α) (h : ∀ x ∈ l, p x = true) : (l ++ r).takeWhile p = l ++ r.takeWhile p := by
  induction l with
  | nil => rfl
  | cons a t ih => simp [List.takeWhile, h a (by simp), ih (fun x hx => h x (by simp [hx]))]

theorem dropTorn_torn (H t : Bytes) (hH : EndsNL H) (ht : ∀ x ∈ t, x ≠ cNL) : dropTorn (H ++ t) = H := by
  have hk : keepLen (H ++ t) = H.length := by
    unfold keepLen
    rw [List.reverse_append, takeWhile_all _ t.reverse H.reverse (by intro x hx; simpa using ht x (List.mem_reverse.1 hx))]
    rcases hH with rfl | ⟨l, rfl⟩
    · simp
    · simp; omega
  simp [dropTorn, hk]

theorem headerLine_noNL (seq o l : Nat) : ∃ x, headerLine (seq : Int) o l = x ++ [cNL] ∧ ∀ c ∈ x, c ≠ cNL := by
  refine ⟨fmtD (seq : Int) ++ [cComma] ++ fmtNat o ++ [cComma] ++ fmtNat l, rfl, ?_⟩
  have hd : ∀ n : Nat, ∀ c ∈ fmtNat n, c ≠ cNL := by
    intro n c hc
    have := (digit_facts c (List.all_eq_true.1 (fmtNat_all_digits n) c hc)).2.2.1
    exact this
  intro c hc
  have e : fmtD (seq : Int) = fmtNat seq := by simp [fmtD, fmtInt]
  rw [e] at hc
  simp only [List.mem_append, List.mem_singleton] at hc
  rcases hc with (((h | h) | h) | h) | h
  · exact hd _ c h
  · subst h; decide
  · exact hd _ c h
  · subst h; decide
  · exact hd _ c h

theorem torn_index_line (pm qm : List Bytes) (H B line m : Bytes) (ct S T : Nat) (rest : List Prim) (qS : Int)
    (hS : S ≤ maxInt) (hT : T ≤ maxInt) (hH : EndsNL H) (hline : ∃ x, line = x ++ [cNL] ∧ ∀ c ∈ x, c ≠ cNL)
    (I1 : fileIterate H (B ++ m) 0 (maxInt : Int) 0 = (pm, IterEnd.ok))
    (I2 : fileIterate (H ++ line) (B ++ m) 0 (maxInt : Int) 0 = (qm, IterEnd.ok))
    (hq : qS = S ∨ qS = (S : Int) + 1) (cut : Nat) :
    Concl pm qm S qS T T (viewOf (crashImage ⟨goodFS H B ct S T, goodFS H B ct S T⟩
      ([.write .body B.length m, .write .header H.length line] ++ rest) 1 cut .process)) := by
  have c1 := counterOf_fmt S hS
  have c2 := counterOf_fmt T hT
  have tH := dropTorn_of_endsNL H hH
  obtain ⟨x, hx, hxn⟩ := hline
  by_cases hc : cut = 0
  · subst hc
    simp [crashImage, applyPrimsD, applyPrimD, applyPrim, FS.get, FS.set, goodFS, viewOf_mk, Concl, writeAt_end, c1, c2, tH, I1]
    rcases hq with rfl | rfl <;> (intros; omega)
  · by_cases hl : line.length ≤ cut
    · have ht : line.take cut = line := List.take_of_length_le hl
      have tHl : dropTorn (H ++ line) = H ++ line := dropTorn_of_endsNL _ (endsNL_append _ _ ⟨x, hx⟩)
      simp [crashImage, hc, applyPrimsD, applyPrimD, applyPrim, FS.get, FS.set, goodFS, viewOf_mk, Concl, writeAt_end, c1, c2, tHl, ht, I2]
    · have ht : ∀ c ∈ line.take cut, c ≠ cNL := by
        intro c hcm
        have : line.take cut = x.take cut := by
          rw [hx, List.take_append_of_le_length]
          rw [hx] at hl; simp at hl; omega
        rw [this] at hcm
        exact hxn c (List.mem_of_mem_take hcm)
      have tT := dropTorn_torn H (line.take cut) hH ht
      simp [crashImage, hc, applyPrimsD, applyPrimD, applyPrim, FS.get, FS.set, goodFS, viewOf_mk, Concl, writeAt_end, c1, c2, tT, I1]
      rcases hq with rfl | rfl <;> (intros; omega)


def isSave : Op → Bool
  | .save .. => true
  | .saveIncr .. => true
  | _ => false

theorem crash_torn (s : AStore) (c : MemStore) (clock : Nat) (hi : Option Nat) (ents : List Ent) (B : Bytes) (o : Op)
    (h : FileR s ⟨⟨c, true, true⟩, goodFS (renderH ents) B c.ctime s.sender s.target, clock⟩ hi ents B)
    (ha : ascendingOk hi o = true) (hfit' : Fits (s.step o).1) (hsave : isSave o = true) (cut : Nat) :
    Concl (values s.msgs) (values (s.step o).1.msgs) s.sender (s.step o).1.sender s.target (s.step o).1.target
      (viewOf (crashImage ⟨goodFS (renderH ents) B c.ctime s.sender s.target, goodFS (renderH ents) B c.ctime s.sender s.target⟩
        (fileOpPrims ⟨c, true, true⟩ (goodFS (renderH ents) B c.ctime s.sender s.target) clock o).2.1 1 cut .process)) := by
  obtain ⟨_, _, hcs, hct, hfr, hm, hbody, hentsb, hblen, hso, hb, hfit⟩ := h
  simp only at hcs hct hfr
  have hS := hfit.1
  have hT := hfit.2.1
  have hH := renderH_endsNL ents
  have common : ∀ (n : Nat) (m : Bytes), (∀ p ∈ s.msgs, p.1 < n) →
      ((∀ p ∈ s.msgs ++ [(n, m)], p.1 ≤ maxInt) ∧ totalLen (s.msgs ++ [(n, m)]) ≤ maxInt) →
      fileIterate (renderH ents) (B ++ m) 0 (maxInt : Int) 0 = (values s.msgs, IterEnd.ok)
      ∧ fileIterate (renderH ents ++ headerLine (n : Int) B.length m.length) (B ++ m) 0 (maxInt : Int) 0
          = (values (s.msgs ++ [(n, m)]), IterEnd.ok) := by
    intro n m hlt hf2
    obtain ⟨a1, a2, a3, a4, _, a6, _⟩ := fileR_save_aux s hi ents B n m hm hbody hentsb hblen hso hb hlt hf2
    constructor
    · rw [fileIterate_whole (B ++ m) ents (fun e he => take_drop_append B m e.msg e.off (hbody e he)) hentsb (hm ▸ hso), hm]
    · rw [← a1, fileIterate_whole (B ++ m) _ a3 a4 (a2 ▸ a6), a2]
  cases o with
  | save n m =>
    have hlt := asc_keys_lt hi s.msgs n hb (asc_save hi n m ha)
    have hins := ainsert_asc n m s.msgs hlt
    have hf2 : (∀ p ∈ s.msgs ++ [(n, m)], p.1 ≤ maxInt) ∧ totalLen (s.msgs ++ [(n, m)]) ≤ maxInt := by
      have := hfit'; simp only [AStore.step, hins] at this; exact this.2.2
    obtain ⟨I1, I2⟩ := common n m hlt hf2
    simp only [fileOpPrims, saveMessagePrims, AStore.step, hins, goodFS_header, goodFS_body, len_some, syncBH, if_true]
    exact torn_index_line _ _ _ B _ m c.ctime s.sender s.target _ _ hS hT hH (headerLine_noNL n B.length m.length) I1 I2 (Or.inl rfl) cut
  | saveIncr n m =>
    have hlt := asc_keys_lt hi s.msgs n hb (asc_saveIncr hi n m ha)
    have hins := ainsert_asc n m s.msgs hlt
    have hf2 : (∀ p ∈ s.msgs ++ [(n, m)], p.1 ≤ maxInt) ∧ totalLen (s.msgs ++ [(n, m)]) ≤ maxInt := by
      have := hfit'; simp only [AStore.step, hins] at this; exact this.2.2
    obtain ⟨I1, I2⟩ := common n m hlt hf2
    have ec : ((s.sender + 1 : Nat) : Int) = (s.sender : Int) + 1 := by omega
    simp only [fileOpPrims, saveMessagePrims, AStore.step, hins, goodFS_header, goodFS_body, len_some, syncBH, if_true, List.append_assoc, ec]
    exact torn_index_line _ _ _ B _ m c.ctime s.sender s.target _ _ hS hT hH (headerLine_noNL n B.length m.length) I1 I2 (Or.inr rfl) cut
  | setS n => simp [isSave] at hsave
  | setT n => simp [isSave] at hsave
  | incS => simp [isSave] at hsave
  | incT => simp [isSave] at hsave
  | get b e => simp [isSave] at hsave
  | iter b e k => simp [isSave] at hsave
  | refresh => simp [isSave] at hsave
  | reopen => simp [isSave] at hsave
  | reset => simp [isSave] at hsave

/-! ## cuts inside the other writes: body (harmless, the index line is not there yet), session file (not part of the view) -/

theorem crashImage_mid (d : DFS) (ps : List Prim) (i cut : Nat) (f : Ext) (off : Nat) (data : Bytes)
    (h : ps[i]? = some (.write f off data)) (hc : cut ≠ 0) :
    crashImage d ps i cut .process = (applyPrimD (applyPrimsD d (ps.take i)) (.write f off (data.take cut))).vol := by
  simp [crashImage, h, hc]

theorem viewOf_session_write (fs : FS) (off : Nat) (x : Bytes) : viewOf (applyPrim fs (.write .session off x)) = viewOf fs := by
  obtain ⟨a, b, se, sn, tg⟩ := fs
  cases se <;> rfl

theorem torn_body (pm qm : List Bytes) (H B m : Bytes) (ct S T : Nat) (rest : List Prim) (qS : Int)
    (hS : S ≤ maxInt) (hT : T ≤ maxInt) (tH : dropTorn H = H)
    (I1 : ∀ X : Bytes, fileIterate H (B ++ X) 0 (maxInt : Int) 0 = (pm, IterEnd.ok))
    (hq : qS = S ∨ qS = (S : Int) + 1) (cut : Nat) :
    Concl pm qm S qS T T (viewOf (crashImage ⟨goodFS H B ct S T, goodFS H B ct S T⟩
      ([.write .body B.length m] ++ rest) 0 cut .process)) := by
  have c1 := counterOf_fmt S hS
  have c2 := counterOf_fmt T hT
  have I0 := I1 []
  rw [List.append_nil] at I0
  by_cases hc : cut = 0
  · subst hc
    simp [crashImage, applyPrimsD, goodFS, viewOf_mk, Concl, c1, c2, tH, I0]
    rcases hq with rfl | rfl <;> (intros; omega)
  · simp [crashImage, hc, applyPrimsD, applyPrimD, applyPrim, FS.get, FS.set, goodFS, viewOf_mk, Concl, writeAt_end, c1, c2, tH, I1]
    rcases hq with rfl | rfl <;> (intros; omega)

def isHBWrite : Prim → Bool
  | .write f _ _ => f == .header || f == .body
  | _ => false

theorem no_hb_write (ps : List Prim) (hall : (ps.all fun p => !isHBWrite p) = true) (i : Nat) (f : Ext) (off : Nat) (data : Bytes)
    (h : ps[i]? = some (.write f off data)) : f ≠ .header ∧ f ≠ .body := by
  have hm := List.mem_of_getElem? h
  have := List.all_eq_true.1 hall _ hm
  cases f <;> simp [isHBWrite] at this <;> simp


theorem setSeq_no_hbw (sync : Bool) (f : Ext) (n : Int) (hf : f = .sender ∨ f = .target) :
    ((setSeqNumPrims sync f n).all fun p => !isHBWrite p) = true := by
  rcases hf with rfl | rfl <;> cases sync <;> rfl

/-- where an operation writes the header or the body: only `SaveMessage` does, body first (primitive 0), index line second -/
theorem hb_write_pos (s : AStore) (c : MemStore) (clock : Nat) (hi : Option Nat) (ents : List Ent) (B : Bytes) (o : Op)
    (h : FileR s ⟨⟨c, true, true⟩, goodFS (renderH ents) B c.ctime s.sender s.target, clock⟩ hi ents B)
    (i : Nat) (f : Ext) (off : Nat) (data : Bytes)
    (hg : (fileOpPrims ⟨c, true, true⟩ (goodFS (renderH ents) B c.ctime s.sender s.target) clock o).2.1[i]? = some (.write f off data)) :
    (f = .body → isSave o = true ∧ i = 0) ∧ (f = .header → isSave o = true ∧ i = 1) := by
  have hS := h.fits.1
  have hT := h.fits.2.1
  have hH := renderH_endsNL ents
  have none_of : ∀ ps : List Prim, (ps.all fun p => !isHBWrite p) = true → ps[i]? = some (.write f off data) →
      (f = .body → isSave o = true ∧ i = 0) ∧ (f = .header → isSave o = true ∧ i = 1) := by
    intro ps hall hgi
    have := no_hb_write ps hall i f off data hgi
    exact ⟨fun e => absurd e this.2, fun e => absurd e this.1⟩
  cases o with
  | setS n => exact none_of _ (setSeq_no_hbw _ _ _ (Or.inl rfl)) hg
  | setT n => exact none_of _ (setSeq_no_hbw _ _ _ (Or.inr rfl)) hg
  | incS => exact none_of _ (setSeq_no_hbw _ _ _ (Or.inl rfl)) hg
  | incT => exact none_of _ (setSeq_no_hbw _ _ _ (Or.inr rfl)) hg
  | get b e => exact none_of _ rfl hg
  | iter b e k => exact none_of _ rfl hg
  | refresh =>
    refine none_of _ ?_ hg
    simp only [fileOpPrims, refreshOp_prims_good _ _ B c.ctime s.sender s.target _ hS hT hH, List.all_append,
      setSeq_no_hbw _ _ _ (Or.inl rfl), setSeq_no_hbw _ _ _ (Or.inr rfl)]
    rfl
  | reopen =>
    refine none_of _ ?_ hg
    simp only [fileOpPrims, refreshOp_prims_good _ _ B c.ctime s.sender s.target _ hS hT hH, List.all_append,
      setSeq_no_hbw _ _ _ (Or.inl rfl), setSeq_no_hbw _ _ _ (Or.inr rfl)]
    rfl
  | reset =>
    refine none_of _ ?_ hg
    have hrm := apply_remove_all (goodFS (renderH ents) B c.ctime s.sender s.target) true
    simp only [fileOpPrims, resetOp, hrm, refreshOp_prims_fresh, List.all_append,
      setSeq_no_hbw _ _ _ (Or.inl rfl), setSeq_no_hbw _ _ _ (Or.inr rfl)]
    rfl
  | save n m =>
    simp only [fileOpPrims, saveMessagePrims, syncBH, if_true, List.cons_append, List.nil_append] at hg
    rcases i with _ | _ | _ | _ | i <;> simp at hg <;> (obtain ⟨rfl, _⟩ := hg) <;> simp [isSave]
  | saveIncr n m =>
    simp only [fileOpPrims, saveMessagePrims, syncBH, if_true, List.cons_append, List.nil_append, setSeqNumPrims, syncIf] at hg
    rcases i with _ | _ | _ | _ | _ | _ | i <;> simp at hg <;> (obtain ⟨rfl, _⟩ := hg) <;> simp [isSave]


theorem crash_torn_body (s : AStore) (c : MemStore) (clock : Nat) (hi : Option Nat) (ents : List Ent) (B : Bytes) (o : Op)
    (h : FileR s ⟨⟨c, true, true⟩, goodFS (renderH ents) B c.ctime s.sender s.target, clock⟩ hi ents B)
    (hsave : isSave o = true) (cut : Nat) :
    Concl (values s.msgs) (values (s.step o).1.msgs) s.sender (s.step o).1.sender s.target (s.step o).1.target
      (viewOf (crashImage ⟨goodFS (renderH ents) B c.ctime s.sender s.target, goodFS (renderH ents) B c.ctime s.sender s.target⟩
        (fileOpPrims ⟨c, true, true⟩ (goodFS (renderH ents) B c.ctime s.sender s.target) clock o).2.1 0 cut .process)) := by
  obtain ⟨_, _, hcs, hct, hfr, hm, hbody, hentsb, hblen, hso, hb, hfit⟩ := h
  have hS := hfit.1
  have hT := hfit.2.1
  have tH := dropTorn_of_endsNL _ (renderH_endsNL ents)
  have I1 : ∀ X : Bytes, fileIterate (renderH ents) (B ++ X) 0 (maxInt : Int) 0 = (values s.msgs, IterEnd.ok) := by
    intro X
    rw [fileIterate_whole (B ++ X) ents (fun e he => take_drop_append B X e.msg e.off (hbody e he)) hentsb (hm ▸ hso), hm]
  cases o with
  | save n m =>
    simp only [fileOpPrims, saveMessagePrims, AStore.step, goodFS_body, len_some]
    exact torn_body _ _ _ B m c.ctime s.sender s.target _ _ hS hT tH I1 (Or.inl rfl) cut
  | saveIncr n m =>
    have ec : ((s.sender + 1 : Nat) : Int) = (s.sender : Int) + 1 := by omega
    simp only [fileOpPrims, saveMessagePrims, AStore.step, goodFS_body, len_some, List.append_assoc, List.cons_append, List.nil_append, ec]
    exact torn_body _ _ _ B m c.ctime s.sender s.target _ _ hS hT tH I1 (Or.inr rfl) cut
  | setS n => simp [isSave] at hsave
  | setT n => simp [isSave] at hsave
  | incS => simp [isSave] at hsave
  | incT => simp [isSave] at hsave
  | get b e => simp [isSave] at hsave
  | iter b e k => simp [isSave] at hsave
  | refresh => simp [isSave] at hsave
  | reopen => simp [isSave] at hsave
  | reset => simp [isSave] at hsave

/-! ## from histories to states -/

theorem step_sync (w : FileW) (o : Op) : (w.step o).1.st.sync = w.st.sync := by
  cases o <;> simp [FileW.step, fileOpPrims, refreshOp, resetOp]

theorem run_sync (ops : List Op) : ∀ w : FileW, (w.run ops).1.st.sync = w.st.sync := by
  induction ops with
  | nil => intro w; rfl
  | cons o os ih => intro w; simp only [FileW.run]; rw [ih, step_sync]

theorem fileR_run_state (ops : List Op) : ∀ (s : AStore) (w : FileW) (hi : Option Nat) (ents : List Ent) (B : Bytes),
    FileR s w hi ents B → Asc hi ops → FitsRun s ops →
    ∃ ents' B', FileR (s.run ops).1 (w.run ops).1 (ops.foldl hiAfter hi) ents' B' := by
  induction ops with
  | nil => intro s w hi ents B h _ _; exact ⟨ents, B, h⟩
  | cons o os ih =>
    intro s w hi ents B h ha hf
    obtain ⟨ents', B', hR, _⟩ := fileR_step s w hi ents B o h ha.1 hf.1
    simp only [FileW.run, AStore.run, List.foldl_cons]
    exact ih _ _ _ _ _ hR ha.2 hf.2

theorem asc_append (ops : List Op) (o : Op) : ∀ hi, Asc hi (ops ++ [o]) → Asc hi ops ∧ ascendingOk (ops.foldl hiAfter hi) o = true := by
  induction ops with
  | nil => intro hi h; exact ⟨trivial, h.1⟩
  | cons p t ih =>
    intro hi h
    have := ih _ h.2
    exact ⟨⟨h.1, this.1⟩, this.2⟩

theorem fitsRun_append (ops : List Op) (o : Op) : ∀ s, FitsRun s (ops ++ [o]) → FitsRun s ops ∧ Fits (((s.run ops).1).step o).1 := by
  induction ops with
  | nil => intro s h; exact ⟨trivial, h.1⟩
  | cons p t ih =>
    intro s h
    have := ih _ h.2
    simp only [AStore.run]
    exact ⟨⟨h.1, this.1⟩, this.2⟩

/-- the C17 conclusion for the abstract states before and after the interrupted operation -/
def Conclusion (pre post : AStore) (v : Int × Int × (List Bytes × IterEnd)) : Prop :=
  Concl (values pre.msgs) (values post.msgs) pre.sender post.sender pre.target post.target v

/-- the crash point is admissible for `C17_partial`: not inside the in-place rewrite of a counter file -/
def NotInCounterWrite (ps : List Prim) (i cut : Nat) : Prop :=
  cut = 0 ∨ ∃ f off data, ps[i]? = some (.write f off data) ∧ f ≠ .sender ∧ f ≠ .target

theorem crash_good (s : AStore) (w : FileW) (hi : Option Nat) (ents : List Ent) (B : Bytes) (o : Op)
    (h : FileR s w hi ents B) (hsync : w.st.sync = true) (ha : ascendingOk hi o = true) (hfit' : Fits (s.step o).1)
    (i cut : Nat) (mode : Mode) (hpt : mode = .process → NotInCounterWrite (fileOpPrims w.st w.fs w.clock o).2.1 i cut) :
    Conclusion s (s.step o).1 (recoveredView (crashImage ⟨w.fs, w.fs⟩ (fileOpPrims w.st w.fs w.clock o).2.1 i cut mode)) := by
  obtain ⟨⟨c, sync, opened⟩, fs, clock⟩ := w
  have hop := h.opened
  have hfs := h.fs
  simp only at hsync hop hfs
  subst hsync; subst hop; subst hfs
  have hall := crash_allPre s c clock hi ents B o h ha hfit'
  have ht := allPre_take _ _ _ hall i
  rw [recoveredView_eq]
  cases mode with
  | power => rw [crashImage_power]; exact ht.2
  | process =>
    rcases hpt rfl with h0 | ⟨f, off, data, hg, hns, hnt⟩
    · rw [h0, crashImage_boundary]; exact ht.1
    · by_cases hc : cut = 0
      · rw [hc, crashImage_boundary]; exact ht.1
      · have hpos := hb_write_pos s c clock hi ents B o h i f off data hg
        cases f with
        | sender => exact absurd rfl hns
        | target => exact absurd rfl hnt
        | session =>
          rw [crashImage_mid _ _ i cut .session off data hg hc]
          show Concl _ _ _ _ _ _ (viewOf (applyPrim _ _))
          rw [viewOf_session_write]; exact ht.1
        | header =>
          obtain ⟨hsv, hi1⟩ := hpos.2 rfl
          subst hi1; exact crash_torn s c clock hi ents B o h ha hfit' hsv cut
        | body =>
          obtain ⟨hsv, hi0⟩ := hpos.1 rfl
          subst hi0; exact crash_torn_body s c clock hi ents B o h hsv cut

/-! ## with syncing on, everything an operation wrote is durable when it returns -/

def Synced (d : DFS) : Prop := d.dur = d.vol

macro "sync_simp" "[" ts:Lean.Parser.Tactic.simpLemma,* "]" : tactic =>
  `(tactic| (simp [Synced, applyPrimsD, applyPrimD, applyPrim, FS.get, FS.set, goodFS, $ts,*]))

theorem synced_setSeq (g : FS) (f : Ext) (n : Int) : Synced (applyPrimsD ⟨g, g⟩ (setSeqNumPrims true f n)) := by
  obtain ⟨a, b, c, d, e⟩ := g
  cases f <;> sync_simp [setSeqNumPrims, syncIf] <;> (try split) <;> simp_all

theorem synced_noop (d : DFS) (ps : List Prim) (hd : Synced d) (h : ∀ p ∈ ps, applyPrimD d p = d) : Synced (applyPrimsD d ps) := by
  have : applyPrimsD d ps = d := by
    induction ps with
    | nil => rfl
    | cons p t ih =>
      show applyPrimsD (applyPrimD d p) t = d
      rw [h p (by simp)]; exact ih (fun q hq => h q (by simp [hq]))
  rw [this]; exact hd

theorem synced_save (H B line m : Bytes) (ct S T : Nat) (rest : List Prim)
    (hrest : ∀ g : FS, Synced (applyPrimsD ⟨g, g⟩ rest)) :
    Synced (applyPrimsD ⟨goodFS H B ct S T, goodFS H B ct S T⟩
      ([.write .body B.length m, .write .header H.length line, .sync .body, .sync .header] ++ rest)) := by
  have := hrest (goodFS (H ++ line) (B ++ m) ct S T)
  simpa [applyPrimsD, applyPrimD, applyPrim, FS.get, FS.set, goodFS, writeAt_end, List.foldl_append] using this

theorem synced_reset (H B : Bytes) (ct S T t : Nat) :
    Synced (applyPrimsD ⟨goodFS H B ct S T, goodFS H B ct S T⟩
      (closePrims true ++ removePrims ++ openPrims ++ setSessionPrims true t ++ setSeqNumPrims true .sender 1
        ++ setSeqNumPrims true .target 1)) := by
  sync_simp [closePrims, removePrims, openPrims, setSessionPrims, setSeqNumPrims, syncIf]


theorem applyPrimsD_vol (ps : List Prim) : ∀ d : DFS, (applyPrimsD d ps).vol = applyPrims d.vol ps := by
  induction ps with
  | nil => intro d; rfl
  | cons p t ih =>
    intro d
    show (applyPrimsD (applyPrimD d p) t).vol = applyPrims (applyPrim d.vol p) t
    rw [ih]
    cases p <;> simp [applyPrimD, applyPrim]

theorem synced_after (s : AStore) (c : MemStore) (clock : Nat) (hi : Option Nat) (ents : List Ent) (B : Bytes) (o : Op)
    (h : FileR s ⟨⟨c, true, true⟩, goodFS (renderH ents) B c.ctime s.sender s.target, clock⟩ hi ents B) :
    Synced (applyPrimsD ⟨goodFS (renderH ents) B c.ctime s.sender s.target, goodFS (renderH ents) B c.ctime s.sender s.target⟩
      (fileOpPrims ⟨c, true, true⟩ (goodFS (renderH ents) B c.ctime s.sender s.target) clock o).2.1) := by
  have hS := h.fits.1
  have hT := h.fits.2.1
  cases o with
  | setS n => exact synced_setSeq _ _ _
  | setT n => exact synced_setSeq _ _ _
  | incS => exact synced_setSeq _ _ _
  | incT => exact synced_setSeq _ _ _
  | save n m =>
    have := synced_save (renderH ents) B (headerLine (n : Int) B.length m.length) m c.ctime s.sender s.target [] (fun g => rfl)
    simpa [fileOpPrims, saveMessagePrims, goodFS_header, goodFS_body, len_some, syncBH] using this
  | saveIncr n m =>
    have := synced_save (renderH ents) B (headerLine (n : Int) B.length m.length) m c.ctime s.sender s.target
      (setSeqNumPrims true .sender (c.nextS + 1)) (fun g => synced_setSeq g _ _)
    simpa [fileOpPrims, saveMessagePrims, goodFS_header, goodFS_body, len_some, syncBH] using this
  | get b e =>
    apply synced_noop _ _ (by unfold Synced; rfl)
    intro p hp
    apply noop_of _ B c.ctime s.sender s.target true p
    simp only [fileOpPrims, List.mem_append] at hp
    rcases hp with h | h <;> simp [h]
  | iter b e k =>
    apply synced_noop _ _ (by unfold Synced; rfl)
    intro p hp
    apply noop_of _ B c.ctime s.sender s.target true p
    simp only [fileOpPrims, List.mem_append] at hp
    rcases hp with h | h <;> simp [h]
  | refresh =>
    apply synced_noop _ _ (by unfold Synced; rfl)
    intro p hp
    apply noop_of _ B c.ctime s.sender s.target true p
    simp only [fileOpPrims, refreshOp_prims_good _ _ B c.ctime s.sender s.target _ hS hT (renderH_endsNL ents), List.mem_append] at hp
    rcases hp with ((h | h) | h) | h <;> simp [h]
  | reopen =>
    apply synced_noop _ _ (by unfold Synced; rfl)
    intro p hp
    apply noop_of _ B c.ctime s.sender s.target true p
    simp only [fileOpPrims, refreshOp_prims_good _ _ B c.ctime s.sender s.target _ hS hT (renderH_endsNL ents), List.mem_append, closePrims] at hp
    simp only [closePrims, if_true]
    rcases hp with h | (((h | h) | h) | h) <;> simp [h] at * <;> simp [h]
  | reset =>
    have hrm := apply_remove_all (goodFS (renderH ents) B c.ctime s.sender s.target) true
    simp only [fileOpPrims, resetOp, hrm, refreshOp_prims_fresh]
    have := synced_reset (renderH ents) B c.ctime s.sender s.target (clock + 1)
    simpa [List.append_assoc] using this

end Qfx.Store
