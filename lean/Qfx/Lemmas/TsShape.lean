/- generated proof scripts: a byte string of length 17/21/24/27 is a concrete list; acceptance by the model's
   `readTs` (time.Parse for the four FIX layouts + the '.' check) equals the declarative grammar `TsGrammar 59`. -/
import Qfx.Lemmas.Values
namespace Qfx
open Qfx.Spec

theorem cons_of_len (b : Bytes) (n : Nat) (h : b.length = n + 1) : ∃ a t, b = a :: t ∧ t.length = n := by
  cases b with
  | nil => simp at h
  | cons a t => exact ⟨a, t, rfl, by simpa using h⟩

theorem list_len_17 (b : Bytes) (h : b.length = 17) : ∃ a0 a1 a2 a3 a4 a5 a6 a7 a8 a9 a10 a11 a12 a13 a14 a15 a16, b = [a0, a1, a2, a3, a4, a5, a6, a7, a8, a9, a10, a11, a12, a13, a14, a15, a16] := by
  obtain ⟨a0, b0, rfl, h0⟩ := cons_of_len _ 16 h
  obtain ⟨a1, b1, rfl, h1⟩ := cons_of_len _ 15 h0
  obtain ⟨a2, b2, rfl, h2⟩ := cons_of_len _ 14 h1
  obtain ⟨a3, b3, rfl, h3⟩ := cons_of_len _ 13 h2
  obtain ⟨a4, b4, rfl, h4⟩ := cons_of_len _ 12 h3
  obtain ⟨a5, b5, rfl, h5⟩ := cons_of_len _ 11 h4
  obtain ⟨a6, b6, rfl, h6⟩ := cons_of_len _ 10 h5
  obtain ⟨a7, b7, rfl, h7⟩ := cons_of_len _ 9 h6
  obtain ⟨a8, b8, rfl, h8⟩ := cons_of_len _ 8 h7
  obtain ⟨a9, b9, rfl, h9⟩ := cons_of_len _ 7 h8
  obtain ⟨a10, b10, rfl, h10⟩ := cons_of_len _ 6 h9
  obtain ⟨a11, b11, rfl, h11⟩ := cons_of_len _ 5 h10
  obtain ⟨a12, b12, rfl, h12⟩ := cons_of_len _ 4 h11
  obtain ⟨a13, b13, rfl, h13⟩ := cons_of_len _ 3 h12
  obtain ⟨a14, b14, rfl, h14⟩ := cons_of_len _ 2 h13
  obtain ⟨a15, b15, rfl, h15⟩ := cons_of_len _ 1 h14
  obtain ⟨a16, b16, rfl, h16⟩ := cons_of_len _ 0 h15
  have : b16 = [] := List.eq_nil_of_length_eq_zero h16
  subst this
  exact ⟨a0, a1, a2, a3, a4, a5, a6, a7, a8, a9, a10, a11, a12, a13, a14, a15, a16, rfl⟩

theorem ts_accept_17 (b : Bytes) (h : b.length = 17) : (readTs b).isOk = TsGrammar 59 b := by
  obtain ⟨a0, a1, a2, a3, a4, a5, a6, a7, a8, a9, a10, a11, a12, a13, a14, a15, a16, rfl⟩ := list_len_17 b h
  simp [readTs, readTsWith, precOfLen, fixedNum, TsGrammar, tsLenOK, tsShape, tsClassAt, tsFields, slice, Prec.fracDigits]
  cases hd0 : isDigit a0
  · simp [Res.isOk]
  cases hd1 : isDigit a1
  · simp [Res.isOk]
  cases hd2 : isDigit a2
  · simp [Res.isOk]
  cases hd3 : isDigit a3
  · simp [Res.isOk]
  cases hd4 : isDigit a4
  · simp [Res.isOk]
  cases hd5 : isDigit a5
  · simp [Res.isOk]
  cases hd6 : isDigit a6
  · simp [Res.isOk]
  cases hd7 : isDigit a7
  · simp [Res.isOk]
  cases hd9 : isDigit a9
  · simp [Res.isOk]
  cases hd10 : isDigit a10
  · simp [Res.isOk]
  cases hd12 : isDigit a12
  · simp [Res.isOk]
  cases hd13 : isDigit a13
  · simp [Res.isOk]
  cases hd15 : isDigit a15
  · simp [Res.isOk]
  cases hd16 : isDigit a16
  · simp [Res.isOk]
  simp only [and_self, if_true, Bool.true_and, Bool.and_true]
  by_cases h8 : a8 = 45
  ·
    by_cases h11 : a11 = 58
    ·
      by_cases h14 : a14 = 58
      ·
        simp only [h8, h11, h14, if_true, beq_self_eq_true, Bool.true_and, Bool.and_true]
        repeat' split
        all_goals (simp [Res.isOk] at *; try omega)
      · simp [h8, h11, h14, Res.isOk]
    · simp [h8, h11, Res.isOk]
  · simp [h8, Res.isOk]

theorem list_len_21 (b : Bytes) (h : b.length = 21) : ∃ a0 a1 a2 a3 a4 a5 a6 a7 a8 a9 a10 a11 a12 a13 a14 a15 a16 a17 a18 a19 a20, b = [a0, a1, a2, a3, a4, a5, a6, a7, a8, a9, a10, a11, a12, a13, a14, a15, a16, a17, a18, a19, a20] := by
  obtain ⟨a0, b0, rfl, h0⟩ := cons_of_len _ 20 h
  obtain ⟨a1, b1, rfl, h1⟩ := cons_of_len _ 19 h0
  obtain ⟨a2, b2, rfl, h2⟩ := cons_of_len _ 18 h1
  obtain ⟨a3, b3, rfl, h3⟩ := cons_of_len _ 17 h2
  obtain ⟨a4, b4, rfl, h4⟩ := cons_of_len _ 16 h3
  obtain ⟨a5, b5, rfl, h5⟩ := cons_of_len _ 15 h4
  obtain ⟨a6, b6, rfl, h6⟩ := cons_of_len _ 14 h5
  obtain ⟨a7, b7, rfl, h7⟩ := cons_of_len _ 13 h6
  obtain ⟨a8, b8, rfl, h8⟩ := cons_of_len _ 12 h7
  obtain ⟨a9, b9, rfl, h9⟩ := cons_of_len _ 11 h8
  obtain ⟨a10, b10, rfl, h10⟩ := cons_of_len _ 10 h9
  obtain ⟨a11, b11, rfl, h11⟩ := cons_of_len _ 9 h10
  obtain ⟨a12, b12, rfl, h12⟩ := cons_of_len _ 8 h11
  obtain ⟨a13, b13, rfl, h13⟩ := cons_of_len _ 7 h12
  obtain ⟨a14, b14, rfl, h14⟩ := cons_of_len _ 6 h13
  obtain ⟨a15, b15, rfl, h15⟩ := cons_of_len _ 5 h14
  obtain ⟨a16, b16, rfl, h16⟩ := cons_of_len _ 4 h15
  obtain ⟨a17, b17, rfl, h17⟩ := cons_of_len _ 3 h16
  obtain ⟨a18, b18, rfl, h18⟩ := cons_of_len _ 2 h17
  obtain ⟨a19, b19, rfl, h19⟩ := cons_of_len _ 1 h18
  obtain ⟨a20, b20, rfl, h20⟩ := cons_of_len _ 0 h19
  have : b20 = [] := List.eq_nil_of_length_eq_zero h20
  subst this
  exact ⟨a0, a1, a2, a3, a4, a5, a6, a7, a8, a9, a10, a11, a12, a13, a14, a15, a16, a17, a18, a19, a20, rfl⟩

theorem ts_accept_21 (b : Bytes) (h : b.length = 21) : (readTs b).isOk = TsGrammar 59 b := by
  obtain ⟨a0, a1, a2, a3, a4, a5, a6, a7, a8, a9, a10, a11, a12, a13, a14, a15, a16, a17, a18, a19, a20, rfl⟩ := list_len_21 b h
  simp [readTs, readTsWith, precOfLen, fixedNum, TsGrammar, tsLenOK, tsShape, tsClassAt, tsFields, slice, Prec.fracDigits]
  cases hd0 : isDigit a0
  · simp [Res.isOk]
  cases hd1 : isDigit a1
  · simp [Res.isOk]
  cases hd2 : isDigit a2
  · simp [Res.isOk]
  cases hd3 : isDigit a3
  · simp [Res.isOk]
  cases hd4 : isDigit a4
  · simp [Res.isOk]
  cases hd5 : isDigit a5
  · simp [Res.isOk]
  cases hd6 : isDigit a6
  · simp [Res.isOk]
  cases hd7 : isDigit a7
  · simp [Res.isOk]
  cases hd9 : isDigit a9
  · simp [Res.isOk]
  cases hd10 : isDigit a10
  · simp [Res.isOk]
  cases hd12 : isDigit a12
  · simp [Res.isOk]
  cases hd13 : isDigit a13
  · simp [Res.isOk]
  cases hd15 : isDigit a15
  · simp [Res.isOk]
  cases hd16 : isDigit a16
  · simp [Res.isOk]
  cases hd18 : isDigit a18
  · simp [Res.isOk]
  cases hd19 : isDigit a19
  · simp [Res.isOk]
  cases hd20 : isDigit a20
  · simp [Res.isOk]
  simp only [and_self, if_true, Bool.true_and, Bool.and_true]
  by_cases h8 : a8 = 45
  ·
    by_cases h11 : a11 = 58
    ·
      by_cases h14 : a14 = 58
      ·
        by_cases h17 : a17 = 46
        ·
          simp only [h8, h11, h14, h17, if_true, beq_self_eq_true, Bool.true_and, Bool.and_true]
          repeat' split
          all_goals (simp [Res.isOk] at *; try omega)
        · simp [h8, h11, h14, h17, Res.isOk]
      · simp [h8, h11, h14, Res.isOk]
    · simp [h8, h11, Res.isOk]
  · simp [h8, Res.isOk]

theorem list_len_24 (b : Bytes) (h : b.length = 24) : ∃ a0 a1 a2 a3 a4 a5 a6 a7 a8 a9 a10 a11 a12 a13 a14 a15 a16 a17 a18 a19 a20 a21 a22 a23, b = [a0, a1, a2, a3, a4, a5, a6, a7, a8, a9, a10, a11, a12, a13, a14, a15, a16, a17, a18, a19, a20, a21, a22, a23] := by
  obtain ⟨a0, b0, rfl, h0⟩ := cons_of_len _ 23 h
  obtain ⟨a1, b1, rfl, h1⟩ := cons_of_len _ 22 h0
  obtain ⟨a2, b2, rfl, h2⟩ := cons_of_len _ 21 h1
  obtain ⟨a3, b3, rfl, h3⟩ := cons_of_len _ 20 h2
  obtain ⟨a4, b4, rfl, h4⟩ := cons_of_len _ 19 h3
  obtain ⟨a5, b5, rfl, h5⟩ := cons_of_len _ 18 h4
  obtain ⟨a6, b6, rfl, h6⟩ := cons_of_len _ 17 h5
  obtain ⟨a7, b7, rfl, h7⟩ := cons_of_len _ 16 h6
  obtain ⟨a8, b8, rfl, h8⟩ := cons_of_len _ 15 h7
  obtain ⟨a9, b9, rfl, h9⟩ := cons_of_len _ 14 h8
  obtain ⟨a10, b10, rfl, h10⟩ := cons_of_len _ 13 h9
  obtain ⟨a11, b11, rfl, h11⟩ := cons_of_len _ 12 h10
  obtain ⟨a12, b12, rfl, h12⟩ := cons_of_len _ 11 h11
  obtain ⟨a13, b13, rfl, h13⟩ := cons_of_len _ 10 h12
  obtain ⟨a14, b14, rfl, h14⟩ := cons_of_len _ 9 h13
  obtain ⟨a15, b15, rfl, h15⟩ := cons_of_len _ 8 h14
  obtain ⟨a16, b16, rfl, h16⟩ := cons_of_len _ 7 h15
  obtain ⟨a17, b17, rfl, h17⟩ := cons_of_len _ 6 h16
  obtain ⟨a18, b18, rfl, h18⟩ := cons_of_len _ 5 h17
  obtain ⟨a19, b19, rfl, h19⟩ := cons_of_len _ 4 h18
  obtain ⟨a20, b20, rfl, h20⟩ := cons_of_len _ 3 h19
  obtain ⟨a21, b21, rfl, h21⟩ := cons_of_len _ 2 h20
  obtain ⟨a22, b22, rfl, h22⟩ := cons_of_len _ 1 h21
  obtain ⟨a23, b23, rfl, h23⟩ := cons_of_len _ 0 h22
  have : b23 = [] := List.eq_nil_of_length_eq_zero h23
  subst this
  exact ⟨a0, a1, a2, a3, a4, a5, a6, a7, a8, a9, a10, a11, a12, a13, a14, a15, a16, a17, a18, a19, a20, a21, a22, a23, rfl⟩

theorem ts_accept_24 (b : Bytes) (h : b.length = 24) : (readTs b).isOk = TsGrammar 59 b := by
  obtain ⟨a0, a1, a2, a3, a4, a5, a6, a7, a8, a9, a10, a11, a12, a13, a14, a15, a16, a17, a18, a19, a20, a21, a22, a23, rfl⟩ := list_len_24 b h
  simp [readTs, readTsWith, precOfLen, fixedNum, TsGrammar, tsLenOK, tsShape, tsClassAt, tsFields, slice, Prec.fracDigits]
  cases hd0 : isDigit a0
  · simp [Res.isOk]
  cases hd1 : isDigit a1
  · simp [Res.isOk]
  cases hd2 : isDigit a2
  · simp [Res.isOk]
  cases hd3 : isDigit a3
  · simp [Res.isOk]
  cases hd4 : isDigit a4
  · simp [Res.isOk]
  cases hd5 : isDigit a5
  · simp [Res.isOk]
  cases hd6 : isDigit a6
  · simp [Res.isOk]
  cases hd7 : isDigit a7
  · simp [Res.isOk]
  cases hd9 : isDigit a9
  · simp [Res.isOk]
  cases hd10 : isDigit a10
  · simp [Res.isOk]
  cases hd12 : isDigit a12
  · simp [Res.isOk]
  cases hd13 : isDigit a13
  · simp [Res.isOk]
  cases hd15 : isDigit a15
  · simp [Res.isOk]
  cases hd16 : isDigit a16
  · simp [Res.isOk]
  cases hd18 : isDigit a18
  · simp [Res.isOk]
  cases hd19 : isDigit a19
  · simp [Res.isOk]
  cases hd20 : isDigit a20
  · simp [Res.isOk]
  cases hd21 : isDigit a21
  · simp [Res.isOk]
  cases hd22 : isDigit a22
  · simp [Res.isOk]
  cases hd23 : isDigit a23
  · simp [Res.isOk]
  simp only [and_self, if_true, Bool.true_and, Bool.and_true]
  by_cases h8 : a8 = 45
  ·
    by_cases h11 : a11 = 58
    ·
      by_cases h14 : a14 = 58
      ·
        by_cases h17 : a17 = 46
        ·
          simp only [h8, h11, h14, h17, if_true, beq_self_eq_true, Bool.true_and, Bool.and_true]
          repeat' split
          all_goals (simp [Res.isOk] at *; try omega)
        · simp [h8, h11, h14, h17, Res.isOk]
      · simp [h8, h11, h14, Res.isOk]
    · simp [h8, h11, Res.isOk]
  · simp [h8, Res.isOk]

theorem list_len_27 (b : Bytes) (h : b.length = 27) : ∃ a0 a1 a2 a3 a4 a5 a6 a7 a8 a9 a10 a11 a12 a13 a14 a15 a16 a17 a18 a19 a20 a21 a22 a23 a24 a25 a26, b = [a0, a1, a2, a3, a4, a5, a6, a7, a8, a9, a10, a11, a12, a13, a14, a15, a16, a17, a18, a19, a20, a21, a22, a23, a24, a25, a26] := by
  obtain ⟨a0, b0, rfl, h0⟩ := cons_of_len _ 26 h
  obtain ⟨a1, b1, rfl, h1⟩ := cons_of_len _ 25 h0
  obtain ⟨a2, b2, rfl, h2⟩ := cons_of_len _ 24 h1
  obtain ⟨a3, b3, rfl, h3⟩ := cons_of_len _ 23 h2
  obtain ⟨a4, b4, rfl, h4⟩ := cons_of_len _ 22 h3
  obtain ⟨a5, b5, rfl, h5⟩ := cons_of_len _ 21 h4
  obtain ⟨a6, b6, rfl, h6⟩ := cons_of_len _ 20 h5
  obtain ⟨a7, b7, rfl, h7⟩ := cons_of_len _ 19 h6
  obtain ⟨a8, b8, rfl, h8⟩ := cons_of_len _ 18 h7
  obtain ⟨a9, b9, rfl, h9⟩ := cons_of_len _ 17 h8
  obtain ⟨a10, b10, rfl, h10⟩ := cons_of_len _ 16 h9
  obtain ⟨a11, b11, rfl, h11⟩ := cons_of_len _ 15 h10
  obtain ⟨a12, b12, rfl, h12⟩ := cons_of_len _ 14 h11
  obtain ⟨a13, b13, rfl, h13⟩ := cons_of_len _ 13 h12
  obtain ⟨a14, b14, rfl, h14⟩ := cons_of_len _ 12 h13
  obtain ⟨a15, b15, rfl, h15⟩ := cons_of_len _ 11 h14
  obtain ⟨a16, b16, rfl, h16⟩ := cons_of_len _ 10 h15
  obtain ⟨a17, b17, rfl, h17⟩ := cons_of_len _ 9 h16
  obtain ⟨a18, b18, rfl, h18⟩ := cons_of_len _ 8 h17
  obtain ⟨a19, b19, rfl, h19⟩ := cons_of_len _ 7 h18
  obtain ⟨a20, b20, rfl, h20⟩ := cons_of_len _ 6 h19
  obtain ⟨a21, b21, rfl, h21⟩ := cons_of_len _ 5 h20
  obtain ⟨a22, b22, rfl, h22⟩ := cons_of_len _ 4 h21
  obtain ⟨a23, b23, rfl, h23⟩ := cons_of_len _ 3 h22
  obtain ⟨a24, b24, rfl, h24⟩ := cons_of_len _ 2 h23
  obtain ⟨a25, b25, rfl, h25⟩ := cons_of_len _ 1 h24
  obtain ⟨a26, b26, rfl, h26⟩ := cons_of_len _ 0 h25
  have : b26 = [] := List.eq_nil_of_length_eq_zero h26
  subst this
  exact ⟨a0, a1, a2, a3, a4, a5, a6, a7, a8, a9, a10, a11, a12, a13, a14, a15, a16, a17, a18, a19, a20, a21, a22, a23, a24, a25, a26, rfl⟩

theorem ts_accept_27 (b : Bytes) (h : b.length = 27) : (readTs b).isOk = TsGrammar 59 b := by
  obtain ⟨a0, a1, a2, a3, a4, a5, a6, a7, a8, a9, a10, a11, a12, a13, a14, a15, a16, a17, a18, a19, a20, a21, a22, a23, a24, a25, a26, rfl⟩ := list_len_27 b h
  simp [readTs, readTsWith, precOfLen, fixedNum, TsGrammar, tsLenOK, tsShape, tsClassAt, tsFields, slice, Prec.fracDigits]
  cases hd0 : isDigit a0
  · simp [Res.isOk]
  cases hd1 : isDigit a1
  · simp [Res.isOk]
  cases hd2 : isDigit a2
  · simp [Res.isOk]
  cases hd3 : isDigit a3
  · simp [Res.isOk]
  cases hd4 : isDigit a4
  · simp [Res.isOk]
  cases hd5 : isDigit a5
  · simp [Res.isOk]
  cases hd6 : isDigit a6
  · simp [Res.isOk]
  cases hd7 : isDigit a7
  · simp [Res.isOk]
  cases hd9 : isDigit a9
  · simp [Res.isOk]
  cases hd10 : isDigit a10
  · simp [Res.isOk]
  cases hd12 : isDigit a12
  · simp [Res.isOk]
  cases hd13 : isDigit a13
  · simp [Res.isOk]
  cases hd15 : isDigit a15
  · simp [Res.isOk]
  cases hd16 : isDigit a16
  · simp [Res.isOk]
  cases hd18 : isDigit a18
  · simp [Res.isOk]
  cases hd19 : isDigit a19
  · simp [Res.isOk]
  cases hd20 : isDigit a20
  · simp [Res.isOk]
  cases hd21 : isDigit a21
  · simp [Res.isOk]
  cases hd22 : isDigit a22
  · simp [Res.isOk]
  cases hd23 : isDigit a23
  · simp [Res.isOk]
  cases hd24 : isDigit a24
  · simp [Res.isOk]
  cases hd25 : isDigit a25
  · simp [Res.isOk]
  cases hd26 : isDigit a26
  · simp [Res.isOk]
  simp only [and_self, if_true, Bool.true_and, Bool.and_true]
  by_cases h8 : a8 = 45
  ·
    by_cases h11 : a11 = 58
    ·
      by_cases h14 : a14 = 58
      ·
        by_cases h17 : a17 = 46
        ·
          simp only [h8, h11, h14, h17, if_true, beq_self_eq_true, Bool.true_and, Bool.and_true]
          repeat' split
          all_goals (simp [Res.isOk] at *; try omega)
        · simp [h8, h11, h14, h17, Res.isOk]
      · simp [h8, h11, h14, Res.isOk]
    · simp [h8, h11, Res.isOk]
  · simp [h8, Res.isOk]



end Qfx
