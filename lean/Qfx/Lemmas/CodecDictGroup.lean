/- C11/C13 with the application dictionary: the dictionary-guided parse (`parseGroup`) of a message with one repeating group
   whose dictionary definition has no nested groups, and the group read back through the dictionary's template -/
import Qfx.Lemmas.CodecParseD
import Qfx.Lemmas.CodecWire
namespace Qfx
open Qfx.Spec

variable {d : Dicts}

/-- the main loop over a prefix of plain fields (none of them 10 / 212 / a dictionary group), stopping in front of `tail` -/
theorem parseLoop_prefixD (fx : Fixes) : ∀ (pre : List TagValue) (fields : List TagValue) (idx : Nat) (c : PCore) (tail : Bytes),
    (∀ tv ∈ pre, IsWire tv ∧ tv.tag ≠ 10 ∧ tv.tag ≠ 212) → (∀ tv ∈ pre, NoGroupTag d tv.tag) → c.xmlDataLen = 0 →
    c.rawBytes = wireOf pre ++ tail → idx + pre.length ≤ fields.length →
    parseLoop fx d .main fields idx c =
      parseLoop fx d .main (setRange fields idx pre) (idx + pre.length) (runNDD d idx pre tail c) := by
  intro pre
  induction pre with
  | nil => intro fields idx c tail _ _ _ _ _; simp [setRange, runNDD]
  | cons tv r ih =>
    intro fields idx c tail hpre hng hx hraw hlen
    have htv := hpre tv (by simp)
    have hex : extractField c.rawBytes = (wireOf r ++ tail, .ok tv) := by
      rw [hraw]
      have : wireOf (tv :: r) ++ tail = tv.bytes ++ (wireOf r ++ tail) := by simp [wireOf, List.append_assoc]
      rw [this]; exact extractField_wire tv _ htv.1
    have hlen' : idx < fields.length := by simp at hlen; omega
    rw [parseLoop_step_D fx fields idx c tv _ hlen' hx hex htv.2.1 htv.2.2 (hng tv (by simp))]
    have hraw' : (ndTail (ndSwitchD d idx tv { c with rawBytes := wireOf r ++ tail })).rawBytes = wireOf r ++ tail := by
      rw [(ndTail_raw _).1, (ndSwitchD_raw _ _ _).1]
    have hx' : (ndTail (ndSwitchD d idx tv { c with rawBytes := wireOf r ++ tail })).xmlDataLen = 0 := by
      rw [(ndTail_raw _).2.1, (ndSwitchD_raw _ _ _).2.1]; exact hx
    rw [ih (fields.set idx tv) (idx + 1) _ tail (fun x hx => hpre x (by simp [hx])) (fun x hx => hng x (by simp [hx])) hx' hraw'
      (by simp at hlen ⊢; omega)]
    have e : idx + 1 + r.length = idx + (tv :: r).length := by simp; omega
    simp only [setRange, runNDD, e]


/-! ## a flat repeating group of the application dictionary -/

/-- `G` is a repeating group of message type `mt` whose member list `C` has no nested groups -/
structure FlatGroup (d : Dicts) (mt : Bytes) (G : Tag) (C : List DNode) : Prop where
  defd : ∃ msgs fs n, d.app = some msgs ∧ alFindB msgs mt = some fs ∧ dfind fs G = some n ∧ n.children = C
  ne : C.isEmpty = false
  leaves : ∀ n ∈ C, n.children.isEmpty = true

/-- the MsgType lookup is stable: header 35 is the third field of the array -/
def MTInv (fields : List TagValue) (hd : FieldMap) (t35 : TagValue) : Prop :=
  alFind hd.lookup 35 = some (.view 2 1) ∧ fields[2]? = some t35

theorem MTInv.getBytes {fields : List TagValue} {hd : FieldMap} {t35 : TagValue} (h : MTInv fields hd t35) :
    hd.getBytes fields 35 = .ok t35.value := getBytes_view hd fields 35 2 t35 h.1 h.2

theorem MTInv.set {fields : List TagValue} {hd : FieldMap} {t35 : TagValue} (h : MTInv fields hd t35) (i : Nat) (tv : TagValue)
    (hi : 3 ≤ i) : MTInv (fields.set i tv) hd t35 :=
  ⟨h.1, by rw [List.getElem?_set_ne (by omega)]; exact h.2⟩

theorem MTInv.add {fields : List TagValue} {hd : FieldMap} {t35 : TagValue} (h : MTInv fields hd t35) (t : Tag) (f : Field)
    (ht : t ≠ 35) : MTInv fields (hd.add t f) t35 :=
  ⟨by simp only [FieldMap.add]; rw [alFind_insert_other _ _ _ _ (Ne.symm ht)]; exact h.1, h.2⟩

theorem dfind_mem (C : List DNode) (t : Tag) (n : DNode) (hf : dfind C t = some n) : n ∈ C := by
  induction C with
  | nil => simp [dfind] at hf
  | cons x r ih =>
    simp only [dfind] at hf
    cases hr : dfind r t with
    | some y => rw [hr] at hf; injection hf with hf; subst hf; exact List.mem_cons_of_mem _ (ih hr)
    | none =>
      rw [hr] at hf
      by_cases hx : x.tag = t
      · simp only [hx, if_true] at hf; injection hf with hf; subst hf; simp
      · simp [hx] at hf

theorem dfind_leaf_none (C : List DNode) (hl : ∀ n ∈ C, n.children.isEmpty = true) (t : Tag) : pathWalk C [t] = none := by
  unfold pathWalk
  cases hf : dfind C t with
  | none => rfl
  | some n => simp [hl n (dfind_mem C t n hf)]

theorem flat_isNum_G {mt : Bytes} {G : Tag} {C : List DNode} (hg : FlatGroup d mt G C) (fields : List TagValue) (hd : FieldMap)
    (t35 : TagValue) (hmt : MTInv fields hd t35) (hv : t35.value = mt) :
    isNumInGroupField d fields hd [G] = true ∧ getGroupFields d fields hd [G] = C := by
  obtain ⟨msgs, fs, n, hap, hfs, hn, hc⟩ := hg.defd
  have hne : n.children.isEmpty = false := by rw [hc]; exact hg.ne
  have hmf : msgFields d fields hd = some fs := by
    simp only [msgFields, hap, hmt.getBytes, hv, hfs]
  constructor
  · simp [isNumInGroupField, hmf, pathWalk, hn, hne]
  · have hCne : C ≠ [] := by intro e; rw [e] at hg; exact absurd hg.ne (by simp)
    simp [getGroupFields, hmf, pathWalk, hn, hne, hc, hCne]

theorem flat_isNum_member {mt : Bytes} {G : Tag} {C : List DNode} (hg : FlatGroup d mt G C) (fields : List TagValue) (hd : FieldMap)
    (t35 : TagValue) (hmt : MTInv fields hd t35) (hv : t35.value = mt) (t : Tag) :
    isNumInGroupField d fields hd ([G] ++ [t]) = false := by
  obtain ⟨msgs, fs, n, hap, hfs, hn, hc⟩ := hg.defd
  have hmf : msgFields d fields hd = some fs := by
    simp only [msgFields, hap, hmt.getBytes, hv, hfs]
  have : pathWalk fs [G, t] = none := by
    simp only [pathWalk, hn, hc]
    exact dfind_leaf_none C hg.leaves t
  simp [isNumInGroupField, hmf, this]


/-! ## steps of the loop around and inside the group -/

/-- the NumInGroup field in main mode: `parseGroup` is entered -/
theorem parseLoop_enter_group (fields : List TagValue) (idx : Nat) (c : PCore) (tv : TagValue) (raw' : Bytes) (gf : List DNode)
    (hidx : idx < fields.length) (hx : c.xmlDataLen = 0) (hex : extractField c.rawBytes = (raw', .ok tv))
    (hh : isHeaderField d tv.tag = false) (ht : isTrailerField d tv.tag = false)
    (hnum : isNumInGroupField d (fields.set idx tv) c.header [tv.tag] = true)
    (hgf : getGroupFields d (fields.set idx tv) c.header [tv.tag] = gf) :
    parseLoop Fixes.cur d .main fields idx c =
      parseLoop Fixes.cur d (.grp idx [tv.tag] gf) (fields.set idx tv) (idx + 1)
        { c with rawBytes := raw', foundBody := true, trailerBytes := raw' } := by
  rw [parseLoop]
  simp only [hidx, dite_true, hx, show ¬ ((0 : Int) > 0) by decide, if_false, hex]
  simp only [mainSwitch, hh, ht, hnum, hgf, Fixes.cur, if_true, Bool.false_eq_true, if_false]

/-- a member of the flat group inside `parseGroup` -/
theorem parseLoop_member (fields : List TagValue) (idx j : Nat) (c : PCore) (tv : TagValue) (raw' : Bytes) (G : Tag) (gf : List DNode)
    (hidx : idx < fields.length) (hex : extractField c.rawBytes = (raw', .ok tv))
    (hmem : isGroupMember tv.tag gf = true)
    (hnum : isNumInGroupField d (fields.set idx tv) c.header ([G] ++ [tv.tag]) = false) :
    parseLoop Fixes.cur d (.grp j [G] gf) fields idx c =
      parseLoop Fixes.cur d (.grp j [G] gf) (fields.set idx tv) (idx + 1) { c with rawBytes := raw', trailerBytes := raw' } := by
  rw [parseLoop]
  simp only [hidx, dite_true, hex]
  simp only [grpSwitch, hmem, hnum, Fixes.cur, if_true, Bool.false_eq_true, if_false]


/-- the first field behind the group is a plain body field: the group is closed, the field added to the body -/
theorem parseLoop_exit_body (fields : List TagValue) (idx j : Nat) (c : PCore) (tv g0 : TagValue) (raw' : Bytes) (G : Tag) (gf : List DNode)
    (hidx : idx < fields.length) (hj : (fields.set idx tv)[j]? = some g0) (hex : extractField c.rawBytes = (raw', .ok tv))
    (hmem : isGroupMember tv.tag gf = false) (hh : isHeaderField d tv.tag = false) (ht : isTrailerField d tv.tag = false)
    (hng : NoGroupTag d tv.tag) (h10 : tv.tag ≠ 10) (h212 : tv.tag ≠ 212) :
    parseLoop Fixes.cur d (.grp j [G] gf) fields idx c =
      parseLoop Fixes.cur d .main (fields.set idx tv) (idx + 1)
        (ndTail { c with rawBytes := raw', trailerBytes := raw',
                         body := (c.body.add g0.tag (.view j (idx - j))).add tv.tag (.view idx 1) }) := by
  rw [parseLoop]
  simp only [hidx, dite_true, hex]
  have hidxR : idxR (fields.set idx tv) j = .ok g0 := by simp [idxR, hj]
  simp only [grpSwitch, hmem, hh, ht, isNum_false d _ _ tv.tag hng, Fixes.cur, if_true, Bool.false_eq_true, if_false,
    List.reverse_cons, List.reverse_nil, List.nil_append, popToMember, addDm, hidxR, tailStep_nd _ _ _ h10 h212]

/-- the group is the last thing in the body: CheckSum closes it -/
theorem parseLoop_exit_10 (fields : List TagValue) (idx j : Nat) (c : PCore) (tv g0 : TagValue) (raw' : Bytes) (G : Tag) (gf : List DNode)
    (hidx : idx < fields.length) (hj : (fields.set idx tv)[j]? = some g0) (hex : extractField c.rawBytes = (raw', .ok tv))
    (hmem : isGroupMember tv.tag gf = false) (hh : isHeaderField d tv.tag = false) (h10 : tv.tag = 10) :
    parseLoop Fixes.cur d (.grp j [G] gf) fields idx c =
      finishParse (fields.set idx tv)
        { c with rawBytes := raw', body := c.body.add g0.tag (.view j (idx - j)),
                 trailer := c.trailer.add tv.tag (.view idx 1), foundTrailer := true } := by
  rw [parseLoop]
  simp only [hidx, dite_true, hex]
  have hidxR : idxR (fields.set idx tv) j = .ok g0 := by simp [idxR, hj]
  have ht : isTrailerField d tv.tag = true := by rw [h10]; simp [isTrailerField, Tag.isTrailer, staticTrailerTags]
  simp only [grpSwitch, hmem, hh, ht, Fixes.cur, if_true, Bool.false_eq_true, if_false, addDm, hidxR, tailStep_10 _ _ _ h10]


def memState (c : PCore) (M : List TagValue) (tail : Bytes) : PCore :=
  match M with
  | [] => c
  | _ :: _ => { c with rawBytes := tail, trailerBytes := tail }

theorem setRange_append (fields : List TagValue) (idx : Nat) (a b : List TagValue) :
    setRange fields idx (a ++ b) = setRange (setRange fields idx a) (idx + a.length) b := by
  induction a generalizing fields idx with
  | nil => simp [setRange]
  | cons x r ih =>
    simp only [List.cons_append, setRange, List.length_cons]
    rw [ih]; congr 1; omega

theorem setRange_getElem_lt (fields : List TagValue) (idx : Nat) (l : List TagValue) (k : Nat) (hk : k < idx) :
    (setRange fields idx l)[k]? = fields[k]? := by
  induction l generalizing fields idx with
  | nil => rfl
  | cons x r ih =>
    simp only [setRange]
    rw [ih _ _ (by omega), List.getElem?_set_ne (by omega)]

theorem MTInv.setRange {fields : List TagValue} {hd : FieldMap} {t35 : TagValue} (h : MTInv fields hd t35) (idx : Nat) (l : List TagValue)
    (hi : 3 ≤ idx) : MTInv (setRange fields idx l) hd t35 :=
  ⟨h.1, by rw [setRange_getElem_lt _ _ _ _ (by omega)]; exact h.2⟩

/-- the members of the flat group: `parseGroup` stays in the group -/
theorem parseLoop_members {mt : Bytes} {G : Tag} {C : List DNode} (hg : FlatGroup d mt G C) (t35 : TagValue) (hv : t35.value = mt) (j : Nat) :
    ∀ (M : List TagValue) (fields : List TagValue) (idx : Nat) (c : PCore) (tail : Bytes),
    (∀ tv ∈ M, IsWire tv ∧ isGroupMember tv.tag C = true) → MTInv fields c.header t35 → 3 ≤ idx →
    c.rawBytes = wireOf M ++ tail → idx + M.length ≤ fields.length →
    parseLoop Fixes.cur d (.grp j [G] C) fields idx c =
      parseLoop Fixes.cur d (.grp j [G] C) (setRange fields idx M) (idx + M.length) (memState c M tail) := by
  intro M
  induction M with
  | nil => intro fields idx c tail _ _ _ _ _; simp [setRange, memState]
  | cons tv r ih =>
    intro fields idx c tail hM hmt hi hraw hlen
    have htv := hM tv (by simp)
    have hex : extractField c.rawBytes = (wireOf r ++ tail, .ok tv) := by
      rw [hraw]
      have : wireOf (tv :: r) ++ tail = tv.bytes ++ (wireOf r ++ tail) := by simp [wireOf, List.append_assoc]
      rw [this]; exact extractField_wire tv _ htv.1
    have hlen' : idx < fields.length := by simp at hlen; omega
    have hmt' : MTInv (fields.set idx tv) c.header t35 := hmt.set idx tv hi
    rw [parseLoop_member fields idx j c tv _ G C hlen' hex htv.2 (flat_isNum_member hg _ _ t35 hmt' hv tv.tag)]
    rw [ih (fields.set idx tv) (idx + 1) { c with rawBytes := wireOf r ++ tail, trailerBytes := wireOf r ++ tail } tail
      (fun x hx => hM x (by simp [hx])) hmt' (by omega) rfl (by simp at hlen ⊢; omega)]
    have e : idx + 1 + r.length = idx + (tv :: r).length := by simp; omega
    simp only [setRange, e]
    congr 1
    cases r with
    | nil => simp [memState, wireOf]
    | cons y ys => simp [memState]


/-! ## the whole parse of a message with one flat dictionary group -/

theorem finish_ok (F : List TagValue) (C : PCore) (t9 : TagValue) (h9 : alFind C.header.lookup 9 = some (.view 1 1))
    (hF : F[1]? = some t9) (hbl : atoi t9.value = .ok ((fieldsLength F : Nat) : Int)) (hx : C.xmlDataMsg = false) :
    finishParse F C = .ok (F, finishAdjust C) := by
  have hget : (finishAdjust C).header.getInt F 9 = .ok ((fieldsLength F : Nat) : Int) := by
    rw [(finishAdjust_keeps C).1]
    have hb := getBytes_view C.header F 9 1 t9 h9 hF
    simp [FieldMap.getInt, hb, hbl]
  simp only [finishParse, hget]
  simp

theorem runNDD_xmlLen : ∀ (pre : List TagValue) (idx : Nat) (tail : Bytes) (c : PCore),
    (runNDD d idx pre tail c).xmlDataLen = c.xmlDataLen := by
  intro pre
  induction pre with
  | nil => intro idx tail c; rfl
  | cons tv r ih =>
    intro idx tail c
    simp only [runNDD]
    rw [ih, (ndTail_raw _).2.1, (ndSwitchD_raw _ _ _).2.1]

theorem runNDD_raw : ∀ (pre : List TagValue) (idx : Nat) (tail : Bytes) (c : PCore), pre ≠ [] →
    (runNDD d idx pre tail c).rawBytes = tail := by
  intro pre
  induction pre with
  | nil => intro idx tail c h; exact absurd rfl h
  | cons tv r ih =>
    intro idx tail c _
    simp only [runNDD]
    cases r with
    | nil => simp only [runNDD]; rw [(ndTail_raw _).1, (ndSwitchD_raw _ _ _).1]; simp [wireOf]
    | cons y ys => exact ih _ _ _ (by simp)

theorem setRange_snoc (fields : List TagValue) (idx : Nat) (a : List TagValue) (x : TagValue) :
    (setRange fields idx a).set (idx + a.length) x = setRange fields idx (a ++ [x]) := by
  rw [setRange_append]; rfl

theorem setRange_getElem_self (fields : List TagValue) (idx : Nat) (a : List TagValue) (x : TagValue) (b : List TagValue)
    (h : idx + a.length < fields.length) : (setRange fields idx (a ++ x :: b))[idx + a.length]? = some x := by
  rw [setRange_append]
  simp only [setRange]
  rw [setRange_getElem_lt _ _ _ _ (by omega), List.getElem?_set_self (by rw [setRange_length]; exact h)]


theorem runNDD_raw' (pre : List TagValue) (idx : Nat) (tail : Bytes) (c : PCore) (h : c.rawBytes = wireOf pre ++ tail) :
    (runNDD d idx pre tail c).rawBytes = tail := by
  cases pre with
  | nil => simpa [runNDD, wireOf] using h
  | cons x r => exact runNDD_raw _ _ _ _ (by simp)

/-- hypotheses on the plain fields around the group -/
def PlainFields (d : Dicts) (l : List TagValue) : Prop :=
  ∀ tv ∈ l, IsWire tv ∧ tv.tag ≠ 10 ∧ tv.tag ≠ 212 ∧ tv.tag ≠ 9 ∧ tv.tag ≠ 35 ∧ NoGroupTag d tv.tag

theorem memState_keeps (c : PCore) (M : List TagValue) (tail : Bytes) :
    (memState c M tail).header = c.header ∧ (memState c M tail).body = c.body ∧ (memState c M tail).trailer = c.trailer ∧
    (memState c M tail).xmlDataLen = c.xmlDataLen ∧ (memState c M tail).xmlDataMsg = c.xmlDataMsg ∧
    (memState c M tail).foundBody = c.foundBody := by
  cases M <;> exact ⟨rfl, rfl, rfl, rfl, rfl, rfl⟩

theorem memState_raw (c : PCore) (M : List TagValue) (tail : Bytes) (h : c.rawBytes = wireOf M ++ tail) :
    (memState c M tail).rawBytes = tail := by
  cases M with
  | nil => simpa [memState, wireOf] using h
  | cons x r => rfl

/-- from the start of the main loop to the end of the group's members -/
theorem parse_to_group {mt : Bytes} {G : Tag} {C : List DNode} (hg : FlatGroup d mt G C)
    (t8 t9 t35 g0 : TagValue) (preA M : List TagValue) (Z : Bytes) (f0 : List TagValue)
    (hv : t35.value = mt) (h35 : t35.tag = 35) (h9 : t9.tag = 9) (h8 : t8.tag = 8)
    (hpre : PlainFields d preA) (hg0 : IsWire g0) (hG : g0.tag = G)
    (hGh : isHeaderField d G = false) (hGt : isTrailerField d G = false)
    (hM : ∀ tv ∈ M, IsWire tv ∧ isGroupMember tv.tag C = true)
    (hf2 : f0[2]? = some t35) (hlen : 3 + preA.length + 1 + M.length ≤ f0.length) :
    ∃ cM : PCore,
      parseLoop Fixes.cur d .main f0 3 (ndInit t8 t9 t35 (wireOf preA ++ (g0.bytes ++ (wireOf M ++ Z)))) =
        parseLoop Fixes.cur d (.grp (3 + preA.length) [G] C) (setRange f0 3 (preA ++ g0 :: M)) (3 + preA.length + 1 + M.length) cM ∧
      cM.header = (runNDD d 3 preA (g0.bytes ++ (wireOf M ++ Z)) (ndInit t8 t9 t35 (wireOf preA ++ (g0.bytes ++ (wireOf M ++ Z))))).header ∧
      cM.body = (runNDD d 3 preA (g0.bytes ++ (wireOf M ++ Z)) (ndInit t8 t9 t35 (wireOf preA ++ (g0.bytes ++ (wireOf M ++ Z))))).body ∧
      cM.trailer = (runNDD d 3 preA (g0.bytes ++ (wireOf M ++ Z)) (ndInit t8 t9 t35 (wireOf preA ++ (g0.bytes ++ (wireOf M ++ Z))))).trailer ∧
      cM.xmlDataLen = 0 ∧ cM.xmlDataMsg = false ∧ cM.rawBytes = Z ∧ cM.foundBody = true := by
  generalize hc0 : ndInit t8 t9 t35 (wireOf preA ++ (g0.bytes ++ (wireOf M ++ Z))) = c0
  have hraw0 : c0.rawBytes = wireOf preA ++ (g0.bytes ++ (wireOf M ++ Z)) := by rw [← hc0]; rfl
  have hx0 : c0.xmlDataLen = 0 := by rw [← hc0]; rfl
  have hxm0 : c0.xmlDataMsg = false := by rw [← hc0]; rfl
  have h35find0 : alFind c0.header.lookup 35 = some (.view 2 1) := by
    rw [← hc0]; simp [ndInit, FieldMap.add, FieldMap.empty, alInsert, alFind, h8, h9, h35]
  -- P1: the plain prefix
  have hP1 := parseLoop_prefixD (d := d) Fixes.cur preA f0 3 c0 (g0.bytes ++ (wireOf M ++ Z))
    (fun tv h => ⟨(hpre tv h).1, (hpre tv h).2.1, (hpre tv h).2.2.1⟩) (fun tv h => (hpre tv h).2.2.2.2.2) hx0 hraw0 (by omega)
  generalize hc1 : runNDD d 3 preA (g0.bytes ++ (wireOf M ++ Z)) c0 = c1 at hP1 ⊢
  have hraw1 : c1.rawBytes = g0.bytes ++ (wireOf M ++ Z) := by rw [← hc1]; exact runNDD_raw' _ _ _ _ hraw0
  have hx1 : c1.xmlDataLen = 0 := by rw [← hc1, runNDD_xmlLen]; exact hx0
  have hxm1 : c1.xmlDataMsg = false := by rw [← hc1, runNDD_xml]; exact hxm0
  have h35find1 : alFind c1.header.lookup 35 = some (.view 2 1) := by
    rw [← hc1, runNDD_header_find 35 preA 3 _ c0 (fun tv h => (hpre tv h).2.2.2.2.1)]; exact h35find0
  -- P2: the NumInGroup field
  have hidx1 : 3 + preA.length < (setRange f0 3 preA).length := by rw [setRange_length]; omega
  have hex1 : extractField c1.rawBytes = (wireOf M ++ Z, .ok g0) := by rw [hraw1]; exact extractField_wire g0 _ hg0
  have hmt2 : MTInv ((setRange f0 3 preA).set (3 + preA.length) g0) c1.header t35 :=
    (MTInv.setRange ⟨h35find1, hf2⟩ 3 preA (by omega)).set _ _ (by omega)
  obtain ⟨hnumG, hgfG⟩ := flat_isNum_G hg _ c1.header t35 hmt2 hv
  have hP2 := parseLoop_enter_group (d := d) (setRange f0 3 preA) (3 + preA.length) c1 g0 (wireOf M ++ Z) C hidx1 hx1 hex1
    (by rw [hG]; exact hGh) (by rw [hG]; exact hGt) (by rw [hG]; exact hnumG) (by rw [hG]; exact hgfG)
  rw [hG] at hP2
  -- P3: the members
  have hP3 := parseLoop_members hg t35 hv (3 + preA.length) M ((setRange f0 3 preA).set (3 + preA.length) g0) (3 + preA.length + 1)
    { c1 with rawBytes := wireOf M ++ Z, foundBody := true, trailerBytes := wireOf M ++ Z } Z hM hmt2 (by omega) rfl
    (by simp [setRange_length]; omega)
  refine ⟨memState { c1 with rawBytes := wireOf M ++ Z, foundBody := true, trailerBytes := wireOf M ++ Z } M Z, ?_, ?_⟩
  · rw [hP1, hP2, hP3]
    have e1 : (setRange f0 3 preA).set (3 + preA.length) g0 = setRange f0 3 (preA ++ [g0]) := setRange_snoc _ _ _ _
    have e2 : setRange (setRange f0 3 (preA ++ [g0])) (3 + preA.length + 1) M = setRange f0 3 (preA ++ g0 :: M) := by
      have := setRange_append f0 3 (preA ++ [g0]) M
      simp only [List.length_append, List.length_singleton, List.append_assoc, List.singleton_append] at this
      rw [this]; congr 1
    rw [e1, e2]
  · obtain ⟨k1, k2, k3, k4, k5, k6⟩ := memState_keeps { c1 with rawBytes := wireOf M ++ Z, foundBody := true, trailerBytes := wireOf M ++ Z } M Z
    exact ⟨k1, k2, k3, by rw [k4]; exact hx1, by rw [k5]; exact hxm1, memState_raw _ _ _ rfl, by rw [k6]⟩


/-- the message a parse produces is assembled from a final loop state like this -/
def msgOf (w : Bytes) (fields : List TagValue) (c : PCore) : Message :=
  { header := c.header, body := c.body, trailer := c.trailer, fields := fields, bodyBytes := c.bodyBytes, raw := some w }

/-- the three leading extractions of `parseMessage`, for a wire that starts with 8, 9, 35 -/
theorem parseMessage_lead (fx : Fixes) (t8 t9 t35 : TagValue) (rest : List TagValue)
    (hw8 : IsWire t8) (hw9 : IsWire t9) (hw35 : IsWire t35) (hrest : ∀ tv ∈ rest, IsWire tv)
    (h8 : t8.tag = 8) (h9 : t9.tag = 9) (h35 : t35.tag = 35) :
    parseMessage fx d (wireOf (t8 :: t9 :: t35 :: rest)) =
      (match parseLoop fx d .main ([t8, t9, t35] ++ List.replicate rest.length TagValue.zero) 3 (ndInit t8 t9 t35 (wireOf rest)) with
       | .err e => .err e
       | .fault w => .fault w
       | .ok (fields, c') => .ok (msgOf (wireOf (t8 :: t9 :: t35 :: rest)) fields c')) := by
  have hall : ∀ tv ∈ t8 :: t9 :: t35 :: rest, IsWire tv := by
    intro tv htv
    simp only [List.mem_cons] at htv
    rcases htv with e | e | e | h
    · subst e; exact hw8
    · subst e; exact hw9
    · subst e; exact hw35
    · exact hrest tv h
  have hcount := countByte_wireOf _ hall
  have hn : (t8 :: t9 :: t35 :: rest).length = rest.length + 3 := by simp
  have ex1 : extractField (wireOf (t8 :: t9 :: t35 :: rest)) = (wireOf (t9 :: t35 :: rest), .ok t8) := by
    have : wireOf (t8 :: t9 :: t35 :: rest) = t8.bytes ++ wireOf (t9 :: t35 :: rest) := by simp [wireOf]
    rw [this]; exact extractField_wire t8 _ hw8
  have ex2 : extractField (wireOf (t9 :: t35 :: rest)) = (wireOf (t35 :: rest), .ok t9) := by
    have : wireOf (t9 :: t35 :: rest) = t9.bytes ++ wireOf (t35 :: rest) := by simp [wireOf]
    rw [this]; exact extractField_wire t9 _ hw9
  have ex3 : extractField (wireOf (t35 :: rest)) = (wireOf rest, .ok t35) := by
    have : wireOf (t35 :: rest) = t35.bytes ++ wireOf rest := by simp [wireOf]
    rw [this]; exact extractField_wire t35 _ hw35
  simp only [parseMessage, hcount, hn]
  have hne : ¬ (rest.length + 3 = 0) := by omega
  simp only [hne, if_false]
  rw [extractSpecific_ok fx 8 _ 0 _ _ _ t8 (by simp) ex1 h8]
  simp only []
  rw [extractSpecific_ok fx 9 _ 1 _ _ _ t9 (by simp) ex2 h9]
  simp only []
  rw [extractSpecific_ok fx 35 _ 2 _ _ _ t35 (by simp) ex3 h35]
  simp only []
  have hf3 : (((List.replicate (rest.length + 3) TagValue.zero).set 0 t8).set 1 t9).set 2 t35 =
      [t8, t9, t35] ++ List.replicate rest.length TagValue.zero := by
    simp [List.replicate_succ]
  rw [hf3]
  rfl


/-- PARSE WITH THE DICTIONARY, GROUP LAST IN THE BODY: `8, 9, 35, plain…, G=<n>, members…, 10` -/
theorem parse_dict_group_last {mt : Bytes} {G : Tag} {C : List DNode} (hg : FlatGroup d mt G C)
    (t8 t9 t35 g0 t10 : TagValue) (preA M : List TagValue)
    (hw8 : IsWire t8) (hw9 : IsWire t9) (hw35 : IsWire t35) (hw10 : IsWire t10)
    (h8 : t8.tag = 8) (h9 : t9.tag = 9) (h35 : t35.tag = 35) (h10 : t10.tag = 10) (hv : t35.value = mt)
    (hpre : PlainFields d preA) (hg0 : IsWire g0) (hG : g0.tag = G)
    (hGh : isHeaderField d G = false) (hGt : isTrailerField d G = false)
    (hM : ∀ tv ∈ M, IsWire tv ∧ isGroupMember tv.tag C = true)
    (h10m : isGroupMember 10 C = false) (hh10 : isHeaderField d 10 = false)
    (hbl : atoi t9.value = .ok ((fieldsLength (t8 :: t9 :: t35 :: ((preA ++ g0 :: M) ++ [t10])) : Nat) : Int)) :
    ∃ m, parseMessage Fixes.cur d (wireOf (t8 :: t9 :: t35 :: ((preA ++ g0 :: M) ++ [t10]))) = .ok m ∧
      m.fields = t8 :: t9 :: t35 :: ((preA ++ g0 :: M) ++ [t10]) ∧
      alFind m.body.lookup G = some (.view (3 + preA.length) (1 + M.length)) := by
  have hrestW : ∀ tv ∈ (preA ++ g0 :: M) ++ [t10], IsWire tv := by
    intro tv htv
    simp only [List.mem_append, List.mem_cons, List.mem_singleton] at htv
    rcases htv with (h | e | h) | e
    · exact (hpre tv h).1
    · subst e; exact hg0
    · exact (hM tv h).1
    · simp at e; subst e; exact hw10
  rw [parseMessage_lead Fixes.cur t8 t9 t35 _ hw8 hw9 hw35 hrestW h8 h9 h35]
  have hwire : wireOf ((preA ++ g0 :: M) ++ [t10]) = wireOf preA ++ (g0.bytes ++ (wireOf M ++ (t10.bytes ++ []))) := by
    simp [wireOf, List.append_assoc]
  rw [hwire]
  have hlenR : ((preA ++ g0 :: M) ++ [t10]).length = preA.length + 1 + M.length + 1 := by simp; omega
  obtain ⟨cM, hP, hch, hcb, hct, hcx, hcxm, hcraw, _⟩ := parse_to_group hg t8 t9 t35 g0 preA M (t10.bytes ++ [])
    ([t8, t9, t35] ++ List.replicate ((preA ++ g0 :: M) ++ [t10]).length TagValue.zero) hv h35 h9 h8 hpre hg0 hG hGh hGt hM
    (by simp) (by simp [hlenR]; omega)
  rw [hP]
  -- the CheckSum field closes the group
  generalize hF3 : setRange ([t8, t9, t35] ++ List.replicate ((preA ++ g0 :: M) ++ [t10]).length TagValue.zero) 3 (preA ++ g0 :: M) = F3
  have hF3len : F3.length = 3 + (preA.length + 1 + M.length + 1) := by rw [← hF3, setRange_length]; simp [hlenR]; omega
  have hk : 3 + preA.length + 1 + M.length < F3.length := by omega
  have hjF3 : F3[3 + preA.length]? = some g0 := by
    rw [← hF3]; exact setRange_getElem_self _ 3 preA g0 M (by simp [hlenR]; omega)
  have hj : (F3.set (3 + preA.length + 1 + M.length) t10)[3 + preA.length]? = some g0 := by
    rw [List.getElem?_set_ne (by omega)]; exact hjF3
  have hex : extractField cM.rawBytes = ([], .ok t10) := by rw [hcraw]; exact extractField_wire t10 [] hw10
  rw [parseLoop_exit_10 F3 _ (3 + preA.length) cM t10 g0 [] G C hk hj hex (by rw [h10]; exact h10m) (by rw [h10]; exact hh10) h10]
  -- the final check
  have e9 : alFind cM.header.lookup 9 = some (.view 1 1) := by
    rw [hch, runNDD_header_find 9 preA 3 _ _ (fun tv h => (hpre tv h).2.2.2.1)]
    simp [ndInit, FieldMap.add, FieldMap.empty, alInsert, alFind, h8, h9, h35]
  have hFeq : F3.set (3 + preA.length + 1 + M.length) t10 = t8 :: t9 :: t35 :: ((preA ++ g0 :: M) ++ [t10]) := by
    rw [← hF3]
    have e1 : 3 + preA.length + 1 + M.length = 3 + (preA ++ g0 :: M).length := by simp; omega
    rw [e1, setRange_snoc]
    have := setRange_replicate TagValue.zero ((preA ++ g0 :: M) ++ [t10]) [t8, t9, t35]
    simpa using this
  rw [hFeq]
  have hfin := finish_ok (t8 :: t9 :: t35 :: ((preA ++ g0 :: M) ++ [t10]))
    { cM with rawBytes := [], body := cM.body.add g0.tag (.view (3 + preA.length) (3 + preA.length + 1 + M.length - (3 + preA.length))),
              trailer := cM.trailer.add t10.tag (.view (3 + preA.length + 1 + M.length) 1), foundTrailer := true }
    t9 e9 (by simp) hbl hcxm
  rw [hfin]
  refine ⟨_, rfl, rfl, ?_⟩
  show alFind (finishAdjust _).body.lookup G = _
  rw [(finishAdjust_keeps _).2.2.1]
  simp only [FieldMap.add, hG]
  rw [alFind_insert_self]
  congr 2; omega


theorem ndSwitchD_10 (idx : Nat) (t10 : TagValue) (c : PCore) (h10 : t10.tag = 10) (hh10 : isHeaderField d 10 = false) :
    (ndSwitchD d idx t10 c).header = c.header ∧ (ndSwitchD d idx t10 c).body = c.body := by
  unfold ndSwitchD
  have h1 : isHeaderField d t10.tag = false := by rw [h10]; exact hh10
  have h2 : isTrailerField d t10.tag = true := by rw [h10]; simp [isTrailerField, Tag.isTrailer, staticTrailerTags]
  simp [h1, h2]

/-- PARSE WITH THE DICTIONARY, GROUP FOLLOWED BY BODY FIELDS: `8, 9, 35, plain…, G=<n>, members…, z0, plain…, 10` -/
theorem parse_dict_group_mid {mt : Bytes} {G : Tag} {C : List DNode} (hg : FlatGroup d mt G C)
    (t8 t9 t35 g0 z0 t10 : TagValue) (preA M postB : List TagValue)
    (hw8 : IsWire t8) (hw9 : IsWire t9) (hw35 : IsWire t35) (hw10 : IsWire t10)
    (h8 : t8.tag = 8) (h9 : t9.tag = 9) (h35 : t35.tag = 35) (h10 : t10.tag = 10) (hv : t35.value = mt)
    (hpre : PlainFields d preA) (hg0 : IsWire g0) (hG : g0.tag = G)
    (hGh : isHeaderField d G = false) (hGt : isTrailerField d G = false)
    (hM : ∀ tv ∈ M, IsWire tv ∧ isGroupMember tv.tag C = true)
    (hz : PlainFields d (z0 :: postB)) (hzm : isGroupMember z0.tag C = false)
    (hzh : isHeaderField d z0.tag = false) (hzt : isTrailerField d z0.tag = false)
    (hzG : ∀ tv ∈ z0 :: postB, tv.tag ≠ G)
    (hng10 : NoGroupTag d 10) (hh10 : isHeaderField d 10 = false)
    (hbl : atoi t9.value = .ok ((fieldsLength (t8 :: t9 :: t35 :: ((preA ++ g0 :: M) ++ (z0 :: postB ++ [t10]))) : Nat) : Int)) :
    ∃ m, parseMessage Fixes.cur d (wireOf (t8 :: t9 :: t35 :: ((preA ++ g0 :: M) ++ (z0 :: postB ++ [t10])))) = .ok m ∧
      m.fields = t8 :: t9 :: t35 :: ((preA ++ g0 :: M) ++ (z0 :: postB ++ [t10])) ∧
      alFind m.body.lookup G = some (.view (3 + preA.length) (1 + M.length)) ∧
      ((∀ tv ∈ postB, tv.tag ≠ z0.tag) → alFind m.body.lookup z0.tag = some (.view (3 + preA.length + 1 + M.length) 1)) := by
  have hz0 := hz z0 (by simp)
  have hrestW : ∀ tv ∈ (preA ++ g0 :: M) ++ (z0 :: postB ++ [t10]), IsWire tv := by
    intro tv htv
    simp only [List.mem_append, List.mem_cons, List.mem_singleton] at htv
    rcases htv with (h | e | h) | (e | h) | e
    · exact (hpre tv h).1
    · subst e; exact hg0
    · exact (hM tv h).1
    · subst e; exact hz0.1
    · exact (hz tv (by simp [h])).1
    · simp at e; subst e; exact hw10
  rw [parseMessage_lead Fixes.cur t8 t9 t35 _ hw8 hw9 hw35 hrestW h8 h9 h35]
  have hwire : wireOf ((preA ++ g0 :: M) ++ (z0 :: postB ++ [t10])) =
      wireOf preA ++ (g0.bytes ++ (wireOf M ++ (z0.bytes ++ (wireOf postB ++ (t10.bytes ++ []))))) := by
    simp [wireOf, List.append_assoc]
  rw [hwire]
  have hlenR : ((preA ++ g0 :: M) ++ (z0 :: postB ++ [t10])).length = preA.length + 1 + M.length + 1 + postB.length + 1 := by
    simp; omega
  obtain ⟨cM, hP, hch, hcb, hct, hcx, hcxm, hcraw, _⟩ := parse_to_group hg t8 t9 t35 g0 preA M
    (z0.bytes ++ (wireOf postB ++ (t10.bytes ++ [])))
    ([t8, t9, t35] ++ List.replicate ((preA ++ g0 :: M) ++ (z0 :: postB ++ [t10])).length TagValue.zero) hv h35 h9 h8 hpre hg0 hG hGh hGt hM
    (by simp) (by simp [hlenR]; omega)
  rw [hP]
  generalize hF3 : setRange ([t8, t9, t35] ++ List.replicate ((preA ++ g0 :: M) ++ (z0 :: postB ++ [t10])).length TagValue.zero) 3 (preA ++ g0 :: M) = F3
  have hF3len : F3.length = 3 + (preA.length + 1 + M.length + 1 + postB.length + 1) := by
    rw [← hF3, setRange_length]; simp [hlenR]; omega
  have hk : 3 + preA.length + 1 + M.length < F3.length := by omega
  have hjF3 : F3[3 + preA.length]? = some g0 := by
    rw [← hF3]; exact setRange_getElem_self _ 3 preA g0 M (by simp [hlenR]; omega)
  have hj : (F3.set (3 + preA.length + 1 + M.length) z0)[3 + preA.length]? = some g0 := by
    rw [List.getElem?_set_ne (by omega)]; exact hjF3
  have hex : extractField cM.rawBytes = (wireOf postB ++ (t10.bytes ++ []), .ok z0) := by
    rw [hcraw]; exact extractField_wire z0 _ hz0.1
  rw [parseLoop_exit_body F3 _ (3 + preA.length) cM z0 g0 _ G C hk hj hex hzm hzh hzt hz0.2.2.2.2.2 hz0.2.1 hz0.2.2.1]
  -- the plain suffix up to CheckSum
  have hc4def : ∃ c4 : PCore, ndTail { cM with rawBytes := wireOf postB ++ (t10.bytes ++ []), trailerBytes := wireOf postB ++ (t10.bytes ++ []), body := (cM.body.add g0.tag (.view (3 + preA.length) (3 + preA.length + 1 + M.length - (3 + preA.length)))).add z0.tag (.view (3 + preA.length + 1 + M.length) 1) } = c4 := ⟨_, rfl⟩
  obtain ⟨c4, hc4⟩ := hc4def
  rw [hc4]
  have hc4h : c4.header = cM.header := by rw [← hc4, (ndTail_raw _).2.2.2.1]
  have hc4b : c4.body = (cM.body.add g0.tag (.view (3 + preA.length) (3 + preA.length + 1 + M.length - (3 + preA.length)))).add z0.tag
        (.view (3 + preA.length + 1 + M.length) 1) := by rw [← hc4, (ndTail_raw _).2.2.2.2.1]
  have hc4x : c4.xmlDataLen = 0 := by rw [← hc4, (ndTail_raw _).2.1]; exact hcx
  have hc4xm : c4.xmlDataMsg = false := by rw [← hc4, (ndTail_raw _).2.2.1]; exact hcxm
  have hc4raw : c4.rawBytes = wireOf postB ++ (t10.bytes ++ []) := by rw [← hc4, (ndTail_raw _).1]
  rw [parseLoop_ndD Fixes.cur postB _ (3 + preA.length + 1 + M.length + 1) c4 t10 []
    (fun tv h => ⟨(hz tv (by simp [h])).1, (hz tv (by simp [h])).2.1, (hz tv (by simp [h])).2.2.1⟩)
    (fun tv h => (hz tv (by simp [h])).2.2.2.2.2) (by rw [h10]; exact hng10) hw10 h10 hc4x hc4raw
    (by simp; omega)]
  -- the field array is the wire
  have hFeq : setRange (F3.set (3 + preA.length + 1 + M.length) z0) (3 + preA.length + 1 + M.length + 1) (postB ++ [t10]) =
      t8 :: t9 :: t35 :: ((preA ++ g0 :: M) ++ (z0 :: postB ++ [t10])) := by
    rw [← hF3]
    have e1 : 3 + preA.length + 1 + M.length = 3 + (preA ++ g0 :: M).length := by simp; omega
    rw [e1, setRange_snoc]
    have e2 : 3 + (preA ++ g0 :: M).length + 1 = 3 + ((preA ++ g0 :: M) ++ [z0]).length := by simp; omega
    rw [e2, ← setRange_append]
    have e3 : ((preA ++ g0 :: M) ++ [z0]) ++ (postB ++ [t10]) = (preA ++ g0 :: M) ++ (z0 :: postB ++ [t10]) := by simp
    rw [e3]
    have := setRange_replicate TagValue.zero ((preA ++ g0 :: M) ++ (z0 :: postB ++ [t10])) [t8, t9, t35]
    simpa using this
  rw [hFeq]
  -- the final check
  generalize hC5 : ndSwitchD d (3 + preA.length + 1 + M.length + 1 + postB.length) t10
      { (runNDD d (3 + preA.length + 1 + M.length + 1) postB (t10.bytes ++ []) c4) with rawBytes := [] } = C5
  have hC5hb := ndSwitchD_10 (d := d) (3 + preA.length + 1 + M.length + 1 + postB.length) t10
      { (runNDD d (3 + preA.length + 1 + M.length + 1) postB (t10.bytes ++ []) c4) with rawBytes := [] } h10 hh10
  rw [hC5] at hC5hb
  have e9 : alFind C5.header.lookup 9 = some (.view 1 1) := by
    rw [hC5hb.1]
    show alFind (runNDD d _ postB _ c4).header.lookup 9 = _
    rw [runNDD_header_find 9 postB _ _ c4 (fun tv h => (hz tv (by simp [h])).2.2.2.1), hc4h, hch,
      runNDD_header_find 9 preA 3 _ _ (fun tv h => (hpre tv h).2.2.2.1)]
    simp [ndInit, FieldMap.add, FieldMap.empty, alInsert, alFind, h8, h9, h35]
  have hxm5 : C5.xmlDataMsg = false := by
    rw [← hC5, (ndSwitchD_raw _ _ _).2.2]
    show (runNDD d _ postB _ c4).xmlDataMsg = false
    rw [runNDD_xml]; exact hc4xm
  rw [finish_ok _ C5 t9 e9 (by simp) hbl hxm5]
  refine ⟨_, rfl, rfl, ?_, ?_⟩
  · show alFind (finishAdjust C5).body.lookup G = _
    rw [(finishAdjust_keeps _).2.2.1, hC5hb.2]
    show alFind ((runNDD d _ postB _ c4).sec .b).lookup G = _
    rw [runNDD_find_absent G .b postB _ _ c4 (fun tv h => hzG tv (by simp [h]))]
    show alFind c4.body.lookup G = _
    rw [hc4b]
    simp only [FieldMap.add]
    rw [alFind_insert_other _ _ _ _ (fun e => hzG z0 (by simp) e.symm), hG, alFind_insert_self]
    congr 2; omega
  · -- the field behind the group is found in the body
    intro hpz
    show alFind (finishAdjust C5).body.lookup z0.tag = _
    rw [(finishAdjust_keeps _).2.2.1, hC5hb.2]
    show alFind ((runNDD d _ postB _ c4).sec .b).lookup z0.tag = _
    rw [runNDD_find_absent z0.tag .b postB _ _ c4 hpz]
    show alFind c4.body.lookup z0.tag = _
    rw [hc4b]
    simp only [FieldMap.add]
    exact alFind_insert_self _ _ _


/-! ## reading the group back through the dictionary's template -/

theorem isGroupMember_iff (t : Tag) (C : List DNode) : isGroupMember t C = true ↔ t ∈ C.map DNode.tag := by
  induction C with
  | nil => simp [isGroupMember]
  | cons n r ih =>
    simp only [isGroupMember, List.any_cons, Bool.or_eq_true, decide_eq_true_eq, List.map_cons, List.mem_cons] at ih ⊢
    rw [ih]
    constructor
    · rintro (h | h)
      · exact Or.inl h.symm
      · exact Or.inr h
    · rintro (h | h)
      · exact Or.inl h.symm
      · exact Or.inr h

theorem serEntry_canon (e : List (Tag × Bytes)) (h : ∀ p ∈ e, inInt64 p.1 ∧ ∀ c ∈ p.2, c ≠ SOH) : ∀ tv ∈ serEntry e, CanonTV tv := by
  intro tv htv
  simp only [serEntry, List.mem_map] at htv
  obtain ⟨p, hp, rfl⟩ := htv
  exact canon_init p.1 p.2 (h p hp).2 (h p hp).1

/-- the group field of a message parsed as `A ++ G=<n> :: members ++ rest` reads back through the flat template -/
theorem read_back_flat (L A rest : List TagValue) (G d0 : Tag) (ts : List Tag) (es : List (List (Tag × Bytes)))
    (hL : L = A ++ countTV G es.length :: (es.flatMap serEntry ++ rest))
    (hes : ∀ e ∈ es, EntryOK d0 (d0 :: ts) e) (hn : es.length < 9223372036854775808) (hrest : FollowerOK (d0 :: ts) rest) :
    getGroup (flatTmpl (d0 :: ts)) ((Field.view A.length (1 + (es.flatMap serEntry).length)).full L) = .ok (readSpec rest es) := by
  have hfull : (Field.view A.length (1 + (es.flatMap serEntry).length)).full L = countTV G es.length :: (es.flatMap serEntry ++ rest) := by
    rw [hL]; simp [Field.full]
  rw [hfull]
  have hfuel : readFuel (countTV G es.length :: (es.flatMap serEntry ++ rest)) ≥ stepsOf es + 3 := by
    have := flatMap_serEntry_length es
    simp [readFuel, this]; omega
  simp only [getGroup, readGroup_flat G d0 ts rest hrest es hes hn _ hfuel]


/-! ## behind a nested group: the fixed and the original `parseGroup` (D6) -/

/-- `G` is a repeating group of message type `mt` with member list `C`, one of whose members, `N`, is a nested repeating group
    with member list `CN` (no further nesting) -/
structure NestedGroup (d : Dicts) (mt : Bytes) (G N : Tag) (C CN : List DNode) : Prop where
  defd : ∃ msgs fs nG nN, d.app = some msgs ∧ alFindB msgs mt = some fs ∧ dfind fs G = some nG ∧ nG.children = C ∧
    dfind C N = some nN ∧ nN.children = CN
  neC : C.isEmpty = false
  neN : CN.isEmpty = false
  leavesN : ∀ n ∈ CN, n.children.isEmpty = true

theorem nested_walks {mt : Bytes} {G N : Tag} {C CN : List DNode} (hg : NestedGroup d mt G N C CN) (fields : List TagValue)
    (hd : FieldMap) (t35 : TagValue) (hmt : MTInv fields hd t35) (hv : t35.value = mt) :
    isNumInGroupField d fields hd [G] = true ∧ getGroupFields d fields hd [G] = C := by
  obtain ⟨msgs, fs, nG, nN, hap, hfs, hnG, hcG, hnN, hcN⟩ := hg.defd
  have hmf : msgFields d fields hd = some fs := by simp only [msgFields, hap, hmt.getBytes, hv, hfs]
  have hne : nG.children.isEmpty = false := by rw [hcG]; exact hg.neC
  have hCne : C ≠ [] := by intro e; rw [e] at hg; exact absurd hg.neC (by simp)
  exact ⟨by simp [isNumInGroupField, hmf, pathWalk, hnG, hne], by simp [getGroupFields, hmf, pathWalk, hnG, hne, hcG, hCne]⟩

/-- AFTER THE FIX (D6): a field behind a nested group that is a member of NO enclosing group ends the group: the group field
    (count, members, nested members) is added to the body and the field itself as a body field — it is not swallowed -/
theorem grpSwitch_fixed_exits {mt : Bytes} {G N : Tag} {C CN : List DNode} (hg : NestedGroup d mt G N C CN)
    (fields : List TagValue) (idx j : Nat) (c : PCore) (tv g0 t35 : TagValue)
    (hmt : MTInv fields c.header t35) (hv : t35.value = mt) (hj : fields[j]? = some g0)
    (hmN : isGroupMember tv.tag CN = false) (hmC : isGroupMember tv.tag C = false)
    (hh : isHeaderField d tv.tag = false) (ht : isTrailerField d tv.tag = false) (hng : NoGroupTag d tv.tag) :
    grpSwitch Fixes.cur d fields idx tv j [G, N] CN c =
      .ok ({ c with trailerBytes := c.rawBytes, body := (c.body.add g0.tag (.view j (idx - j))).add tv.tag (.view idx 1) }, none) := by
  have hidxR : idxR fields j = .ok g0 := by simp [idxR, hj]
  obtain ⟨_, hgf⟩ := nested_walks hg fields c.header t35 hmt hv
  simp only [grpSwitch, hmN, hh, ht, isNum_false d _ _ tv.tag hng, Fixes.cur, if_true, Bool.false_eq_true, if_false,
    List.reverse_cons, List.reverse_nil, List.nil_append, List.cons_append, popToMember, hgf, hmC, addDm, hidxR]

/-- AFTER THE FIX: a field behind a nested group that is a member of the PARENT group continues the parent group
    (the tag stack is popped to the parent) -/
theorem grpSwitch_fixed_parent_member {mt : Bytes} {G N : Tag} {C CN : List DNode} (hg : NestedGroup d mt G N C CN)
    (fields : List TagValue) (idx j : Nat) (c : PCore) (tv t35 : TagValue)
    (hmt : MTInv fields c.header t35) (hv : t35.value = mt)
    (hmN : isGroupMember tv.tag CN = false) (hmC : isGroupMember tv.tag C = true)
    (hleaf : isNumInGroupField d fields c.header [G, tv.tag] = false)
    (hh : isHeaderField d tv.tag = false) (ht : isTrailerField d tv.tag = false) (hng : NoGroupTag d tv.tag) :
    grpSwitch Fixes.cur d fields idx tv j [G, N] CN c = .ok ({ c with trailerBytes := c.rawBytes }, some (.grp j [G] C)) := by
  obtain ⟨_, hgf⟩ := nested_walks hg fields c.header t35 hmt hv
  simp only [grpSwitch, hmN, hh, ht, isNum_false d _ _ tv.tag hng, Fixes.cur, if_true, Bool.false_eq_true, if_false,
    List.reverse_cons, List.reverse_nil, List.nil_append, List.cons_append, popToMember, hgf, hmC, hleaf]

/-- THE UNCHANGED CODE (D6): behind a nested group EVERY body field — member of an enclosing group or not — is kept inside
    the group ("belongs to the parent" was decided by asking whether the parent is a group): `Body.Has` is false for it -/
theorem grpSwitch_orig_swallows {mt : Bytes} {G N : Tag} {C CN : List DNode} (hg : NestedGroup d mt G N C CN)
    (fields : List TagValue) (idx j : Nat) (c : PCore) (tv t35 : TagValue)
    (hmt : MTInv fields c.header t35) (hv : t35.value = mt)
    (hmN : isGroupMember tv.tag CN = false)
    (hh : isHeaderField d tv.tag = false) (ht : isTrailerField d tv.tag = false) (hng : NoGroupTag d tv.tag) :
    grpSwitch Fixes.orig d fields idx tv j [G, N] CN c = .ok ({ c with trailerBytes := c.rawBytes }, some (.grp j [G, N] C)) := by
  obtain ⟨hnum, hgf⟩ := nested_walks hg fields c.header t35 hmt hv
  simp [grpSwitch, hmN, hh, ht, isNum_false d _ _ tv.tag hng, Fixes.orig, hnum, hgf]


end Qfx
