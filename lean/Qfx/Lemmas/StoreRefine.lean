/- lemmas for the refinement theorems of C16 (abstract store ⊑ memory / file / SQL store models) -/
import Qfx.Model.Store
import Qfx.Spec.Store
import Qfx.Lemmas.Bytes
import Qfx.Lemmas.Store
namespace Qfx.Store
open Qfx

/-! ## sorted maps -/

def Sorted (l : MsgMap) : Prop := l.Pairwise (fun a b => a.1 < b.1)

theorem mem_ainsert (n : Nat) (m : Bytes) (l : MsgMap) (p : Nat × Bytes) (h : p ∈ ainsert n m l) : p = (n, m) ∨ p ∈ l := by
  induction l with
  | nil => simp [ainsert] at h; exact Or.inl h
  | cons q t ih =>
    obtain ⟨k, v⟩ := q
    unfold ainsert at h
    split at h
    · simp at h; rcases h with h | h | h <;> simp [h]
    · split at h
      · simp at h; rcases h with h | h <;> simp [h]
      · simp at h; rcases h with h | h
        · simp [h]
        · rcases ih h with h | h <;> simp [h]

theorem ainsert_sorted (n : Nat) (m : Bytes) (l : MsgMap) (hs : Sorted l) : Sorted (ainsert n m l) := by
  induction l with
  | nil => simp [ainsert, Sorted]
  | cons q t ih =>
    obtain ⟨k, v⟩ := q
    have hq : ∀ p ∈ t, k < p.1 := (List.pairwise_cons.1 hs).1
    have ht : Sorted t := (List.pairwise_cons.1 hs).2
    unfold ainsert
    split
    · rename_i hnk
      refine List.pairwise_cons.2 ⟨?_, hs⟩
      intro p hp
      rcases List.mem_cons.1 hp with rfl | hp
      · exact hnk
      · exact Nat.lt_trans hnk (hq p hp)
    · split
      · rename_i _ hnk
        refine List.pairwise_cons.2 ⟨?_, ht⟩
        intro p hp; have := hq p hp; simp only; omega
      · rename_i h1 h2
        refine List.pairwise_cons.2 ⟨?_, ih ht⟩
        intro p hp
        rcases mem_ainsert n m t p hp with rfl | hp
        · simp only; omega
        · exact hq p hp

/-! ## delivering a list of messages to the aborting callback -/

def deliverFrom (k : Nat) : Nat → List Bytes → List Bytes → List Bytes × Bool
  | _, acc, [] => (acc.reverse, true)
  | calls, acc, b :: bs =>
      if k ≠ 0 ∧ calls + 1 = k then ((b :: acc).reverse, false) else deliverFrom k (calls + 1) (b :: acc) bs

theorem deliverFrom_spec (k : Nat) (msgs : List Bytes) : ∀ (calls : Nat) (acc : List Bytes), (k = 0 ∨ calls < k) →
    deliverFrom k calls acc msgs =
      if k = 0 ∨ calls + msgs.length < k then (acc.reverse ++ msgs, true) else (acc.reverse ++ msgs.take (k - calls), false) := by
  induction msgs with
  | nil =>
    intro calls acc h
    have : k = 0 ∨ calls + ([] : List Bytes).length < k := by simp only [List.length_nil]; omega
    rw [if_pos this]; simp [deliverFrom]
  | cons b bs ih =>
    intro calls acc h
    unfold deliverFrom
    by_cases hk : k ≠ 0 ∧ calls + 1 = k
    · have hc : ¬ (k = 0 ∨ calls + (b :: bs).length < k) := by simp only [List.length_cons]; omega
      have h1 : k - calls = 1 := by omega
      rw [if_pos hk, if_neg hc, h1]; simp
    · rw [if_neg hk, ih (calls + 1) (b :: acc) (by omega)]
      by_cases hc : k = 0 ∨ calls + (b :: bs).length < k
      · have hc' : k = 0 ∨ calls + 1 + bs.length < k := by simp only [List.length_cons] at hc; omega
        rw [if_pos hc, if_pos hc']; simp
      · have hc' : ¬ (k = 0 ∨ calls + 1 + bs.length < k) := by simp only [List.length_cons] at hc; omega
        have h1 : k - calls = (k - (calls + 1)) + 1 := by omega
        rw [if_neg hc, if_neg hc', h1]; simp [List.take_succ_cons]

theorem deliverFrom_cbRun (k : Nat) (msgs : List Bytes) : deliverFrom k 0 [] msgs = cbRun k msgs := by
  rw [deliverFrom_spec k msgs 0 [] (by omega)]
  unfold cbRun
  simp

/-! ## memory store: the integer-range loop is the range selection of the sorted map -/

def lookupM (l : MsgMap) (n : Nat) : Option Bytes := (l.find? fun p => p.1 == n).map (·.2)

theorem inRange_true (b e : Int) (n : Nat) (h : b ≤ (n : Int) ∧ (n : Int) ≤ e) : inRange b e n = true := by
  simp [inRange, h]
theorem inRange_false (b e : Int) (n : Nat) (h : ¬ (b ≤ (n : Int) ∧ (n : Int) ≤ e)) : inRange b e n = false := by
  simp only [inRange, decide_eq_false_iff_not]; exact h

theorem selectRange_cons (b e : Int) (p : Nat × Bytes) (t : MsgMap) :
    selectRange b e (p :: t) = if inRange b e p.1 then p.2 :: selectRange b e t else selectRange b e t := by
  unfold selectRange
  by_cases h : inRange b e p.1 = true <;> simp [List.filter_cons, h]

theorem selectRange_above (l : MsgMap) (seq e : Int) (h : ∀ q ∈ l, seq < (q.1 : Int)) :
    selectRange seq e l = selectRange (seq + 1) e l := by
  induction l with
  | nil => rfl
  | cons p t ih =>
    have hp := h p (by simp)
    have : inRange seq e p.1 = inRange (seq + 1) e p.1 := by
      by_cases hh : (p.1 : Int) ≤ e
      · rw [inRange_true _ _ _ ⟨by omega, hh⟩, inRange_true _ _ _ ⟨by omega, hh⟩]
      · rw [inRange_false _ _ _ (by omega), inRange_false _ _ _ (by omega)]
    rw [selectRange_cons, selectRange_cons, this, ih (fun q hq => h q (by simp [hq]))]

theorem lookupM_above (l : MsgMap) (n : Nat) (h : ∀ q ∈ l, n < q.1) : lookupM l n = none := by
  unfold lookupM
  have : l.find? (fun p => p.1 == n) = none := by
    rw [List.find?_eq_none]
    intro q hq; have := h q hq; simp; omega
  simp [this]

def optList (o : Option Bytes) : List Bytes := match o with | some b => [b] | none => []

theorem selectRange_split (l : MsgMap) (hs : Sorted l) (seq e : Int) (h : seq ≤ e) :
    selectRange seq e l = optList (if seq < 0 then none else lookupM l seq.toNat) ++ selectRange (seq + 1) e l := by
  induction l with
  | nil => simp [selectRange, lookupM, optList]
  | cons p t ih =>
    have hp : ∀ q ∈ t, p.1 < q.1 := (List.pairwise_cons.1 hs).1
    have ht : Sorted t := (List.pairwise_cons.1 hs).2
    by_cases h1 : (p.1 : Int) < seq
    · -- p is below the range: skipped by everything
      have hne : ¬ (seq < 0) → (p.1 == seq.toNat) = false := by intro h0; simp; omega
      have e1 : selectRange seq e (p :: t) = selectRange seq e t := by
        rw [selectRange_cons, inRange_false _ _ _ (by omega)]; simp
      have e2 : selectRange (seq + 1) e (p :: t) = selectRange (seq + 1) e t := by
        rw [selectRange_cons, inRange_false _ _ _ (by omega)]; simp
      have e3 : (if seq < 0 then none else lookupM (p :: t) seq.toNat) = (if seq < 0 then none else lookupM t seq.toNat) := by
        by_cases h0 : seq < 0
        · simp [h0]
        · simp [h0, lookupM, List.find?_cons, hne h0]
      rw [e1, e2, e3, ih ht]
    · by_cases h2 : (p.1 : Int) = seq
      · have h0 : ¬ (seq < 0) := by omega
        have hn : seq.toNat = p.1 := by omega
        have hab : ∀ q ∈ t, seq < (q.1 : Int) := by intro q hq; have := hp q hq; omega
        have e1 : selectRange seq e (p :: t) = p.2 :: selectRange seq e t := by
          rw [selectRange_cons, inRange_true _ _ _ (by omega)]; simp
        have e2 : selectRange (seq + 1) e (p :: t) = selectRange (seq + 1) e t := by
          rw [selectRange_cons, inRange_false _ _ _ (by omega)]; simp
        have e3 : lookupM (p :: t) seq.toNat = some p.2 := by simp [lookupM, List.find?_cons, hn]
        rw [e1, e2, selectRange_above t seq e hab]
        simp [h0, e3, optList]
      · have hab : ∀ q ∈ p :: t, seq < (q.1 : Int) := by
          intro q hq
          rcases List.mem_cons.1 hq with rfl | hq
          · omega
          · have := hp q hq; omega
        have e3 : (if seq < 0 then none else lookupM (p :: t) seq.toNat) = none := by
          by_cases h0 : seq < 0
          · simp [h0]
          · simp only [h0, if_false]
            apply lookupM_above
            intro q hq; have := hab q hq; omega
        rw [selectRange_above (p :: t) seq e hab, e3]
        simp [optList]

theorem selectRange_empty (l : MsgMap) (b e : Int) (h : e < b) : selectRange b e l = [] := by
  induction l with
  | nil => rfl
  | cons p t ih => rw [selectRange_cons, inRange_false _ _ _ (by omega), ih]; simp

theorem iterLoop_eq (m : MemStore) (hs : Sorted m.map) (k : Nat) : ∀ (cnt : Nat) (seq : Int) (calls : Nat) (acc : List Bytes),
    m.iterLoop k cnt seq calls acc = deliverFrom k calls acc (selectRange seq (seq + cnt - 1) m.map) := by
  intro cnt
  induction cnt with
  | zero =>
    intro seq calls acc
    rw [selectRange_empty _ _ _ (by omega)]
    simp [MemStore.iterLoop, deliverFrom]
  | succ cnt ih =>
    intro seq calls acc
    have e : seq + ((cnt + 1 : Nat) : Int) - 1 = seq + cnt := by omega
    rw [e, selectRange_split m.map hs seq (seq + cnt) (by omega)]
    have e' : seq + 1 + (cnt : Int) - 1 = seq + cnt := by omega
    unfold MemStore.iterLoop
    have hl : (if seq < 0 then none else m.lookup seq.toNat) = (if seq < 0 then none else lookupM m.map seq.toNat) := by
      simp [MemStore.lookup, lookupM]
    rw [hl]
    cases hlk : (if seq < 0 then none else lookupM m.map seq.toNat) with
    | none => simp only [optList, List.nil_append]; rw [ih, e']
    | some b =>
      simp only [optList, List.cons_append, List.nil_append]
      rw [deliverFrom]
      by_cases hk : k ≠ 0 ∧ calls + 1 = k
      · simp [hk]
      · rw [if_neg hk, if_neg hk, ih, e']

theorem mem_iterate_eq (m : MemStore) (hs : Sorted m.map) (b e : Int) (k : Nat) :
    m.iterate b e k = cbRun k (selectRange b e m.map) := by
  unfold MemStore.iterate
  rw [iterLoop_eq m hs, deliverFrom_cbRun]
  by_cases h : b ≤ e
  · have : b + (((e - b + 1).toNat : Nat) : Int) - 1 = e := by omega
    rw [this]
  · rw [selectRange_empty _ b e (by omega), selectRange_empty _ _ _ (by omega)]

end Qfx.Store

namespace Qfx.Store
open Qfx

/-! ## memory store ⊑ abstract store -/

structure MemR (s : AStore) (w : MemW) : Prop where
  map : w.st.map = s.msgs
  cs : w.st.nextS = (s.sender : Int)
  ct : w.st.nextT = (s.target : Int)
  fresh : w.st.ctime < w.clock
  sorted : Sorted s.msgs

theorem memR_init (clock : Nat) : MemR {} (MemW.create clock) := by
  constructor <;> simp [MemW.create, MemStore.reset, MemStore.nextS, MemStore.nextT, Sorted]

theorem memR_step (s : AStore) (w : MemW) (o : Op) (h : MemR s w) (ho : o ≠ .reopen) :
    MemR (s.step o).1 (w.step o).1 ∧ (w.step o).2 = (s.step o).2 := by
  obtain ⟨hm, hs, ht, hf, hso⟩ := h
  have hs' : w.st.senderM1 + 1 = (s.sender : Int) := hs
  have ht' : w.st.targetM1 + 1 = (s.target : Int) := ht
  cases o with
  | setS n =>
    refine ⟨⟨hm, ?_, ht, hf, hso⟩, ?_⟩ <;>
      simp [MemW.step, AStore.step, MemStore.setS, MemStore.nextS, MemStore.nextT, ht']
  | setT n =>
    refine ⟨⟨hm, hs, ?_, hf, hso⟩, ?_⟩ <;>
      simp [MemW.step, AStore.step, MemStore.setT, MemStore.nextS, MemStore.nextT, hs']
  | incS =>
    refine ⟨⟨hm, ?_, ht, hf, hso⟩, ?_⟩ <;>
      simp [MemW.step, AStore.step, MemStore.incS, MemStore.nextS, MemStore.nextT, ht', hs']
  | incT =>
    refine ⟨⟨hm, hs, ?_, hf, hso⟩, ?_⟩ <;>
      simp [MemW.step, AStore.step, MemStore.incT, MemStore.nextS, MemStore.nextT, ht', hs']
  | save n m =>
    refine ⟨⟨?_, hs, ht, hf, ainsert_sorted n m _ hso⟩, ?_⟩ <;>
      simp [MemW.step, AStore.step, MemStore.save, MemStore.nextS, MemStore.nextT, ht', hs', hm]
  | saveIncr n m =>
    refine ⟨⟨?_, ?_, ht, hf, ainsert_sorted n m _ hso⟩, ?_⟩ <;>
      simp [MemW.step, AStore.step, MemStore.save, MemStore.incS, MemStore.nextS, MemStore.nextT, ht', hs', hm]
  | get b e =>
    have hi := mem_iterate_eq w.st (hm ▸ hso) b e 0
    refine ⟨⟨hm, hs, ht, hf, hso⟩, ?_⟩
    simp [MemW.step, AStore.step, hi, cbRun, hm, MemStore.nextS, MemStore.nextT, ht', hs']
  | iter b e k =>
    have hi := mem_iterate_eq w.st (hm ▸ hso) b e k
    refine ⟨⟨hm, hs, ht, hf, hso⟩, ?_⟩
    simp [MemW.step, AStore.step, hi, hm, MemStore.nextS, MemStore.nextT, ht', hs']
  | refresh =>
    refine ⟨⟨hm, hs, ht, hf, hso⟩, ?_⟩
    simp [MemW.step, AStore.step, MemStore.nextS, MemStore.nextT, ht', hs']
  | reopen => exact absurd rfl ho
  | reset =>
    refine ⟨⟨?_, ?_, ?_, ?_, ?_⟩, ?_⟩ <;>
      simp [MemW.step, AStore.step, MemStore.reset, MemStore.nextS, MemStore.nextT, Sorted]
    exact decide_eq_true (by omega)

theorem memR_run (ops : List Op) : ∀ (s : AStore) (w : MemW), MemR s w → (∀ o ∈ ops, o ≠ .reopen) →
    (w.run ops).2 = (s.run ops).2 := by
  induction ops with
  | nil => intro s w _ _; rfl
  | cons o os ih =>
    intro s w h hno
    have st := memR_step s w o h (hno o (by simp))
    simp only [MemW.run, AStore.run]
    rw [st.2, ih _ _ st.1 (fun o' ho' => hno o' (by simp [ho']))]

end Qfx.Store

namespace Qfx.Store
open Qfx Qfx.Spec.Store

/-! ## ascending saves per epoch -/

/-- the quantifier of C16: within an epoch every save uses a number above all earlier ones (`hi` = highest so far) -/
def Asc : Option Nat → List Op → Prop
  | _, [] => True
  | hi, o :: os => ascendingOk hi o = true ∧ Asc (hiAfter hi o) os

/-- every key of the map is at most the recorded high-water mark -/
def HiB (hi : Option Nat) (l : MsgMap) : Prop := ∀ p ∈ l, ∃ h, hi = some h ∧ p.1 ≤ h

theorem asc_keys_lt (hi : Option Nat) (l : MsgMap) (n : Nat) (hb : HiB hi l)
    (ha : ∀ h, hi = some h → h < n) : ∀ p ∈ l, p.1 < n := by
  intro p hp
  obtain ⟨h, he, hle⟩ := hb p hp
  have := ha h he; omega

theorem asc_save (hi : Option Nat) (n : Nat) (m : Bytes) (ha : ascendingOk hi (.save n m) = true) : ∀ h, hi = some h → h < n := by
  intro h he; subst he; simpa [ascendingOk] using ha
theorem asc_saveIncr (hi : Option Nat) (n : Nat) (m : Bytes) (ha : ascendingOk hi (.saveIncr n m) = true) : ∀ h, hi = some h → h < n := by
  intro h he; subst he; simpa [ascendingOk] using ha

theorem ainsert_asc (n : Nat) (m : Bytes) (l : MsgMap) (h : ∀ p ∈ l, p.1 < n) : ainsert n m l = l ++ [(n, m)] := by
  induction l with
  | nil => rfl
  | cons p t ih =>
    obtain ⟨k, v⟩ := p
    have hk : k < n := h (k, v) (by simp)
    have : ¬ n < k := by omega
    have h2 : ¬ n = k := by omega
    simp [ainsert, this, h2, ih (fun q hq => h q (by simp [hq]))]

theorem hiB_append (hi : Option Nat) (l : MsgMap) (n : Nat) (m : Bytes) (h : ∀ p ∈ l, p.1 < n) : HiB (some n) (l ++ [(n, m)]) := by
  intro p hp
  rcases List.mem_append.1 hp with hp | hp
  · exact ⟨n, rfl, Nat.le_of_lt (h p hp)⟩
  · simp at hp; subst hp; exact ⟨n, rfl, Nat.le_refl _⟩

theorem sorted_append (l : MsgMap) (n : Nat) (m : Bytes) (hs : Sorted l) (h : ∀ p ∈ l, p.1 < n) : Sorted (l ++ [(n, m)]) := by
  unfold Sorted
  rw [List.pairwise_append]
  refine ⟨hs, by simp, ?_⟩
  intro a ha b hb
  simp at hb; subst hb; exact h a ha

/-! ## SQL store ⊑ abstract store -/

theorem sortedInsert_head (p : Nat × Bytes) (l : MsgMap) (h : ∀ q ∈ l, p.1 < q.1) : sortedInsert p l = p :: l := by
  cases l with
  | nil => rfl
  | cons q t => have := h q (by simp); simp [sortedInsert]; omega

theorem orderBySeq_sorted (l : MsgMap) (hs : Sorted l) : orderBySeq l = l := by
  induction l with
  | nil => rfl
  | cons p t ih =>
    have hp := (List.pairwise_cons.1 hs).1
    have ht := (List.pairwise_cons.1 hs).2
    show sortedInsert p (orderBySeq t) = p :: t
    rw [ih ht, sortedInsert_head p t hp]

theorem select_eq (t : Tables) (hs : Sorted t.msgs) (b e : Int) : t.select b e = selectRange b e t.msgs := by
  unfold Tables.select selectRange
  rw [orderBySeq_sorted]
  exact List.Pairwise.filter _ hs

structure SqlR (s : AStore) (w : SqlW) (hi : Option Nat) : Prop where
  msgs : w.db.msgs = s.msgs
  row : w.db.sess = some ⟨w.st.cache.ctime, w.st.cache.nextT, w.st.cache.nextS⟩
  cs : w.st.cache.nextS = (s.sender : Int)
  ct : w.st.cache.nextT = (s.target : Int)
  fresh : w.st.cache.ctime < w.clock
  sorted : Sorted s.msgs
  hib : HiB hi s.msgs

theorem sqlR_init : SqlR {} (SqlW.open {} 0) none := by
  constructor <;> simp [SqlW.open, sqlPopulate, MemStore.reset, MemStore.nextS, MemStore.nextT, Sorted, HiB]

theorem sqlR_step (s : AStore) (w : SqlW) (hi : Option Nat) (o : Op) (h : SqlR s w hi) (ha : ascendingOk hi o = true) :
    SqlR (s.step o).1 (w.step o).1 (hiAfter hi o) ∧ (w.step o).2 = (s.step o).2 := by
  obtain ⟨hm, hrow, hs, ht, hf, hso, hb⟩ := h
  obtain ⟨⟨c⟩, db, clock⟩ := w
  simp only at hm hrow hs ht hf
  have hs' : c.senderM1 + 1 = (s.sender : Int) := hs
  have ht' : c.targetM1 + 1 = (s.target : Int) := ht
  cases o with
  | setS n =>
    refine ⟨⟨hm, ?_, ?_, ?_, hf, hso, hb⟩, ?_⟩ <;>
      simp [SqlW.step, SqlW.stepF, fails, AStore.step, obsOf, Tables.updOutgoing, hrow, MemStore.setS, MemStore.nextS, MemStore.nextT, ht', hiAfter] <;> try omega
  | setT n =>
    refine ⟨⟨hm, ?_, ?_, ?_, hf, hso, hb⟩, ?_⟩ <;>
      simp [SqlW.step, SqlW.stepF, fails, AStore.step, obsOf, Tables.updIncoming, hrow, MemStore.setT, MemStore.nextS, MemStore.nextT, hs', hiAfter] <;> try omega
  | incS =>
    refine ⟨⟨hm, ?_, ?_, ?_, hf, hso, hb⟩, ?_⟩ <;>
      simp [SqlW.step, SqlW.stepF, fails, AStore.step, obsOf, Tables.updOutgoing, hrow, MemStore.setS, MemStore.nextS, MemStore.nextT, ht', hs', hiAfter] <;> try omega
  | incT =>
    refine ⟨⟨hm, ?_, ?_, ?_, hf, hso, hb⟩, ?_⟩ <;>
      simp [SqlW.step, SqlW.stepF, fails, AStore.step, obsOf, Tables.updIncoming, hrow, MemStore.setT, MemStore.nextS, MemStore.nextT, ht', hs', hiAfter] <;> try omega
  | save n m =>
    have hlt := asc_keys_lt hi s.msgs n hb (asc_save hi n m ha)
    have hins : db.insertMsg n m = some { db with msgs := db.msgs ++ [(n, m)] } := by
      have : db.msgs.any (fun p => p.1 == n) = false := by
        rw [hm, List.any_eq_false]; intro p hp; have := hlt p hp; simp; omega
      simp [Tables.insertMsg, this]
    refine ⟨⟨?_, ?_, ?_, ?_, ?_, ?_, ?_⟩, ?_⟩
    · simp [SqlW.step, SqlW.stepF, fails, hins, AStore.step, ainsert_asc n m _ hlt, hm]
    · simp [SqlW.step, SqlW.stepF, fails, hins, hrow]
    · simp [SqlW.step, SqlW.stepF, fails, hins, AStore.step, hs]
    · simp [SqlW.step, SqlW.stepF, fails, hins, AStore.step, ht]
    · simp [SqlW.step, SqlW.stepF, fails, hins, hf]
    · simp only [AStore.step, ainsert_asc n m _ hlt]; exact sorted_append _ n m hso hlt
    · simp only [AStore.step, ainsert_asc n m _ hlt, hiAfter]; exact hiB_append hi _ n m hlt
    · simp [SqlW.step, SqlW.stepF, fails, hins, AStore.step, obsOf, MemStore.nextS, MemStore.nextT, hs', ht']
  | saveIncr n m =>
    have hlt := asc_keys_lt hi s.msgs n hb (asc_saveIncr hi n m ha)
    have hins : db.insertMsg n m = some { db with msgs := db.msgs ++ [(n, m)] } := by
      have : db.msgs.any (fun p => p.1 == n) = false := by
        rw [hm, List.any_eq_false]; intro p hp; have := hlt p hp; simp; omega
      simp [Tables.insertMsg, this]
    refine ⟨⟨?_, ?_, ?_, ?_, ?_, ?_, ?_⟩, ?_⟩
    · simp [SqlW.step, SqlW.stepF, fails, hins, AStore.step, ainsert_asc n m _ hlt, hm, Tables.updOutgoing]
    · simp [SqlW.step, SqlW.stepF, fails, hins, hrow, Tables.updOutgoing, MemStore.setS, MemStore.nextS, MemStore.nextT]
    · simp [SqlW.step, SqlW.stepF, fails, hins, AStore.step, MemStore.setS, MemStore.nextS, hs']
    · simp [SqlW.step, SqlW.stepF, fails, hins, AStore.step, MemStore.setS, MemStore.nextT, ht']
    · simp [SqlW.step, SqlW.stepF, fails, hins, MemStore.setS, hf]
    · simp only [AStore.step, ainsert_asc n m _ hlt]; exact sorted_append _ n m hso hlt
    · simp only [AStore.step, ainsert_asc n m _ hlt, hiAfter]; exact hiB_append hi _ n m hlt
    · simp [SqlW.step, SqlW.stepF, fails, hins, AStore.step, obsOf, MemStore.setS, MemStore.nextS, MemStore.nextT, hs', ht']
  | get b e =>
    have hsel := select_eq db (hm ▸ hso) b e
    refine ⟨⟨hm, hrow, hs, ht, hf, hso, hb⟩, ?_⟩
    simp [SqlW.step, SqlW.stepF, fails, AStore.step, obsOf, hsel, hm, MemStore.nextS, MemStore.nextT, hs', ht']
  | iter b e k =>
    have hsel := select_eq db (hm ▸ hso) b e
    refine ⟨⟨hm, hrow, hs, ht, hf, hso, hb⟩, ?_⟩
    simp [SqlW.step, SqlW.stepF, fails, AStore.step, obsOf, hsel, hm, MemStore.nextS, MemStore.nextT, hs', ht']
  | refresh =>
    refine ⟨⟨?_, ?_, ?_, ?_, ?_, hso, hb⟩, ?_⟩ <;>
      simp [SqlW.step, SqlW.stepF, fails, AStore.step, obsOf, hrow, sqlPopulate, MemStore.reset, MemStore.setS, MemStore.setT,
            MemStore.nextS, MemStore.nextT, hm, hs', ht', hiAfter] <;> try omega
  | reopen =>
    refine ⟨⟨?_, ?_, ?_, ?_, ?_, hso, hb⟩, ?_⟩ <;>
      simp [SqlW.step, SqlW.stepF, SqlW.open, fails, AStore.step, obsOf, hrow, sqlPopulate, MemStore.reset, MemStore.setS, MemStore.setT,
            MemStore.nextS, MemStore.nextT, hm, hs', ht', hiAfter] <;> try omega
  | reset =>
    refine ⟨⟨?_, ?_, ?_, ?_, ?_, ?_, ?_⟩, ?_⟩ <;>
      simp [SqlW.step, SqlW.stepF, fails, AStore.step, obsOf, hrow, MemStore.reset, MemStore.nextS, MemStore.nextT, Sorted, HiB, hiAfter] <;>
      first | omega | exact decide_eq_true (by omega) | skip

theorem sqlR_run (ops : List Op) : ∀ (s : AStore) (w : SqlW) (hi : Option Nat), SqlR s w hi → Asc hi ops →
    (w.run ops).2 = (s.run ops).2 := by
  induction ops with
  | nil => intro s w hi _ _; rfl
  | cons o os ih =>
    intro s w hi h ha
    have st := sqlR_step s w hi o h ha.1
    simp only [SqlW.run, AStore.run]
    rw [st.2, ih _ _ _ st.1 ha.2]

end Qfx.Store
