/- C11: the parser on well-formed wire input (no dictionary): field extraction inverts the wire encoding, the loop stores the
   fields in order, the final check compares BodyLength with the summed field lengths -/
import Qfx.Lemmas.Codec
namespace Qfx

/-! ## indexByte -/

theorem indexByte_append_first (a b : Bytes) (c : Nat) (h : ∀ x ∈ a, x ≠ c) : indexByte (a ++ c :: b) c = some a.length := by
  induction a with
  | nil => simp [indexByte]
  | cons x r ih =>
    have hx : x ≠ c := h x (by simp)
    have := ih (fun y hy => h y (by simp [hy]))
    simp [indexByte, hx, this]

theorem indexByte_spec (l : Bytes) (c s : Nat) (h : indexByte l c = some s) :
    l[s]? = some c ∧ ∀ j, j < s → l[j]? ≠ some c := by
  induction l generalizing s with
  | nil => simp [indexByte] at h
  | cons x r ih =>
    simp only [indexByte] at h
    split at h
    · rename_i hx; injection h with h; subst h; subst hx
      exact ⟨by simp, fun j hj => by omega⟩
    · rename_i hx
      cases hr : indexByte r c with
      | none => rw [hr] at h; cases h
      | some s' =>
        rw [hr] at h; simp only [Option.map_some] at h; injection h with h; subst h
        obtain ⟨h1, h2⟩ := ih s' hr
        refine ⟨by simpa using h1, ?_⟩
        intro j hj
        cases j with
        | zero => simp; exact hx
        | succ j => simpa using h2 j (by omega)

/-- the separator search finds the first `=` whenever that is not at position 0 -/
theorem findSep_first (raw : Bytes) (s : Nat) (h : indexByte raw cEq = some s) (hs : 1 ≤ s) : findSep raw = .ok s := by
  obtain ⟨hat, hbefore⟩ := indexByte_spec raw cEq s h
  unfold findSep
  by_cases h5 : raw.length ≥ 5
  · simp only [h5, if_true]
    by_cases s1 : s = 1
    · subst s1; simp [hat]
    · have n1 : raw[1]? ≠ some cEq := hbefore 1 (by omega)
      by_cases s2 : s = 2
      · subst s2; simp [hat, n1]
      · have n2 : raw[2]? ≠ some cEq := hbefore 2 (by omega)
        by_cases s3 : s = 3
        · subst s3; simp [hat, n1, n2]
        · have n3 : raw[3]? ≠ some cEq := hbefore 3 (by omega)
          by_cases s4 : s = 4
          · subst s4; simp [hat, n1, n2, n3]
          · have n4 : raw[4]? ≠ some cEq := hbefore 4 (by omega)
            simp only [n1, n2, n3, n4, if_false, h]
            cases s with
            | zero => omega
            | succ k => rfl
  · simp only [h5, if_false, h]
    cases s with
    | zero => omega
    | succ k => rfl

/-! ## wire form of a field -/

/-- `tv` as it appears on the wire: `<tagText>=<value>␁`, the tag text free of `=` and SOH and read by `atoi` as the tag,
    the value free of SOH -/
def IsWire (tv : TagValue) : Prop :=
  ∃ tt : Bytes, tt ≠ [] ∧ (∀ c ∈ tt, c ≠ cEq ∧ c ≠ SOH) ∧ atoi tt = .ok tv.tag ∧
    tv.bytes = tt ++ cEq :: (tv.value ++ [SOH]) ∧ ∀ c ∈ tv.value, c ≠ SOH

theorem parse_wire (tv : TagValue) (h : IsWire tv) : TagValue.parse tv.bytes = .ok tv := by
  obtain ⟨tt, hne, hchars, hatoi, hbytes, hval⟩ := h
  have hidx : indexByte tv.bytes cEq = some tt.length := by
    rw [hbytes]; exact indexByte_append_first tt _ cEq (fun x hx => (hchars x hx).1)
  have hpos : 1 ≤ tt.length := by
    cases tt with
    | nil => exact absurd rfl hne
    | cons a r => simp
  have hsep := findSep_first tv.bytes tt.length hidx hpos
  have hlen : tv.bytes.length = tt.length + 1 + tv.value.length + 1 := by rw [hbytes]; simp; omega
  have htake : (tv.bytes.take tt.length).drop 0 = tt := by rw [hbytes]; simp
  have hval' : (tv.bytes.take (tv.bytes.length - 1)).drop (tt.length + 1) = tv.value := by
    rw [hlen, hbytes]
    have e1 : tt ++ cEq :: (tv.value ++ [SOH]) = (tt ++ cEq :: tv.value) ++ [SOH] := by simp
    have e2 : tt.length + 1 + tv.value.length + 1 - 1 = (tt ++ cEq :: tv.value).length := by simp; omega
    rw [e1, e2, List.take_left']
    have e3 : tt ++ cEq :: tv.value = (tt ++ [cEq]) ++ tv.value := by simp
    have e4 : tt.length + 1 = (tt ++ [cEq]).length := by simp
    rw [e3, e4, List.drop_left']
    rfl
    rfl
  unfold TagValue.parse
  rw [hsep]
  simp only [sliceR]
  have c1 : 0 ≤ tt.length ∧ tt.length ≤ tv.bytes.length := ⟨by omega, by omega⟩
  have c2 : tt.length + 1 ≤ tv.bytes.length - 1 ∧ tv.bytes.length - 1 ≤ tv.bytes.length := ⟨by omega, by omega⟩
  simp only [c1, c2, and_self, if_true, htake, hatoi, hval']

theorem extractField_wire (tv : TagValue) (rest : Bytes) (h : IsWire tv) : extractField (tv.bytes ++ rest) = (rest, .ok tv) := by
  have hp := parse_wire tv h
  obtain ⟨tt, hne, hchars, hatoi, hbytes, hval⟩ := h
  have hsoh : indexByte (tv.bytes ++ rest) SOH = some (tv.bytes.length - 1) := by
    have e : tv.bytes ++ rest = (tt ++ cEq :: tv.value) ++ SOH :: rest := by rw [hbytes]; simp
    rw [e, indexByte_append_first]
    · rw [hbytes]; simp
    · intro x hx
      simp only [List.mem_append, List.mem_cons] at hx
      rcases hx with hx | hx | hx
      · exact (hchars x hx).2
      · subst hx; decide
      · exact hval x hx
  have hlen : 1 ≤ tv.bytes.length := by rw [hbytes]; simp; omega
  unfold extractField
  rw [hsoh]
  have e1 : tv.bytes.length - 1 + 1 = tv.bytes.length := by omega
  simp only [sliceR, e1]
  have c : 0 ≤ tv.bytes.length ∧ tv.bytes.length ≤ (tv.bytes ++ rest).length := ⟨by omega, by simp⟩
  simp [c, hp]


/-! ## the main loop without dictionary -/

def ndSwitch (idx : Nat) (tv : TagValue) (c : PCore) : PCore :=
  if tv.tag.isHeader then { c with header := c.header.add tv.tag (.view idx 1) }
  else if tv.tag.isTrailer then { c with trailer := c.trailer.add tv.tag (.view idx 1), foundTrailer := true }
  else { c with foundBody := true, trailerBytes := c.rawBytes, body := c.body.add tv.tag (.view idx 1) }

def ndTail (c : PCore) : PCore := if c.foundBody then c else { c with bodyBytes := c.rawBytes }

theorem mainSwitch_none (fx : Fixes) (flds : List TagValue) (idx : Nat) (tv : TagValue) (c : PCore) :
    mainSwitch fx Dicts.none flds idx tv c = (ndSwitch idx tv c, none) := by
  unfold mainSwitch ndSwitch
  simp only [isHeaderField, isTrailerField, Dicts.none, Bool.or_false, isNumInGroupField, msgFields]
  split
  · rfl
  · split
    · rfl
    · simp

theorem tailStep_nd (flds : List TagValue) (tv : TagValue) (c : PCore) (h10 : tv.tag ≠ 10) (h212 : tv.tag ≠ 212) :
    tailStep flds tv c = .ok (ndTail c, false) := by
  unfold tailStep ndTail
  simp only [h10, h212, if_false]

theorem tailStep_10 (flds : List TagValue) (tv : TagValue) (c : PCore) (h10 : tv.tag = 10) :
    tailStep flds tv c = .ok (c, true) := by
  unfold tailStep; simp [h10]

theorem parseLoop_step_nd (fx : Fixes) (fields : List TagValue) (idx : Nat) (c : PCore) (tv : TagValue) (raw' : Bytes)
    (hidx : idx < fields.length) (hx : c.xmlDataLen = 0) (hex : extractField c.rawBytes = (raw', .ok tv))
    (h10 : tv.tag ≠ 10) (h212 : tv.tag ≠ 212) :
    parseLoop fx Dicts.none .main fields idx c =
      parseLoop fx Dicts.none .main (fields.set idx tv) (idx + 1) (ndTail (ndSwitch idx tv { c with rawBytes := raw' })) := by
  rw [parseLoop]
  simp only [hidx, dite_true, hx, show ¬ ((0 : Int) > 0) by decide, if_false, hex, mainSwitch_none,
    tailStep_nd _ _ _ h10 h212]

theorem parseLoop_last_nd (fx : Fixes) (fields : List TagValue) (idx : Nat) (c : PCore) (tv : TagValue) (raw' : Bytes)
    (hidx : idx < fields.length) (hx : c.xmlDataLen = 0) (hex : extractField c.rawBytes = (raw', .ok tv))
    (h10 : tv.tag = 10) :
    parseLoop fx Dicts.none .main fields idx c = finishParse (fields.set idx tv) (ndSwitch idx tv { c with rawBytes := raw' }) := by
  rw [parseLoop]
  simp only [hidx, dite_true, hx, show ¬ ((0 : Int) > 0) by decide, if_false, hex, mainSwitch_none,
    tailStep_10 _ _ _ h10]

def wireOf (tvs : List TagValue) : Bytes := tvs.flatMap (·.bytes)

def setRange (fields : List TagValue) : Nat → List TagValue → List TagValue
  | _, [] => fields
  | idx, tv :: r => setRange (fields.set idx tv) (idx + 1) r

/-- the loop state after the fields `pre` (none of them 10 / 212) have been consumed, `tail` being what follows them -/
def runND : Nat → List TagValue → Bytes → PCore → PCore
  | _, [], _, c => c
  | idx, tv :: r, tail, c => runND (idx + 1) r tail (ndTail (ndSwitch idx tv { c with rawBytes := wireOf r ++ tail }))

theorem ndSwitch_raw (idx : Nat) (tv : TagValue) (c : PCore) :
    (ndSwitch idx tv c).rawBytes = c.rawBytes ∧ (ndSwitch idx tv c).xmlDataLen = c.xmlDataLen ∧ (ndSwitch idx tv c).xmlDataMsg = c.xmlDataMsg := by
  unfold ndSwitch; split
  · exact ⟨rfl, rfl, rfl⟩
  · split <;> exact ⟨rfl, rfl, rfl⟩

theorem ndTail_raw (c : PCore) :
    (ndTail c).rawBytes = c.rawBytes ∧ (ndTail c).xmlDataLen = c.xmlDataLen ∧ (ndTail c).xmlDataMsg = c.xmlDataMsg ∧
    (ndTail c).header = c.header ∧ (ndTail c).body = c.body ∧ (ndTail c).trailer = c.trailer := by
  unfold ndTail; split <;> exact ⟨rfl, rfl, rfl, rfl, rfl, rfl⟩

theorem setRange_length (fields : List TagValue) (idx : Nat) (l : List TagValue) : (setRange fields idx l).length = fields.length := by
  induction l generalizing fields idx with
  | nil => rfl
  | cons tv r ih => simp [setRange, ih]

theorem parseLoop_nd (fx : Fixes) : ∀ (pre : List TagValue) (fields : List TagValue) (idx : Nat) (c : PCore) (t10 : TagValue) (rest : Bytes),
    (∀ tv ∈ pre, IsWire tv ∧ tv.tag ≠ 10 ∧ tv.tag ≠ 212) → IsWire t10 → t10.tag = 10 → c.xmlDataLen = 0 →
    c.rawBytes = wireOf pre ++ (t10.bytes ++ rest) → idx + pre.length < fields.length →
    parseLoop fx Dicts.none .main fields idx c =
      finishParse (setRange fields idx (pre ++ [t10]))
        (ndSwitch (idx + pre.length) t10 { (runND idx pre (t10.bytes ++ rest) c) with rawBytes := rest }) := by
  intro pre
  induction pre with
  | nil =>
    intro fields idx c t10 rest _ hw h10 hx hraw hlen
    have hex : extractField c.rawBytes = (rest, .ok t10) := by
      rw [hraw]; simpa [wireOf] using extractField_wire t10 rest hw
    rw [parseLoop_last_nd fx fields idx c t10 rest (by simpa using hlen) hx hex h10]
    simp [setRange, runND]
  | cons tv r ih =>
    intro fields idx c t10 rest hpre hw h10 hx hraw hlen
    have htv := hpre tv (by simp)
    have hex : extractField c.rawBytes = (wireOf r ++ (t10.bytes ++ rest), .ok tv) := by
      rw [hraw]
      have : wireOf (tv :: r) ++ (t10.bytes ++ rest) = tv.bytes ++ (wireOf r ++ (t10.bytes ++ rest)) := by
        simp [wireOf, List.append_assoc]
      rw [this]; exact extractField_wire tv _ htv.1
    have hlen' : idx < fields.length := by simp at hlen; omega
    rw [parseLoop_step_nd fx fields idx c tv _ hlen' hx hex htv.2.1 htv.2.2]
    have hraw' : (ndTail (ndSwitch idx tv { c with rawBytes := wireOf r ++ (t10.bytes ++ rest) })).rawBytes = wireOf r ++ (t10.bytes ++ rest) := by
      rw [(ndTail_raw _).1, (ndSwitch_raw _ _ _).1]
    have hx' : (ndTail (ndSwitch idx tv { c with rawBytes := wireOf r ++ (t10.bytes ++ rest) })).xmlDataLen = 0 := by
      rw [(ndTail_raw _).2.1, (ndSwitch_raw _ _ _).2.1]; exact hx
    rw [ih (fields.set idx tv) (idx + 1) _ t10 rest (fun x hx => hpre x (by simp [hx])) hw h10 hx' hraw'
      (by simp at hlen ⊢; omega)]
    have e : idx + 1 + r.length = idx + (tv :: r).length := by simp; omega
    simp only [setRange, runND, List.cons_append, e]


/-! ## the whole parse of a well-formed wire message (no dictionary) -/

theorem countByte_append (a b : Bytes) (c : Nat) : countByte (a ++ b) c = countByte a c + countByte b c := by
  simp [countByte, List.filter_append]

theorem countByte_none (a : Bytes) (c : Nat) (h : ∀ x ∈ a, x ≠ c) : countByte a c = 0 := by
  simp only [countByte, List.length_eq_zero_iff, List.filter_eq_nil_iff]
  intro x hx; simpa using h x hx

theorem countByte_wire (tv : TagValue) (h : IsWire tv) : countByte tv.bytes SOH = 1 := by
  obtain ⟨tt, _, hchars, _, hbytes, hval⟩ := h
  have e : tv.bytes = tt ++ ([cEq] ++ (tv.value ++ [SOH])) := by rw [hbytes]; simp
  rw [e, countByte_append, countByte_append, countByte_append,
    countByte_none tt SOH (fun x hx => (hchars x hx).2), countByte_none tv.value SOH hval]
  decide

theorem countByte_wireOf (tvs : List TagValue) (h : ∀ tv ∈ tvs, IsWire tv) : countByte (wireOf tvs) SOH = tvs.length := by
  induction tvs with
  | nil => rfl
  | cons tv r ih =>
    have : wireOf (tv :: r) = tv.bytes ++ wireOf r := by simp [wireOf]
    rw [this, countByte_append, countByte_wire tv (h tv (by simp)), ih (fun x hx => h x (by simp [hx]))]
    simp; omega

theorem setRange_replicate (z : TagValue) : ∀ (l a : List TagValue),
    setRange (a ++ List.replicate l.length z) a.length l = a ++ l := by
  intro l
  induction l with
  | nil => intro a; simp [setRange]
  | cons tv r ih =>
    intro a
    have e : (a ++ List.replicate (tv :: r).length z).set a.length tv = (a ++ [tv]) ++ List.replicate r.length z := by
      simp [List.replicate_succ, List.set_append_right]
    simp only [setRange, e]
    have := ih (a ++ [tv])
    simp only [List.length_append, List.length_singleton] at this
    rw [this]; simp

theorem ndSwitch_header_find (idx : Nat) (tv : TagValue) (c : PCore) (k : Tag) (hk : tv.tag ≠ k) :
    alFind (ndSwitch idx tv c).header.lookup k = alFind c.header.lookup k := by
  unfold ndSwitch; split
  · simp only [FieldMap.add]; exact alFind_insert_other _ _ _ _ (Ne.symm hk)
  · split <;> rfl

theorem runND_header_find (k : Tag) : ∀ (pre : List TagValue) (idx : Nat) (tail : Bytes) (c : PCore),
    (∀ tv ∈ pre, tv.tag ≠ k) → alFind (runND idx pre tail c).header.lookup k = alFind c.header.lookup k := by
  intro pre
  induction pre with
  | nil => intro idx tail c _; rfl
  | cons tv r ih =>
    intro idx tail c h
    simp only [runND]
    rw [ih _ _ _ (fun x hx => h x (by simp [hx])), (ndTail_raw _).2.2.2.1, ndSwitch_header_find _ _ _ _ (h tv (by simp))]

theorem runND_xml : ∀ (pre : List TagValue) (idx : Nat) (tail : Bytes) (c : PCore),
    (runND idx pre tail c).xmlDataMsg = c.xmlDataMsg := by
  intro pre
  induction pre with
  | nil => intro idx tail c; rfl
  | cons tv r ih =>
    intro idx tail c
    simp only [runND]
    rw [ih, (ndTail_raw _).2.2.1, (ndSwitch_raw _ _ _).2.2]

theorem finishAdjust_keeps (c : PCore) : (finishAdjust c).header = c.header ∧ (finishAdjust c).xmlDataMsg = c.xmlDataMsg ∧
    (finishAdjust c).body = c.body ∧ (finishAdjust c).trailer = c.trailer := by
  unfold finishAdjust; simp only []; split <;> split <;> exact ⟨rfl, rfl, rfl, rfl⟩

theorem extractSpecific_ok (fx : Fixes) (t : Tag) (fields : List TagValue) (idx : Nat) (raw rem : Bytes) (hd : FieldMap) (tv : TagValue)
    (hidx : idx < fields.length) (hex : extractField raw = (rem, .ok tv)) (ht : tv.tag = t) :
    extractSpecific fx t fields idx raw hd = .ok (fields.set idx tv, rem, hd.add tv.tag (.view idx 1)) := by
  unfold extractSpecific
  simp [hidx, hex, ht]

/-- a well-formed wire message: 8, 9, 35 first, then fields that are neither 9, 10 nor 212, then 10 -/
structure WireMsg (t8 t9 t35 : TagValue) (pre : List TagValue) (t10 : TagValue) : Prop where
  w8 : IsWire t8
  w9 : IsWire t9
  w35 : IsWire t35
  wpre : ∀ tv ∈ pre, IsWire tv ∧ tv.tag ≠ 10 ∧ tv.tag ≠ 212
  w10 : IsWire t10
  tag8 : t8.tag = 8
  tag9 : t9.tag = 9
  tag35 : t35.tag = 35
  tag10 : t10.tag = 10
  single9 : ∀ tv ∈ pre, tv.tag ≠ 9


def PCore.sec (c : PCore) : Sec → FieldMap
  | .h => c.header | .b => c.body | .t => c.trailer

def secND (t : Tag) : Sec := if t.isHeader then .h else if t.isTrailer then .t else .b

theorem ndSwitch_find_other (idx : Nat) (tv : TagValue) (c : PCore) (s : Sec) (k : Tag) (hk : tv.tag ≠ k) :
    alFind ((ndSwitch idx tv c).sec s).lookup k = alFind (c.sec s).lookup k := by
  unfold ndSwitch
  split
  · cases s <;> simp only [PCore.sec, FieldMap.add]
    exact alFind_insert_other _ _ _ _ (Ne.symm hk)
  · split
    · cases s <;> simp only [PCore.sec, FieldMap.add]
      exact alFind_insert_other _ _ _ _ (Ne.symm hk)
    · cases s <;> simp only [PCore.sec, FieldMap.add]
      exact alFind_insert_other _ _ _ _ (Ne.symm hk)

theorem ndSwitch_find_self (idx : Nat) (tv : TagValue) (c : PCore) :
    alFind ((ndSwitch idx tv c).sec (secND tv.tag)).lookup tv.tag = some (.view idx 1) := by
  unfold ndSwitch secND
  split
  · simp only [PCore.sec, FieldMap.add]; exact alFind_insert_self _ _ _
  · split
    · simp only [PCore.sec, FieldMap.add]; exact alFind_insert_self _ _ _
    · simp only [PCore.sec, FieldMap.add]; exact alFind_insert_self _ _ _

theorem ndTail_sec (c : PCore) (s : Sec) : (ndTail c).sec s = c.sec s := by
  cases s
  · exact (ndTail_raw c).2.2.2.1
  · exact (ndTail_raw c).2.2.2.2.1
  · exact (ndTail_raw c).2.2.2.2.2

theorem runND_find_absent (k : Tag) (s : Sec) : ∀ (pre : List TagValue) (idx : Nat) (tail : Bytes) (c : PCore),
    (∀ tv ∈ pre, tv.tag ≠ k) → alFind ((runND idx pre tail c).sec s).lookup k = alFind (c.sec s).lookup k := by
  intro pre
  induction pre with
  | nil => intro idx tail c _; rfl
  | cons tv r ih =>
    intro idx tail c h
    simp only [runND]
    rw [ih _ _ _ (fun x hx => h x (by simp [hx])), ndTail_sec, ndSwitch_find_other _ _ _ _ _ (h tv (by simp))]
    rfl

theorem runND_find_unique : ∀ (pre : List TagValue) (idx : Nat) (tail : Bytes) (c : PCore) (j : Nat) (tv : TagValue),
    pre[j]? = some tv → (∀ j' tv', pre[j']? = some tv' → j' ≠ j → tv'.tag ≠ tv.tag) →
    alFind ((runND idx pre tail c).sec (secND tv.tag)).lookup tv.tag = some (.view (idx + j) 1) := by
  intro pre
  induction pre with
  | nil => intro idx tail c j tv h; simp at h
  | cons x r ih =>
    intro idx tail c j tv hj huniq
    simp only [runND]
    cases j with
    | zero =>
      simp only [List.getElem?_cons_zero, Option.some.injEq] at hj
      subst hj
      rw [runND_find_absent x.tag _ r _ _ _ (fun y hy => by
        obtain ⟨i, hi⟩ := List.getElem?_of_mem hy
        exact huniq (i + 1) y (by simpa using hi) (by omega)), ndTail_sec]
      simpa using ndSwitch_find_self idx x _
    | succ j =>
      have hj' : r[j]? = some tv := by simpa using hj
      have := ih (idx + 1) tail (ndTail (ndSwitch idx x { c with rawBytes := wireOf r ++ tail })) j tv hj'
        (fun j' tv' h' hne => huniq (j' + 1) tv' (by simpa using h') (by omega))
      rw [this]
      congr 2; omega


/-- the loop state before the main loop: the three leading fields are in the header -/
def ndInit (t8 t9 t35 : TagValue) (raw : Bytes) : PCore :=
  { header := (((FieldMap.empty OrdKind.header).add t8.tag (Field.view 0 1)).add t9.tag (Field.view 1 1)).add t35.tag (Field.view 2 1),
    body := FieldMap.empty OrdKind.normal, trailer := FieldMap.empty OrdKind.trailer, bodyBytes := [],
    rawBytes := raw, trailerBytes := [], foundBody := false, foundTrailer := false, xmlDataLen := 0, xmlDataMsg := false }

/-- the loop state at the end of the parse of `8, 9, 35, pre…, 10` -/
def ndFinal (t8 t9 t35 : TagValue) (pre : List TagValue) (t10 : TagValue) : PCore :=
  finishAdjust (ndSwitch (3 + pre.length) t10
    { (runND 3 pre (t10.bytes ++ []) (ndInit t8 t9 t35 (wireOf (pre ++ [t10])))) with rawBytes := [] })

theorem parseLoop_nd_ok (fx : Fixes) (t8 t9 t35 : TagValue) (pre : List TagValue) (t10 : TagValue)
    (hw : WireMsg t8 t9 t35 pre t10)
    (hbl : atoi t9.value = .ok ((fieldsLength (t8 :: t9 :: t35 :: (pre ++ [t10])) : Nat) : Int)) :
    parseLoop fx Dicts.none .main ([t8, t9, t35] ++ List.replicate (pre ++ [t10]).length TagValue.zero) 3
        (ndInit t8 t9 t35 (wireOf (pre ++ [t10]))) =
      .ok (t8 :: t9 :: t35 :: (pre ++ [t10]), ndFinal t8 t9 t35 pre t10) := by
  have hraw : (ndInit t8 t9 t35 (wireOf (pre ++ [t10]))).rawBytes = wireOf pre ++ (t10.bytes ++ []) := by simp [ndInit, wireOf]
  rw [parseLoop_nd fx pre _ 3 _ t10 [] hw.wpre hw.w10 hw.tag10 rfl hraw (by simp; omega)]
  have hsr := setRange_replicate TagValue.zero (pre ++ [t10]) [t8, t9, t35]
  simp only [List.length_cons, List.length_nil] at hsr
  rw [hsr]
  unfold ndFinal
  have hCh : (ndSwitch (3 + pre.length) t10 { (runND 3 pre (t10.bytes ++ []) (ndInit t8 t9 t35 (wireOf (pre ++ [t10])))) with rawBytes := [] }).header =
      (runND 3 pre (t10.bytes ++ []) (ndInit t8 t9 t35 (wireOf (pre ++ [t10])))).header := by
    unfold ndSwitch
    have h1 : Tag.isHeader t10.tag = false := by rw [hw.tag10]; decide
    have h2 : Tag.isTrailer t10.tag = true := by rw [hw.tag10]; decide
    simp [h1, h2]
  have hCx : (ndSwitch (3 + pre.length) t10 { (runND 3 pre (t10.bytes ++ []) (ndInit t8 t9 t35 (wireOf (pre ++ [t10])))) with rawBytes := [] }).xmlDataMsg = false := by
    rw [(ndSwitch_raw _ _ _).2.2]; simp only []; rw [runND_xml]; rfl
  generalize ndSwitch (3 + pre.length) t10 { (runND 3 pre (t10.bytes ++ []) (ndInit t8 t9 t35 (wireOf (pre ++ [t10])))) with rawBytes := [] } = C at hCh hCx ⊢
  have hfind : alFind C.header.lookup 9 = some (.view 1 1) := by
    rw [hCh, runND_header_find 9 pre 3 _ _ hw.single9]
    simp [ndInit, FieldMap.add, FieldMap.empty, alInsert, alFind, hw.tag8, hw.tag9, hw.tag35]
  have hget : (finishAdjust C).header.getInt ([t8, t9, t35] ++ (pre ++ [t10])) 9 =
      .ok ((fieldsLength (t8 :: t9 :: t35 :: (pre ++ [t10])) : Nat) : Int) := by
    rw [(finishAdjust_keeps C).1]
    simp [FieldMap.getInt, FieldMap.getBytes, hfind, Field.head, Field.items, idxR, hbl]
  simp only [finishParse, hget]
  simp only [List.cons_append, List.nil_append, ne_eq, not_true_eq_false, false_and, if_false]

/-- the message a parse of `8, 9, 35, pre…, 10` produces -/
def ndMessage (t8 t9 t35 : TagValue) (pre : List TagValue) (t10 : TagValue) : Message :=
  { header := (ndFinal t8 t9 t35 pre t10).header, body := (ndFinal t8 t9 t35 pre t10).body,
    trailer := (ndFinal t8 t9 t35 pre t10).trailer, fields := t8 :: t9 :: t35 :: (pre ++ [t10]),
    bodyBytes := (ndFinal t8 t9 t35 pre t10).bodyBytes, raw := some (wireOf (t8 :: t9 :: t35 :: (pre ++ [t10]))) }

theorem parse_wire_nodict (fx : Fixes) (t8 t9 t35 : TagValue) (pre : List TagValue) (t10 : TagValue)
    (hw : WireMsg t8 t9 t35 pre t10)
    (hbl : atoi t9.value = .ok ((fieldsLength (t8 :: t9 :: t35 :: (pre ++ [t10])) : Nat) : Int)) :
    parseMessage fx Dicts.none (wireOf (t8 :: t9 :: t35 :: (pre ++ [t10]))) = .ok (ndMessage t8 t9 t35 pre t10) := by
  have hall : ∀ tv ∈ t8 :: t9 :: t35 :: (pre ++ [t10]), IsWire tv := by
    intro tv htv
    simp only [List.mem_cons, List.mem_append] at htv
    rcases htv with e | e | e | h | e
    · subst e; exact hw.w8
    · subst e; exact hw.w9
    · subst e; exact hw.w35
    · exact (hw.wpre tv h).1
    · simp at e; subst e; exact hw.w10
  have hcount := countByte_wireOf _ hall
  have hn : (t8 :: t9 :: t35 :: (pre ++ [t10])).length = pre.length + 4 := by simp
  have ex1 : extractField (wireOf (t8 :: t9 :: t35 :: (pre ++ [t10]))) = (wireOf (t9 :: t35 :: (pre ++ [t10])), .ok t8) := by
    have : wireOf (t8 :: t9 :: t35 :: (pre ++ [t10])) = t8.bytes ++ wireOf (t9 :: t35 :: (pre ++ [t10])) := by simp [wireOf]
    rw [this]; exact extractField_wire t8 _ hw.w8
  have ex2 : extractField (wireOf (t9 :: t35 :: (pre ++ [t10]))) = (wireOf (t35 :: (pre ++ [t10])), .ok t9) := by
    have : wireOf (t9 :: t35 :: (pre ++ [t10])) = t9.bytes ++ wireOf (t35 :: (pre ++ [t10])) := by simp [wireOf]
    rw [this]; exact extractField_wire t9 _ hw.w9
  have ex3 : extractField (wireOf (t35 :: (pre ++ [t10]))) = (wireOf (pre ++ [t10]), .ok t35) := by
    have : wireOf (t35 :: (pre ++ [t10])) = t35.bytes ++ wireOf (pre ++ [t10]) := by simp [wireOf]
    rw [this]; exact extractField_wire t35 _ hw.w35
  simp only [parseMessage, hcount, hn]
  have hne : ¬ (pre.length + 4 = 0) := by omega
  simp only [hne, if_false]
  rw [extractSpecific_ok fx 8 _ 0 _ _ _ t8 (by simp) ex1 hw.tag8]
  simp only []
  rw [extractSpecific_ok fx 9 _ 1 _ _ _ t9 (by simp) ex2 hw.tag9]
  simp only []
  rw [extractSpecific_ok fx 35 _ 2 _ _ _ t35 (by simp) ex3 hw.tag35]
  simp only []
  have hf3 : (((List.replicate (pre.length + 4) TagValue.zero).set 0 t8).set 1 t9).set 2 t35 =
      [t8, t9, t35] ++ List.replicate (pre ++ [t10]).length TagValue.zero := by
    simp [List.replicate_succ]
  rw [hf3]
  have := parseLoop_nd_ok fx t8 t9 t35 pre t10 hw hbl
  unfold ndInit at this
  rw [this]
  rfl


open Qfx.Spec

theorem getBytes_view (fm : FieldMap) (arr : List TagValue) (k : Tag) (j : Nat) (tv : TagValue)
    (hfind : alFind fm.lookup k = some (.view j 1)) (hj : arr[j]? = some tv) : fm.getBytes arr k = .ok tv.value := by
  have : ((arr.drop j).take 1)[0]? = some tv := by
    rw [List.getElem?_take]; simp [hj]
  simp [FieldMap.getBytes, hfind, Field.head, Field.items, idxR, this]

theorem secOf_none (t : Tag) : secOf Dicts.none t = secND t := by
  simp [secOf, secND, isHeaderField, isTrailerField, Dicts.none]

theorem ndFinal_sec (t8 t9 t35 : TagValue) (pre : List TagValue) (t10 : TagValue) (s : Sec) :
    (ndFinal t8 t9 t35 pre t10).sec s =
      (ndSwitch (3 + pre.length) t10 { (runND 3 pre (t10.bytes ++ []) (ndInit t8 t9 t35 (wireOf (pre ++ [t10])))) with rawBytes := [] }).sec s := by
  unfold ndFinal
  cases s
  · exact (finishAdjust_keeps _).1
  · exact (finishAdjust_keeps _).2.2.1
  · exact (finishAdjust_keeps _).2.2.2

theorem withRaw_sec (c : PCore) (r : Bytes) (s : Sec) : ({ c with rawBytes := r } : PCore).sec s = c.sec s := by
  cases s <;> rfl

theorem ndFinal_find (t8 t9 t35 : TagValue) (pre : List TagValue) (t10 : TagValue) (hw : WireMsg t8 t9 t35 pre t10)
    (j : Nat) (tv : TagValue) (hj : (t8 :: t9 :: t35 :: (pre ++ [t10]))[j]? = some tv)
    (huniq : ∀ j' tv', (t8 :: t9 :: t35 :: (pre ++ [t10]))[j']? = some tv' → j' ≠ j → tv'.tag ≠ tv.tag) :
    alFind ((ndFinal t8 t9 t35 pre t10).sec (secND tv.tag)).lookup tv.tag = some (.view j 1) := by
  rw [ndFinal_sec]
  have hpre : ∀ i x, pre[i]? = some x → (t8 :: t9 :: t35 :: (pre ++ [t10]))[i + 3]? = some x := by
    intro i x hx
    have hi : i < pre.length := by
      rcases Nat.lt_or_ge i pre.length with h | h
      · exact h
      · rw [List.getElem?_eq_none_iff.2 h] at hx; cases hx
    simp [List.getElem?_append_left hi, hx]
  have hlast : (t8 :: t9 :: t35 :: (pre ++ [t10]))[pre.length + 3]? = some t10 := by simp
  -- a leading field (position < 3): nothing else carries its tag
  have lead : ∀ (p : Nat), p < 3 → j = p →
      alFind ((ndInit t8 t9 t35 (wireOf (pre ++ [t10]))).sec (secND tv.tag)).lookup tv.tag = some (.view p 1) →
      alFind ((ndSwitch (3 + pre.length) t10 { (runND 3 pre (t10.bytes ++ []) (ndInit t8 t9 t35 (wireOf (pre ++ [t10])))) with rawBytes := [] }).sec (secND tv.tag)).lookup tv.tag = some (.view j 1) := by
    intro p hp hjp hinit
    have h10 : t10.tag ≠ tv.tag := huniq (pre.length + 3) t10 hlast (by omega)
    rw [ndSwitch_find_other _ _ _ _ _ h10, withRaw_sec,
      runND_find_absent tv.tag _ pre 3 _ _ (fun x hx => by
        obtain ⟨i, hi⟩ := List.getElem?_of_mem hx
        exact huniq (i + 3) x (hpre i x hi) (by omega)), hinit, hjp]
  match j, hj with
  | 0, hj =>
    simp only [List.getElem?_cons_zero, Option.some.injEq] at hj; subst hj
    apply lead 0 (by omega) rfl
    have : secND t8.tag = .h := by rw [hw.tag8]; decide
    rw [this]; simp [ndInit, PCore.sec, FieldMap.add, FieldMap.empty, alInsert, alFind, hw.tag8, hw.tag9, hw.tag35]
  | 1, hj =>
    simp only [List.getElem?_cons_succ, List.getElem?_cons_zero, Option.some.injEq] at hj; subst hj
    apply lead 1 (by omega) rfl
    have : secND t9.tag = .h := by rw [hw.tag9]; decide
    rw [this]; simp [ndInit, PCore.sec, FieldMap.add, FieldMap.empty, alInsert, alFind, hw.tag8, hw.tag9, hw.tag35]
  | 2, hj =>
    simp only [List.getElem?_cons_succ, List.getElem?_cons_zero, Option.some.injEq] at hj; subst hj
    apply lead 2 (by omega) rfl
    have : secND t35.tag = .h := by rw [hw.tag35]; decide
    rw [this]; simp [ndInit, PCore.sec, FieldMap.add, FieldMap.empty, alInsert, alFind, hw.tag8, hw.tag9, hw.tag35]
  | i + 3, hj =>
    have hj' : (pre ++ [t10])[i]? = some tv := by simpa using hj
    rcases Nat.lt_or_ge i pre.length with hi | hi
    · -- a field of `pre`
      rw [List.getElem?_append_left hi] at hj'
      have h10 : t10.tag ≠ tv.tag := huniq (pre.length + 3) t10 hlast (by omega)
      rw [ndSwitch_find_other _ _ _ _ _ h10, withRaw_sec,
        runND_find_unique pre 3 _ _ i tv hj' (fun j' tv' h' hne => huniq (j' + 3) tv' (hpre j' tv' h') (by omega))]
      congr 2; omega
    · -- the CheckSum field
      have hi' : i = pre.length := by
        rcases Nat.lt_or_ge pre.length i with h | h
        · rw [List.getElem?_eq_none_iff.2 (by simp; omega)] at hj'; cases hj'
        · omega
      subst hi'
      have : tv = t10 := by simpa using hj'.symm
      subst this
      have := ndSwitch_find_self (3 + pre.length) tv { (runND 3 pre (tv.bytes ++ []) (ndInit t8 t9 t35 (wireOf (pre ++ [tv])))) with rawBytes := [] }
      rw [this]; congr 2; omega


end Qfx
