/-
  Qfx.Lemmas.ValidateReasons — the validator never reports the two session-reject reasons that end a session
  (9 CompID problem, 10 SendingTime accuracy problem): every `rej` of Qfx/Model/Validate.lean carries one of
  0 1 2 4 5 6 11 13 14 16.  Used by C06: a validator reject always takes the "Reject and consume" path of `processReject`.
-/
import Qfx.Model.Validate
namespace Qfx.Validate
open Qfx Qfx.Dict

/-- the reject (if any) of a validator stage is not one of the session-ending reasons -/
def RsnOK {α} (v : V α) : Prop := ∀ r, v = .error (.reject r) → r.reason ≠ 9 ∧ r.reason ≠ 10

theorem rsn_ok {α} (a : α) : RsnOK (.ok a : V α) := by intro r h; cases h
theorem rsn_panic {α} : RsnOK (.error .panic : V α) := by intro r h; cases h
theorem rsn_fuel {α} : RsnOK (.error .fuelOut : V α) := by intro r h; cases h
theorem rsn_rej {α} (n t : Nat) (h : n ≠ 9 ∧ n ≠ 10) : RsnOK (rej n t : V α) := by
  intro r hr; unfold rej at hr; cases hr; exact h
theorem rsn_error_of {α β} {e : Stop} (h : RsnOK (.error e : V α)) : RsnOK (.error e : V β) := by
  intro r hr; cases hr; exact h r rfl

theorem rsn_bind {α β} {x : V α} {f : α → V β} (hx : RsnOK x) (hf : ∀ a, RsnOK (f a)) : RsnOK (x >>= f) := by
  cases x with
  | ok a => exact hf a
  | error e => exact rsn_error_of hx

theorem rsn_validateMsgType (d : VDict) (mt : Bytes) : RsnOK (validateMsgType d mt) := by
  unfold validateMsgType
  split
  · exact rsn_ok _
  · intro r h; cases h; decide

theorem rsn_requiredFieldMap (req present : List Nat) : RsnOK (validateRequiredFieldMap req present) := by
  unfold validateRequiredFieldMap
  split
  · exact rsn_ok _
  · exact rsn_rej _ _ (by decide)

theorem rsn_validateRequired (tr app : VDict) (mt : Bytes) (m : PMsg) : RsnOK (validateRequired tr app mt m) := by
  unfold validateRequired
  split
  · exact rsn_bind (rsn_requiredFieldMap _ _) (fun _ => rsn_bind (rsn_requiredFieldMap _ _) (fun _ => rsn_requiredFieldMap _ _))
  · exact rsn_panic

theorem rsn_fieldContentLoop (hv ord : Bool) : ∀ (fs : List TV) (ih it : Bool), RsnOK (fieldContentLoop hv ord fs ih it)
  | [], _, _ => by unfold fieldContentLoop; exact rsn_ok _
  | f :: rest, ih, it => by
    unfold fieldContentLoop
    split
    · exact rsn_rej _ _ (by decide)
    · split
      · exact rsn_fieldContentLoop hv ord rest _ _
      · split
        · exact rsn_fieldContentLoop hv ord rest _ _
        · split
          · exact rsn_rej _ _ (by decide)
          · split
            · exact rsn_fieldContentLoop hv ord rest _ _
            · split
              · exact rsn_rej _ _ (by decide)
              · exact rsn_fieldContentLoop hv ord rest _ _

theorem rsn_validateFieldContent (m : PMsg) (hv ord : Bool) : RsnOK (validateFieldContent m hv ord) := by
  unfold validateFieldContent
  split
  · exact rsn_ok _
  · exact rsn_fieldContentLoop _ _ _ _ _

theorem rsn_validateFieldWith (ok : FType → Bytes → Bool) (d : VDict) (s : Settings) (f : TV) : RsnOK (validateFieldWith ok d s f) := by
  unfold validateFieldWith
  split
  · exact rsn_rej _ _ (by decide)
  · split
    · split
      · exact rsn_rej _ _ (by decide)
      · exact rsn_ok _
    · split
      · exact rsn_rej _ _ (by decide)
      · split
        · exact rsn_panic
        · split
          · exact rsn_ok _
          · exact rsn_rej _ _ (by decide)

theorem rsn_validateFields (tr app : VDict) (s : Settings) : ∀ fs : List TV, RsnOK (validateFields tr app s fs)
  | [] => by unfold validateFields; exact rsn_ok _
  | f :: rest => by
    unfold validateFields
    split
    · exact rsn_validateFields tr app s rest
    · exact rsn_bind (rsn_validateFieldWith _ _ _ _) (fun _ => rsn_validateFields tr app s rest)

/-- the three mutually recursive group functions, all at the same fuel -/
theorem rsn_visit (tc : Bool) : ∀ fuel : Nat,
    (∀ fd st, RsnOK (visitFieldW tc fuel fd st)) ∧ (∀ fd st, RsnOK (visitGroupW tc fuel fd st)) ∧
    (∀ fd st cds cnt, RsnOK (groupLoopW tc fuel fd st cds cnt))
  | 0 => by
    refine ⟨?_, ?_, ?_⟩
    · intro fd st; unfold visitFieldW; exact rsn_fuel
    · intro fd st; unfold visitGroupW; exact rsn_fuel
    · intro fd st cds cnt; unfold groupLoopW; exact rsn_fuel
  | fuel + 1 => by
    obtain ⟨ih1, ih2, ih3⟩ := rsn_visit tc fuel
    refine ⟨?_, ?_, ?_⟩
    · intro fd st
      unfold visitFieldW
      split
      · exact ih2 fd st
      · exact rsn_ok _
    · intro fd st
      cases st with
      | nil => unfold visitGroupW; exact rsn_panic
      | cons cnt stack =>
        unfold visitGroupW
        split
        · exact rsn_rej _ _ (by decide)
        · split
          · rename_i e he
            exact rsn_error_of (by rw [← he]; exact ih3 _ _ _ _)
          · split
            · exact rsn_rej _ _ (by decide)
            · exact rsn_ok _
    · intro fd st cds cnt
      cases st with
      | nil => unfold groupLoopW; exact rsn_ok _
      | cons f stack =>
        unfold groupLoopW
        simp only []
        split
        · exact rsn_rej _ _ (by decide)
        · split
          · exact rsn_ok _
          · split
            · split
              · rename_i e he
                exact rsn_error_of (by rw [← he]; exact ih1 _ _)
              · exact ih3 _ _ _ _
            · split
              · exact rsn_rej _ _ (by decide)
              · exact ih3 _ _ _ _

theorem rsn_walkLoop (tr app : VDict) (s : Settings) (body : MDef) : ∀ (fuel : Nat) (fs : List TV) (seen : List Nat),
    RsnOK (walkLoop tr app s body fuel fs seen)
  | 0, _, _ => by unfold walkLoop; exact rsn_fuel
  | _ + 1, [], _ => by unfold walkLoop; exact rsn_ok _
  | fuel + 1, f :: rest, seen => by
    unfold walkLoop
    simp only []
    split
    · exact rsn_panic
    · split
      · exact rsn_rej _ _ (by decide)
      · split
        · split
          · exact rsn_rej _ _ (by decide)
          · exact rsn_walkLoop tr app s body fuel rest _
        · split
          · rename_i e he
            exact rsn_error_of (by rw [← he]; exact (rsn_visit true fuel).1 _ _)
          · exact rsn_walkLoop tr app s body fuel _ _

theorem rsn_validateWalk (tr app : VDict) (s : Settings) (mt : Bytes) (m : PMsg) : RsnOK (validateWalk tr app s mt m) := by
  unfold validateWalk
  split
  · exact rsn_panic
  · exact rsn_walkLoop _ _ _ _ _ _ _

theorem rsn_validatePipeline (tr app : VDict) (s : Settings) (mt : Bytes) (m : PMsg) : RsnOK (validatePipeline tr app s mt m) := by
  unfold validatePipeline
  refine rsn_bind (rsn_validateMsgType _ _) (fun _ => rsn_bind (rsn_validateRequired _ _ _ _) (fun _ =>
    rsn_bind (rsn_validateFieldContent _ _ _) (fun _ => ?_)))
  split
  · exact rsn_bind (rsn_validateFields _ _ _ _) (fun _ => rsn_validateWalk _ _ _ _ _)
  · exact rsn_ok _

/-- **the whole validator** -/
theorem rsn_validate (app : VDict) (tr : Option VDict) (s : Settings) (m : PMsg) : RsnOK (validate app tr s m) := by
  unfold validate
  split
  · exact rsn_rej _ _ (by decide)
  · split
    · exact rsn_panic
    · split
      · exact rsn_validatePipeline _ _ _ _ _
      · split
        · exact rsn_validatePipeline _ _ _ _ _
        · exact rsn_validatePipeline _ _ _ _ _

end Qfx.Validate
