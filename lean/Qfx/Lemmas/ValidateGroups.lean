/- helper lemmas about the validator model (C15): section order, undefined tags, repeating groups -/
import Qfx.Spec.ValidateTree
import Qfx.Lemmas.Validate
namespace Qfx.Validate
open Qfx Qfx.Dict

/-! ### validateFieldContent on a sectioned prefix -/

/-- the loop state of validateFieldContent in front of the remainder `l` of a sectioned message -/
def Phase : Bool → Bool → List TV → Prop
  | true, false, l => Sectioned l
  | false, false, l => ∃ b t, l = b ++ t ∧ (∀ f ∈ b, isHeaderTag f.tag = false ∧ isTrailerTag f.tag = false) ∧
      (∀ f ∈ t, isTrailerTag f.tag = true)
  | false, true, l => ∀ f ∈ l, isTrailerTag f.tag = true
  | true, true, _ => False

theorem contentLoop_step (hv ord : Bool) (g : TV) (l : List TV) (ih it : Bool) (hp : Phase ih it (g :: l))
    (hval : (hv && g.value.isEmpty) = false) :
    ∃ ih' it', fieldContentLoop hv ord (g :: l) ih it = fieldContentLoop hv ord l ih' it' ∧ Phase ih' it' l := by
  cases ih <;> cases it
  · -- body phase
    obtain ⟨b, t, heq, hb, ht⟩ := hp
    cases b with
    | nil =>
      cases t with
      | nil => simp at heq
      | cons x t' =>
        simp only [List.nil_append, List.cons.injEq] at heq
        obtain ⟨rfl, rfl⟩ := heq
        have h2 := ht g (List.mem_cons_self ..)
        have h3 := trailer_not_header h2
        refine ⟨false, true, ?_, fun f hf => ht f (List.mem_cons_of_mem _ hf)⟩
        simp [fieldContentLoop, hval, h2, h3]
    | cons x b' =>
      simp only [List.cons_append, List.cons.injEq] at heq
      obtain ⟨rfl, rfl⟩ := heq
      have ⟨h2, h3⟩ := hb g (List.mem_cons_self ..)
      refine ⟨false, false, ?_, b', t, rfl, fun f hf => hb f (List.mem_cons_of_mem _ hf), ht⟩
      simp [fieldContentLoop, hval, h2, h3]
  · -- trailer phase
    have h2 := hp g (List.mem_cons_self ..)
    have h3 := trailer_not_header h2
    refine ⟨false, true, ?_, fun f hf => hp f (List.mem_cons_of_mem _ hf)⟩
    simp [fieldContentLoop, hval, h2, h3]
  · -- header phase
    obtain ⟨h, b, t, heq, hh, hb, ht⟩ := hp.split
    cases h with
    | nil =>
      cases b with
      | nil =>
        cases t with
        | nil => simp at heq
        | cons x t' =>
          simp only [List.nil_append, List.cons.injEq] at heq
          obtain ⟨rfl, rfl⟩ := heq
          have h2 := ht g (List.mem_cons_self ..)
          have h3 := trailer_not_header h2
          refine ⟨false, true, ?_, fun f hf => ht f (List.mem_cons_of_mem _ hf)⟩
          simp [fieldContentLoop, hval, h3, h2]
      | cons x b' =>
        simp only [List.nil_append, List.cons_append, List.cons.injEq] at heq
        obtain ⟨rfl, rfl⟩ := heq
        have ⟨h2, h2t⟩ := hb g (List.mem_cons_self ..)
        refine ⟨false, false, ?_, b', t, rfl, fun f hf => hb f (List.mem_cons_of_mem _ hf), ht⟩
        simp [fieldContentLoop, hval, h2, h2t]
    | cons x h' =>
      simp only [List.cons_append, List.cons.injEq] at heq
      obtain ⟨rfl, rfl⟩ := heq
      have h2 := hh g (List.mem_cons_self ..)
      refine ⟨true, false, ?_, ⟨h', b, t, rfl, fun f hf => hh f (List.mem_cons_of_mem _ hf), hb, ht⟩⟩
      simp [fieldContentLoop, hval, h2]
  · exact absurd hp (by simp [Phase])

/-- on a prefix of a sectioned message whose values are fine the loop only moves its state -/
theorem contentLoop_prefix (hv ord : Bool) : ∀ (pre rest : List TV) (ih it : Bool), Phase ih it (pre ++ rest) →
    ValuesOK hv pre →
    ∃ ih' it', fieldContentLoop hv ord (pre ++ rest) ih it = fieldContentLoop hv ord rest ih' it' ∧ Phase ih' it' rest := by
  intro pre
  induction pre with
  | nil => intro rest ih it hp _; exact ⟨ih, it, rfl, hp⟩
  | cons g r ihr =>
    intro rest ih it hp hval
    obtain ⟨ih1, it1, e1, p1⟩ := contentLoop_step hv ord g (r ++ rest) ih it hp (hval g (List.mem_cons_self ..))
    obtain ⟨ih2, it2, e2, p2⟩ := ihr rest ih1 it1 p1 hval.tail
    exact ⟨ih2, it2, by rw [List.cons_append, e1, e2], p2⟩

/-- the first field without a value is named by the CheckFieldsHaveValues route -/
theorem contentLoop_first_empty (ord : Bool) (pre post : List TV) (f : TV) (hs : Sectioned (pre ++ f :: post))
    (hval : AllValues pre) (he : f.value = []) :
    fieldContentLoop true ord (pre ++ f :: post) true false = rej 4 f.tag := by
  obtain ⟨ih, it, e, _⟩ := contentLoop_prefix true ord pre (f :: post) true false hs (hval.valuesOK true)
  rw [e]
  simp [fieldContentLoop, he]

theorem contentLoop_header_prefix (hv ord : Bool) : ∀ (h rest : List TV), ValuesOK hv h →
    (∀ f ∈ h, isHeaderTag f.tag = true) →
    fieldContentLoop hv ord (h ++ rest) true false = fieldContentLoop hv ord rest true false := by
  intro h
  induction h with
  | nil => intros; rfl
  | cons f r ih =>
    intro rest hval hh
    have h1 := hval f (List.mem_cons_self ..)
    have h2 := hh f (List.mem_cons_self ..)
    simp only [List.cons_append, fieldContentLoop, h1, h2]
    simp
    exact ih rest hval.tail (fun g hg => hh g (List.mem_cons_of_mem _ hg))

theorem contentLoop_body_prefix (hv ord : Bool) : ∀ (b rest : List TV), ValuesOK hv b →
    (∀ f ∈ b, isHeaderTag f.tag = false ∧ isTrailerTag f.tag = false) →
    fieldContentLoop hv ord (b ++ rest) false false = fieldContentLoop hv ord rest false false := by
  intro b
  induction b with
  | nil => intros; rfl
  | cons f r ih =>
    intro rest hval hb
    have h1 := hval f (List.mem_cons_self ..)
    have ⟨h2, h3⟩ := hb f (List.mem_cons_self ..)
    simp only [List.cons_append, fieldContentLoop, h1, h2, h3]
    simp
    exact ih rest hval.tail (fun g hg => hb g (List.mem_cons_of_mem _ hg))

/-- a header tag after the body has begun is named with reason 14 (CheckFieldsOutOfOrder on) -/
theorem contentLoop_section_order (hv : Bool) (h b rest : List TV) (x : TV) (hne : b ≠ [])
    (hval : ValuesOK hv (h ++ (b ++ [x])))
    (hh : ∀ f ∈ h, isHeaderTag f.tag = true)
    (hb : ∀ f ∈ b, isHeaderTag f.tag = false ∧ isTrailerTag f.tag = false)
    (hx : isHeaderTag x.tag = true) :
    fieldContentLoop hv true (h ++ (b ++ x :: rest)) true false = rej 14 x.tag := by
  have hvh : ValuesOK hv h := fun f hf => hval f (List.mem_append_left _ hf)
  have hvb : ValuesOK hv b := fun f hf => hval f (List.mem_append_right _ (List.mem_append_left _ hf))
  have hvx : (hv && x.value.isEmpty) = false := hval x (by simp)
  rw [contentLoop_header_prefix hv true h _ hvh hh]
  cases b with
  | nil => exact absurd rfl hne
  | cons g b' =>
    have h1 := hvb g (List.mem_cons_self ..)
    have ⟨h2, h3⟩ := hb g (List.mem_cons_self ..)
    have step : fieldContentLoop hv true ((g :: b') ++ x :: rest) true false =
        fieldContentLoop hv true (b' ++ x :: rest) false false := by
      simp [fieldContentLoop, h1, h2, h3]
    rw [step, contentLoop_body_prefix hv true b' _ hvb.tail (fun f hf => hb f (List.mem_cons_of_mem _ hf))]
    simp [fieldContentLoop, hvx, hx]


/-- after at least one trailer field, from the header or the body phase, the loop is in the trailer phase -/
theorem contentLoop_enter_trailer (hv ord : Bool) (t₁ : TV) (rest : List TV) (ih : Bool)
    (ht : isTrailerTag t₁.tag = true) (hval : (hv && t₁.value.isEmpty) = false) :
    fieldContentLoop hv ord (t₁ :: rest) ih false = fieldContentLoop hv ord rest false true := by
  have h3 := trailer_not_header ht
  cases ih <;> simp [fieldContentLoop, hval, ht, h3]

theorem contentLoop_trailer_prefix (hv ord : Bool) : ∀ (t rest : List TV), ValuesOK hv t →
    (∀ f ∈ t, isTrailerTag f.tag = true) →
    fieldContentLoop hv ord (t ++ rest) false true = fieldContentLoop hv ord rest false true := by
  intro t
  induction t with
  | nil => intros; rfl
  | cons f r ih =>
    intro rest hval htr
    have h1 := hval f (List.mem_cons_self ..)
    have h2 := htr f (List.mem_cons_self ..)
    have h3 := trailer_not_header h2
    simp only [List.cons_append, fieldContentLoop, h1, h2, h3]
    simp
    exact ih rest hval.tail (fun g hg => htr g (List.mem_cons_of_mem _ hg))

/-- a body field behind a trailer field is named (reason 14), whether or not any body field came before the trailer -/
theorem contentLoop_behind_trailer (hv : Bool) (h b t rest : List TV) (t₁ x : TV)
    (hval : ValuesOK hv (h ++ (b ++ (t₁ :: t ++ [x]))))
    (hh : ∀ f ∈ h, isHeaderTag f.tag = true)
    (hb : ∀ f ∈ b, isHeaderTag f.tag = false ∧ isTrailerTag f.tag = false)
    (ht₁ : isTrailerTag t₁.tag = true) (ht : ∀ f ∈ t, isTrailerTag f.tag = true)
    (hx : isHeaderTag x.tag = false ∧ isTrailerTag x.tag = false) :
    fieldContentLoop hv true (h ++ (b ++ (t₁ :: t ++ x :: rest))) true false = rej 14 x.tag := by
  have hvh : ValuesOK hv h := fun f hf => hval f (List.mem_append_left _ hf)
  have hvb : ValuesOK hv b := fun f hf => hval f (List.mem_append_right _ (List.mem_append_left _ hf))
  have hvt₁ : (hv && t₁.value.isEmpty) = false := hval t₁ (by simp)
  have hvt : ValuesOK hv t := fun f hf => hval f (by simp [hf])
  have hvx : (hv && x.value.isEmpty) = false := hval x (by simp)
  have tail : fieldContentLoop hv true (t ++ x :: rest) false true = rej 14 x.tag := by
    rw [contentLoop_trailer_prefix hv true t _ hvt ht]
    simp [fieldContentLoop, hvx, hx.1, hx.2]
  rw [contentLoop_header_prefix hv true h _ hvh hh]
  cases b with
  | nil =>
    simp only [List.nil_append, List.cons_append]
    rw [contentLoop_enter_trailer hv true t₁ _ true ht₁ hvt₁]; exact tail
  | cons g b' =>
    have h1 := hvb g (List.mem_cons_self ..)
    have ⟨h2, h3⟩ := hb g (List.mem_cons_self ..)
    have step : fieldContentLoop hv true ((g :: b') ++ (t₁ :: t ++ x :: rest)) true false =
        fieldContentLoop hv true (b' ++ (t₁ :: t ++ x :: rest)) false false := by
      simp [fieldContentLoop, h1, h2, h3]
    rw [step, contentLoop_body_prefix hv true b' _ hvb.tail (fun f hf => hb f (List.mem_cons_of_mem _ hf))]
    simp only [List.cons_append]
    rw [contentLoop_enter_trailer hv true t₁ _ false ht₁ hvt₁]; exact tail

/-! ### the walk: plain prefixes, undefined tags -/

/-- the walk over a prefix of plain (non-group) defined fields only records their tags -/
theorem walkLoop_plain_prefix (tr app : VDict) (s : Settings) (body : MDef) : ∀ (pre rest : List TV) (fuel : Nat)
    (seen : List Nat), 1 ≤ fuel → (pre.map (·.tag)).Nodup → (∀ g ∈ pre, g.tag ∉ seen) →
    (∀ g ∈ pre, PlainDefined tr body g) →
    walkLoop tr app s body (fuel + pre.length) (pre ++ rest) seen =
      walkLoop tr app s body fuel rest ((pre.map (·.tag)).reverse ++ seen) := by
  intro pre
  induction pre with
  | nil => intros; rfl
  | cons g r ih =>
    intro rest fuel seen hf hnd hseen hdef
    obtain ⟨md, fd, h1, h2, h3⟩ := hdef g (List.mem_cons_self ..)
    have hns : seen.contains g.tag = false := by
      have := hseen g (List.mem_cons_self ..)
      simpa using this
    simp only [defFor] at h1
    simp only [List.map_cons, List.nodup_cons] at hnd
    obtain ⟨k, hk⟩ : ∃ k, fuel + r.length = k + 1 := ⟨fuel + r.length - 1, by omega⟩
    have e : fuel + (g :: r).length = (k + 1) + 1 := by simp only [List.length_cons]; omega
    rw [e]
    simp only [List.cons_append, walkLoop, h1, hns, h2, visitField, visitFieldW, h3]
    simp only [Bool.false_eq_true, if_false, List.drop_succ_cons, List.drop_zero]
    rw [← hk, ih rest fuel (g.tag :: seen) hf hnd.2 ?_ (fun x hx => hdef x (List.mem_cons_of_mem _ hx))]
    · simp
    · intro x hx
      simp only [List.mem_cons, not_or]
      refine ⟨?_, hseen x (List.mem_cons_of_mem _ hx)⟩
      intro e
      exact hnd.1 (by rw [← e]; exact List.mem_map_of_mem hx)

/-- one step of the walk on a tag the section's definition does not list -/
theorem walkLoop_undefined_step (tr app : VDict) (s : Settings) (body : MDef) (fuel : Nat) (f : TV) (post : List TV)
    (seen : List Nat) (md : MDef) (hd : defFor tr body f.tag = some md) (hu : md.field? f.tag = none)
    (hns : f.tag ∉ seen) :
    walkLoop tr app s body (fuel + 1) (f :: post) seen =
      if checkFieldNotDefined s f.tag then walkLoop tr app s body fuel post (f.tag :: seen) else rej 2 f.tag := by
  have hc : seen.contains f.tag = false := by simpa using hns
  simp only [defFor] at hd
  simp only [walkLoop, hd, hc, hu]
  cases checkFieldNotDefined s f.tag <;> simp

/-- a tag not defined for the message type is named with reason 2, if everything before it is plain -/
theorem walkLoop_not_defined (tr app : VDict) (s : Settings) (body : MDef) (pre post : List TV) (f : TV) (fuel : Nat)
    (md : MDef) (hf : pre.length + 2 ≤ fuel) (hnd : (pre.map (·.tag)).Nodup) (hnew : f.tag ∉ pre.map (·.tag))
    (hplain : ∀ g ∈ pre, PlainDefined tr body g)
    (hd : defFor tr body f.tag = some md) (hu : md.field? f.tag = none) (hc : checkFieldNotDefined s f.tag = false) :
    walkLoop tr app s body fuel (pre ++ f :: post) [] = rej 2 f.tag := by
  obtain ⟨k, rfl⟩ : ∃ k, fuel = (k + 1) + pre.length := ⟨fuel - 1 - pre.length, by omega⟩
  rw [walkLoop_plain_prefix tr app s body pre (f :: post) (k + 1) [] (by omega) hnd (by simp) hplain]
  rw [walkLoop_undefined_step tr app s body k f post _ md hd hu (by simpa using hnew)]
  simp [hc]

/-! ### tags and widths of a definition tree -/

theorem childTagsL_cons (c : FDef) (cs : List FDef) : childTagsL (c :: cs) = c.allTags ++ childTagsL cs := by
  simp [childTagsL, FDef.allTags]

theorem childTags_eq (fd : FDef) : fd.childTags = childTagsL fd.fields := by
  cases fd; simp [FDef.childTags, FDef.fields]

theorem allTags_eq (fd : FDef) : fd.allTags = fd.tag :: childTagsL fd.fields := by
  rw [FDef.allTags, childTags_eq]

theorem maxWidth_eq (fd : FDef) : fd.maxWidth = max fd.fields.length (maxWidthL fd.fields) := by
  cases fd; simp [FDef.maxWidth, FDef.fields]

theorem maxWidthL_cons (c : FDef) (cs : List FDef) : maxWidthL (c :: cs) = max c.maxWidth (maxWidthL cs) := by
  simp [maxWidthL]

theorem tag_mem_allTags (fd : FDef) : fd.tag ∈ fd.allTags := by simp [FDef.allTags]

theorem childTags_sub_allTags (fd : FDef) {t : Nat} (h : t ∈ fd.childTags) : t ∈ fd.allTags := by
  simp [FDef.allTags, h]

theorem plain_childTags (fd : FDef) (h : fd.isGroup = false) : fd.childTags = [] := by
  rw [childTags_eq]
  cases hf : fd.fields with
  | nil => rfl
  | cons a b => simp [FDef.isGroup, hf] at h

/-! ### instances -/

theorem Inst.wire_cons (i : Inst) : ∃ w, i.wire = ⟨i.tag, i.headValue⟩ :: w := by
  cases i with
  | fld t v => exact ⟨[], by simp [Inst.wire, Inst.tag, Inst.headValue]⟩
  | grp t c es => exact ⟨wireLL es, by simp [Inst.wire, Inst.tag, Inst.headValue]⟩

theorem Inst.wire_length_pos (i : Inst) : 1 ≤ i.wire.length := by
  obtain ⟨w, h⟩ := i.wire_cons
  rw [h]; simp

theorem wireL_cons (i : Inst) (is : List Inst) : wireL (i :: is) = i.wire ++ wireL is := by simp [wireL]
theorem wireL_nil : wireL [] = [] := by simp [wireL]
theorem wireLL_cons (e : List Inst) (es : List (List Inst)) : wireLL (e :: es) = wireL e ++ wireLL es := by simp [wireLL]
theorem wireLL_nil : wireLL [] = [] := by simp [wireLL]

theorem instOK_tag {fd : FDef} {i : Inst} (h : InstOK fd i) : fd.tag = i.tag := by
  cases h with
  | fld h1 _ => simpa [Inst.tag] using h1
  | grp h1 _ _ _ _ => simpa [Inst.tag] using h1

/-- the first member of a conforming (rest of an) entry carries the tag of one of the remaining definitions -/
theorem entryOK_head_tag : ∀ (cs : List FDef) (i : Inst) (is : List Inst), EntryOK cs (i :: is) → i.tag ∈ childTagsL cs := by
  intro cs
  induction cs with
  | nil => intro i is h; cases h
  | cons c cs' ih =>
    intro i is h
    rw [childTagsL_cons]
    cases h with
    | skip _ h' _ => exact List.mem_append_right _ (ih i is h')
    | take h1 _ => exact List.mem_append_left _ (by rw [← instOK_tag h1]; exact tag_mem_allTags c)

theorem entryMissing_head_tag {d : FDef} {cs : List FDef} {l : List Inst} (h : EntryMissing d cs l) :
    ∀ i is, l = i :: is → i.tag ∈ childTagsL cs := by
  induction h with
  | miss _ he =>
    intro i is e; subst e
    rw [childTagsL_cons]
    exact List.mem_append_right _ (entryOK_head_tag _ i is he)
  | skip _ _ ih =>
    intro i is e
    rw [childTagsL_cons]
    exact List.mem_append_right _ (ih i is e)
  | take h1 _ _ =>
    intro i is e
    simp only [List.cons.injEq] at e
    rw [childTagsL_cons, ← e.1]
    exact List.mem_append_left _ (by rw [← instOK_tag h1]; exact tag_mem_allTags _)

/-! ### one step of the group loop -/

theorem visitField_plain (tc : Bool) (k : Nat) (fd : FDef) (st : List TV) (h : fd.isGroup = false) :
    visitFieldW tc (k + 1) fd st = .ok (st.drop 1) := by
  simp [visitFieldW, h]

theorem visitField_group (tc : Bool) (k : Nat) (fd : FDef) (cnt : TV) (st : List TV) (h : fd.isGroup = true) :
    visitFieldW tc (k + 2) fd (cnt :: st) =
      match readCount cnt.value with
      | none => rej 6 cnt.tag
      | some n =>
        match groupLoopW tc k fd st [] 0 with
        | .error e => .error e
        | .ok (st', count) => if (count : Int) ≠ n then rej 16 cnt.tag else .ok st' := by
  simp only [visitFieldW, h, if_true, visitGroupW]
  rfl

theorem groupLoop_nil (tc : Bool) (k : Nat) (fd : FDef) (cs : List FDef) (count : Nat) :
    groupLoopW tc (k + 1) fd [] cs count = .ok ([], count) := by
  simp [groupLoopW]

/-- the field is not the delimiter: it is compared with the next remaining member definition -/
theorem groupLoop_step (tc : Bool) (k : Nat) (fd d0 : FDef) (ds : List FDef) (f : TV) (st : List TV) (c : FDef)
    (cs : List FDef) (count : Nat) (hfields : fd.fields = d0 :: ds) (hne : f.tag ≠ d0.tag) :
    groupLoopW tc (k + 1) fd (f :: st) (c :: cs) count =
      if f.tag = c.tag then
        match visitFieldW tc k c (f :: st) with
        | .error e => .error e
        | .ok st' => groupLoopW tc k fd st' cs count
      else if c.req then rej 1 c.tag else groupLoopW tc k fd (f :: st) cs count := by
  have hb : (f.tag == d0.tag) = false := by simpa using hne
  simp only [groupLoopW, hfields, hb, Bool.false_and, Bool.false_eq_true, if_false, beq_iff_eq]
  rfl

/-- the field is not the delimiter and no member definition remains: the group is complete -/
theorem groupLoop_done (tc : Bool) (k : Nat) (fd d0 : FDef) (ds : List FDef) (f : TV) (st : List TV) (count : Nat)
    (hfields : fd.fields = d0 :: ds) (hne : f.tag ≠ d0.tag) :
    groupLoopW tc (k + 1) fd (f :: st) [] count = .ok (f :: st, count) := by
  have hb : (f.tag == d0.tag) = false := by simpa using hne
  simp only [groupLoopW, hfields, hb, Bool.false_and, Bool.false_eq_true, if_false]

/-- the delimiter, no required member definition pending: a new entry begins -/
theorem groupLoop_start (tc : Bool) (k : Nat) (fd d0 : FDef) (ds : List FDef) (f : TV) (st : List TV)
    (cs : List FDef) (count : Nat) (hfields : fd.fields = d0 :: ds) (heq : f.tag = d0.tag)
    (hopt : ∀ d ∈ cs, d.req = false) :
    groupLoopW tc (k + 1) fd (f :: st) cs count =
      match visitFieldW tc k d0 (f :: st) with
      | .error e => .error e
      | .ok st' => groupLoopW tc k fd st' ds (count + 1) := by
  have hb : (f.tag == d0.tag) = true := by simpa using heq
  have hfind : cs.find? (·.req) = none := by
    rw [List.find?_eq_none]
    intro x hx
    simp [hopt x hx]
  simp only [groupLoopW, hfields, hb, Bool.true_and, hfind, if_true]
  cases tc <;> rfl

/-- the delimiter while a required member definition is pending (the `fix:`): that member is named -/
theorem groupLoop_start_pending (k : Nat) (fd d0 : FDef) (ds : List FDef) (f : TV) (st : List TV)
    (cs : List FDef) (count : Nat) (c : FDef) (hfields : fd.fields = d0 :: ds) (heq : f.tag = d0.tag)
    (hfind : cs.find? (·.req) = some c) :
    groupLoop (k + 1) fd (f :: st) cs count = rej 1 c.tag := by
  have hb : (f.tag == d0.tag) = true := by simpa using heq
  simp only [groupLoop, groupLoopW, hfields, hb, Bool.true_and, hfind, if_true]

/-! ### the walk of a conforming group -/

/-- what the loop needs to know about the member definitions not yet reached in the current entry -/
structure GoodCs (K : Nat) (fd d0 : FDef) (cs : List FDef) : Prop where
  nodup : (childTagsL cs).Nodup
  sub : ∀ t ∈ childTagsL cs, t ∈ childTagsL fd.fields
  nodelim : d0.tag ∉ childTagsL cs
  width : maxWidthL cs + 3 ≤ K

theorem GoodCs.tail {K : Nat} {fd d0 c : FDef} {cs : List FDef} (h : GoodCs K fd d0 (c :: cs)) : GoodCs K fd d0 cs := by
  have hn := h.nodup
  rw [childTagsL_cons, List.nodup_append] at hn
  refine ⟨hn.2.1, fun t ht => h.sub t (by rw [childTagsL_cons]; exact List.mem_append_right _ ht),
    fun hm => h.nodelim (by rw [childTagsL_cons]; exact List.mem_append_right _ hm), ?_⟩
  have := h.width
  rw [maxWidthL_cons] at this
  omega

theorem GoodCs.head_nodup {K : Nat} {fd d0 c : FDef} {cs : List FDef} (h : GoodCs K fd d0 (c :: cs)) : c.TagsNodup := by
  have hn := h.nodup
  rw [childTagsL_cons, List.nodup_append] at hn
  exact hn.1

theorem GoodCs.head_width {K : Nat} {fd d0 c : FDef} {cs : List FDef} (h : GoodCs K fd d0 (c :: cs)) :
    c.maxWidth + 3 ≤ K := by
  have := h.width
  rw [maxWidthL_cons] at this
  omega

theorem GoodCs.head_tag_ne {K : Nat} {fd d0 c : FDef} {cs : List FDef} (h : GoodCs K fd d0 (c :: cs)) :
    c.tag ≠ d0.tag :=
  fun e => h.nodelim (by rw [childTagsL_cons, ← e]; exact List.mem_append_left _ (tag_mem_allTags c))

theorem GoodCs.head_no_delim {K : Nat} {fd d0 c : FDef} {cs : List FDef} (h : GoodCs K fd d0 (c :: cs)) :
    d0.tag ∉ c.childTags :=
  fun hm => h.nodelim (by rw [childTagsL_cons]; exact List.mem_append_left _ (childTags_sub_allTags c hm))

theorem fields_nodup {fd : FDef} (hnd : fd.TagsNodup) : (childTagsL fd.fields).Nodup := by
  have := hnd
  rw [FDef.TagsNodup, allTags_eq, List.nodup_cons] at this
  exact this.2

theorem GoodCs.initial {K : Nat} {fd d0 : FDef} {ds : List FDef} (hnd : fd.TagsNodup) (hfields : fd.fields = d0 :: ds)
    (hw : fd.maxWidth + 3 ≤ K) : GoodCs K fd d0 ds := by
  have hn := fields_nodup hnd
  rw [hfields, childTagsL_cons, List.nodup_append] at hn
  refine ⟨hn.2.1, fun t ht => by rw [hfields, childTagsL_cons]; exact List.mem_append_right _ ht,
    fun hm => hn.2.2 _ (tag_mem_allTags d0) _ hm rfl, ?_⟩
  rw [maxWidth_eq, hfields, maxWidthL_cons] at hw
  omega

theorem delim_facts {K : Nat} {fd d0 : FDef} {ds : List FDef} (hnd : fd.TagsNodup) (hfields : fd.fields = d0 :: ds)
    (hw : fd.maxWidth + 3 ≤ K) :
    d0.TagsNodup ∧ d0.maxWidth + 3 ≤ K ∧ ds.length + 4 ≤ K ∧ d0.tag ∉ d0.childTags ∧ d0.tag ∈ childTagsL fd.fields := by
  have hn := fields_nodup hnd
  rw [hfields, childTagsL_cons, List.nodup_append] at hn
  have h1 : d0.allTags.Nodup := hn.1
  refine ⟨h1, ?_, ?_, ?_, ?_⟩
  · rw [maxWidth_eq, hfields, maxWidthL_cons] at hw; omega
  · rw [maxWidth_eq, hfields] at hw; simp only [List.length_cons] at hw; omega
  · rw [FDef.allTags, List.nodup_cons] at h1; exact h1.1
  · rw [hfields, childTagsL_cons]; exact List.mem_append_left _ (tag_mem_allTags d0)

/-- the field in front of the loop is the delimiter of a further entry, or not a tag of the group at all -/
def DelimOrOut (fd d0 : FDef) (l : List TV) : Prop := ∀ f r, l = f :: r → f.tag = d0.tag ∨ f.tag ∉ childTagsL fd.fields

theorem delimOrOut_entries {fd d0 : FDef} {tail : List TV} : ∀ (es : List (List Inst)),
    (∀ e ∈ es, ∃ i0 r, e = i0 :: r ∧ i0.tag = d0.tag) → DelimOrOut fd d0 tail → DelimOrOut fd d0 (wireLL es ++ tail) := by
  intro es hdel ht
  cases es with
  | nil => rw [wireLL_nil, List.nil_append]; exact ht
  | cons e es' =>
    obtain ⟨i0, r, rfl, hi0⟩ := hdel _ (List.mem_cons_self ..)
    obtain ⟨w, hw⟩ := i0.wire_cons
    intro f r' hl
    rw [wireLL_cons, wireL_cons, hw] at hl
    simp only [List.cons_append, List.cons.injEq] at hl
    left
    rw [← hl.1]; exact hi0

theorem headNotIn_next (fd d0 c : FDef) (cs' : List FDef) (is : List Inst) (after : List TV)
    (hnd : (childTagsL (c :: cs')).Nodup) (hsub : ∀ t ∈ childTagsL (c :: cs'), t ∈ childTagsL fd.fields)
    (hd0 : d0.tag ∉ c.childTags) (hhead : ∀ i is', is = i :: is' → i.tag ∈ childTagsL cs')
    (hafter : DelimOrOut fd d0 after) :
    HeadNotIn c.childTags (wireL is ++ after) := by
  intro f r hl hm
  rw [childTagsL_cons, List.nodup_append] at hnd
  cases is with
  | nil =>
    rw [wireL_nil, List.nil_append] at hl
    rcases hafter f r hl with h | h
    · exact hd0 (h ▸ hm)
    · exact h (hsub _ (by rw [childTagsL_cons]; exact List.mem_append_left _ (childTags_sub_allTags c hm)))
  | cons i is' =>
    obtain ⟨w, hw⟩ := i.wire_cons
    rw [wireL_cons, hw] at hl
    simp only [List.cons_append, List.cons.injEq] at hl
    have e : f.tag = i.tag := by rw [← hl.1]
    have hin := hhead i is' rfl
    exact hnd.2.2 f.tag (childTags_sub_allTags c hm) i.tag hin e

/-- after the last entry: a field that is no tag of the group ends the loop (pending optional members are passed) -/
theorem groupLoop_tail_out (tc : Bool) (fd d0 : FDef) (ds : List FDef) (hfields : fd.fields = d0 :: ds) (rest : List TV)
    (hrest : HeadNotIn (childTagsL fd.fields) rest) :
    ∀ (cs : List FDef) (count fuel : Nat), (∀ d ∈ cs, d.req = false) → (∀ t ∈ childTagsL cs, t ∈ childTagsL fd.fields) →
      cs.length + 1 ≤ fuel → groupLoopW tc fuel fd rest cs count = .ok (rest, count) := by
  cases rest with
  | nil =>
    intro cs count fuel _ _ hf
    obtain ⟨k, rfl⟩ : ∃ k, fuel = k + 1 := ⟨fuel - 1, by omega⟩
    exact groupLoop_nil tc k fd cs count
  | cons f r =>
    have hout := hrest f r rfl
    have hne : f.tag ≠ d0.tag := by
      intro e
      apply hout
      rw [hfields, childTagsL_cons, e]
      exact List.mem_append_left _ (tag_mem_allTags d0)
    intro cs
    induction cs with
    | nil =>
      intro count fuel _ _ hf
      obtain ⟨k, rfl⟩ : ∃ k, fuel = k + 1 := ⟨fuel - 1, by omega⟩
      exact groupLoop_done tc k fd d0 ds f r count hfields hne
    | cons c cs' ih =>
      intro count fuel hopt hsub hf
      obtain ⟨k, rfl⟩ : ∃ k, fuel = k + 1 := ⟨fuel - 1, by omega⟩
      have hc : f.tag ≠ c.tag := by
        intro e
        apply hout
        rw [e]
        exact hsub _ (by rw [childTagsL_cons]; exact List.mem_append_left _ (tag_mem_allTags c))
      rw [groupLoop_step tc k fd d0 ds f r c cs' count hfields hne]
      simp only [hc, if_false, hopt c (List.mem_cons_self ..), Bool.false_eq_true]
      apply ih count k (fun d hd => hopt d (List.mem_cons_of_mem _ hd))
        (fun t ht => hsub t (by rw [childTagsL_cons]; exact List.mem_append_right _ ht))
      simp only [List.length_cons] at hf
      omega

/-- the statement of `visitField_conforming` for instances of at most `n` wire fields (induction hypothesis) -/
def VisitOK (K n : Nat) : Prop := ∀ (fd : FDef) (i : Inst) (rest : List TV) (fuel : Nat), i.wire.length ≤ n → InstOK fd i →
  fd.maxWidth + 3 ≤ K → fd.TagsNodup → HeadNotIn fd.childTags rest → i.wire.length * K ≤ fuel →
  visitFieldW true fuel fd (i.wire ++ rest) = .ok rest

/-- the remaining members of one conforming entry; what follows (`after`) is handled by `hR` -/
theorem groupLoop_entry {K n : Nat} (hvis : VisitOK K n) (fd d0 : FDef) (ds : List FDef) (hfields : fd.fields = d0 :: ds)
    (after : List TV) (hafter : DelimOrOut fd d0 after) (F : Nat) (hF : 1 ≤ F) (R : Nat → V (List TV × Nat))
    (hR : ∀ cs' count' fuel', (∀ d ∈ cs', d.req = false) → GoodCs K fd d0 cs' → cs'.length + F ≤ fuel' →
        groupLoopW true fuel' fd after cs' count' = R count') :
    ∀ (cs : List FDef) (is : List Inst) (count fuel : Nat), GoodCs K fd d0 cs → EntryOK cs is → (wireL is).length ≤ n →
      (wireL is).length * K + cs.length + F ≤ fuel →
      groupLoopW true fuel fd (wireL is ++ after) cs count = R count := by
  intro cs
  induction cs with
  | nil =>
    intro is count fuel hg he _ hf
    cases he with
    | nil hall =>
      rw [wireL_nil, List.nil_append]
      exact hR [] count fuel hall hg (by simpa [wireL_nil] using hf)
  | cons c cs' ih =>
    intro is count fuel hg he hn hf
    cases he with
    | nil hall =>
      rw [wireL_nil, List.nil_append]
      exact hR (c :: cs') count fuel hall hg (by simpa [wireL_nil] using hf)
    | skip hreq he' hne =>
      rename_i i is'
      obtain ⟨w, hw⟩ := i.wire_cons
      have hin := entryOK_head_tag cs' i is' he'
      have hd : i.tag ≠ d0.tag := fun e => hg.tail.nodelim (e ▸ hin)
      obtain ⟨k, rfl⟩ : ∃ k, fuel = k + 1 := ⟨fuel - 1, by omega⟩
      have e1 : wireL (i :: is') ++ after = ⟨i.tag, i.headValue⟩ :: (w ++ (wireL is' ++ after)) := by
        rw [wireL_cons, hw]; simp
      have step := groupLoop_step true k fd d0 ds ⟨i.tag, i.headValue⟩ (w ++ (wireL is' ++ after)) c cs' count hfields hd
      simp only [hne, if_false, hreq, Bool.false_eq_true] at step
      rw [e1, step, ← e1]
      apply ih (i :: is') count k hg.tail he' hn
      simp only [List.length_cons] at hf
      omega
    | take hinst he' =>
      rename_i i is'
      obtain ⟨w, hw⟩ := i.wire_cons
      have htag := instOK_tag hinst
      have hd : i.tag ≠ d0.tag := by rw [← htag]; exact hg.head_tag_ne
      obtain ⟨k, rfl⟩ : ∃ k, fuel = k + 1 := ⟨fuel - 1, by omega⟩
      have hlen : (wireL (i :: is')).length = i.wire.length + (wireL is').length := by
        rw [wireL_cons, List.length_append]
      rw [hlen] at hn
      rw [hlen, Nat.add_mul] at hf
      simp only [List.length_cons] at hf
      have e1 : wireL (i :: is') ++ after = ⟨i.tag, i.headValue⟩ :: (w ++ (wireL is' ++ after)) := by
        rw [wireL_cons, hw]; simp
      have e2 : (⟨i.tag, i.headValue⟩ : TV) :: (w ++ (wireL is' ++ after)) = i.wire ++ (wireL is' ++ after) := by
        rw [hw]; simp
      have step := groupLoop_step true k fd d0 ds ⟨i.tag, i.headValue⟩ (w ++ (wireL is' ++ after)) c cs' count hfields hd
      simp only [htag, if_true] at step
      have hv := hvis c i (wireL is' ++ after) k (by omega) hinst hg.head_width hg.head_nodup
        (headNotIn_next fd d0 c cs' is' after hg.nodup hg.sub hg.head_no_delim
          (fun j js e => entryOK_head_tag cs' j js (e ▸ he')) hafter) (by omega)
      rw [e2, hv] at step
      dsimp only at step
      rw [e1, e2, step]
      apply ih is' count k hg.tail he' (by omega)
      omega

/-- all remaining entries of a conforming group; what follows the group (`tail`) is handled by `hR` -/
theorem groupLoop_entries {K n : Nat} (hvis : VisitOK K n) (fd d0 : FDef) (ds : List FDef) (hfields : fd.fields = d0 :: ds)
    (hnd : fd.TagsNodup) (hw : fd.maxWidth + 3 ≤ K)
    (tail : List TV) (htail : DelimOrOut fd d0 tail) (F : Nat) (hF : 1 ≤ F) (R : Nat → V (List TV × Nat))
    (hR : ∀ cs' count' fuel', (∀ d ∈ cs', d.req = false) → GoodCs K fd d0 cs' → cs'.length + F ≤ fuel' →
        groupLoopW true fuel' fd tail cs' count' = R count') :
    ∀ (es : List (List Inst)), (∀ e ∈ es, ∃ i0 r, e = i0 :: r ∧ i0.tag = d0.tag) → (∀ e ∈ es, EntryOK (d0 :: ds) e) →
    ∀ (cs : List FDef) (is : List Inst) (count fuel : Nat), GoodCs K fd d0 cs → EntryOK cs is →
      (wireL is ++ wireLL es).length ≤ n →
      (wireL is ++ wireLL es).length * K + cs.length + F ≤ fuel →
      groupLoopW true fuel fd (wireL is ++ (wireLL es ++ tail)) cs count = R (count + es.length) := by
  intro es
  induction es with
  | nil =>
    intro _ _ cs is count fuel hg he hn hf
    simp only [wireLL_nil, List.append_nil, List.nil_append, List.length_nil, Nat.add_zero] at hn hf ⊢
    exact groupLoop_entry hvis fd d0 ds hfields tail htail F hF R hR cs is count fuel hg he hn hf
  | cons e es' ihes =>
    intro hdel hok cs is count fuel hg he hn hf
    obtain ⟨i0, r, rfl, hi0⟩ := hdel _ (List.mem_cons_self ..)
    have hdel' : ∀ e ∈ es', ∃ i0 r, e = i0 :: r ∧ i0.tag = d0.tag := fun e he => hdel e (List.mem_cons_of_mem _ he)
    have hok' : ∀ e ∈ es', EntryOK (d0 :: ds) e := fun e he => hok e (List.mem_cons_of_mem _ he)
    have ⟨hinst0, her⟩ : InstOK d0 i0 ∧ EntryOK ds r := by
      cases hok _ (List.mem_cons_self ..) with
      | skip _ _ hne => exact absurd hi0 hne
      | take h1 h2 => exact ⟨h1, h2⟩
    have hgds : GoodCs K fd d0 ds := GoodCs.initial hnd hfields hw
    obtain ⟨hd0nd, hd0w, hdslen, hd0self, _⟩ := delim_facts hnd hfields hw
    have hfn := fields_nodup hnd
    rw [hfields] at hfn
    have hA := i0.wire_length_pos
    have hAK : K ≤ i0.wire.length * K := by
      have := Nat.mul_le_mul_right K hA
      omega
    -- lengths
    have hl1 : (wireL is ++ wireLL ((i0 :: r) :: es')).length =
        (wireL is).length + (i0.wire.length + (wireL r ++ wireLL es').length) := by
      rw [wireLL_cons, wireL_cons]; simp only [List.length_append]; omega
    have hl2 : (wireL (i0 :: r) ++ wireLL es').length = i0.wire.length + (wireL r ++ wireLL es').length := by
      rw [wireL_cons]; simp only [List.length_append]; omega
    rw [hl1] at hn
    rw [hl1, Nat.add_mul, Nat.add_mul] at hf
    have key := groupLoop_entry hvis fd d0 ds hfields (wireL (i0 :: r) ++ (wireLL es' ++ tail))
      (by
        obtain ⟨w, hw0⟩ := i0.wire_cons
        intro f r' hl
        rw [wireL_cons, hw0] at hl
        simp only [List.cons_append, List.cons.injEq] at hl
        left; rw [← hl.1]; exact hi0)
      ((wireL (i0 :: r) ++ wireLL es').length * K + F) (by omega) (fun cnt => R (cnt + 1 + es'.length))
      (by
        intro cs' count' fuel' hopt _ hf'
        rw [hl2, Nat.add_mul] at hf'
        obtain ⟨w, hw0⟩ := i0.wire_cons
        obtain ⟨k, rfl⟩ : ∃ k, fuel' = k + 1 := ⟨fuel' - 1, by omega⟩
        have e1 : wireL (i0 :: r) ++ (wireLL es' ++ tail) =
            ⟨i0.tag, i0.headValue⟩ :: (w ++ (wireL r ++ (wireLL es' ++ tail))) := by
          rw [wireL_cons, hw0]; simp
        have e2 : (⟨i0.tag, i0.headValue⟩ : TV) :: (w ++ (wireL r ++ (wireLL es' ++ tail))) =
            i0.wire ++ (wireL r ++ (wireLL es' ++ tail)) := by rw [hw0]; simp
        have step := groupLoop_start true k fd d0 ds ⟨i0.tag, i0.headValue⟩ (w ++ (wireL r ++ (wireLL es' ++ tail)))
          cs' count' hfields hi0 hopt
        have hv := hvis d0 i0 (wireL r ++ (wireLL es' ++ tail)) k (by omega) hinst0 hd0w hd0nd
          (headNotIn_next fd d0 d0 ds r (wireLL es' ++ tail) hfn (fun t ht => by rw [hfields]; exact ht) hd0self
            (fun j js e => entryOK_head_tag ds j js (e ▸ her)) (delimOrOut_entries es' hdel' htail)) (by omega)
        rw [e2, hv] at step
        dsimp only at step
        rw [e1, e2, step]
        apply ihes hdel' hok' ds r (count' + 1) k hgds her (by omega)
        omega)
      cs is count fuel hg he (by omega) (by rw [hl2, Nat.add_mul]; omega)
    rw [wireLL_cons, List.append_assoc, key]
    simp only [List.length_cons]
    congr 1
    omega

theorem GoodCs.nil (K : Nat) (fd d0 : FDef) (hK : 3 ≤ K) : GoodCs K fd d0 [] :=
  ⟨by simp [childTagsL], by simp [childTagsL], by simp [childTagsL], by simp [maxWidthL]; omega⟩

/-- the loop over all entries of a conforming group ends in front of `rest` having counted the entries -/
theorem groupLoop_conforming_aux {K n : Nat} (hvis : VisitOK K n) (fd d0 : FDef) (ds : List FDef)
    (hfields : fd.fields = d0 :: ds) (hnd : fd.TagsNodup) (hw : fd.maxWidth + 3 ≤ K) (rest : List TV)
    (hrest : HeadNotIn fd.childTags rest) (es : List (List Inst))
    (hdel : ∀ e ∈ es, ∃ i0 r, e = i0 :: r ∧ i0.tag = d0.tag) (hents : ∀ e ∈ es, EntryOK (d0 :: ds) e)
    (hlen : (wireLL es).length ≤ n) (fuel : Nat) (hf : (wireLL es).length * K + 1 ≤ fuel) :
    groupLoopW true fuel fd (wireLL es ++ rest) [] 0 = .ok (rest, es.length) := by
  have hrest' : HeadNotIn (childTagsL fd.fields) rest := by rw [← childTags_eq]; exact hrest
  have hloop := groupLoop_entries hvis fd d0 ds hfields hnd hw rest (fun f r hl => Or.inr (hrest' f r hl)) 1
    (Nat.le_refl 1) (fun cnt => .ok (rest, cnt))
    (fun cs' count' fuel' hopt hg hf' => groupLoop_tail_out true fd d0 ds hfields rest hrest' cs' count' fuel' hopt hg.sub hf')
    es hdel hents [] [] 0 fuel (GoodCs.nil K fd d0 (by omega)) (EntryOK.nil (by simp))
    (by simpa [wireL_nil] using hlen) (by simpa [wireL_nil] using hf)
  rw [wireL_nil, List.nil_append] at hloop
  rw [hloop]
  simp

theorem visitOK_all (K : Nat) : ∀ n, VisitOK K n := by
  intro n
  induction n with
  | zero =>
    intro fd i rest fuel hlen
    have := i.wire_length_pos
    omega
  | succ n ih =>
    intro fd i rest fuel hlen hok hw hnd hrest hf
    cases hok with
    | fld htag hplain =>
      simp only [Inst.wire, List.length_cons, List.length_nil] at hf
      obtain ⟨k, rfl⟩ : ∃ k, fuel = k + 1 := ⟨fuel - 1, by omega⟩
      rw [visitField_plain true k fd _ hplain]
      simp [Inst.wire]
    | grp htag hfields hcount hdel hents =>
      rename_i t c es d0 ds
      have hgrp : fd.isGroup = true := by simp [FDef.isGroup, hfields]
      simp only [Inst.wire, List.length_cons] at hlen hf
      rw [Nat.add_mul] at hf
      obtain ⟨k, rfl⟩ : ∃ k, fuel = k + 2 := ⟨fuel - 2, by omega⟩
      have hloop := groupLoop_conforming_aux ih fd d0 ds hfields hnd hw rest hrest es hdel hents (by omega) k (by omega)
      simp only [Inst.wire, List.cons_append]
      rw [visitField_group true k fd _ _ hgrp]
      simp only [hcount, hloop]
      simp

/--
  A conforming instance is consumed exactly: the walk of definition `fd` over the wire fields of an instance of `fd`
  returns what follows, provided the following field (if any) is not a member tag of `fd` and the fuel is at least
  (wire fields of the instance) × `K`, `K` ≥ the longest member list of the definition tree + 3.
-/
theorem visitField_conforming (K : Nat) (fd : FDef) (i : Inst) (rest : List TV) (fuel : Nat) (hok : InstOK fd i)
    (hw : fd.maxWidth + 3 ≤ K) (hnd : fd.TagsNodup) (hrest : HeadNotIn fd.childTags rest)
    (hf : i.wire.length * K ≤ fuel) : visitField fuel fd (i.wire ++ rest) = .ok rest :=
  visitOK_all K i.wire.length fd i rest fuel (Nat.le_refl _) hok hw hnd hrest hf

theorem groupLoop_conforming (K : Nat) (fd d0 : FDef) (ds : List FDef)
    (hfields : fd.fields = d0 :: ds) (hnd : fd.TagsNodup) (hw : fd.maxWidth + 3 ≤ K) (rest : List TV)
    (hrest : HeadNotIn fd.childTags rest) (es : List (List Inst))
    (hdel : ∀ e ∈ es, ∃ i0 r, e = i0 :: r ∧ i0.tag = d0.tag) (hents : ∀ e ∈ es, EntryOK (d0 :: ds) e)
    (fuel : Nat) (hf : (wireLL es).length * K + 1 ≤ fuel) :
    groupLoop fuel fd (wireLL es ++ rest) [] 0 = .ok (rest, es.length) :=
  groupLoop_conforming_aux (visitOK_all K _) fd d0 ds hfields hnd hw rest hrest es hdel hents (Nat.le_refl _) fuel hf

/-- the counter reads as a number other than the number of entries: reason 16 at the counter's tag -/
theorem visitField_count_mismatch (K : Nat) (fd d0 : FDef) (ds : List FDef) (t : Nat) (c : Bytes)
    (es : List (List Inst)) (rest : List TV) (fuel : Nat) (n : Int)
    (hfields : fd.fields = d0 :: ds) (hcount : readCount c = some n) (hn : n ≠ (es.length : Int))
    (hdel : ∀ e ∈ es, ∃ i0 r, e = i0 :: r ∧ i0.tag = d0.tag) (hents : ∀ e ∈ es, EntryOK (d0 :: ds) e)
    (hw : fd.maxWidth + 3 ≤ K) (hnd : fd.TagsNodup) (hrest : HeadNotIn fd.childTags rest)
    (hf : (Inst.grp t c es).wire.length * K ≤ fuel) :
    visitField fuel fd ((Inst.grp t c es).wire ++ rest) = rej 16 t := by
  have hgrp : fd.isGroup = true := by simp [FDef.isGroup, hfields]
  simp only [Inst.wire, List.length_cons] at hf
  rw [Nat.add_mul] at hf
  obtain ⟨k, rfl⟩ : ∃ k, fuel = k + 2 := ⟨fuel - 2, by omega⟩
  have hloop := groupLoop_conforming K fd d0 ds hfields hnd hw rest hrest es hdel hents k (by omega)
  simp only [Inst.wire, List.cons_append]
  show visitFieldW true (k + 2) fd _ = _
  rw [visitField_group true k fd _ _ hgrp]
  simp only [hcount]
  rw [show groupLoopW true k fd (wireLL es ++ rest) [] 0 = .ok (rest, es.length) from hloop]
  have : ¬ ((es.length : Int) = n) := fun e => hn e.symm
  simp [this]

/-- the counter does not read as a number: reason 6 at the counter's tag -/
theorem visitField_count_unreadable (fd : FDef) (cnt : TV) (st : List TV) (fuel : Nat) (hgrp : fd.isGroup = true)
    (hcount : readCount cnt.value = none) (hf : 2 ≤ fuel) : visitField fuel fd (cnt :: st) = rej 6 cnt.tag := by
  obtain ⟨k, rfl⟩ : ∃ k, fuel = k + 2 := ⟨fuel - 2, by omega⟩
  show visitFieldW true (k + 2) fd _ = _
  rw [visitField_group true k fd _ _ hgrp]
  simp only [hcount]

/-! ### the walk of a conforming message -/

/-- the top-level instances of (a prefix of) a message, each against the definition validateWalk finds for its tag; the
    field after an instance (a later instance's first field, or the head of `tail`) is not a member tag of that
    instance's definition -/
inductive WalkOK (tr : VDict) (body : MDef) (K : Nat) (tail : List TV) : List Inst → Prop
  | nil : WalkOK tr body K tail []
  | cons {i : Inst} {is : List Inst} {md : MDef} {fd : FDef} : defFor tr body i.tag = some md → md.field? i.tag = some fd →
      InstOK fd i → fd.TagsNodup → fd.maxWidth + 3 ≤ K → HeadNotIn fd.childTags (wireL is ++ tail) →
      WalkOK tr body K tail is → WalkOK tr body K tail (i :: is)

theorem walkLoop_defined_step (tr app : VDict) (s : Settings) (body : MDef) (k : Nat) (f : TV) (rest : List TV)
    (seen : List Nat) (md : MDef) (fd : FDef) (hd : defFor tr body f.tag = some md) (hfd : md.field? f.tag = some fd)
    (hns : f.tag ∉ seen) :
    walkLoop tr app s body (k + 1) (f :: rest) seen =
      match visitField k fd (f :: rest) with
      | .error e => .error e
      | .ok rest' => walkLoop tr app s body k rest' (f.tag :: seen) := by
  have hc : seen.contains f.tag = false := by simpa using hns
  simp only [defFor] at hd
  simp only [walkLoop, hd, hc, hfd]
  rfl

/-- the walk over conforming top-level instances only records their tags; what follows (`tail`) is handled by `hR` -/
theorem walkLoop_prefix (tr app : VDict) (s : Settings) (body : MDef) (K : Nat) (tail : List TV) (F : Nat) (hF : 1 ≤ F)
    (R : V Unit) : ∀ (is : List Inst) (fuel : Nat) (seen : List Nat), WalkOK tr body K tail is →
    (is.map Inst.tag).Nodup → (∀ i ∈ is, i.tag ∉ seen) →
    (∀ fuel', F ≤ fuel' → walkLoop tr app s body fuel' tail ((is.map Inst.tag).reverse ++ seen) = R) →
    (wireL is).length * K + F ≤ fuel → walkLoop tr app s body fuel (wireL is ++ tail) seen = R := by
  intro is
  induction is with
  | nil =>
    intro fuel seen _ _ _ hR hf
    have := hR fuel (by simp only [wireL_nil, List.length_nil] at hf; omega)
    simpa [wireL_nil] using this
  | cons i is' ih =>
    intro fuel seen hok hnd hseen hR hf
    cases hok with
    | cons hd hfd hinst hfnd hw hrest hok' =>
      rename_i md fd
      obtain ⟨w, hwi⟩ := i.wire_cons
      obtain ⟨k, rfl⟩ : ∃ k, fuel = k + 1 := ⟨fuel - 1, by omega⟩
      have hlen : (wireL (i :: is')).length = i.wire.length + (wireL is').length := by
        rw [wireL_cons, List.length_append]
      rw [hlen, Nat.add_mul] at hf
      have hA := i.wire_length_pos
      have hAK : K ≤ i.wire.length * K := by
        have := Nat.mul_le_mul_right K hA
        omega
      have e1 : wireL (i :: is') ++ tail = ⟨i.tag, i.headValue⟩ :: (w ++ (wireL is' ++ tail)) := by
        rw [wireL_cons, hwi]; simp
      have e2 : (⟨i.tag, i.headValue⟩ : TV) :: (w ++ (wireL is' ++ tail)) = i.wire ++ (wireL is' ++ tail) := by
        rw [hwi]; simp
      have step := walkLoop_defined_step tr app s body k ⟨i.tag, i.headValue⟩ (w ++ (wireL is' ++ tail)) seen md fd hd hfd
        (hseen i (List.mem_cons_self ..))
      have hv := visitField_conforming K fd i (wireL is' ++ tail) k hinst hw hfnd hrest (by omega)
      rw [e2, hv] at step
      dsimp only at step
      rw [e1, e2, step]
      simp only [List.map_cons, List.nodup_cons] at hnd
      apply ih k (i.tag :: seen) hok' hnd.2
      · intro j hj
        simp only [List.mem_cons, not_or]
        refine ⟨?_, hseen j (List.mem_cons_of_mem _ hj)⟩
        intro e
        exact hnd.1 (by rw [← e]; exact List.mem_map_of_mem hj)
      · intro fuel' hf'
        have := hR fuel' hf'
        simpa using this
      · omega

theorem walkLoop_conforming (tr app : VDict) (s : Settings) (body : MDef) (K : Nat) (is : List Inst) (fuel : Nat)
    (seen : List Nat) (hok : WalkOK tr body K [] is) (hnd : (is.map Inst.tag).Nodup) (hseen : ∀ i ∈ is, i.tag ∉ seen)
    (hf : (wireL is).length * K + 1 ≤ fuel) : walkLoop tr app s body fuel (wireL is) seen = .ok () := by
  have := walkLoop_prefix tr app s body K [] 1 (Nat.le_refl 1) (.ok ()) is fuel seen hok hnd hseen
    (by
      intro fuel' hf'
      obtain ⟨k, rfl⟩ : ∃ k, fuel' = k + 1 := ⟨fuel' - 1, by omega⟩
      simp [walkLoop]) hf
  simpa using this

/-- conforming top-level instances, then a field whose definition's walk stops with `e`: the walk stops with `e` -/
theorem walkLoop_first_error (tr app : VDict) (s : Settings) (body : MDef) (K : Nat) (is : List Inst) (f : TV)
    (rest : List TV) (md : MDef) (fd : FDef) (e : Stop) (N fuel : Nat)
    (hok : WalkOK tr body K (f :: rest) is) (hnd : (is.map Inst.tag).Nodup) (hnew : f.tag ∉ is.map Inst.tag)
    (hd : defFor tr body f.tag = some md) (hfd : md.field? f.tag = some fd)
    (hv : ∀ k, N ≤ k → visitField k fd (f :: rest) = .error e)
    (hf : (wireL is).length * K + (N + 1) ≤ fuel) :
    walkLoop tr app s body fuel (wireL is ++ f :: rest) [] = .error e := by
  apply walkLoop_prefix tr app s body K (f :: rest) (N + 1) (by omega) (.error e) is fuel [] hok hnd (by simp) ?_ hf
  intro fuel' hf'
  obtain ⟨k, rfl⟩ : ∃ k, fuel' = k + 1 := ⟨fuel' - 1, by omega⟩
  rw [walkLoop_defined_step tr app s body k f rest _ md fd hd hfd (by simpa using hnew), hv k (by omega)]

/-- a plain field as an instance -/
def TV.toInst (f : TV) : Inst := .fld f.tag f.value

theorem wireL_append (a b : List Inst) : wireL (a ++ b) = wireL a ++ wireL b := by
  induction a with
  | nil => simp [wireL_nil]
  | cons i r ih => simp [wireL_cons, ih]

theorem wireL_plain (fs : List TV) : wireL (fs.map TV.toInst) = fs := by
  induction fs with
  | nil => simp [wireL_nil]
  | cons f r ih => simp [wireL_cons, ih, TV.toInst, Inst.wire]

theorem map_tag_plain (fs : List TV) : (fs.map TV.toInst).map Inst.tag = fs.map (·.tag) := by
  induction fs with
  | nil => rfl
  | cons f r ih => simp [TV.toInst, Inst.tag]

/-- plain defined fields in front of conforming instances -/
theorem walkOK_plain_append (tr : VDict) (body : MDef) (K : Nat) (hK : 3 ≤ K) (tail : List TV) (is : List Inst)
    (hok : WalkOK tr body K tail is) :
    ∀ (fs : List TV), (∀ f ∈ fs, PlainDefined tr body f) → WalkOK tr body K tail (fs.map TV.toInst ++ is) := by
  intro fs
  induction fs with
  | nil => intro _; exact hok
  | cons f r ih =>
    intro hpl
    obtain ⟨md, fd, h1, h2, h3⟩ := hpl f (List.mem_cons_self ..)
    have hct := plain_childTags fd h3
    have hfl : fd.fields = [] := by
      cases hf : fd.fields with
      | nil => rfl
      | cons a b => simp [FDef.isGroup, hf] at h3
    have htag : fd.tag = f.tag := by
      have := List.find?_some h2
      simpa using this
    refine WalkOK.cons (md := md) (fd := fd) h1 h2 (InstOK.fld htag h3) ?_ ?_ ?_
      (ih (fun g hg => hpl g (List.mem_cons_of_mem _ hg)))
    · simp [FDef.TagsNodup, FDef.allTags, hct]
    · rw [maxWidth_eq, hfl]; simp [maxWidthL]; omega
    · intro g r' _; simp [hct]

theorem walkOK_body (tr : VDict) (body : MDef) (K : Nat) (tail : List TV) (tl : List Inst)
    (htl : WalkOK tr body K tail tl) :
    ∀ (is : List Inst), (∀ pre i post, is = pre ++ i :: post → ∃ md fd, defFor tr body i.tag = some md ∧
        md.field? i.tag = some fd ∧ InstOK fd i ∧ fd.TagsNodup ∧ fd.maxWidth + 3 ≤ K ∧
        HeadNotIn fd.childTags (wireL post ++ (wireL tl ++ tail))) → WalkOK tr body K tail (is ++ tl) := by
  intro is
  induction is with
  | nil => intro _; exact htl
  | cons i r ih =>
    intro h
    obtain ⟨md, fd, h1, h2, h3, h4, h5, h6⟩ := h [] i r rfl
    have h6' : HeadNotIn fd.childTags (wireL (r ++ tl) ++ tail) := by
      rw [wireL_append, List.append_assoc]; exact h6
    refine WalkOK.cons h1 h2 h3 h4 h5 h6' (ih ?_)
    intro pre j post e
    exact h (i :: pre) j post (by rw [e]; rfl)

/-! ### a required member without instance inside a group entry -/

theorem entryMissing_nil_find {d : FDef} {cs : List FDef} {l : List Inst} (h : EntryMissing d cs l) :
    l = [] → cs.find? (·.req) = some d := by
  induction h with
  | miss hreq _ => intro _; simp [hreq]
  | skip hreq _ ih => intro e; simp [hreq, ih e]
  | take _ _ _ => intro e; cases e

/-- the rest of an entry in which the required member `d` has no instance: `d` is named, whether the gap is noticed at a
    later member, at the delimiter of the next entry (the `fix:`) or at the field that follows the group -/
theorem groupLoop_entry_missing (K : Nat) (fd d0 : FDef) (ds : List FDef) (hfields : fd.fields = d0 :: ds) (d : FDef)
    (after : List TV) (hafter : DelimOrOut fd d0 after) (hne : after ≠ []) (hd0in : d0.tag ∈ childTagsL fd.fields) :
    ∀ {cs : List FDef} {is : List Inst}, EntryMissing d cs is → ∀ (count fuel : Nat), GoodCs K fd d0 cs →
      (wireL is).length * K + cs.length + 1 ≤ fuel →
      groupLoopW true fuel fd (wireL is ++ after) cs count = rej 1 d.tag := by
  intro cs is h
  induction h with
  | miss hreq he =>
    rename_i ds' is'
    intro count fuel hg hf
    obtain ⟨k, rfl⟩ : ∃ k, fuel = k + 1 := ⟨fuel - 1, by omega⟩
    have hn := hg.nodup
    rw [childTagsL_cons, List.nodup_append] at hn
    cases is' with
    | nil =>
      rw [wireL_nil, List.nil_append]
      cases after with
      | nil => exact absurd rfl hne
      | cons f r =>
        rcases hafter f r rfl with h | h
        · exact groupLoop_start_pending k fd d0 ds f r _ count d hfields h (by simp [hreq])
        · have h1 : f.tag ≠ d0.tag := fun e => h (e ▸ hd0in)
          have h2 : f.tag ≠ d.tag := fun e => h (e ▸ hg.sub _ (by
            rw [childTagsL_cons]; exact List.mem_append_left _ (tag_mem_allTags d)))
          rw [groupLoop_step true k fd d0 ds f r d ds' count hfields h1]
          simp [h2, hreq]
    | cons i is2 =>
      obtain ⟨w, hw⟩ := i.wire_cons
      have hin := entryOK_head_tag ds' i is2 he
      have h1 : i.tag ≠ d0.tag := fun e => hg.tail.nodelim (e ▸ hin)
      have h2 : i.tag ≠ d.tag := fun e => hn.2.2 _ (tag_mem_allTags d) _ hin e.symm
      have e1 : wireL (i :: is2) ++ after = ⟨i.tag, i.headValue⟩ :: (w ++ (wireL is2 ++ after)) := by
        rw [wireL_cons, hw]; simp
      rw [e1, groupLoop_step true k fd d0 ds _ _ d ds' count hfields h1]
      simp [h2, hreq]
  | skip hreq hm ih =>
    rename_i c cs' is'
    intro count fuel hg hf
    obtain ⟨k, rfl⟩ : ∃ k, fuel = k + 1 := ⟨fuel - 1, by omega⟩
    have hn := hg.nodup
    rw [childTagsL_cons, List.nodup_append] at hn
    simp only [List.length_cons] at hf
    cases is' with
    | nil =>
      rw [wireL_nil, List.nil_append]
      cases after with
      | nil => exact absurd rfl hne
      | cons f r =>
        rcases hafter f r rfl with h | h
        · exact groupLoop_start_pending k fd d0 ds f r _ count d hfields h
            (by simp [hreq, entryMissing_nil_find hm rfl])
        · have h1 : f.tag ≠ d0.tag := fun e => h (e ▸ hd0in)
          have h2 : f.tag ≠ c.tag := fun e => h (e ▸ hg.sub _ (by
            rw [childTagsL_cons]; exact List.mem_append_left _ (tag_mem_allTags c)))
          rw [groupLoop_step true k fd d0 ds f r c cs' count hfields h1]
          simp only [h2, if_false, hreq, Bool.false_eq_true]
          have := ih count k hg.tail (by simp only [wireL_nil, List.length_nil] at hf ⊢; omega)
          rw [wireL_nil, List.nil_append] at this
          exact this
    | cons i is2 =>
      obtain ⟨w, hw⟩ := i.wire_cons
      have hin := entryMissing_head_tag hm i is2 rfl
      have h1 : i.tag ≠ d0.tag := fun e => hg.tail.nodelim (e ▸ hin)
      have h2 : i.tag ≠ c.tag := fun e => hn.2.2 _ (tag_mem_allTags c) _ hin e.symm
      have e1 : wireL (i :: is2) ++ after = ⟨i.tag, i.headValue⟩ :: (w ++ (wireL is2 ++ after)) := by
        rw [wireL_cons, hw]; simp
      have step := groupLoop_step true k fd d0 ds ⟨i.tag, i.headValue⟩ (w ++ (wireL is2 ++ after)) c cs' count hfields h1
      simp only [h2, if_false, hreq, Bool.false_eq_true] at step
      rw [e1, step, ← e1]
      exact ih count k hg.tail (by omega)
  | take hinst hm ih =>
    rename_i c cs' i is'
    intro count fuel hg hf
    obtain ⟨w, hw⟩ := i.wire_cons
    have htag := instOK_tag hinst
    have hd : i.tag ≠ d0.tag := by rw [← htag]; exact hg.head_tag_ne
    obtain ⟨k, rfl⟩ : ∃ k, fuel = k + 1 := ⟨fuel - 1, by omega⟩
    have hlen : (wireL (i :: is')).length = i.wire.length + (wireL is').length := by
      rw [wireL_cons, List.length_append]
    rw [hlen, Nat.add_mul] at hf
    simp only [List.length_cons] at hf
    have e1 : wireL (i :: is') ++ after = ⟨i.tag, i.headValue⟩ :: (w ++ (wireL is' ++ after)) := by
      rw [wireL_cons, hw]; simp
    have e2 : (⟨i.tag, i.headValue⟩ : TV) :: (w ++ (wireL is' ++ after)) = i.wire ++ (wireL is' ++ after) := by
      rw [hw]; simp
    have step := groupLoop_step true k fd d0 ds ⟨i.tag, i.headValue⟩ (w ++ (wireL is' ++ after)) c cs' count hfields hd
    simp only [htag, if_true] at step
    have hv : visitFieldW true k c (i.wire ++ (wireL is' ++ after)) = .ok (wireL is' ++ after) :=
      visitField_conforming K c i (wireL is' ++ after) k hinst hg.head_width hg.head_nodup
        (headNotIn_next fd d0 c cs' is' after hg.nodup hg.sub hg.head_no_delim
          (fun j js e => entryMissing_head_tag hm j js e) hafter) (by omega)
    rw [e2, hv] at step
    dsimp only at step
    rw [e1, e2, step]
    exact ih count k hg.tail (by omega)

theorem wireLL_append (a b : List (List Inst)) : wireLL (a ++ b) = wireLL a ++ wireLL b := by
  induction a with
  | nil => simp [wireLL_nil]
  | cons e r ih => simp [wireLL_cons, ih]

/--
  A group whose entries `es1` conform, whose next entry `e` starts with the delimiter but lacks an instance of the
  REQUIRED member `d`, followed by anything that starts like an entry (`es2`) or by a field that is no member tag
  (`rest`), one of the two being there: reason 1 at `d`'s tag.
-/
theorem visitField_required_missing (K : Nat) (fd d0 : FDef) (ds : List FDef) (t : Nat) (c : Bytes)
    (es1 es2 : List (List Inst)) (e : List Inst) (d : FDef) (rest : List TV) (fuel : Nat) (n : Int)
    (hfields : fd.fields = d0 :: ds) (hcount : readCount c = some n)
    (hdel1 : ∀ e' ∈ es1, ∃ i0 r, e' = i0 :: r ∧ i0.tag = d0.tag) (hok1 : ∀ e' ∈ es1, EntryOK (d0 :: ds) e')
    (hdel : ∃ i0 r, e = i0 :: r ∧ i0.tag = d0.tag) (hmiss : EntryMissing d (d0 :: ds) e)
    (hdel2 : ∀ e' ∈ es2, ∃ i0 r, e' = i0 :: r ∧ i0.tag = d0.tag)
    (hrest : HeadNotIn fd.childTags rest) (hne : es2 ≠ [] ∨ rest ≠ [])
    (hw : fd.maxWidth + 3 ≤ K) (hnd : fd.TagsNodup)
    (hf : (Inst.grp t c (es1 ++ e :: es2)).wire.length * K ≤ fuel) :
    visitField fuel fd ((Inst.grp t c (es1 ++ e :: es2)).wire ++ rest) = rej 1 d.tag := by
  have hgrp : fd.isGroup = true := by simp [FDef.isGroup, hfields]
  obtain ⟨i0, r, rfl, hi0⟩ := hdel
  obtain ⟨hd0nd, hd0w, hdslen, hd0self, hd0in⟩ := delim_facts hnd hfields hw
  have hgds : GoodCs K fd d0 ds := GoodCs.initial hnd hfields hw
  have hfn := fields_nodup hnd
  rw [hfields] at hfn
  have hrest' : HeadNotIn (childTagsL fd.fields) rest := by rw [← childTags_eq]; exact hrest
  have hafter2 : DelimOrOut fd d0 (wireLL es2 ++ rest) :=
    delimOrOut_entries es2 hdel2 (fun f r hl => Or.inr (hrest' f r hl))
  have hne2 : wireLL es2 ++ rest ≠ [] := by
    rcases hne with h | h
    · cases es2 with
      | nil => exact absurd rfl h
      | cons e2 es2' =>
        obtain ⟨j0, r2, rfl, _⟩ := hdel2 _ (List.mem_cons_self ..)
        obtain ⟨w, hwj⟩ := j0.wire_cons
        rw [wireLL_cons, wireL_cons, hwj]; simp
    · simp [h]
  -- the bad entry is a `take` of the delimiter followed by the gap
  have ⟨hinst0, hmr⟩ : InstOK d0 i0 ∧ EntryMissing d ds r := by
    cases hmiss with
    | miss _ he' =>
      have := entryOK_head_tag ds i0 r he'
      exact absurd (hi0 ▸ this) hgds.nodelim
    | skip _ hm' =>
      have := entryMissing_head_tag hm' i0 r rfl
      exact absurd (hi0 ▸ this) hgds.nodelim
    | take h1 h2 => exact ⟨h1, h2⟩
  have hA := i0.wire_length_pos
  have hAK : K ≤ i0.wire.length * K := by
    have := Nat.mul_le_mul_right K hA
    omega
  have hl0 : (wireL (i0 :: r)).length = i0.wire.length + (wireL r).length := by rw [wireL_cons, List.length_append]
  have hwire : (Inst.grp t c (es1 ++ (i0 :: r) :: es2)).wire.length =
      1 + ((wireLL es1).length + ((i0.wire.length + (wireL r).length) + (wireLL es2).length)) := by
    simp only [Inst.wire, List.length_cons, wireLL_append, wireLL_cons, List.length_append, hl0]; omega
  rw [hwire, Nat.add_mul, Nat.add_mul, Nat.add_mul, Nat.add_mul] at hf
  obtain ⟨k, rfl⟩ : ∃ k, fuel = k + 2 := ⟨fuel - 2, by omega⟩
  have hloop := groupLoop_entries (visitOK_all K (wireL [] ++ wireLL es1).length) fd d0 ds hfields hnd hw
    (wireL (i0 :: r) ++ (wireLL es2 ++ rest))
    (by
      obtain ⟨w, hw0⟩ := i0.wire_cons
      intro f r' hl
      rw [wireL_cons, hw0] at hl
      simp only [List.cons_append, List.cons.injEq] at hl
      left; rw [← hl.1]; exact hi0)
    ((wireL (i0 :: r)).length * K + 1) (by omega) (fun _ => rej 1 d.tag)
    (by
      intro cs' count' fuel' hopt _ hf'
      rw [hl0, Nat.add_mul] at hf'
      obtain ⟨w, hw0⟩ := i0.wire_cons
      obtain ⟨k', rfl⟩ : ∃ k', fuel' = k' + 1 := ⟨fuel' - 1, by omega⟩
      have e1 : wireL (i0 :: r) ++ (wireLL es2 ++ rest) =
          ⟨i0.tag, i0.headValue⟩ :: (w ++ (wireL r ++ (wireLL es2 ++ rest))) := by
        rw [wireL_cons, hw0]; simp
      have e2 : (⟨i0.tag, i0.headValue⟩ : TV) :: (w ++ (wireL r ++ (wireLL es2 ++ rest))) =
          i0.wire ++ (wireL r ++ (wireLL es2 ++ rest)) := by rw [hw0]; simp
      have step := groupLoop_start true k' fd d0 ds ⟨i0.tag, i0.headValue⟩ (w ++ (wireL r ++ (wireLL es2 ++ rest)))
        cs' count' hfields hi0 hopt
      have hv : visitFieldW true k' d0 (i0.wire ++ (wireL r ++ (wireLL es2 ++ rest))) = .ok (wireL r ++ (wireLL es2 ++ rest)) :=
        visitField_conforming K d0 i0 _ k' hinst0 hd0w hd0nd
          (headNotIn_next fd d0 d0 ds r (wireLL es2 ++ rest) hfn (fun t ht => by rw [hfields]; exact ht) hd0self
            (fun j js e => entryMissing_head_tag hmr j js e) hafter2) (by omega)
      rw [e2, hv] at step
      dsimp only at step
      rw [e1, e2, step]
      exact groupLoop_entry_missing K fd d0 ds hfields d (wireLL es2 ++ rest) hafter2 hne2 hd0in hmr (count' + 1) k' hgds
        (by omega))
    es1 hdel1 hok1 [] [] 0 k (GoodCs.nil K fd d0 (by omega)) (EntryOK.nil (by simp)) (Nat.le_refl _)
    (by simp only [wireL_nil, List.nil_append, List.length_nil, hl0, Nat.add_mul]; omega)
  rw [wireL_nil, List.nil_append] at hloop
  simp only [Inst.wire, List.cons_append, wireLL_append, wireLL_cons, List.append_assoc]
  show visitFieldW true (k + 2) fd _ = _
  rw [visitField_group true k fd _ _ hgrp]
  simp only [hcount, hloop]
  rfl

/-! ### two adjacent plain members of a group entry in the wrong order -/

theorem entryOK_mem_tags : ∀ (cs : List FDef) (is : List Inst), EntryOK cs is → ∀ i ∈ is, i.tag ∈ childTagsL cs := by
  intro cs
  induction cs with
  | nil => intro is h; cases h; intro i hi; cases hi
  | cons c cs' ih =>
    intro is h i hi
    rw [childTagsL_cons]
    cases h with
    | nil _ => cases hi
    | skip _ h' _ => exact List.mem_append_right _ (ih _ h' i hi)
    | take h1 h2 =>
      rcases List.mem_cons.mp hi with e | hi'
      · exact List.mem_append_left _ (by rw [e, ← instOK_tag h1]; exact tag_mem_allTags c)
      · exact List.mem_append_right _ (ih _ h2 i hi')

theorem entrySwapped_cons {a : TV} {q : List Inst} {cs : List FDef} {l : List Inst} (h : EntrySwapped a q cs l) :
    ∃ i is, l = i :: is ∧ i.tag ∈ childTagsL cs := by
  induction h with
  | swap he => exact ⟨_, _, rfl, entryOK_mem_tags _ _ he _ (by simp)⟩
  | skip _ _ ih =>
    obtain ⟨i, is, e, hm⟩ := ih
    exact ⟨i, is, e, by rw [childTagsL_cons]; exact List.mem_append_right _ hm⟩
  | take h1 _ _ =>
    exact ⟨_, _, rfl, by rw [childTagsL_cons, ← instOK_tag h1]; exact List.mem_append_left _ (tag_mem_allTags _)⟩

theorem entrySwapped_a_tag {a : TV} {q : List Inst} {cs : List FDef} {l : List Inst} (h : EntrySwapped a q cs l) :
    a.tag ∈ childTagsL cs := by
  induction h with
  | swap he => exact entryOK_head_tag _ _ _ he
  | skip _ _ ih => rw [childTagsL_cons]; exact List.mem_append_right _ ih
  | take _ _ ih => rw [childTagsL_cons]; exact List.mem_append_right _ ih

theorem headNotIn_cons (c : FDef) (cs' : List FDef) (i : Inst) (is : List Inst) (after : List TV)
    (hnd : (childTagsL (c :: cs')).Nodup) (hin : i.tag ∈ childTagsL cs') :
    HeadNotIn c.childTags (wireL (i :: is) ++ after) := by
  intro f r hl hm
  rw [childTagsL_cons, List.nodup_append] at hnd
  obtain ⟨w, hw⟩ := i.wire_cons
  rw [wireL_cons, hw] at hl
  simp only [List.cons_append, List.cons.injEq] at hl
  have e : f.tag = i.tag := by rw [← hl.1]
  exact hnd.2.2 f.tag (childTags_sub_allTags c hm) i.tag hin e

/-- what the group loop answers from the swapped pair on: a required member is named, or the group is declared complete in
    front of the displaced field `a` -/
def SwapOutcome (a : TV) (st : List TV) (R : Nat → V (List TV × Nat)) : Prop :=
  (∃ t, R = fun _ => rej 1 t) ∨ R = fun c => .ok (a :: st, c)

/-- a field whose tag is none of the remaining member tags (nor the delimiter) -/
theorem groupLoop_foreign (fd d0 : FDef) (ds : List FDef) (hfields : fd.fields = d0 :: ds) (a : TV) (st : List TV)
    (hd0 : a.tag ≠ d0.tag) : ∀ (cs : List FDef), a.tag ∉ childTagsL cs →
    ∃ R, SwapOutcome a st R ∧ ∀ count fuel, cs.length + 1 ≤ fuel → groupLoopW true fuel fd (a :: st) cs count = R count := by
  intro cs
  induction cs with
  | nil =>
    intro _
    refine ⟨fun c => .ok (a :: st, c), Or.inr rfl, fun count fuel hf => ?_⟩
    obtain ⟨k, rfl⟩ : ∃ k, fuel = k + 1 := ⟨fuel - 1, by omega⟩
    exact groupLoop_done true k fd d0 ds a st count hfields hd0
  | cons c cs' ih =>
    intro hnot
    rw [childTagsL_cons] at hnot
    have hc : a.tag ≠ c.tag := fun e => hnot (List.mem_append_left _ (e ▸ tag_mem_allTags c))
    cases hreq : c.req with
    | true =>
      refine ⟨fun _ => rej 1 c.tag, Or.inl ⟨c.tag, rfl⟩, fun count fuel hf => ?_⟩
      obtain ⟨k, rfl⟩ : ∃ k, fuel = k + 1 := ⟨fuel - 1, by omega⟩
      rw [groupLoop_step true k fd d0 ds a st c cs' count hfields hd0]
      simp [hc, hreq]
    | false =>
      obtain ⟨R, hR, h⟩ := ih (fun hm => hnot (List.mem_append_right _ hm))
      refine ⟨R, hR, fun count fuel hf => ?_⟩
      obtain ⟨k, rfl⟩ : ∃ k, fuel = k + 1 := ⟨fuel - 1, by omega⟩
      rw [groupLoop_step true k fd d0 ds a st c cs' count hfields hd0]
      simp only [hc, if_false, hreq, Bool.false_eq_true]
      exact h count k (by simp only [List.length_cons] at hf; omega)

/-- the field `b` (that should come second) against definitions among which `a`'s is no more -/
theorem groupLoop_swapped_second (K : Nat) (fd d0 : FDef) (ds : List FDef) (hfields : fd.fields = d0 :: ds) (a : TV)
    (tb : Nat) (vb : Bytes) (q : List Inst) (after : List TV) (hd0 : a.tag ≠ d0.tag) :
    ∀ (cs : List FDef), GoodCs K fd d0 cs → a.tag ∉ childTagsL cs → EntryOK cs (.fld tb vb :: q) →
    ∃ R, SwapOutcome a (wireL q ++ after) R ∧ ∀ count fuel, cs.length + 2 ≤ fuel →
      groupLoopW true fuel fd (⟨tb, vb⟩ :: a :: (wireL q ++ after)) cs count = R count := by
  intro cs
  induction cs with
  | nil => intro _ _ he; cases he
  | cons c cs' ih =>
    intro hg hnot he
    have hnot' : a.tag ∉ childTagsL cs' := fun hm => hnot (by rw [childTagsL_cons]; exact List.mem_append_right _ hm)
    have hn := hg.nodup
    rw [childTagsL_cons, List.nodup_append] at hn
    cases he with
    | skip hreq he' hne =>
      have hin : tb ∈ childTagsL cs' := by simpa [Inst.tag] using entryOK_head_tag cs' _ _ he'
      have h1 : tb ≠ d0.tag := fun e => hg.tail.nodelim (e ▸ hin)
      have h2 : tb ≠ c.tag := by simpa [Inst.tag] using hne
      obtain ⟨R, hR, h⟩ := ih hg.tail hnot' he'
      refine ⟨R, hR, fun count fuel hf => ?_⟩
      obtain ⟨k, rfl⟩ : ∃ k, fuel = k + 1 := ⟨fuel - 1, by omega⟩
      rw [groupLoop_step true k fd d0 ds ⟨tb, vb⟩ _ c cs' count hfields h1]
      simp only [h2, if_false, hreq, Bool.false_eq_true]
      exact h count k (by simp only [List.length_cons] at hf; omega)
    | take hinst he' =>
      have htag : c.tag = tb := by simpa [Inst.tag] using instOK_tag hinst
      have hplain : c.isGroup = false := by cases hinst with | fld _ h => exact h
      have h1 : tb ≠ d0.tag := by rw [← htag]; exact hg.head_tag_ne
      obtain ⟨R, hR, h⟩ := groupLoop_foreign fd d0 ds hfields a (wireL q ++ after) hd0 cs' hnot'
      refine ⟨R, hR, fun count fuel hf => ?_⟩
      simp only [List.length_cons] at hf
      obtain ⟨k, rfl⟩ : ∃ k, fuel = k + 2 := ⟨fuel - 2, by omega⟩
      rw [groupLoop_step true (k + 1) fd d0 ds ⟨tb, vb⟩ _ c cs' count hfields h1]
      simp only [htag, if_true]
      rw [visitField_plain true k c _ hplain]
      simp only [List.drop_succ_cons, List.drop_zero]
      exact h count (k + 1) (by omega)

/-- the field `b` arrives where `a` is due -/
theorem groupLoop_swapped_first (K : Nat) (fd d0 : FDef) (ds : List FDef) (hfields : fd.fields = d0 :: ds) (a : TV)
    (tb : Nat) (vb : Bytes) (q : List Inst) (after : List TV) :
    ∀ (cs : List FDef), GoodCs K fd d0 cs → EntryOK cs (.fld a.tag a.value :: .fld tb vb :: q) →
    ∃ R, SwapOutcome a (wireL q ++ after) R ∧ ∀ count fuel, cs.length + 2 ≤ fuel →
      groupLoopW true fuel fd (⟨tb, vb⟩ :: a :: (wireL q ++ after)) cs count = R count := by
  intro cs
  induction cs with
  | nil => intro _ he; cases he
  | cons c cs' ih =>
    intro hg he
    have hn := hg.nodup
    rw [childTagsL_cons, List.nodup_append] at hn
    cases he with
    | skip hreq he' hne =>
      have hin : tb ∈ childTagsL cs' := by
        simpa [Inst.tag] using entryOK_mem_tags cs' _ he' (.fld tb vb) (by simp)
      have h1 : tb ≠ d0.tag := fun e => hg.tail.nodelim (e ▸ hin)
      have h2 : tb ≠ c.tag := fun e => hn.2.2 _ (tag_mem_allTags c) _ hin e.symm
      obtain ⟨R, hR, h⟩ := ih hg.tail he'
      refine ⟨R, hR, fun count fuel hf => ?_⟩
      obtain ⟨k, rfl⟩ : ∃ k, fuel = k + 1 := ⟨fuel - 1, by omega⟩
      rw [groupLoop_step true k fd d0 ds ⟨tb, vb⟩ _ c cs' count hfields h1]
      simp only [h2, if_false, hreq, Bool.false_eq_true]
      exact h count k (by simp only [List.length_cons] at hf; omega)
    | take hinst he' =>
      have htag : c.tag = a.tag := by simpa [Inst.tag] using instOK_tag hinst
      have hin : tb ∈ childTagsL cs' := by simpa [Inst.tag] using entryOK_head_tag cs' _ _ he'
      have h1 : tb ≠ d0.tag := fun e => hg.tail.nodelim (e ▸ hin)
      have h2 : tb ≠ c.tag := fun e => hn.2.2 _ (tag_mem_allTags c) _ hin e.symm
      have ha0 : a.tag ≠ d0.tag := by rw [← htag]; exact hg.head_tag_ne
      have hanot : a.tag ∉ childTagsL cs' := fun hm => hn.2.2 _ (tag_mem_allTags c) _ hm htag
      cases hreq : c.req with
      | true =>
        refine ⟨fun _ => rej 1 c.tag, Or.inl ⟨c.tag, rfl⟩, fun count fuel hf => ?_⟩
        obtain ⟨k, rfl⟩ : ∃ k, fuel = k + 1 := ⟨fuel - 1, by omega⟩
        rw [groupLoop_step true k fd d0 ds ⟨tb, vb⟩ _ c cs' count hfields h1]
        simp [h2, hreq]
      | false =>
        obtain ⟨R, hR, h⟩ := groupLoop_swapped_second K fd d0 ds hfields a tb vb q after ha0 cs' hg.tail hanot he'
        refine ⟨R, hR, fun count fuel hf => ?_⟩
        obtain ⟨k, rfl⟩ : ∃ k, fuel = k + 1 := ⟨fuel - 1, by omega⟩
        rw [groupLoop_step true k fd d0 ds ⟨tb, vb⟩ _ c cs' count hfields h1]
        simp only [h2, if_false, hreq, Bool.false_eq_true]
        exact h count k (by simp only [List.length_cons] at hf; omega)

/-- the rest of an entry that contains the swapped pair -/
theorem groupLoop_entry_swapped (K : Nat) (fd d0 : FDef) (ds : List FDef) (hfields : fd.fields = d0 :: ds) (a : TV)
    (q : List Inst) (after : List TV) :
    ∀ {cs : List FDef} {is : List Inst}, EntrySwapped a q cs is → GoodCs K fd d0 cs →
    ∃ R, SwapOutcome a (wireL q ++ after) R ∧ ∀ count fuel, (wireL is).length * K + cs.length + 2 ≤ fuel →
      groupLoopW true fuel fd (wireL is ++ after) cs count = R count := by
  intro cs is h
  induction h with
  | swap he =>
    rename_i cs tb vb
    intro hg
    obtain ⟨R, hR, h⟩ := groupLoop_swapped_first K fd d0 ds hfields a tb vb q after cs hg he
    refine ⟨R, hR, fun count fuel hf => ?_⟩
    have e1 : wireL (Inst.fld tb vb :: Inst.fld a.tag a.value :: q) ++ after = ⟨tb, vb⟩ :: a :: (wireL q ++ after) := by
      simp [wireL_cons, Inst.wire]
    rw [e1]
    exact h count fuel (by omega)
  | skip hreq hm ih =>
    rename_i c cs' is'
    intro hg
    obtain ⟨R, hR, h⟩ := ih hg.tail
    refine ⟨R, hR, fun count fuel hf => ?_⟩
    obtain ⟨i, is2, rfl, hin⟩ := entrySwapped_cons hm
    have hn := hg.nodup
    rw [childTagsL_cons, List.nodup_append] at hn
    obtain ⟨w, hw⟩ := i.wire_cons
    obtain ⟨k, rfl⟩ : ∃ k, fuel = k + 1 := ⟨fuel - 1, by omega⟩
    have h1 : i.tag ≠ d0.tag := fun e => hg.tail.nodelim (e ▸ hin)
    have h2 : i.tag ≠ c.tag := fun e => hn.2.2 _ (tag_mem_allTags c) _ hin e.symm
    have e1 : wireL (i :: is2) ++ after = ⟨i.tag, i.headValue⟩ :: (w ++ (wireL is2 ++ after)) := by
      rw [wireL_cons, hw]; simp
    have step := groupLoop_step true k fd d0 ds ⟨i.tag, i.headValue⟩ (w ++ (wireL is2 ++ after)) c cs' count hfields h1
    simp only [h2, if_false, hreq, Bool.false_eq_true] at step
    rw [e1, step, ← e1]
    exact h count k (by simp only [List.length_cons] at hf; omega)
  | take hinst hm ih =>
    rename_i c cs' i is'
    intro hg
    obtain ⟨R, hR, h⟩ := ih hg.tail
    refine ⟨R, hR, fun count fuel hf => ?_⟩
    obtain ⟨j, js, rfl, hjn⟩ := entrySwapped_cons hm
    obtain ⟨w, hw⟩ := i.wire_cons
    have htag := instOK_tag hinst
    have hd : i.tag ≠ d0.tag := by rw [← htag]; exact hg.head_tag_ne
    obtain ⟨k, rfl⟩ : ∃ k, fuel = k + 1 := ⟨fuel - 1, by omega⟩
    have hlen : (wireL (i :: j :: js)).length = i.wire.length + (wireL (j :: js)).length := by
      rw [wireL_cons, List.length_append]
    rw [hlen, Nat.add_mul] at hf
    simp only [List.length_cons] at hf
    have e1 : wireL (i :: j :: js) ++ after = ⟨i.tag, i.headValue⟩ :: (w ++ (wireL (j :: js) ++ after)) := by
      rw [wireL_cons, hw]; simp
    have e2 : (⟨i.tag, i.headValue⟩ : TV) :: (w ++ (wireL (j :: js) ++ after)) = i.wire ++ (wireL (j :: js) ++ after) := by
      rw [hw]; simp
    have step := groupLoop_step true k fd d0 ds ⟨i.tag, i.headValue⟩ (w ++ (wireL (j :: js) ++ after)) c cs' count hfields hd
    simp only [htag, if_true] at step
    have hv : visitFieldW true k c (i.wire ++ (wireL (j :: js) ++ after)) = .ok (wireL (j :: js) ++ after) :=
      visitField_conforming K c i _ k hinst hg.head_width hg.head_nodup
        (headNotIn_cons c cs' j js after hg.nodup hjn) (by omega)
    rw [e2, hv] at step
    dsimp only at step
    rw [e1, e2, step]
    exact h count k (by omega)

/--
  A group whose entries `es1` conform and whose next entry `e` has two adjacent plain members swapped (`a` the displaced
  one): the walk of the group names a required member (reason 1), or finds the count wrong (16), or declares the group
  complete in front of `a` — the same answer for every sufficient fuel.
-/
theorem visitField_member_swapped (K : Nat) (fd d0 : FDef) (ds : List FDef) (gt : Nat) (c : Bytes)
    (es1 es2 : List (List Inst)) (e : List Inst) (a : TV) (q : List Inst) (rest : List TV)
    (hfields : fd.fields = d0 :: ds) (hcount : readCount c = some ((es1 ++ e :: es2).length : Int))
    (hdel1 : ∀ e' ∈ es1, ∃ i0 r, e' = i0 :: r ∧ i0.tag = d0.tag) (hok1 : ∀ e' ∈ es1, EntryOK (d0 :: ds) e')
    (hdel : ∃ i0 r, e = i0 :: r ∧ i0.tag = d0.tag) (hsw : EntrySwapped a q (d0 :: ds) e)
    (hw : fd.maxWidth + 3 ≤ K) (hnd : fd.TagsNodup) :
    ∃ v, ((∃ t, v = rej 1 t) ∨ v = rej 16 gt ∨ v = .ok (a :: (wireL q ++ (wireLL es2 ++ rest)))) ∧
      ∀ fuel, (Inst.grp gt c (es1 ++ e :: es2)).wire.length * K ≤ fuel →
        visitField fuel fd ((Inst.grp gt c (es1 ++ e :: es2)).wire ++ rest) = v := by
  have hgrp : fd.isGroup = true := by simp [FDef.isGroup, hfields]
  obtain ⟨i0, r, rfl, hi0⟩ := hdel
  obtain ⟨hd0nd, hd0w, hdslen, hd0self, hd0in⟩ := delim_facts hnd hfields hw
  have hgds : GoodCs K fd d0 ds := GoodCs.initial hnd hfields hw
  have hfn := fields_nodup hnd
  rw [hfields] at hfn
  -- the entry is a `take` of the delimiter followed by the rest with the swapped pair
  have ⟨hinst0, hsr⟩ : InstOK d0 i0 ∧ EntrySwapped a q ds r := by
    cases hsw with
    | swap he =>
      rename_i tb vb
      have hi0' : tb = d0.tag := by simpa [Inst.tag] using hi0
      have hin : tb ∈ childTagsL ds := by
        cases he with
        | skip _ he' _ => simpa [Inst.tag] using entryOK_mem_tags ds _ he' (.fld tb vb) (by simp)
        | take _ h2 => simpa [Inst.tag] using entryOK_head_tag ds _ _ h2
      exact absurd (hi0' ▸ hin) hgds.nodelim
    | skip _ hm' =>
      obtain ⟨i, is, e, hin⟩ := entrySwapped_cons hm'
      simp only [List.cons.injEq] at e
      exact absurd (hi0 ▸ e.1 ▸ hin) hgds.nodelim
    | take h1 h2 => exact ⟨h1, h2⟩
  obtain ⟨R, hR, h⟩ := groupLoop_entry_swapped K fd d0 ds hfields a q (wireLL es2 ++ rest) hsr hgds
  obtain ⟨j, js, rfl, hjn⟩ := entrySwapped_cons hsr
  have hA := i0.wire_length_pos
  have hAK : K ≤ i0.wire.length * K := by
    have := Nat.mul_le_mul_right K hA
    omega
  have hl0 : (wireL (i0 :: j :: js)).length = i0.wire.length + (wireL (j :: js)).length := by
    rw [wireL_cons, List.length_append]
  have hwire : (Inst.grp gt c (es1 ++ (i0 :: j :: js) :: es2)).wire.length =
      1 + ((wireLL es1).length + ((i0.wire.length + (wireL (j :: js)).length) + (wireLL es2).length)) := by
    simp only [Inst.wire, List.length_cons, wireLL_append, wireLL_cons, List.length_append, hl0]; omega
  -- the loop
  have hL : ∀ k, (wireLL es1).length * K + (i0.wire.length * K + (wireL (j :: js)).length * K) + 1 ≤ k →
      groupLoopW true k fd (wireLL es1 ++ (wireL (i0 :: j :: js) ++ (wireLL es2 ++ rest))) [] 0 = R (0 + es1.length + 1) := by
    intro k hk
    have hloop := groupLoop_entries (visitOK_all K (wireL [] ++ wireLL es1).length) fd d0 ds hfields hnd hw
      (wireL (i0 :: j :: js) ++ (wireLL es2 ++ rest))
      (by
        obtain ⟨w, hw0⟩ := i0.wire_cons
        intro f r' hl
        rw [wireL_cons, hw0] at hl
        simp only [List.cons_append, List.cons.injEq] at hl
        left; rw [← hl.1]; exact hi0)
      ((wireL (i0 :: j :: js)).length * K + 1) (by omega) (fun cnt => R (cnt + 1))
      (by
        intro cs' count' fuel' hopt _ hf'
        rw [hl0, Nat.add_mul] at hf'
        obtain ⟨w, hw0⟩ := i0.wire_cons
        obtain ⟨k', rfl⟩ : ∃ k', fuel' = k' + 1 := ⟨fuel' - 1, by omega⟩
        have e1 : wireL (i0 :: j :: js) ++ (wireLL es2 ++ rest) =
            ⟨i0.tag, i0.headValue⟩ :: (w ++ (wireL (j :: js) ++ (wireLL es2 ++ rest))) := by
          rw [wireL_cons, hw0]; simp
        have e2 : (⟨i0.tag, i0.headValue⟩ : TV) :: (w ++ (wireL (j :: js) ++ (wireLL es2 ++ rest))) =
            i0.wire ++ (wireL (j :: js) ++ (wireLL es2 ++ rest)) := by rw [hw0]; simp
        have step := groupLoop_start true k' fd d0 ds ⟨i0.tag, i0.headValue⟩
          (w ++ (wireL (j :: js) ++ (wireLL es2 ++ rest))) cs' count' hfields hi0 hopt
        have hv : visitFieldW true k' d0 (i0.wire ++ (wireL (j :: js) ++ (wireLL es2 ++ rest))) =
            .ok (wireL (j :: js) ++ (wireLL es2 ++ rest)) :=
          visitField_conforming K d0 i0 _ k' hinst0 hd0w hd0nd (headNotIn_cons d0 ds j js _ hfn hjn) (by omega)
        rw [e2, hv] at step
        dsimp only at step
        rw [e1, e2, step]
        exact h (count' + 1) k' (by omega))
      es1 hdel1 hok1 [] [] 0 k (GoodCs.nil K fd d0 (by omega)) (EntryOK.nil (by simp)) (Nat.le_refl _)
      (by simp only [wireL_nil, List.nil_append, List.length_nil, hl0, Nat.add_mul]; omega)
    rw [wireL_nil, List.nil_append] at hloop
    exact hloop
  -- the group
  have hV : ∀ fuel, (Inst.grp gt c (es1 ++ (i0 :: j :: js) :: es2)).wire.length * K ≤ fuel →
      visitField fuel fd ((Inst.grp gt c (es1 ++ (i0 :: j :: js) :: es2)).wire ++ rest) =
        match R (0 + es1.length + 1) with
        | .error e => .error e
        | .ok (st', count) =>
          if (count : Int) ≠ ((es1 ++ (i0 :: j :: js) :: es2).length : Int) then rej 16 gt else .ok st' := by
    intro fuel hf
    rw [hwire, Nat.add_mul, Nat.add_mul, Nat.add_mul, Nat.add_mul] at hf
    obtain ⟨k, rfl⟩ : ∃ k, fuel = k + 2 := ⟨fuel - 2, by omega⟩
    simp only [Inst.wire, List.cons_append, wireLL_append, wireLL_cons, List.append_assoc]
    show visitFieldW true (k + 2) fd _ = _
    rw [visitField_group true k fd _ _ hgrp]
    simp only [hcount]
    rw [hL k (by omega)]
  rcases hR with ⟨t, rfl⟩ | rfl
  · exact ⟨rej 1 t, Or.inl ⟨t, rfl⟩, fun fuel hf => by rw [hV fuel hf]; rfl⟩
  · by_cases hes : es2 = []
    · refine ⟨.ok (a :: (wireL q ++ (wireLL es2 ++ rest))), Or.inr (Or.inr rfl), fun fuel hf => ?_⟩
      rw [hV fuel hf]
      have : ((0 + es1.length + 1 : Nat) : Int) = ((es1 ++ (i0 :: j :: js) :: es2).length : Int) := by
        rw [hes]; simp only [List.length_append, List.length_cons, List.length_nil]; omega
      simp only [this, ne_eq, not_true_eq_false, if_false]
    · refine ⟨rej 16 gt, Or.inr (Or.inl rfl), fun fuel hf => ?_⟩
      rw [hV fuel hf]
      have hpos : 0 < es2.length := List.length_pos_iff.mpr hes
      have : ((0 + es1.length + 1 : Nat) : Int) ≠ ((es1 ++ (i0 :: j :: js) :: es2).length : Int) := by
        simp only [List.length_append, List.length_cons]; omega
      simp only [this, ne_eq, not_false_eq_true, if_true]

/-- … on a top-level group of a message, undefined tags below 5000 not tolerated: the walk stops with reason 1, 16 or 2 -/
theorem walkLoop_member_swapped (tr app : VDict) (s : Settings) (body : MDef) (K : Nat) (pre : List Inst) (md md' : MDef)
    (fd d0 : FDef) (ds : List FDef) (gt : Nat) (c : Bytes) (es1 es2 : List (List Inst)) (e : List Inst) (a : TV)
    (q : List Inst) (rest : List TV)
    (hok : WalkOK tr body K ((Inst.grp gt c (es1 ++ e :: es2)).wire ++ rest) pre) (hnd : (pre.map Inst.tag).Nodup)
    (hnew : gt ∉ pre.map Inst.tag) (hanew : a.tag ∉ pre.map Inst.tag)
    (hd : defFor tr body gt = some md) (hfd : md.field? gt = some fd)
    (hda : defFor tr body a.tag = some md') (hua : md'.field? a.tag = none) (hca : checkFieldNotDefined s a.tag = false)
    (hfields : fd.fields = d0 :: ds) (hcount : readCount c = some ((es1 ++ e :: es2).length : Int))
    (hdel1 : ∀ e' ∈ es1, ∃ i0 r, e' = i0 :: r ∧ i0.tag = d0.tag) (hok1 : ∀ e' ∈ es1, EntryOK (d0 :: ds) e')
    (hdel : ∃ i0 r, e = i0 :: r ∧ i0.tag = d0.tag) (hsw : EntrySwapped a q (d0 :: ds) e)
    (hw : fd.maxWidth + 3 ≤ K) (hfnd : fd.TagsNodup) :
    ∃ r : Reject, (r.reason = 1 ∨ r.reason = 16 ∨ r.reason = 2) ∧
      ∀ fuel, ((wireL pre).length + (Inst.grp gt c (es1 ++ e :: es2)).wire.length) * K + 2 ≤ fuel →
        walkLoop tr app s body fuel (wireL pre ++ ((Inst.grp gt c (es1 ++ e :: es2)).wire ++ rest)) [] =
          .error (.reject r) := by
  obtain ⟨v, hv, hvis⟩ := visitField_member_swapped K fd d0 ds gt c es1 es2 e a q rest hfields hcount hdel1 hok1 hdel hsw
    hw hfnd
  generalize hW : (Inst.grp gt c (es1 ++ e :: es2)).wire.length = W at hvis ⊢
  clear hW
  have hwire : (Inst.grp gt c (es1 ++ e :: es2)).wire ++ rest = ⟨gt, c⟩ :: (wireLL (es1 ++ e :: es2) ++ rest) := by
    simp [Inst.wire]
  have hfdtag : fd.tag = gt := by
    have := List.find?_some hfd
    simpa using this
  have hagt : a.tag ≠ gt := by
    have h1 : a.tag ∈ childTagsL fd.fields := by rw [hfields]; exact entrySwapped_a_tag hsw
    have h2 := hfnd
    rw [FDef.TagsNodup, allTags_eq, List.nodup_cons] at h2
    intro e
    exact h2.1 (by rw [hfdtag, ← e]; exact h1)
  -- the answer of the walk in front of the group, as a function of the group's answer
  have key : ∀ (r : Reject), (v = .error (.reject r) ∨ (v = .ok (a :: (wireL q ++ (wireLL es2 ++ rest))) ∧ r = ⟨2, some a.tag⟩)) →
      ∀ fuel, ((wireL pre).length + W) * K + 2 ≤ fuel →
        walkLoop tr app s body fuel (wireL pre ++ ((Inst.grp gt c (es1 ++ e :: es2)).wire ++ rest)) [] =
          .error (.reject r) := by
    intro r hr fuel hf
    rw [Nat.add_mul] at hf
    apply walkLoop_prefix tr app s body K _ (W * K + 2) (by omega)
      (.error (.reject r)) pre fuel [] hok hnd (by simp) ?_ (by omega)
    intro fuel' hf'
    obtain ⟨k, rfl⟩ : ∃ k, fuel' = k + 2 := ⟨fuel' - 2, by omega⟩
    have hvk := hvis (k + 1) (by omega)
    rw [hwire] at hvk ⊢
    rw [walkLoop_defined_step tr app s body (k + 1) ⟨gt, c⟩ _ _ md fd hd hfd (by simpa using hnew), hvk]
    rcases hr with h | ⟨h, hr2⟩
    · rw [h]
    · rw [h]
      dsimp only
      rw [walkLoop_undefined_step tr app s body k a _ _ md' hda hua (by
        simp only [List.append_nil, List.mem_cons, List.mem_reverse, not_or]
        exact ⟨hagt, hanew⟩)]
      simp [hca, hr2, rej]
  rcases hv with ⟨t, h⟩ | h | h
  · exact ⟨⟨1, some t⟩, Or.inl rfl, key _ (Or.inl (by rw [h]; rfl))⟩
  · exact ⟨⟨16, some gt⟩, Or.inr (Or.inl rfl), key _ (Or.inl (by rw [h]; rfl))⟩
  · exact ⟨⟨2, some a.tag⟩, Or.inr (Or.inr rfl), key _ (Or.inr ⟨h, rfl⟩)⟩

end Qfx.Validate
