/-
  Non-vacuity witnesses for the dictionary-guided parse theorems: a concrete dictionary (NoPartyIDs 453 with nested NoPartySubIDs 802),
  a concrete member walk (two entries, one nested instance each) and a concrete run `Seg`.
-/
import Qfx.Lemmas.CodecDictSegs
import Qfx.Lemmas.CodecDictStack
namespace Qfx
open Qfx.Spec

/-! non-vacuity of `Walk2`: NoPartyIDs(453) with nested NoPartySubIDs(802), two entries with one nested instance each -/
def exCN : List DNode := [.mk 523 [], .mk 803 []]
def exC : List DNode := [.mk 448 [], .mk 447 [], .mk 802 exCN]
def exD : Dicts := { transport := none, app := some [([68], [.mk 11 [], .mk 453 exC, .mk 58 []])] }

theorem exNested : NestedGroup exD [68] 453 802 exC exCN :=
  ⟨⟨[([68], [.mk 11 [], .mk 453 exC, .mk 58 []])], [.mk 11 [], .mk 453 exC, .mk 58 []], .mk 453 exC, .mk 802 exCN,
     rfl, by simp [alFindB], by simp [dfind, DNode.tag], rfl, by simp [exC, dfind, DNode.tag], rfl⟩, rfl, rfl,
   by intro n hn; simp [exCN] at hn; rcases hn with e | e <;> subst e <;> rfl⟩

theorem exWire (t : Tag) (v : Bytes) (hv : ∀ c ∈ v, c ≠ SOH) (ht : inInt64 t) : IsWire (TagValue.init t v) :=
  canonTV_isWire _ (canon_init t v hv ht)

theorem exWalk2 : Walk2 exD [68] 453 exC .outer
    [TagValue.init 448 [97], TagValue.init 802 [49], TagValue.init 523 [120],
     TagValue.init 448 [98], TagValue.init 802 [49], TagValue.init 523 [121]] (.inner 802 exCN) := by
  have hng : NoGroupTag exD 448 := by
    intro msgs h p hp
    simp only [exD, Option.some.injEq] at h; subst h
    simp only [List.mem_singleton] at hp; subst hp
    simp [pathWalk, dfind, DNode.tag, exC]
  refine .leaf (exWire _ _ (by simp [SOH]) (by simp [inInt64, TagValue.init])) (by simp [isGroupMember, exC, DNode.tag, TagValue.init]) (by simp [pathWalk, dfind, exC, DNode.tag, DNode.children, TagValue.init]) ?_
  refine .start (CN := exCN) (exWire _ _ (by simp [SOH]) (by simp [inInt64, TagValue.init])) exNested ?_
  refine .inner (exWire _ _ (by simp [SOH]) (by simp [inInt64, TagValue.init])) (by simp [isGroupMember, exCN, DNode.tag, TagValue.init]) ?_
  refine .pop (exWire _ _ (by simp [SOH]) (by simp [inInt64, TagValue.init])) (by simp [isGroupMember, exCN, DNode.tag, TagValue.init])
    (by simp [isGroupMember, exC, DNode.tag, TagValue.init]) (by simp [pathWalk, dfind, exC, DNode.tag, DNode.children, TagValue.init])
    (by simp [isHeaderField, exD, Tag.isHeader, staticHeaderTags, TagValue.init]) (by simp [isTrailerField, exD, Tag.isTrailer, staticTrailerTags, TagValue.init]) hng ?_
  refine .start (CN := exCN) (exWire _ _ (by simp [SOH]) (by simp [inInt64, TagValue.init])) exNested ?_
  refine .inner (exWire _ _ (by simp [SOH]) (by simp [inInt64, TagValue.init])) (by simp [isGroupMember, exCN, DNode.tag, TagValue.init]) ?_
  exact .nil _


theorem exOuter : OuterGroup exD [68] 453 exC := exNested.outer

theorem exPlain (t : Tag) (v : Bytes) (hv : ∀ c ∈ v, c ≠ SOH) (ht : inInt64 t) (h10 : t ≠ 10) (h212 : t ≠ 212) (h9 : t ≠ 9) (h35 : t ≠ 35)
    (hng : NoGroupTag exD t) : PlainFields exD [TagValue.init t v] := by
  intro tv htv
  simp only [List.mem_singleton] at htv; subst htv
  exact ⟨exWire t v hv ht, h10, h212, h9, h35, hng⟩

theorem exNG (t : Tag) (h : t ≠ 453) : NoGroupTag exD t := by
  intro msgs hm p hp
  simp only [exD, Option.some.injEq] at hm; subst hm
  simp only [List.mem_singleton] at hp; subst hp
  have h' : ¬ (453 : Int) = t := fun e => h e.symm
  simp only [pathWalk, dfind, DNode.tag, DNode.children, h', if_false]
  by_cases h58 : (58 : Int) = t
  · simp [h58]
  · by_cases h11 : (11 : Int) = t
    · simp [h58, h11]
    · simp [h58, h11]

/-- a run: `11=a, 453=2, <the walk above>, 58=x` -/
theorem exSegOK : SegOK exD [68]
    ⟨[TagValue.init 11 [97]], TagValue.init 453 [50],
     [TagValue.init 448 [97], TagValue.init 802 [49], TagValue.init 523 [120],
      TagValue.init 448 [98], TagValue.init 802 [49], TagValue.init 523 [121]], TagValue.init 58 [120]⟩ where
  pre := exPlain 11 [97] (by simp [SOH]) (by simp [inInt64]) (by decide) (by decide) (by decide) (by decide) (exNG 11 (by decide))
  grp := ⟨exC, .inner 802 exCN, exOuter, exWalk2, by simp [isGroupMember, exC, DNode.tag, TagValue.init],
    by simp [GState.members, isGroupMember, exCN, DNode.tag, TagValue.init]⟩
  wg0 := exWire _ _ (by simp [SOH]) (by simp [inInt64])
  gh := by simp [isHeaderField, exD, Tag.isHeader, staticHeaderTags, TagValue.init]
  gt := by simp [isTrailerField, exD, Tag.isTrailer, staticTrailerTags, TagValue.init]
  z := exPlain 58 [120] (by simp [SOH]) (by simp [inInt64]) (by decide) (by decide) (by decide) (by decide) (exNG 58 (by decide))
  zh := by simp [isHeaderField, exD, Tag.isHeader, staticHeaderTags, TagValue.init]
  zt := by simp [isTrailerField, exD, Tag.isTrailer, staticTrailerTags, TagValue.init]


/-! ### three nesting levels (`WalkN`, `SegOKN`) -/

/-- three levels: 453 { 448, 447, 802 { 523, 803, 2376 { 2377 } } } -/
def exCNN : List DNode := [.mk 2377 []]
def exCN3 : List DNode := [.mk 523 [], .mk 803 [], .mk 2376 exCNN]
def exC3 : List DNode := [.mk 448 [], .mk 447 [], .mk 802 exCN3]
def exFs3 : List DNode := [.mk 11 [], .mk 453 exC3, .mk 58 []]
def exD3 : Dicts := { transport := none, app := some [([68], exFs3)] }

theorem exApp3 : AppMsg exD3 [68] exFs3 := ⟨_, rfl, by simp [alFindB]⟩

theorem exNG3 (t : Tag) (h : t ≠ 453) : NoGroupTag exD3 t := by
  intro msgs hm p hp
  simp only [exD3, Option.some.injEq] at hm; subst hm
  simp only [List.mem_singleton] at hp; subst hp
  have h' : ¬ (453 : Int) = t := fun e => h e.symm
  simp only [pathWalk, dfind, DNode.tag, DNode.children, exFs3, h', if_false]
  by_cases h58 : (58 : Int) = t
  · simp [h58]
  · by_cases h11 : (11 : Int) = t
    · simp [h58, h11]
    · simp [h58, h11]

/-- members: 448=a 802=1 523=x 2376=1 2377=q | 448=b (pop two levels) 802=1 523=y -/
theorem exWalkN : WalkN exD3 [(453, exC3)]
    [TagValue.init 448 [97], TagValue.init 802 [49], TagValue.init 523 [120], TagValue.init 2376 [49], TagValue.init 2377 [113],
     TagValue.init 448 [98], TagValue.init 802 [49], TagValue.init 523 [121]] [(453, exC3), (802, exCN3)] := by
  refine .step (st1 := [(453, exC3)]) (exWire _ _ (by simp [SOH]) (by simp [inInt64])) (fun h => by simp [lastGf, isGroupMember, exC3, DNode.tag, TagValue.init] at h) (by rfl) ?_
  refine .step (st1 := [(453, exC3), (802, exCN3)]) (exWire _ _ (by simp [SOH]) (by simp [inInt64])) (fun h => by simp [lastGf, isGroupMember, exC3, DNode.tag, TagValue.init] at h) (by rfl) ?_
  refine .step (st1 := [(453, exC3), (802, exCN3)]) (exWire _ _ (by simp [SOH]) (by simp [inInt64])) (fun h => by simp [lastGf, isGroupMember, exCN3, DNode.tag, TagValue.init] at h) (by rfl) ?_
  refine .step (st1 := [(453, exC3), (802, exCN3), (2376, exCNN)]) (exWire _ _ (by simp [SOH]) (by simp [inInt64])) (fun h => by simp [lastGf, isGroupMember, exCN3, DNode.tag, TagValue.init] at h) (by rfl) ?_
  refine .step (st1 := [(453, exC3), (802, exCN3), (2376, exCNN)]) (exWire _ _ (by simp [SOH]) (by simp [inInt64])) (fun h => by simp [lastGf, isGroupMember, exCNN, DNode.tag, TagValue.init] at h) (by rfl) ?_
  refine .step (st1 := [(453, exC3)]) (exWire _ _ (by simp [SOH]) (by simp [inInt64]))
    (fun _ => ⟨by simp [isHeaderField, exD3, Tag.isHeader, staticHeaderTags, TagValue.init], by simp [isTrailerField, exD3, Tag.isTrailer, staticTrailerTags, TagValue.init], exNG3 _ (by simp [TagValue.init])⟩) (by rfl) ?_
  refine .step (st1 := [(453, exC3), (802, exCN3)]) (exWire _ _ (by simp [SOH]) (by simp [inInt64])) (fun h => by simp [lastGf, isGroupMember, exC3, DNode.tag, TagValue.init] at h) (by rfl) ?_
  refine .step (st1 := [(453, exC3), (802, exCN3)]) (exWire _ _ (by simp [SOH]) (by simp [inInt64])) (fun h => by simp [lastGf, isGroupMember, exCN3, DNode.tag, TagValue.init] at h) (by rfl) ?_
  exact .nil _


theorem exPlain3 (t : Tag) (v : Bytes) (hv : ∀ c ∈ v, c ≠ SOH) (ht : inInt64 t) (h10 : t ≠ 10) (h212 : t ≠ 212) (h9 : t ≠ 9) (h35 : t ≠ 35)
    (hng : NoGroupTag exD3 t) : PlainFields exD3 [TagValue.init t v] := by
  intro tv htv
  simp only [List.mem_singleton] at htv; subst htv
  exact ⟨exWire t v hv ht, h10, h212, h9, h35, hng⟩

/-- a run with the three-level walk above: `11=a, 453=2, <members>, 58=x` -/
theorem exSegOKN : SegOKN exD3 [68] exFs3
    ⟨[TagValue.init 11 [97]], TagValue.init 453 [50],
     [TagValue.init 448 [97], TagValue.init 802 [49], TagValue.init 523 [120], TagValue.init 2376 [49], TagValue.init 2377 [113],
      TagValue.init 448 [98], TagValue.init 802 [49], TagValue.init 523 [121]], TagValue.init 58 [120]⟩ where
  pre := exPlain3 11 [97] (by simp [SOH]) (by simp [inInt64]) (by decide) (by decide) (by decide) (by decide) (exNG3 11 (by decide))
  grp := ⟨exC3, [(453, exC3), (802, exCN3)], by rfl, exWalkN, by rfl⟩
  wg0 := exWire _ _ (by simp [SOH]) (by simp [inInt64])
  gh := by simp [isHeaderField, exD3, Tag.isHeader, staticHeaderTags, TagValue.init]
  gt := by simp [isTrailerField, exD3, Tag.isTrailer, staticTrailerTags, TagValue.init]
  z := exPlain3 58 [120] (by simp [SOH]) (by simp [inInt64]) (by decide) (by decide) (by decide) (by decide) (exNG3 58 (by decide))
  zh := by simp [isHeaderField, exD3, Tag.isHeader, staticHeaderTags, TagValue.init]
  zt := by simp [isTrailerField, exD3, Tag.isTrailer, staticTrailerTags, TagValue.init]

end Qfx
