/-
  Non-vacuity witnesses for the dictionary-guided parse theorems: a concrete dictionary (NoPartyIDs 453 with nested NoPartySubIDs 802),
  a concrete member walk (two entries, one nested instance each) and a concrete run `Seg`.
-/
import Qfx.Lemmas.CodecDictSegs
import Qfx.Lemmas.CodecDictStack
import Qfx.Lemmas.CodecDictNest
import Qfx.Lemmas.CodecDictItems
import Qfx.Lemmas.CodecRoundDict
namespace Qfx
open Qfx.Spec

/-! non-vacuity of `Walk2`: NoPartyIDs(453) with nested NoPartySubIDs(802), two entries with one nested instance each -/
def exCN : List DNode := [.mk 523 [], .mk 803 []]
def exC : List DNode := [.mk 448 [], .mk 447 [], .mk 802 exCN]
def exD : Dicts := { transport := none, app := some [([68], [.mk 11 [], .mk 453 exC, .mk 58 []])] }

theorem exNested : NestedGroup exD [68] 453 802 exC exCN :=
  ⟨⟨[([68], [.mk 11 [], .mk 453 exC, .mk 58 []])], [.mk 11 [], .mk 453 exC, .mk 58 []], .mk 453 exC, .mk 802 exCN,
     rfl, by simp [alFindB], by simp [dfind, DNode.tag], rfl, by simp [exC, dfind, DNode.tag], rfl⟩, rfl, rfl,
   by intro n hn; simp [exCN] at hn; rcases hn with e | e <;> subst e <;> rfl⟩

theorem exWire (t : Tag) (v : Bytes) (hv : ∀ c ∈ v, c ≠ SOH) (ht : inInt64 t) : IsWire (TagValue.init t v) :=
  canonTV_isWire _ (canon_init t v hv ht)

theorem exWalk2 : Walk2 exD [68] 453 exC .outer
    [TagValue.init 448 [97], TagValue.init 802 [49], TagValue.init 523 [120],
     TagValue.init 448 [98], TagValue.init 802 [49], TagValue.init 523 [121]] (.inner 802 exCN) := by
  have hng : NoGroupTag exD 448 := by
    intro msgs h p hp
    simp only [exD, Option.some.injEq] at h; subst h
    simp only [List.mem_singleton] at hp; subst hp
    simp [pathWalk, dfind, DNode.tag, exC]
  refine .leaf (exWire _ _ (by simp [SOH]) (by simp [inInt64, TagValue.init])) (by simp [isGroupMember, exC, DNode.tag, TagValue.init]) (by simp [pathWalk, dfind, exC, DNode.tag, DNode.children, TagValue.init]) ?_
  refine .start (CN := exCN) (exWire _ _ (by simp [SOH]) (by simp [inInt64, TagValue.init])) exNested ?_
  refine .inner (exWire _ _ (by simp [SOH]) (by simp [inInt64, TagValue.init])) (by simp [isGroupMember, exCN, DNode.tag, TagValue.init]) ?_
  refine .pop (exWire _ _ (by simp [SOH]) (by simp [inInt64, TagValue.init])) (by simp [isGroupMember, exCN, DNode.tag, TagValue.init])
    (by simp [isGroupMember, exC, DNode.tag, TagValue.init]) (by simp [pathWalk, dfind, exC, DNode.tag, DNode.children, TagValue.init])
    (by simp [isHeaderField, exD, Tag.isHeader, staticHeaderTags, TagValue.init]) (by simp [isTrailerField, exD, Tag.isTrailer, staticTrailerTags, TagValue.init]) hng ?_
  refine .start (CN := exCN) (exWire _ _ (by simp [SOH]) (by simp [inInt64, TagValue.init])) exNested ?_
  refine .inner (exWire _ _ (by simp [SOH]) (by simp [inInt64, TagValue.init])) (by simp [isGroupMember, exCN, DNode.tag, TagValue.init]) ?_
  exact .nil _


theorem exOuter : OuterGroup exD [68] 453 exC := exNested.outer

theorem exPlain (t : Tag) (v : Bytes) (hv : ∀ c ∈ v, c ≠ SOH) (ht : inInt64 t) (h10 : t ≠ 10) (h212 : t ≠ 212) (h9 : t ≠ 9) (h35 : t ≠ 35)
    (hng : NoGroupTag exD t) : PlainFields exD [TagValue.init t v] := by
  intro tv htv
  simp only [List.mem_singleton] at htv; subst htv
  exact ⟨exWire t v hv ht, h10, h212, h9, h35, hng⟩

theorem exNG (t : Tag) (h : t ≠ 453) : NoGroupTag exD t := by
  intro msgs hm p hp
  simp only [exD, Option.some.injEq] at hm; subst hm
  simp only [List.mem_singleton] at hp; subst hp
  have h' : ¬ (453 : Int) = t := fun e => h e.symm
  simp only [pathWalk, dfind, DNode.tag, DNode.children, h', if_false]
  by_cases h58 : (58 : Int) = t
  · simp [h58]
  · by_cases h11 : (11 : Int) = t
    · simp [h58, h11]
    · simp [h58, h11]

/-- a run: `11=a, 453=2, <the walk above>, 58=x` -/
theorem exSegOK : SegOK exD [68]
    ⟨[TagValue.init 11 [97]], TagValue.init 453 [50],
     [TagValue.init 448 [97], TagValue.init 802 [49], TagValue.init 523 [120],
      TagValue.init 448 [98], TagValue.init 802 [49], TagValue.init 523 [121]], TagValue.init 58 [120]⟩ where
  pre := exPlain 11 [97] (by simp [SOH]) (by simp [inInt64]) (by decide) (by decide) (by decide) (by decide) (exNG 11 (by decide))
  grp := ⟨exC, .inner 802 exCN, exOuter, exWalk2, by simp [isGroupMember, exC, DNode.tag, TagValue.init],
    by simp [GState.members, isGroupMember, exCN, DNode.tag, TagValue.init]⟩
  wg0 := exWire _ _ (by simp [SOH]) (by simp [inInt64])
  gh := by simp [isHeaderField, exD, Tag.isHeader, staticHeaderTags, TagValue.init]
  gt := by simp [isTrailerField, exD, Tag.isTrailer, staticTrailerTags, TagValue.init]
  z := exPlain 58 [120] (by simp [SOH]) (by simp [inInt64]) (by decide) (by decide) (by decide) (by decide) (exNG 58 (by decide))
  zh := by simp [isHeaderField, exD, Tag.isHeader, staticHeaderTags, TagValue.init]
  zt := by simp [isTrailerField, exD, Tag.isTrailer, staticTrailerTags, TagValue.init]


/-! ### three nesting levels (`WalkN`, `SegOKN`) -/

/-- three levels: 453 { 448, 447, 802 { 523, 803, 2376 { 2377 } } } -/
def exCNN : List DNode := [.mk 2377 []]
def exCN3 : List DNode := [.mk 523 [], .mk 803 [], .mk 2376 exCNN]
def exC3 : List DNode := [.mk 448 [], .mk 447 [], .mk 802 exCN3]
def exFs3 : List DNode := [.mk 11 [], .mk 453 exC3, .mk 58 []]
def exD3 : Dicts := { transport := none, app := some [([68], exFs3)] }

theorem exApp3 : AppMsg exD3 [68] exFs3 := ⟨_, rfl, by simp [alFindB]⟩

theorem exNG3 (t : Tag) (h : t ≠ 453) : NoGroupTag exD3 t := by
  intro msgs hm p hp
  simp only [exD3, Option.some.injEq] at hm; subst hm
  simp only [List.mem_singleton] at hp; subst hp
  have h' : ¬ (453 : Int) = t := fun e => h e.symm
  simp only [pathWalk, dfind, DNode.tag, DNode.children, exFs3, h', if_false]
  by_cases h58 : (58 : Int) = t
  · simp [h58]
  · by_cases h11 : (11 : Int) = t
    · simp [h58, h11]
    · simp [h58, h11]

/-- members: 448=a 802=1 523=x 2376=1 2377=q | 448=b (pop two levels) 802=1 523=y -/
theorem exWalkN : WalkN exD3 [(453, exC3)]
    [TagValue.init 448 [97], TagValue.init 802 [49], TagValue.init 523 [120], TagValue.init 2376 [49], TagValue.init 2377 [113],
     TagValue.init 448 [98], TagValue.init 802 [49], TagValue.init 523 [121]] [(453, exC3), (802, exCN3)] := by
  refine .step (st1 := [(453, exC3)]) (exWire _ _ (by simp [SOH]) (by simp [inInt64])) (fun h => by simp [lastGf, isGroupMember, exC3, DNode.tag, TagValue.init] at h) (by rfl) ?_
  refine .step (st1 := [(453, exC3), (802, exCN3)]) (exWire _ _ (by simp [SOH]) (by simp [inInt64])) (fun h => by simp [lastGf, isGroupMember, exC3, DNode.tag, TagValue.init] at h) (by rfl) ?_
  refine .step (st1 := [(453, exC3), (802, exCN3)]) (exWire _ _ (by simp [SOH]) (by simp [inInt64])) (fun h => by simp [lastGf, isGroupMember, exCN3, DNode.tag, TagValue.init] at h) (by rfl) ?_
  refine .step (st1 := [(453, exC3), (802, exCN3), (2376, exCNN)]) (exWire _ _ (by simp [SOH]) (by simp [inInt64])) (fun h => by simp [lastGf, isGroupMember, exCN3, DNode.tag, TagValue.init] at h) (by rfl) ?_
  refine .step (st1 := [(453, exC3), (802, exCN3), (2376, exCNN)]) (exWire _ _ (by simp [SOH]) (by simp [inInt64])) (fun h => by simp [lastGf, isGroupMember, exCNN, DNode.tag, TagValue.init] at h) (by rfl) ?_
  refine .step (st1 := [(453, exC3)]) (exWire _ _ (by simp [SOH]) (by simp [inInt64]))
    (fun _ => ⟨by simp [isHeaderField, exD3, Tag.isHeader, staticHeaderTags, TagValue.init], by simp [isTrailerField, exD3, Tag.isTrailer, staticTrailerTags, TagValue.init], exNG3 _ (by simp [TagValue.init])⟩) (by rfl) ?_
  refine .step (st1 := [(453, exC3), (802, exCN3)]) (exWire _ _ (by simp [SOH]) (by simp [inInt64])) (fun h => by simp [lastGf, isGroupMember, exC3, DNode.tag, TagValue.init] at h) (by rfl) ?_
  refine .step (st1 := [(453, exC3), (802, exCN3)]) (exWire _ _ (by simp [SOH]) (by simp [inInt64])) (fun h => by simp [lastGf, isGroupMember, exCN3, DNode.tag, TagValue.init] at h) (by rfl) ?_
  exact .nil _


theorem exPlain3 (t : Tag) (v : Bytes) (hv : ∀ c ∈ v, c ≠ SOH) (ht : inInt64 t) (h10 : t ≠ 10) (h212 : t ≠ 212) (h9 : t ≠ 9) (h35 : t ≠ 35)
    (hng : NoGroupTag exD3 t) : PlainFields exD3 [TagValue.init t v] := by
  intro tv htv
  simp only [List.mem_singleton] at htv; subst htv
  exact ⟨exWire t v hv ht, h10, h212, h9, h35, hng⟩

/-- a run with the three-level walk above: `11=a, 453=2, <members>, 58=x` -/
theorem exSegOKN : SegOKN exD3 [68] exFs3
    ⟨[TagValue.init 11 [97]], TagValue.init 453 [50],
     [TagValue.init 448 [97], TagValue.init 802 [49], TagValue.init 523 [120], TagValue.init 2376 [49], TagValue.init 2377 [113],
      TagValue.init 448 [98], TagValue.init 802 [49], TagValue.init 523 [121]], TagValue.init 58 [120]⟩ where
  pre := exPlain3 11 [97] (by simp [SOH]) (by simp [inInt64]) (by decide) (by decide) (by decide) (by decide) (exNG3 11 (by decide))
  grp := ⟨exC3, [(453, exC3), (802, exCN3)], by rfl, exWalkN, by rfl⟩
  wg0 := exWire _ _ (by simp [SOH]) (by simp [inInt64])
  gh := by simp [isHeaderField, exD3, Tag.isHeader, staticHeaderTags, TagValue.init]
  gt := by simp [isTrailerField, exD3, Tag.isTrailer, staticTrailerTags, TagValue.init]
  z := exPlain3 58 [120] (by simp [SOH]) (by simp [inInt64]) (by decide) (by decide) (by decide) (by decide) (exNG3 58 (by decide))
  zh := by simp [isHeaderField, exD3, Tag.isHeader, staticHeaderTags, TagValue.init]
  zt := by simp [isTrailerField, exD3, Tag.isTrailer, staticTrailerTags, TagValue.init]


/-! ### the same three-level example, declaratively (`GroupWalk`, `TreeOK`, `SegNested`) -/

theorem ex_groupOf_C3 (t : Tag) (c : List DNode) (h : groupOf exC3 t = some c) : t = 802 ∧ c = exCN3 := by
  simp only [groupOf, exC3, dfind, DNode.tag] at h
  by_cases h1 : (802 : Int) = t
  · subst h1; simp [DNode.children, exCN3] at h; exact ⟨rfl, h.symm⟩
  · by_cases h2 : (447 : Int) = t
    · subst h2; simp [DNode.children] at h
    · by_cases h3 : (448 : Int) = t
      · subst h3; simp [DNode.children] at h
      · simp [h1, h2, h3] at h

theorem ex_groupOf_CN3 (t : Tag) (c : List DNode) (h : groupOf exCN3 t = some c) : t = 2376 ∧ c = exCNN := by
  simp only [groupOf, exCN3, dfind, DNode.tag] at h
  by_cases h1 : (2376 : Int) = t
  · subst h1; simp [DNode.children, exCNN] at h; exact ⟨rfl, h.symm⟩
  · by_cases h2 : (803 : Int) = t
    · subst h2; simp [DNode.children] at h
    · by_cases h3 : (523 : Int) = t
      · subst h3; simp [DNode.children] at h
      · simp [h1, h2, h3] at h

theorem ex_groupOf_CNN (t : Tag) (c : List DNode) (h : groupOf exCNN t = some c) : False := by
  simp only [groupOf, exCNN, dfind, DNode.tag] at h
  by_cases h1 : (2377 : Int) = t
  · subst h1; simp [DNode.children] at h
  · simp [h1] at h

theorem ex_below_CNN (C : List DNode) (h : Below exCNN C) : False := by
  cases h with
  | child hg => exact ex_groupOf_CNN _ _ hg
  | step hg _ => exact ex_groupOf_CNN _ _ hg

theorem ex_below_CN3 (C : List DNode) (h : Below exCN3 C) : C = exCNN := by
  cases h with
  | child hg => exact (ex_groupOf_CN3 _ _ hg).2
  | step hg hb => rw [(ex_groupOf_CN3 _ _ hg).2] at hb; exact absurd hb (ex_below_CNN _)

theorem ex_below_C3 (C : List DNode) (h : Below exC3 C) : C = exCN3 ∨ C = exCNN := by
  cases h with
  | child hg => exact Or.inl (ex_groupOf_C3 _ _ hg).2
  | step hg hb => rw [(ex_groupOf_C3 _ _ hg).2] at hb; exact Or.inr (ex_below_CN3 _ hb)

theorem ex_mem_C3 (t : Tag) (h : isGroupMember t exC3 = true) : 448 = t ∨ 447 = t ∨ 802 = t := by
  simp only [isGroupMember, exC3, List.any_cons, List.any_nil, DNode.tag, Bool.or_false, Bool.or_eq_true] at h
  rcases h with h | h | h
  · exact Or.inl (of_decide_eq_true h)
  · exact Or.inr (Or.inl (of_decide_eq_true h))
  · exact Or.inr (Or.inr (of_decide_eq_true h))

theorem ex_mem_CN3 (t : Tag) (h : isGroupMember t exCN3 = true) : 523 = t ∨ 803 = t ∨ 2376 = t := by
  simp only [isGroupMember, exCN3, List.any_cons, List.any_nil, DNode.tag, Bool.or_false, Bool.or_eq_true] at h
  rcases h with h | h | h
  · exact Or.inl (of_decide_eq_true h)
  · exact Or.inr (Or.inl (of_decide_eq_true h))
  · exact Or.inr (Or.inr (of_decide_eq_true h))

theorem ex_mem_CNN (t : Tag) (h : isGroupMember t exCNN = true) : 2377 = t := by
  simp only [isGroupMember, exCNN, List.any_cons, List.any_nil, DNode.tag, Bool.or_false] at h
  exact of_decide_eq_true h

theorem ex_side (t : Tag) (h : 448 = t ∨ 447 = t ∨ 802 = t ∨ 523 = t ∨ 803 = t ∨ 2376 = t ∨ 2377 = t) :
    isHeaderField exD3 t = false ∧ isTrailerField exD3 t = false ∧ NoGroupTag exD3 t := by
  rcases h with e | e | e | e | e | e | e <;> subst e <;>
    exact ⟨by simp [isHeaderField, exD3, Tag.isHeader, staticHeaderTags], by simp [isTrailerField, exD3, Tag.isTrailer, staticTrailerTags],
      exNG3 _ (by decide)⟩

theorem exTreeOK_of (d : Dicts)
    (ex_side : ∀ t : Tag, (448 = t ∨ 447 = t ∨ 802 = t ∨ 523 = t ∨ 803 = t ∨ 2376 = t ∨ 2377 = t) →
      isHeaderField d t = false ∧ isTrailerField d t = false ∧ NoGroupTag d t) : TreeOK d exC3 := by
  intro C1 h1 t ht
  have hC1 : C1 = exC3 ∨ C1 = exCN3 ∨ C1 = exCNN := by
    rcases h1 with e | e
    · exact Or.inl e
    · rcases ex_below_C3 _ e with e | e
      · exact Or.inr (Or.inl e)
      · exact Or.inr (Or.inr e)
  rcases hC1 with e | e | e
  · subst e
    have ht' := ex_mem_C3 t ht
    refine ⟨ex_side t (by rcases ht' with h | h | h <;> simp [h]), ?_⟩
    intro C2 hb
    rcases ex_below_C3 _ hb with e2 | e2 <;> subst e2 <;> rcases ht' with e | e | e <;> subst e <;> rfl
  · subst e
    have ht' := ex_mem_CN3 t ht
    refine ⟨ex_side t (by rcases ht' with h | h | h <;> simp [h]), ?_⟩
    intro C2 hb
    have e2 := ex_below_CN3 _ hb
    subst e2
    rcases ht' with e | e | e <;> subst e <;> rfl
  · subst e
    have ht' := ex_mem_CNN t ht
    refine ⟨ex_side t (by simp [ht']), ?_⟩
    intro C2 hb
    exact absurd hb (ex_below_CNN _)

theorem exTreeOK : TreeOK exD3 exC3 := exTreeOK_of exD3 ex_side

/-- the member sequence of `exWalkN`, this time as a well-nested sequence -/
theorem exGroupWalk : GroupWalk exC3
    [TagValue.init 448 [97], TagValue.init 802 [49], TagValue.init 523 [120], TagValue.init 2376 [49], TagValue.init 2377 [113],
     TagValue.init 448 [98], TagValue.init 802 [49], TagValue.init 523 [121]] := by
  have w : ∀ (t : Tag) (v : Bytes), (∀ c ∈ v, c ≠ SOH) → inInt64 t → IsWire (TagValue.init t v) := fun t v h1 h2 => exWire t v h1 h2
  refine .leaf (w _ _ (by simp [SOH]) (by simp [inInt64])) (by rfl) (by rfl) ?_
  refine GroupWalk.nest (CN := exCN3) (MN := [TagValue.init 523 [120], TagValue.init 2376 [49], TagValue.init 2377 [113]])
    (w _ _ (by simp [SOH]) (by simp [inInt64])) (by rfl) ?_ ?_
  · refine .leaf (w _ _ (by simp [SOH]) (by simp [inInt64])) (by rfl) (by rfl) ?_
    refine GroupWalk.nest (CN := exCNN) (MN := [TagValue.init 2377 [113]]) (r := []) (w _ _ (by simp [SOH]) (by simp [inInt64])) (by rfl) ?_ (.nil _)
    exact .leaf (w _ _ (by simp [SOH]) (by simp [inInt64])) (by rfl) (by rfl) (.nil _)
  · refine .leaf (w _ _ (by simp [SOH]) (by simp [inInt64])) (by rfl) (by rfl) ?_
    refine GroupWalk.nest (CN := exCN3) (MN := [TagValue.init 523 [121]]) (r := []) (w _ _ (by simp [SOH]) (by simp [inInt64])) (by rfl) ?_ (.nil _)
    exact .leaf (w _ _ (by simp [SOH]) (by simp [inInt64])) (by rfl) (by rfl) (.nil _)

theorem exSegNested : SegNested exD3 exFs3
    ⟨[TagValue.init 11 [97]], TagValue.init 453 [50],
     [TagValue.init 448 [97], TagValue.init 802 [49], TagValue.init 523 [120], TagValue.init 2376 [49], TagValue.init 2377 [113],
      TagValue.init 448 [98], TagValue.init 802 [49], TagValue.init 523 [121]], TagValue.init 58 [120]⟩ where
  pre := exSegOKN.pre
  grp := ⟨exC3, by rfl, exGroupWalk, exTreeOK, by rfl, by
    intro C' hb
    rcases ex_below_C3 _ hb with e | e <;> subst e <;> rfl⟩
  wg0 := exSegOKN.wg0
  gh := exSegOKN.gh
  gt := exSegOKN.gt
  z := exSegOKN.z
  zh := exSegOKN.zh
  zt := exSegOKN.zt



/-! ### a whole message as an `ItemsN` sequence: plain field, three-level group 453, DIRECTLY the flat group 78, DIRECTLY a user-defined
    trailer field (5050, known to the transport dictionary only), then CheckSum -/

def ex78C : List DNode := [.mk 79 [], .mk 80 []]
def exFs5 : List DNode := [.mk 11 [], .mk 453 exC3, .mk 78 ex78C, .mk 58 []]
/-- transport dictionary with the user-defined header tag 10030 and trailer tag 5050; application dictionary with two groups -/
def exD5 : Dicts := { transport := some ([10030], [5050]), app := some [([68], exFs5)] }

theorem exApp5 : AppMsg exD5 [68] exFs5 := ⟨_, rfl, by simp [alFindB]⟩

theorem exNG5 (t : Tag) (h1 : t ≠ 453) (h2 : t ≠ 78) : NoGroupTag exD5 t := by
  intro msgs hm p hp
  simp only [exD5, Option.some.injEq] at hm; subst hm
  simp only [List.mem_singleton] at hp; subst hp
  have h1' : ¬ (453 : Int) = t := fun e => h1 e.symm
  have h2' : ¬ (78 : Int) = t := fun e => h2 e.symm
  simp only [pathWalk, dfind, DNode.tag, DNode.children, exFs5, h1', h2', if_false]
  by_cases h58 : (58 : Int) = t
  · simp [h58]
  · by_cases h11 : (11 : Int) = t
    · simp [h58, h11]
    · simp [h58, h11]

theorem ex_side5 (t : Tag) (h : 448 = t ∨ 447 = t ∨ 802 = t ∨ 523 = t ∨ 803 = t ∨ 2376 = t ∨ 2377 = t) :
    isHeaderField exD5 t = false ∧ isTrailerField exD5 t = false ∧ NoGroupTag exD5 t := by
  rcases h with e | e | e | e | e | e | e <;> subst e <;>
    exact ⟨by simp [isHeaderField, exD5, Tag.isHeader, staticHeaderTags], by simp [isTrailerField, exD5, Tag.isTrailer, staticTrailerTags],
      exNG5 _ (by decide) (by decide)⟩

theorem ex_groupOf_78 (t : Tag) (c : List DNode) (h : groupOf ex78C t = some c) : False := by
  simp only [groupOf, ex78C, dfind, DNode.tag] at h
  by_cases h1 : (80 : Int) = t
  · subst h1; simp [DNode.children] at h
  · by_cases h2 : (79 : Int) = t
    · subst h2; simp [DNode.children] at h
    · simp [h1, h2] at h

theorem ex_below_78 (C : List DNode) (h : Below ex78C C) : False := by
  cases h with
  | child hg => exact ex_groupOf_78 _ _ hg
  | step hg _ => exact ex_groupOf_78 _ _ hg

theorem exTreeOK78 : TreeOK exD5 ex78C := by
  intro C1 h1 t ht
  rcases h1 with e | e
  · subst e
    have ht' : 79 = t ∨ 80 = t := by
      simp only [isGroupMember, ex78C, List.any_cons, List.any_nil, DNode.tag, Bool.or_false, Bool.or_eq_true] at ht
      rcases ht with h | h
      · exact Or.inl (of_decide_eq_true h)
      · exact Or.inr (of_decide_eq_true h)
    refine ⟨?_, fun C2 hb => absurd hb (ex_below_78 _)⟩
    rcases ht' with e | e <;> subst e <;>
      exact ⟨by simp [isHeaderField, exD5, Tag.isHeader, staticHeaderTags], by simp [isTrailerField, exD5, Tag.isTrailer, staticTrailerTags],
        exNG5 _ (by decide) (by decide)⟩
  · exact absurd e (ex_below_78 _)

theorem exNotListed3 (t : Tag) (h : ∀ x : Tag, (448 = x ∨ 447 = x ∨ 802 = x ∨ 523 = x ∨ 803 = x ∨ 2376 = x ∨ 2377 = x) → x ≠ t) :
    NotListed exC3 t := by
  have hne : ∀ C, (C = exC3 ∨ C = exCN3 ∨ C = exCNN) → isGroupMember t C = false := by
    intro C hC
    cases hm : isGroupMember t C with
    | false => rfl
    | true =>
      exfalso
      rcases hC with e | e | e <;> subst e
      · rcases ex_mem_C3 t hm with e | e | e <;> exact h t (by simp [e]) rfl
      · rcases ex_mem_CN3 t hm with e | e | e <;> exact h t (by simp [e]) rfl
      · exact h t (by simp [ex_mem_CNN t hm]) rfl
  refine ⟨hne _ (Or.inl rfl), fun C' hb => ?_⟩
  rcases ex_below_C3 _ hb with e | e
  · exact hne _ (Or.inr (Or.inl e))
  · exact hne _ (Or.inr (Or.inr e))

theorem exItemsN : ItemsN exD5 exFs5 none
    [.plain (TagValue.init 11 [97]),
     .group (TagValue.init 453 [50])
       [TagValue.init 448 [97], TagValue.init 802 [49], TagValue.init 523 [120], TagValue.init 2376 [49], TagValue.init 2377 [113],
        TagValue.init 448 [98], TagValue.init 802 [49], TagValue.init 523 [121]],
     .group (TagValue.init 78 [49]) [TagValue.init 79 [120]],
     .plain (TagValue.init 5050 [72])] none := by
  refine .plainMain ⟨exWire _ _ (by simp [SOH]) (by simp [inInt64]), by decide, by decide, by decide, by decide, exNG5 11 (by decide) (by decide)⟩ ?_
  refine .groupMain (C := exC3) (exWire _ _ (by simp [SOH]) (by simp [inInt64]))
    (by simp [isHeaderField, exD5, Tag.isHeader, staticHeaderTags, TagValue.init])
    (by simp [isTrailerField, exD5, Tag.isTrailer, staticTrailerTags, TagValue.init]) (by rfl) exGroupWalk (exTreeOK_of exD5 ex_side5) ?_
  refine .groupAdj (C := ex78C) (exWire _ _ (by simp [SOH]) (by simp [inInt64]))
    (by simp [isHeaderField, exD5, Tag.isHeader, staticHeaderTags, TagValue.init])
    (by simp [isTrailerField, exD5, Tag.isTrailer, staticTrailerTags, TagValue.init])
    (exNotListed3 _ (by intro x hx; rcases hx with e | e | e | e | e | e | e <;> subst e <;> decide)) (by rfl)
    (.leaf (exWire _ _ (by simp [SOH]) (by simp [inInt64])) (by rfl) (by rfl) (.nil _)) exTreeOK78 ?_
  refine .plainExit (exWire _ _ (by simp [SOH]) (by simp [inInt64])) (by decide) (by decide) (by decide) (by decide)
    ⟨by rfl, fun C' hb => absurd hb (ex_below_78 _)⟩
    (Or.inr (Or.inl (by simp [isTrailerField, exD5, TagValue.init]))) (.nil _)


/-! ### witnesses for the hypotheses of the end-to-end round trip (`C13_roundtrip_dict`): template ↔ dictionary, conforming API entries -/

/-- the template of the three-level example dictionary tree `exC3` -/
def exTmpl3 : List Item := [.elem 448, .elem 447, .group 802 [.elem 523, .elem 803, .group 2376 [.elem 2377]]]

theorem exTmplDict : TmplDict exTmpl3 exC3 :=
  .elem (by rfl) (by rfl) (.elem (by rfl) (by rfl) (.group (CN := exCN3) (by rfl)
    (.elem (by rfl) (by rfl) (.elem (by rfl) (by rfl) (.group (CN := exCNN) (by rfl) (.elem (by rfl) (by rfl) (.nil _)) (.nil _))))
    (.nil _)))

/-- two entries set through the API, the first with a nested group that has a nested group -/
def exEntries : List (List GFld) :=
  [[.fld 448 [97], .grp 802 [.elem 523, .elem 803, .group 2376 [.elem 2377]] [[.fld 523 [120], .grp 2376 [.elem 2377] [[.fld 2377 [113]]]]]],
   [.fld 447 [68], .fld 448 [98]]]

theorem exEntriesOK : entriesOK exTmpl3 exEntries = true := by
  simp [entriesOK, entryOK, tmplEq, exTmpl3, exEntries, findItem, Item.tag, GFld.tag]

theorem exSmall : SmallEs exEntries :=
  .cons (.fld (.grp (by decide) (.cons (.fld (.grp (by decide) (.cons (.fld .nil) .nil) .nil)) .nil) .nil))
    (.cons (.fld (.fld .nil)) .nil)

theorem exTmplNodup : (453 :: allTmplTags exTmpl3).Nodup := by
  simp [allTmplTags, exTmpl3]


end Qfx
