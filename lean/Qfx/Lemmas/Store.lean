/- helper lemmas about the text formats of the file store (counter files, index lines) -/
import Qfx.Model.Store
import Qfx.Lemmas.Bytes
namespace Qfx.Store
open Qfx

theorem dropWhile_all_false {α} (p : α → Bool) : ∀ (l : List α), (∀ x ∈ l, p x = false) → l.dropWhile p = l
  | [], _ => rfl
  | a :: t, h => by simp [List.dropWhile, h a (by simp)]

theorem takeDrop_all_append {α} (p : α → Bool) (l : List α) (c : α) (r : List α) (hl : l.all p = true) (hc : p c = false) :
    (l ++ c :: r).takeWhile p = l ∧ (l ++ c :: r).dropWhile p = c :: r := by
  induction l with
  | nil => simp [List.takeWhile, List.dropWhile, hc]
  | cons a t ih =>
    simp only [List.all_cons, Bool.and_eq_true] at hl
    simp [List.takeWhile, List.dropWhile, hl.1, ih hl.2]

theorem digit_facts (c : Nat) (h : isDigit c = true) :
    c ≠ cMinus ∧ c ≠ cPlus ∧ c ≠ cNL ∧ c ≠ cCR ∧ isBlank c = false := by
  have := (isDigit_iff c).1 h
  simp [cMinus, cPlus, cNL, cCR, isBlank]
  omega

theorem digitsVal_cons_zero (l : Bytes) : digitsVal (48 :: l) = digitsVal l := by simp [digitsVal]

theorem digitsVal_replicate_zero (k : Nat) (l : Bytes) : digitsVal (List.replicate k 48 ++ l) = digitsVal l := by
  induction k with
  | zero => simp
  | succ k ih => rw [List.replicate_succ, List.cons_append, digitsVal_cons_zero, ih]

theorem padZero_all_digits (w : Nat) (d : Bytes) (h : d.all isDigit = true) : (padZero w d).all isDigit = true := by
  simp [padZero, List.all_append, h, c0, isDigit]

theorem trimCRLF_digits (l : Bytes) (h : l.all isDigit = true) : trimCRLF l = l := by
  have h1 : ∀ x ∈ l, (x == cCR || x == cNL) = false := by
    intro x hx
    have := digit_facts x (List.all_eq_true.1 h x hx)
    simp [this.2.2.1, this.2.2.2.1]
  unfold trimCRLF
  simp only []
  rw [dropWhile_all_false _ l h1, dropWhile_all_false _ l.reverse (fun x hx => h1 x (List.mem_reverse.1 hx)), List.reverse_reverse]

theorem atoiGo_digits (ds : Bytes) (hne : ds ≠ []) (h : ds.all isDigit = true) (hv : digitsVal ds ≤ 9223372036854775807) :
    atoiGo ds = some (digitsVal ds : Int) := by
  cases ds with
  | nil => exact absurd rfl hne
  | cons c cs =>
    have hc : isDigit c = true := by simp only [List.all_cons, Bool.and_eq_true] at h; exact h.1
    have f := digit_facts c hc
    simp [atoiGo, f.1, f.2.1, h, hv]

/-- counter file round trip: `Atoi(Trim(Sprintf("%019d", n)))` -/
theorem counter_roundtrip (n : Nat) (hn : n ≤ 9223372036854775807) : atoiGo (trimCRLF (fmt019 n)) = some (n : Int) := by
  have hd : (padZero 19 (fmtNat n)).all isDigit = true := padZero_all_digits _ _ (fmtNat_all_digits n)
  have hne : padZero 19 (fmtNat n) ≠ [] := by
    simp [padZero]; intro _; exact fmtNat_ne_nil n
  have hv : digitsVal (padZero 19 (fmtNat n)) = n := by
    simp only [padZero, c0]; rw [digitsVal_replicate_zero, digitsVal_fmtNat]
  have : fmt019 (n : Int) = padZero 19 (fmtNat n) := by
    have h0 : ¬ ((n : Int) < 0) := by omega
    simp [fmt019, h0]
  rw [this, trimCRLF_digits _ hd, atoiGo_digits _ hne hd (by omega), hv]

/-- one `%d` of Fscanf reads back what `%d` of Fprintf wrote, up to the next non-digit -/
theorem scanNum_fmtNat (n : Nat) (c : Nat) (rest : Bytes) (hc : isDigit c = false) (hn : n ≤ 9223372036854775807) :
    scanNum (fmtNat n ++ c :: rest) = .num (n : Int) (c :: rest) := by
  have hall := fmtNat_all_digits n
  have hv := digitsVal_fmtNat n
  have td := takeDrop_all_append isDigit (fmtNat n) c rest hall hc
  cases hf : fmtNat n with
  | nil => exact absurd hf (fmtNat_ne_nil n)
  | cons d ds =>
    rw [hf] at hall hv td
    have hd : isDigit d = true := by simp only [List.all_cons, Bool.and_eq_true] at hall; exact hall.1
    have f := digit_facts d hd
    simp only [List.cons_append] at td ⊢
    simp [scanNum, List.dropWhile, f.2.2.2.2, f.1, f.2.1, f.2.2.1, td.1, td.2, hv, hn]

theorem scanf3_headerLine (seq off size : Nat) (rest : Bytes)
    (h1 : seq ≤ 9223372036854775807) (h2 : off ≤ 9223372036854775807) (h3 : size ≤ 9223372036854775807) :
    scanf3 (headerLine (seq : Int) off size ++ rest) = .item seq off size rest := by
  have e : headerLine (seq : Int) off size ++ rest
      = fmtNat seq ++ cComma :: (fmtNat off ++ cComma :: (fmtNat size ++ cNL :: rest)) := by
    simp [headerLine, fmtD, fmtInt]
  rw [e]
  simp [scanf3, cComma, cNL, scanNum_fmtNat _ 44 _ (by decide : isDigit 44 = false),
        scanNum_fmtNat _ 10 _ (by decide : isDigit 10 = false), h1, h2, h3, scanComma, List.dropWhile, isBlank]

/-! ## the two sides of the SQL session row -/

theorem insertMsg_updIncoming (t : Tables) (v : Int) (n : Nat) (m : Bytes) :
    (t.updIncoming v).insertMsg n m = (t.insertMsg n m).map (fun t' => t'.updIncoming v) := by
  unfold Tables.insertMsg Tables.updIncoming
  by_cases h : (t.msgs.any fun p => p.1 == n) = true <;> simp [h]

theorem updIncoming_updOutgoing (t : Tables) (v u : Int) :
    (t.updIncoming v).updOutgoing u = (t.updOutgoing u).updIncoming v := by
  cases t with | mk sess msgs => cases sess <;> simp [Tables.updIncoming, Tables.updOutgoing]

end Qfx.Store
