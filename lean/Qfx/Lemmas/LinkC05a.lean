/-
  C05 helper lemmas, part a: number texts (toString / readInt round trip), field lists, what `toIn` delivers.
-/
import Qfx.Props.C14
import Qfx.Lemmas.SessC06
import Qfx.Lemmas.SessValid
import Qfx.Model.Link
import Std.Data.String.ToInt
namespace Qfx.Link
open Qfx Qfx.Sess

/-! ### number texts -/

theorem digitChar_toNat (d : Nat) (h : d < 10) : (Nat.digitChar d).toNat = 48 + d := by
  have : d = 0 ∨ d = 1 ∨ d = 2 ∨ d = 3 ∨ d = 4 ∨ d = 5 ∨ d = 6 ∨ d = 7 ∨ d = 8 ∨ d = 9 := by omega
  rcases this with rfl | rfl | rfl | rfl | rfl | rfl | rfl | rfl | rfl | rfl <;> rfl

theorem toDigits_bytes (n : Nat) : (Nat.toDigits 10 n).map Char.toNat = fmtNat n := by
  induction n using Nat.strongRecOn with
  | _ n ih =>
    rw [Nat.toDigits_eq_if (by omega), fmtNat]
    split
    · rename_i h; simp [digitChar_toNat n h]
    · rename_i h
      rw [List.map_append, ih (n / 10) (by omega)]
      simp [digitChar_toNat (n % 10) (by omega)]

theorem strBytes_toString_int (n : Int) : strBytes (toString n) = fmtInt n := by
  unfold strBytes fmtInt
  cases n with
  | ofNat k =>
    have : ¬ (Int.ofNat k < 0) := by simp
    simp only [this, if_false]
    show (Int.repr (Int.ofNat k)).toList.map Char.toNat = _
    simp only [Int.repr, Nat.toList_repr, toDigits_bytes]
    rfl
  | negSucc k =>
    have : (Int.negSucc k < 0) := Int.negSucc_lt_zero k
    simp only [this, if_true]
    show (Int.repr (Int.negSucc k)).toList.map Char.toNat = _
    simp only [Int.repr, String.toList_append, List.map_append, Nat.toList_repr, toDigits_bytes]
    rfl

/-- MsgSeqNum written by one engine is read back by the other (64-bit range) -/
theorem readInt_toString (n : Int) (h : inInt64 n) : readInt (strBytes (toString n)) = .ok n := by
  rw [strBytes_toString_int]; exact C14_int_write_read n h

/-- any written integer is read back as *some* integer (wrap-around outside the 64-bit range) -/
theorem readInt_toString_some (n : Int) : ∃ v, readInt (strBytes (toString n)) = .ok v := by
  rw [strBytes_toString_int]
  unfold readInt fmtInt
  split
  · exact ⟨_, atoi_minus _ (fmtNat_ne_nil _) (fmtNat_all_digits _)⟩
  · exact ⟨_, atoi_digits _ (fmtNat_ne_nil _) (fmtNat_all_digits _)⟩

theorem toString_int_ne_empty (n : Int) : toString n ≠ "" := by
  intro h
  have h1 := strBytes_toString_int n
  rw [h] at h1
  have h2 : fmtInt n ≠ [] := by
    unfold fmtInt; split
    · simp
    · exact fmtNat_ne_nil _
  exact h2 h1.symm

theorem toString_nat_ne_empty (n : Nat) : toString n ≠ "" := by
  intro h
  have h1 : (toString n).toList = Nat.toDigits 10 n := Nat.toList_repr
  rw [h] at h1
  exact Nat.toDigits_ne_nil h1.symm

theorem toString_int_inj {a b : Int} (h : toString a = toString b) : a = b := Int.repr_injective h

/-! ### field lists -/

theorem get?_nil (t : Nat) : Fields.get? [] t = none := rfl

theorem get?_cons (p : Nat × String) (f : Fields) (t : Nat) :
    Fields.get? (p :: f) t = if p.1 = t then some p.2 else Fields.get? f t := by
  unfold Fields.get?
  simp only [List.find?_cons]
  by_cases h : p.1 = t
  · simp [h]
  · have : (p.1 == t) = false := by simpa using h
    simp [this, h]

theorem get?_append (f g : Fields) (t : Nat) :
    Fields.get? (f ++ g) t = match Fields.get? f t with | some v => some v | none => Fields.get? g t := by
  induction f with
  | nil => simp [get?_nil]
  | cons p f ih =>
    simp only [List.cons_append, get?_cons]
    split
    · rfl
    · exact ih

theorem get?_none_of_tags (f : Fields) (t : Nat) (h : ∀ p ∈ f, p.1 ≠ t) : Fields.get? f t = none := by
  induction f with
  | nil => rfl
  | cons p f ih =>
    rw [get?_cons, if_neg (h p List.mem_cons_self)]
    exact ih (fun q hq => h q (List.mem_cons_of_mem _ hq))

theorem get?_mem {f : Fields} {t : Nat} {v : String} (h : Fields.get? f t = some v) : (t, v) ∈ f := by
  induction f with
  | nil => simp [get?_nil] at h
  | cons p f ih =>
    rw [get?_cons] at h
    split at h
    · rename_i hp; cases h; obtain ⟨a, b⟩ := p; simp only at hp; subst hp; exact List.mem_cons_self
    · exact List.mem_cons_of_mem _ (ih h)

theorem get?_filter (f : Fields) (q : Nat → Bool) (t : Nat) (ht : q t = true) :
    Fields.get? (f.filter (fun p => q p.1)) t = Fields.get? f t := by
  induction f with
  | nil => rfl
  | cons p f ih =>
    by_cases hp : q p.1 = true
    · simp only [List.filter_cons, hp, if_true, get?_cons, ih]
    · have : p.1 ≠ t := by intro h; rw [h] at hp; exact hp ht
      simp only [List.filter_cons, hp, get?_cons, this, if_false]
      exact ih

theorem has_iff_get? (f : Fields) (t : Nat) : Fields.has f t = (Fields.get? f t).isSome := by
  induction f with
  | nil => rfl
  | cons p f ih =>
    rw [get?_cons]
    unfold Fields.has at ih ⊢
    simp only [List.any_cons, ih]
    by_cases h : p.1 = t
    · simp [h]
    · have : (p.1 == t) = false := by simpa using h
      simp [this, h]

/-! ### what the peer receives -/

theorem toIn_get8 (cfg : Cfg) (m : OutMsg) : (toIn cfg m).f.get? 8 = some (bsName cfg.bs) := by simp [toIn, Fields.get?]
theorem toIn_get35 (cfg : Cfg) (m : OutMsg) : (toIn cfg m).f.get? 35 = some m.kind := by simp [toIn, Fields.get?]
theorem toIn_get49 (cfg : Cfg) (m : OutMsg) : (toIn cfg m).f.get? 49 = some cfg.sender := by simp [toIn, Fields.get?]
theorem toIn_get56 (cfg : Cfg) (m : OutMsg) : (toIn cfg m).f.get? 56 = some cfg.target := by simp [toIn, Fields.get?]
theorem toIn_get34 (cfg : Cfg) (m : OutMsg) : (toIn cfg m).f.get? 34 = some (toString m.seq) := by simp [toIn, Fields.get?]
theorem toIn_get52 (cfg : Cfg) (m : OutMsg) : (toIn cfg m).f.get? 52 = some "@0" := by simp [toIn, Fields.get?]
theorem toIn_kind (cfg : Cfg) (m : OutMsg) : kindOf (toIn cfg m) = m.kind := by simp [kindOf, toIn_get35]
theorem toIn_seqText (cfg : Cfg) (m : OutMsg) : seqText (toIn cfg m) = toString m.seq := by simp [seqText, toIn_get34]

/-- the body tags (everything but the header tags and 43 / 122) are delivered unchanged -/
def bodyTag (t : Nat) : Bool := t != 8 && t != 35 && t != 49 && t != 56 && t != 34 && t != 52 && t != 43 && t != 122

def dupF (m : OutMsg) : Fields := match m.f.get? 43 with | some v => [(43, v)] | none => []
def origF (m : OutMsg) : Fields := if m.f.has 122 then [(122, "@0")] else []
def restF (m : OutMsg) : Fields := m.f.filter (fun p => p.1 != 43 && p.1 != 122)

theorem toIn_f (cfg : Cfg) (m : OutMsg) :
    (toIn cfg m).f = [(8, bsName cfg.bs), (35, m.kind), (49, cfg.sender), (56, cfg.target), (34, toString m.seq), (52, "@0")]
      ++ (dupF m ++ (origF m ++ restF m)) := by
  cases h : m.f.get? 43 <;> simp [toIn, dupF, origF, restF, h]

theorem restF_get (m : OutMsg) (t : Nat) (h43 : t ≠ 43) (h122 : t ≠ 122) : Fields.get? (restF m) t = m.f.get? t :=
  get?_filter m.f (fun x => x != 43 && x != 122) t (by simp [h43, h122])

theorem restF_get43 (m : OutMsg) : Fields.get? (restF m) 43 = none :=
  get?_none_of_tags _ _ (by
    intro p hp
    have := (List.mem_filter.1 hp).2
    simp only [Bool.and_eq_true, bne_iff_ne, ne_eq] at this
    exact this.1)

theorem restF_get122 (m : OutMsg) : Fields.get? (restF m) 122 = none :=
  get?_none_of_tags _ _ (by
    intro p hp
    have := (List.mem_filter.1 hp).2
    simp only [Bool.and_eq_true, bne_iff_ne, ne_eq] at this
    exact this.2)

theorem dupF_get (m : OutMsg) (t : Nat) : Fields.get? (dupF m) t = if t = 43 then m.f.get? 43 else none := by
  unfold dupF
  cases h : m.f.get? 43 with
  | none => simp [get?_nil]
  | some v => simp only [get?_cons, get?_nil]; by_cases ht : t = 43 <;> simp [ht, eq_comm]

theorem origF_get (m : OutMsg) (t : Nat) : Fields.get? (origF m) t = if t = 122 ∧ m.f.has 122 = true then some "@0" else none := by
  unfold origF
  cases h : m.f.has 122 with
  | false => simp [get?_nil]
  | true => simp only [if_true, get?_cons, get?_nil, and_true]; by_cases ht : t = 122 <;> simp [ht, eq_comm]

theorem toIn_get_body (cfg : Cfg) (m : OutMsg) (t : Nat) (ht : bodyTag t = true) :
    (toIn cfg m).f.get? t = m.f.get? t := by
  simp only [bodyTag, Bool.and_eq_true, bne_iff_ne, ne_eq] at ht
  obtain ⟨⟨⟨⟨⟨⟨⟨h8, h35⟩, h49⟩, h56⟩, h34⟩, h52⟩, h43⟩, h122⟩ := ht
  rw [toIn_f]
  simp only [List.cons_append, List.nil_append, get?_cons]
  rw [if_neg (Ne.symm h8), if_neg (Ne.symm h35), if_neg (Ne.symm h49), if_neg (Ne.symm h56), if_neg (Ne.symm h34), if_neg (Ne.symm h52)]
  rw [get?_append, dupF_get, if_neg h43]
  simp only []
  rw [get?_append, origF_get, if_neg (by intro h; exact h122 h.1)]
  simp only []
  exact restF_get m t h43 h122

theorem toIn_get43 (cfg : Cfg) (m : OutMsg) : (toIn cfg m).f.get? 43 = m.f.get? 43 := by
  rw [toIn_f]
  simp only [List.cons_append, List.nil_append, get?_cons]
  simp only [show ¬ (8 = 43) by decide, show ¬ (35 = 43) by decide, show ¬ (49 = 43) by decide, show ¬ (56 = 43) by decide,
    show ¬ (34 = 43) by decide, show ¬ (52 = 43) by decide, if_false]
  rw [get?_append, dupF_get, if_pos rfl]
  cases h : m.f.get? 43 with
  | some v => rfl
  | none =>
    simp only []
    rw [get?_append, origF_get, if_neg (by intro h; exact absurd h.1 (by decide))]
    simp only []
    exact restF_get43 m

theorem toIn_get122 (cfg : Cfg) (m : OutMsg) :
    (toIn cfg m).f.get? 122 = if m.f.has 122 then some "@0" else none := by
  rw [toIn_f]
  simp only [List.cons_append, List.nil_append, get?_cons]
  simp only [show ¬ (8 = 122) by decide, show ¬ (35 = 122) by decide, show ¬ (49 = 122) by decide, show ¬ (56 = 122) by decide,
    show ¬ (34 = 122) by decide, show ¬ (52 = 122) by decide, if_false]
  rw [get?_append, dupF_get, if_neg (by decide)]
  simp only []
  rw [get?_append, origF_get]
  cases h : m.f.has 122 with
  | true => simp
  | false => simp [restF_get122]

theorem isEmpty_false_iff (s : String) : s.isEmpty = false ↔ s ≠ "" := by
  constructor
  · intro h hs; rw [hs] at h; simp at h
  · intro h
    cases hs : s.isEmpty
    · rfl
    · exact absurd (String.isEmpty_iff.1 hs) h

/-- what an engine wrote arrives with its fields in section order: the header written by `toIn` (PossDupFlag and
    OrigSendingTime moved into it), then the remaining fields as the engine ordered them -/
theorem toIn_secOrd (cfg : Cfg) (m : OutMsg) (ho : SecOrd (restF m)) :
    ∃ p r, (toIn cfg m).f = p :: r ∧ Validate.isHeaderTag p.1 = true ∧ SecOrd r := by
  refine ⟨(8, bsName cfg.bs), _, toIn_f cfg m, (show Validate.isHeaderTag 8 = true by decide), ?_⟩
  have h1 : hdrOnly ([(35, m.kind), (49, cfg.sender), (56, cfg.target), (34, toString m.seq), (52, "@0")] ++ (dupF m ++ origF m)) = true := by
    apply hdrOnly_append (by rfl)
    apply hdrOnly_append
    · unfold dupF; split <;> rfl
    · unfold origF; split <;> rfl
  have := SecOrd.hdr_append h1 ho
  simpa [List.append_assoc] using this

theorem toIn_has35 (cfg : Cfg) (m : OutMsg) : (toIn cfg m).f.has 35 = true := by
  rw [toIn_f]; simp [Fields.has]

/-- **the default validator (no data dictionary, any settings) accepts what an engine wrote**, provided every value is
    non-empty and the engine ordered its own fields header-first -/
theorem toIn_valid (cfg pcfg : Cfg) (m : OutMsg) (hne : NoEmpty (toIn pcfg m)) (ho : SecOrd (restF m))
    (happ : cfg.validator.app = none) : Valid cfg (toIn pcfg m) := by
  obtain ⟨p, r, hf, hp, hr⟩ := toIn_secOrd pcfg m ho
  exact validate_noDict_ok cfg _ p r hf hp hr hne (toIn_has35 pcfg m) happ

/-- no value an engine wrote is empty -/
theorem toIn_noEmpty (cfg : Cfg) (m : OutMsg) (hs : cfg.sender ≠ "") (ht : cfg.target ≠ "") (hk : m.kind ≠ "")
    (hf : ∀ p ∈ m.f, p.2 ≠ "") : NoEmpty (toIn cfg m) := by
  intro p hp
  rw [isEmpty_false_iff]
  rw [toIn_f] at hp
  simp only [List.cons_append, List.nil_append, List.mem_cons, List.mem_append] at hp
  rcases hp with rfl | rfl | rfl | rfl | rfl | rfl | hp
  · cases cfg.bs with
    | zero => decide
    | succ n => cases n with
      | zero => decide
      | succ n => cases n with
        | zero => decide
        | succ n => cases n with
          | zero => decide
          | succ n => cases n with
            | zero => decide
            | succ n => simp [bsName]
  · exact hk
  · exact hs
  · exact ht
  · exact toString_int_ne_empty _
  · decide
  · rcases hp with hp | hp | hp
    · unfold dupF at hp
      split at hp
      · rename_i v hv
        simp only [List.mem_singleton] at hp; subst hp
        exact hf _ (get?_mem hv)
      · cases hp
    · unfold origF at hp
      split at hp
      · simp only [List.mem_singleton] at hp; subst hp; decide
      · cases hp
    · exact hf p (List.mem_filter.1 hp).1

theorem getTime_at0 (m : InMsg) (t : Nat) (h : m.f.get? t = some "@0") : getTime m t = .val 0 := by
  unfold getTime
  rw [h]
  have h1 : ("@0" : String).toList = '@' :: ['0'] := by decide
  have h2 : String.ofList ['0'] = Nat.repr 0 := by decide
  simp only [h1, h2, Nat.toInt?_repr]
  rfl

theorem getInt_of_get? (m : InMsg) (t : Nat) (n : Int) (h : m.f.get? t = some (toString n)) (hn : inInt64 n) : getInt m t = .val n := by
  unfold getInt; rw [h]; simp only [readInt_toString n hn]

theorem getInt_of_get?_some (m : InMsg) (t : Nat) (n : Int) (h : m.f.get? t = some (toString n)) : ∃ v, getInt m t = .val v := by
  unfold getInt; rw [h]
  obtain ⟨v, hv⟩ := readInt_toString_some n
  exact ⟨v, by simp only [hv]⟩

end Qfx.Link
