/-
  C05 liveness, part j: exact effects of the sending functions (`Eff`): what is written, what stays queued, by how much
  the next outbound number moves — with persistence on.
-/
import Qfx.Lemmas.LinkC05i
namespace Qfx.Link
open Qfx Qfx.Sess

/-- the messages written according to a log (newest first), oldest first -/
def wl (s : Sess) : List OutMsg := wiresOf s.log.reverse

theorem wiresOf_append (a b : List Obs) : wiresOf (a ++ b) = wiresOf a ++ wiresOf b := by
  simp [wiresOf, List.filterMap_append]

theorem wl_emit_wire (s : Sess) (m : OutMsg) : wl (s.emit (.wire m)) = wl s ++ [m] := by
  simp [wl, Sess.emit, wiresOf_append, wiresOf]

theorem wl_emit (s : Sess) (o : Obs) (h : ∀ m, o ≠ .wire m) : wl (s.emit o) = wl s := by
  simp only [wl, Sess.emit, List.reverse_cons, wiresOf_append]
  cases o <;> simp [wiresOf] at h ⊢

/-- `s'` is `s` after sending: `n` more numbers used, `W` written (in order), queue now `q`; state, configuration,
    connection, inbound buffer and expected number untouched -/
structure Eff (s s' : Sess) (n : Int) (W q : List OutMsg) : Prop where
  fr : Fr s s'
  tgt : s'.store.target = s.store.target
  snd : s'.store.sender = s.store.sender + n
  w : wl s' = wl s ++ W
  q : s'.toSend = q
  grow : Grow true s.store s'.store

theorem Eff.refl (s : Sess) : Eff s s 0 [] s.toSend := ⟨Fr.refl s, rfl, by omega, by simp, rfl, Grow.refl _ _⟩

theorem Eff.trans {a b c : Sess} {n1 n2 : Int} {W1 W2 q1 q2 : List OutMsg} (h1 : Eff a b n1 W1 q1) (h2 : Eff b c n2 W2 q2) :
    Eff a c (n1 + n2) (W1 ++ W2) q2 :=
  ⟨h1.fr.trans h2.fr, h2.tgt.trans h1.tgt, by rw [h2.snd, h1.snd]; omega, by rw [h2.w, h1.w, List.append_assoc], h2.q, h1.grow.trans h2.grow⟩

theorem Eff.emit (s : Sess) (o : Obs) (h : ∀ m, o ≠ .wire m) : Eff s (s.emit o) 0 [] s.toSend :=
  ⟨⟨rfl, rfl, rfl, rfl, rfl⟩, rfl, by show s.store.sender = _; omega, by rw [wl_emit s o h]; simp, rfl, Grow.refl _ _⟩

theorem Eff.of_eq {s s' : Sess} (hf : Fr s s') (h2 : s'.store = s.store) (h3 : s'.log = s.log) (h4 : s'.toSend = s.toSend) :
    Eff s s' 0 [] s.toSend :=
  ⟨hf, by rw [h2], by rw [h2]; omega, by simp [wl, h3], h4, by rw [h2]; exact Grow.refl _ _⟩

theorem wl_sendQueued (s : Sess) (ho : s.out = true) : wl (sendQueued s) = wl s ++ s.toSend := by
  unfold sendQueued
  simp only [ho, if_true, wl, List.reverse_append, List.reverse_reverse, wiresOf_append]
  congr 1
  induction s.toSend with
  | nil => rfl
  | cons m rest ih => simp [wiresOf] at ih ⊢; exact ih

theorem eff_sendQueued (s : Sess) (ho : s.out = true) : Eff s (sendQueued s) 0 s.toSend [] := by
  have hst : (sendQueued s).store = s.store := by unfold sendQueued; split <;> rfl
  refine ⟨fr_sendQueued s, ?_, ?_, wl_sendQueued s ho, ?_, by rw [hst]; exact Grow.refl _ _⟩
  · unfold sendQueued; split <;> rfl
  · unfold sendQueued; split <;> simp
  · unfold sendQueued; simp [ho]

/-- persisting the numbered message and setting the queue -/
theorem eff_push (s : Sess) (m : OutMsg) (hp : s.cfg.persist = true) (ha : isAdminKind m.kind = true) (q : List OutMsg) :
    Eff s ((s.persistOut s.store.sender { m with seq := s.store.sender }).setToSend q) 1 [] q := by
  rw [persistOut_eq s _ _ hp]
  exact ⟨⟨rfl, rfl, rfl, rfl, rfl⟩, rfl, rfl, by simp [wl, Sess.emit, Sess.setToSend, wiresOf_append, wiresOf], rfl,
    Grow.save true s.store { m with seq := s.store.sender } (fun _ => ha)⟩

/-- the message as `prepMessageForSend` sends it: header filled (`stamp`), numbered -/
def numbered (s : Sess) (m : OutMsg) : OutMsg := { stamp s m with seq := s.store.sender }

theorem persistOut_toSend (s : Sess) (n : Int) (m : OutMsg) : (s.persistOut n m).toSend = s.toSend := by
  unfold Sess.persistOut; split <;> rfl

theorem eff_queueForSend (s : Sess) (m : OutMsg) (hm : OutOK m) (hp : s.cfg.persist = true) :
    Eff s (queueForSend s m) 1 [] (s.toSend ++ [numbered s m]) := by
  unfold queueForSend
  rw [prep_admin s m hm]
  simp only [persistOut_toSend]
  exact eff_push s (stamp s m) hp hm.adm _

theorem eff_sendInReplyTo_on (s : Sess) (m : OutMsg) (hm : OutOK m) (hp : s.cfg.persist = true) (hl : s.st.loggedOn = true) (ho : s.out = true) :
    Eff s (sendInReplyTo s m) 1 (s.toSend ++ [numbered s m]) [] := by
  unfold sendInReplyTo
  simp only [hl, Bool.not_true, Bool.false_eq_true, if_false]
  rw [prep_admin s m hm]
  simp only [persistOut_toSend]
  have h1 := eff_push s (stamp s m) hp hm.adm (s.toSend ++ [numbered s m])
  have h2 := eff_sendQueued _ (show ((s.persistOut s.store.sender { stamp s m with seq := s.store.sender }).setToSend (s.toSend ++ [numbered s m])).out = true by
    rw [← ho]; exact (h1.fr.out))
  have h3 : Eff s _ (1 + 0) ([] ++ (s.toSend ++ [numbered s m])) [] := h1.trans h2
  rw [show (1 : Int) + 0 = 1 from rfl, List.nil_append] at h3
  exact h3

theorem eff_sendInReplyTo_off (s : Sess) (m : OutMsg) (hm : OutOK m) (hp : s.cfg.persist = true) (hl : s.st.loggedOn = false) :
    Eff s (sendInReplyTo s m) 1 [] (s.toSend ++ [numbered s m.asNew]) := by
  unfold sendInReplyTo
  simp only [hl, Bool.not_false, if_true]
  exact eff_queueForSend s m.asNew hm.asNew hp

theorem eff_dropAndSend (s : Sess) (m : OutMsg) (hm : OutOK m) (hp : s.cfg.persist = true) (ho : s.out = true) :
    Eff s (dropAndSend s m) 1 [numbered s m] [] := by
  unfold dropAndSend
  rw [prep_admin s m hm]
  simp only []
  have h1 := eff_push s (stamp s m) hp hm.adm [numbered s m]
  have h2 := eff_sendQueued _ (show ((s.persistOut s.store.sender { stamp s m with seq := s.store.sender }).setToSend [numbered s m]).out = true by
    rw [← ho]; exact (h1.fr.out))
  have h3 : Eff s _ (1 + 0) ([] ++ [numbered s m]) [] := h1.trans h2
  rw [show (1 : Int) + 0 = 1 from rfl, List.nil_append] at h3
  exact h3

end Qfx.Link
