/-
  A wire message that a scanner comparing tag TEXTS finds well-formed but the parser rejects: `010=` reads as CheckSum.
-/
import Qfx.Lemmas.CodecDictItems
namespace Qfx
open Qfx.Spec

/-! the witness against "tag TEXTS other than `10`": `8=F 9=11 35=D 010=x 10=198` — well-formed for a scanner that compares tag texts,
    but the parser reads `010` as CheckSum -/
def z8 : TagValue := ⟨8, [70], [56, 61, 70, 1]⟩
def z9 : TagValue := ⟨9, [49, 49], [57, 61, 49, 49, 1]⟩
def z35 : TagValue := ⟨35, [68], [51, 53, 61, 68, 1]⟩
def z010 : TagValue := ⟨10, [120], [48, 49, 48, 61, 120, 1]⟩
def z10 : TagValue := ⟨10, [49, 57, 56], [49, 48, 61, 49, 57, 56, 1]⟩
def zWire : Bytes := [56, 61, 70, 1, 57, 61, 49, 49, 1, 51, 53, 61, 68, 1, 48, 49, 48, 61, 120, 1, 49, 48, 61, 49, 57, 56, 1]

theorem z8_wire : IsWire z8 := ⟨[56], by simp, by simp [cEq, SOH], by rfl, by rfl, by simp [z8, SOH]⟩
theorem z9_wire : IsWire z9 := ⟨[57], by simp, by simp [cEq, SOH], by rfl, by rfl, by simp [z9, SOH]⟩
theorem z35_wire : IsWire z35 := ⟨[51, 53], by simp, by simp [cEq, SOH], by rfl, by rfl, by simp [z35, SOH]⟩
theorem z010_wire : IsWire z010 := ⟨[48, 49, 48], by simp, by simp [cEq, SOH], by rfl, by rfl, by simp [z010, SOH]⟩
theorem z10_wire : IsWire z10 := ⟨[49, 48], by simp, by simp [cEq, SOH], by rfl, by rfl, by simp [z10, SOH]⟩

theorem zWire_eq : zWire = wireOf (z8 :: z9 :: z35 :: [z010, z10]) := by rfl

/-- the parser REJECTS it, whatever the dictionaries: `010=` ends the loop as CheckSum, the last slot of the field array stays empty and
    the length check fails -/
theorem z_rejected (d : Dicts) (hh10 : isHeaderField d 10 = false) : parseMessage Fixes.cur d zWire = .err "incorrect message length" := by
  have hrestW : ∀ tv ∈ [z010, z10], IsWire tv := by
    intro tv h; simp only [List.mem_cons, List.mem_nil_iff, or_false] at h
    rcases h with e | e <;> subst e
    · exact z010_wire
    · exact z10_wire
  rw [zWire_eq, parseMessage_lead Fixes.cur z8 z9 z35 _ z8_wire z9_wire z35_wire hrestW rfl rfl rfl]
  have hwire : wireOf [z010, z10] = z010.bytes ++ (z10.bytes ++ []) := by simp [wireOf]
  rw [hwire]
  rw [parseLoop_main_10 (d := d) _ 3 _ z010 (z10.bytes ++ []) (by simp) rfl (extractField_wire z010 _ z010_wire) rfl]
  have ht : isTrailerField d 10 = true := by simp [isTrailerField, Tag.isTrailer, staticTrailerTags]
  have h10' : isHeaderField d z010.tag = false := hh10
  have ht' : isTrailerField d z010.tag = true := ht
  simp only [ndSwitchD, h10', ht', Bool.false_eq_true, if_false, if_true]
  rfl


def zScanned : List WField :=
  [⟨[56], [70], [56, 61, 70, 1]⟩, ⟨[57], [49, 49], [57, 61, 49, 49, 1]⟩, ⟨[51, 53], [68], [51, 53, 61, 68, 1]⟩,
   ⟨[48, 49, 48], [120], [48, 49, 48, 61, 120, 1]⟩, ⟨[49, 48], [49, 57, 56], [49, 48, 61, 49, 57, 56, 1]⟩]

theorem z_scan : scanFields zWire = some zScanned := by decide

theorem fmtNat_11 : fmtNat 11 = [49, 49] := by
  rw [fmtNat]; simp [fmtNat]

theorem z_wf : wfScanned zScanned = true := by
  simp [wfScanned, zScanned, Spec.t8, Spec.t9, Spec.t35, Spec.t10, rawLen, rawSum, fmtNat_11, digitsW]

theorem z_tags : (zScanned.all fun f => (tagNum f.tagText).isSome && tagNum f.tagText != some 212) = true := by decide

end Qfx
