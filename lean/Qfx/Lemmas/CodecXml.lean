/- C11: messages carrying XMLData (213) with its length (212): the length-driven extraction and the whole parse -/
import Qfx.Lemmas.CodecDictGroup
namespace Qfx
open Qfx.Spec

variable {d : Dicts}

/-- an XMLData field on the wire: `<tagText>=<data>␁` where the data may contain any byte (SOH included) -/
def IsXmlWire (tv : TagValue) : Prop :=
  ∃ tt : Bytes, tt ≠ [] ∧ (∀ c ∈ tt, c ≠ cEq ∧ c ≠ SOH) ∧ atoi tt = .ok tv.tag ∧ tv.bytes = tt ++ cEq :: (tv.value ++ [SOH])

theorem parse_xml_wire (tv : TagValue) (h : IsXmlWire tv) : TagValue.parse tv.bytes = .ok tv := by
  obtain ⟨tt, hne, hchars, hatoi, hbytes⟩ := h
  have hidx : indexByte tv.bytes cEq = some tt.length := by
    rw [hbytes]; exact indexByte_append_first tt _ cEq (fun x hx => (hchars x hx).1)
  have hpos : 1 ≤ tt.length := by
    cases tt with
    | nil => exact absurd rfl hne
    | cons a r => simp
  have hsep := findSep_first tv.bytes tt.length hidx hpos
  have hlen : tv.bytes.length = tt.length + 1 + tv.value.length + 1 := by rw [hbytes]; simp; omega
  have htake : (tv.bytes.take tt.length).drop 0 = tt := by rw [hbytes]; simp
  have hval' : (tv.bytes.take (tv.bytes.length - 1)).drop (tt.length + 1) = tv.value := by
    rw [hlen, hbytes]
    have e1 : tt ++ cEq :: (tv.value ++ [SOH]) = (tt ++ cEq :: tv.value) ++ [SOH] := by simp
    have e2 : tt.length + 1 + tv.value.length + 1 - 1 = (tt ++ cEq :: tv.value).length := by simp; omega
    rw [e1, e2, List.take_left']
    have e3 : tt ++ cEq :: tv.value = (tt ++ [cEq]) ++ tv.value := by simp
    have e4 : tt.length + 1 = (tt ++ [cEq]).length := by simp
    rw [e3, e4, List.drop_left']
    rfl
    rfl
  unfold TagValue.parse
  rw [hsep]
  simp only [sliceR]
  have c1 : 0 ≤ tt.length ∧ tt.length ≤ tv.bytes.length := ⟨by omega, by omega⟩
  have c2 : tt.length + 1 ≤ tv.bytes.length - 1 ∧ tv.bytes.length - 1 ≤ tv.bytes.length := ⟨by omega, by omega⟩
  simp only [c1, c2, and_self, if_true, htake, hatoi, hval']

/-- `extractXMLDataField` with the announced length = the length of the data: exactly the XMLData field is taken -/
theorem extractXML_wire (fx : Fixes) (tv : TagValue) (rest : Bytes) (h : IsXmlWire tv) (n : Int) (hn : n = (tv.value.length : Int)) :
    extractXMLDataField fx (tv.bytes ++ rest) n = (rest, .ok tv) := by
  have hp := parse_xml_wire tv h
  obtain ⟨tt, hne, hchars, hatoi, hbytes⟩ := h
  have hidx : indexByte (tv.bytes ++ rest) cEq = some tt.length := by
    have e : tv.bytes ++ rest = tt ++ cEq :: (tv.value ++ [SOH] ++ rest) := by rw [hbytes]; simp
    rw [e]; exact indexByte_append_first tt _ cEq (fun x hx => (hchars x hx).1)
  have hlen : tv.bytes.length = tt.length + 1 + tv.value.length + 1 := by rw [hbytes]; simp; omega
  unfold extractXMLDataField
  rw [hidx]
  simp only []
  have hk : ((tt.length : Int) + n + 1 + 1).toNat = tv.bytes.length := by rw [hn, hlen]; omega
  have hc : ¬ ((tt.length : Int) + n + 1 + 1 > ((tv.bytes ++ rest).length : Int) ∨ (tt.length : Int) + n + 1 < 0) := by
    rw [hn]; simp only [List.length_append, hlen]; omega
  simp only [hc, if_false, hk]
  simp [hp]


theorem isHeader_static (t : Tag) (h : Tag.isHeader t = true) : isHeaderField d t = true := by simp [isHeaderField, h]

theorem tailStep_212 (fields : List TagValue) (tv : TagValue) (c : PCore) (h212 : tv.tag = 212) (n : Int)
    (hget : c.header.getInt fields 212 = .ok n) :
    tailStep fields tv c = .ok ({ (ndTail c) with xmlDataLen := n }, false) := by
  have h10 : ¬ tv.tag = 10 := by rw [h212]; decide
  by_cases hfb : c.foundBody = true
  · simp [tailStep, ndTail, xmlLenOf, h10, h212, hfb, hget]
  · simp [tailStep, ndTail, xmlLenOf, h10, h212, hfb, hget]

/-- the XMLDataLen field: a header field; the loop remembers its value for the next field -/
theorem parseLoop_step_212 (fx : Fixes) (fields : List TagValue) (idx : Nat) (c : PCore) (tv : TagValue) (raw' : Bytes) (n : Int)
    (hidx : idx < fields.length) (hx : c.xmlDataLen = 0) (hex : extractField c.rawBytes = (raw', .ok tv))
    (h212 : tv.tag = 212) (hn : atoi tv.value = .ok n) :
    parseLoop fx d .main fields idx c =
      parseLoop fx d .main (fields.set idx tv) (idx + 1)
        { (ndTail { c with rawBytes := raw', header := c.header.add tv.tag (.view idx 1) }) with xmlDataLen := n } := by
  rw [parseLoop]
  have hh : isHeaderField d tv.tag = true := isHeader_static _ (by rw [h212]; decide)
  have hget : ({ c with rawBytes := raw', header := c.header.add tv.tag (.view idx 1) } : PCore).header.getInt (fields.set idx tv) 212 = .ok n := by
    have hf : alFind (c.header.add tv.tag (.view idx 1)).lookup 212 = some (.view idx 1) := by
      simp only [FieldMap.add]; rw [h212]; exact alFind_insert_self _ _ _
    have hb := getBytes_view (c.header.add tv.tag (.view idx 1)) (fields.set idx tv) 212 idx tv hf (by simp [hidx])
    simp [FieldMap.getInt, hb, hn]
  have hx' : ¬ c.xmlDataLen > 0 := by rw [hx]; decide
  simp only [hidx, dite_true, hx', if_false, hex, mainSwitch, hh, if_true,
    tailStep_212 _ _ _ h212 n hget]

/-- the XMLData field: taken by length; a header field -/
theorem parseLoop_step_213 (fx : Fixes) (fields : List TagValue) (idx : Nat) (c : PCore) (tv : TagValue) (rest : Bytes)
    (hidx : idx < fields.length) (hn : c.xmlDataLen = (tv.value.length : Int)) (hpos : 0 < tv.value.length)
    (hraw : c.rawBytes = tv.bytes ++ rest) (hw : IsXmlWire tv) (h213 : tv.tag = 213) :
    parseLoop fx d .main fields idx c =
      parseLoop fx d .main (fields.set idx tv) (idx + 1)
        (ndTail { c with xmlDataLen := 0, xmlDataMsg := true, rawBytes := rest, header := c.header.add tv.tag (.view idx 1) }) := by
  rw [parseLoop]
  have hh : isHeaderField d tv.tag = true := isHeader_static _ (by rw [h213]; decide)
  have hgt : c.xmlDataLen > 0 := by rw [hn]; omega
  have hex := extractXML_wire fx tv rest hw c.xmlDataLen hn
  rw [← hraw] at hex
  have h10 : tv.tag ≠ 10 := by rw [h213]; decide
  have h212 : tv.tag ≠ 212 := by rw [h213]; decide
  simp only [hidx, dite_true, hgt, if_true, hex, mainSwitch, hh, tailStep_nd _ _ _ h10 h212]


/-! ## the whole parse of a message carrying XMLData with its length -/

theorem parseMessage_lead' (fx : Fixes) (t8 t9 t35 : TagValue) (rest : List TagValue) (m : Nat)
    (hw8 : IsWire t8) (hw9 : IsWire t9) (hw35 : IsWire t35)
    (h8 : t8.tag = 8) (h9 : t9.tag = 9) (h35 : t35.tag = 35)
    (hcount : countByte (wireOf (t8 :: t9 :: t35 :: rest)) SOH = m + 3) :
    parseMessage fx d (wireOf (t8 :: t9 :: t35 :: rest)) =
      (match parseLoop fx d .main ([t8, t9, t35] ++ List.replicate m TagValue.zero) 3 (ndInit t8 t9 t35 (wireOf rest)) with
       | .err e => .err e
       | .fault w => .fault w
       | .ok (fields, c') => .ok (msgOf (wireOf (t8 :: t9 :: t35 :: rest)) fields c')) := by
  have ex1 : extractField (wireOf (t8 :: t9 :: t35 :: rest)) = (wireOf (t9 :: t35 :: rest), .ok t8) := by
    have : wireOf (t8 :: t9 :: t35 :: rest) = t8.bytes ++ wireOf (t9 :: t35 :: rest) := by simp [wireOf]
    rw [this]; exact extractField_wire t8 _ hw8
  have ex2 : extractField (wireOf (t9 :: t35 :: rest)) = (wireOf (t35 :: rest), .ok t9) := by
    have : wireOf (t9 :: t35 :: rest) = t9.bytes ++ wireOf (t35 :: rest) := by simp [wireOf]
    rw [this]; exact extractField_wire t9 _ hw9
  have ex3 : extractField (wireOf (t35 :: rest)) = (wireOf rest, .ok t35) := by
    have : wireOf (t35 :: rest) = t35.bytes ++ wireOf rest := by simp [wireOf]
    rw [this]; exact extractField_wire t35 _ hw35
  simp only [parseMessage, hcount]
  have hne : ¬ (m + 3 = 0) := by omega
  simp only [hne, if_false]
  rw [extractSpecific_ok fx 8 _ 0 _ _ _ t8 (by simp) ex1 h8]
  simp only []
  rw [extractSpecific_ok fx 9 _ 1 _ _ _ t9 (by simp) ex2 h9]
  simp only []
  rw [extractSpecific_ok fx 35 _ 2 _ _ _ t35 (by simp) ex3 h35]
  simp only []
  have hf3 : (((List.replicate (m + 3) TagValue.zero).set 0 t8).set 1 t9).set 2 t35 =
      [t8, t9, t35] ++ List.replicate m TagValue.zero := by
    simp [List.replicate_succ]
  rw [hf3]
  rfl

theorem setRange_replicate' (z : TagValue) (k : Nat) : ∀ (l a : List TagValue),
    setRange (a ++ List.replicate (l.length + k) z) a.length l = a ++ l ++ List.replicate k z := by
  intro l
  induction l with
  | nil => intro a; simp [setRange]
  | cons tv r ih =>
    intro a
    have e : (a ++ List.replicate ((tv :: r).length + k) z).set a.length tv = (a ++ [tv]) ++ List.replicate (r.length + k) z := by
      have : (tv :: r).length + k = (r.length + k) + 1 := by simp; omega
      rw [this]; simp [List.replicate_succ, List.set_append_right]
    simp only [setRange, e]
    have := ih (a ++ [tv])
    simp only [List.length_append, List.length_singleton] at this
    rw [this]; simp

theorem countByte_xml (tv : TagValue) (h : IsXmlWire tv) : countByte tv.bytes SOH = countByte tv.value SOH + 1 := by
  obtain ⟨tt, _, hchars, _, hbytes⟩ := h
  have e : tv.bytes = tt ++ ([cEq] ++ (tv.value ++ [SOH])) := by rw [hbytes]; simp
  rw [e, countByte_append, countByte_append, countByte_append, countByte_none tt SOH (fun x hx => (hchars x hx).2)]
  have h1 : countByte [cEq] SOH = 0 := by decide
  have h2 : countByte [SOH] SOH = 1 := by decide
  omega

/-- the final check for a message that carried XMLData: the length comparison is skipped -/
theorem finish_xml (F : List TagValue) (C : PCore) (t9 : TagValue) (bl : Int) (h9 : alFind C.header.lookup 9 = some (.view 1 1))
    (hF : F[1]? = some t9) (hbl : atoi t9.value = .ok bl) (hx : C.xmlDataMsg = true) :
    finishParse F C = .ok (F, finishAdjust C) := by
  have hget : (finishAdjust C).header.getInt F 9 = .ok bl := by
    rw [(finishAdjust_keeps C).1]
    have hb := getBytes_view C.header F 9 1 t9 h9 hF
    simp [FieldMap.getInt, hb, hbl]
  have hxa : (finishAdjust C).xmlDataMsg = true := by rw [(finishAdjust_keeps C).2.1, hx]
  simp only [finishParse, hget, hxa]
  simp


/-- PARSE OF A MESSAGE CARRYING XMLData WITH ITS LENGTH: `8, 9, 35, plain…, 212=<n>, 213=<n bytes, any bytes>, plain…, 10` -/
theorem parse_xml (fx : Fixes) (t8 t9 t35 x212 x213 t10 : TagValue) (preA postB : List TagValue) (bl : Int)
    (hw8 : IsWire t8) (hw9 : IsWire t9) (hw35 : IsWire t35) (hw10 : IsWire t10)
    (h8 : t8.tag = 8) (h9 : t9.tag = 9) (h35 : t35.tag = 35) (h10 : t10.tag = 10)
    (hpre : PlainFields d preA) (hpost : PlainFields d postB)
    (hw212 : IsWire x212) (h212 : x212.tag = 212) (hlen : atoi x212.value = .ok (x213.value.length : Int)) (hpos : 0 < x213.value.length)
    (hw213 : IsXmlWire x213) (h213 : x213.tag = 213)
    (hng10 : NoGroupTag d 10) (hh10 : isHeaderField d 10 = false) (hbl : atoi t9.value = .ok bl) :
    ∃ m, parseMessage fx d (wireOf (t8 :: t9 :: t35 :: (preA ++ x212 :: x213 :: (postB ++ [t10])))) = .ok m ∧
      m.fields = t8 :: t9 :: t35 :: (preA ++ x212 :: x213 :: (postB ++ [t10])) ++ List.replicate (countByte x213.value SOH) TagValue.zero ∧
      m.raw = some (wireOf (t8 :: t9 :: t35 :: (preA ++ x212 :: x213 :: (postB ++ [t10])))) := by
  -- number of SOH bytes
  have hwireL : wireOf (t8 :: t9 :: t35 :: (preA ++ x212 :: x213 :: (postB ++ [t10]))) =
      wireOf (t8 :: t9 :: t35 :: preA) ++ (x212.bytes ++ (x213.bytes ++ wireOf (postB ++ [t10]))) := by
    simp [wireOf, List.append_assoc]
  have hcA : countByte (wireOf (t8 :: t9 :: t35 :: preA)) SOH = preA.length + 3 := by
    rw [countByte_wireOf]; simp
    intro tv htv
    simp only [List.mem_cons] at htv
    rcases htv with e | e | e | h
    · subst e; exact hw8
    · subst e; exact hw9
    · subst e; exact hw35
    · exact (hpre tv h).1
  have hcB : countByte (wireOf (postB ++ [t10])) SOH = postB.length + 1 := by
    rw [countByte_wireOf]; simp
    intro tv htv
    simp only [List.mem_append, List.mem_singleton] at htv
    rcases htv with h | e
    · exact (hpost tv h).1
    · subst e; exact hw10
  have hcount : countByte (wireOf (t8 :: t9 :: t35 :: (preA ++ x212 :: x213 :: (postB ++ [t10])))) SOH =
      ((preA ++ x212 :: x213 :: (postB ++ [t10])).length + countByte x213.value SOH) + 3 := by
    rw [hwireL, countByte_append, countByte_append, countByte_append, hcA, hcB, countByte_wire x212 hw212, countByte_xml x213 hw213]
    simp; omega
  rw [parseMessage_lead' fx t8 t9 t35 _ _ hw8 hw9 hw35 h8 h9 h35 hcount]
  generalize hk : countByte x213.value SOH = k
  have hwire : wireOf (preA ++ x212 :: x213 :: (postB ++ [t10])) =
      wireOf preA ++ (x212.bytes ++ (x213.bytes ++ (wireOf postB ++ (t10.bytes ++ [])))) := by
    simp [wireOf, List.append_assoc]
  rw [hwire]
  generalize hf0 : [t8, t9, t35] ++ List.replicate ((preA ++ x212 :: x213 :: (postB ++ [t10])).length + k) TagValue.zero = f0
  have hf0len : f0.length = 3 + (preA.length + 2 + postB.length + 1 + k) := by rw [← hf0]; simp; omega
  generalize hc0 : ndInit t8 t9 t35 (wireOf preA ++ (x212.bytes ++ (x213.bytes ++ (wireOf postB ++ (t10.bytes ++ []))))) = c0
  have hraw0 : c0.rawBytes = wireOf preA ++ (x212.bytes ++ (x213.bytes ++ (wireOf postB ++ (t10.bytes ++ [])))) := by rw [← hc0]; rfl
  have hx0 : c0.xmlDataLen = 0 := by rw [← hc0]; rfl
  have h9find0 : alFind c0.header.lookup 9 = some (.view 1 1) := by
    rw [← hc0]; simp [ndInit, FieldMap.add, FieldMap.empty, alInsert, alFind, h8, h9, h35]
  -- the plain prefix
  rw [parseLoop_prefixD (d := d) fx preA f0 3 c0 _ (fun tv h => ⟨(hpre tv h).1, (hpre tv h).2.1, (hpre tv h).2.2.1⟩)
    (fun tv h => (hpre tv h).2.2.2.2.2) hx0 hraw0 (by omega)]
  generalize hc1 : runNDD d 3 preA (x212.bytes ++ (x213.bytes ++ (wireOf postB ++ (t10.bytes ++ [])))) c0 = c1
  have hraw1 : c1.rawBytes = x212.bytes ++ (x213.bytes ++ (wireOf postB ++ (t10.bytes ++ []))) := by
    rw [← hc1]; exact runNDD_raw' _ _ _ _ hraw0
  have hx1 : c1.xmlDataLen = 0 := by rw [← hc1, runNDD_xmlLen]; exact hx0
  have h9find1 : alFind c1.header.lookup 9 = some (.view 1 1) := by
    rw [← hc1, runNDD_header_find 9 preA 3 _ c0 (fun tv h => (hpre tv h).2.2.2.1)]; exact h9find0
  -- 212
  have hidx1 : 3 + preA.length < (setRange f0 3 preA).length := by rw [setRange_length]; omega
  have hex1 : extractField c1.rawBytes = (x213.bytes ++ (wireOf postB ++ (t10.bytes ++ [])), .ok x212) := by
    rw [hraw1]; exact extractField_wire x212 _ hw212
  rw [parseLoop_step_212 (d := d) fx _ (3 + preA.length) c1 x212 _ _ hidx1 hx1 hex1 h212 hlen]
  -- 213
  have hidx2 : 3 + preA.length + 1 < ((setRange f0 3 preA).set (3 + preA.length) x212).length := by simp [setRange_length]; omega
  rw [parseLoop_step_213 (d := d) fx _ (3 + preA.length + 1) _ x213 (wireOf postB ++ (t10.bytes ++ [])) hidx2 rfl hpos
    (by rw [(ndTail_raw _).1]) hw213 h213]
  -- the plain suffix
  generalize hc3 : (ndTail { ({ (ndTail { c1 with rawBytes := x213.bytes ++ (wireOf postB ++ (t10.bytes ++ [])), header := c1.header.add x212.tag (.view (3 + preA.length) 1) }) with xmlDataLen := (x213.value.length : Int) } : PCore) with xmlDataLen := 0, xmlDataMsg := true, rawBytes := wireOf postB ++ (t10.bytes ++ []), header := ({ (ndTail { c1 with rawBytes := x213.bytes ++ (wireOf postB ++ (t10.bytes ++ [])), header := c1.header.add x212.tag (.view (3 + preA.length) 1) }) with xmlDataLen := (x213.value.length : Int) } : PCore).header.add x213.tag (.view (3 + preA.length + 1) 1) }) = c3
  have hc3x : c3.xmlDataLen = 0 := by rw [← hc3, (ndTail_raw _).2.1]
  have hc3xm : c3.xmlDataMsg = true := by rw [← hc3, (ndTail_raw _).2.2.1]
  have hc3raw : c3.rawBytes = wireOf postB ++ (t10.bytes ++ []) := by rw [← hc3, (ndTail_raw _).1]
  have hc3h9 : alFind c3.header.lookup 9 = some (.view 1 1) := by
    rw [← hc3, (ndTail_raw _).2.2.2.1]
    simp only [FieldMap.add]
    rw [alFind_insert_other _ _ _ _ (by rw [h213]; decide), (ndTail_raw _).2.2.2.1]
    simp only []
    rw [alFind_insert_other _ _ _ _ (by rw [h212]; decide)]
    exact h9find1
  rw [parseLoop_ndD fx postB _ (3 + preA.length + 1 + 1) c3 t10 []
    (fun tv h => ⟨(hpost tv h).1, (hpost tv h).2.1, (hpost tv h).2.2.1⟩) (fun tv h => (hpost tv h).2.2.2.2.2)
    (by rw [h10]; exact hng10) hw10 h10 hc3x hc3raw (by simp [setRange_length]; omega)]
  -- the field array
  have hFeq : setRange (((setRange f0 3 preA).set (3 + preA.length) x212).set (3 + preA.length + 1) x213) (3 + preA.length + 1 + 1) (postB ++ [t10]) =
      t8 :: t9 :: t35 :: (preA ++ x212 :: x213 :: (postB ++ [t10])) ++ List.replicate k TagValue.zero := by
    rw [setRange_snoc]
    have e1 : 3 + preA.length + 1 = 3 + (preA ++ [x212]).length := by simp; omega
    rw [e1, setRange_snoc]
    have e2 : 3 + (preA ++ [x212]).length + 1 = 3 + ((preA ++ [x212]) ++ [x213]).length := by simp; omega
    rw [e2, ← setRange_append]
    have e3 : ((preA ++ [x212]) ++ [x213]) ++ (postB ++ [t10]) = preA ++ x212 :: x213 :: (postB ++ [t10]) := by simp
    rw [e3, ← hf0]
    have := setRange_replicate' TagValue.zero k (preA ++ x212 :: x213 :: (postB ++ [t10])) [t8, t9, t35]
    simpa using this
  rw [hFeq]
  -- the final check (skipped for XMLData messages; BodyLength must still be an integer)
  generalize hC5 : ndSwitchD d (3 + preA.length + 1 + 1 + postB.length) t10
      { (runNDD d (3 + preA.length + 1 + 1) postB (t10.bytes ++ []) c3) with rawBytes := [] } = C5
  have hC5hb := ndSwitchD_10 (d := d) (3 + preA.length + 1 + 1 + postB.length) t10
      { (runNDD d (3 + preA.length + 1 + 1) postB (t10.bytes ++ []) c3) with rawBytes := [] } h10 hh10
  rw [hC5] at hC5hb
  have e9 : alFind C5.header.lookup 9 = some (.view 1 1) := by
    rw [hC5hb.1]
    show alFind (runNDD d _ postB _ c3).header.lookup 9 = _
    rw [runNDD_header_find 9 postB _ _ c3 (fun tv h => (hpost tv h).2.2.2.1)]; exact hc3h9
  have hxm5 : C5.xmlDataMsg = true := by
    rw [← hC5, (ndSwitchD_raw _ _ _).2.2]
    show (runNDD d _ postB _ c3).xmlDataMsg = true
    rw [runNDD_xml]; exact hc3xm
  rw [finish_xml _ C5 t9 bl e9 (by simp) hbl hxm5]
  exact ⟨_, rfl, rfl, rfl⟩

end Qfx
