import Qfx.Lemmas.Bytes
import Qfx.Model.Decimal
namespace Qfx.Dec
open Qfx

theorem foldl_digits_append (x y : Bytes) (acc : Nat) :
    (x ++ y).foldl (fun a c => 10 * a + (c - 48)) acc = y.foldl (fun a c => 10 * a + (c - 48)) (x.foldl (fun a c => 10 * a + (c - 48)) acc) := by
  simp [List.foldl_append]

theorem foldl_digits_shift (y : Bytes) (acc : Nat) :
    y.foldl (fun a c => 10 * a + (c - 48)) acc = acc * 10 ^ y.length + y.foldl (fun a c => 10 * a + (c - 48)) 0 := by
  induction y generalizing acc with
  | nil => simp
  | cons c cs ih =>
    simp only [List.foldl_cons, List.length_cons]
    rw [ih (10 * acc + (c - 48)), ih (10 * 0 + (c - 48))]
    simp only [Nat.mul_zero, Nat.zero_add, Nat.pow_succ]
    rw [Nat.add_mul, Nat.add_assoc]
    congr 1
    rw [Nat.mul_comm 10 acc, Nat.mul_assoc, Nat.mul_comm 10 (10 ^ cs.length)]

theorem digitsVal_append (x y : Bytes) : digitsVal (x ++ y) = digitsVal x * 10 ^ y.length + digitsVal y := by
  unfold digitsVal
  rw [foldl_digits_append, foldl_digits_shift]

theorem all_digit_ne (l : Bytes) (h : l.all isDigit = true) (c : Nat) (hc : c < 48) : c ∉ l := by
  intro hm
  have := List.all_eq_true.1 h c hm
  have := (isDigit_iff c).1 this
  omega

theorem takeWhile_dot (a b : Bytes) (ha : 46 ∉ a) : (a ++ 46 :: b).takeWhile (· ≠ 46) = a := by
  induction a with
  | nil => simp
  | cons c cs ih =>
    have hc : c ≠ 46 := fun h => ha (by simp [h])
    have hcs : 46 ∉ cs := fun h => ha (by simp [h])
    rw [List.cons_append, List.takeWhile_cons_of_pos (by simpa using hc), ih hcs]

theorem dropWhile_dot (a b : Bytes) (ha : 46 ∉ a) : (a ++ 46 :: b).dropWhile (· ≠ 46) = 46 :: b := by
  induction a with
  | nil => simp
  | cons c cs ih =>
    have hc : c ≠ 46 := fun h => ha (by simp [h])
    have hcs : 46 ∉ cs := fun h => ha (by simp [h])
    rw [List.cons_append, List.dropWhile_cons_of_pos (by simpa using hc), ih hcs]

theorem takeWhile_nodot (a : Bytes) (ha : 46 ∉ a) : a.takeWhile (· ≠ 46) = a := by
  induction a with
  | nil => rfl
  | cons c cs ih =>
    have hc : c ≠ 46 := fun h => ha (by simp [h])
    have hcs : 46 ∉ cs := fun h => ha (by simp [h])
    rw [List.takeWhile_cons_of_pos (by simpa using hc), ih hcs]

theorem dropWhile_nodot (a : Bytes) (ha : 46 ∉ a) : a.dropWhile (· ≠ 46) = [] := by
  induction a with
  | nil => rfl
  | cons c cs ih =>
    have hc : c ≠ 46 := fun h => ha (by simp [h])
    have hcs : 46 ∉ cs := fun h => ha (by simp [h])
    rw [List.dropWhile_cons_of_pos (by simpa using hc), ih hcs]

/-- a digit string parses as itself, with or without a minus sign in front -/
theorem parseSigned_digits (ds : Bytes) (hne : ds ≠ []) (h : ds.all isDigit = true) : parseSigned ds = some (false, digitsVal ds) := by
  cases ds with
  | nil => exact absurd rfl hne
  | cons c cs =>
    have hc := (isDigit_iff c).1 (by simp only [List.all_cons, Bool.and_eq_true] at h; exact h.1)
    unfold parseSigned
    split
    · rename_i heq; simp at heq; omega
    · rename_i heq; simp at heq; omega
    · simp [h]

theorem parseSigned_minus (ds : Bytes) (hne : ds ≠ []) (h : ds.all isDigit = true) : parseSigned (45 :: ds) = some (true, digitsVal ds) := by
  have : ds.isEmpty = false := by cases ds <;> simp_all
  simp [parseSigned, this, h]


/-- a value as the store of it: the sign of zero is dropped (big.Int has no negative zero) -/
def normDec (d : Dec) : Dec := { d with neg := d.neg && d.mag != 0 }

theorem fmtNat_no (n c : Nat) (hc : c < 48) : c ∉ fmtNat n := all_digit_ne _ (fmtNat_all_digits n) c hc
theorem digitsW_no (w n c : Nat) (hc : c < 48) : c ∉ digitsW w n := all_digit_ne _ (digitsW_all_digits w n) c hc

theorem render_read (d : Dec) : readDec (render d) = .ok (normDec d) := by
  unfold render readDec normDec
  by_cases hs : d.scale = 0
  · -- no decimal point
    simp only [hs, if_true]
    by_cases hn : (d.neg && d.mag != 0) = true
    · simp only [hn, if_true]
      have hno : 46 ∉ ([45] ++ fmtNat d.mag) := by
        simp only [List.mem_append, List.mem_singleton, not_or]
        exact ⟨by decide, fmtNat_no _ 46 (by decide)⟩
      rw [takeWhile_nodot _ hno, dropWhile_nodot _ hno]
      simp only [List.singleton_append, parseSigned_minus _ (fmtNat_ne_nil _) (fmtNat_all_digits _), digitsVal_fmtNat]
      simp only [Bool.and_eq_true, bne_iff_ne, ne_eq] at hn
      simp [hn.1, hn.2, hs]
    · have hn' : (d.neg && d.mag != 0) = false := by simpa using hn
      simp only [hn', Bool.false_eq_true, if_false, List.nil_append]
      have hno : 46 ∉ fmtNat d.mag := fmtNat_no _ 46 (by decide)
      rw [takeWhile_nodot _ hno, dropWhile_nodot _ hno]
      simp only [parseSigned_digits _ (fmtNat_ne_nil _) (fmtNat_all_digits _), digitsVal_fmtNat]
      simp [hs]
  · simp only [hs, if_false]
    have hval : digitsVal (fmtNat (d.mag / 10 ^ d.scale) ++ digitsW d.scale (d.mag % 10 ^ d.scale)) = d.mag := by
      rw [digitsVal_append, digitsVal_fmtNat, digitsW_length, digitsVal_digitsW_of_lt _ _ (Nat.mod_lt _ (Nat.pow_pos (by decide)))]
      exact Nat.div_add_mod' _ _
    have hall : (fmtNat (d.mag / 10 ^ d.scale) ++ digitsW d.scale (d.mag % 10 ^ d.scale)).all isDigit = true := by
      simp [List.all_append, fmtNat_all_digits, digitsW_all_digits]
    have hne : fmtNat (d.mag / 10 ^ d.scale) ++ digitsW d.scale (d.mag % 10 ^ d.scale) ≠ [] := by
      intro h; exact fmtNat_ne_nil _ (List.append_eq_nil_iff.1 h).1
    have hfrac : (digitsW d.scale (d.mag % 10 ^ d.scale)).contains 46 = false := by
      simpa using digitsW_no d.scale _ 46 (by decide)
    by_cases hn : (d.neg && d.mag != 0) = true
    · simp only [hn, if_true]
      have hno : 46 ∉ ([45] ++ fmtNat (d.mag / 10 ^ d.scale)) := by
        simp only [List.mem_append, List.mem_singleton, not_or]
        exact ⟨by decide, fmtNat_no _ 46 (by decide)⟩
      have e : [45] ++ (fmtNat (d.mag / 10 ^ d.scale) ++ [46] ++ digitsW d.scale (d.mag % 10 ^ d.scale))
             = ([45] ++ fmtNat (d.mag / 10 ^ d.scale)) ++ 46 :: digitsW d.scale (d.mag % 10 ^ d.scale) := by simp
      rw [e, takeWhile_dot _ _ hno, dropWhile_dot _ _ hno]
      simp only [hfrac, Bool.false_eq_true, if_false, List.singleton_append, List.cons_append, List.nil_append]
      rw [parseSigned_minus _ hne hall, hval, digitsW_length]
      simp only [Bool.and_eq_true, bne_iff_ne, ne_eq] at hn
      simp [hn.1, hn.2]
    · have hn' : (d.neg && d.mag != 0) = false := by simpa using hn
      simp only [hn', Bool.false_eq_true, if_false, List.nil_append]
      have hno : 46 ∉ fmtNat (d.mag / 10 ^ d.scale) := fmtNat_no _ 46 (by decide)
      have e : fmtNat (d.mag / 10 ^ d.scale) ++ [46] ++ digitsW d.scale (d.mag % 10 ^ d.scale)
             = fmtNat (d.mag / 10 ^ d.scale) ++ 46 :: digitsW d.scale (d.mag % 10 ^ d.scale) := by simp
      rw [e, takeWhile_dot _ _ hno, dropWhile_dot _ _ hno]
      simp only [hfrac, Bool.false_eq_true, if_false]
      rw [parseSigned_digits _ hne hall, hval, digitsW_length]
      simp


/-- `r` is `d` rounded to `s` decimals, half away from zero (as magnitudes: ties go up) -/
def IsRoundHalfAway (d r : Dec) (s : Nat) : Prop :=
  r.scale = s ∧ 2 * r.mag * 10 ^ d.scale ≤ 2 * d.mag * 10 ^ s + 10 ^ d.scale ∧ 2 * d.mag * 10 ^ s < 2 * r.mag * 10 ^ d.scale + 10 ^ d.scale

theorem roundDec_spec (d : Dec) (s : Nat) : IsRoundHalfAway d (roundDec d s) s := by
  unfold IsRoundHalfAway roundDec
  by_cases h0 : d.scale = s
  · rw [if_pos h0]
    have : 0 < 10 ^ d.scale := Nat.pow_pos (by decide)
    refine ⟨h0, ?_, ?_⟩ <;> rw [h0] <;> rw [h0] at this <;> omega
  · rw [if_neg h0]
    refine ⟨rfl, ?_⟩
    by_cases h1 : s + 1 ≥ d.scale
    · simp only [h1, if_true]
      -- at most one digit beyond the written scale
      by_cases h2 : d.scale = s + 1
      · have e : s + 1 - d.scale = 0 := by omega
        rw [e, Nat.pow_zero, Nat.mul_one, h2, Nat.pow_succ]
        have hp : 0 < 10 ^ s := Nat.pow_pos (by decide)
        generalize 10 ^ s = p at hp
        generalize hy : (d.mag + 5) / 10 = y
        have : 10 * y ≤ d.mag + 5 ∧ d.mag + 5 < 10 * y + 10 := by omega
        constructor
        · calc 2 * y * (p * 10) = (2 * (10 * y)) * p := by rw [Nat.mul_comm p 10]; simp [Nat.mul_assoc, Nat.mul_comm, Nat.mul_left_comm]
            _ ≤ (2 * d.mag + 10) * p := Nat.mul_le_mul_right _ (by omega)
            _ = 2 * d.mag * p + p * 10 := by rw [Nat.add_mul, Nat.mul_comm 10 p]
        · calc 2 * d.mag * p < (2 * (10 * y) + 10) * p := by
                have : 2 * d.mag < 2 * (10 * y) + 10 := by omega
                exact Nat.mul_lt_mul_of_pos_right this hp
            _ = 2 * y * (p * 10) + p * 10 := by rw [Nat.add_mul, Nat.mul_comm p 10]; simp [Nat.mul_assoc, Nat.mul_comm, Nat.mul_left_comm]
      · -- fewer decimals than written: the value is exact
        have hk : d.scale ≤ s := by omega
        have e : s + 1 - d.scale = (s - d.scale) + 1 := by omega
        have hy : (d.mag * 10 ^ (s + 1 - d.scale) + 5) / 10 = d.mag * 10 ^ (s - d.scale) := by
          rw [e, Nat.pow_succ, ← Nat.mul_assoc]; omega
        rw [hy]
        have hpow : 10 ^ s = 10 ^ (s - d.scale) * 10 ^ d.scale := by rw [← Nat.pow_add]; congr 1; omega
        rw [hpow]
        have hp : 0 < 10 ^ d.scale := Nat.pow_pos (by decide)
        generalize 10 ^ d.scale = p at hp
        generalize 10 ^ (s - d.scale) = q
        have : 2 * (d.mag * q) * p = 2 * d.mag * (q * p) := by simp [Nat.mul_assoc]
        omega
    · simp only [h1, if_false]
      -- more than one digit beyond the written scale: truncate to one, then round on it
      have hk : d.scale = s + 1 + (d.scale - (s + 1)) := by omega
      generalize hj : d.scale - (s + 1) = j at hk
      have hpk : 10 ^ d.scale = 10 ^ s * (10 * 10 ^ j) := by rw [hk, Nat.pow_add, Nat.pow_succ]; simp [Nat.mul_assoc]
      rw [hpk]
      have hP : 0 < 10 ^ j := Nat.pow_pos (by decide)
      have hS : 0 < 10 ^ s := Nat.pow_pos (by decide)
      generalize 10 ^ j = P at hP
      generalize 10 ^ s = S at hS
      generalize hx : d.mag / P = x
      generalize hy : (x + 5) / 10 = y
      have hx1 : x * P ≤ d.mag := by rw [← hx]; exact Nat.div_mul_le_self _ _
      have hx2 : d.mag < x * P + P := by
        rw [← hx]; have := Nat.lt_div_mul_add (a := d.mag) hP; omega
      have hy12 : 10 * y ≤ x + 5 ∧ x + 5 < 10 * y + 10 := by omega
      have ha : 10 * (y * P) ≤ x * P + 5 * P := by
        have := Nat.mul_le_mul_right P hy12.1
        rw [Nat.add_mul, Nat.mul_assoc] at this; exact this
      have hb : x * P + 6 * P ≤ 10 * (y * P) + 10 * P := by
        have : x + 6 ≤ 10 * y + 10 := by omega
        have := Nat.mul_le_mul_right P this
        rw [Nat.add_mul, Nat.add_mul, Nat.mul_assoc] at this; exact this
      generalize x * P = a at *
      generalize hbb : y * P = b at *
      have e1 : 2 * y * (S * (10 * P)) = S * (20 * b) := by
        rw [← hbb]; simp [Nat.mul_assoc, Nat.mul_comm, Nat.mul_left_comm]
      have e2 : 2 * d.mag * S = S * (2 * d.mag) := by simp [Nat.mul_comm]
      rw [e1, e2]
      constructor
      · calc S * (20 * b) ≤ S * (2 * d.mag + 10 * P) := Nat.mul_le_mul_left _ (by omega)
          _ = S * (2 * d.mag) + S * (10 * P) := Nat.mul_add _ _ _
      · calc S * (2 * d.mag) < S * (20 * b + 10 * P) := Nat.mul_lt_mul_of_pos_left (by omega) hS
          _ = S * (20 * b) + S * (10 * P) := Nat.mul_add _ _ _


/-- `r` is `d` cut to `s` decimals toward zero -/
def IsTruncTowardZero (d r : Dec) (s : Nat) : Prop :=
  r.scale = s ∧ r.mag * 10 ^ d.scale ≤ d.mag * 10 ^ s ∧ d.mag * 10 ^ s < (r.mag + 1) * 10 ^ d.scale

theorem truncDec_spec (d : Dec) (s : Nat) : IsTruncTowardZero d (truncDec d s) s := by
  unfold IsTruncTowardZero truncDec
  by_cases h : s ≥ d.scale
  · rw [if_pos h]
    refine ⟨rfl, ?_⟩
    have hpow : 10 ^ s = 10 ^ (s - d.scale) * 10 ^ d.scale := by rw [← Nat.pow_add]; congr 1; omega
    have hp : 0 < 10 ^ d.scale := Nat.pow_pos (by decide)
    show d.mag * 10 ^ (s - d.scale) * 10 ^ d.scale ≤ d.mag * 10 ^ s ∧ d.mag * 10 ^ s < (d.mag * 10 ^ (s - d.scale) + 1) * 10 ^ d.scale
    rw [hpow, Nat.add_mul, Nat.mul_assoc]
    omega
  · rw [if_neg h]
    refine ⟨rfl, ?_⟩
    have hk : d.scale = s + (d.scale - s) := by omega
    generalize d.scale - s = j at hk
    show d.mag / 10 ^ j * 10 ^ d.scale ≤ d.mag * 10 ^ s ∧ d.mag * 10 ^ s < (d.mag / 10 ^ j + 1) * 10 ^ d.scale
    rw [hk, Nat.pow_add]
    have hP : 0 < 10 ^ j := Nat.pow_pos (by decide)
    have hS : 0 < 10 ^ s := Nat.pow_pos (by decide)
    generalize 10 ^ j = P at hP
    generalize 10 ^ s = S at hS
    have hx1 : d.mag / P * P ≤ d.mag := Nat.div_mul_le_self _ _
    have hx2 : d.mag < d.mag / P * P + P := by
      have := Nat.lt_div_mul_add (a := d.mag) hP; omega
    generalize d.mag / P = x at *
    constructor
    · calc x * (S * P) = (x * P) * S := by simp [Nat.mul_assoc, Nat.mul_comm, Nat.mul_left_comm]
        _ ≤ d.mag * S := Nat.mul_le_mul_right _ hx1
    · calc d.mag * S < (x * P + P) * S := Nat.mul_lt_mul_of_pos_right hx2 hS
        _ = (x + 1) * (S * P) := by rw [Nat.add_mul x 1, Nat.one_mul, Nat.add_mul]; simp [Nat.mul_assoc, Nat.mul_comm, Nat.mul_left_comm]

theorem render_normDec (d : Dec) : render (normDec d) = render d := by
  unfold render normDec; simp

theorem roundDec_self (d : Dec) : roundDec d d.scale = d := by simp [roundDec]

end Qfx.Dec
