/-
  Helper lemmas for C06 (Props/C06.lean): the session-level checks as facts about message fields, every outcome of
  the verification pipeline, the reaction per reject class, sending in a live session, the fields of a Reject.
-/
import Qfx.Spec.SessionTypedC06
import Qfx.Spec.Session
import Qfx.Lemmas.SessC01
namespace Qfx.Sess
open Qfx

/-! ## the checks as facts about fields -/

theorem checkBeginString_none_iff (s : Sess) (m : InMsg) : checkBeginString s m = none ↔ BeginOK s.cfg m := by
  unfold checkBeginString BeginOK
  cases h : m.f.get? 8 with
  | none => simp
  | some b => simp

theorem checkCompID_none_iff (s : Sess) (m : InMsg) : checkCompID s m = none ↔ CompOK s.cfg m := by
  unfold checkCompID CompOK
  cases h1 : m.f.get? 49 <;> cases h2 : m.f.get? 56 <;> simp
  rename_i a b
  constructor
  · intro h
    split at h
    · cases h
    · split at h
      · cases h
      · split at h
        · cases h
        · simp_all
  · rintro ⟨rfl, rfl, h3, h4⟩
    simp [h3, h4]

theorem checkSendingTime_none_iff (s : Sess) (m : InMsg) : checkSendingTime s m = none ↔ (s.cfg.skipLatency = true ∨ TimeOK m) := by
  unfold checkSendingTime TimeOK
  cases hs : s.cfg.skipLatency
  · simp only [Bool.false_eq_true, if_false, false_or]
    cases h : getTime m 52 with
    | missing => simp
    | garbled => simp
    | val d =>
      simp only [Got.val.injEq, exists_eq_left']
      constructor
      · intro h; split at h
        · cases h
        · rename_i hc; simp at hc; omega
      · intro h; rw [if_neg]; simp; omega
  · simp

/-! ## outcomes of verifySelect -/

/-- the sequence checks that were asked for passed -/
def SeqGate (s : Sess) (m : InMsg) (th tl : Bool) : Prop :=
  (tl = true → ∃ n, getInt m 34 = .val n ∧ s.store.target ≤ n) ∧ (th = true → ∃ n, getInt m 34 = .val n ∧ n ≤ s.store.target)

theorem timeGate_iff (s : Sess) (m : InMsg) :
    (if (curResend s).isSome then none else checkSendingTime s m) = none ↔ TimeGate s m := by
  unfold TimeGate
  cases h : (curResend s).isSome
  · simp [checkSendingTime_none_iff]
  · simp

theorem verifyAppImpl_cases (s : Sess) (m : InMsg) :
    (Valid s.cfg m ∧ verifyAppImpl s m = (s.emit (cbObs s m), callbackVerdict m)) ∨
    (¬ Valid s.cfg m ∧ ∃ r, verifyAppImpl s m = (s, some r)) := by
  unfold verifyAppImpl Valid
  cases h : validate s.cfg m with
  | none =>
    left
    refine ⟨rfl, ?_⟩
    simp only [cbObs]
    split <;> rfl
  | some r =>
    right
    exact ⟨fun hc => (by cases hc), r, rfl⟩

/-- every outcome of the verification pipeline: either the state is untouched (a check failed, or the callbacks
    were not asked for), or every check passed and exactly the callback observation of `m` was emitted -/
theorem verifySelect_cases (s : Sess) (m : InMsg) (th tl ai : Bool) :
    (verifySelect s m th tl ai).1 = s ∨
    (ai = true ∧ GateMsg s.cfg m ∧ TimeGate s m ∧ SeqGate s m th tl ∧
      verifySelect s m th tl ai = (s.emit (cbObs s m), callbackVerdict m)) := by
  unfold verifySelect
  split
  · left; rfl
  · rename_i hb
    split
    · left; rfl
    · rename_i hc
      split
      · left; rfl
      · rename_i ht
        split
        · left; rfl
        · rename_i hl
          split
          · left; rfl
          · rename_i hh
            cases ai with
            | false => left; rfl
            | true =>
              simp only [if_true]
              rcases verifyAppImpl_cases s m with ⟨hv, he⟩ | ⟨_, r, he⟩
              · right
                refine ⟨trivial, ⟨(checkBeginString_none_iff s m).1 hb, (checkCompID_none_iff s m).1 hc, hv⟩,
                  (timeGate_iff s m).1 ht, ⟨?_, ?_⟩, he⟩
                · intro h; subst h; exact checkTooLow_none s m hl
                · intro h; subst h; exact checkTooHigh_none s m hh
              · left; rw [he]

theorem verifySelect_noApp (s : Sess) (m : InMsg) (th tl : Bool) : (verifySelect s m th tl false).1 = s := by
  rcases verifySelect_cases s m th tl false with h | ⟨h, _⟩
  · exact h
  · cases h

/-- a verification that reports no reject passed every check that was asked for -/
theorem verifySelect_pass (s : Sess) (m : InMsg) (th tl ai : Bool) (h : (verifySelect s m th tl ai).2 = none) :
    BeginOK s.cfg m ∧ CompOK s.cfg m ∧ TimeGate s m ∧ SeqGate s m th tl ∧ (ai = true → Valid s.cfg m ∧ callbackVerdict m = none) := by
  unfold verifySelect at h
  split at h
  · cases h
  · rename_i hb
    split at h
    · cases h
    · rename_i hc
      split at h
      · cases h
      · rename_i ht
        split at h
        · cases h
        · rename_i hl
          split at h
          · cases h
          · rename_i hh
            refine ⟨(checkBeginString_none_iff s m).1 hb, (checkCompID_none_iff s m).1 hc, (timeGate_iff s m).1 ht, ⟨?_, ?_⟩, ?_⟩
            · intro h; subst h; exact checkTooLow_none s m hl
            · intro h; subst h; exact checkTooHigh_none s m hh
            · intro ha
              subst ha
              simp only [if_true] at h
              rcases verifyAppImpl_cases s m with ⟨hv, he⟩ | ⟨_, r, he⟩
              · rw [he] at h; exact ⟨hv, h⟩
              · rw [he] at h; cases h

theorem checkTooLow_none_iff (s : Sess) (m : InMsg) : checkTooLow s m = none ↔ ∃ n, getInt m 34 = .val n ∧ s.store.target ≤ n := by
  constructor
  · exact checkTooLow_none s m
  · rintro ⟨n, hn, h⟩
    unfold checkTooLow
    rw [hn]; simp only []; rw [if_neg]; omega

theorem checkTooHigh_none_iff (s : Sess) (m : InMsg) : checkTooHigh s m = none ↔ ∃ n, getInt m 34 = .val n ∧ n ≤ s.store.target := by
  constructor
  · exact checkTooHigh_none s m
  · rintro ⟨n, hn, h⟩
    unfold checkTooHigh
    rw [hn]; simp only []; rw [if_neg]; omega

/-- the gate is exactly the condition: when it holds the pipeline passes (and, with the callbacks on, delivers) -/
theorem verifySelect_complete (s : Sess) (m : InMsg) (th tl ai : Bool) (hb : BeginOK s.cfg m) (hc : CompOK s.cfg m)
    (ht : TimeGate s m) (hs : SeqGate s m th tl) :
    verifySelect s m th tl ai = if ai then verifyAppImpl s m else (s, none) := by
  unfold verifySelect
  rw [(checkBeginString_none_iff s m).2 hb, (checkCompID_none_iff s m).2 hc, (timeGate_iff s m).2 ht]
  have h1 : (if tl = true then checkTooLow s m else none) = none := by
    cases tl
    · rfl
    · simp only [if_true]; exact (checkTooLow_none_iff s m).2 (hs.1 rfl)
  have h2 : (if th = true then checkTooHigh s m else none) = none := by
    cases th
    · rfl
    · simp only [if_true]; exact (checkTooHigh_none_iff s m).2 (hs.2 rfl)
  rw [h1, h2]

theorem verifyAppImpl_pass (s : Sess) (m : InMsg) (h : Valid s.cfg m) : verifyAppImpl s m = (s.emit (cbObs s m), callbackVerdict m) := by
  rcases verifyAppImpl_cases s m with ⟨_, he⟩ | ⟨hn, _⟩
  · exact he
  · exact absurd h hn

/-! ## reactions -/

/-- the checks in front of the sequence checks, in the order verifySelect runs them -/
def earlyCheck (s : Sess) (m : InMsg) : Option Rej :=
  match checkBeginString s m with
  | some r => some r
  | none => match checkCompID s m with
    | some r => some r
    | none => if (curResend s).isSome then none else checkSendingTime s m

theorem verifySelect_early (s : Sess) (m : InMsg) (r : Rej) (h : earlyCheck s m = some r) (th tl ai : Bool) :
    verifySelect s m th tl ai = (s, some r) := by
  unfold earlyCheck at h
  unfold verifySelect
  split at h
  · cases h; simp [*]
  · split at h
    · cases h; simp [*]
    · simp [*]

theorem verifySelect_low (s : Sess) (m : InMsg) (r : Rej) (h0 : earlyCheck s m = none) (h : checkTooLow s m = some r) (th ai : Bool) :
    verifySelect s m th true ai = (s, some r) := by
  unfold earlyCheck at h0
  unfold verifySelect
  split at h0
  · cases h0
  · split at h0
    · cases h0
    · simp [*]

theorem earlyCheck_none_iff (s : Sess) (m : InMsg) : earlyCheck s m = none ↔ (BeginOK s.cfg m ∧ CompOK s.cfg m ∧ TimeGate s m) := by
  unfold earlyCheck
  rw [← checkBeginString_none_iff, ← checkCompID_none_iff, ← timeGate_iff]
  cases checkBeginString s m <;> cases checkCompID s m <;> simp

/-- kinds handled by `inSessionFixMsgIn` through the verification pipeline with the callbacks on (everything but
    Logon; a SequenceReset only when its GapFillFlag is readable) -/

theorem inSession_of_reject (s : Sess) (m : InMsg) (r : Rej) (hk : kindOf m ≠ "A")
    (h4 : kindOf m = "4" → getBool m 123 ≠ .garbled)
    (hv : ∀ th tl, verifySelect s m th tl true = (s, some r)) : inSessionFixMsgIn s m = processReject s m r := by
  unfold inSessionFixMsgIn
  simp only [beq_iff_eq, hk, if_false]
  split
  · unfold handleLogout; rw [hv]
  · split
    · unfold handleResendRequest; rw [hv]
    · split
      · rename_i h
        unfold handleSequenceReset
        have := h4 h
        split
        · contradiction
        · simp only [hv]
      · split
        · unfold handleTestRequest; rw [hv]
        · rw [hv]

/-- kinds whose MsgSeqNum is checked for "too low" -/
def SeqChecked (m : InMsg) : Prop :=
  kindOf m ≠ "A" ∧ kindOf m ≠ "5" ∧ kindOf m ≠ "2" ∧ (kindOf m = "4" → getBool m 123 = .val true)

theorem inSession_of_reject_seq (s : Sess) (m : InMsg) (r : Rej) (hk : SeqChecked m)
    (hv : ∀ th, verifySelect s m th true true = (s, some r)) : inSessionFixMsgIn s m = processReject s m r := by
  obtain ⟨hA, h5, h2, h4⟩ := hk
  unfold inSessionFixMsgIn
  simp only [beq_iff_eq, hA, h5, h2, if_false]
  split
  · rename_i h
    unfold handleSequenceReset
    rw [h4 h]
    simp only [hv]
  · split
    · unfold handleTestRequest; rw [hv]
    · rw [hv]
/-! the first failing check, per defect -/
theorem early_begin_wrong (s : Sess) (m : InMsg) (b : String) (h8 : m.f.get? 8 = some b) (hb : b ≠ bsName s.cfg.bs) :
    earlyCheck s m = some .badBeginString := by
  simp [earlyCheck, checkBeginString, h8, hb]

theorem early_begin_missing (s : Sess) (m : InMsg) (h8 : m.f.get? 8 = none) :
    earlyCheck s m = some (reqMissing 8) := by
  simp [earlyCheck, checkBeginString, h8]

theorem early_comp_mismatch (s : Sess) (m : InMsg) (hb : BeginOK s.cfg m) (a b : String)
    (h49 : m.f.get? 49 = some a) (h56 : m.f.get? 56 = some b) (ha : a.isEmpty = false) (hbb : b.isEmpty = false)
    (hne : a ≠ s.cfg.target ∨ b ≠ s.cfg.sender) : earlyCheck s m = some (.plain 9 none false) := by
  have : (s.cfg.sender != b || s.cfg.target != a) = true := by
    rcases hne with h | h
    · simp [Ne.symm h]
    · simp [Ne.symm h]
  simp [earlyCheck, (checkBeginString_none_iff s m).2 hb, checkCompID, h49, h56, ha, hbb, this]

theorem early_49_missing (s : Sess) (m : InMsg) (hb : BeginOK s.cfg m) (h49 : m.f.get? 49 = none) :
    earlyCheck s m = some (reqMissing 49) := by
  simp [earlyCheck, (checkBeginString_none_iff s m).2 hb, checkCompID, h49]

theorem early_56_missing (s : Sess) (m : InMsg) (hb : BeginOK s.cfg m) (a : String) (h49 : m.f.get? 49 = some a) (h56 : m.f.get? 56 = none) :
    earlyCheck s m = some (reqMissing 56) := by
  simp [earlyCheck, (checkBeginString_none_iff s m).2 hb, checkCompID, h49, h56]

theorem early_56_empty (s : Sess) (m : InMsg) (hb : BeginOK s.cfg m) (a : String) (h49 : m.f.get? 49 = some a) (h56 : m.f.get? 56 = some "") :
    earlyCheck s m = some (noValue 56) := by
  simp [earlyCheck, (checkBeginString_none_iff s m).2 hb, checkCompID, h49, h56]

theorem early_49_empty (s : Sess) (m : InMsg) (hb : BeginOK s.cfg m) (b : String) (h49 : m.f.get? 49 = some "") (h56 : m.f.get? 56 = some b)
    (hbb : b.isEmpty = false) : earlyCheck s m = some (noValue 49) := by
  simp [earlyCheck, (checkBeginString_none_iff s m).2 hb, checkCompID, h49, h56, hbb]

theorem early_time (s : Sess) (m : InMsg) (hb : BeginOK s.cfg m) (hc : CompOK s.cfg m)
    (hl : s.cfg.skipLatency = false) (hr : curResend s = none) :
    earlyCheck s m = match getTime m 52 with
      | .missing => some (reqMissing 52)
      | .garbled => some (badFormat 52)
      | .val d => if d ≤ -120 || d ≥ 120 then some (.plain 10 none false) else none := by
  simp [earlyCheck, (checkBeginString_none_iff s m).2 hb, (checkCompID_none_iff s m).2 hc, hr, checkSendingTime, hl]
  cases getTime m 52 <;> rfl

/-! the reaction to each kind of reject -/
theorem processReject_badBegin (s : Sess) (m : InMsg) : processReject s m .badBeginString = (initiateLogout s, .logout) := rfl
theorem processReject_9 (s : Sess) (m : InMsg) :
    processReject s m (.plain 9 none false) = (initiateLogout (doReject s m 9 none false), .logout) := rfl
theorem processReject_10 (s : Sess) (m : InMsg) :
    processReject s m (.plain 10 none false) = (initiateLogout (doReject s m 10 none false), .logout) := rfl
theorem processReject_reqMissing (s : Sess) (m : InMsg) (t : Nat) :
    processReject s m (reqMissing t) = (incrTarget (doReject s m 1 (some t) false), .inSession) := rfl
theorem processReject_noValue (s : Sess) (m : InMsg) (t : Nat) :
    processReject s m (noValue t) = (incrTarget (doReject s m 4 (some t) false), .inSession) := rfl
theorem processReject_badFormat (s : Sess) (m : InMsg) (t : Nat) :
    processReject s m (badFormat t) = (incrTarget (doReject s m 6 (some t) false), .inSession) := rfl
theorem processReject_tooLow_noPossDup (s : Sess) (m : InMsg) (a b : Int)
    (h43 : getBool m 43 = .missing ∨ getBool m 43 = .val false) :
    processReject s m (.tooLow a b) = (initiateLogout s, .logout) := by
  simp only [processReject, doTargetTooLow]
  rcases h43 with h | h <;> simp [h]

/-! ## sending in a live session -/

/-- a session in which a reply is written to the wire immediately: logged on, connected, nothing queued -/
structure Live (s : Sess) : Prop where
  on : s.st.loggedOn = true
  out : s.out = true
  q : s.toSend = []

/-- the store observation of persisting outbound `m` under number `n` -/
def savedObs (s : Sess) (n : Int) (m : OutMsg) : Obs := if s.cfg.persist then .saved n m.kind (resendable m) else .incS

/-- a reply that is administrative and not a Logon -/
def PlainAdmin (m : OutMsg) : Prop := isAdminKind m.kind = true ∧ (m.kind == "A") = false

/-- sending one administrative reply in a live session: numbered with the next outbound number, persisted, written -/
theorem sendInReplyTo_live (s : Sess) (m : OutMsg) (hs : Live s) (hm : PlainAdmin m) :
    (sendInReplyTo s m).log = .wire { stamp s m with seq := s.store.sender } :: savedObs s s.store.sender { stamp s m with seq := s.store.sender } :: s.log
    ∧ (sendInReplyTo s m).store.target = s.store.target
    ∧ (sendInReplyTo s m).store.sender = s.store.sender + 1
    ∧ (sendInReplyTo s m).st = s.st ∧ (sendInReplyTo s m).cfg = s.cfg ∧ Live (sendInReplyTo s m) := by
  obtain ⟨h1, h2, h3⟩ := hs
  obtain ⟨k1, k2⟩ := hm
  have k1' : isAdminKind (stamp s m).kind = true := by rw [stamp_kind]; exact k1
  have k2' : ((stamp s m).kind == "A") = false := by rw [stamp_kind]; exact k2
  unfold sendInReplyTo prep prepCore
  generalize stamp s m = sm at k1' k2' ⊢
  simp only [h1, k1', k2', Bool.not_true, Bool.false_eq_true, if_false, if_true, Bool.false_and]
  unfold sendQueued Sess.persistOut savedObs
  cases hp : s.cfg.persist <;>
    simp [Sess.setToSend, Sess.emit, h2, h3, resendable]
  · exact ⟨h1, rfl, rfl⟩
  · exact ⟨h1, rfl, rfl⟩

/-! ## the fields of a Reject -/

/-! ### association-list facts -/
theorem get?_nil (t : Nat) : Fields.get? [] t = none := rfl

theorem get?_append (a b : Fields) (t : Nat) :
    Fields.get? (a ++ b) t = match Fields.get? a t with | some v => some v | none => Fields.get? b t := by
  unfold Fields.get?
  rw [List.find?_append]
  cases h : List.find? (fun x => x.1 == t) a <;> simp

theorem get?_none_of_tags (a : Fields) (t : Nat) (h : ∀ p ∈ a, p.1 ≠ t) : Fields.get? a t = none := by
  unfold Fields.get?
  have : List.find? (fun x => x.1 == t) a = none := by
    rw [List.find?_eq_none]; intro p hp; simpa using h p hp
  rw [this]; rfl

theorem get?_append_left_none (a b : Fields) (t : Nat) (h : ∀ p ∈ a, p.1 ≠ t) : Fields.get? (a ++ b) t = Fields.get? b t := by
  rw [get?_append, get?_none_of_tags a t h]

theorem get?_append_right_none (a b : Fields) (t : Nat) (h : ∀ p ∈ b, p.1 ≠ t) : Fields.get? (a ++ b) t = Fields.get? a t := by
  rw [get?_append, get?_none_of_tags b t h]
  cases Fields.get? a t <;> rfl

theorem get?_filter_ne (a : Fields) (t : Nat) (q : Nat → Bool) (hq : q t = true) :
    Fields.get? (a.filter (fun p => q p.1)) t = Fields.get? a t := by
  unfold Fields.get?
  rw [List.find?_filter]
  have : (fun a : Nat × String => decide (q a.1 = true ∧ (a.1 == t) = true)) = (fun a => a.1 == t) := by
    funext x
    by_cases hx : x.1 = t
    · simp [hx, hq]
    · simp [hx]
  rw [this]

/-- one copy step of reverseRoute -/
def cpF (m : InMsg) (src dst : Nat) : Fields :=
  match m.f.get? src with
  | some v => if v.isEmpty then [] else [(dst, v)]
  | none => []

/-- the FIX.4.1+ part of reverseRoute -/
def tail41 (m : InMsg) : Fields :=
  match m.f.get? 8 with
  | some b => if b != "FIX.4.0" then cpF m 144 145 ++ cpF m 145 144 else []
  | none => []

theorem reverseRoute_eq (m : InMsg) : reverseRoute m =
    cpF m 49 56 ++ cpF m 50 57 ++ cpF m 142 143 ++ cpF m 56 49 ++ cpF m 57 50 ++ cpF m 143 142
    ++ cpF m 115 128 ++ cpF m 116 129 ++ cpF m 128 115 ++ cpF m 129 116 ++ tail41 m := rfl

/-- the reversed value: the inbound field when present and non-empty -/
def revVal (m : InMsg) (src : Nat) : Option String := (m.f.get? src).filter (fun v => !v.isEmpty)

theorem cpF_tag (m : InMsg) (src dst : Nat) : ∀ p ∈ cpF m src dst, p.1 = dst := by
  unfold cpF; intro p hp
  split at hp
  · split at hp <;> simp_all
  · simp at hp

theorem cpF_get (m : InMsg) (src dst : Nat) : Fields.get? (cpF m src dst) dst = revVal m src := by
  unfold cpF revVal
  cases h : m.f.get? src with
  | none => rfl
  | some v =>
    cases hv : v.isEmpty <;> simp [hv, Fields.get?, Option.filter]

theorem cpF_get_ne (m : InMsg) (src dst t : Nat) (h : dst ≠ t) : Fields.get? (cpF m src dst) t = none :=
  get?_none_of_tags _ _ (fun p hp => by rw [cpF_tag m src dst p hp]; exact h)


theorem tail41_get_ne (m : InMsg) (t : Nat) (h1 : t ≠ 145) (h2 : t ≠ 144) : Fields.get? (tail41 m) t = none := by
  apply get?_none_of_tags
  intro p hp
  unfold tail41 at hp
  split at hp
  · split at hp
    · rcases List.mem_append.1 hp with hp | hp
      · rw [cpF_tag _ _ _ p hp]; exact Ne.symm h1
      · rw [cpF_tag _ _ _ p hp]; exact Ne.symm h2
    · simp at hp
  · simp at hp

open Qfx.SessSpec in
theorem reverseRoute_get (m : InMsg) (src dst : Nat) (h : (src, dst) ∈ reversePairs) :
    Fields.get? (reverseRoute m) dst = revVal m src := by
  rw [reverseRoute_eq]
  simp only [reversePairs, List.mem_cons, Prod.mk.injEq, List.not_mem_nil, or_false] at h
  rcases h with ⟨rfl, rfl⟩ | ⟨rfl, rfl⟩ | ⟨rfl, rfl⟩ | ⟨rfl, rfl⟩ | ⟨rfl, rfl⟩ | ⟨rfl, rfl⟩ | ⟨rfl, rfl⟩ | ⟨rfl, rfl⟩ <;>
    simp [get?_append, cpF_get, cpF_get_ne, tail41_get_ne] <;> cases revVal m _ <;> rfl

/-- what FIX.4.1+ adds to the reversal: nothing when the inbound BeginString is FIX.4.0 (or absent) -/
def revVal41 (m : InMsg) (src : Nat) : Option String :=
  match m.f.get? 8 with
  | some b => if b != "FIX.4.0" then revVal m src else none
  | none => none

theorem tail41_get (m : InMsg) : Fields.get? (tail41 m) 145 = revVal41 m 144 ∧ Fields.get? (tail41 m) 144 = revVal41 m 145 := by
  unfold tail41 revVal41
  split
  · split
    · simp [get?_append, cpF_get, cpF_get_ne]
      cases revVal m 144 <;> simp
    · exact ⟨rfl, rfl⟩
  · exact ⟨rfl, rfl⟩

open Qfx.SessSpec in
theorem reverseRoute_get41 (m : InMsg) (src dst : Nat) (h : (src, dst) ∈ reversePairs41) :
    Fields.get? (reverseRoute m) dst = revVal41 m src := by
  rw [reverseRoute_eq]
  simp only [reversePairs41, List.mem_cons, Prod.mk.injEq, List.not_mem_nil, or_false] at h
  rcases h with ⟨rfl, rfl⟩ | ⟨rfl, rfl⟩ <;>
    simp [get?_append, cpF_get_ne, tail41_get]

def routingOf (m : InMsg) : Fields := (reverseRoute m).filter (fun p => p.1 != 49 && p.1 != 56)

/-- the non-routing fields of a Reject -/
def rejTail (cfg : Cfg) (m : InMsg) (reason : Nat) (refTag : Option Nat) (business : Bool) : Fields :=
  (if cfg.bs ≥ 2 then
    (if business then [(380, toString reason), (372, kindOf m)]
     else (if reason > 11 && cfg.bs == 2 then [] else [(373, toString reason)])
          ++ (match refTag with | some t => [(371, toString t)] | none => []) ++ [(372, kindOf m)])
   else [])
  ++ (match getInt m 34 with | .val i => [(45, toString i)] | _ => [])

theorem rejectMsg_f_eq (cfg : Cfg) (m : InMsg) (reason : Nat) (refTag : Option Nat) (business : Bool) :
    (rejectMsg cfg m reason refTag business).f = routingOf m ++ rejTail cfg m reason refTag business := by
  unfold rejectMsg rejTail routingOf
  simp only []
  cases getInt m 34 <;> cases refTag <;> by_cases h1 : cfg.bs ≥ 2 <;> by_cases h2 : business = true <;>
    simp [h1, h2, mkOut, List.append_assoc]

theorem reverseRoute_tags (m : InMsg) : ∀ p ∈ reverseRoute m, p.1 ∈ [56, 57, 143, 49, 50, 142, 128, 129, 115, 116, 145, 144] := by
  intro p hp
  rw [reverseRoute_eq] at hp
  simp only [List.mem_append] at hp
  have ht : ∀ p ∈ tail41 m, p.1 = 145 ∨ p.1 = 144 := by
    intro p hp
    unfold tail41 at hp
    split at hp
    · split at hp
      · rcases List.mem_append.1 hp with hp | hp
        · left; exact cpF_tag _ _ _ p hp
        · right; exact cpF_tag _ _ _ p hp
      · simp at hp
    · simp at hp
  rcases hp with ((((((((((hp | hp) | hp) | hp) | hp) | hp) | hp) | hp) | hp) | hp) | hp)
  all_goals first
    | (rw [cpF_tag _ _ _ p hp]; decide)
    | (rcases ht p hp with h | h <;> rw [h] <;> decide)

theorem routingOf_get_none (m : InMsg) (t : Nat) (h : t ∉ [57, 143, 50, 142, 128, 129, 115, 116, 145, 144]) :
    Fields.get? (routingOf m) t = none := by
  apply get?_none_of_tags
  intro p hp
  unfold routingOf at hp
  rw [List.mem_filter] at hp
  have h1 := reverseRoute_tags m p hp.1
  have h2 := hp.2
  intro hc
  rw [hc] at h1 h2
  simp at h h1 h2
  omega

theorem rejTail_tags (cfg : Cfg) (m : InMsg) (reason : Nat) (refTag : Option Nat) (business : Bool) :
    ∀ p ∈ rejTail cfg m reason refTag business, p.1 ∈ [373, 371, 372, 380, 45] := by
  intro p hp
  unfold rejTail at hp
  simp only [List.mem_append] at hp
  rcases hp with hp | hp
  · split at hp
    · split at hp
      · simp at hp; rcases hp with rfl | rfl <;> simp
      · simp only [List.mem_append] at hp
        rcases hp with (hp | hp) | hp
        · split at hp <;> simp at hp; subst hp; simp
        · split at hp <;> simp at hp; subst hp; simp
        · simp at hp; subst hp; simp
    · simp at hp
  · split at hp <;> simp at hp; subst hp; simp

open Qfx.SessSpec in
theorem routingOf_get (m : InMsg) (src dst : Nat) (h : (src, dst) ∈ reversePairs) :
    Fields.get? (routingOf m) dst = revVal m src := by
  rw [← reverseRoute_get m src dst h]
  unfold routingOf
  apply get?_filter_ne (reverseRoute m) dst (fun t => t != 49 && t != 56)
  simp only [reversePairs, List.mem_cons, Prod.mk.injEq, List.not_mem_nil, or_false] at h
  rcases h with ⟨_, rfl⟩ | ⟨_, rfl⟩ | ⟨_, rfl⟩ | ⟨_, rfl⟩ | ⟨_, rfl⟩ | ⟨_, rfl⟩ | ⟨_, rfl⟩ | ⟨_, rfl⟩ <;> decide

open Qfx.SessSpec in
theorem routingOf_get41 (m : InMsg) (src dst : Nat) (h : (src, dst) ∈ reversePairs41) :
    Fields.get? (routingOf m) dst = revVal41 m src := by
  rw [← reverseRoute_get41 m src dst h]
  unfold routingOf
  apply get?_filter_ne (reverseRoute m) dst (fun t => t != 49 && t != 56)
  simp only [reversePairs41, List.mem_cons, Prod.mk.injEq, List.not_mem_nil, or_false] at h
  rcases h with ⟨_, rfl⟩ | ⟨_, rfl⟩ <;> decide

theorem rejectMsg_get_routing (cfg : Cfg) (m : InMsg) (reason : Nat) (refTag : Option Nat) (business : Bool) (t : Nat)
    (ht : t ∉ [373, 371, 372, 380, 45]) :
    (rejectMsg cfg m reason refTag business).f.get? t = Fields.get? (routingOf m) t := by
  rw [rejectMsg_f_eq]
  apply get?_append_right_none
  intro p hp hc
  have := rejTail_tags cfg m reason refTag business p hp
  rw [hc] at this; exact ht this

theorem rejectMsg_get_tail (cfg : Cfg) (m : InMsg) (reason : Nat) (refTag : Option Nat) (business : Bool) (t : Nat)
    (ht : t ∈ [373, 371, 372, 380, 45]) :
    (rejectMsg cfg m reason refTag business).f.get? t = Fields.get? (rejTail cfg m reason refTag business) t := by
  rw [rejectMsg_f_eq, get?_append, routingOf_get_none m t]
  intro hc
  simp at ht hc
  omega

theorem rejTail_get45 (cfg : Cfg) (m : InMsg) (reason : Nat) (refTag : Option Nat) (business : Bool) :
    Fields.get? (rejTail cfg m reason refTag business) 45 = match getInt m 34 with | .val n => some (toString n) | _ => none := by
  unfold rejTail
  rw [get?_append_left_none]
  · cases getInt m 34 <;> rfl
  · intro p hp
    split at hp
    · split at hp
      · simp at hp; rcases hp with rfl | rfl <;> simp
      · simp only [List.mem_append] at hp
        rcases hp with (hp | hp) | hp
        · split at hp <;> simp at hp; subst hp; simp
        · split at hp <;> simp at hp; subst hp; simp
        · simp at hp; subst hp; simp
    · simp at hp

theorem rejectMsg_kind (cfg : Cfg) (m : InMsg) (reason : Nat) (refTag : Option Nat) (business : Bool) :
    (rejectMsg cfg m reason refTag business).kind = if cfg.bs ≥ 2 ∧ business = true then "j" else "3" := by
  unfold rejectMsg
  by_cases h1 : cfg.bs ≥ 2 <;> by_cases h2 : business = true <;> simp [h1, h2, mkOut]

theorem rejTail_get_reason (cfg : Cfg) (m : InMsg) (reason : Nat) (refTag : Option Nat) (business : Bool) :
    let tl := rejTail cfg m reason refTag business
    Fields.get? tl 373 = (if cfg.bs ≥ 2 ∧ business = false ∧ ¬ (reason > 11 ∧ cfg.bs = 2) then some (toString reason) else none)
    ∧ Fields.get? tl 371 = (if cfg.bs ≥ 2 ∧ business = false then refTag.map toString else none)
    ∧ Fields.get? tl 372 = (if cfg.bs ≥ 2 then some (kindOf m) else none)
    ∧ Fields.get? tl 380 = (if cfg.bs ≥ 2 ∧ business = true then some (toString reason) else none) := by
  unfold rejTail
  cases getInt m 34 <;> cases refTag <;> by_cases h1 : cfg.bs ≥ 2 <;> cases business <;>
    by_cases h3 : (reason > 11 ∧ cfg.bs = 2) <;> simp [h1, h3, Fields.get?] <;> simp_all


theorem plainAdmin_logout : PlainAdmin (mkOut "5" []) := ⟨by decide, by decide⟩

theorem plainAdmin_reject (cfg : Cfg) (m : InMsg) (r : Nat) (t : Option Nat) : PlainAdmin (rejectMsg cfg m r t false) := by
  unfold PlainAdmin
  rw [rejectMsg_kind]
  simp
  decide


end Qfx.Sess
